import HmsProofs.Lemmas.SimHLabels
/-!
# Slots of a function of the general fragment are below its frame size
-/
namespace HmsProofs.Sim
open Hms.Core Hms.Core.Comp Hms.Core.VM

/-- Variables of the code of an expression are the resolutions of its identifiers. -/
theorem codeVars_litTests (sp : Span) (name : String) : ∀ (lits : List Expr), codeVars (litTests sp name lits) = [] := by
  intro lits
  induction lits with
  | nil => rfl
  | cons l ls ih =>
    have hl : codeVars (litCode l) = [] := by cases l <;> rfl
    simp only [litTests, codeVars_append, hl, ih, List.append_nil, List.nil_append]
    rfl

theorem codeVars_armTests (mod : String) (sp : Span) : ∀ (arms : List (List Expr × Expr)) (lm : LM),
    codeVars (armTests mod sp arms lm).1 = [] := by
  intro arms
  induction arms with
  | nil => intro lm; rfl
  | cons a rest ih =>
    intro lm
    simp only [armTests, codeVars_append, codeVars_litTests, ih, List.append_nil]

theorem codeVars_cgEls (mod : String) (ρ : String → Option String) (sp : Span) : ∀ (xs : List Expr) (lm : LM),
    ∀ m ∈ codeVars (cgEls mod ρ sp xs lm).1, ∃ x ∈ xs.flatMap Frag.varsE, ρ x = some m := by
  intro xs
  induction xs with
  | nil => intro lm m hm; simp [cgEls, codeVars] at hm
  | cons x xs ih =>
    intro lm m hm
    simp only [cgEls, codeVars_append, List.mem_append] at hm
    rcases hm with (hm | hm) | hm
    · obtain ⟨y, hy, h⟩ := (codeVars_cpE mod ρ (Frag.depthE x)).1 x lm (Nat.le_refl _) m hm
      exact ⟨y, by simp [hy], h⟩
    · simp [codeVars, var?] at hm
    · obtain ⟨y, hy, h⟩ := ih _ m hm
      exact ⟨y, by simp only [List.flatMap_cons, List.mem_append]; exact Or.inr hy, h⟩

theorem codeVars_cgFields (mod : String) (ρ : String → Option String) (sp : Span) :
    ∀ (fs : List (String × Expr)) (lm : LM),
    ∀ m ∈ codeVars (cgFields mod ρ sp fs lm).1, ∃ x ∈ fs.flatMap (fun f => Frag.varsE f.2), ρ x = some m := by
  intro fs
  induction fs with
  | nil => intro lm m hm; simp [cgFields, codeVars] at hm
  | cons f fs ih =>
    intro lm m hm
    simp only [cgFields, codeVars_append, List.mem_append] at hm
    rcases hm with ((hm | hm) | hm) | hm
    · simp [codeVars, var?] at hm
    · obtain ⟨y, hy, h⟩ := (codeVars_cpE mod ρ (Frag.depthE f.2)).1 f.2 lm (Nat.le_refl _) m hm
      exact ⟨y, by simp [hy], h⟩
    · simp [codeVars, var?] at hm
    · obtain ⟨y, hy, h⟩ := ih _ m hm
      exact ⟨y, by simp only [List.flatMap_cons, List.mem_append]; exact Or.inr hy, h⟩

theorem codeVars_cgE (mod : String) (ρ φ : String → Option String) : ∀ (n : Nat),
    (∀ (e : Expr) (lm : LM), Frag.depthGE e ≤ n →
      ∀ m ∈ codeVars (cgE mod ρ φ e lm).1, ∃ x ∈ Frag.varsGE e, ρ x = some m) ∧
    (∀ (b : Block) (lm : LM), Frag.depthGB b ≤ n →
      ∀ m ∈ codeVars (cgB mod ρ φ b lm).1, ∃ x ∈ Frag.varsGB b, ρ x = some m) ∧
    (∀ (args : List (String × Expr)) (lm : LM), Frag.depthGArgs args ≤ n →
      ∀ m ∈ codeVars (cgArgs mod ρ φ args lm).1, ∃ x ∈ Frag.varsGArgs args, ρ x = some m) ∧
    (∀ (sp : Span) (after : String) (arms : List (List Expr × Expr)) (nms : List String) (lm : LM),
      Frag.depthGArms arms ≤ n →
      ∀ m ∈ codeVars (cgArms mod ρ φ sp after arms nms lm).1, ∃ x ∈ Frag.varsGArms arms, ρ x = some m) := by
  intro n
  induction n with
  | zero =>
    refine ⟨?_, ?_, ?_, ?_⟩
    · intro e lm hd; have := depthGE_pos e; omega
    · intro b lm hd
      obtain ⟨sp, ty, stmts, oe⟩ := b
      cases oe <;> simp [Frag.depthGB] at hd
    · intro args lm hd
      cases args <;> simp [Frag.depthGArgs] at hd
    · intro sp after arms nms lm hd
      cases arms <;> simp [Frag.depthGArms] at hd
  | succ n ih =>
    obtain ⟨ihE, ihB, ihA, ihM⟩ := ih
    refine ⟨?_, ?_, ?_, ?_⟩
    · intro e lm hd m hm
      cases e
      case int | bool | str | null | none | float | range | anyobj | lambda | assign
          | blockE | tryE =>
        simp [cgE, codeVars, var?] at hm
      case cast sp ty e =>
        simp only [cgE, codeVars_append, List.mem_append] at hm
        rcases hm with hm | hm
        · obtain ⟨x, hx, h⟩ := ihE e lm (by simp only [Frag.depthGE] at hd; omega) m hm
          exact ⟨x, by simpa [Frag.varsGE] using hx, h⟩
        · simp [codeVars, var?] at hm
      case obj sp ty fs =>
        simp only [cgE, codeVars_append, List.mem_append] at hm
        rcases hm with hm | hm
        · simp [codeVars, var?] at hm
        · obtain ⟨y, hy, h⟩ := codeVars_cgFields mod ρ sp fs lm m hm
          exact ⟨y, by simpa [Frag.varsGE] using hy, h⟩
      case member sp ty b name mop =>
        cases mop <;> try (simp [cgE, codeVars, var?] at hm; done)
        simp only [Frag.depthGE] at hd
        simp only [cgE, codeVars_append, List.mem_append] at hm
        rcases hm with hm | hm
        · obtain ⟨x, hx, h⟩ := ihE b lm (by omega) m hm
          exact ⟨x, by simp [Frag.varsGE, hx], h⟩
        · simp [codeVars, var?] at hm
      case list sp ty xs =>
        simp only [cgE, codeVars_append, List.mem_append] at hm
        rcases hm with hm | hm
        · simp [codeVars, var?] at hm
        · obtain ⟨y, hy, h⟩ := codeVars_cgEls mod ρ sp xs lm m hm
          exact ⟨y, by simpa [Frag.varsGE] using hy, h⟩
      case index sp ty b i =>
        simp only [Frag.depthGE] at hd
        simp only [cgE, codeVars_append, List.mem_append] at hm
        rcases hm with (hm | hm) | hm
        · obtain ⟨x, hx, h⟩ := ihE b lm (by omega) m hm
          exact ⟨x, by simp [Frag.varsGE, hx], h⟩
        · obtain ⟨x, hx, h⟩ := ihE i _ (by omega) m hm
          exact ⟨x, by simp [Frag.varsGE, hx], h⟩
        · simp [codeVars, var?] at hm
      case matchE sp ty c arms dflt =>
        cases dflt with
        | none => simp [cgE, codeVars] at hm
        | some d =>
          simp only [Frag.depthGE] at hd
          simp only [cgE, codeVars_append, codeVars_armTests, List.mem_append] at hm
          rcases hm with (((((hm | hm) | hm) | hm) | hm) | hm) | hm
          · obtain ⟨x, hx, h⟩ := ihE c lm (by omega) m hm
            exact ⟨x, by simp [Frag.varsGE, hx], h⟩
          · simp at hm
          · simp [codeVars, var?] at hm
          · obtain ⟨x, hx, h⟩ := ihM _ _ arms _ _ (by omega) m hm
            exact ⟨x, by simp [Frag.varsGE, hx], h⟩
          · simp [codeVars, var?] at hm
          · obtain ⟨x, hx, h⟩ := ihE d _ (by omega) m hm
            exact ⟨x, by simp [Frag.varsGE, hx], h⟩
          · simp [codeVars, var?] at hm
      case grouped sp e =>
        rw [cgE] at hm
        exact ihE e lm (by simp only [Frag.depthGE] at hd; omega) m hm
      case ident sp ty name g f si =>
        simp only [cgE] at hm
        cases hρ : ρ name with
        | none => simp [hρ, codeVars] at hm
        | some m' =>
          simp only [hρ, codeVars, List.filterMap_cons, var?, List.filterMap_nil, List.mem_singleton] at hm
          subst hm
          exact ⟨name, by simp [Frag.varsGE], hρ⟩
      case pre sp ty op e =>
        simp only [cgE, codeVars_append, List.mem_append] at hm
        rcases hm with hm | hm
        · obtain ⟨x, hx, h⟩ := ihE e lm (by simp only [Frag.depthGE] at hd; omega) m hm
          exact ⟨x, by simpa [Frag.varsGE] using hx, h⟩
        · cases op <;> simp [codeVars, preI, var?] at hm
      case «infix» sp ty op l r =>
        simp only [Frag.depthGE] at hd
        have hdl : Frag.depthGE l ≤ n := by omega
        have hdr : Frag.depthGE r ≤ n := by omega
        have hsub : ∀ lm1 lm2, m ∈ codeVars (cgE mod ρ φ l lm1).1 ∨ m ∈ codeVars (cgE mod ρ φ r lm2).1 →
            ∃ x ∈ Frag.varsGE (.infix sp ty op l r), ρ x = some m := by
          intro lm1 lm2 h
          rcases h with h | h
          · obtain ⟨x, hx, h⟩ := ihE l lm1 hdl m h
            exact ⟨x, by simp [Frag.varsGE, hx], h⟩
          · obtain ⟨x, hx, h⟩ := ihE r lm2 hdr m h
            exact ⟨x, by simp [Frag.varsGE, hx], h⟩
        by_cases hor : op = .or
        · subst hor
          simp only [cgE, codeVars_append, List.mem_append] at hm
          rcases hm with ((hm | hm) | hm) | hm
          · exact hsub _ [] (Or.inl hm)
          · simp [codeVars, var?] at hm
          · exact hsub [] _ (Or.inr hm)
          · simp [codeVars, var?] at hm
        · by_cases hand : op = .and
          · subst hand
            simp only [cgE, codeVars_append, List.mem_append] at hm
            rcases hm with ((hm | hm) | hm) | hm
            · exact hsub _ [] (Or.inl hm)
            · simp [codeVars, var?] at hm
            · exact hsub [] _ (Or.inr hm)
            · simp [codeVars, var?] at hm
          · have hlog : Frag.isLogical op = false := by
              cases op <;> first | rfl | exact absurd rfl hor | exact absurd rfl hand
            rw [cgE_infix _ _ _ _ _ _ _ _ _ hlog] at hm
            simp only [codeVars_append, List.mem_append, codeVars_arith, List.not_mem_nil, or_false] at hm
            exact hsub _ _ hm
      case ifE sp ty c t el =>
        cases el with
        | none => simp [cgE, codeVars] at hm
        | some eb =>
          simp only [Frag.depthGE] at hd
          simp only [cgE, codeVars_append, List.mem_append] at hm
          rcases hm with ((((hm | hm) | hm) | hm) | hm) | hm
          · obtain ⟨x, hx, h⟩ := ihE c lm (by omega) m hm
            exact ⟨x, by simp [Frag.varsGE, hx], h⟩
          · simp [codeVars, var?] at hm
          · obtain ⟨x, hx, h⟩ := ihB t _ (by omega) m hm
            exact ⟨x, by simp [Frag.varsGE, hx], h⟩
          · simp [codeVars, var?] at hm
          · obtain ⟨x, hx, h⟩ := ihB eb _ (by omega) m hm
            exact ⟨x, by simp [Frag.varsGE, hx], h⟩
          · simp [codeVars, var?] at hm
      case call sp ty base args sw =>
        cases base <;> try (simp [cgE, codeVars] at hm; done)
        case member msp mty b nm mop =>
          cases mop <;> cases args <;> cases sw <;> try (simp [cgE, codeVars] at hm; done)
          simp only [Frag.depthGE] at hd
          have hc : codeVars [((Instr.member nm : SInstr), msp), (.copyPush (.int 0), sp), (.callVal, sp)] = [] := rfl
          simp only [cgE, codeVars_append, hc, List.append_nil] at hm
          obtain ⟨x, hx, h⟩ := ihE b lm (by omega) m hm
          exact ⟨x, by simp [Frag.varsGE, Frag.varsGArgs, hx], h⟩
        rename_i isp ity name g f si
        simp only [Frag.depthGE] at hd
        simp only [cgE, codeVars_append, List.mem_append] at hm
        rcases hm with hm | hm
        · obtain ⟨x, hx, h⟩ := ihA args lm (by omega) m hm
          exact ⟨x, by simpa [Frag.varsGE] using hx, h⟩
        · simp [codeVars, var?] at hm
    · intro b lm hd m hm
      obtain ⟨sp, ty, stmts, oe⟩ := b
      cases stmts with
      | cons _ _ => simp [cgB, codeVars] at hm
      | nil =>
        cases oe with
        | none => simp [cgB, codeVars] at hm
        | some e =>
          rw [cgB] at hm
          obtain ⟨x, hx, h⟩ := ihE e lm (by simp only [Frag.depthGB] at hd; omega) m hm
          exact ⟨x, by simpa [Frag.varsGB] using hx, h⟩
    · intro args lm hd m hm
      cases args with
      | nil => simp [cgArgs, codeVars] at hm
      | cons a as =>
        simp only [Frag.depthGArgs] at hd
        simp only [cgArgs, codeVars_append, List.mem_append] at hm
        rcases hm with hm | hm
        · obtain ⟨x, hx, h⟩ := ihA as lm (by omega) m hm
          exact ⟨x, by simp [Frag.varsGArgs, hx], h⟩
        · obtain ⟨x, hx, h⟩ := ihE a.2 _ (by omega) m hm
          exact ⟨x, by simp [Frag.varsGArgs, hx], h⟩
    · intro sp after arms nms lm hd m hm
      cases arms with
      | nil => simp [cgArms, codeVars] at hm
      | cons a rest =>
        cases nms with
        | nil => simp [cgArms, codeVars] at hm
        | cons nm nms =>
          simp only [Frag.depthGArms] at hd
          simp only [cgArms, codeVars_append, List.mem_append] at hm
          rcases hm with ((hm | hm) | hm) | hm
          · simp [codeVars, var?] at hm
          · obtain ⟨x, hx, h⟩ := ihE a.2 _ (by omega) m hm
            exact ⟨x, by simp [Frag.varsGArms, hx], h⟩
          · simp [codeVars, var?] at hm
          · obtain ⟨x, hx, h⟩ := ihM sp after rest nms _ (by omega) m hm
            exact ⟨x, by simp [Frag.varsGArms, hx], h⟩

theorem codeVars_cgE_live (mod : String) (φ : String → Option String) (T : List String) (cs : CScopes) (e : Expr)
    (lm : LM) (hT : ∀ x ∈ Frag.varsGE e, x ∈ T) :
    ∀ m ∈ codeVars (cgE mod (ρS cs) φ e lm).1, m ∈ liveNames T cs := by
  intro m hm
  obtain ⟨x, hx, h⟩ := (codeVars_cgE mod (ρS cs) φ (Frag.depthGE e)).1 e lm (Nat.le_refl _) m hm
  exact ρS_mem_liveNames T cs x m (hT x hx) h

theorem codeVars_cgArgs_live (mod : String) (φ : String → Option String) (T : List String) (cs : CScopes)
    (args : List (String × Expr)) (lm : LM) (hT : ∀ x ∈ Frag.varsGArgs args, x ∈ T) :
    ∀ m ∈ codeVars (cgArgs mod (ρS cs) φ args lm).1, m ∈ liveNames T cs := by
  intro m hm
  obtain ⟨x, hx, h⟩ := (codeVars_cgE mod (ρS cs) φ (Frag.depthGArgs args)).2.2.1 args lm (Nat.le_refl _) m hm
  exact ρS_mem_liveNames T cs x m (hT x hx) h

/-! ## Counting the names a block generates -/

/-- `code`, compiled from `env` to `env'`, mentions only names live at the start or generated
meanwhile (`G`), and the variable count grew by at least one per generated name. -/
def GenG (T : List String) (env env' : CEnv) (code : SCode) : Prop :=
  ∃ G : List String, env.nv + G.length ≤ env'.nv ∧
    (∀ m ∈ codeVars code, m ∈ G ∨ m ∈ liveNames T env.scopes) ∧
    (∀ m ∈ liveNames T env'.scopes, m ∈ G ∨ m ∈ liveNames T env.scopes)

theorem GenG.nil (T : List String) (env : CEnv) : GenG T env env [] :=
  ⟨[], by simp, by simp [codeVars], fun m hm => Or.inr hm⟩

theorem GenG.trans {T env env1 env2 c1 c2} (h1 : GenG T env env1 c1) (h2 : GenG T env1 env2 c2) :
    GenG T env env2 (c1 ++ c2) := by
  obtain ⟨G1, n1, v1, l1⟩ := h1
  obtain ⟨G2, n2, v2, l2⟩ := h2
  refine ⟨G1 ++ G2, by rw [List.length_append]; omega, ?_, ?_⟩
  · intro m hm
    simp only [codeVars_append, List.mem_append] at hm ⊢
    rcases hm with hm | hm
    · rcases v1 m hm with h | h
      · exact Or.inl (Or.inl h)
      · exact Or.inr h
    · rcases v2 m hm with h | h
      · exact Or.inl (Or.inr h)
      · rcases l1 m h with h | h
        · exact Or.inl (Or.inl h)
        · exact Or.inr h
  · intro m hm
    simp only [List.mem_append]
    rcases l2 m hm with h | h
    · exact Or.inl (Or.inr h)
    · rcases l1 m h with h | h
      · exact Or.inl (Or.inl h)
      · exact Or.inr h

theorem GenG.plain {T : List String} {env env' : CEnv} {code : SCode} (hnv : env'.nv = env.nv)
    (hsc : env'.scopes = env.scopes) (hv : ∀ m ∈ codeVars code, m ∈ liveNames T env.scopes) :
    GenG T env env' code :=
  ⟨[], by simp [hnv], fun m hm => Or.inr (hv m hm), fun m hm => Or.inr (by rw [← hsc]; exact hm)⟩

/-- A declaration: the fresh name is generated, the old binding of the identifier is hidden. -/
theorem GenG.fresh (mod : String) (T : List String) (env : CEnv) (name : String) (hxT : name ∈ T)
    (env' : CEnv) (hsc : env'.scopes = (freshVar mod env name).2.scopes)
    (hnv : (freshVar mod env name).2.nv ≤ env'.nv) (code : SCode)
    (hv : ∀ m ∈ codeVars code, m = (freshVar mod env name).1 ∨ m ∈ liveNames T env.scopes) :
    GenG T env env' code := by
  refine ⟨[(freshVar mod env name).1], ?_, ?_, ?_⟩
  · have : (freshVar mod env name).2.nv = env.nv + 1 := rfl
    simp only [List.length_singleton]; omega
  · intro m hm
    rcases hv m hm with h | h
    · exact Or.inl (by simp [h])
    · exact Or.inr h
  · intro m hm
    rw [hsc] at hm
    have hc : T.contains name = true := by simpa using hxT
    simp only [freshVar] at hm
    cases hsc' : env.scopes with
    | nil =>
      simp only [hsc', liveNames, List.flatMap_cons, List.flatMap_nil, List.append_nil, levelNames,
        List.filter_cons, hc, if_true, List.filter_nil, List.map_cons, List.map_nil, List.mem_singleton] at hm
      exact Or.inl (by simp [freshVar, hm])
    | cons c crest =>
      simp only [hsc', liveNames, List.flatMap_cons, List.mem_append] at hm ⊢
      rcases hm with hm | hm
      · simp only [levelNames, List.filter_cons, hc, if_true, List.map_cons, List.mem_cons] at hm
        rcases hm with hm | hm
        · exact Or.inl (by simp [freshVar, hm])
        · exact Or.inr (Or.inl ((levelNames_filter_sublist T c _).mem hm))
      · exact Or.inr (Or.inr hm)

/-- A declaration of any name (tracked or not). -/
theorem GenG.freshAny (mod : String) (T : List String) (env : CEnv) (name : String)
    (env' : CEnv) (hsc : env'.scopes = (freshVar mod env name).2.scopes)
    (hnv : (freshVar mod env name).2.nv ≤ env'.nv) (code : SCode)
    (hv : ∀ m ∈ codeVars code, m = (freshVar mod env name).1 ∨ m ∈ liveNames T env.scopes) :
    GenG T env env' code := by
  by_cases hxT : name ∈ T
  · exact GenG.fresh mod T env name hxT env' hsc hnv code hv
  · refine ⟨[(freshVar mod env name).1], ?_, ?_, ?_⟩
    · have : (freshVar mod env name).2.nv = env.nv + 1 := rfl
      simp only [List.length_singleton]; omega
    · intro m hm
      rcases hv m hm with h | h
      · exact Or.inl (by simp [h])
      · exact Or.inr h
    · intro m hm
      rw [hsc] at hm
      refine Or.inr ?_
      simp only [freshVar] at hm
      cases hsc' : env.scopes with
      | nil =>
        simp [hsc', liveNames, levelNames, hxT] at hm
      | cons c crest =>
        simp only [hsc', liveNames, List.flatMap_cons, levelNames_ghost T c name _ hxT] at hm ⊢
        exact hm

theorem genG_stmt (mod fn : String) (φ : String → Option String) (T : List String) : ∀ (n : Nat),
    (∀ (loops : List (String × String)) (st : Stmt) (env : CEnv), Frag.depthGS st ≤ n →
      (∀ x ∈ Frag.identsGS st, x ∈ T) → Frag.wsGS mod fn φ loops st env = true →
      GenG T env (cgS mod fn φ loops st env).2 (cgS mod fn φ loops st env).1) ∧
    (∀ (loops : List (String × String)) (ss : List Stmt) (env : CEnv), Frag.depthGSs ss ≤ n →
      (∀ x ∈ Frag.identsGSs ss, x ∈ T) → Frag.wsGSs mod fn φ loops ss env = true →
      GenG T env (cgSs mod fn φ loops ss env).2 (cgSs mod fn φ loops ss env).1) ∧
    (∀ (loops : List (String × String)) (b : Block) (env : CEnv), Frag.depthGBS b ≤ n →
      (∀ x ∈ Frag.identsGBS b, x ∈ T) → Frag.wsGBS mod fn φ loops b env = true →
      GenG T env (cgBS mod fn φ loops b env).2 (cgBS mod fn φ loops b env).1) := by
  intro n
  induction n with
  | zero =>
    refine ⟨?_, ?_, ?_⟩
    · intro loops st env hd; have := depthGS_pos st; omega
    · intro loops ss env hd; cases ss <;> simp [Frag.depthGSs] at hd
    · intro loops b env hd; obtain ⟨_, _, _, _⟩ := b; simp [Frag.depthGBS] at hd
  | succ n ih =>
    obtain ⟨ihS, ihSs, ihB⟩ := ih
    have hEl : ∀ (env : CEnv) (e : Expr) (lm : LM), (∀ x ∈ Frag.namesGE e, x ∈ T) →
        ∀ m ∈ codeVars (cgE mod (ρS env.scopes) φ e lm).1, m ∈ liveNames T env.scopes :=
      fun env e lm h => codeVars_cgE_live mod φ T env.scopes e lm
        (fun x hx => h x (List.mem_append.mpr (Or.inl hx)))
    have hnoVar : ∀ (i : SInstr) (sp : Span), var? i = none → ∀ m ∈ codeVars [(i, sp)], False := by
      intro i sp h m hm; simp [codeVars, h] at hm
    refine ⟨?_, ?_, ?_⟩
    · intro loops st env hd hT hws
      cases st
      case typedef | trigger => exact GenG.nil T env
      case forS sp name vty iter body =>
        obtain ⟨bsp, bty, stmts, boe⟩ := body
        cases iter <;> try exact GenG.nil T env
        cases boe <;> try exact GenG.nil T env
        rename_i rsp a b incl
        simp only [Frag.depthGS] at hd
        simp only [Frag.wsGS, Bool.and_eq_true] at hws
        obtain ⟨⟨hwa, hwb⟩, hwS⟩ := hws
        simp only [Frag.identsGS, List.mem_cons, List.mem_append] at hT
        simp only [cgS]
        generalize freshLabel mod env.lm "loop_head" = head at hwS ⊢
        generalize freshLabel mod head.2 "loop_update" = upd at hwS ⊢
        generalize freshLabel mod upd.2 "loop_end" = aft at hwS ⊢
        have hliveA := hEl env a aft.2 (fun x hx => hT x (Or.inr (Or.inl hx)))
        generalize cgE mod (ρS env.scopes) φ a aft.2 = CA at hwS hliveA ⊢
        have hliveB := hEl env b CA.2 (fun x hx => hT x (Or.inr (Or.inr (Or.inl hx))))
        generalize cgE mod (ρS env.scopes) φ b CA.2 = CB at hwS hliveB ⊢
        have h1 : GenG T env { env with scopes := [] :: env.scopes, lm := CB.2 }
            (CA.1 ++ CB.1 ++ [((Instr.intoRange incl : SInstr), rsp), (.clone, sp), (.intoIter, sp)]) :=
          ⟨[], by simp, fun m hm => by
              simp only [codeVars_append, List.mem_append] at hm
              rcases hm with (hm | hm) | hm
              · exact Or.inr (hliveA m hm)
              · exact Or.inr (hliveB m hm)
              · simp [codeVars, var?] at hm,
            fun m hm => Or.inr (by simpa [liveNames, levelNames] using hm)⟩
        have h2 : GenG T { env with scopes := [] :: env.scopes, lm := CB.2 }
            (freshVar mod { env with scopes := [] :: env.scopes, lm := CB.2 } ("$iter_" ++ name)).2
            [((Instr.setVar (freshVar mod { env with scopes := [] :: env.scopes, lm := CB.2 } ("$iter_" ++ name)).1 : SInstr), sp),
              (.label head.1, sp),
              (.getVar (freshVar mod { env with scopes := [] :: env.scopes, lm := CB.2 } ("$iter_" ++ name)).1, sp),
              (.iterAdvance, sp)] :=
          GenG.freshAny mod T _ ("$iter_" ++ name) _ rfl (Nat.le_refl _) _ (by
            intro m hm
            simp only [codeVars, List.filterMap_cons, var?, List.filterMap_nil, List.mem_cons, List.not_mem_nil,
              or_false, or_self] at hm
            exact Or.inl hm)
        generalize freshVar mod { env with scopes := [] :: env.scopes, lm := CB.2 } ("$iter_" ++ name) = fit at hwS h2 ⊢
        have h3 : GenG T fit.2 (freshVar mod fit.2 name).2
            [((Instr.setVar (freshVar mod fit.2 name).1 : SInstr), sp), (.jumpIfFalse aft.1, sp)] :=
          GenG.fresh mod T _ name (hT name (Or.inl rfl)) _ rfl (Nat.le_refl _) _ (by
            intro m hm
            simp only [codeVars, List.filterMap_cons, var?, List.filterMap_nil, List.mem_singleton] at hm
            exact Or.inl hm)
        generalize freshVar mod fit.2 name = fhv at hwS h3 ⊢
        have h4 := ihSs ((aft.1, upd.1) :: loops) stmts fhv.2 (by omega)
          (fun x hx => hT x (Or.inr (Or.inr (Or.inr hx)))) hwS
        generalize cgSs mod fn φ ((aft.1, upd.1) :: loops) stmts fhv.2 = CS at h4 ⊢
        have h5 : GenG T CS.2 { CS.2 with scopes := CS.2.scopes.tail }
            [((Instr.label upd.1 : SInstr), sp), (.jump head.1, sp), (.label aft.1, sp)] := by
          refine ⟨[], by simp, fun m hm => by simp [codeVars, var?] at hm, fun m hm => Or.inr ?_⟩
          cases hsc : CS.2.scopes with
          | nil => simp [hsc, liveNames] at hm
          | cons c rest =>
            simp only [hsc, List.tail_cons] at hm
            simp only [liveNames, List.flatMap_cons, List.mem_append]
            exact Or.inr hm
        have hall := (((h1.trans h2).trans h3).trans h4).trans h5
        simpa [List.append_assoc] using hall
      case letS sp name vty nc oty e =>
        cases nc
        · simp only [Frag.identsGS, List.mem_cons] at hT
          simp only [cgS]
          have hlive := hEl env e env.lm (fun x hx => hT x (Or.inr hx))
          refine GenG.fresh mod T env name (hT name (Or.inl rfl)) _ ?_ ?_ _ ?_
          · rfl
          · exact Nat.le_succ _
          intro m hm
          simp only [codeVars_append, List.mem_append] at hm
          rcases hm with hm | hm
          · exact Or.inr (hlive m hm)
          · simp only [codeVars, List.filterMap_cons, var?, List.filterMap_nil, List.mem_singleton] at hm
            exact Or.inl (by rw [hm]; rfl)
        · exact GenG.nil T env
      case exprS sp e =>
        cases e
        case assign asp op l r =>
          cases l <;> try (cases op <;> exact GenG.nil T env)
          case index isp ity b i =>
            rw [identsGS_idxAssign] at hT
            simp only [List.mem_append] at hT
            have hl := hEl env (.index isp ity b i) env.lm (fun x hx => hT x (Or.inl hx))
            have hr := hEl env r (cgE mod (ρS env.scopes) φ (.index isp ity b i) env.lm).2 (fun x hx => hT x (Or.inr hx))
            have hpre : codeVars (opPre op asp) = [] := by cases op <;> rfl
            have hpost : codeVars (opPost op asp) = [] := by
              cases op with
              | none => rfl
              | some o => exact codeVars_arith o asp
            have hasg : codeVars [((Instr.assign : SInstr), asp)] = [] := rfl
            rw [cgS_idxAssign]
            refine GenG.plain rfl rfl ?_
            intro m hm
            simp only [codeVars_append, List.mem_append, hpre, hpost, hasg, List.not_mem_nil, or_false] at hm
            rcases hm with hm | hm
            · exact hl m hm
            · exact hr m hm
          case member msp mty b name mop =>
            cases mop <;> try (cases op <;> exact GenG.nil T env)
            rw [identsGS_memAssign] at hT
            simp only [List.mem_append] at hT
            have hl := hEl env (.member msp mty b name .dot) env.lm (fun x hx => hT x (Or.inl hx))
            have hr := hEl env r (cgE mod (ρS env.scopes) φ (.member msp mty b name .dot) env.lm).2
              (fun x hx => hT x (Or.inr hx))
            have hpre : codeVars (opPre op asp) = [] := by cases op <;> rfl
            have hpost : codeVars (opPost op asp) = [] := by
              cases op with
              | none => rfl
              | some o => exact codeVars_arith o asp
            have hasg : codeVars [((Instr.assign : SInstr), asp)] = [] := rfl
            rw [cgS_memAssign]
            refine GenG.plain rfl rfl ?_
            intro m hm
            simp only [codeVars_append, List.mem_append, hpre, hpost, hasg, List.not_mem_nil, or_false] at hm
            rcases hm with hm | hm
            · exact hl m hm
            · exact hr m hm
          cases op
          · rename_i isp ity name g isFn isSing
            cases isSing
            case true => cases g <;> exact GenG.nil T env
            cases g
            · simp only [Frag.wsGS, Bool.and_eq_true] at hws
              obtain ⟨hname, hvr⟩ := hws
              simp only [Frag.identsGS, List.mem_cons] at hT
              have hlive := hEl env r env.lm (fun x hx => hT x (Or.inr hx))
              simp only [cgS]
              refine GenG.plain rfl rfl ?_
              intro m hm
              simp only [codeVars_append, List.mem_append] at hm
              rcases hm with hm | hm
              · exact hlive m hm
              · cases hρ : ρS env.scopes name with
                | none => simp [hρ] at hname
                | some m' =>
                  simp only [hρ, Option.getD_some, codeVars, List.filterMap_cons, var?, List.filterMap_nil,
                    List.mem_singleton] at hm
                  subst hm
                  exact ρS_mem_liveNames T env.scopes name _ (hT name (Or.inl rfl)) hρ
            · exact GenG.nil T env
          · rename_i isp ity name g isFn isSing o
            cases isSing
            case true => cases g <;> exact GenG.nil T env
            cases g
            · simp only [Frag.wsGS, Bool.and_eq_true] at hws
              obtain ⟨hname, hvr⟩ := hws
              simp only [Frag.identsGS, List.mem_cons] at hT
              have hlive := hEl env r env.lm (fun x hx => hT x (Or.inr hx))
              simp only [cgS]
              refine GenG.plain rfl rfl ?_
              intro m hm
              cases hρ : ρS env.scopes name with
              | none => simp [hρ] at hname
              | some m' =>
                have hm' := ρS_mem_liveNames T env.scopes name _ (hT name (Or.inl rfl)) hρ
                simp only [hρ, Option.getD_some, codeVars_append, List.mem_append, codeVars_arith,
                  List.not_mem_nil, or_false] at hm
                rcases hm with (hm | hm) | hm
                · simp only [codeVars, List.filterMap_cons, var?, List.filterMap_nil, List.mem_singleton] at hm
                  subst hm; exact hm'
                · exact hlive m hm
                · simp only [codeVars, List.filterMap_cons, var?, List.filterMap_nil, List.mem_singleton] at hm
                  subst hm; exact hm'
            · exact GenG.nil T env
        case ifE isp ty c t el =>
          cases el with
          | some eb =>
            simp only [Frag.depthGS] at hd
            simp only [Frag.wsGS, Bool.and_eq_true] at hws
            obtain ⟨⟨hvc, hwt⟩, hwe⟩ := hws
            simp only [Frag.identsGS, List.mem_append] at hT
            have hlive := hEl env c env.lm (fun x hx => hT x (Or.inl hx))
            simp only [cgS]
            generalize hC : cgE mod (ρS env.scopes) φ c env.lm = C at hwt hwe hlive ⊢
            generalize hAf : freshLabel mod C.2 "if_after" = aft at hwt hwe ⊢
            generalize hEl' : freshLabel mod aft.2 "else" = els at hwt hwe ⊢
            have h1 : GenG T env { env with lm := els.2 } (C.1 ++ [((Instr.jumpIfFalse els.1 : SInstr), isp)]) :=
              GenG.plain rfl rfl (by
                intro m hm
                simp only [codeVars_append, List.mem_append] at hm
                rcases hm with hm | hm
                · exact hlive m hm
                · simp [codeVars, var?] at hm)
            have h2 := ihB loops t { env with lm := els.2 } (by omega) (fun x hx => hT x (Or.inr (Or.inl hx))) hwt
            generalize hTb : cgBS mod fn φ loops t { env with lm := els.2 } = Tb at h2 hwe ⊢
            have h3 : GenG T Tb.2 Tb.2 [((Instr.jump aft.1 : SInstr), isp), (.label els.1, isp)] :=
              GenG.plain rfl rfl (by intro m hm; simp [codeVars, var?] at hm)
            have h4 := ihB loops eb Tb.2 (by omega) (fun x hx => hT x (Or.inr (Or.inr hx))) hwe
            generalize hEb : cgBS mod fn φ loops eb Tb.2 = Eb at h4 ⊢
            have h5 : GenG T Eb.2 Eb.2 [((Instr.label aft.1 : SInstr), isp)] :=
              GenG.plain rfl rfl (by intro m hm; simp [codeVars, var?] at hm)
            exact (((h1.trans h2).trans h3).trans h4).trans h5
          | none =>
            simp only [Frag.depthGS] at hd
            simp only [Frag.wsGS, Bool.and_eq_true] at hws
            obtain ⟨hvc, hwt⟩ := hws
            simp only [Frag.identsGS, List.mem_append] at hT
            have hlive := hEl env c env.lm (fun x hx => hT x (Or.inl hx))
            simp only [cgS]
            generalize hC : cgE mod (ρS env.scopes) φ c env.lm = C at hwt hlive ⊢
            generalize hAf : freshLabel mod C.2 "if_after" = aft at hwt ⊢
            generalize hEl' : freshLabel mod aft.2 "else" = els at hwt ⊢
            have h1 : GenG T env { env with lm := els.2 } (C.1 ++ [((Instr.jumpIfFalse aft.1 : SInstr), isp)]) :=
              GenG.plain rfl rfl (by
                intro m hm
                simp only [codeVars_append, List.mem_append] at hm
                rcases hm with hm | hm
                · exact hlive m hm
                · simp [codeVars, var?] at hm)
            have h2 := ihB loops t { env with lm := els.2 } (by omega) (fun x hx => hT x (Or.inr hx)) hwt
            generalize hTb : cgBS mod fn φ loops t { env with lm := els.2 } = Tb at h2 ⊢
            have h3 : GenG T Tb.2 Tb.2 [((Instr.jump aft.1 : SInstr), isp), (.label aft.1, isp)] :=
              GenG.plain rfl rfl (by intro m hm; simp [codeVars, var?] at hm)
            exact (h1.trans h2).trans h3
        case call csp cty base args sw =>
          cases base <;> try exact GenG.nil T env
          case member msp mty b nm mop =>
            cases mop <;> cases args <;> try exact GenG.nil T env
            rename_i a rest
            cases rest <;> cases sw <;> try exact GenG.nil T env
            simp only [Frag.identsGS, List.mem_append] at hT
            have hla := hEl env a.2 env.lm (fun x hx => hT x (Or.inr (by
              simp only [Frag.namesGArgs, Frag.varsGArgs, Frag.callsGArgs, List.append_nil]; exact hx)))
            have hlb := hEl env b (cgE mod (ρS env.scopes) φ a.2 env.lm).2 (fun x hx => hT x (Or.inl hx))
            have hc : codeVars [((Instr.member nm : SInstr), msp), (.copyPush (.int 1), csp), (.callVal, csp)] = [] := rfl
            simp only [cgS]
            refine GenG.plain rfl rfl ?_
            intro m hm
            simp only [codeVars_append, hc, List.append_nil, List.mem_append] at hm
            rcases hm with hm | hm
            · exact hla m hm
            · exact hlb m hm
          rename_i isp ity name g f si
          simp only [Frag.identsGS, List.mem_cons] at hT
          have hTa : ∀ x ∈ Frag.varsGArgs args, x ∈ T :=
            fun x hx => hT x (Or.inr (List.mem_append.mpr (Or.inl hx)))
          have hlive := codeVars_cgArgs_live mod φ T env.scopes args env.lm hTa
          simp only [cgS]
          split
          · refine GenG.plain rfl rfl ?_
            intro m hm
            simp only [codeVars_append, List.mem_append] at hm
            rcases hm with (hm | hm) | hm
            · exact hlive m hm
            · simp [codeVars, var?] at hm
            · split at hm <;> simp [codeVars, var?] at hm
          · split
            · refine GenG.plain rfl rfl ?_
              intro m hm
              simp only [codeVars_append, List.mem_append] at hm
              rcases hm with hm | hm
              · exact hlive m hm
              · simp [codeVars, var?] at hm
            · refine GenG.plain rfl rfl ?_
              intro m hm
              simp only [cgE, codeVars_append, List.mem_append] at hm
              rcases hm with (hm | hm) | hm
              · exact hlive m hm
              · simp [codeVars, var?] at hm
              · simp [codeVars, var?] at hm
        case matchE msp ty c arms dflt =>
          cases dflt with
          | none => exact GenG.nil T env
          | some d =>
            cases d <;> try exact GenG.nil T env
            rename_i db
            simp only [Frag.depthGS] at hd
            simp only [Frag.wsGS, Bool.and_eq_true] at hws
            obtain ⟨⟨hvc, hwa⟩, hwd⟩ := hws
            simp only [Frag.identsGS, List.mem_append] at hT
            have hlive := hEl env c env.lm (fun x hx => hT x (Or.inl hx))
            have harms : ∀ (arms : List (List Expr × Expr)) (after : String) (nms : List String) (env' : CEnv),
                Frag.depthGArmsS arms ≤ n → (∀ x ∈ Frag.identsGArmsS arms, x ∈ T) →
                Frag.wsGArmsS mod fn φ loops arms env' = true →
                GenG T env' (cgArmsS mod fn φ loops msp after arms nms env').2
                  (cgArmsS mod fn φ loops msp after arms nms env').1 := by
              intro arms
              induction arms with
              | nil => intro after nms env' _ _ _; exact GenG.nil T env'
              | cons a rest iha =>
                intro after nms env' hda hTa hwsa
                obtain ⟨lits, act⟩ := a
                cases nms with
                | nil => cases act <;> exact GenG.nil T env'
                | cons nm nms =>
                  cases act
                  case blockE b =>
                    simp only [Frag.depthGArmsS] at hda
                    simp only [Frag.identsGArmsS, List.mem_append] at hTa
                    simp only [Frag.wsGArmsS, Bool.and_eq_true] at hwsa
                    simp only [cgArmsS]
                    have g1 : GenG T env' env' [((Instr.label nm : SInstr), msp), (.drop, msp)] :=
                      GenG.plain rfl rfl (by intro m hm; simp [codeVars, var?] at hm)
                    have g2 := ihB loops b env' (by omega) (fun x hx => hTa x (Or.inl hx)) hwsa.1
                    have g3 : GenG T (cgBS mod fn φ loops b env').2 (cgBS mod fn φ loops b env').2
                        [((Instr.jump after : SInstr), msp)] :=
                      GenG.plain rfl rfl (by intro m hm; simp [codeVars, var?] at hm)
                    have g4 := iha after nms (cgBS mod fn φ loops b env').2 (by omega)
                      (fun x hx => hTa x (Or.inr hx)) hwsa.2
                    exact ((g1.trans g2).trans g3).trans g4
                  all_goals
                    simp only [Frag.depthGArmsS] at hda
                    simp only [Frag.identsGArmsS] at hTa
                    simp only [Frag.wsGArmsS] at hwsa
                    simp only [cgArmsS]
                    have g1 : GenG T env' env' [((Instr.label nm : SInstr), msp), (.drop, msp), (.jump after, msp)] :=
                      GenG.plain rfl rfl (by intro m hm; simp [codeVars, var?] at hm)
                    exact g1.trans (iha after nms env' hda hTa hwsa)
            simp only [cgS]
            generalize hC : cgE mod (ρS env.scopes) φ c env.lm = C at hwa hwd hlive ⊢
            generalize hAf : freshLabel mod C.2 "match_after" = aft at hwa hwd ⊢
            generalize hTs : armTests mod msp arms aft.2 = ts at hwa hwd ⊢
            generalize hDf : freshLabel mod ts.2.2 "match_default" = dfl at hwa hwd ⊢
            have h1 : GenG T env { env with lm := dfl.2 } (C.1 ++ ts.1 ++ [((Instr.jump dfl.1 : SInstr), msp)]) :=
              GenG.plain rfl rfl (by
                intro m hm
                simp only [codeVars_append, List.mem_append] at hm
                rcases hm with (hm | hm) | hm
                · exact hlive m hm
                · rw [← hTs, codeVars_armTests] at hm; simp at hm
                · simp [codeVars, var?] at hm)
            have h2 := harms arms aft.1 ts.2.1 { env with lm := dfl.2 } (by omega)
              (fun x hx => hT x (Or.inr (Or.inl hx))) hwa
            generalize hBs : cgArmsS mod fn φ loops msp aft.1 arms ts.2.1 { env with lm := dfl.2 } = bs at h2 hwd ⊢
            have h3 : GenG T bs.2 bs.2 [((Instr.label dfl.1 : SInstr), msp), (.drop, msp)] :=
              GenG.plain rfl rfl (by intro m hm; simp [codeVars, var?] at hm)
            have h4 := ihB loops db bs.2 (by omega) (fun x hx => hT x (Or.inr (Or.inr hx))) hwd
            generalize hDb : cgBS mod fn φ loops db bs.2 = cd at h4 ⊢
            have h5 : GenG T cd.2 cd.2 [((Instr.jump aft.1 : SInstr), msp), (.label aft.1, msp)] :=
              GenG.plain rfl rfl (by intro m hm; simp [codeVars, var?] at hm)
            have := (((h1.trans h2).trans h3).trans h4).trans h5
            simpa only [List.append_assoc] using this
        case tryE tsp ty t ci c =>
          obtain ⟨csp', cty', cstmts, coe⟩ := c
          cases coe with
          | some _ => exact GenG.nil T env
          | none =>
            simp only [Frag.depthGS, Frag.depthGBS] at hd
            simp only [Frag.wsGS, Bool.and_eq_true] at hws
            obtain ⟨⟨_, hwt⟩, hwc⟩ := hws
            simp only [Frag.identsGS, Frag.identsGBS, List.mem_append, List.mem_cons] at hT
            simp only [cgS]
            generalize freshLabel mod env.lm "exception_label" = exc at hwt hwc ⊢
            generalize freshLabel mod exc.2 "after_catch_label" = aft at hwt hwc ⊢
            have h1 : GenG T env { env with lm := aft.2 } [((Instr.setTry ((φ fn).getD "") exc.1 : SInstr), tsp)] :=
              GenG.plain rfl rfl (by intro m hm; simp [codeVars, var?] at hm)
            have h2 := ihB [] t { env with lm := aft.2 } (by omega) (fun x hx => hT x (Or.inl hx)) hwt
            generalize cgBS mod fn φ [] t { env with lm := aft.2 } = ct at h2 hwc ⊢
            have h3 : GenG T ct.2 { ct.2 with scopes := [] :: ct.2.scopes }
                [((Instr.popTry : SInstr), tsp), (.jump aft.1, tsp), (.label exc.1, tsp)] :=
              ⟨[], by simp, fun m hm => by simp [codeVars, var?] at hm,
                fun m hm => Or.inr (by simpa [liveNames, levelNames] using hm)⟩
            have h4 : GenG T { ct.2 with scopes := [] :: ct.2.scopes }
                (freshVar mod { ct.2 with scopes := [] :: ct.2.scopes } ci).2
                [((Instr.setVar (freshVar mod { ct.2 with scopes := [] :: ct.2.scopes } ci).1 : SInstr), tsp),
                  (.popTry, tsp)] :=
              GenG.fresh mod T _ ci (hT ci (Or.inr (Or.inl rfl))) _ rfl (Nat.le_refl _) _ (by
                intro m hm
                simp only [codeVars, List.filterMap_cons, var?, List.filterMap_nil, List.mem_singleton] at hm
                exact Or.inl hm)
            have h5 := ihSs loops cstmts (freshVar mod { ct.2 with scopes := [] :: ct.2.scopes } ci).2 (by omega)
              (fun x hx => hT x (Or.inr (Or.inr hx))) hwc
            generalize cgSs mod fn φ loops cstmts (freshVar mod { ct.2 with scopes := [] :: ct.2.scopes } ci).2 = cc
              at h5 ⊢
            have h6 : GenG T cc.2 { cc.2 with scopes := cc.2.scopes.tail } [((Instr.label aft.1 : SInstr), tsp)] := by
              refine ⟨[], by simp, fun m hm => by simp [codeVars, var?] at hm, fun m hm => Or.inr ?_⟩
              cases hsc : cc.2.scopes with
              | nil => simp [hsc, liveNames] at hm
              | cons c rest =>
                simp only [hsc, List.tail_cons] at hm
                simp only [liveNames, List.flatMap_cons, List.mem_append]
                exact Or.inr hm
            have hall := ((((h1.trans h2).trans h3).trans h4).trans h5).trans h6
            simpa [List.append_assoc] using hall
        all_goals exact GenG.nil T env
      case whileS sp c body =>
        simp only [Frag.depthGS] at hd
        simp only [Frag.wsGS, Bool.and_eq_true] at hws
        obtain ⟨hvc, hwb⟩ := hws
        simp only [Frag.identsGS, List.mem_append] at hT
        simp only [cgS]
        generalize hH : freshLabel mod env.lm "loop_head" = head at hwb ⊢
        generalize hA : freshLabel mod head.2 "loop_end" = after at hwb ⊢
        have hlive := hEl env c after.2 (fun x hx => hT x (Or.inl hx))
        generalize hC : cgE mod (ρS env.scopes) φ c after.2 = C at hwb hlive ⊢
        have h1 : GenG T env { env with lm := C.2 }
            ([((Instr.label head.1 : SInstr), sp)] ++ C.1 ++ [(.jumpIfFalse after.1, sp)]) :=
          GenG.plain rfl rfl (by
            intro m hm
            simp only [codeVars_append, List.mem_append] at hm
            rcases hm with (hm | hm) | hm
            · simp [codeVars, var?] at hm
            · exact hlive m hm
            · simp [codeVars, var?] at hm)
        have h2 := ihB ((after.1, head.1) :: loops) body { env with lm := C.2 } (by omega)
          (fun x hx => hT x (Or.inr hx)) hwb
        generalize hB : cgBS mod fn φ ((after.1, head.1) :: loops) body { env with lm := C.2 } = Bd at h2 ⊢
        have h3 : GenG T Bd.2 Bd.2 [((Instr.jump head.1 : SInstr), sp), (.label after.1, sp)] :=
          GenG.plain rfl rfl (by intro m hm; simp [codeVars, var?] at hm)
        exact (h1.trans h2).trans h3
      case loopS sp body =>
        simp only [Frag.depthGS] at hd
        simp only [Frag.wsGS] at hws
        simp only [Frag.identsGS] at hT
        simp only [cgS]
        generalize hH : freshLabel mod env.lm "loop_head" = head at hws ⊢
        generalize hA : freshLabel mod head.2 "loop_end" = after at hws ⊢
        have h1 : GenG T env { env with lm := after.2 } [((Instr.label head.1 : SInstr), sp)] :=
          GenG.plain rfl rfl (by intro m hm; simp [codeVars, var?] at hm)
        have h2 := ihB ((after.1, head.1) :: loops) body { env with lm := after.2 } (by omega) hT hws
        generalize hB : cgBS mod fn φ ((after.1, head.1) :: loops) body { env with lm := after.2 } = Bd at h2 ⊢
        have h3 : GenG T Bd.2 Bd.2 [((Instr.jump head.1 : SInstr), sp), (.label after.1, sp)] :=
          GenG.plain rfl rfl (by intro m hm; simp [codeVars, var?] at hm)
        exact (h1.trans h2).trans h3
      case brk sp =>
        simp only [cgS]
        refine GenG.plain rfl rfl ?_
        intro m hm
        cases loops with
        | nil => simp [codeVars] at hm
        | cons p _ => obtain ⟨b, c⟩ := p; simp [codeVars, var?] at hm
      case cont sp =>
        simp only [cgS]
        refine GenG.plain rfl rfl ?_
        intro m hm
        cases loops with
        | nil => simp [codeVars] at hm
        | cons p _ => obtain ⟨b, c⟩ := p; simp [codeVars, var?] at hm
      case ret sp oe =>
        cases oe with
        | none => exact GenG.nil T env
        | some e =>
          simp only [Frag.identsGS] at hT
          have hlive := hEl env e env.lm hT
          simp only [cgS]
          refine GenG.plain rfl rfl ?_
          intro m hm
          simp only [codeVars_append, List.mem_append] at hm
          rcases hm with hm | hm
          · exact hlive m hm
          · simp [codeVars, var?] at hm
    · intro loops ss env hd hT hws
      cases ss with
      | nil => exact GenG.nil T env
      | cons st ss =>
        simp only [Frag.depthGSs] at hd
        simp only [Frag.wsGSs, Bool.and_eq_true] at hws
        simp only [Frag.identsGSs, List.mem_append] at hT
        rw [cgSs]
        exact (ihS loops st env (by omega) (fun x hx => hT x (Or.inl hx)) hws.1).trans
          (ihSs loops ss _ (by omega) (fun x hx => hT x (Or.inr hx)) hws.2)
    · intro loops b env hd hT hws
      obtain ⟨bsp, bty, stmts, oe⟩ := b
      simp only [Frag.depthGBS] at hd
      simp only [Frag.wsGBS] at hws
      simp only [Frag.identsGBS] at hT
      cases oe with
      | some _ => exact GenG.nil T env
      | none =>
        simp only [cgBS]
        have h := ihSs loops stmts { env with scopes := [] :: env.scopes } (by omega) hT hws
        obtain ⟨G, n1, v1, l1⟩ := h
        refine ⟨G, n1, ?_, ?_⟩
        · intro m hm
          rcases v1 m hm with h | h
          · exact Or.inl h
          · exact Or.inr (by simpa [liveNames, levelNames] using h)
        · intro m hm
          have hm' : m ∈ liveNames T (cgSs mod fn φ loops stmts { env with scopes := [] :: env.scopes }).2.scopes := by
            cases hsc : (cgSs mod fn φ loops stmts { env with scopes := [] :: env.scopes }).2.scopes with
            | nil => simp [hsc, liveNames] at hm
            | cons c rest =>
              simp only [hsc, List.tail_cons] at hm
              simp only [liveNames, List.flatMap_cons, List.mem_append]
              exact Or.inr hm
          rcases l1 m hm' with h | h
          · exact Or.inl h
          · exact Or.inr (by simpa [liveNames, levelNames] using h)

theorem genG_params (mod : String) (sp : Span) (T : List String) : ∀ (ps : List Param) (env : CEnv),
    (∀ p ∈ ps, p.name ∈ T) → GenG T env (cgParams mod sp ps env).2 (cgParams mod sp ps env).1 := by
  intro ps
  induction ps with
  | nil => intro env _; exact GenG.nil T env
  | cons p ps ih =>
    intro env hT
    simp only [cgParams]
    split
    · exact ih env (fun q hq => hT q (by simp [hq]))
    · have h1 : GenG T env (freshVar mod env p.name).2 [((Instr.setVar (freshVar mod env p.name).1 : SInstr), sp)] :=
        GenG.fresh mod T env p.name (hT p (by simp)) _ rfl (Nat.le_refl _) _ (by
          intro m hm
          simp only [codeVars, List.filterMap_cons, var?, List.filterMap_nil, List.mem_singleton] at hm
          exact Or.inl hm)
      exact h1.trans (ih _ (fun q hq => hT q (by simp [hq])))

theorem liveNames_addKey (T : List String) (key lbl : String) (hk : key ∉ T) (c : List (String × String))
    (rest : CScopes) : liveNames T (((key, lbl) :: c) :: rest) = liveNames T (c :: rest) := by
  simp [liveNames, levelNames, hk]

/-- **Slots fit the frame**: in the code of a function of the general fragment every slot is
below the variable count of its `AddMempointer`. -/
theorem cgFn_slots (mod : String) (φ : String → Option String) (fd : FnDef) (stmts : List Stmt)
    (oe : Option Expr) (scopes0 : List (List (String × String))) (vm0 : List (String × Nat)) (lm0 : LM)
    (T : List String) (r : NCode)
    (tParams : ∀ p ∈ fd.params, p.name ∈ T) (tIdents : ∀ x ∈ Frag.identsGSs stmts, x ∈ T)
    (tVars : ∀ e, oe = some e → ∀ x ∈ Frag.namesGE e, x ∈ T)
    (wsS : Frag.wsGSs mod fd.name φ [] stmts (fnParts mod φ fd stmts oe scopes0 vm0 lm0).envB = true)
    (key : cleanupKey mod fd.name ∉ T) (outer : ∀ sc ∈ scopes0, ∀ x ∈ T, sc.lookup x = none)
    (hrel : relocate (cgFn mod φ fd stmts oe scopes0 vm0 lm0) = some r) :
    ∀ m ∈ varNames r, slotFn r m < (fnParts mod φ fd stmts oe scopes0 vm0 lm0).envE.nv := by
  intro m hm
  have hlt := slotFn_lt r m hm
  obtain ⟨P, hP⟩ : ∃ P, P = fnParts mod φ fd stmts oe scopes0 vm0 lm0 := ⟨_, rfl⟩
  obtain ⟨env0, henv0⟩ : ∃ env0 : CEnv, env0 = ⟨[] :: scopes0, vm0, lm0, 0⟩ := ⟨_, rfl⟩
  have hpc : P.pcode = (cgParams mod fd.sp fd.params env0).1 := by rw [hP, henv0]; rfl
  have henvB : P.envB = bodyEnv mod fd.name (cgParams mod fd.sp fd.params env0).2 := by rw [hP, henv0]; rfl
  have hsc : P.scode = (cgSs mod fd.name φ [] stmts P.envB).1 := by rw [hP]; rfl
  have henvS : P.envS = (cgSs mod fd.name φ [] stmts P.envB).2 := by rw [hP]; rfl
  have hcode : cgFn mod φ fd stmts oe scopes0 vm0 lm0 =
      [(.addMp (P.envE.nv : Int), fd.sp)] ++ P.pcode ++ P.scode ++ P.ecode ++
        [(.label P.cleanup, fd.sp), (.addMp (-(P.envE.nv : Int)), fd.sp), (.ret, fd.sp)] := by rw [hP]; rfl
  rw [← hP] at wsS ⊢
  -- the chain of environments
  have h1 := genG_params mod fd.sp T fd.params env0 tParams
  rw [← hpc] at h1
  have h2 : GenG T (cgParams mod fd.sp fd.params env0).2 P.envB [] := by
    rw [henvB]
    refine ⟨[], by simp [bodyEnv], by simp [codeVars], ?_⟩
    intro m hm
    right
    unfold bodyEnv at hm
    cases hs : (cgParams mod fd.sp fd.params env0).2.scopes with
    | nil => simp [hs, liveNames] at hm
    | cons c rest =>
      simp only [hs] at hm
      rw [liveNames_addKey T _ _ key] at hm
      exact hm
  have h3 := (genG_stmt mod fd.name φ T (Frag.depthGSs stmts)).2.1 [] stmts P.envB (Nat.le_refl _) tIdents wsS
  rw [← hsc, ← henvS] at h3
  have h4 : GenG T P.envS P.envE P.ecode := by
    cases oe with
    | none =>
      have e1 : P.ecode = [] := by rw [hP]; rfl
      have e2 : P.envE = P.envS := by rw [hP]; rfl
      rw [e1, e2]; exact GenG.nil T _
    | some e =>
      have e1 : P.ecode = (cgE mod (ρS P.envS.scopes) φ e P.envS.lm).1 := by rw [hP]; rfl
      have e2 : P.envE = { P.envS with lm := (cgE mod (ρS P.envS.scopes) φ e P.envS.lm).2 } := by rw [hP]; rfl
      rw [e1, e2]
      exact GenG.plain rfl rfl (codeVars_cgE_live mod φ T P.envS.scopes e P.envS.lm
        (fun x hx => tVars e rfl x (List.mem_append.mpr (Or.inl hx))))
  have hall := ((h1.trans h2).trans h3).trans h4
  obtain ⟨G, hnv, hv, _⟩ := hall
  have hlive : liveNames T env0.scopes = [] := by
    rw [henv0]
    apply liveNames_of_unbound
    intro sc hsc
    rcases List.mem_cons.mp hsc with rfl | hsc
    · intro x _; rfl
    · exact outer sc hsc
  have hsub : ∀ a ∈ distinctNames r, a ∈ G := by
    intro a ha
    have ha' : a ∈ varNames r := (mem_distinctNames r a).mp ha
    rw [varNames_relocate _ r hrel, hcode] at ha'
    simp only [codeVars_append, List.mem_append] at ha'
    have hin : a ∈ codeVars (P.pcode ++ [] ++ P.scode ++ P.ecode) := by
      simp only [codeVars_append, List.mem_append]
      rcases ha' with (((ha' | ha') | ha') | ha') | ha'
      · simp [codeVars, var?] at ha'
      · exact Or.inl (Or.inl (Or.inl ha'))
      · exact Or.inl (Or.inr ha')
      · exact Or.inr ha'
      · simp [codeVars, var?] at ha'
    rcases hv a hin with h | h
    · exact h
    · rw [hlive] at h; simp at h
  have hlen := nodup_subset_length (distinctNames r) G (distinctNames_nodup r) hsub
  have : env0.nv = 0 := by rw [henv0]
  omega

end HmsProofs.Sim
