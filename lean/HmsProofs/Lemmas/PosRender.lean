import Hms.Pos.Render
import HmsProofs.Lemmas.LexLoc
/-! Lemmas for C08: real positions render safely. -/
namespace HmsProofs.Lemmas.PosRender
open Hms Hms.Lex Hms.Pos HmsProofs.Lemmas.LexLoc

theorem splitLines_ne_nil (s : List Char) : splitLines s ≠ [] := by
  induction s with
  | nil => simp [splitLines]
  | cons c cs ih =>
    simp only [splitLines]
    split
    · simp
    · split <;> simp

/-- `len(strings.Split(s, "\n")) = 1 + strings.Count(s, "\n")`. -/
theorem splitLines_length (s : List Char) : (splitLines s).length = 1 + s.count '\n' := by
  induction s with
  | nil => simp [splitLines]
  | cons c cs ih =>
    simp only [splitLines]
    by_cases h : c = '\n'
    · subst h; simp [ih]; omega
    · simp only [h, if_false]
      have hc : List.count '\n' (c :: cs) = List.count '\n' cs := by
        rw [List.count_cons]; simp [h]
      rw [hc, ← ih]
      cases hs : splitLines cs with
      | nil => exact absurd hs (splitLines_ne_nil cs)
      | cons l ls => simp

theorem advanceBy_line (l : Loc) (s : List Char) : (l.advanceBy s).line = l.line + s.count '\n' := by
  induction s generalizing l with
  | nil => simp [Loc.advanceBy]
  | cons c s ih =>
    simp only [Loc.advanceBy, ih]
    by_cases h : c = '\n'
    · subst h; simp [Loc.advance]; omega
    · have hc : List.count '\n' (c :: s) = List.count '\n' s := by
        rw [List.count_cons]; simp [h]
      simp [Loc.advance, h, hc]

theorem advanceBy_col_of_no_newline (l : Loc) (s : List Char) (h : s.count '\n' = 0) :
    (l.advanceBy s).col = l.col + s.length := by
  induction s generalizing l with
  | nil => simp [Loc.advanceBy]
  | cons c s ih =>
    have hc : c ≠ '\n' := by
      intro e; subst e; simp at h
    have hs : s.count '\n' = 0 := by
      rw [List.count_cons] at h; simp [hc] at h; exact h
    simp only [Loc.advanceBy, ih _ hs, List.length_cons]
    simp [Loc.advance, hc]; omega

/-- The line of `strings.Split` that the position after `pre` lies on is at least as long as the
column of that position says. -/
theorem col_le_line (pre rest : List Char) (l : Loc) :
    ∃ line, (splitLines (pre ++ rest))[pre.count '\n']? = some line
      ∧ (l.advanceBy pre).col ≤ (if pre.count '\n' = 0 then l.col else 1) + line.length := by
  induction pre generalizing l with
  | nil =>
    cases hs : splitLines rest with
    | nil => exact absurd hs (splitLines_ne_nil rest)
    | cons x xs => exact ⟨x, by simp [hs], by simp [Loc.advanceBy]⟩
  | cons c pre ih =>
    by_cases h : c = '\n'
    · subst h
      obtain ⟨line, h1, h2⟩ := ih (l.advance '\n')
      refine ⟨line, ?_, ?_⟩
      · simp [splitLines, h1]
      · simp only [Loc.advanceBy]
        have : (l.advance '\n').col = 1 := by simp [Loc.advance]
        rw [this] at h2
        have hne : List.count '\n' ('\n' :: pre) ≠ 0 := by simp
        simp only [hne, if_false]
        split at h2 <;> omega
    · obtain ⟨line, h1, h2⟩ := ih (l.advance c)
      have hc : List.count '\n' (c :: pre) = List.count '\n' pre := by
        rw [List.count_cons]; simp [h]
      have hcol : (l.advance c).col = l.col + 1 := by simp [Loc.advance, h]
      rw [hcol] at h2
      simp only [List.cons_append, splitLines, h, if_false, hc, Loc.advanceBy]
      cases hs : splitLines (pre ++ rest) with
      | nil => exact absurd hs (splitLines_ne_nil _)
      | cons x xs =>
        rw [hs] at h1
        by_cases hk : List.count '\n' pre = 0
        · simp only [hk, List.getElem?_cons_zero, Option.some.injEq] at h1
          subst h1
          refine ⟨c :: x, by simp [hk], ?_⟩
          simp only [hk, if_true] at h2 ⊢
          simp; omega
        · obtain ⟨k, hk'⟩ := Nat.exists_eq_succ_of_ne_zero hk
          rw [hk'] at h1 ⊢
          simp only [List.getElem?_cons_succ] at h1
          refine ⟨line, by simp [h1], ?_⟩
          simp only [hk, if_false] at h2
          simp; omega

theorem one_le_utf8Size (c : Char) : 1 ≤ c.utf8Size := Char.utf8Size_pos c

theorem length_le_byteLen (l : List Char) : l.length ≤ byteLen l := by
  induction l with
  | nil => simp [byteLen]
  | cons c cs ih =>
    have := one_le_utf8Size c
    simp [byteLen] at ih ⊢
    omega

/-! ### The 64-bit arithmetic -/

theorem repeatSpanOK_of_le (ec sc : Nat) (h : sc ≤ ec) (hb : ec < two63 - 1) : repeatSpanOK ec sc = true := by
  unfold repeatSpanOK nonneg iadd usub two64 at *
  unfold two63 at *
  simp only [decide_eq_true_eq]
  omega

theorem padOK_of_small (sc : Nat) (hb : sc < two63 - 6) : padOK sc = true := by
  unfold padOK nonneg iadd two64 at *
  unfold two63 at *
  simp only [decide_eq_true_eq]
  omega

/-! ### Positions of the text -/

/-- Facts about a real position `locAt src i`, `i ≤ |src|`. -/
theorem locAt_facts (src : List Char) (i : Nat) (hi : i ≤ src.length) :
    1 ≤ (Spec.locAt src i).line
      ∧ (Spec.locAt src i).line ≤ (splitLines src).length
      ∧ (Spec.locAt src i).col ≤ src.length + 1
      ∧ ∃ line, (splitLines src)[(Spec.locAt src i).line - 1]? = some line
          ∧ (Spec.locAt src i).col ≤ 1 + line.length := by
  have hsplit : src = src.take i ++ src.drop i := (List.take_append_drop i src).symm
  have hloc : Spec.locAt src i = Loc.start.advanceBy (src.take i) := by
    rw [locAt_eq_locOf _ _ hi, start_advanceBy]
  have hline : (Spec.locAt src i).line = 1 + (src.take i).count '\n' := by
    rw [hloc, advanceBy_line]; rfl
  have hcnt : (src.take i).count '\n' ≤ src.count '\n' := by
    conv => rhs; rw [hsplit]
    rw [List.count_append]; omega
  obtain ⟨line, h1, h2⟩ := col_le_line (src.take i) (src.drop i) Loc.start
  rw [← hsplit] at h1
  rw [← hloc] at h2
  have hstart : Loc.start.col = 1 := rfl
  have hcol : (Spec.locAt src i).col ≤ 1 + line.length := by
    rw [hstart] at h2; split at h2 <;> omega
  have hlen : line.length ≤ src.length := by
    -- the line is one of the pieces of the text
    have hmem : line ∈ splitLines src := List.mem_of_getElem? h1
    clear h1 h2 hcol hline hloc hsplit hcnt hi
    induction src generalizing line with
    | nil => simp [splitLines] at hmem; subst hmem; simp
    | cons c cs ih =>
      simp only [splitLines] at hmem
      by_cases hc : c = '\n'
      · simp only [hc, if_true, List.mem_cons] at hmem
        rcases hmem with rfl | hm
        · simp
        · have := ih line hm; simp; omega
      · simp only [hc, if_false] at hmem
        cases hs : splitLines cs with
        | nil => exact absurd hs (splitLines_ne_nil cs)
        | cons x xs =>
          rw [hs] at hmem
          simp only [List.mem_cons] at hmem
          rcases hmem with rfl | hm
          · have := ih x (by rw [hs]; simp); simp; omega
          · have := ih line (by rw [hs]; simp [hm]); simp; omega
  refine ⟨by omega, by rw [splitLines_length]; omega, by omega, line, ?_, hcol⟩
  rw [hline]; simpa using h1

/-- Two real positions `i ≤ j` on the same line have columns in the same order. -/
theorem col_mono_same_line (src : List Char) (i j : Nat) (hij : i ≤ j) (hj : j ≤ src.length)
    (hl : (Spec.locAt src i).line = (Spec.locAt src j).line) :
    (Spec.locAt src i).col ≤ (Spec.locAt src j).col := by
  have hi : i ≤ src.length := by omega
  have e1 : Spec.locAt src i = locOf (src.take i) := locAt_eq_locOf _ _ hi
  have e2 : Spec.locAt src j = locOf (src.take j) := locAt_eq_locOf _ _ hj
  have hsplit : src.take j = src.take i ++ (src.take j).drop i := by
    have := (List.take_append_drop i (src.take j)).symm
    rw [List.take_take, Nat.min_eq_left hij] at this
    exact this
  have e3 : locOf (src.take j) = (locOf (src.take i)).advanceBy ((src.take j).drop i) := by
    rw [locOf_advanceBy, ← hsplit]
  rw [e1, e2, e3] at hl ⊢
  rw [advanceBy_line] at hl
  have h0 : ((src.take j).drop i).count '\n' = 0 := by omega
  rw [advanceBy_col_of_no_newline _ _ h0]
  omega

end HmsProofs.Lemmas.PosRender

namespace HmsProofs.Lemmas.PosRender
open Hms Hms.Lex Hms.Pos HmsProofs.Lemmas.LexLoc

theorem byteLen_le (l : List Char) : byteLen l ≤ 4 * l.length := by
  induction l with
  | nil => simp [byteLen]
  | cons c cs ih =>
    have := Char.utf8Size_le_four c
    simp [byteLen] at ih ⊢
    omega

theorem multiCount_ok (b sc : Nat) (h : sc ≤ b + 1) (hb : b < two63 - 1) :
    nonneg (iadd (usub b sc) 1) = true := by
  unfold nonneg iadd usub two64 at *
  unfold two63 at *
  simp only [decide_eq_true_eq]
  omega

/-- The size bound under which the 64-bit arithmetic of the renderers cannot wrap: 2^32 runes. -/
def sizeBound : Nat := 4294967296

theorem line_length_le (src : List Char) (k : Nat) (line : List Char)
    (h : (splitLines src)[k]? = some line) : line.length ≤ src.length := by
  have hmem : line ∈ splitLines src := List.mem_of_getElem? h
  clear h
  induction src generalizing line with
  | nil => simp [splitLines] at hmem; subst hmem; simp
  | cons c cs ih =>
    simp only [splitLines] at hmem
    by_cases hc : c = '\n'
    · simp only [hc, if_true, List.mem_cons] at hmem
      rcases hmem with rfl | hm
      · simp
      · have := ih line hm; simp; omega
    · simp only [hc, if_false] at hmem
      cases hs : splitLines cs with
      | nil => exact absurd hs (splitLines_ne_nil cs)
      | cons x xs =>
        rw [hs] at hmem
        simp only [List.mem_cons] at hmem
        rcases hmem with rfl | hm
        · have := ih x (by rw [hs]; simp); simp; omega
        · have := ih line (by rw [hs]; simp [hm]); simp; omega

/-- `bl` gives plausible byte lengths: every rune of a line takes between 1 and 4 bytes (true of
UTF-8 and of Go's decoding of invalid UTF-8, where an invalid byte becomes one U+FFFD). -/
def ByteLens (bl : Nat → Nat) (src : List Char) : Prop :=
  ∀ k line, (splitLines src)[k]? = some line → line.length ≤ bl k ∧ bl k ≤ 4 * line.length

theorem byteLens_utf8 (src : List Char) : ByteLens (lineBytes src) src := by
  intro k line h
  simp only [lineBytes, h, Option.getD_some]
  exact ⟨length_le_byteLen line, byteLen_le line⟩

/-- A span whose ends are real positions, start not after end, renders with both renderers —
whatever the encoding makes of the byte lengths of the lines. -/
theorem render_safe_with (bl : Nat → Nat) (src : List Char) (sp : Span) (hbl : ByteLens bl src)
    (hsize : src.length < sizeBound) (hin : InText src sp) (hord : Ordered sp) :
    renderErrOK src sp = true ∧ renderDiagOKWith bl src sp = true := by
  obtain ⟨hi, hj, hs, he⟩ := hin
  unfold Ordered at hord
  obtain ⟨a1, a2, a3, line, a4, a5⟩ := locAt_facts src sp.start.idx hi
  obtain ⟨_, _, b3, _⟩ := locAt_facts src sp.stop.idx hj
  rw [← hs] at a1 a2 a3 a4 a5
  rw [← he] at b3
  have hsb : sizeBound = 4294967296 := rfl
  have h63 : two63 = 9223372036854775808 := rfl
  have hlines : linesOK (splitLines src).length sp.start.line = true := by
    simp [linesOK, a1, a2]
  have hpad : padOK sp.start.col = true := padOK_of_small _ (by omega)
  have hsame : sp.start.line = sp.stop.line → repeatSpanOK sp.stop.col sp.start.col = true := by
    intro hl
    have := col_mono_same_line src sp.start.idx sp.stop.idx hord hj (by rw [← hs, ← he]; exact hl)
    rw [← hs, ← he] at this
    exact repeatSpanOK_of_le _ _ this (by omega)
  have hmulti : multiLineOKWith bl src sp.start.line sp.start.col = true := by
    unfold multiLineOKWith
    rw [a4]
    obtain ⟨h1, h2⟩ := hbl _ line a4
    have h3 := line_length_le src _ line a4
    exact multiCount_ok _ _ (by omega) (by omega)
  constructor
  · unfold renderErrOK
    rw [hlines, hpad]
    by_cases hl : sp.start.line = sp.stop.line
    · simp [hl, hsame hl]
    · simp [hl]
  · unfold renderDiagOKWith
    split
    · rfl
    · rw [hlines, hpad]
      by_cases hl : sp.start.line = sp.stop.line
      · by_cases hc : sp.start.col = sp.stop.col
        · simp [hl, hc]
        · simp [hl, hc, hsame hl]
      · simp [hl, hmulti]

theorem render_safe (src : List Char) (sp : Span) (hsize : src.length < sizeBound)
    (hin : InText src sp) (hord : Ordered sp) :
    renderErrOK src sp = true ∧ renderDiagOK src sp = true :=
  render_safe_with (lineBytes src) src sp (byteLens_utf8 src) hsize hin hord

theorem render_diag_whole_file (src : List Char) (sp : Span) (h : WholeFile sp) :
    renderDiagOK src sp = true := by
  obtain ⟨h1, h2⟩ := h
  unfold renderDiagOK renderDiagOKWith
  simp [h1, h2, Loc.zero]

end HmsProofs.Lemmas.PosRender
