import HmsProofs.Lemmas.SimHSem
/-!
# The simulation for the general fragment: calls, `return`, loops with `break`/`continue`,
`println`
-/
namespace HmsProofs.Sim
open Hms.Core Hms.Core.Comp Hms.Core.VM

/-! ## What is known about a compiled function -/

/-- Data about one compiled function. -/
structure FnInfo where
  c : List (RInstr × Span)
  σ : String → Nat
  lab : String → Nat
  N : String → Prop
  T : List String
  φ : String → Option String
  scopes0 : CScopes
  vm0 : List (String × Nat)
  lm0 : LM

/-- The function `g` with definition `fd` (parameters, statements, trailing expression) is in the
fragment, and `I.c` is its code as the VM runs it. -/
structure FnOK (G : GCtx) (g : String) (fd : FnDef) (I : FnInfo) (stmts : List Stmt) (e : Expr) : Prop where
  name : fd.name = g
  body : ∃ bsp bty, fd.body = .mk bsp bty stmts (some e)
  params : ∀ p ∈ fd.params, p.isSingleton = false
  code : findCode G.code (mangleFnName G.mod g) = some I.c
  placed : Placed I.lab I.σ I.c 0 (cgFn G.mod I.φ fd stmts (some e) I.scopes0 I.vm0 I.lm0)
  inj : ∀ a b, I.N a → I.N b → I.σ a = I.σ b → a = b
  vars : ∀ m ∈ codeVars (cgFn G.mod I.φ fd stmts (some e) I.scopes0 I.vm0 I.lm0), I.N m
  slot : ∀ m, I.N m → I.σ m < (fnParts G.mod I.φ fd stmts (some e) I.scopes0 I.vm0 I.lm0).envE.nv
  frame : (fnParts G.mod I.φ fd stmts (some e) I.scopes0 I.vm0 I.lm0).envE.nv ≤ G.F
  okS : Frag.okFSs G.fr false true stmts = true
  okE : Frag.okE G.fr e = true
  wsS : Frag.wsGSs G.mod g I.φ [] stmts (fnParts G.mod I.φ fd stmts (some e) I.scopes0 I.vm0 I.lm0).envB = true
  wsE : Frag.wsGE (fnParts G.mod I.φ fd stmts (some e) I.scopes0 I.vm0 I.lm0).envS.scopes I.φ e = true
  tParams : ∀ p ∈ fd.params, p.name ∈ I.T
  tIdents : ∀ x ∈ Frag.identsGSs stmts, x ∈ I.T
  tVars : ∀ x ∈ Frag.namesGE e, x ∈ I.T
  key : cleanupKey G.mod g ∉ I.T
  outer : ∀ sc ∈ I.scopes0, ∀ x ∈ I.T, sc.lookup x = none
  phi : PhiOK G I.φ

/-- Every callable function is in the fragment. -/
def ProgOK (G : GCtx) : Prop :=
  ∀ g fd, G.K g → findFn G.cfg.prog G.mod g = some fd →
    ∃ I stmts e, FnOK G g fd I stmts e ∧ (G.fr = true → ∀ y ∈ I.T, ("$iter_" ++ y) ∉ I.T)

structure GCtx.OK' (G : GCtx) : Prop where
  prog : ProgOK G
  room : G.B + ((G.cfg.callLimit : Int) + 2) * (G.F : Int) < (G.lim.memory : Int)
  base : 0 ≤ G.B
  println : G.s.globals.lookup "println" = none
  noPrintFn : resolveFn G.cfg.prog G.mod "println" = none
  noThrowFn : resolveFn G.cfg.prog G.mod "throw" = none

/-- … and there is no `for` loop anywhere: the VM's iterator table is never touched. -/
structure GCtx.OK (G : GCtx) : Prop extends GCtx.OK' G where
  nofor : G.fr = false

/-! ## Pure expressions inside the general fragment -/

theorem varsG_pure : ∀ (n : Nat),
    (∀ (e : Expr), Frag.depthE e ≤ n → Frag.pureE e = true →
      Frag.varsGE e = Frag.varsE e ∧ Frag.callsGE e = []) ∧
    (∀ (b : Block), Frag.depthB b ≤ n → Frag.pureB b = true →
      Frag.varsGB b = Frag.varsB b ∧ Frag.callsGB b = []) := by
  intro n
  induction n with
  | zero =>
    constructor
    · intro e hd; have := depthE_pos e; omega
    · intro b hd
      obtain ⟨sp, ty, stmts, oe⟩ := b
      cases oe <;> simp [Frag.depthB] at hd
  | succ n ih =>
    obtain ⟨ihE, ihB⟩ := ih
    constructor
    · intro e hd hp
      cases e <;> try (simp only [Frag.pureE, Bool.false_eq_true] at hp)
      case int | bool | str | null | none | ident => exact ⟨rfl, rfl⟩
      case grouped sp e =>
        simp only [Frag.varsGE, Frag.varsE, Frag.callsGE]
        exact ihE e (by simp only [Frag.depthE] at hd; omega) hp
      case pre sp ty op e =>
        simp only [Frag.varsGE, Frag.varsE, Frag.callsGE]
        exact ihE e (by simp only [Frag.depthE] at hd; omega) hp
      case «infix» sp ty op l r =>
        simp only [Bool.and_eq_true] at hp
        simp only [Frag.depthE] at hd
        have hl := ihE l (by omega) hp.1
        have hr := ihE r (by omega) hp.2
        simp only [Frag.varsGE, Frag.varsE, Frag.callsGE, hl.1, hl.2, hr.1, hr.2, List.append_nil, and_self]
      case ifE sp ty c t el =>
        cases el with
        | none => simp [Frag.pureE] at hp
        | some eb =>
          simp only [Frag.pureE, Bool.and_eq_true] at hp
          simp only [Frag.depthE] at hd
          have hc := ihE c (by omega) hp.1.1
          have ht := ihB t (by omega) hp.1.2
          have he := ihB eb (by omega) hp.2
          simp only [Frag.varsGE, Frag.varsE, Frag.callsGE, hc.1, hc.2, ht.1, ht.2, he.1, he.2, List.append_nil,
            and_self]
    · intro b hd hp
      obtain ⟨sp, ty, stmts, oe⟩ := b
      cases stmts with
      | cons _ _ => simp [Frag.pureB] at hp
      | nil =>
        cases oe with
        | none => simp [Frag.pureB] at hp
        | some e =>
          simp only [Frag.pureB] at hp
          simp only [Frag.varsGB, Frag.varsB, Frag.callsGB]
          exact ihE e (by simp only [Frag.depthB] at hd; omega) hp

theorem varsGE_pure (e : Expr) (h : Frag.pureE e = true) : Frag.varsGE e = Frag.varsE e :=
  ((varsG_pure (Frag.depthE e)).1 e (Nat.le_refl _) h).1

/-- The pure theorem `exec_pure`, read in the general setting. -/
theorem simGE_pure (G : GCtx) (A : Act) (hA : A.OK G) (fuel : Nat) (e : Expr) (st : St) (ip : Nat)
    (stk : List SVal) (mem : Mem) (lm : LM) (scopes : CScopes) (vm : List (String × Nat))
    (hp : Frag.pureE e = true) (hres : Frag.resolved scopes (Frag.varsE e) = true)
    (hT : ∀ x ∈ Frag.varsE e, x ∈ A.T)
    (hpl : Placed A.lab A.σ A.c ip (cpE G.mod (ρS scopes) e lm).1)
    (hrel : StRel G.mod A.T A.N A.σ G.lim A.mp scopes vm st.scopes mem) (hsp : SpecOK G A.mp st) :
    SimGE G A ip (nI (cpE G.mod (ρS scopes) e lm).1) stk mem st (evalExpr G.cfg fuel e st) := by
  have henv := hrel.scopes.envRel A.T A.σ G.lim A.mp (Frag.varsE e) hT hres
  have h := fun it => exec_pure G.cfg G.code G.lim G.mod (ρS scopes) A.σ A.lab
    (baseOf (withIt G.s it) A.fn A.rest A.mp st.world)
    ⟨A.fn, 0⟩ A.rest A.c rfl hA.code fuel e st ip stk mem lm hp hpl henv rfl
  rcases hev : evalExpr G.cfg fuel e st with ⟨r, st'⟩
  simp only [hev] at h
  cases r with
  | ok v =>
    obtain ⟨rfl, _⟩ := h ⟨[], 0⟩
    exact ⟨rfl, mem, none, OrgOK.none _, Runs.of_runsTo (fun it => (h it).2), MemLe.refl _ _ _⟩
  | error c =>
    cases c <;> first | trivial | exact (h ⟨[], 0⟩).elim | skip
    obtain ⟨rfl, _⟩ := h ⟨[], 0⟩
    intro _
    exact RunsF.of_runsFatal (fun it => (h it).2)

/-! ## Atoms -/

/-- The value of an atom: a function of the scopes only. -/
def atomVal (scopes : SScopes) : Expr → Option Val
  | .int _ v => some (.int (I64.ofInt v))
  | .bool _ b => some (.bool b)
  | .str _ s => some (.str s)
  | .null _ => some .null
  | .none _ => some (.opt none)
  | .ident _ _ name _ _ _ => lookupScopes name scopes
  | .grouped _ e => atomVal scopes e
  | _ => none

theorem atom_pure' : ∀ (n : Nat) (e : Expr), Frag.depthE e ≤ n → Frag.atomE e = true → Frag.pureE e = true := by
  intro n
  induction n with
  | zero => intro e hd; have := depthE_pos e; omega
  | succ n ih =>
    intro e hd ha
    cases e <;> try (simp [Frag.atomE] at ha; done)
    case int | bool | str | null | none => rfl
    case ident => simpa [Frag.atomE, Frag.pureE] using ha
    case grouped sp e =>
      simp only [Frag.atomE] at ha
      simp only [Frag.pureE]
      exact ih e (by simp only [Frag.depthE] at hd; omega) ha

theorem atom_pure (e : Expr) (h : Frag.atomE e = true) : Frag.pureE e = true :=
  atom_pure' _ e (Nat.le_refl _) h

/-- Evaluating an atom: at every fuel either `timeout` or its value, the state untouched; with
enough fuel the value. -/
theorem atom_eval (cfg : Cfg) : ∀ (n : Nat) (e : Expr) (st : St), Frag.depthE e ≤ n → Frag.atomE e = true →
    (∀ x ∈ Frag.varsE e, (lookupScopes x st.scopes).isSome = true) →
    ∃ v, atomVal st.scopes e = some v ∧
      (∀ fuel, evalExpr cfg fuel e st = (.error .timeout, st) ∨ evalExpr cfg fuel e st = (.ok v, st)) ∧
      (∀ fuel, Frag.depthE e ≤ fuel → evalExpr cfg fuel e st = (.ok v, st)) := by
  intro n
  induction n with
  | zero => intro e st hd; have := depthE_pos e; omega
  | succ n ih =>
    intro e st hd ha hb
    have lit : ∀ (e : Expr) (v : Val), (∀ f, evalExpr cfg (f + 1) e st = (.ok v, st)) →
        (∀ fuel, evalExpr cfg fuel e st = (.error .timeout, st) ∨ evalExpr cfg fuel e st = (.ok v, st)) ∧
        (∀ fuel, 1 ≤ fuel → evalExpr cfg fuel e st = (.ok v, st)) := by
      intro e v h
      constructor
      · intro fuel
        cases fuel with
        | zero => left; rw [evalExpr]; rfl
        | succ f => right; exact h f
      · intro fuel hf
        obtain ⟨f, rfl⟩ : ∃ f, fuel = f + 1 := ⟨fuel - 1, by omega⟩
        exact h f
    cases e <;> try (simp [Frag.atomE] at ha; done)
    case int sp v =>
      obtain ⟨h1, h2⟩ := lit (.int sp v) (.int (I64.ofInt v)) (fun f => by rw [evalExpr]; rfl)
      exact ⟨_, rfl, h1, fun fuel hf => h2 fuel (by simpa [Frag.depthE] using hf)⟩
    case bool sp v =>
      obtain ⟨h1, h2⟩ := lit (.bool sp v) (.bool v) (fun f => by rw [evalExpr]; rfl)
      exact ⟨_, rfl, h1, fun fuel hf => h2 fuel (by simpa [Frag.depthE] using hf)⟩
    case str sp v =>
      obtain ⟨h1, h2⟩ := lit (.str sp v) (.str v) (fun f => by rw [evalExpr]; rfl)
      exact ⟨_, rfl, h1, fun fuel hf => h2 fuel (by simpa [Frag.depthE] using hf)⟩
    case null sp =>
      obtain ⟨h1, h2⟩ := lit (.null sp) .null (fun f => by rw [evalExpr]; rfl)
      exact ⟨_, rfl, h1, fun fuel hf => h2 fuel (by simpa [Frag.depthE] using hf)⟩
    case none sp =>
      obtain ⟨h1, h2⟩ := lit (.none sp) (.opt none) (fun f => by rw [evalExpr]; rfl)
      exact ⟨_, rfl, h1, fun fuel hf => h2 fuel (by simpa [Frag.depthE] using hf)⟩
    case ident sp ty name g f s =>
      have := hb name (by simp [Frag.varsE])
      cases hl : lookupScopes name st.scopes with
      | none => simp [hl] at this
      | some v =>
        obtain ⟨h1, h2⟩ := lit (.ident sp ty name g f s) v (fun f' => evalExpr_ident _ _ _ _ _ _ _ _ _ v hl)
        exact ⟨v, hl, h1, fun fuel hf => h2 fuel (by simpa [Frag.depthE] using hf)⟩
    case grouped sp e =>
      simp only [Frag.atomE] at ha
      simp only [Frag.depthE] at hd
      obtain ⟨v, hv, h1, h2⟩ := ih e st (by omega) ha (by simpa [Frag.varsE] using hb)
      refine ⟨v, hv, ?_, ?_⟩
      · intro fuel
        cases fuel with
        | zero => left; rw [evalExpr]; rfl
        | succ f => rw [evalExpr]; exact h1 f
      · intro fuel hf
        simp only [Frag.depthE] at hf
        obtain ⟨f, rfl⟩ : ∃ f, fuel = f + 1 := ⟨fuel - 1, by omega⟩
        rw [evalExpr]; exact h2 f (by omega)

theorem bound_of_resolved {T σ lim mp mem} {scopes : CScopes} {ss : SScopes}
    (h : ScopesRel T σ lim mp mem scopes ss) (xs : List String) (hT : ∀ x ∈ xs, x ∈ T)
    (hres : Frag.resolved scopes xs = true) : ∀ x ∈ xs, (lookupScopes x ss).isSome = true := by
  intro x hx
  have hl := h.lookup T σ lim mp x (hT x hx)
  simp only [Frag.resolved, List.all_eq_true] at hres
  have hsome := hres x hx
  cases hc : ρS scopes x with
  | none => simp [hc] at hsome
  | some m =>
    cases hs : lookupScopes x ss with
    | none => simp only [hc, hs] at hl
    | some v => rfl

/-- On the VM an atom pushes its value, whatever the output so far, touching nothing. -/
theorem atom_runs (G : GCtx) (A : Act) (hA : A.OK G) (e : Expr) (st : St) (ip : Nat)
    (stk : List SVal) (mem : Mem) (lm : LM) (scopes : CScopes) (vm : List (String × Nat))
    (ha : Frag.atomE e = true) (hres : Frag.resolved scopes (Frag.varsE e) = true)
    (hT : ∀ x ∈ Frag.varsE e, x ∈ A.T)
    (hpl : Placed A.lab A.σ A.c ip (cpE G.mod (ρS scopes) e lm).1)
    (hrel : StRel G.mod A.T A.N A.σ G.lim A.mp scopes vm st.scopes mem) :
    ∃ v, atomVal st.scopes e = some v ∧
      ∀ out, Runs G.fr G.code G.lim G.s A.fn A.rest A.mp ip stk mem out
        (ip + nI (cpE G.mod (ρS scopes) e lm).1) (⟨v, none⟩ :: stk) mem out := by
  have hb := bound_of_resolved hrel.scopes (Frag.varsE e) hT hres
  obtain ⟨v, hv, _, _⟩ := atom_eval G.cfg _ e st (Nat.le_refl _) ha hb
  refine ⟨v, hv, fun out => ?_⟩
  -- the value of an atom does not depend on the heap: evaluate it over the VM's heap
  obtain ⟨v', hv', _, h2⟩ := atom_eval G.cfg _ e { st with heap := out.heap } (Nat.le_refl _) ha hb
  have hvv : v' = v := by
    have : atomVal st.scopes e = some v' := hv'
    rw [hv] at this; exact (Option.some.inj this).symm
  subst hvv
  have henv := hrel.scopes.envRel A.T A.σ G.lim A.mp (Frag.varsE e) hT hres
  have h := fun it => exec_pure G.cfg G.code G.lim G.mod (ρS scopes) A.σ A.lab
    (baseOf (withIt G.s it) A.fn A.rest A.mp out)
    ⟨A.fn, 0⟩ A.rest A.c rfl hA.code (Frag.depthE e) e { st with heap := out.heap } ip stk mem lm (atom_pure e ha)
    hpl henv rfl
  simp only [h2 _ (Nat.le_refl _)] at h
  exact Runs.of_runsTo (fun it => (h it).2)

/-- `StRel` only looks at cells up to `mp`. -/
theorem StRel.memLe {mod T N σ lim mp cs vm ss mem mem'} (h : StRel mod T N σ lim mp cs vm ss mem)
    (hm : CellsLe mp mem mem') : StRel mod T N σ lim mp cs vm ss mem' :=
  ⟨ScopesRel.mem_congr T σ lim mp (fun m _ => hm _ (by omega)) h.scopes, h.nodup, h.inN, h.named⟩

/-! ## Argument lists -/

def allAtoms (args : List (String × Expr)) : Bool := args.all fun a => Frag.atomE a.2

/-- Variables of an argument list, for the pure reading. -/
def varsArgs : List (String × Expr) → List String
  | [] => []
  | a :: as => Frag.varsE a.2 ++ varsArgs as

/-- A list of atoms: the specification yields their values (or `timeout`) without touching the
state; the VM pushes them — last argument first, so that the first ends up on top. -/
theorem atoms_run (G : GCtx) (A : Act) (hA : A.OK G) (st : St) (mem : Mem) (scopes : CScopes)
    (vm : List (String × Nat))
    (hrel : StRel G.mod A.T A.N A.σ G.lim A.mp scopes vm st.scopes mem) :
    ∀ (args : List (String × Expr)) (ip : Nat) (stk : List SVal) (lm : LM),
      allAtoms args = true → Frag.resolved scopes (varsArgs args) = true → (∀ x ∈ varsArgs args, x ∈ A.T) →
      Placed A.lab A.σ A.c ip (cgArgs G.mod (ρS scopes) A.φ args lm).1 →
      ∃ vals : List Val,
        (∀ st2 : St, st2.scopes = st.scopes → ∀ fuel,
          evalList G.cfg fuel (args.map (·.2)) st2 = (.error .timeout, st2) ∨
          evalList G.cfg fuel (args.map (·.2)) st2 = (.ok vals, st2)) ∧
        ∀ out, Runs G.fr G.code G.lim G.s A.fn A.rest A.mp ip stk mem out
          (ip + nI (cgArgs G.mod (ρS scopes) A.φ args lm).1) (vals.map (⟨·, none⟩) ++ stk) mem out := by
  intro args
  induction args with
  | nil =>
    intro ip stk lm _ _ _ _
    refine ⟨[], ?_, fun out => (Runs.refl ip stk mem out).cast (by simp [cgArgs])⟩
    intro st2 _ fuel
    cases fuel with
    | zero => left; rw [List.map_nil, evalList]; rfl
    | succ f => right; rw [List.map_nil, evalList_nil]
  | cons a as ih =>
    intro ip stk lm hat hres hT hpl
    simp only [allAtoms, List.all_cons, Bool.and_eq_true] at hat
    obtain ⟨ha, has⟩ := hat
    simp only [varsArgs] at hres hT
    have hres1 : Frag.resolved scopes (Frag.varsE a.2) = true := by
      simp only [Frag.resolved, List.all_append, Bool.and_eq_true] at hres; exact hres.1
    have hres2 : Frag.resolved scopes (varsArgs as) = true := by
      simp only [Frag.resolved, List.all_append, Bool.and_eq_true] at hres; exact hres.2
    simp only [cgArgs] at hpl ⊢
    obtain ⟨hpl1, hpl2⟩ := hpl.append
    obtain ⟨vs, hvs1, hvs2⟩ := ih ip stk lm has hres2 (fun x hx => hT x (List.mem_append.mpr (Or.inr hx))) hpl1
    rw [cgE_of_pure _ _ _ _ _ (atom_pure _ ha)] at hpl2 ⊢
    obtain ⟨v, hv, hrun⟩ := atom_runs G A hA a.2 st (ip + nI (cgArgs G.mod (ρS scopes) A.φ as lm).1)
      (vs.map (⟨·, none⟩) ++ stk) mem _ scopes vm ha hres1
      (fun x hx => hT x (List.mem_append.mpr (Or.inl hx))) hpl2 hrel
    refine ⟨v :: vs, ?_, fun out => ((hvs2 out).trans (hrun out)).cast (by rw [nI_append]; omega)⟩
    intro st2 hsc fuel
    cases fuel with
    | zero => left; rw [evalList]; rfl
    | succ f =>
      rw [List.map_cons, evalList_cons]
      have hb2 := bound_of_resolved hrel.scopes (Frag.varsE a.2)
        (fun x hx => hT x (List.mem_append.mpr (Or.inl hx))) hres1
      obtain ⟨v', hv', h1, _⟩ := atom_eval G.cfg _ a.2 st2 (Nat.le_refl _) ha (by rw [hsc]; exact hb2)
      rw [hsc, hv] at hv'
      cases hv'
      rcases h1 f with h | h
      · left; rw [h]
      · rw [h]
        simp only []
        rcases hvs1 st2 hsc f with h' | h'
        · left; rw [h']
        · right; rw [h']

/-! ## The statements proved by induction on the specification's fuel -/

def SimArgs (G : GCtx) (A : Act) (ip n : Nat) (stk : List SVal) (mem : Mem) (st : St)
    (r : Except Ctl (List Val) × St) : Prop :=
  match r with
  | (.ok vals, st') =>
    st' = { st with out := st'.out, heap := st'.heap } ∧
      ∃ mem' svals, svals.map (·.v) = vals ∧ (G.fr = false → svals = vals.map (⟨·, none⟩)) ∧
        Runs G.fr G.code G.lim G.s A.fn A.rest A.mp ip stk mem st.world (ip + n)
          (svals ++ stk) mem' st'.world ∧ MemLe G.fr A.mp mem mem'
  | (.error (.fatal kd m sp), st') =>
    kd ≠ "StackOverFlow" → RunsF G.code G.lim G.s A.fn A.rest A.mp ip stk mem st.world kd m sp st'.world
  | (.error (.throw msg sp), st') =>
    st' = { st with out := st'.out, heap := st'.heap } ∧
      ∃ mem', RunsT G A.fn A.rest A.mp ip stk mem st.world msg sp mem' st'.world ∧ MemLe G.fr A.mp mem mem'
  | (.error (.unsupported _), _) => True
  | (.error .timeout, _) => True
  | _ => False

def PE (G : GCtx) (fuel : Nat) : Prop :=
  ∀ (A : Act), A.OK G → ∀ (e : Expr) (st : St) (ip : Nat) (stk : List SVal) (mem : Mem) (lm : LM)
    (scopes : CScopes) (vm : List (String × Nat)),
    Frag.okE G.fr e = true → Frag.wsGE scopes A.φ e = true → (∀ x ∈ Frag.namesGE e, x ∈ A.T) →
    Placed A.lab A.σ A.c ip (cgE G.mod (ρS scopes) A.φ e lm).1 →
    StRel G.mod A.T A.N A.σ G.lim A.mp scopes vm st.scopes mem → SpecOK G A.mp st →
    SimGE G A ip (nI (cgE G.mod (ρS scopes) A.φ e lm).1) stk mem st (evalExpr G.cfg fuel e st)

def PGB (G : GCtx) (fuel : Nat) : Prop :=
  ∀ (A : Act), A.OK G → ∀ (b : Block) (st : St) (ip : Nat) (stk : List SVal) (mem : Mem) (lm : LM)
    (scopes : CScopes) (vm : List (String × Nat)),
    Frag.okEB G.fr b = true → Frag.resolved scopes (Frag.varsGB b) = true → Frag.callsOK scopes A.φ (Frag.callsGB b) = true →
    (∀ x ∈ Frag.varsGB b ++ Frag.callsGB b, x ∈ A.T) →
    Placed A.lab A.σ A.c ip (cgB G.mod (ρS scopes) A.φ b lm).1 →
    StRel G.mod A.T A.N A.σ G.lim A.mp scopes vm st.scopes mem → SpecOK G A.mp st →
    SimGE G A ip (nI (cgB G.mod (ρS scopes) A.φ b lm).1) stk mem st (inScope (evalBlock G.cfg fuel b) st)

def PArgs (G : GCtx) (fuel : Nat) : Prop :=
  ∀ (A : Act), A.OK G → ∀ (args : List (String × Expr)) (st : St) (ip : Nat) (stk : List SVal)
    (mem : Mem) (lm : LM) (scopes : CScopes) (vm : List (String × Nat)),
    Frag.okEArgs G.fr args = true → Frag.oneNonAtom args = true → Frag.wsGArgs scopes A.φ args = true →
    (∀ x ∈ Frag.namesGArgs args, x ∈ A.T) →
    Placed A.lab A.σ A.c ip (cgArgs G.mod (ρS scopes) A.φ args lm).1 →
    StRel G.mod A.T A.N A.σ G.lim A.mp scopes vm st.scopes mem → SpecOK G A.mp st →
    SimArgs G A ip (nI (cgArgs G.mod (ρS scopes) A.φ args lm).1) stk mem st
      (evalList G.cfg fuel (args.map (·.2)) st)

def PCall (G : GCtx) (fuel : Nat) : Prop :=
  ∀ (g : String) (fd : FnDef) (I : FnInfo) (stmts : List Stmt) (e : Expr), G.K g →
    findFn G.cfg.prog G.mod g = some fd → FnOK G g fd I stmts e →
    (G.fr = true → ∀ y ∈ I.T, ("$iter_" ++ y) ∉ I.T) →
    ∀ (sp : Span) (svals : List SVal) (st : St) (frames : List Frame) (mp : Int) (stk : List SVal)
      (mem : Mem), SpecOK G mp st → 0 ≤ mp →
    SimCall G (mangleFnName G.mod g) frames mp svals stk mem st
      (callBody G.cfg fuel sp G.mod fd.params fd.body (svals.map (·.v)) st)

/-! ## Splitting well-scopedness -/

theorem resolved_append {scopes : CScopes} {xs ys : List String} :
    Frag.resolved scopes (xs ++ ys) = true ↔ Frag.resolved scopes xs = true ∧ Frag.resolved scopes ys = true := by
  simp [Frag.resolved, List.all_append]

theorem callsOK_append {scopes : CScopes} {φ : String → Option String} {xs ys : List String} :
    Frag.callsOK scopes φ (xs ++ ys) = true ↔ Frag.callsOK scopes φ xs = true ∧ Frag.callsOK scopes φ ys = true := by
  simp [Frag.callsOK, List.all_append]

theorem SimGE.error_n {G A ip n stk mem st c st1} (n' : Nat) (h : SimGE G A ip n stk mem st (.error c, st1)) :
    SimGE G A ip n' stk mem st (.error c, st1) := by
  cases c <;> first | trivial | exact h

theorem frame_trans {st0 st st1 : St} (h0 : st = { st0 with out := st.out, heap := st.heap })
    (h1 : st1 = { st with out := st1.out, heap := st1.heap }) : st1 = { st0 with out := st1.out, heap := st1.heap } := by
  rw [h1, h0]

/-- An error of a later part, after a first part that completed (leaving `ys` on the stack). -/
theorem SimGE.error_after {G : GCtx} {A : Act} {ip n stk mem st c st1 ip1 mem1} {st0 : St} (n' : Nat)
    (ys : List SVal)
    (h0 : Runs G.fr G.code G.lim G.s A.fn A.rest A.mp ip stk mem st0.world ip1 (ys ++ stk) mem1 st.world)
    (hfr : st = { st0 with out := st.out, heap := st.heap }) (hml : MemLe G.fr A.mp mem mem1)
    (h : SimGE G A ip1 n (ys ++ stk) mem1 st (.error c, st1)) : SimGE G A ip n' stk mem st0 (.error c, st1) := by
  cases c <;> first | trivial | exact h.elim | exact fun hk => h0.fatal (h hk) | skip
  obtain ⟨hfr1, mem2, hT, hml2⟩ := h
  exact ⟨frame_trans hfr hfr1, mem2, Runs.throw ys h0 hT, hml.trans hml2⟩

/-! ## Entering and leaving a call -/

theorem Runs.call {G : GCtx} {A : Act} (hA : A.OK G) {ipc : Nat} {g : String} {sp : Span}
    {stk stk' : List SVal} {mem mem' : Mem} {out out' : World}
    (hx : A.c[ipc]? = some (.callImm g, sp))
    (h : RunsCall G g (⟨A.fn, ipc + 1⟩ :: A.rest) A.mp stk mem out stk' mem' out') :
    Runs G.fr G.code G.lim G.s A.fn A.rest A.mp ipc stk mem out (ipc + 1) stk' mem' out' := by
  refine ⟨fun k => ?_, h.inv⟩
  obtain ⟨k', e⟩ := h (k + 1)
  refine ⟨1 + k', ?_⟩
  rw [execHN_add, execHN_one, exec1H_of_next (mkSI_callImm G.code G.lim G.s A.fn ipc A.rest A.mp k stk mem out A.c hA.code g sp hx)]
  simp only [e, Nat.add_assoc]

theorem RunsF.call {G : GCtx} {A : Act} (hA : A.OK G) {ipc : Nat} {g : String} {sp : Span}
    {stk : List SVal} {mem : Mem} {out out' : World} {kd msg : String} {fsp : Span}
    (hx : A.c[ipc]? = some (.callImm g, sp))
    (h : RunsCallF G g (⟨A.fn, ipc + 1⟩ :: A.rest) A.mp stk mem out kd msg fsp out') :
    RunsF G.code G.lim G.s A.fn A.rest A.mp ipc stk mem out kd msg fsp out' := by
  intro k
  obtain ⟨k', s', e, hs⟩ := h (k + 1)
  refine ⟨1 + k', s', ?_, hs⟩
  rw [execHN_add, execHN_one, exec1H_of_next (mkSI_callImm G.code G.lim G.s A.fn ipc A.rest A.mp k stk mem out A.c hA.code g sp hx)]
  simp only [e]

/-- A call whose callee ends in an uncaught exception, after the arguments `ys` were pushed. -/
theorem RunsT.of_call {G : GCtx} {A : Act} (hA : A.OK G) {ip ipc : Nat} {g : String} {sp : Span}
    {ys stk : List SVal} {mem mem1 mem' : Mem} {out out1 out' : World} {msg : String} {tsp : Span}
    (h1 : Runs G.fr G.code G.lim G.s A.fn A.rest A.mp ip stk mem out ipc (ys ++ stk) mem1 out1)
    (hx : A.c[ipc]? = some (.callImm g, sp))
    (h : RunsCallT G g (⟨A.fn, ipc + 1⟩ :: A.rest) A.mp (ys ++ stk) stk mem1 out1 msg tsp mem' out') :
    RunsT G A.fn A.rest A.mp ip stk mem out msg tsp mem' out' := by
  refine ⟨fun k => ?_, fun hi => h.inv (h1.inv hi)⟩
  obtain ⟨k1, e1⟩ := h1 k
  obtain ⟨k2, s1, frames', mp', xs, e2, e3⟩ := h (k + k1 + 1)
  refine ⟨k1 + (1 + k2), s1, frames', ipc + 1, mp', xs, ?_, ?_⟩
  · rw [execHN_add, e1]
    simp only []
    rw [execHN_add, execHN_one, exec1H_of_next (mkSI_callImm G.code G.lim G.s A.fn ipc A.rest A.mp (k + k1) (ys ++ stk) mem1
      out1 A.c hA.code g sp hx)]
    exact e2
  · rw [e3]; simp only [Nat.add_assoc]

theorem ρS_push (scopes : CScopes) : ρS ([] :: scopes) = ρS scopes := by
  funext x
  simp [ρS, List.findSome?_cons]

theorem resolved_push (scopes : CScopes) (xs : List String) :
    Frag.resolved ([] :: scopes) xs = Frag.resolved scopes xs := by
  simp [Frag.resolved, ρS_push]

theorem callsOK_push (scopes : CScopes) (φ : String → Option String) (xs : List String) :
    Frag.callsOK ([] :: scopes) φ xs = Frag.callsOK scopes φ xs := by
  simp [Frag.callsOK, ρS_push]

/-! ## Contexts that differ in the base state -/

/-- The context with another handler stack in the base state. -/
def GCtx.withH (G : GCtx) (hs : List Handler) : GCtx := { G with s := HmsProofs.Sim.withH G.s hs }

theorem FnOK.withH {G : GCtx} {g fd I stmts e} (h : FnOK G g fd I stmts e) (hs : List Handler) :
    FnOK (G.withH hs) g fd I stmts e :=
  { name := h.name, body := h.body, params := h.params, code := h.code, placed := h.placed, inj := h.inj
    vars := h.vars, slot := h.slot, frame := h.frame, okS := h.okS, okE := h.okE, wsS := h.wsS, wsE := h.wsE
    tParams := h.tParams, tIdents := h.tIdents, tVars := h.tVars, key := h.key, outer := h.outer
    phi := h.phi }

theorem GCtx.OK'.withH {G : GCtx} (h : G.OK') (hs : List Handler) : (G.withH hs).OK' :=
  { prog := fun g fd hK hf => by
      obtain ⟨I, stmts, e, hFn, hgh⟩ := h.prog g fd hK hf
      exact ⟨I, stmts, e, hFn.withH hs, hgh⟩
    room := h.room, base := h.base, println := h.println, noPrintFn := h.noPrintFn, noThrowFn := h.noThrowFn }

theorem Act.OK.withH {G : GCtx} {A : Act} (h : A.OK G) (hs : List Handler) (rt : Bool) :
    ({ A with rt := rt } : Act).OK (G.withH hs) :=
  { code := h.code, inj := h.inj, slot := h.slot, lo := h.lo, hi := h.hi, phi := h.phi, key := h.key
    println := h.println, fnName := h.fnName, ghostN := h.ghostN, ghostT := h.ghostT }

end HmsProofs.Sim
