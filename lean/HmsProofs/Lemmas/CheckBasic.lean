import Hms.Check.Typing
import HmsProofs.Lemmas.CheckCompat
/-! Basic facts about the pieces of the checker (C03). -/
namespace HmsProofs.Lemmas.Check
open Hms.Check

theorem wrap_errs_nil {s : Bool} {r : Res} (h : (wrap s r).errs = []) : r.errs = [] ∧ anyOK s r.ty = true := by
  unfold wrap at h
  split at h
  · next hok => exact ⟨h, hok⟩
  · simp at h

theorem wrap_of_ok {s : Bool} {r : Res} (h : anyOK s r.ty = true) :
    wrap s r = { r with ex := r.ex || r.ty.isNever } := by
  unfold wrap; simp [h]

theorem compat_iff {a : Bool} {g e : Ty} : Compat a g e ↔ typeCheck a g e = none := (typeCheck_iff e a g).symm

theorem tcErr_nil' {a : Bool} {g e : Ty} {rule : Rule} (h : tcErr a g e rule = []) : typeCheck a g e = none := by
  unfold tcErr at h
  split at h
  · simp at h
  · assumption

theorem tcErr_nil {a : Bool} {g e : Ty} {rule : Rule} (h : tcErr a g e rule = []) : Compat a g e :=
  compat_iff.mpr (tcErr_nil' h)

theorem tcErr_of_compat {a : Bool} {g e : Ty} {rule : Rule} (h : Compat a g e) : tcErr a g e rule = [] := by
  unfold tcErr; simp [compat_iff.mp h]

theorem loopBodyErr_nil {t : Ty} (h : loopBodyErr t = []) : loopBodyOK t = true := by
  unfold loopBodyErr at h
  split at h
  · assumption
  · simp at h

theorem loopBodyErr_of_ok {t : Ty} (h : loopBodyOK t = true) : loopBodyErr t = [] := by
  unfold loopBodyErr; simp [h]

theorem isSome_eq_false_iff {α} {o : Option α} : o.isSome = false ↔ o = none := by
  cases o <;> simp

/-- the base of a `spawn` is analysed like the identifier it is -/
theorem checkExpr_ident (Γ : Ctx) (s : Bool) (name : String) :
    checkExpr Γ s (.ident name) = wrap s (identRes Γ name) := by
  simp only [checkExpr, identRes]

theorem spawnTargetErr_nil {Γ : Ctx} {name : String} (h : spawnTargetErr Γ name = []) : lookupTy name Γ.vars = none := by
  unfold spawnTargetErr at h
  cases hl : lookupTy name Γ.vars with
  | none => rfl
  | some t => simp [hl] at h

theorem spawnTargetErr_of_none {Γ : Ctx} {name : String} (h : lookupTy name Γ.vars = none) : spawnTargetErr Γ name = [] := by
  simp [spawnTargetErr, h]

theorem letVarTy_sound {ann : Option PTy} {t : Ty} (h : (letVarTy ann t).1 = []) : LetTy ann t (letVarTy ann t).2 := by
  cases ann with
  | none =>
    simp only [letVarTy] at h ⊢
    cases ha : t.hasAny with
    | true => simp [ha] at h
    | false => simp only [Bool.false_eq_true, ↓reduceIte]; exact LetTy.plain ha
  | some a =>
    simp only [letVarTy] at h ⊢
    cases htc : typeCheck (!t.hasAny) t (convertType true a).2 with
    | some m => simp [htc] at h
    | none =>
      simp only [htc] at h ⊢
      have : convertType true a = ([], (convertType true a).2) := by
        cases hc : convertType true a; simp_all
      exact LetTy.annotated this (compat_iff.mpr htc)

theorem letVarTy_complete {ann : Option PTy} {t vt : Ty} (h : LetTy ann t vt) : letVarTy ann t = ([], vt) := by
  cases h with
  | plain ha => simp [letVarTy, ha]
  | annotated hc htc =>
    simp only [letVarTy, hc]
    simp [compat_iff.mp htc]

end HmsProofs.Lemmas.Check
