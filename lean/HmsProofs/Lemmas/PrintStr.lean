import Hms.Print.Str
/-!
# The string literal printer against the lexer model

`stringBody` reads `escape s` followed by the closing quote back as `s`.
-/
namespace HmsProofs.Lemmas.Print
open Hms Hms.Lex

/-- The five escape sequences the printer writes are read back as the escaped character. -/
theorem lexEscape_backslash (rest : List Char) :
    Lex.escape ('\\' :: rest) = .ok '\\' ['\\'] rest := by simp [Lex.escape]
theorem lexEscape_quote (rest : List Char) :
    Lex.escape ('"' :: rest) = .ok '"' ['"'] rest := by simp [Lex.escape]
theorem lexEscape_n (rest : List Char) :
    Lex.escape ('n' :: rest) = .ok '\n' ['n'] rest := by simp [Lex.escape]
theorem lexEscape_t (rest : List Char) :
    Lex.escape ('t' :: rest) = .ok '\t' ['t'] rest := by simp [Lex.escape]
theorem lexEscape_r (rest : List Char) :
    Lex.escape ('r' :: rest) = .ok '\r' ['r'] rest := by simp [Lex.escape]

/-- `makeString`'s loop reads the escaped text back: value `s`, body `escape s`. -/
theorem stringBody_escape : ∀ (s rest : List Char) (fuel : Nat), s.length + 1 ≤ fuel →
    stringBody '"' fuel (Print.escape s ++ '"' :: rest) = .ok s (Print.escape s) rest := by
  intro s
  induction s with
  | nil =>
    intro rest fuel hf
    cases fuel with
    | zero => omega
    | succ fuel => simp [Print.escape, stringBody]
  | cons c cs ih =>
    intro rest fuel hf
    cases fuel with
    | zero => omega
    | succ fuel =>
      simp only [List.length_cons] at hf
      have ih' := ih rest fuel (by omega)
      unfold Print.escape Print.escapeChar
      by_cases h1 : c = '\\'
      · subst h1
        simp [stringBody, lexEscape_backslash, ih']
      by_cases h2 : c = '"'
      · subst h2
        simp [stringBody, lexEscape_quote, ih']
      by_cases h3 : c = '\n'
      · subst h3
        simp [stringBody, lexEscape_n, ih']
      by_cases h4 : c = '\t'
      · subst h4
        simp [stringBody, lexEscape_t, ih']
      by_cases h5 : c = '\r'
      · subst h5
        simp [stringBody, lexEscape_r, ih']
      · simp [h1, h2, h3, h4, h5, stringBody, ih']

theorem escape_length_ge (s : List Char) : s.length ≤ (Print.escape s).length := by
  induction s with
  | nil => simp [Print.escape]
  | cons c cs ih =>
    unfold Print.escape Print.escapeChar
    split <;> (try split) <;> (try split) <;> (try split) <;> (try split) <;> simp <;> omega

/-- One step of the lexer on a printed literal: the whole text is one string token with value `s`. -/
theorem nextPiece_quote (loc : Loc) (s : List Char) :
    nextPiece loc '"' (Print.escape s ++ ['"'])
      = .ok (.token (mkTok .string s loc (Print.quote s)) (Print.quote s), []) := by
  have hb := stringBody_escape s [] ((Print.escape s ++ ['"']).length + 1) (by
    have := escape_length_ge s
    simp only [List.length_append, List.length_cons, List.length_nil]
    omega)
  unfold nextPiece
  have e1 : isSpace '"' = false := by decide
  have e2 : ¬ ('"' = '/' ∧ (Print.escape s ++ ['"']).head? = some '/') := by
    intro h; exact absurd h.1 (by decide)
  have e3 : ¬ ('"' = '/' ∧ (Print.escape s ++ ['"']).head? = some '*') := by
    intro h; exact absurd h.1 (by decide)
  simp only [e1, e2, e3, Bool.false_eq_true, if_false, or_true, if_true]
  rw [hb]
  simp [Print.quote]

/-- The token stream of a printed literal: exactly one token, of kind `string`, with value `s`,
then the end of the input; no error. -/
theorem lexAll_quote (s : List Char) :
    (lexAll (Print.quote s)).tokens = [mkTok .string s Loc.start (Print.quote s)]
      ∧ (lexAll (Print.quote s)).err = none ∧ (lexAll (Print.quote s)).eof.isSome = true := by
  have hlen : (Print.quote s).length + 1 = ((Print.escape s).length + 1) + 1 + 1 := by
    simp [Print.quote]
  unfold lexAll
  rw [hlen]
  have hq : Print.quote s = '"' :: (Print.escape s ++ ['"']) := rfl
  rw [hq]
  simp only [lexPrefix, nextPiece_quote Loc.start s]
  simp
  rfl

end HmsProofs.Lemmas.Print
