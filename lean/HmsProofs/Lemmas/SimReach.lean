import HmsProofs.Lemmas.SimStraight
/-!
# VM states reached inside one frame, and code placed at an instruction index

`reach s ip k stk mem` is `s` after `k` more instructions inside the current frame: the frame's
`ip`, the stack and the memory are as given, everything else (call stack below, heap, output,
globals, handlers) is as in `s`. `Placed` says that symbolic code (with labels) sits, stripped and
lowered, at an index of the VM code and that `lab` resolves the labels defined inside it to
their positions.
-/
namespace HmsProofs.Sim
open Hms.Core Hms.Core.Comp Hms.Core.VM

def setIp (ip : Nat) : List Frame → List Frame
  | f :: rest => { f with ip := ip } :: rest
  | [] => []

def reach (s : VMState) (ip k : Nat) (stk : List SVal) (mem : List (Int × Val)) : VMState :=
  { s with stack := stk, calls := setIp ip s.calls, steps := s.steps + k, mem := mem }

theorem reach_self (s : VMState) (f : Frame) (rest : List Frame) (hc : s.calls = f :: rest) :
    reach s f.ip 0 s.stack s.mem = s := by
  obtain ⟨stack, calls, mem, mp, handlers, iters, nextIter, globals, vst, polls, steps⟩ := s
  simp only at hc
  subst hc
  rfl

theorem fetch_reach (code : Code) (s : VMState) (ip k : Nat) (stk : List SVal) (mem : List (Int × Val))
    (f : Frame) (rest : List Frame) (c : List (RInstr × Span)) (x : RInstr × Span)
    (hc : s.calls = f :: rest) (hf : findCode code f.fn = some c) (hx : c[ip]? = some x) :
    fetch code (reach s ip k stk mem) = some x := by
  unfold fetch reach
  simp [hc, setIp, hf, hx]

/-- Store components, relative to a memory `mem`. -/
def SameStoreM (s : VMState) (mem : List (Int × Val)) (s' : VMState) : Prop :=
  s'.st = s.st ∧ s'.mem = mem ∧ s'.mp = s.mp ∧ s'.globals = s.globals ∧ s'.handlers = s.handlers

section Steps
variable (code : Code) (lim : Limits) (s : VMState) (ip k : Nat) (stk : List SVal) (mem : List (Int × Val))
variable (f : Frame) (rest : List Frame) (c : List (RInstr × Span))
variable (hc : s.calls = f :: rest) (hf : findCode code f.fn = some c)
include hc hf

theorem reach_push (pv : PVal) (sp : Span) (v : Val) (hx : c[ip]? = some (.copyPush pv, sp))
    (hp : ∀ st, pvalToVal st pv = (v, st)) :
    exec1 code lim (reach s ip k stk mem) = .next (reach s (ip + 1) (k + 1) (⟨v, none⟩ :: stk) mem) := by
  have hfe := fetch_reach code s ip k stk mem f rest c _ hc hf hx
  obtain ⟨stack, calls, mem0, mp, handlers, iters, nextIter, globals, vst, polls, steps⟩ := s
  simp only at hc
  subst hc
  unfold exec1
  rw [hfe]
  simp only [step, hp]
  rfl

theorem reach_getVar (slot : Nat) (sp : Span) (v : Val) (hx : c[ip]? = some (.getVar slot, sp))
    (h0 : 0 ≤ s.mp - (slot : Int)) (h1 : s.mp - (slot : Int) < (lim.memory : Int))
    (hm : mem.lookup (s.mp - (slot : Int)) = some v) :
    exec1 code lim (reach s ip k stk mem) = .next (reach s (ip + 1) (k + 1) (⟨v, none⟩ :: stk) mem) := by
  have hfe := fetch_reach code s ip k stk mem f rest c _ hc hf hx
  obtain ⟨stack, calls, mem0, mp, handlers, iters, nextIter, globals, vst, polls, steps⟩ := s
  simp only at hc h0 h1 hm
  subst hc
  unfold exec1
  rw [hfe]
  simp only [step, reach, memGet, hm]
  rw [if_neg (by omega)]
  rfl

theorem reach_pre (op : PrefixOp) (sp : Span) (lab σ : String → Nat) (a v : Val) (oa : Option Org)
    (hx : c[ip]? = some (mapLV lab σ (preI op), sp)) (hv : preOp op a = .ok v) :
    exec1 code lim (reach s ip k (⟨a, oa⟩ :: stk) mem) = .next (reach s (ip + 1) (k + 1) (⟨v, none⟩ :: stk) mem) := by
  have hfe := fetch_reach code s ip k (⟨a, oa⟩ :: stk) mem f rest c _ hc hf hx
  obtain ⟨stack, calls, mem0, mp, handlers, iters, nextIter, globals, vst, polls, steps⟩ := s
  simp only at hc
  subst hc
  unfold exec1
  rw [hfe]
  simp only [reach, setIp]
  rw [step_pre code lim _ op sp a v oa stk lab σ rfl hv]
  simp only [advance, push1, Nat.add_assoc]

theorem reach_bin (op : InfixOp) (i : SInstr) (sp : Span) (lab σ : String → Nat) (a b : Val)
    (oa ob : Option Org) (st : St)
    (hi : arithI op = [i]) (hne : op ≠ .ne)
    (hx : c[ip]? = some (mapLV lab σ i, sp)) (hheap : s.st.heap = st.heap) :
    match binOp op a b sp st with
    | (.ok v, _) =>
      exec1 code lim (reach s ip k (⟨b, ob⟩ :: ⟨a, oa⟩ :: stk) mem) =
        .next (reach s (ip + 1) (k + 1) (⟨v, none⟩ :: stk) mem)
    | (.error (.fatal kd m fsp), _) =>
      ∃ s', exec1 code lim (reach s ip k (⟨b, ob⟩ :: ⟨a, oa⟩ :: stk) mem) = .intr (.fatal kd m fsp) s' ∧
        SameStoreM s mem s'
    | _ => True := by
  have hfe := fetch_reach code s ip k (⟨b, ob⟩ :: ⟨a, oa⟩ :: stk) mem f rest c _ hc hf hx
  obtain ⟨stack, calls, mem0, mp, handlers, iters, nextIter, globals, vst, polls, steps⟩ := s
  simp only at hc hheap
  subst hc
  have hho := binOp_heapOnly op a b sp st vst hheap
  simp only [reach, setIp] at hfe ⊢
  unfold exec1
  rw [hfe]
  simp only []
  rw [step_arith code lim _ op i sp lab σ hi, binArith_eq op _ sp ⟨b, ob⟩ ⟨a, oa⟩ stk rfl]
  cases hk : okKinds op a b with
  | false =>
    obtain ⟨w, hw⟩ := binOp_unsup op a b sp st hk hne
    rw [hw]; trivial
  | true =>
    simp only [Bool.not_true, Bool.false_eq_true, if_false, runM]
    rw [hho]
    rcases hb : binOp op a b sp st with ⟨r, st'⟩
    cases r with
    | ok v =>
      simp only [advance, push1, Nat.add_assoc]
    | error cerr =>
      cases cerr <;> try trivial
      exact ⟨_, rfl, ⟨rfl, rfl, rfl, rfl, rfl⟩⟩

theorem reach_jump (l : Nat) (sp : Span) (hx : c[ip]? = some (.jump l, sp)) :
    exec1 code lim (reach s ip k stk mem) = .next (reach s l (k + 1) stk mem) := by
  have hfe := fetch_reach code s ip k stk mem f rest c _ hc hf hx
  obtain ⟨stack, calls, mem0, mp, handlers, iters, nextIter, globals, vst, polls, steps⟩ := s
  simp only at hc
  subst hc
  unfold exec1
  rw [hfe]
  rfl

theorem reach_jumpIfFalse (l : Nat) (sp : Span) (b : Bool) (ob : Option Org)
    (hx : c[ip]? = some (.jumpIfFalse l, sp)) :
    exec1 code lim (reach s ip k (⟨.bool b, ob⟩ :: stk) mem) =
      .next (reach s (if b then ip + 1 else l) (k + 1) stk mem) := by
  have hfe := fetch_reach code s ip k (⟨.bool b, ob⟩ :: stk) mem f rest c _ hc hf hx
  obtain ⟨stack, calls, mem0, mp, handlers, iters, nextIter, globals, vst, polls, steps⟩ := s
  simp only at hc
  subst hc
  unfold exec1
  rw [hfe]
  cases b <;> rfl

theorem reach_setVar (slot : Nat) (sp : Span) (v : Val) (ov : Option Org)
    (hx : c[ip]? = some (.setVar slot, sp))
    (h0 : 0 ≤ s.mp - (slot : Int)) (h1 : s.mp - (slot : Int) < (lim.memory : Int)) :
    exec1 code lim (reach s ip k (⟨v, ov⟩ :: stk) mem) =
      .next (reach s (ip + 1) (k + 1) stk
        ((s.mp - (slot : Int), v) :: mem.filter (·.1 != s.mp - (slot : Int)))) := by
  have hfe := fetch_reach code s ip k (⟨v, ov⟩ :: stk) mem f rest c _ hc hf hx
  obtain ⟨stack, calls, mem0, mp, handlers, iters, nextIter, globals, vst, polls, steps⟩ := s
  simp only at hc h0 h1
  subst hc
  unfold exec1
  rw [hfe]
  simp only [step, reach, pop1, setIp]
  rw [if_neg (by omega)]
  rfl

theorem reach_drop (sp : Span) (v : SVal) (hx : c[ip]? = some (.drop, sp)) :
    exec1 code lim (reach s ip k (v :: stk) mem) = .next (reach s (ip + 1) (k + 1) stk mem) := by
  have hfe := fetch_reach code s ip k (v :: stk) mem f rest c _ hc hf hx
  obtain ⟨stack, calls, mem0, mp, handlers, iters, nextIter, globals, vst, polls, steps⟩ := s
  simp only at hc
  subst hc
  unfold exec1
  rw [hfe]
  rfl

end Steps

/-! ## Placed code -/

/-- Number of real instructions of a symbolic fragment. -/
def nI (frag : SCode) : Nat := (stripLabels frag).length

@[simp] theorem nI_nil : nI [] = 0 := rfl
@[simp] theorem nI_append (a b : SCode) : nI (a ++ b) = nI a + nI b := by simp [nI, stripLabels_append]
@[simp] theorem nI_label (l : String) (sp : Span) (r : SCode) : nI ((Instr.label l, sp) :: r) = nI r := rfl
theorem nI_instr (i : SInstr) (sp : Span) (r : SCode) (h : isLabel i = false) : nI ((i, sp) :: r) = nI r + 1 := by
  simp [nI, stripLabels_cons_other _ _ _ h]


/-- Every label defined in `frag` resolves to its position, counted from `ip0`. -/
def LabOK (lab : String → Nat) (ip0 : Nat) (frag : SCode) : Prop :=
  ∀ a l sp b, frag = a ++ (Instr.label l, sp) :: b → lab l = ip0 + (stripLabels a).length

/-- `frag` (symbolic, with labels) is what the VM code `c` holds from `ip0` on. -/
def Placed (lab σ : String → Nat) (c : List (RInstr × Span)) (ip0 : Nat) (frag : SCode) : Prop :=
  CodeAt c ip0 ((stripLabels frag).map (lower lab σ)) ∧ LabOK lab ip0 frag

theorem Placed.append {lab σ c ip0 A B} (h : Placed lab σ c ip0 (A ++ B)) :
    Placed lab σ c ip0 A ∧ Placed lab σ c (ip0 + nI A) B := by
  obtain ⟨h1, h2⟩ := h
  rw [stripLabels_append, List.map_append] at h1
  obtain ⟨h1a, h1b⟩ := h1.append
  simp only [List.length_map] at h1b
  refine ⟨⟨h1a, ?_⟩, ⟨h1b, ?_⟩⟩
  · intro a l sp b hab
    exact h2 a l sp (b ++ B) (by rw [hab]; simp)
  · intro a l sp b hab
    have := h2 (A ++ a) l sp b (by rw [hab]; simp)
    rw [this, stripLabels_append, List.length_append, Nat.add_assoc]
    rfl

theorem Placed.label {lab σ c ip0 l sp rest} (h : Placed lab σ c ip0 ((Instr.label l, sp) :: rest)) :
    lab l = ip0 ∧ Placed lab σ c ip0 rest := by
  obtain ⟨h1, h2⟩ := h
  refine ⟨by simpa [stripLabels] using h2 [] l sp rest rfl, ⟨by rwa [stripLabels_cons_label] at h1, ?_⟩⟩
  intro a l' sp' b hab
  have := h2 ((Instr.label l, sp) :: a) l' sp' b (by rw [hab]; rfl)
  rwa [stripLabels_cons_label] at this

theorem Placed.instr {lab σ c ip0 i sp rest} (hi : isLabel i = false)
    (h : Placed lab σ c ip0 ((i, sp) :: rest)) :
    c[ip0]? = some (mapLV lab σ i, sp) ∧ Placed lab σ c (ip0 + 1) rest := by
  obtain ⟨h1, h2⟩ := h
  rw [stripLabels_cons_other _ _ _ hi, List.map_cons] at h1
  have h1' := CodeAt.append (xs := [lower lab σ (i, sp)]) (ys := (stripLabels rest).map (lower lab σ)) h1
  refine ⟨h1.head, ⟨h1'.2, ?_⟩⟩
  intro a l' sp' b hab
  have := h2 ((i, sp) :: a) l' sp' b (by rw [hab]; rfl)
  rw [stripLabels_cons_other _ _ _ hi, List.length_cons] at this
  omega

theorem Placed.of_plain {lab σ c ip0 frag} (hp : ∀ p ∈ frag, isLabel p.1 = false)
    (h : CodeAt c ip0 (frag.map (lower lab σ))) : Placed lab σ c ip0 frag := by
  refine ⟨by rwa [stripLabels_eq_self' frag hp], ?_⟩
  intro a l sp b hab
  have := hp (Instr.label l, sp) (by rw [hab]; simp)
  cases this
where
  stripLabels_eq_self' (xs : SCode) (h : ∀ p ∈ xs, isLabel p.1 = false) : stripLabels xs = xs := by
    unfold stripLabels
    rw [List.filter_eq_self]
    intro p hp
    simp [h p hp]

/-! ## Runs inside one frame -/

/-- From frame position `(ip, stk, mem)` the VM gets, by `VM.step`s without interrupt or panic,
to `(ip', stk', mem')` (whatever the step counter was). -/
def RunsTo (code : Code) (lim : Limits) (s : VMState) (ip : Nat) (stk : List SVal) (mem : List (Int × Val))
    (ip' : Nat) (stk' : List SVal) (mem' : List (Int × Val)) : Prop :=
  ∀ k, ∃ k', execN code lim k' (reach s ip k stk mem) = .next (reach s ip' (k + k') stk' mem')

/-- From `(ip, stk, mem)` the VM runs into the fatal interrupt `(kd, msg, sp)`; heap, output,
globals, handlers and `mp` are those of `s`. -/
def RunsFatal (code : Code) (lim : Limits) (s : VMState) (ip : Nat) (stk : List SVal) (mem : List (Int × Val))
    (kd msg : String) (sp : Span) : Prop :=
  ∀ k, ∃ k' s', execN code lim k' (reach s ip k stk mem) = .intr (.fatal kd msg sp) s' ∧
    s'.st = s.st ∧ s'.mp = s.mp ∧ s'.globals = s.globals ∧ s'.handlers = s.handlers

theorem RunsTo.refl (code lim s ip stk mem) : RunsTo code lim s ip stk mem ip stk mem :=
  fun _ => ⟨0, rfl⟩

theorem RunsTo.trans {code lim s ip stk mem ip1 stk1 mem1 ip2 stk2 mem2}
    (h1 : RunsTo code lim s ip stk mem ip1 stk1 mem1) (h2 : RunsTo code lim s ip1 stk1 mem1 ip2 stk2 mem2) :
    RunsTo code lim s ip stk mem ip2 stk2 mem2 := by
  intro k
  obtain ⟨k1, e1⟩ := h1 k
  obtain ⟨k2, e2⟩ := h2 (k + k1)
  refine ⟨k1 + k2, ?_⟩
  rw [execN_add, e1]
  simp only [e2, Nat.add_assoc]

theorem RunsTo.fatal {code lim s ip stk mem ip1 stk1 mem1 kd msg sp}
    (h1 : RunsTo code lim s ip stk mem ip1 stk1 mem1) (h2 : RunsFatal code lim s ip1 stk1 mem1 kd msg sp) :
    RunsFatal code lim s ip stk mem kd msg sp := by
  intro k
  obtain ⟨k1, e1⟩ := h1 k
  obtain ⟨k2, s', e2, hs⟩ := h2 (k + k1)
  refine ⟨k1 + k2, s', ?_, hs⟩
  rw [execN_add, e1]
  simp only [e2]

theorem RunsTo.of_exec1 {code lim s ip stk mem ip' stk' mem'}
    (h : ∀ k, exec1 code lim (reach s ip k stk mem) = .next (reach s ip' (k + 1) stk' mem')) :
    RunsTo code lim s ip stk mem ip' stk' mem' :=
  fun k => ⟨1, by rw [execN_one]; exact h k⟩

/-- What a run means for a concrete start state (the frame of `s` at its own `ip`). -/
theorem RunsTo.from_state {code lim} {s : VMState} {f : Frame} {rest ip' stk' mem'}
    (hc : s.calls = f :: rest) (h : RunsTo code lim s f.ip s.stack s.mem ip' stk' mem') :
    ∃ k', execN code lim k' s = .next (reach s ip' k' stk' mem') := by
  obtain ⟨k', e⟩ := h 0
  rw [reach_self s f rest hc] at e
  exact ⟨k', by simpa using e⟩

theorem RunsFatal.from_state {code lim} {s : VMState} {f : Frame} {rest kd msg sp}
    (hc : s.calls = f :: rest) (h : RunsFatal code lim s f.ip s.stack s.mem kd msg sp) :
    ∃ k' s', execN code lim k' s = .intr (.fatal kd msg sp) s' ∧
      s'.st = s.st ∧ s'.mp = s.mp ∧ s'.globals = s.globals ∧ s'.handlers = s.handlers := by
  obtain ⟨k', s', e, hs⟩ := h 0
  rw [reach_self s f rest hc] at e
  exact ⟨k', s', e, hs⟩

end HmsProofs.Sim
