import HmsProofs.Lemmas.MembersIndex
/-!
# Lemmas for C18: the list and string members of the model compute what the rule says
-/
namespace HmsProofs.Lemmas.Members
open Hms.Members

theorem set_take_succ {α} (xs : List α) (k : Nat) (h : k < xs.length) (v : α) (ys : List α) :
    ((xs.take (k + 1)) ++ ys).set k v = xs.take k ++ v :: ys := by
  induction xs generalizing k with
  | nil => simp at h
  | cons x xs ih =>
    cases k with
    | zero => simp
    | succ k =>
      have h' : k < xs.length := by simpa using h
      simp [ih k h']

theorem goLen_eq_iff {α} (xs : List α) (x : I64) (hl : xs.length < 2 ^ 63) :
    (goLen xs == x) = decide ((xs.length : Int) = x.toInt) := by
  have h := toInt_goLen xs hl
  by_cases he : goLen xs = x
  · subst he; simp [h]
  · have : ¬ (xs.length : Int) = x.toInt := by
      intro hc; apply he; apply BitVec.eq_of_toInt_eq; rw [h]; exact hc
    simp [he, this]

/-! ## insert -/

theorem listInsert_spec (xs : List MVal) (i : I64) (v : MVal) (hl : xs.length < 2 ^ 63) :
    match wrapSpecIns i.toInt xs.length with
    | Option.some k => listInsert xs i v = .ok .null (.list (xs.take k ++ v :: xs.drop k))
    | Option.none => listInsert xs i v
        = .fatal "IndexOutOfBounds" (oobMsgMember xs.length (wrapIdx i (goLen xs))) := by
  have hw : (wrapIdx i (goLen xs)).toInt = wrappedInt i.toInt xs.length := toInt_wrapIdx xs i hl
  unfold listInsert
  simp only
  generalize wrapIdx i (goLen xs) = index at hw ⊢
  rw [slt_zero, BitVec.slt_eq_decide, toInt_goLen xs hl, goLen_eq_iff xs index hl, hw]
  cases hs : wrapSpecIns i.toInt xs.length with
  | some k =>
    obtain ⟨hk, hk2⟩ := wrapSpecIns_some hs
    have a : ¬ wrappedInt i.toInt xs.length < 0 := by omega
    have b : ¬ (xs.length : Int) < wrappedInt i.toInt xs.length := by omega
    simp only [a, b, decide_false, Bool.or_false, Bool.false_eq_true, if_false]
    by_cases he : (xs.length : Int) = wrappedInt i.toInt xs.length
    · have : k = xs.length := by omega
      subst this
      simp [he]
    · have hlt : k < xs.length := by omega
      have h0 : 0 ≤ index.toInt := by omega
      have h1 : (index + 1).toInt = index.toInt + 1 := toInt_add_one index (by omega)
      have hn : index.toInt.toNat = k := by omega
      have hn1 : (index + 1).toInt.toNat = k + 1 := by omega
      simp only [he, decide_false, Bool.false_eq_true, if_false]
      rw [goSliceTo_eq xs (index + 1) hl (by omega) (by omega), goSliceFrom_eq xs index hl h0 (by omega)]
      simp only [hn, hn1]
      rw [goSet_eq _ index v h0 (by simp [hn]; omega)]
      simp only [hn]
      rw [set_take_succ xs k hlt]
  | none =>
    simp only
    rcases wrapSpecIns_none hs with h | h
    · simp [h]
    · simp [h]

/-! ## remove -/

theorem listRemove_spec (xs : List MVal) (i : I64) (hl : xs.length < 2 ^ 63) :
    match wrapSpec i.toInt xs.length with
    | Option.some k => listRemove xs i = .ok .null (.list (xs.eraseIdx k))
    | Option.none => listRemove xs i
        = .fatal "IndexOutOfBounds" (oobMsgMember xs.length (wrapIdx i (goLen xs))) := by
  have hw : (wrapIdx i (goLen xs)).toInt = wrappedInt i.toInt xs.length := toInt_wrapIdx xs i hl
  unfold listRemove
  simp only
  generalize wrapIdx i (goLen xs) = index at hw ⊢
  rw [slt_zero, BitVec.slt_eq_decide, toInt_goLen xs hl, hw]
  cases hs : wrapSpec i.toInt xs.length with
  | some k =>
    obtain ⟨hk, hk2⟩ := wrapSpec_some hs
    have a : ¬ wrappedInt i.toInt xs.length < 0 := by omega
    have b : wrappedInt i.toInt xs.length < (xs.length : Int) := by omega
    have h0 : 0 ≤ index.toInt := by omega
    have h1 : (index + 1).toInt = index.toInt + 1 := toInt_add_one index (by omega)
    have hn : index.toInt.toNat = k := by omega
    have hn1 : (index + 1).toInt.toNat = k + 1 := by omega
    simp only [a, b, decide_false, decide_true, Bool.not_true, Bool.or_false, Bool.false_eq_true, if_false]
    rw [goSliceTo_eq xs index hl h0 (by omega), goSliceFrom_eq xs (index + 1) hl (by omega) (by omega)]
    simp only [hn, hn1]
    rw [List.eraseIdx_eq_take_drop_succ]
  | none =>
    simp only
    rcases wrapSpec_none hs with h | h
    · simp [h]
    · have : ¬ wrappedInt i.toInt xs.length < (xs.length : Int) := by omega
      simp [this]

/-! ## pop, pop_front, last -/

theorem goLen_sub_one {α} (xs : List α) (hl : xs.length < 2 ^ 63) (hpos : 0 < xs.length) :
    (goLen xs - 1).toInt = (xs.length : Int) - 1 := by
  rw [toInt_sub_one _ (by rw [toInt_goLen xs hl]; omega), toInt_goLen xs hl]

theorem listPop_spec (xs : List MVal) (hl : xs.length < 2 ^ 63) :
    listPop xs = match xs.getLast? with
      | Option.none => .ok .none (.list xs)
      | Option.some v => .ok (.some v) (.list xs.dropLast) := by
  unfold listPop
  simp only
  rw [goLen_eq_iff xs 0 hl]
  cases xs with
  | nil => simp
  | cons x xs =>
    have hs := goLen_sub_one (x :: xs) hl (by simp)
    have hne : ¬ (((x :: xs).length : Int) = (0 : I64).toInt) := by simp; omega
    simp only [hne, decide_false, Bool.false_eq_true, if_false]
    rw [goIdx_eq _ _ (by rw [hs]; simp), goSliceTo_eq _ _ hl (by rw [hs]; simp) (by rw [hs]; omega), hs]
    have : ((((x :: xs).length : Int) - 1).toNat) = (x :: xs).length - 1 := by omega
    rw [this, List.getLast?_eq_getElem?, List.dropLast_eq_take]
    simp

theorem listLast_spec (xs : List MVal) (hl : xs.length < 2 ^ 63) :
    listLast xs = match xs.getLast? with
      | Option.none => .ok .none (.list xs)
      | Option.some v => .ok (.some v) (.list xs) := by
  unfold listLast
  simp only
  rw [goLen_eq_iff xs 0 hl]
  cases xs with
  | nil => simp
  | cons x xs =>
    have hs := goLen_sub_one (x :: xs) hl (by simp)
    have hne : ¬ (((x :: xs).length : Int) = (0 : I64).toInt) := by simp; omega
    simp only [hne, decide_false, Bool.false_eq_true, if_false]
    rw [goIdx_eq _ _ (by rw [hs]; simp), hs]
    have : ((((x :: xs).length : Int) - 1).toNat) = (x :: xs).length - 1 := by omega
    rw [this, List.getLast?_eq_getElem?]
    simp

theorem listPopFront_spec (xs : List MVal) (hl : xs.length < 2 ^ 63) :
    listPopFront xs = match xs with
      | [] => .ok .none (.list xs)
      | v :: rest => .ok (.some v) (.list rest) := by
  unfold listPopFront
  simp only
  rw [goLen_eq_iff xs 0 hl]
  cases xs with
  | nil => simp
  | cons x xs =>
    have hne : ¬ (((x :: xs).length : Int) = (0 : I64).toInt) := by simp; omega
    have h1 : (1 : I64).toInt = 1 := by decide
    simp only [hne, decide_false, Bool.false_eq_true, if_false]
    rw [goIdx_eq _ _ (by simp), goSliceFrom_eq _ _ hl (by rw [h1]; omega) (by rw [h1]; simp; omega)]
    simp

/-! ## substring, repeat -/

theorem strSubstring_spec (cs : List Char) (u : I64) (hl : cs.length < 2 ^ 63) :
    strSubstring cs u =
      if 0 ≤ u.toInt ∧ u.toInt < cs.length then .ok (.str (cs.take u.toInt.toNat)) (.str cs)
      else .throw "index out of range" := by
  unfold strSubstring
  rw [slt_zero, BitVec.slt_eq_decide, toInt_goLen cs hl]
  by_cases h : 0 ≤ u.toInt ∧ u.toInt < cs.length
  · have a : ¬ u.toInt < 0 := by omega
    simp only [a, h.2, decide_false, decide_true, Bool.not_true, Bool.or_false, Bool.false_eq_true, if_false]
    rw [goSliceTo_eq cs u hl h.1 (by omega)]
    simp [h]
  · rw [if_neg h]
    by_cases a : u.toInt < 0
    · simp [a]
    · have : ¬ u.toInt < cs.length := by omega
      simp [a, this]

theorem strRepeat_spec (cs : List Char) (n : I64) :
    strRepeat cs n =
      if n.toInt < 0 then .throw "negative repeat count"
      else if 0 < byteLen cs ∧ n.toInt > (maxInt : Int) / (byteLen cs : Int) then .throw "repeat output length overflow"
      else .ok (.str (List.replicate n.toNat cs).flatten) (.str cs) := by
  unfold strRepeat
  rw [slt_zero]
  by_cases hneg : n.toInt < 0
  · simp [hneg]
  · simp only [hneg, decide_false, Bool.false_eq_true, if_false]
    by_cases hov : 0 < byteLen cs ∧ n.toInt > (maxInt : Int) / (byteLen cs : Int)
    · simp [hov]
    · rw [if_neg hov]
      have hcond : (decide (byteLen cs > 0) && decide (n.toInt > (maxInt : Int) / (byteLen cs : Int))) = false := by
        simp only [Bool.and_eq_false_iff, decide_eq_false_iff_not]
        by_cases hb : byteLen cs > 0
        · right; intro hc; exact hov ⟨hb, hc⟩
        · left; exact hb
      simp only [hcond, Bool.false_eq_true, if_false]
      have hnn : (n.toNat : Int) = n.toInt := by
        rw [toNat_of_nonneg n (by omega)]; omega
      have hfit : ¬ byteLen cs * n.toNat > maxInt := by
        by_cases hb : byteLen cs > 0
        · have hle : ¬ n.toInt > (maxInt : Int) / (byteLen cs : Int) := fun hc => hov ⟨hb, hc⟩
          have hdiv : ((maxInt / byteLen cs : Nat) : Int) = (maxInt : Int) / (byteLen cs : Int) := by
            simp
          have : n.toNat ≤ maxInt / byteLen cs := by omega
          have := (Nat.le_div_iff_mul_le hb).mp this
          rw [Nat.mul_comm]; omega
        · have : byteLen cs = 0 := by omega
          simp [this]
      unfold goRepeat
      cases cs with
      | nil => simp [hfit]
      | cons c cs => simp [hfit]

end HmsProofs.Lemmas.Members
