import HmsProofs.Lemmas.SimInstr
/-!
# `Comp.relocate` (Go: `relocateLabels`)

* `relocate_eq_mapM` — `relocate` is an instruction-wise `mapM` over the label-free code;
* `relocate_some` — when it succeeds the output is `(stripLabels code).map (resolve …)`;
* `labelIndex?_eq_some_iff` — the index a label resolves to: the number of non-label
  instructions before the *last* definition of the label, i.e. the output index of the first
  real instruction at or after that definition;
* `relocate_spans` — the source map stays aligned;
* `relocate_eq_none_iff` — failure happens exactly for an undefined jump target.
-/
namespace HmsProofs.Sim
open Hms.Core Hms.Core.Comp

abbrev SCode := List (SInstr × Span)

/-- The input without its `label` pseudo-instructions. -/
def stripLabels (code : SCode) : SCode := code.filter fun p => !isLabel p.1

/-- What a label resolves to (`none`: never defined). -/
def labelIndex? (code : SCode) (l : String) : Option Nat :=
  (relocate.labels 0 code).reverse.lookup l

/-- Total version, `0` for undefined labels (irrelevant when `relocate` succeeds). -/
def labelIndex (code : SCode) (l : String) : Nat := (labelIndex? code l).getD 0

/-- `relocate` on one instruction. -/
def relocI (look : String → Option Nat) (i : SInstr) : Option (Instr Nat String) :=
  if isLabel i then none
  else match target? i with
    | none => some (mapLV (fun l => (look l).getD 0) id i)
    | some l => (look l).map fun _ => mapLV (fun l => (look l).getD 0) id i

/-- The total per-instruction function of a successful relocation. -/
def resolve (lab : String → Nat) (p : SInstr × Span) : Instr Nat String × Span :=
  (mapLV lab id p.1, p.2)

/-! ## Generic `mapM` facts for `Option` -/

theorem mapM_option_some {α β : Type} (f : α → Option β) (g : α → β) :
    ∀ (xs : List α) (ys : List β), (∀ x ∈ xs, ∀ y, f x = some y → y = g x) →
      xs.mapM f = some ys → ys = xs.map g := by
  intro xs
  induction xs with
  | nil => intro ys _ h; simp at h; simp [← h]
  | cons x xs ih =>
    intro ys hg h
    rw [List.mapM_cons] at h
    cases hx : f x with
    | none => simp [hx] at h
    | some y =>
      cases hxs : xs.mapM f with
      | none => simp [hx, hxs] at h
      | some ys' =>
        simp [hx, hxs] at h
        have h1 := hg x (by simp) y hx
        have h2 := ih ys' (fun x hx => hg x (by simp [hx])) hxs
        simp [← h, h1, h2]

theorem mapM_option_eq_none {α β : Type} (f : α → Option β) :
    ∀ (xs : List α), xs.mapM f = none ↔ ∃ x ∈ xs, f x = none := by
  intro xs
  induction xs with
  | nil => simp
  | cons x xs ih =>
    rw [List.mapM_cons]
    cases hx : f x with
    | none => simp [hx]
    | some y =>
      cases hxs : xs.mapM f with
      | none =>
        have := ih.mp hxs
        simp [hx, this]
      | some ys =>
        have : ¬ ∃ x ∈ xs, f x = none := fun h => by simp [ih.mpr h] at hxs
        simp only [List.mem_cons, exists_eq_or_imp, hx]
        simp [this]

/-! ## `relocate` as a `mapM` -/

theorem relocate_eq_mapM (code : SCode) :
    relocate code =
      (stripLabels code).mapM fun p => (relocI (labelIndex? code) p.1).map fun j => (j, p.2) := by
  unfold relocate stripLabels
  simp only []
  congr 1
  · funext ⟨i, sp⟩
    cases i <;> simp [relocI, isLabel, target?, mapLV, labelIndex?] <;>
      (cases List.lookup _ (relocate.labels 0 code).reverse <;> rfl)
  · congr 1
    funext ⟨i, sp⟩
    cases i <;> rfl

/-! ## The label table -/

theorem isLabel_iff {L V : Type} (i : Instr L V) : isLabel i = true ↔ ∃ l, i = .label l := by
  cases i <;> simp [isLabel]

theorem labels_cons_label (idx : Nat) (l : String) (sp : Span) (rest : SCode) :
    relocate.labels idx ((.label l, sp) :: rest) = (l, idx) :: relocate.labels idx rest := rfl

theorem labels_cons_other (idx : Nat) (i : SInstr) (sp : Span) (rest : SCode) (h : isLabel i = false) :
    relocate.labels idx ((i, sp) :: rest) = relocate.labels (idx + 1) rest := by
  cases i <;> first | rfl | cases h

theorem stripLabels_cons_label (l : String) (sp : Span) (rest : SCode) :
    stripLabels ((.label l, sp) :: rest) = stripLabels rest := rfl

theorem stripLabels_cons_other (i : SInstr) (sp : Span) (rest : SCode) (h : isLabel i = false) :
    stripLabels ((i, sp) :: rest) = (i, sp) :: stripLabels rest := by
  simp [stripLabels, h]

theorem stripLabels_append (a b : SCode) : stripLabels (a ++ b) = stripLabels a ++ stripLabels b := by
  simp [stripLabels]

theorem labels_append (pre post : SCode) : ∀ idx,
    relocate.labels idx (pre ++ post) =
      relocate.labels idx pre ++ relocate.labels (idx + (stripLabels pre).length) post := by
  induction pre with
  | nil => intro idx; simp [stripLabels, relocate.labels]
  | cons p pre ih =>
    intro idx
    obtain ⟨i, sp⟩ := p
    rw [List.cons_append]
    cases h : isLabel i with
    | true =>
      obtain ⟨l, rfl⟩ := (isLabel_iff i).mp h
      simp [labels_cons_label, stripLabels_cons_label, ih]
    | false =>
      rw [labels_cons_other _ _ _ _ h, labels_cons_other _ _ _ _ h, stripLabels_cons_other _ _ _ h, ih]
      simp only [List.length_cons]
      congr 2; omega

theorem labels_keys (l : String) (code : SCode) : ∀ idx,
    (∀ p ∈ relocate.labels idx code, (l != p.1) = true) ↔ ∀ sp, (Instr.label l, sp) ∉ code := by
  induction code with
  | nil => intro idx; simp [relocate.labels]
  | cons p code ih =>
    intro idx
    obtain ⟨i, sp⟩ := p
    cases h : isLabel i with
    | true =>
      obtain ⟨l', rfl⟩ := (isLabel_iff i).mp h
      simp only [labels_cons_label, List.mem_cons, forall_eq_or_imp, ih, Prod.mk.injEq, not_or]
      simp only [bne_iff_ne, ne_eq, Instr.label.injEq, not_and]
      constructor
      · rintro ⟨h1, h2⟩ sp'
        exact ⟨fun h => absurd h h1, h2 sp'⟩
      · intro h
        refine ⟨fun e => (h sp).1 e rfl, fun sp' => (h sp').2⟩
    | false =>
      rw [labels_cons_other _ _ _ _ h, ih]
      have : ∀ sp', (Instr.label l, sp') ≠ (i, sp) := by
        intro sp' e
        simp only [Prod.mk.injEq] at e
        rw [← e.1] at h
        cases h
      simp [this]

/-- Undefined labels: exactly those without a `label` pseudo-instruction. -/
theorem labelIndex?_eq_none_iff (code : SCode) (l : String) :
    labelIndex? code l = none ↔ ∀ sp, (Instr.label l, sp) ∉ code := by
  unfold labelIndex?
  rw [List.lookup_eq_none_iff, ← labels_keys l code 0]
  simp

theorem labels_split (l : String) (n : Nat) (code : SCode) : ∀ idx a b,
    relocate.labels idx code = a ++ (l, n) :: b →
    ∃ pre sp post, code = pre ++ (Instr.label l, sp) :: post ∧ relocate.labels idx pre = a ∧
      n = idx + (stripLabels pre).length ∧ relocate.labels n post = b := by
  induction code with
  | nil => intro idx a b h; simp [relocate.labels] at h
  | cons p code ih =>
    intro idx a b h
    obtain ⟨i, sp⟩ := p
    cases hl : isLabel i with
    | true =>
      obtain ⟨l', rfl⟩ := (isLabel_iff i).mp hl
      rw [labels_cons_label] at h
      cases a with
      | nil =>
        simp only [List.nil_append, List.cons.injEq, Prod.mk.injEq] at h
        obtain ⟨⟨rfl, rfl⟩, h2⟩ := h
        exact ⟨[], sp, code, rfl, rfl, by simp [stripLabels], h2⟩
      | cons x a =>
        simp only [List.cons_append, List.cons.injEq] at h
        obtain ⟨rfl, h2⟩ := h
        obtain ⟨pre, sp', post, rfl, h3, h4, h5⟩ := ih idx a b h2
        refine ⟨(Instr.label l', sp) :: pre, sp', post, rfl, ?_, ?_, h5⟩
        · rw [labels_cons_label, h3]
        · rw [stripLabels_cons_label]; exact h4
    | false =>
      rw [labels_cons_other _ _ _ _ hl] at h
      obtain ⟨pre, sp', post, rfl, h3, h4, h5⟩ := ih (idx + 1) a b h
      refine ⟨(i, sp) :: pre, sp', post, rfl, ?_, ?_, h5⟩
      · rw [labels_cons_other _ _ _ _ hl, h3]
      · rw [stripLabels_cons_other _ _ _ hl]; simp only [List.length_cons]; omega

/-- **What a label resolves to.** `labelIndex? code l = some n` iff `n` is the number of real
(non-label) instructions before the last `label l` of the input — equivalently, the index in
the output of the first real instruction at or after that `label l` (or the output length
when none follows). -/
theorem labelIndex?_eq_some_iff (code : SCode) (l : String) (n : Nat) :
    labelIndex? code l = some n ↔
      ∃ pre sp post, code = pre ++ (Instr.label l, sp) :: post ∧
        (∀ sp', (Instr.label l, sp') ∉ post) ∧ n = (stripLabels pre).length := by
  unfold labelIndex?
  constructor
  · intro h
    obtain ⟨l₁, l₂, h1, h2⟩ := List.lookup_eq_some_iff.mp h
    have h3 : relocate.labels 0 code = l₂.reverse ++ (l, n) :: l₁.reverse := by
      have := congrArg List.reverse h1
      simpa using this
    obtain ⟨pre, sp, post, rfl, _, h5, h6⟩ := labels_split l n code 0 _ _ h3
    refine ⟨pre, sp, post, rfl, ?_, by omega⟩
    rw [← labels_keys l post n, h6]
    intro p hp
    exact h2 p (by simpa using hp)
  · rintro ⟨pre, sp, post, rfl, h1, rfl⟩
    rw [labels_append, labels_cons_label]
    simp only [List.reverse_append, List.reverse_cons, List.append_assoc, List.lookup_append]
    have : List.lookup l (relocate.labels ((stripLabels pre).length) post).reverse = none := by
      rw [List.lookup_eq_none_iff]
      intro p hp
      exact (labels_keys l post _).mpr h1 p (by simpa using hp)
    simp [this]

theorem labelIndex?_le (code : SCode) (l : String) (n : Nat) (h : labelIndex? code l = some n) :
    n ≤ (stripLabels code).length := by
  obtain ⟨pre, sp, post, rfl, _, rfl⟩ := (labelIndex?_eq_some_iff _ _ _).mp h
  simp [stripLabels_append]

/-- Usable form: a label defined exactly once in front of `post`. -/
theorem labelIndex_of_last (pre post : SCode) (l : String) (sp : Span)
    (h : ∀ sp', (Instr.label l, sp') ∉ post) :
    labelIndex (pre ++ (Instr.label l, sp) :: post) l = (stripLabels pre).length := by
  unfold labelIndex
  rw [(labelIndex?_eq_some_iff _ _ _).mpr ⟨pre, sp, post, rfl, h, rfl⟩]
  rfl

/-! ## The main characterisation -/

theorem relocI_some (look : String → Option Nat) (i : SInstr) (j : Instr Nat String)
    (h : relocI look i = some j) : j = mapLV (fun l => (look l).getD 0) id i := by
  unfold relocI at h
  split at h
  · cases h
  · split at h
    · simpa using h.symm
    · simp only [Option.map_eq_some_iff] at h
      obtain ⟨_, _, h⟩ := h
      exact h.symm

theorem relocI_eq_none_iff (look : String → Option Nat) (i : SInstr) :
    relocI look i = none ↔ isLabel i = true ∨ ∃ l, target? i = some l ∧ look l = none := by
  unfold relocI
  cases hl : isLabel i with
  | true => simp
  | false =>
    cases ht : target? i with
    | none => simp
    | some l => simp

/-- **(a)** When relocation succeeds, the output is the input without its `label`s, every
instruction unchanged except that label operands are replaced by `labelIndex code`. -/
theorem relocate_some (code : SCode) (out : List (Instr Nat String × Span)) (h : relocate code = some out) :
    out = (stripLabels code).map (resolve (labelIndex code)) := by
  rw [relocate_eq_mapM] at h
  refine mapM_option_some _ _ _ _ ?_ h
  intro p _ y hy
  cases hr : relocI (labelIndex? code) p.1 with
  | none => simp [hr] at hy
  | some j =>
    simp [hr] at hy
    rw [← hy, relocI_some _ _ _ hr]
    rfl

theorem relocate_length (code : SCode) (out) (h : relocate code = some out) :
    out.length = (stripLabels code).length := by
  rw [relocate_some code out h]; simp

/-- **(b)** `sourcemap_aligned`: the spans of the output are the spans of the real instructions
of the input, in order. -/
theorem relocate_spans (code : SCode) (out) (h : relocate code = some out) :
    out.map (·.2) = (stripLabels code).map (·.2) := by
  rw [relocate_some code out h]; simp [resolve, Function.comp_def]

/-- Every resolved label operand of a successful relocation is a valid index (or the length). -/
theorem relocate_target_le (code : SCode) (out) (h : relocate code = some out) (l : String)
    (hl : ∃ sp, (Instr.label l, sp) ∈ code) : labelIndex code l ≤ out.length := by
  rw [relocate_length code out h]
  cases hi : labelIndex? code l with
  | none =>
    obtain ⟨sp, hsp⟩ := hl
    exact absurd hsp ((labelIndex?_eq_none_iff _ _).mp hi sp)
  | some n =>
    have := labelIndex?_le code l n hi
    simpa [labelIndex, hi] using this

/-- **(c)** Relocation fails exactly when some `jump`/`jumpIfFalse`/`setTry` refers to a label
that is never defined. -/
theorem relocate_eq_none_iff (code : SCode) :
    relocate code = none ↔
      ∃ p ∈ code, ∃ l, target? p.1 = some l ∧ ∀ sp, (Instr.label l, sp) ∉ code := by
  rw [relocate_eq_mapM, mapM_option_eq_none]
  constructor
  · rintro ⟨p, hp, h⟩
    have hp' : p ∈ code ∧ isLabel p.1 = false := by simpa [stripLabels] using hp
    simp only [Option.map_eq_none_iff] at h
    rcases (relocI_eq_none_iff _ _).mp h with h | ⟨l, h1, h2⟩
    · simp [hp'.2] at h
    · exact ⟨p, hp'.1, l, h1, (labelIndex?_eq_none_iff _ _).mp h2⟩
  · rintro ⟨p, hp, l, h1, h2⟩
    have hnl : isLabel p.1 = false := by
      cases hi : isLabel p.1 with
      | false => rfl
      | true =>
        obtain ⟨l', hl'⟩ := (isLabel_iff _).mp hi
        simp [hl', target?] at h1
    refine ⟨p, by simp [stripLabels, hp, hnl], ?_⟩
    simp only [Option.map_eq_none_iff]
    exact (relocI_eq_none_iff _ _).mpr (Or.inr ⟨l, h1, (labelIndex?_eq_none_iff _ _).mpr h2⟩)

end HmsProofs.Sim
