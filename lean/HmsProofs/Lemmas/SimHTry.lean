import HmsProofs.Lemmas.SimHStmt
/-!
# `try` / `catch` on the VM: installing the handler, the normal exit, the dispatch
-/
namespace HmsProofs.Sim
open Hms.Core Hms.Core.Comp Hms.Core.VM

theorem withH_self (s : VMState) : withH s s.handlers = s := rfl

/-- The handler a `try` in activation `A` installs. -/
def tryHandler (G : GCtx) (A : Act) (l : Nat) (stk : List SVal) : Handler :=
  ⟨⟨A.fn, l⟩, A.rest.length + 1, stk.length, A.mp⟩

/-- The context inside the `try` body. -/
def GCtx.inTry (G : GCtx) (A : Act) (l : Nat) (stk : List SVal) : GCtx :=
  G.withH (tryHandler G A l stk :: G.s.handlers)

/-- **The `try` body completes**: `Set_Try`, the body (under the handler), `Pop_Try`, `Jump`. -/
theorem Runs.tryOk {G : GCtx} {A : Act} (hA : A.OK G) {ip nB ipAfter l : Nat} {stk : List SVal}
    {mem mem1 : Mem} {w w1 : World} {sp1 sp2 sp3 : Span}
    (i0 : A.c[ip]? = some (.setTry A.fn l, sp1))
    (hbody : Runs G.fr G.code G.lim (G.inTry A l stk).s A.fn A.rest A.mp (ip + 1) stk mem w (ip + 1 + nB) stk mem1 w1)
    (i1 : A.c[ip + 1 + nB]? = some (.popTry, sp2)) (i2 : A.c[ip + 1 + nB + 1]? = some (.jump ipAfter, sp3)) :
    Runs G.fr G.code G.lim G.s A.fn A.rest A.mp ip stk mem w ipAfter stk mem1 w1 := by
  refine ⟨fun k => ?_, hbody.inv⟩
  obtain ⟨k1, e1⟩ := hbody (k + 1)
  refine ⟨1 + (k1 + (1 + 1)), ?_⟩
  rw [execHN_add, execHN_one, exec1H_of_next (mkSI_setTry G.code G.lim G.s A.fn ip A.rest A.mp k stk mem w A.c hA.code
    A.fn l sp1 i0)]
  simp only []
  rw [execHN_add]
  have e1' : execHN G.code G.lim k1 (mkSI (withH G.s (⟨⟨A.fn, l⟩, A.rest.length + 1, stk.length, A.mp⟩ :: G.s.handlers))
      (⟨A.fn, ip + 1⟩ :: A.rest) A.mp (k + 1) stk mem w) =
      .next (mkSI (withH G.s (⟨⟨A.fn, l⟩, A.rest.length + 1, stk.length, A.mp⟩ :: G.s.handlers))
        (⟨A.fn, ip + 1 + nB⟩ :: A.rest) A.mp (k + 1 + k1) stk mem1 w1) := e1
  rw [e1']
  simp only []
  rw [execHN_add, execHN_one, exec1H_of_next (mkSI_popTry G.code G.lim G.s A.fn (ip + 1 + nB) A.rest A.mp (k + 1 + k1) stk mem1
    w1 A.c hA.code sp2 _ G.s.handlers i1)]
  simp only []
  rw [withH_self, execHN_one]
  have hj := reach_jump G.code G.lim (baseOf (withIt G.s mem1.it) A.fn A.rest A.mp w1) (ip + 1 + nB + 1) (k + 1 + k1 + 1) stk
    mem1.cells ⟨A.fn, 0⟩ A.rest A.c rfl hA.code ipAfter sp3 i2
  have hj' : exec1 G.code G.lim (mkSI G.s (⟨A.fn, ip + 1 + nB + 1⟩ :: A.rest) A.mp (k + 1 + k1 + 1) stk mem1 w1) =
      .next (mkSI G.s (⟨A.fn, ipAfter⟩ :: A.rest) A.mp (k + 1 + k1 + 1 + 1) stk mem1 w1) := hj
  rw [exec1H_of_next hj']
  simp only [Nat.add_assoc]

/-- A fatal error inside the `try` body. -/
theorem RunsF.tryBody {G : GCtx} {A : Act} (hA : A.OK G) {ip l : Nat} {stk : List SVal}
    {mem : Mem} {w w1 : World} {sp1 : Span} {kd msg : String} {fsp : Span}
    (i0 : A.c[ip]? = some (.setTry A.fn l, sp1))
    (hbody : RunsF G.code G.lim (G.inTry A l stk).s A.fn A.rest A.mp (ip + 1) stk mem w kd msg fsp w1) :
    RunsF G.code G.lim G.s A.fn A.rest A.mp ip stk mem w kd msg fsp w1 := by
  intro k
  obtain ⟨k1, s', e1, h1, h2⟩ := hbody (k + 1)
  refine ⟨1 + k1, s', ?_, h1, h2⟩
  rw [execHN_add, execHN_one, exec1H_of_next (mkSI_setTry G.code G.lim G.s A.fn ip A.rest A.mp k stk mem w A.c hA.code
    A.fn l sp1 i0)]
  exact e1

/-- **The `try` body throws**: the dispatch brings the VM to the handler's label with the error
object pushed; `Set_Var` binds it, `Pop_Try` removes the handler. -/
theorem Runs.tryCatch {G : GCtx} {A : Act} (hA : A.OK G) {ip l slot : Nat} {stk : List SVal}
    {mem mem1 : Mem} {w w1 : World} {sp1 sp2 sp3 : Span} {msg : String} {tsp : Span}
    (i0 : A.c[ip]? = some (.setTry A.fn l, sp1))
    (hbody : RunsT (G.inTry A l stk) A.fn A.rest A.mp (ip + 1) stk mem w msg tsp mem1 w1)
    (i1 : A.c[l]? = some (.setVar slot, sp2)) (i2 : A.c[l + 1]? = some (.popTry, sp3))
    (h0 : 0 ≤ A.mp - (slot : Int)) (h1 : A.mp - (slot : Int) < (G.lim.memory : Int)) :
    Runs G.fr G.code G.lim G.s A.fn A.rest A.mp ip stk mem w (l + 2) stk
      (mem1.set (A.mp - (slot : Int)) (.ref w1.heap.size)) ⟨w1.heap.push (errCell msg tsp), w1.out⟩ := by
  refine ⟨fun k => ?_, fun hi => (hbody.inv hi).push _ (fun fs h => by
    cases h
    intro k hk
    simp only [methNames, List.mem_cons, List.mem_nil_iff, or_false] at hk
    rcases hk with rfl | rfl | rfl | rfl | rfl | rfl <;> rfl)⟩
  obtain ⟨k1, s1, frames', ip', mp', xs, e1, e2⟩ := hbody (k + 1)
  refine ⟨1 + (k1 + (1 + (1 + 1))), ?_⟩
  rw [execHN_add, execHN_one, exec1H_of_next (mkSI_setTry G.code G.lim G.s A.fn ip A.rest A.mp k stk mem w A.c hA.code
    A.fn l sp1 i0)]
  simp only []
  rw [execHN_add]
  have e1' : execHN G.code G.lim k1 (mkSI (withH G.s (⟨⟨A.fn, l⟩, A.rest.length + 1, stk.length, A.mp⟩ :: G.s.handlers))
      (⟨A.fn, ip + 1⟩ :: A.rest) A.mp (k + 1) stk mem w) = .next s1 := e1
  rw [e1']
  simp only []
  have e2' : exec1 G.code G.lim s1 = .intr (.throw msg tsp)
      (mkSI (G.inTry A l stk).s (frames' ++ ⟨A.fn, ip'⟩ :: A.rest) mp' (k + 1 + k1 + 1) (xs ++ stk) mem1 w1) := e2
  rw [execHN_add, execHN_one, exec1H_of_throw e2']
  have hd := dispatch_mkSI G.s A.fn l A.mp G.s.handlers frames' ⟨A.fn, ip'⟩ A.rest mp' (k + 1 + k1 + 1) xs stk mem1 w1 msg tsp
  have hd' : dispatch msg tsp (mkSI (G.inTry A l stk).s (frames' ++ ⟨A.fn, ip'⟩ :: A.rest) mp' (k + 1 + k1 + 1)
      (xs ++ stk) mem1 w1) = _ := hd
  rw [hd']
  simp only []
  rw [execHN_add, execHN_one]
  have hs := reach_setVar G.code G.lim
    (baseOf (withIt (withH G.s (⟨⟨A.fn, l⟩, A.rest.length + 1, stk.length, A.mp⟩ :: G.s.handlers)) mem1.it)
    A.fn A.rest A.mp ⟨w1.heap.push (errCell msg tsp), w1.out⟩) l (k + 1 + k1 + 1) stk mem1.cells ⟨A.fn, 0⟩ A.rest A.c rfl
    hA.code slot sp2 (.ref w1.heap.size) none i1 h0 h1
  have hs' : exec1 G.code G.lim (mkSI (withH G.s (⟨⟨A.fn, l⟩, A.rest.length + 1, stk.length, A.mp⟩ :: G.s.handlers))
      (⟨A.fn, l⟩ :: A.rest) A.mp (k + 1 + k1 + 1) (⟨.ref w1.heap.size, none⟩ :: stk) mem1
      ⟨w1.heap.push (errCell msg tsp), w1.out⟩) =
      .next (mkSI (withH G.s (⟨⟨A.fn, l⟩, A.rest.length + 1, stk.length, A.mp⟩ :: G.s.handlers))
        (⟨A.fn, l + 1⟩ :: A.rest) A.mp (k + 1 + k1 + 1 + 1) stk (mem1.set (A.mp - (slot : Int)) (.ref w1.heap.size))
        ⟨w1.heap.push (errCell msg tsp), w1.out⟩) := hs
  rw [exec1H_of_next hs']
  simp only []
  rw [execHN_one, exec1H_of_next (mkSI_popTry G.code G.lim G.s A.fn (l + 1) A.rest A.mp (k + 1 + k1 + 1 + 1) stk _
    ⟨w1.heap.push (errCell msg tsp), w1.out⟩ A.c hA.code sp3 _ G.s.handlers i2)]
  rw [withH_self]
  simp only [Nat.add_assoc]

end HmsProofs.Sim
