import HmsProofs.Lemmas.SimReach
import HmsProofs.Lemmas.SimPure
import HmsProofs.Lemmas.SimBenign
/-!
# Semantic correctness of pure expressions with control flow (`exec_pure`)

`&&`, `||` and `if`/`else` are compiled to jumps; given that the labels of the fragment resolve
to their positions (`Placed`), the VM follows the branch the specification takes.
-/
namespace HmsProofs.Sim
open Hms.Core Hms.Core.Comp Hms.Core.VM

/-! ## Specification-side equations -/

theorem inScope_run {α} (m : M α) (st : St) :
    inScope m st = ((m { st with scopes := [] :: st.scopes }).1,
      { (m { st with scopes := [] :: st.scopes }).2 with
        scopes := (m { st with scopes := [] :: st.scopes }).2.scopes.tail }) := rfl

theorem evalBlock_pure (cfg fuel sp ty e st) :
    evalBlock cfg (fuel + 2) (.mk sp ty [] (some e)) st = evalExpr cfg (fuel + 1) e st := by
  rw [evalBlock, M_bind, evalStmts]
  rfl

theorem evalBlock_one (cfg sp ty e st) :
    evalBlock cfg 1 (.mk sp ty [] (some e)) st = (.error .timeout, st) := by
  rw [evalBlock, M_bind, evalStmts]
  rfl

theorem evalExpr_or (cfg fuel sp ty l r st) :
    evalExpr cfg (fuel + 1) (.infix sp ty .or l r) st =
      match evalExpr cfg fuel l st with
      | (.ok (.bool true), st1) => (.ok (.bool true), st1)
      | (.ok (.bool false), st1) => evalExpr cfg fuel r st1
      | (.ok _, st1) => (.error (.unsupported "|| operand"), st1)
      | (.error c, st1) => (.error c, st1) := by
  rw [evalExpr, M_bind]
  rcases evalExpr cfg fuel l st with ⟨r1, st1⟩
  cases r1 with
  | error c => rfl
  | ok v =>
    cases v <;> try rfl
    rename_i b; cases b <;> rfl

theorem evalExpr_and (cfg fuel sp ty l r st) :
    evalExpr cfg (fuel + 1) (.infix sp ty .and l r) st =
      match evalExpr cfg fuel l st with
      | (.ok (.bool false), st1) => (.ok (.bool false), st1)
      | (.ok (.bool true), st1) => evalExpr cfg fuel r st1
      | (.ok _, st1) => (.error (.unsupported "&& operand"), st1)
      | (.error c, st1) => (.error c, st1) := by
  rw [evalExpr, M_bind]
  rcases evalExpr cfg fuel l st with ⟨r1, st1⟩
  cases r1 with
  | error c => rfl
  | ok v =>
    cases v <;> try rfl
    rename_i b; cases b <;> rfl

theorem evalExpr_ifE (cfg fuel sp ty c t eb st) :
    evalExpr cfg (fuel + 1) (.ifE sp ty c t (some eb)) st =
      match evalExpr cfg fuel c st with
      | (.ok (.bool true), st1) => inScope (evalBlock cfg fuel t) st1
      | (.ok (.bool false), st1) => inScope (evalBlock cfg fuel eb) st1
      | (.ok _, st1) => (.error (.unsupported "if condition"), st1)
      | (.error c, st1) => (.error c, st1) := by
  rw [evalExpr, M_bind]
  rcases evalExpr cfg fuel c st with ⟨r1, st1⟩
  cases r1 with
  | error c => rfl
  | ok v =>
    cases v <;> try rfl
    rename_i b; cases b <;> rfl

/-! ## The simulation statement -/

/-- For one evaluation result `r` of the specification started in `st`: a value ↦ the VM runs
from `ip` to `ip + n` with the value pushed, memory unchanged, and the specification state is
unchanged; a fatal error ↦ the VM runs into the same fatal interrupt; `unsupported` / `timeout`
(outside the model) ↦ no claim; a pure expression never ends in `break`/`continue`/`return`/`throw`. -/
def SimP (code : Code) (lim : Limits) (s : VMState) (ip n : Nat) (stk : List SVal) (mem : List (Int × Val))
    (st : St) (r : Except Ctl Val × St) : Prop :=
  match r with
  | (.ok v, st') => st' = st ∧ RunsTo code lim s ip stk mem (ip + n) (⟨v, none⟩ :: stk) mem
  | (.error (.fatal kd m sp), st') => st' = st ∧ RunsFatal code lim s ip stk mem kd m sp
  | (.error (.unsupported _), _) => True
  | (.error .timeout, _) => True
  | _ => False

theorem SimP.error_n {code lim s ip n stk mem st c st1} (n' : Nat)
    (h : SimP code lim s ip n stk mem st (.error c, st1)) : SimP code lim s ip n' stk mem st (.error c, st1) := by
  cases c <;> first | trivial | exact h

theorem SimP.error_after {code lim s ip n stk mem st c st1 ip1 stk1} (n' : Nat)
    (h0 : RunsTo code lim s ip stk mem ip1 stk1 mem)
    (h : SimP code lim s ip1 n stk1 mem st (.error c, st1)) : SimP code lim s ip n' stk mem st (.error c, st1) := by
  cases c <;> first | trivial | exact h.elim | exact ⟨h.1, h0.fatal h.2⟩

theorem EnvRel.pushed {ρ σ lim xs scopes mp mem} (h : EnvRel ρ σ lim xs scopes mp mem) :
    EnvRel ρ σ lim xs ([] :: scopes) mp mem := by
  intro x hx
  obtain ⟨m, v, h1, h2, h3⟩ := h x hx
  exact ⟨m, v, h1, by simpa [lookupScopes] using h2, h3⟩

theorem cpE_infix (mod : String) (ρ : String → Option String) (sp ty op l r) (lm : LM)
    (h : Frag.isLogical op = false) :
    cpE mod ρ (.infix sp ty op l r) lm =
      ((cpE mod ρ l lm).1 ++ (cpE mod ρ r (cpE mod ρ l lm).2).1 ++ (arithI op).map (·, sp),
       (cpE mod ρ r (cpE mod ρ l lm).2).2) := by
  cases op <;> first | rfl | cases h

theorem preI_notLabel (op : PrefixOp) : isLabel (preI op) = false := by cases op <;> rfl

theorem RunsTo.cast {code lim s ip stk mem ip' stk' mem' ip''} (h : RunsTo code lim s ip stk mem ip' stk' mem')
    (e : ip' = ip'') : RunsTo code lim s ip stk mem ip'' stk' mem' := e ▸ h

section Main
variable (cfg : Cfg) (code : Code) (lim : Limits) (mod : String) (ρ : String → Option String)
variable (σ lab : String → Nat) (s : VMState) (f : Frame) (rest : List Frame) (c : List (RInstr × Span))

/-- **Semantic correctness of pure expressions.** -/
theorem exec_pure (hc : s.calls = f :: rest) (hf : findCode code f.fn = some c) :
    ∀ (fuel : Nat) (e : Expr) (st : St) (ip : Nat) (stk : List SVal) (mem : List (Int × Val)) (lm : LM),
      Frag.pureE e = true →
      Placed lab σ c ip (cpE mod ρ e lm).1 →
      EnvRel ρ σ lim (Frag.varsE e) st.scopes s.mp mem →
      s.st.heap = st.heap →
      SimP code lim s ip (nI (cpE mod ρ e lm).1) stk mem st (evalExpr cfg fuel e st) := by
  intro fuel
  induction fuel using Nat.strongRecOn with
  | _ fuel ih =>
  cases fuel with
  | zero =>
    intro e st ip stk mem lm _ _ _ _
    rw [evalExpr]; trivial
  | succ n =>
    intro e st ip stk mem lm hs hpl henv hheap
    have ihn := ih n (Nat.lt_succ_self n)
    -- one-instruction literals
    have lit : ∀ (pv : PVal) (sp : Span) (v : Val), (∀ st, pvalToVal st pv = (v, st)) →
        Placed lab σ c ip [((Instr.copyPush pv : SInstr), sp)] →
        SimP code lim s ip (nI [((Instr.copyPush pv : SInstr), sp)]) stk mem st (.ok v, st) := by
      intro pv sp v hp hpl
      exact ⟨rfl, RunsTo.of_exec1 (fun k =>
        reach_push code lim s ip k stk mem f rest c hc hf pv sp v (hpl.instr rfl).1 hp)⟩
    -- blocks `{ e }`
    have blockCase : ∀ (b : Block) (ip0 : Nat) (stk0 : List SVal) (lm0 : LM),
        Frag.pureB b = true → Placed lab σ c ip0 (cpB mod ρ b lm0).1 →
        EnvRel ρ σ lim (Frag.varsB b) st.scopes s.mp mem →
        SimP code lim s ip0 (nI (cpB mod ρ b lm0).1) stk0 mem st (inScope (evalBlock cfg n b) st) := by
      intro b ip0 stk0 lm0 hb hplb henvb
      obtain ⟨bsp, bty, stmts, oe⟩ := b
      cases stmts with
      | cons _ _ => simp [Frag.pureB] at hb
      | nil =>
        cases oe with
        | none => simp [Frag.pureB] at hb
        | some te =>
          simp only [Frag.pureB] at hb
          simp only [Frag.varsB] at henvb
          rw [cpB] at hplb ⊢
          rw [inScope_run]
          match n, ih with
          | 0, _ => rw [evalBlock]; trivial
          | 1, _ => rw [evalBlock_one]; trivial
          | n' + 2, ih =>
            rw [evalBlock_pure]
            have h1 := ih (n' + 1) (by omega) te { st with scopes := [] :: st.scopes } ip0 stk0 mem lm0 hb hplb
              henvb.pushed hheap
            rcases hte : evalExpr cfg (n' + 1) te { st with scopes := [] :: st.scopes } with ⟨r1, st1⟩
            rw [hte] at h1
            cases r1 with
            | ok v =>
              obtain ⟨rfl, hrun⟩ := h1
              exact ⟨rfl, hrun⟩
            | error cerr =>
              cases cerr <;> first | trivial | exact h1.elim | exact ⟨h1.1 ▸ rfl, h1.2⟩
    cases e <;> try (simp only [Frag.pureE, Bool.false_eq_true] at hs)
    case int sp v => rw [evalExpr]; exact lit (.int v) sp _ (fun _ => rfl) hpl
    case bool sp b => rw [evalExpr]; exact lit (.bool b) sp _ (fun _ => rfl) hpl
    case str sp b => rw [evalExpr]; exact lit (.str b) sp _ (fun _ => rfl) hpl
    case null sp => rw [evalExpr]; exact lit .null sp _ (fun _ => rfl) hpl
    case none sp => rw [evalExpr]; exact lit .noneOpt sp _ (fun _ => rfl) hpl
    case grouped sp e =>
      rw [evalExpr]
      exact ihn e st ip stk mem lm hs hpl henv hheap
    case ident sp ty name isGlobal isFn isSingleton =>
      obtain ⟨m, v, hρ, hl, h0, h1, hm⟩ := henv name (by simp [Frag.varsE])
      rw [evalExpr_ident _ _ _ _ _ _ _ _ _ v hl]
      simp only [cpE, hρ] at hpl ⊢
      exact ⟨rfl, RunsTo.of_exec1 (fun k =>
        reach_getVar code lim s ip k stk mem f rest c hc hf (σ m) sp v (hpl.instr rfl).1 h0 h1 hm)⟩
    case pre sp ty op e =>
      simp only [cpE] at hpl ⊢
      obtain ⟨hA, hB⟩ := hpl.append
      have hi := (hB.instr (preI_notLabel op)).1
      have h1 := ihn e st ip stk mem lm hs hA henv hheap
      have hn : nI ((cpE mod ρ e lm).1 ++ [(preI op, sp)]) = nI (cpE mod ρ e lm).1 + 1 := by
        rw [nI_append, nI_instr _ _ _ (preI_notLabel op)]; rfl
      rw [evalExpr_pre, hn]
      rcases he : evalExpr cfg n e st with ⟨r1, st1⟩
      rw [he] at h1
      cases r1 with
      | error c1 => exact h1.error_n _
      | ok a =>
        obtain ⟨rfl, hrun⟩ := h1
        simp only []
        cases hp : preOp op a with
        | error c' =>
          obtain ⟨w, rfl⟩ := preOp_error hp
          trivial
        | ok v =>
          refine ⟨rfl, (hrun.trans (RunsTo.of_exec1 (fun k =>
            reach_pre code lim s _ k stk mem f rest c hc hf op sp lab σ a v none hi hp))).cast ?_⟩
          omega
    case «infix» sp ty op l r =>
      simp only [Bool.and_eq_true] at hs
      obtain ⟨hl, hr⟩ := hs
      have henvl : EnvRel ρ σ lim (Frag.varsE l) st.scopes s.mp mem :=
        henv.mono (by intro x hx; simp [Frag.varsE, hx])
      have henvr : EnvRel ρ σ lim (Frag.varsE r) st.scopes s.mp mem :=
        henv.mono (by intro x hx; simp [Frag.varsE, hx])
      by_cases hor : op = .or
      · -- `l || r`
        subst hor
        simp only [cpE] at hpl ⊢
        generalize hA : (cpE mod ρ l (freshLabel mod (freshLabel mod lm "return_true").2 "after_infix").2) = A at hpl ⊢
        generalize hB : (cpE mod ρ r A.2) = B at hpl ⊢
        generalize (freshLabel mod lm "return_true").1 = rt at hpl ⊢
        generalize (freshLabel mod (freshLabel mod lm "return_true").2 "after_infix").1 = af at hpl ⊢
        obtain ⟨h123, hY⟩ := hpl.append
        obtain ⟨h12, hpB⟩ := h123.append
        obtain ⟨hpA, hX⟩ := h12.append
        obtain ⟨inot, hX⟩ := hX.instr (i := .not) rfl
        obtain ⟨ijif, _⟩ := hX.instr (i := .jumpIfFalse rt) rfl
        obtain ⟨ijmp, hY⟩ := hY.instr (i := .jump af) rfl
        obtain ⟨ert, hY⟩ := hY.label
        obtain ⟨ipush, hY⟩ := hY.instr (i := .copyPush (.bool true)) rfl
        obtain ⟨eaf, _⟩ := hY.label
        have hnAX : nI (A.1 ++ [((Instr.not : SInstr), sp), (.jumpIfFalse rt, sp)]) = nI A.1 + 2 := by
          rw [nI_append, nI_instr _ _ _ rfl, nI_instr _ _ _ rfl]; rfl
        have hn : nI (A.1 ++ [((Instr.not : SInstr), sp), (.jumpIfFalse rt, sp)] ++ B.1 ++
            [(.jump af, sp), (.label rt, sp), (.copyPush (.bool true), sp), (.label af, sp)]) =
            nI A.1 + 2 + nI B.1 + 2 := by
          rw [nI_append, nI_append, hnAX, nI_instr _ _ _ rfl, nI_label, nI_instr _ _ _ rfl, nI_label]; rfl
        simp only [nI_append, hnAX] at hpB ijmp ert ipush eaf
        change Placed lab σ c (ip + (nI A.1 + 2)) B.1 at hpB
        rw [hn, evalExpr_or]
        have h1 := ihn l st ip stk mem _ hl (hA ▸ hpA) henvl hheap
        rw [hA] at h1
        rcases hel : evalExpr cfg n l st with ⟨r1, st1⟩
        rw [hel] at h1
        cases r1 with
        | error c1 => exact h1.error_n _
        | ok a =>
          obtain ⟨rfl, hrun⟩ := h1
          cases a <;> try trivial
          rename_i b
          have hnot := RunsTo.of_exec1 (fun k =>
            reach_pre code lim s _ k stk mem f rest c hc hf .not sp lab σ (.bool b) (.bool (!b)) none inot rfl)
          have hjif := RunsTo.of_exec1 (fun k =>
            reach_jumpIfFalse code lim s _ k stk mem f rest c hc hf (lab rt) sp (!b) none ijif)
          cases b with
          | true =>
            refine ⟨rfl, ((hrun.trans hnot).trans (hjif.trans (RunsTo.of_exec1 (fun k =>
              reach_push code lim s _ k stk mem f rest c hc hf (.bool true) sp _ (by
                simp only [Bool.not_true, Bool.false_eq_true, if_false]; rw [ert]; exact ipush) (fun _ => rfl))))).cast ?_⟩
            simp only [Bool.not_true, Bool.false_eq_true, if_false]
            omega
          | false =>
            simp only []
            have h2 := ihn r st1 (ip + (nI A.1 + 2)) stk mem _ hr (hB ▸ hpB) henvr hheap
            rw [hB] at h2
            have hpre : RunsTo code lim s ip stk mem (ip + (nI A.1 + 2)) stk mem :=
              ((hrun.trans hnot).trans hjif).cast (by simp only [Bool.not_false, if_true]; omega)
            rcases her : evalExpr cfg n r st1 with ⟨r2, st2⟩
            rw [her] at h2
            cases r2 with
            | error c2 => exact SimP.error_after _ hpre h2
            | ok v =>
              obtain ⟨rfl, hrun2⟩ := h2
              refine ⟨rfl, ((hpre.trans hrun2).trans (RunsTo.of_exec1 (fun k =>
                reach_jump code lim s _ k _ mem f rest c hc hf (lab af) sp (by
                  rw [← Nat.add_assoc] at ijmp ⊢; exact ijmp)))).cast ?_⟩
              omega
      · by_cases hand : op = .and
        · -- `l && r`
          subst hand
          simp only [cpE] at hpl ⊢
          generalize hA : (cpE mod ρ l (freshLabel mod (freshLabel mod lm "return_false").2 "after_infix").2) = A at hpl ⊢
          generalize hB : (cpE mod ρ r A.2) = B at hpl ⊢
          generalize (freshLabel mod lm "return_false").1 = rf at hpl ⊢
          generalize (freshLabel mod (freshLabel mod lm "return_false").2 "after_infix").1 = af at hpl ⊢
          obtain ⟨h123, hY⟩ := hpl.append
          obtain ⟨h12, hpB⟩ := h123.append
          obtain ⟨hpA, hX⟩ := h12.append
          obtain ⟨ijif, _⟩ := hX.instr (i := .jumpIfFalse rf) rfl
          obtain ⟨ijmp, hY⟩ := hY.instr (i := .jump af) rfl
          obtain ⟨erf, hY⟩ := hY.label
          obtain ⟨ipush, hY⟩ := hY.instr (i := .copyPush (.bool false)) rfl
          obtain ⟨eaf, _⟩ := hY.label
          have hnAX : nI (A.1 ++ [((Instr.jumpIfFalse rf : SInstr), sp)]) = nI A.1 + 1 := by
            rw [nI_append, nI_instr _ _ _ rfl]; rfl
          have hn : nI (A.1 ++ [((Instr.jumpIfFalse rf : SInstr), sp)] ++ B.1 ++
              [(.jump af, sp), (.label rf, sp), (.copyPush (.bool false), sp), (.label af, sp)]) =
              nI A.1 + 1 + nI B.1 + 2 := by
            rw [nI_append, nI_append, hnAX, nI_instr _ _ _ rfl, nI_label, nI_instr _ _ _ rfl, nI_label]; rfl
          simp only [nI_append, hnAX] at hpB ijmp erf ipush eaf
          rw [hn, evalExpr_and]
          have h1 := ihn l st ip stk mem _ hl (hA ▸ hpA) henvl hheap
          rw [hA] at h1
          rcases hel : evalExpr cfg n l st with ⟨r1, st1⟩
          rw [hel] at h1
          cases r1 with
          | error c1 => exact h1.error_n _
          | ok a =>
            obtain ⟨rfl, hrun⟩ := h1
            cases a <;> try trivial
            rename_i b
            have hjif := RunsTo.of_exec1 (fun k =>
              reach_jumpIfFalse code lim s _ k stk mem f rest c hc hf (lab rf) sp b none ijif)
            cases b with
            | false =>
              refine ⟨rfl, ((hrun.trans hjif).trans (RunsTo.of_exec1 (fun k =>
                reach_push code lim s _ k stk mem f rest c hc hf (.bool false) sp _ (by
                  simp only [Bool.false_eq_true, if_false]; rw [erf]; exact ipush) (fun _ => rfl)))).cast ?_⟩
              simp only [Bool.false_eq_true, if_false]
              omega
            | true =>
              simp only []
              have h2 := ihn r st1 (ip + (nI A.1 + 1)) stk mem _ hr (hB ▸ hpB) henvr hheap
              rw [hB] at h2
              have hpre : RunsTo code lim s ip stk mem (ip + (nI A.1 + 1)) stk mem :=
                (hrun.trans hjif).cast (by simp only [if_true]; omega)
              rcases her : evalExpr cfg n r st1 with ⟨r2, st2⟩
              rw [her] at h2
              cases r2 with
              | error c2 => exact SimP.error_after _ hpre h2
              | ok v =>
                obtain ⟨rfl, hrun2⟩ := h2
                refine ⟨rfl, ((hpre.trans hrun2).trans (RunsTo.of_exec1 (fun k =>
                  reach_jump code lim s _ k _ mem f rest c hc hf (lab af) sp (by
                    rw [← Nat.add_assoc] at ijmp ⊢; exact ijmp)))).cast ?_⟩
                omega
        · -- the other infix operators
          have hlog : Frag.isLogical op = false := by
            cases op <;> first | rfl | exact absurd rfl hor | exact absurd rfl hand
          rw [cpE_infix _ _ _ _ _ _ _ _ hlog] at hpl ⊢
          simp only [] at hpl ⊢
          generalize hA : cpE mod ρ l lm = A at hpl ⊢
          generalize hB : cpE mod ρ r A.2 = B at hpl ⊢
          obtain ⟨h12, hY⟩ := hpl.append
          obtain ⟨hpA, hpB⟩ := h12.append
          rw [evalExpr_infix _ _ _ _ _ _ _ _ hlog]
          have h1 := ihn l st ip stk mem _ hl (hA ▸ hpA) henvl hheap
          rw [hA] at h1
          rcases hel : evalExpr cfg n l st with ⟨r1, st1⟩
          rw [hel] at h1
          cases r1 with
          | error c1 => exact h1.error_n _
          | ok a =>
            obtain ⟨rfl, hrun⟩ := h1
            simp only []
            have h2 := ihn r st1 (ip + nI A.1) (⟨a, none⟩ :: stk) mem _ hr (hB ▸ hpB) henvr hheap
            rw [hB] at h2
            rcases her : evalExpr cfg n r st1 with ⟨r2, st2⟩
            rw [her] at h2
            cases r2 with
            | error c2 => exact SimP.error_after _ hrun h2
            | ok b =>
              obtain ⟨rfl, hrun2⟩ := h2
              simp only []
              have hrun12 := (hrun.trans hrun2).cast (Nat.add_assoc ip _ _)
              rcases arithI_cases op hlog with rfl | ⟨hne, i, hi⟩
              · -- `!=` is `eq; not`
                simp only [arithI, List.map_cons, List.map_nil, nI_append] at hY ⊢
                obtain ⟨ieq, hY⟩ := hY.instr (i := .eq) rfl
                obtain ⟨inot, _⟩ := hY.instr (i := .not) rfl
                have hbin := fun k => reach_bin code lim s _ k stk mem f rest c hc hf .eq .eq sp lab σ a b
                  none none st2 rfl (by decide) ieq hheap
                rw [binOp_ne_run]
                simp only [binOp_eq_run] at hbin
                cases hv : valEq st2.heap 64 a b with
                | none => trivial
                | some q =>
                  simp only [hv] at hbin
                  refine ⟨rfl, ((hrun12.trans (RunsTo.of_exec1 hbin)).trans (RunsTo.of_exec1 (fun k =>
                    reach_pre code lim s _ k stk mem f rest c hc hf .not sp lab σ (.bool q) (.bool (!q)) none
                      inot rfl))).cast ?_⟩
                  rw [nI_instr _ _ _ rfl, nI_instr _ _ _ rfl]
                  simp only [nI_nil]
                  omega
              · rw [hi] at hY ⊢
                simp only [List.map_cons, List.map_nil, nI_append] at hY ⊢
                have hil : isLabel i = false := by
                  cases op <;> simp [arithI] at hi <;> subst hi <;> rfl
                obtain ⟨iop, _⟩ := hY.instr hil
                have hbin := fun k => reach_bin code lim s _ k stk mem f rest c hc hf op i sp lab σ a b
                  none none st2 hi hne iop hheap
                rcases hb : binOp op a b sp st2 with ⟨rb, st3⟩
                have hst3 : st3 = st2 := by
                  have := (binOp_heapOnly op a b sp).state st2
                  rw [hb] at this; exact this
                subst hst3
                simp only [hb] at hbin
                cases rb with
                | ok v =>
                  simp only [] at hbin
                  refine ⟨rfl, (hrun12.trans (RunsTo.of_exec1 hbin)).cast ?_⟩
                  rw [nI_instr _ _ _ hil]
                  simp only [nI_nil]
                  omega
                | error cb =>
                  have hben := binOp_benign hb
                  cases cb <;> first | trivial | exact hben.elim | skip
                  simp only [] at hbin
                  refine ⟨rfl, hrun12.fatal ?_⟩
                  intro k
                  obtain ⟨s', hs', h1, _, h3, h4, h5⟩ := hbin k
                  exact ⟨1, s', by rw [execN_one]; exact hs', h1, h3, h4, h5⟩
    case ifE sp ty cnd t el =>
      cases el with
      | none => simp [Frag.pureE] at hs
      | some eb =>
        simp only [Frag.pureE, Bool.and_eq_true] at hs
        obtain ⟨⟨hcnd, ht⟩, he⟩ := hs
        have henvc : EnvRel ρ σ lim (Frag.varsE cnd) st.scopes s.mp mem :=
          henv.mono (by intro x hx; simp [Frag.varsE, hx])
        have henvt : EnvRel ρ σ lim (Frag.varsB t) st.scopes s.mp mem :=
          henv.mono (by intro x hx; simp [Frag.varsE, hx])
        have henve : EnvRel ρ σ lim (Frag.varsB eb) st.scopes s.mp mem :=
          henv.mono (by intro x hx; simp [Frag.varsE, hx])
        simp only [cpE] at hpl ⊢
        generalize hC : cpE mod ρ cnd lm = C at hpl ⊢
        generalize hAf : freshLabel mod C.2 "if_after" = aft at hpl ⊢
        generalize hEl : freshLabel mod aft.2 "else" = els at hpl ⊢
        generalize hT : cpB mod ρ t els.2 = T at hpl ⊢
        generalize hE : cpB mod ρ eb T.2 = E at hpl ⊢
        -- ((((C ++ [jif]) ++ T) ++ [jump, label els]) ++ E) ++ [label after]
        obtain ⟨h5, hZ⟩ := hpl.append
        obtain ⟨h4, hpE⟩ := h5.append
        obtain ⟨h3, hY⟩ := h4.append
        obtain ⟨h2, hpT⟩ := h3.append
        obtain ⟨hpC, hX⟩ := h2.append
        obtain ⟨ijif, _⟩ := hX.instr (i := .jumpIfFalse els.1) rfl
        obtain ⟨ijmp, hY⟩ := hY.instr (i := .jump aft.1) rfl
        obtain ⟨eels, _⟩ := hY.label
        obtain ⟨eaft, _⟩ := hZ.label
        have hnCX : nI (C.1 ++ [((Instr.jumpIfFalse els.1 : SInstr), sp)]) = nI C.1 + 1 := by
          rw [nI_append, nI_instr _ _ _ rfl]; rfl
        have hnY : nI [((Instr.jump aft.1 : SInstr), sp), (.label els.1, sp)] = 1 := rfl
        have hn : nI (C.1 ++ [((Instr.jumpIfFalse els.1 : SInstr), sp)] ++ T.1 ++
            [(.jump aft.1, sp), (.label els.1, sp)] ++ E.1 ++ [(.label aft.1, sp)]) =
            nI C.1 + 1 + nI T.1 + 1 + nI E.1 := by
          rw [nI_append, nI_append, nI_append, nI_append, hnCX, hnY]; rfl
        simp only [nI_append, hnCX, hnY] at hpT ijmp eels hpE eaft
        rw [hn, evalExpr_ifE]
        have h1 := ihn cnd st ip stk mem _ hcnd (hC ▸ hpC) henvc hheap
        rw [hC] at h1
        rcases hec : evalExpr cfg n cnd st with ⟨r1, st1⟩
        rw [hec] at h1
        cases r1 with
        | error c1 => exact h1.error_n _
        | ok a =>
          obtain ⟨rfl, hrun⟩ := h1
          cases a <;> try trivial
          rename_i b
          have hjif := RunsTo.of_exec1 (fun k =>
            reach_jumpIfFalse code lim s _ k stk mem f rest c hc hf (lab els.1) sp b none ijif)
          cases b with
          | true =>
            simp only []
            have hpre : RunsTo code lim s ip stk mem (ip + (nI C.1 + 1)) stk mem :=
              (hrun.trans hjif).cast (by simp only [if_true]; omega)
            have h2 := blockCase t (ip + (nI C.1 + 1)) stk els.2 ht (hT ▸ hpT) henvt
            rw [hT] at h2
            rcases hbt : inScope (evalBlock cfg n t) st1 with ⟨r2, st2⟩
            rw [hbt] at h2
            cases r2 with
            | error c2 => exact SimP.error_after _ hpre h2
            | ok v =>
              obtain ⟨rfl, hrun2⟩ := h2
              refine ⟨rfl, ((hpre.trans hrun2).trans (RunsTo.of_exec1 (fun k =>
                reach_jump code lim s _ k _ mem f rest c hc hf (lab aft.1) sp (by
                  rw [← Nat.add_assoc] at ijmp ⊢; exact ijmp)))).cast ?_⟩
              omega
          | false =>
            simp only []
            have hpre : RunsTo code lim s ip stk mem (ip + (nI C.1 + 1 + nI T.1 + 1)) stk mem :=
              (hrun.trans hjif).cast (by simp only [Bool.false_eq_true, if_false]; omega)
            have h2 := blockCase eb (ip + (nI C.1 + 1 + nI T.1 + 1)) stk T.2 he (hE ▸ hpE) henve
            rw [hE] at h2
            rcases hbe : inScope (evalBlock cfg n eb) st1 with ⟨r2, st2⟩
            rw [hbe] at h2
            cases r2 with
            | error c2 => exact SimP.error_after _ hpre h2
            | ok v =>
              obtain ⟨rfl, hrun2⟩ := h2
              refine ⟨rfl, (hpre.trans hrun2).cast ?_⟩
              omega
end Main

end HmsProofs.Sim
