import Hms.Mod.Order
/-!
# Name mangling: the fixed scheme is injective, the unfixed one is not (finding V26)
-/
namespace Hms.Mod

/-! ## Decimal digits -/

theorem digitChar_inj_of_lt_ten {a b : Nat} (ha : a < 10) (hb : b < 10)
    (h : a.digitChar = b.digitChar) : a = b := by
  have h' := congrArg Char.toNat h
  rw [Nat.toNat_digitChar_of_lt_ten ha, Nat.toNat_digitChar_of_lt_ten hb] at h'
  omega

theorem toDigits_injective {a b : Nat} (h : Nat.toDigits 10 a = Nat.toDigits 10 b) : a = b := by
  induction a using Nat.strongRecOn generalizing b with
  | _ a ih =>
    rw [Nat.toDigits_eq_if (by decide : 1 < 10) (n := a),
      Nat.toDigits_eq_if (by decide : 1 < 10) (n := b)] at h
    by_cases ha : a < 10 <;> by_cases hb : b < 10 <;> simp only [ha, hb, if_true, if_false] at h
    · exact digitChar_inj_of_lt_ten ha hb (by simpa using h)
    · have hl := congrArg List.length h
      have := @Nat.length_toDigits_pos 10 (b / 10)
      simp at hl
    · have hl := congrArg List.length h
      have := @Nat.length_toDigits_pos 10 (a / 10)
      simp at hl
    · obtain ⟨h1, h2⟩ := List.append_inj' h rfl
      have hq : a / 10 = b / 10 := ih (a / 10) (by omega) h1
      have hr : a % 10 = b % 10 :=
        digitChar_inj_of_lt_ten (Nat.mod_lt _ (by decide)) (Nat.mod_lt _ (by decide)) (by simpa using h2)
      omega

theorem dot_not_mem_toDigits (c : Nat) : '.' ∉ Nat.toDigits 10 c := by
  intro h
  simpa using Nat.isDigit_of_mem_toDigits (by decide) (by decide) h

/-! ## Splitting at the last separator -/

theorem split_last_sep {α} {sep : α} {xs xs' ys ys' : List α}
    (h : xs ++ sep :: ys = xs' ++ sep :: ys') (hy : sep ∉ ys) (hy' : sep ∉ ys') :
    xs = xs' ∧ ys = ys' := by
  induction xs generalizing xs' with
  | nil =>
    cases xs' with
    | nil => simpa using h
    | cons c t =>
      simp only [List.nil_append, List.cons_append, List.cons.injEq] at h
      exact absurd (h.2 ▸ (by simp : sep ∈ t ++ sep :: ys')) hy
  | cons a s ih =>
    cases xs' with
    | nil =>
      simp only [List.nil_append, List.cons_append, List.cons.injEq] at h
      exact absurd (h.2 ▸ (by simp : sep ∈ s ++ sep :: ys)) hy'
    | cons c t =>
      simp only [List.cons_append, List.cons.injEq] at h
      obtain ⟨rfl, h⟩ := h
      obtain ⟨rfl, rfl⟩ := ih h
      exact ⟨rfl, rfl⟩

/-! ## The fixed scheme -/

/-- fixed scheme `@module.name.counter`: injective as soon as identifiers contain no '.' (the lexer only
admits letters, digits, '_' and the compiler's own '$' prefix) — whatever the module names are -/
theorem mangleVar_injective_partial {m₁ m₂ n₁ n₂ : List Char} {c₁ c₂ : Nat}
    (h₁ : '.' ∉ n₁) (h₂ : '.' ∉ n₂) (h : mangleVarFixedL m₁ n₁ c₁ = mangleVarFixedL m₂ n₂ c₂) :
    m₁ = m₂ ∧ n₁ = n₂ ∧ c₁ = c₂ := by
  unfold mangleVarFixedL at h
  obtain ⟨h, hc⟩ := split_last_sep h (dot_not_mem_toDigits c₁) (dot_not_mem_toDigits c₂)
  obtain ⟨hm, hn⟩ := split_last_sep h h₁ h₂
  exact ⟨by simpa using hm, hn, toDigits_injective hc⟩

theorem mangleFn_injective_partial {m₁ m₂ n₁ n₂ : List Char} (h₁ : '.' ∉ n₁) (h₂ : '.' ∉ n₂)
    (h : mangleFnFixedL m₁ n₁ = mangleFnFixedL m₂ n₂) : m₁ = m₂ ∧ n₁ = n₂ := by
  unfold mangleFnFixedL at h
  obtain ⟨hm, hn⟩ := split_last_sep h h₁ h₂
  exact ⟨by simpa using hm, hn⟩

/-- String-level corollary -/
theorem mangleVarFixed_injective_partial {m₁ m₂ n₁ n₂ : String} {c₁ c₂ : Nat}
    (h₁ : '.' ∉ n₁.toList) (h₂ : '.' ∉ n₂.toList) (h : mangleVarFixed m₁ n₁ c₁ = mangleVarFixed m₂ n₂ c₂) :
    m₁ = m₂ ∧ n₁ = n₂ ∧ c₁ = c₂ := by
  obtain ⟨hm, hn, hc⟩ := mangleVar_injective_partial h₁ h₂ (String.ofList_injective h)
  exact ⟨String.toList_inj.mp hm, String.toList_inj.mp hn, hc⟩

/-- String-level corollary -/
theorem mangleFnFixed_injective_partial {m₁ m₂ n₁ n₂ : String}
    (h₁ : '.' ∉ n₁.toList) (h₂ : '.' ∉ n₂.toList) (h : mangleFnFixed m₁ n₁ = mangleFnFixed m₂ n₂) :
    m₁ = m₂ ∧ n₁ = n₂ := by
  obtain ⟨hm, hn⟩ := mangleFn_injective_partial h₁ h₂ (String.ofList_injective h)
  exact ⟨String.toList_inj.mp hm, String.toList_inj.mp hn⟩

/-! ## The unfixed scheme collides -/

/-- finding V26: `a1` + 0 and `a` + 10 collide in the unfixed scheme -/
theorem mangleVar_collision_counterexample_V26 :
    mangleVarUnfixed "m" "a1" 0 = mangleVarUnfixed "m" "a" 10 ∧ ("a1", 0) ≠ (("a", 10) : String × Nat) := by
  decide

/-- module `a` + function `b_f` and module `a_b` + function `f` collide in the unfixed scheme -/
theorem mangleFn_collision_counterexample :
    mangleFnUnfixed "a" "b_f" = mangleFnUnfixed "a_b" "f" ∧ (("a", "b_f") : String × String) ≠ ("a_b", "f") := by
  decide

end Hms.Mod
