import HmsProofs.Lemmas.SimHComp
import HmsProofs.Lemmas.SimHStmt2
import HmsProofs.Lemmas.SimHIrrel
/-!
# The compiler on the statements of the general fragment
-/
namespace HmsProofs.Sim
open Hms.Core Hms.Core.Comp

/-- The (break, continue) labels of the compiler's loop stack. -/
def loopsOf (L : List (String × String × Nat)) : List (String × String) := L.map fun t => (t.1, t.2.1)

theorem cleanupLabel_run_S (cs : CState) (L) (c0 : SCode) (env : CEnv) :
    cleanupLabel.run (updS cs L c0 env) =
      ((ρS env.scopes (cleanupKey cs.currModule cs.currFn)).getD "?cleanup", updS cs L c0 env) := rfl

def CompGS (fuel : Nat) (st : Stmt) (cs : CState) (L : List (String × String × Nat)) : Prop :=
  ∀ (c0 : SCode) (env : CEnv), Frag.wsGS cs.currModule cs.currFn (φOf cs) (loopsOf L) st env = true →
    (compileStmt fuel st).run (updS cs L c0 env) =
      ((), updS cs L (c0 ++ (cgS cs.currModule cs.currFn (φOf cs) (loopsOf L) st env).1)
        (cgS cs.currModule cs.currFn (φOf cs) (loopsOf L) st env).2)

def CompGSs (fuel : Nat) (ss : List Stmt) (cs : CState) (L : List (String × String × Nat)) : Prop :=
  ∀ (c0 : SCode) (env : CEnv), Frag.wsGSs cs.currModule cs.currFn (φOf cs) (loopsOf L) ss env = true →
    (compileStmts fuel ss).run (updS cs L c0 env) =
      ((), updS cs L (c0 ++ (cgSs cs.currModule cs.currFn (φOf cs) (loopsOf L) ss env).1)
        (cgSs cs.currModule cs.currFn (φOf cs) (loopsOf L) ss env).2)

def CompGBS (fuel : Nat) (b : Block) (cs : CState) (L : List (String × String × Nat)) : Prop :=
  ∀ (c0 : SCode) (env : CEnv), Frag.wsGBS cs.currModule cs.currFn (φOf cs) (loopsOf L) b env = true →
    (compileBlock fuel b true).run (updS cs L c0 env) =
      ((), updS cs L (c0 ++ (cgBS cs.currModule cs.currFn (φOf cs) (loopsOf L) b env).1)
        (cgBS cs.currModule cs.currFn (φOf cs) (loopsOf L) b env).2)

theorem cdS_pos (st : Stmt) : 1 ≤ Frag.cdS st := by
  cases st <;> try (simp [Frag.cdS]; done)
  case ret sp oe => cases oe <;> simp [Frag.cdS]
  case forS sp name vty iter body =>
    obtain ⟨bsp, bty, stmts, boe⟩ := body
    cases iter <;> simp [Frag.cdS]

theorem compile_gstmt : ∀ (fuel : Nat),
    (∀ (st : Stmt) (cs : CState) (L : List (String × String × Nat)) (il rt : Bool),
      (rt = true → cs.tryDepth = 0) → (il = true → ∃ b c rest, L = (b, c, cs.tryDepth) :: rest) →
      Frag.okFS fr il rt st = true → Frag.cdS st ≤ fuel → CompGS fuel st cs L) ∧
    (∀ (ss : List Stmt) (cs : CState) (L : List (String × String × Nat)) (il rt : Bool),
      (rt = true → cs.tryDepth = 0) → (il = true → ∃ b c rest, L = (b, c, cs.tryDepth) :: rest) →
      Frag.okFSs fr il rt ss = true → Frag.cdSs ss ≤ fuel → CompGSs fuel ss cs L) ∧
    (∀ (b : Block) (cs : CState) (L : List (String × String × Nat)) (il rt : Bool),
      (rt = true → cs.tryDepth = 0) → (il = true → ∃ b c rest, L = (b, c, cs.tryDepth) :: rest) →
      Frag.okFBS fr il rt b = true → Frag.cdBS b ≤ fuel → CompGBS fuel b cs L) := by
  intro fuel
  induction fuel using Nat.strongRecOn with
  | _ fuel ihAll =>
  cases fuel with
  | zero =>
    refine ⟨?_, ?_, ?_⟩
    · intro st cs L _ _ _ _ _ hd
      have := cdS_pos st
      omega
    · intro ss cs L _ _ _ _ _ hd; cases ss <;> simp [Frag.cdSs] at hd
    · intro b cs L _ _ _ _ _ hd; obtain ⟨_, _, _, _⟩ := b; simp [Frag.cdBS] at hd
  | succ fuel =>
    obtain ⟨ihS, ihSs, ihB⟩ := ihAll fuel (Nat.lt_succ_self _)
    refine ⟨?_, ?_, ?_⟩
    · intro st cs L il rt hrt hil hs hd c0 env hws
      cases st
      case typedef | trigger => simp [Frag.okFS] at hs
      case forS sp name vty iter body =>
        obtain ⟨bsp, bty, stmts, boe⟩ := body
        cases iter <;> try (simp [Frag.okFS] at hs; done)
        cases boe <;> try (simp [Frag.okFS] at hs; done)
        rename_i rsp a b incl
        simp only [Frag.okFS, Bool.and_eq_true] at hs
        obtain ⟨⟨⟨_, hoka⟩, hokb⟩, hoks⟩ := hs
        simp only [Frag.cdS] at hd
        simp only [Frag.wsGS, Bool.and_eq_true] at hws
        obtain ⟨⟨hwa, hwb⟩, hwS⟩ := hws
        obtain ⟨f', rfl⟩ : ∃ f', fuel = f' + 1 := ⟨fuel - 1, by have := cdE_pos a; omega⟩
        have hGE : ∀ (e : Expr) (cs : CState), Frag.okE fr e = true → Frag.cdE e ≤ f' → CompGE f' e cs :=
          (compile_gexpr fr f').1
        have ihSs' := (ihAll f' (by omega)).2.1
        have hpush : ∀ (e : Expr), Frag.wsGE env.scopes (φOf cs) e = true →
            Frag.wsGE ([] :: env.scopes) (φOf cs) e = true := by
          intro e h
          simp only [Frag.wsGE, Bool.and_eq_true] at h ⊢
          rw [resolved_push, callsOK_push]; exact h
        rw [compileStmt, cgS]
        refine bind_run _ _ _ _ _ _ (mangleLabel_run_S _ _ _ _ _) ?_
        refine bind_run _ _ _ _ _ _ (mangleLabel_run_S _ _ _ _ _) ?_
        refine bind_run _ _ _ _ _ _ (mangleLabel_run_S _ _ _ _ _) ?_
        refine bind_run _ _ _ (updS cs L c0 { env with scopes := [] :: env.scopes, lm := _ }) () _ rfl ?_
        refine bind_run _ _ _ _ _ _ (by
          rw [compileExpr]
          refine bind_run _ _ _ _ _ _ (hGE a cs hoka (by omega) L c0 _ (hpush a hwa)) ?_
          refine bind_run _ _ _ _ _ _ (hGE b cs hokb (by omega) L _ _ (hpush b hwb)) ?_
          exact emit_run_S _ _ _ _ _ _) ?_
        refine bind_run _ _ _ _ _ _ (emit_run_S _ _ _ _ _ _) ?_
        refine bind_run _ _ _ _ _ _ (emit_run_S _ _ _ _ _ _) ?_
        refine bind_run _ _ _ _ _ _ (mangleVar_run_S _ _ _ _ _) ?_
        refine bind_run _ _ _ _ _ _ (emit_run_S _ _ _ _ _ _) ?_
        refine bind_run _ _ _ _ _ _ (mangleVar_run_S _ _ _ _ _) ?_
        refine bind_run _ _ _ _ _ _ (emit_run_S _ _ _ _ _ _) ?_
        refine bind_run _ _ _ _ _ _ (emit_run_S _ _ _ _ _ _) ?_
        refine bind_run _ _ _ _ _ _ (emit_run_S _ _ _ _ _ _) ?_
        refine bind_run _ _ _ _ _ _ (emit_run_S _ _ _ _ _ _) ?_
        refine bind_run _ _ _ _ _ _ (emit_run_S _ _ _ _ _ _) ?_
        refine bind_run _ _ _ (updS cs (_ :: L) _ _) _ _ rfl ?_
        simp only [ρS_push] at hwS ⊢
        have hC := ihSs' stmts cs (((freshLabel cs.currModule (freshLabel cs.currModule
            (freshLabel cs.currModule env.lm "loop_head").2 "loop_update").2 "loop_end").1,
          (freshLabel cs.currModule (freshLabel cs.currModule env.lm "loop_head").2 "loop_update").1,
          cs.tryDepth) :: L) true rt hrt (fun _ => ⟨_, _, _, rfl⟩) hoks (by omega)
        refine bind_run _ _ _ _ _ _ (by
          rw [compileBlock]
          simp only [Bool.false_eq_true, if_false]
          refine bind_run _ _ _ _ _ _ (hC _ _ hwS) ?_
          rfl) ?_
        refine bind_run _ _ _ _ _ _ (emit_run_S _ _ _ _ _ _) ?_
        refine bind_run _ _ _ _ _ _ (emit_run_S _ _ _ _ _ _) ?_
        refine bind_run _ _ _ _ _ _ (emit_run_S _ _ _ _ _ _) ?_
        refine bind_run _ _ _ (updS cs L _ _) _ _ rfl ?_
        show ((), _) = ((), _)
        congr 1
        simp only [List.append_assoc, List.cons_append, List.nil_append]
        rfl
      case letS sp name vty needsCast oty e =>
        simp only [Frag.okFS, Bool.and_eq_true, Bool.not_eq_eq_eq_not, Bool.not_true] at hs
        obtain ⟨hnc, he⟩ := hs
        subst hnc
        simp only [Frag.cdS] at hd
        simp only [Frag.wsGS] at hws
        obtain ⟨f', rfl⟩ : ∃ f', fuel = f' + 1 := ⟨fuel - 1, by omega⟩
        rw [compileStmt, cgS]
        refine bind_run _ _ _ _ (freshVar cs.currModule
          { env with lm := (cgE cs.currModule (ρS env.scopes) (φOf cs) e env.lm).2 } name).1 _ ?_ rfl
        rw [compileLet]
        refine bind_run _ _ _ _ _ _ (compile_vexpr fr f' e cs he (by omega) L c0 env hws) ?_
        simp only [Bool.false_eq_true, if_false]
        refine bind_run _ _ _ _ _ _ (mangleVar_run_S _ _ _ _ _) ?_
        refine bind_run _ _ _ _ _ _ (emit_run_S _ _ _ _ _ _) ?_
        refine bind_run _ _ _ _ _ _ (bumpVars_run_S _ _ _ _) ?_
        simp only [List.append_assoc]
        rfl
      case exprS sp e =>
        have hGE : ∀ f, f ≤ fuel → ∀ (e : Expr) (cs : CState), Frag.okE fr e = true → Frag.cdE e ≤ f → CompGE f e cs :=
          fun f _ => (compile_gexpr fr f).1
        rcases okGS_exprS_inv _ _ _ sp e hs with ⟨asp, op, isp, ity, name, isFn, r, rfl, hr, hlog⟩ |
          ⟨isp, ty, cnd, t, eb, rfl, hty, hcnd, ht, heb⟩ | ⟨isp, ty, cnd, t, rfl, hty, hcnd, ht⟩ |
          ⟨csp, cty, isp, ity, name, g, f, si, args, sw, rfl, hcase⟩ | ⟨tsp, tty, tb, ci, cb, rfl, htty, htb, hcb⟩ |
          ⟨msp, mty, mc, arms, db, rfl, hmty, hmc, hmarms, hmdb⟩ | ⟨asp, op, isp, ity, b, i, r, rfl⟩ |
          ⟨asp, op, msp', mty', b, name, r, rfl⟩ | ⟨csp, cty, msp', mty', b, a, rfl⟩
        rotate_right
        · -- `l.push(x);`
          simp only [Frag.okFS, Bool.and_eq_true, beq_iff_eq] at hs
          obtain ⟨⟨⟨⟨⟨_, _⟩, hnull⟩, hb⟩, hoa⟩, _⟩ := hs
          simp only [Frag.cdS, Frag.cdX] at hd
          simp only [Frag.cdArgs, List.length_cons, List.length_nil] at hd
          obtain ⟨f', rfl⟩ : ∃ f', fuel = f' + 3 := ⟨fuel - 3, by have := cdE_pos b; have := cdE_pos a.2; omega⟩
          simp only [Frag.wsGS, Bool.and_eq_true] at hws
          obtain ⟨hwb, hwa⟩ := hws
          have hwa' : Frag.wsGE env.scopes (φOf cs) a.2 = true := by
            simpa [Frag.wsGArgs, Frag.varsGArgs, Frag.callsGArgs, Frag.wsGE] using hwa
          rw [compileStmt, cgS]
          refine bind_run _ _ _ (updS cs L (c0 ++ _) _) () _ ?_ (by simp [Expr.ty, hnull]; rfl)
          rw [compileExpr]
          simp only [List.reverse_cons, List.reverse_nil, List.nil_append, List.map_cons, List.map_nil]
          have hargs : (compileExprs (f' + 2) [a.2]).run (updS cs L c0 env) =
              ((), updS cs L (c0 ++ (cgE cs.currModule (ρS env.scopes) (φOf cs) a.2 env.lm).1)
                { env with lm := (cgE cs.currModule (ρS env.scopes) (φOf cs) a.2 env.lm).2 }) := by
            rw [compileExprs]
            refine bind_run _ _ _ _ _ _ (compile_vexpr fr (f' + 1) a.2 cs hoa (by omega) L c0 env hwa') ?_
            rw [compileExprs]; rfl
          refine bind_run _ _ _ _ _ _ hargs ?_
          simp only [Bool.false_eq_true, if_false]
          rw [compileExpr]
          have hbase := compile_vexpr fr (f' + 1) b cs hb (by omega) L
            (c0 ++ (cgE cs.currModule (ρS env.scopes) (φOf cs) a.2 env.lm).1)
            { env with lm := (cgE cs.currModule (ρS env.scopes) (φOf cs) a.2 env.lm).2 } hwb
          refine bind_run _ _ _ _ _ _ (bind_run _ _ _ _ _ _ hbase (emit_run_S _ _ _ _ _ _)) ?_
          refine bind_run _ _ _ _ _ _ (emit_run_S _ _ _ _ _ _) ?_
          rw [emit_run_S]
          simp only [List.length_cons, List.length_nil, List.append_assoc, List.cons_append, List.nil_append]
          rfl
        rotate_right
        · -- `o.f = e`, `o.f op= e`
          rw [okFS_memAssign] at hs
          simp only [Bool.and_eq_true] at hs
          obtain ⟨⟨⟨hop, hl⟩, hr⟩, _⟩ := hs
          simp only [Frag.cdS, Frag.cdX] at hd
          obtain ⟨f', rfl⟩ : ∃ f', fuel = f' + 1 := ⟨fuel - 1, by have := cdE_pos r; omega⟩
          rw [wsGS_memAssign] at hws
          simp only [Bool.and_eq_true] at hws
          obtain ⟨hwl, hwr⟩ := hws
          rw [compileStmt, cgS_memAssign]
          refine bind_run _ _ _ (updS cs L (c0 ++ _) _) () _ ?_ (by simp [Expr.ty, Ty.isNull]; rfl)
          rw [compileExpr]
          rotate_left
          · intro _ _ _ _ _ _ h; cases h
          refine bind_run _ _ _ _ _ _ (compile_vexpr fr f' _ cs hl (by omega) L c0 env hwl) ?_
          cases op with
          | none =>
            simp only [opPre, opPost]
            refine bind_run _ _ _ _ _ _ (compile_vexpr fr f' r cs hr (by omega) L _ _ hwr) ?_
            rw [emit_run_S]
            simp only [List.append_assoc, List.nil_append]
          | some o =>
            have hlog : Frag.isLogical o = false := by simpa [opOK] using hop
            simp only [opPre, opPost]
            refine bind_run _ _ _ _ _ _ (emit_run_S _ _ _ _ _ _) ?_
            refine bind_run _ _ _ _ _ _ (compile_vexpr fr f' r cs hr (by omega) L _ _ hwr) ?_
            refine bind_run _ _ _ _ _ _ (arith_run_S _ _ _ _ _ _ hlog) ?_
            rw [emit_run_S]
            simp only [List.append_assoc, List.cons_append, List.nil_append]
        rotate_right
        · -- `l[i] = e`, `l[i] op= e`
          rw [okFS_idxAssign] at hs
          simp only [Bool.and_eq_true] at hs
          obtain ⟨⟨⟨hop, hl⟩, hr⟩, _⟩ := hs
          simp only [Frag.cdS, Frag.cdX] at hd
          obtain ⟨f', rfl⟩ : ∃ f', fuel = f' + 1 := ⟨fuel - 1, by have := cdE_pos r; omega⟩
          rw [wsGS_idxAssign] at hws
          simp only [Bool.and_eq_true] at hws
          obtain ⟨hwl, hwr⟩ := hws
          rw [compileStmt, cgS_idxAssign]
          refine bind_run _ _ _ (updS cs L (c0 ++ _) _) () _ ?_ (by simp [Expr.ty, Ty.isNull]; rfl)
          rw [compileExpr]
          rotate_left
          · intro _ _ _ _ _ _ h; cases h
          refine bind_run _ _ _ _ _ _ (compile_vexpr fr f' _ cs hl (by omega) L c0 env hwl) ?_
          cases op with
          | none =>
            simp only [opPre, opPost]
            refine bind_run _ _ _ _ _ _ (compile_vexpr fr f' r cs hr (by omega) L _ _ hwr) ?_
            rw [emit_run_S]
            simp only [List.append_assoc, List.nil_append]
          | some o =>
            have hlog : Frag.isLogical o = false := by simpa [opOK] using hop
            simp only [opPre, opPost]
            refine bind_run _ _ _ _ _ _ (emit_run_S _ _ _ _ _ _) ?_
            refine bind_run _ _ _ _ _ _ (compile_vexpr fr f' r cs hr (by omega) L _ _ hwr) ?_
            refine bind_run _ _ _ _ _ _ (arith_run_S _ _ _ _ _ _ hlog) ?_
            rw [emit_run_S]
            simp only [List.append_assoc, List.cons_append, List.nil_append]
        · simp only [Frag.cdS, Frag.cdX] at hd
          obtain ⟨f', rfl⟩ : ∃ f', fuel = f' + 1 := ⟨fuel - 1, by have := cdE_pos r; omega⟩
          simp only [Frag.wsGS, Bool.and_eq_true] at hws
          obtain ⟨hname, hvr⟩ := hws
          cases op with
          | none =>
            rw [compileStmt, cgS]
            refine bind_run _ _ _ (updS cs L (c0 ++ _) _) () _ ?_ (by simp [Expr.ty, Ty.isNull]; rfl)
            rw [compileExpr]
            refine bind_run _ _ _ _ _ _ (getMangled_run_S _ _ _ _ _) ?_
            simp only [Bool.or_self, Bool.false_eq_true, if_false]
            refine bind_run _ _ _ _ _ _ (compile_vexpr fr f' r cs hr (by omega) L c0 env hvr) ?_
            rw [emit_run_S]
            simp only [List.append_assoc]
          | some o =>
            have hlog := hlog o rfl
            rw [compileStmt, cgS]
            refine bind_run _ _ _ (updS cs L (c0 ++ _) _) () _ ?_ (by simp [Expr.ty, Ty.isNull]; rfl)
            rw [compileExpr]
            refine bind_run _ _ _ _ _ _ (getMangled_run_S _ _ _ _ _) ?_
            simp only [Bool.or_self, Bool.false_eq_true, if_false]
            refine bind_run _ _ _ _ _ _ (emit_run_S _ _ _ _ _ _) ?_
            refine bind_run _ _ _ _ _ _ (compile_vexpr fr f' r cs hr (by omega) L _ env hvr) ?_
            refine bind_run _ _ _ _ _ _ (arith_run_S _ _ _ _ _ _ hlog) ?_
            rw [emit_run_S]
            simp only [List.append_assoc, List.cons_append, List.nil_append]
        · -- `if c { … } else { … }`
          simp only [Frag.cdS, Frag.cdX] at hd
          obtain ⟨f', rfl⟩ : ∃ f', fuel = f' + 1 := ⟨fuel - 1, by have := cdE_pos cnd; omega⟩
          simp only [Frag.wsGS, Bool.and_eq_true] at hws
          obtain ⟨⟨hvc, hwt⟩, hwe⟩ := hws
          have ihB' := (ihAll f' (by omega)).2.2
          rw [compileStmt, cgS]
          refine bind_run _ _ _ (updS cs L (c0 ++ _) _) () _ ?_ (by simp [Expr.ty, hty]; rfl)
          rw [compileExpr]
          refine bind_run _ _ _ _ _ _ (hGE f' (by omega) cnd cs hcnd (by omega) L c0 env hvc) ?_
          refine bind_run _ _ _ _ _ _ (mangleLabel_run_S _ _ _ _ _) ?_
          refine bind_run _ _ _ _ _ _ (mangleLabel_run_S _ _ _ _ _) ?_
          refine bind_run _ _ _ _ _ _ (emit_run_S _ _ _ _ _ _) ?_
          refine bind_run _ _ _ _ _ _ (ihB' t cs L il rt hrt hil ht (by omega) _ _ hwt) ?_
          refine bind_run _ _ _ _ _ _ (emit_run_S _ _ _ _ _ _) ?_
          simp only []
          refine bind_run _ _ _ _ _ _ (emit_run_S _ _ _ _ _ _) ?_
          refine bind_run _ _ _ _ _ _ (ihB' eb cs L il rt hrt hil heb (by omega) _ _ hwe) ?_
          rw [emit_run_S]
          simp only [List.append_assoc, List.cons_append, List.nil_append, Option.isSome_some, if_true]
        · -- `if c { … }`
          simp only [Frag.cdS, Frag.cdX] at hd
          obtain ⟨f', rfl⟩ : ∃ f', fuel = f' + 1 := ⟨fuel - 1, by have := cdE_pos cnd; omega⟩
          simp only [Frag.wsGS, Bool.and_eq_true] at hws
          obtain ⟨hvc, hwt⟩ := hws
          have ihB' := (ihAll f' (by omega)).2.2
          rw [compileStmt, cgS]
          refine bind_run _ _ _ (updS cs L (c0 ++ _) _) () _ ?_ (by simp [Expr.ty, hty]; rfl)
          rw [compileExpr]
          refine bind_run _ _ _ _ _ _ (hGE f' (by omega) cnd cs hcnd (by omega) L c0 env hvc) ?_
          refine bind_run _ _ _ _ _ _ (mangleLabel_run_S _ _ _ _ _) ?_
          refine bind_run _ _ _ _ _ _ (mangleLabel_run_S _ _ _ _ _) ?_
          refine bind_run _ _ _ _ _ _ (emit_run_S _ _ _ _ _ _) ?_
          refine bind_run _ _ _ _ _ _ (ihB' t cs L il rt hrt hil ht (by omega) _ _ hwt) ?_
          refine bind_run _ _ _ _ _ _ (emit_run_S _ _ _ _ _ _) ?_
          simp only []
          rw [emit_run_S]
          simp only [List.append_assoc, List.cons_append, List.nil_append, Option.isSome_none, Bool.false_eq_true,
            if_false]
        · simp only [Frag.cdS, Frag.cdX] at hd
          obtain ⟨f', rfl⟩ : ∃ f', fuel = f' + 1 := ⟨fuel - 1, by omega⟩
          have hpnt : ("println" == "throw") = false := by decide
          rcases hcase with ⟨rfl, hnull, rfl, hoka, hone, hlen⟩ | ⟨hnp, hnt, hnn, hcall⟩ | ⟨rfl, rfl, a, rfl, hat⟩
          · -- println
            simp only [Frag.wsGS, hpnt, Bool.false_eq_true, if_false, beq_self_eq_true, if_true, Bool.and_eq_true,
              Option.isNone_iff_eq_none] at hws
            obtain ⟨⟨hρ, hφ⟩, hwa⟩ := hws
            simp only [Frag.wsGArgs, Bool.and_eq_true] at hwa
            have hargs := compileExprs_seq cs (Frag.cdArgs args) (args.reverse.map (·.2)) f'
              (by
                intro e he f'' hM _
                simp only [List.mem_map, List.mem_reverse] at he
                obtain ⟨a, ha, rfl⟩ := he
                have := cdArgs_mem args a ha
                exact hGE f'' (by omega) a.2 cs (okGArgs_mem fr args hoka a ha) (by omega))
              (by simp only [List.length_map, List.length_reverse]; omega) L c0 env
              (by
                intro e he
                simp only [List.mem_map, List.mem_reverse] at he
                obtain ⟨a, ha, rfl⟩ := he
                exact wsGArgs_mem env.scopes (φOf cs) args hwa.1 hwa.2 a ha)
            rw [cgEs_rev_args] at hargs
            rw [compileStmt, cgS]
            simp only [hpnt, Bool.false_eq_true, if_false, beq_self_eq_true, if_true]
            refine bind_run _ _ _ (updS cs L (c0 ++ _) _) () _ ?_ (by simp [Expr.ty, hnull]; rfl)
            rw [compileExpr]
            refine bind_run _ _ _ _ _ _ hargs ?_
            have hth : ("println" == "throw") = false := by decide
            simp only [hth, Bool.false_eq_true, if_false]
            refine bind_run _ _ _ _ _ _ (getMangled_run_S _ _ _ _ _) ?_
            rw [hρ]
            simp only []
            refine bind_run _ _ _ _ _ _ (getMangledFn_run_S _ _ _ _ _) ?_
            rw [hφ]
            simp only []
            refine bind_run _ _ _ _ _ _ (emit_run_S _ _ _ _ _ _) ?_
            refine bind_run _ _ _ _ _ _ (emit_run_S _ _ _ _ _ _) ?_
            rw [emit_run_S]
            simp only [List.append_assoc, List.cons_append, List.nil_append]
          · -- a user function called for its effect
            have hne : (name == "println") = false := by simpa using hnp
            have hnt' : (name == "throw") = false := by simpa using hnt
            simp only [Frag.wsGS, hne, hnt', Bool.false_eq_true, if_false, Bool.and_eq_true,
              Option.isNone_iff_eq_none] at hws
            obtain ⟨⟨hρ, hφ⟩, hwa⟩ := hws
            simp only [Frag.wsGArgs, Bool.and_eq_true] at hwa
            have hwsE : Frag.wsGE env.scopes (φOf cs) (.call csp cty (.ident isp ity name g f si) args sw) = true := by
              simp only [Frag.wsGE, Frag.varsGE, Frag.callsGE, Bool.and_eq_true]
              refine ⟨hwa.1, ?_⟩
              show Frag.callsOK env.scopes (φOf cs) ([name] ++ Frag.callsGArgs args) = true
              rw [callsOK_append]
              refine ⟨?_, hwa.2⟩
              simp [Frag.callsOK, hρ, hφ]
            rw [compileStmt, cgS]
            simp only [hne, hnt', Bool.false_eq_true, if_false]
            refine bind_run _ _ _ _ _ _ (hGE (f' + 1) (by omega) _ cs hcall
              (by simp only [Frag.cdE]; omega) L c0 env hwsE) ?_
            simp only [Expr.ty, hnn, Bool.not_false, Bool.true_or, if_true]
            rw [emit_run_S]
            simp only [List.append_assoc]
          · -- `throw(a)`
            simp only [Frag.wsGS, beq_self_eq_true, if_true, Bool.and_eq_true, Option.isNone_iff_eq_none] at hws
            obtain ⟨⟨hρ, hφ⟩, hwa⟩ := hws
            simp only [Frag.wsGArgs, Bool.and_eq_true] at hwa
            have hpa : Frag.pureE a.2 = true := atom_pure _ hat
            have hda : Frag.depthE a.2 ≤ Frag.cdArgs [a] := by
              have := depthE_le_cdE' a.2 hpa
              simp only [Frag.cdArgs]; omega
            simp only [List.length_singleton] at hd
            have hargs := compileExprs_seq cs (Frag.cdArgs [a]) ([a].reverse.map (·.2)) f'
              (by
                intro e he f'' hM _
                simp only [List.reverse_singleton, List.map_singleton, List.mem_singleton] at he
                subst he
                intro L c0 env hws'
                have hws'' := hws'
                simp only [Frag.wsGE, Bool.and_eq_true] at hws''
                rw [varsGE_pure a.2 hpa] at hws''
                rw [cgE_of_pure _ _ _ _ _ hpa]
                exact compileExpr_pure_S f'' a.2 cs L c0 env hpa (by omega) hws''.1)
              (by simp only [List.length_map, List.length_reverse, List.length_singleton]; omega) L c0 env
              (by
                intro e he
                simp only [List.reverse_singleton, List.map_singleton, List.mem_singleton] at he
                subst he
                exact wsGArgs_mem env.scopes (φOf cs) [a] hwa.1 hwa.2 a (by simp))
            rw [cgEs_rev_args] at hargs
            rw [compileStmt, cgS]
            simp only [beq_self_eq_true, if_true]
            refine bind_run _ _ _ (updS cs L (c0 ++ ((cgArgs cs.currModule (ρS env.scopes) (φOf cs) [a] env.lm).1 ++
              [(.throw, csp)])) { env with lm := (cgArgs cs.currModule (ρS env.scopes) (φOf cs) [a] env.lm).2 }) () _ ?_ ?_
            · rw [compileExpr]
              refine bind_run _ _ _ _ _ _ hargs ?_
              simp only [beq_self_eq_true, if_true]
              rw [emit_run_S]
              simp only [List.append_assoc]
            · simp only [Expr.ty]
              by_cases hn : cty.isNull = true
              · simp only [hn, Bool.not_true, Expr.isSpawn, Bool.or_self, Bool.false_eq_true, if_false, if_true, List.append_nil]
                rfl
              · have hn' : cty.isNull = false := by simpa using hn
                simp only [hn', Bool.not_false, Bool.true_or, if_true, Bool.false_eq_true, if_false]
                rw [emit_run_S]
                simp only [List.append_assoc]
        · -- `try { … } catch e { … }`
          obtain ⟨cbsp, cbty, cstmts, coe⟩ := cb
          cases coe with
          | some _ => simp [Frag.okFBS] at hcb
          | none =>
          simp only [Frag.okFBS] at hcb
          simp only [Frag.cdS, Frag.cdX, Frag.cdBS] at hd
          obtain ⟨f', rfl⟩ : ∃ f', fuel = f' + 1 := ⟨fuel - 1, by omega⟩
          obtain ⟨f'', rfl⟩ : ∃ f'', f' = f'' + 1 := ⟨f' - 1, by omega⟩
          simp only [Frag.wsGS, Bool.and_eq_true] at hws
          obtain ⟨⟨_, hwt⟩, hwc⟩ := hws
          have ihB' := (ihAll (f'' + 1) (by omega)).2.2
          have ihSs' := (ihAll f'' (by omega)).2.1
          -- the body is compiled one `try` deeper; its code does not depend on the loop stack
          obtain ⟨env1, henv1⟩ : ∃ e : CEnv, e = { env with lm := (freshLabel cs.currModule
            (freshLabel cs.currModule env.lm "exception_label").2 "after_catch_label").2 } := ⟨_, rfl⟩
          rw [← henv1] at hwt hwc
          have hirr := cgBS_loops_irrel cs.currModule cs.currFn (φOf cs) false (loopsOf L) tb env1 htb
          have hwt' : Frag.wsGBS cs.currModule cs.currFn (φOf cs) (loopsOf L) tb env1 = true := by
            rw [hirr.2]; exact hwt
          have hT : ∀ c1, (compileBlock (f'' + 1) tb true).run (updS { cs with tryDepth := cs.tryDepth + 1 } L c1 env1) =
              ((), updS { cs with tryDepth := cs.tryDepth + 1 } L
                (c1 ++ (cgBS cs.currModule cs.currFn (φOf cs) (loopsOf L) tb env1).1)
                (cgBS cs.currModule cs.currFn (φOf cs) (loopsOf L) tb env1).2) :=
            fun c1 => ihB' tb { cs with tryDepth := cs.tryDepth + 1 } L false false (by intro h; cases h)
              (by intro h; cases h) htb (by omega) c1 env1 hwt'
          rw [hirr.1] at hT
          generalize hCt : cgBS cs.currModule cs.currFn (φOf cs) [] tb env1 = ct at hwc hT
          have hC := ihSs' cstmts cs L il rt hrt hil hcb (by omega)
          rw [compileStmt, cgS]
          rw [← henv1, hCt]
          refine bind_run _ _ _ (updS cs L (c0 ++ _) _) () _ ?_ (by simp [Expr.ty, htty]; rfl)
          rw [compileExpr]
          refine bind_run _ _ _ _ (updS cs L c0 env) _ rfl ?_
          refine bind_run _ _ _ _ _ _ (getMangledFn_run_S _ _ _ _ _) ?_
          refine bind_run _ _ _ _ _ _ (mangleLabel_run_S _ _ _ _ _) ?_
          refine bind_run _ _ _ _ _ _ (mangleLabel_run_S _ _ _ _ _) ?_
          refine bind_run _ _ _ _ _ _ (emit_run_S _ _ _ _ _ _) ?_
          refine bind_run _ _ _ (updS { cs with tryDepth := cs.tryDepth + 1 } L _ env1) () _ (by rw [henv1]; rfl) ?_
          refine bind_run _ _ _ _ _ _ (hT _) ?_
          refine bind_run _ _ _ (updS cs L (c0 ++ [(.setTry ((φOf cs cs.currFn).getD "")
              (freshLabel cs.currModule env.lm "exception_label").1, tsp)] ++ ct.1) ct.2) () _ ?_ ?_
          · show ((), _) = ((), _)
            congr 1
          refine bind_run _ _ _ _ _ _ (emit_run_S _ _ _ _ _ _) ?_
          refine bind_run _ _ _ _ _ _ (emit_run_S _ _ _ _ _ _) ?_
          refine bind_run _ _ _ _ _ _ (emit_run_S _ _ _ _ _ _) ?_
          refine bind_run _ _ _ (updS cs L _ { ct.2 with scopes := [] :: ct.2.scopes }) () _ rfl ?_
          refine bind_run _ _ _ _ _ _ (mangleVar_run_S _ _ _ _ _) ?_
          refine bind_run _ _ _ _ _ _ (emit_run_S _ _ _ _ _ _) ?_
          refine bind_run _ _ _ _ _ _ (emit_run_S _ _ _ _ _ _) ?_
          have hCB : ∀ c1 envx, Frag.wsGSs cs.currModule cs.currFn (φOf cs) (loopsOf L) cstmts envx = true →
              (compileBlock (f'' + 1) (.mk cbsp cbty cstmts none) false).run (updS cs L c1 envx) =
              ((), updS cs L (c1 ++ (cgSs cs.currModule cs.currFn (φOf cs) (loopsOf L) cstmts envx).1)
                (cgSs cs.currModule cs.currFn (φOf cs) (loopsOf L) cstmts envx).2) := by
            intro c1 envx hw
            rw [compileBlock]
            simp only [Bool.false_eq_true, if_false]
            refine bind_run _ _ _ _ _ _ (hC c1 envx hw) ?_
            rfl
          refine bind_run _ _ _ _ _ _ (hCB _ _ hwc) ?_
          refine bind_run _ _ _ _ _ _ (emit_run_S _ _ _ _ _ _) ?_
          show ((), _) = ((), _)
          congr 1
          simp only [List.append_assoc, List.cons_append, List.nil_append]
          rfl
        · -- `match c { … }` as a statement
          simp only [Frag.cdS, Frag.cdX] at hd
          obtain ⟨f', rfl⟩ : ∃ f', fuel = f' + 1 := ⟨fuel - 1, by have := cdE_pos mc; omega⟩
          simp only [Frag.wsGS, Bool.and_eq_true] at hws
          obtain ⟨⟨hvc, hwa⟩, hwd⟩ := hws
          have hbodies : ∀ (after : String) (arms : List (List Expr × Expr)) (nms : List String) (fl : Nat),
              arms.length = nms.length → Frag.okFArmsS fr il rt arms = true →
              Frag.cdArmsS arms + arms.length + 1 ≤ fl → fl ≤ f' →
              ∀ (c1 : SCode) (env' : CEnv), Frag.wsGArmsS cs.currModule cs.currFn (φOf cs) (loopsOf L) arms env' = true →
              (compileArmBodies fl msp after (arms.zip nms)).run (updS cs L c1 env') =
                ((), updS cs L (c1 ++ (cgArmsS cs.currModule cs.currFn (φOf cs) (loopsOf L) msp after arms nms env').1)
                  (cgArmsS cs.currModule cs.currFn (φOf cs) (loopsOf L) msp after arms nms env').2) := by
            intro after arms
            induction arms with
            | nil =>
              intro nms fl hlen _ hfl _ c1 env' _
              obtain ⟨g, rfl⟩ : ∃ g, fl = g + 1 := ⟨fl - 1, by omega⟩
              cases nms with
              | cons _ _ => simp at hlen
              | nil =>
                rw [List.zip_nil_left, compileArmBodies]
                simp [cgArmsS]
                rfl
            | cons a rest iha =>
              intro nms fl hlen hoka hfl hle c1 env' hwsa
              obtain ⟨lits, act⟩ := a
              cases act <;> try (simp [Frag.okFArmsS] at hoka; done)
              rename_i b
              cases nms with
              | nil => simp at hlen
              | cons nm nms =>
                simp only [Frag.okFArmsS, Bool.and_eq_true] at hoka
                simp only [Frag.cdArmsS, List.length_cons] at hfl hlen
                simp only [Frag.wsGArmsS, Bool.and_eq_true] at hwsa
                obtain ⟨g, rfl⟩ : ∃ g, fl = g + 2 := ⟨fl - 2, by omega⟩
                rw [List.zip_cons_cons, compileArmBodies]
                refine bind_run _ _ _ _ _ _ (emit_run_S _ _ _ _ _ _) ?_
                refine bind_run _ _ _ _ _ _ (emit_run_S _ _ _ _ _ _) ?_
                have hB := (ihAll g (by omega)).2.2 b cs L il rt hrt hil hoka.1.2 (by omega)
                  (c1 ++ [(.label nm, msp)] ++ [(.drop, msp)]) env' hwsa.1
                refine bind_run _ _ _ _ _ _ (by rw [compileExpr]; exact hB) ?_
                refine bind_run _ _ _ _ _ _ (emit_run_S _ _ _ _ _ _) ?_
                rw [iha nms (g + 1) (by omega) hoka.2 (by omega) (by omega) _ _ hwsa.2]
                simp only [cgArmsS, List.append_assoc, List.cons_append, List.nil_append]
          obtain ⟨g', rfl⟩ : ∃ g', f' = g' + 1 := ⟨f' - 1, by omega⟩
          have ihB' := (ihAll g' (by omega)).2.2
          rw [compileStmt, cgS]
          refine bind_run _ _ _ (updS cs L (c0 ++ _) _) () _ ?_ (by simp [Expr.ty, hmty]; rfl)
          rw [compileExpr]
          refine bind_run _ _ _ _ _ _ (hGE (g' + 1) (by omega) mc cs hmc (by omega) L c0 env hvc) ?_
          refine bind_run _ _ _ _ _ _ (mangleLabel_run_S _ _ _ _ _) ?_
          refine bind_run _ _ _ _ _ _ (compileArmTests_run cs msp arms (g' + 1) (okGArmsS_lits fr il rt arms hmarms)
            (by omega) _ _ _) ?_
          refine bind_run _ _ _ _ _ _ (mangleLabel_run_S _ _ _ _ _) ?_
          simp only [Option.isSome_some, if_true]
          refine bind_run _ _ _ _ _ _ (emit_run_S _ _ _ _ _ _) ?_
          refine bind_run _ _ _ _ _ _ (hbodies _ arms _ (g' + 1) (armTests_length _ _ _ _).symm hmarms (by omega)
            (Nat.le_refl _) _ _ hwa) ?_
          refine bind_run _ _ _ _ _ _ (emit_run_S _ _ _ _ _ _) ?_
          refine bind_run _ _ _ _ _ _ (emit_run_S _ _ _ _ _ _) ?_
          refine bind_run _ _ _ _ _ _ (by rw [compileExpr]; exact ihB' db cs L il rt hrt hil hmdb (by omega) _ _ hwd) ?_
          refine bind_run _ _ _ _ _ _ (emit_run_S _ _ _ _ _ _) ?_
          rw [emit_run_S]
          simp only [List.append_assoc, List.cons_append, List.nil_append]
      case whileS sp c body =>
        simp only [Frag.okFS, Bool.and_eq_true] at hs
        obtain ⟨hc, hb⟩ := hs
        simp only [Frag.cdS] at hd
        simp only [Frag.wsGS, Bool.and_eq_true] at hws
        obtain ⟨hvc, hwb⟩ := hws
        rw [compileStmt, cgS]
        refine bind_run _ _ _ _ _ _ (mangleLabel_run_S _ _ _ _ _) ?_
        refine bind_run _ _ _ _ _ _ (mangleLabel_run_S _ _ _ _ _) ?_
        refine bind_run _ _ _ _ _ _ (emit_run_S _ _ _ _ _ _) ?_
        refine bind_run _ _ _ _ _ _ ((compile_gexpr fr fuel).1 c cs hc (by omega) L _ _ hvc) ?_
        refine bind_run _ _ _ _ _ _ (emit_run_S _ _ _ _ _ _) ?_
        refine bind_run _ _ _ (updS cs (_ :: L) _ _) _ _ rfl ?_
        refine bind_run _ _ _ _ _ _ (ihB body cs (_ :: L) true rt hrt (fun _ => ⟨_, _, _, rfl⟩) hb (by omega) _ _ hwb) ?_
        refine bind_run _ _ _ _ _ _ (emit_run_S _ _ _ _ _ _) ?_
        refine bind_run _ _ _ _ _ _ (emit_run_S _ _ _ _ _ _) ?_
        simp only [List.append_assoc, List.cons_append, List.nil_append]
        rfl
      case loopS sp body =>
        simp only [Frag.okFS] at hs
        simp only [Frag.cdS] at hd
        simp only [Frag.wsGS] at hws
        rw [compileStmt, cgS]
        refine bind_run _ _ _ _ _ _ (mangleLabel_run_S _ _ _ _ _) ?_
        refine bind_run _ _ _ _ _ _ (mangleLabel_run_S _ _ _ _ _) ?_
        refine bind_run _ _ _ _ _ _ (emit_run_S _ _ _ _ _ _) ?_
        refine bind_run _ _ _ (updS cs (_ :: L) _ _) _ _ rfl ?_
        refine bind_run _ _ _ _ _ _ (ihB body cs (_ :: L) true rt hrt (fun _ => ⟨_, _, _, rfl⟩) hs (by omega) _ _ hws) ?_
        refine bind_run _ _ _ _ _ _ (emit_run_S _ _ _ _ _ _) ?_
        refine bind_run _ _ _ _ _ _ (emit_run_S _ _ _ _ _ _) ?_
        simp only [List.append_assoc, List.cons_append, List.nil_append]
        rfl
      case brk sp =>
        simp only [Frag.okFS] at hs
        cases L with
        | nil => subst hs; obtain ⟨_, _, _, h⟩ := hil rfl; cases h
        | cons t L' =>
          obtain ⟨b, c, td⟩ := t
          have htd : td = cs.tryDepth := by
            subst hs; obtain ⟨_, _, _, h⟩ := hil rfl; cases h; rfl
          have hl : loopsOf ((b, c, td) :: L') = (b, c) :: loopsOf L' := rfl
          rw [hl, compileStmt, cgS]
          refine bind_run _ _ _ _ (updS cs ((b, c, td) :: L') c0 env) _ rfl ?_
          show (do popTries sp (cs.tryDepth - td); Comp.emit (.jump b) sp : C Unit).run _ = _
          rw [htd, Nat.sub_self]
          refine bind_run _ _ _ _ () _ rfl ?_
          rw [emit_run_S]
      case cont sp =>
        simp only [Frag.okFS] at hs
        cases L with
        | nil => subst hs; obtain ⟨_, _, _, h⟩ := hil rfl; cases h
        | cons t L' =>
          obtain ⟨b, c, td⟩ := t
          have htd : td = cs.tryDepth := by
            subst hs; obtain ⟨_, _, _, h⟩ := hil rfl; cases h; rfl
          have hl : loopsOf ((b, c, td) :: L') = (b, c) :: loopsOf L' := rfl
          rw [hl, compileStmt, cgS]
          refine bind_run _ _ _ _ (updS cs ((b, c, td) :: L') c0 env) _ rfl ?_
          show (do popTries sp (cs.tryDepth - td); Comp.emit (.jump c) sp : C Unit).run _ = _
          rw [htd, Nat.sub_self]
          refine bind_run _ _ _ _ () _ rfl ?_
          rw [emit_run_S]
      case ret sp oe =>
        cases oe with
        | none => simp [Frag.okFS] at hs
        | some e =>
          simp only [Frag.okFS, Bool.and_eq_true] at hs
          obtain ⟨hrt', hs⟩ := hs
          have htd := hrt hrt'
          simp only [Frag.cdS] at hd
          simp only [Frag.wsGS, Bool.and_eq_true] at hws
          rw [compileStmt, cgS]
          refine bind_run _ _ _ _ _ _ ((compile_gexpr fr fuel).1 e cs hs (by omega) L c0 env hws.1) ?_
          refine bind_run _ _ _ _ (updS cs L _ _) _ rfl ?_
          show (do popTries sp cs.tryDepth; Comp.emit (.jump (← cleanupLabel)) sp : C Unit).run _ = _
          rw [htd]
          refine bind_run _ _ _ _ () _ rfl ?_
          refine bind_run _ _ _ _ _ _ (cleanupLabel_run_S _ _ _ _) ?_
          rw [emit_run_S]
          simp only [List.append_assoc]
    · intro ss cs L il rt hrt hil hs hd c0 env hws
      cases ss with
      | nil => rw [compileStmts, cgSs, List.append_nil]; rfl
      | cons st ss =>
        simp only [Frag.okFSs, Bool.and_eq_true] at hs
        simp only [Frag.cdSs] at hd
        simp only [Frag.wsGSs, Bool.and_eq_true] at hws
        rw [compileStmts, cgSs]
        refine bind_run _ _ _ _ _ _ (ihS st cs L il rt hrt hil hs.1 (by omega) c0 env hws.1) ?_
        rw [ihSs ss cs L il rt hrt hil hs.2 (by omega) _ _ hws.2, List.append_assoc]
    · intro b cs L il rt hrt hil hs hd c0 env hws
      obtain ⟨bsp, bty, stmts, oe⟩ := b
      cases oe with
      | some _ => simp [Frag.okFBS] at hs
      | none =>
        simp only [Frag.okFBS] at hs
        simp only [Frag.cdBS] at hd
        simp only [Frag.wsGBS] at hws
        rw [compileBlock, cgBS]
        simp only [if_true]
        refine bind_run _ _ _ (updS cs L c0 { env with scopes := [] :: env.scopes }) _ _ rfl ?_
        refine bind_run _ _ _ _ _ _ (ihSs stmts cs L il rt hrt hil hs (by omega) c0 _ hws) ?_
        rfl

end HmsProofs.Sim
