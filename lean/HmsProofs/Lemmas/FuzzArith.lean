import Hms.Fuzz.Rules
/-!
# Value-level facts behind the fuzzer's rewrite rules (64-bit wrap-around integers, booleans)
-/
namespace HmsProofs.Lemmas.Fuzz
open Hms Hms.Core

theorem lit_add_sub (n k : I64) : (n + k) - k = n := by bv_omega
theorem lit_sub_add (n k : I64) : (n - k) + k = n := by bv_omega
theorem add_comm (a b : I64) : a + b = b + a := by bv_omega
theorem mul_comm (a b : I64) : a * b = b * a := BitVec.mul_comm a b
theorem sub_as_add_neg (a b : I64) : a - b = a + (-b) := by bv_omega
theorem add_as_sub_neg (a b : I64) : a + b = a - (-b) := by bv_omega

/-- `(n * k) / k = n` (signed division) when nothing overflows: `n ≥ 0` and `k > 0` as signed
numbers and `n * k < 2^63`. -/
theorem lit_mul_div (n k : I64) (hk : 0 < k.toNat) (hk' : k.toNat < 2 ^ 63)
    (h : n.toNat * k.toNat < 2 ^ 63) : (n * k).sdiv k = n := by
  have hprod : (n * k).toNat = n.toNat * k.toNat := by
    rw [BitVec.toNat_mul]
    exact Nat.mod_eq_of_lt (by omega)
  have m1 : (n * k).msb = false := by
    rw [BitVec.msb_eq_decide]
    simp only [decide_eq_false_iff_not, Nat.not_le]
    rw [hprod]; simpa using h
  have m2 : k.msb = false := by
    rw [BitVec.msb_eq_decide]
    simp only [decide_eq_false_iff_not, Nat.not_le]
    simpa using hk'
  rw [BitVec.sdiv_eq, m1, m2]
  simp only [BitVec.udiv_eq]
  apply BitVec.eq_of_toNat_eq
  rw [BitVec.toNat_udiv, hprod]
  exact Nat.mul_div_cancel _ hk

/-- The rule is wrong at the overflow boundary (why the class demands literals far from it):
`(2^62 * 4) / 4 = 0`. -/
theorem lit_mul_div_overflow_counterexample :
    ((4611686018427387904 : I64) * 4).sdiv 4 ≠ 4611686018427387904 := by decide

/-- The loop the fuzzer unrolls a product into: `res`/`count` are `mul_res`/`mul_count`, one round
of `while mul_count < b { mul_res += a; mul_count += 1; }` per unit of fuel. -/
def mulLoop (a b : I64) : Nat → I64 → I64 → I64
  | 0, res, _ => res
  | fuel + 1, res, count => if count.slt b then mulLoop a b fuel (res + a) (count + 1) else res

theorem slt_iff_of_nonneg (c b : I64) (hc : c.toNat < 2 ^ 63) (hb : b.toNat < 2 ^ 63) :
    c.slt b = true ↔ c.toNat < b.toNat := by
  simp only [BitVec.slt, decide_eq_true_eq]
  rw [BitVec.toInt_eq_toNat_of_lt (by omega), BitVec.toInt_eq_toNat_of_lt (by omega)]
  omega

theorem mulLoop_inv (a b : I64) (hb : b.toNat < 2 ^ 63) : ∀ (fuel : Nat) (c : I64),
    c.toNat ≤ b.toNat → b.toNat - c.toNat ≤ fuel → mulLoop a b fuel (a * c) c = a * b := by
  intro fuel
  induction fuel with
  | zero =>
    intro c hc hf
    have : c = b := BitVec.eq_of_toNat_eq (by omega)
    simp [mulLoop, this]
  | succ fuel ih =>
    intro c hc hf
    simp only [mulLoop]
    by_cases hlt : c.slt b = true
    · simp only [hlt, if_true]
      have hlt' : c.toNat < b.toNat := (slt_iff_of_nonneg c b (by omega) hb).mp hlt
      have hc1 : (c + 1).toNat = c.toNat + 1 := by bv_omega
      have hmul : a * c + a = a * (c + 1) := by
        rw [BitVec.mul_add]; simp
      rw [hmul]
      exact ih (c + 1) (by omega) (by omega)
    · simp only [hlt, Bool.false_eq_true, if_false]
      have hge : ¬ c.toNat < b.toNat := fun h => hlt ((slt_iff_of_nonneg c b (by omega) hb).mpr h)
      have : c = b := BitVec.eq_of_toNat_eq (by omega)
      rw [this]

/-- For a non-negative multiplier (`b.toNat < 2^63`: the sign bit is clear) the loop computes the
product, wrap-around included, as soon as it is given `b` rounds. -/
theorem mul_as_loop (a b : I64) (hb : b.toNat < 2 ^ 63) (fuel : Nat) (hf : b.toNat ≤ fuel) :
    mulLoop a b fuel 0 0 = a * b := by
  have := mulLoop_inv a b hb fuel 0 (by simp) (by simpa using hf)
  simpa using this

/-- For a negative multiplier it does not run at all: the variant computes 0 (finding R17:
`(0 - 3) * 2` after the operands were swapped in an earlier pass). -/
theorem mul_as_loop_negative_counterexample :
    (∀ fuel, mulLoop 2 (-3) fuel 0 0 = 0) ∧ (2 : I64) * (-3) ≠ 0 := by
  refine ⟨?_, by decide⟩
  intro fuel
  cases fuel with
  | zero => rfl
  | succ f =>
    have : (0 : I64).slt (-3) = false := by decide
    simp [mulLoop, this]

theorem not_not (b : Bool) : (!(!b)) = b := by cases b <;> rfl

/-- Swapped comparisons agree on every pair of values (same result, same error). -/
theorem cmp_swap_lt (a b : Val) (sp : Span) : binOp .lt a b sp = binOp .gt b a sp := by
  cases a <;> cases b <;> rfl
theorem cmp_swap_gt (a b : Val) (sp : Span) : binOp .gt a b sp = binOp .lt b a sp := by
  cases a <;> cases b <;> rfl
theorem cmp_swap_le (a b : Val) (sp : Span) : binOp .le a b sp = binOp .ge b a sp := by
  cases a <;> cases b <;> rfl
theorem cmp_swap_ge (a b : Val) (sp : Span) : binOp .ge a b sp = binOp .le b a sp := by
  cases a <;> cases b <;> rfl

/-- Integer addition and multiplication commute as operators of the language. -/
theorem binOp_add_comm_int (x y : I64) (sp : Span) : binOp .add (.int x) (.int y) sp = binOp .add (.int y) (.int x) sp := by
  simp only [binOp, intOp]; rw [add_comm x y]
theorem binOp_mul_comm_int (x y : I64) (sp : Span) : binOp .mul (.int x) (.int y) sp = binOp .mul (.int y) (.int x) sp := by
  simp only [binOp, intOp]; rw [mul_comm x y]

/-- `a - b` and `a + (-b)` as operators of the language, on integers. -/
theorem binOp_sub_as_add_neg (x y : I64) (sp : Span) :
    binOp .sub (.int x) (.int y) sp = binOp .add (.int x) (.int (-y)) sp := by
  simp only [binOp, intOp]; rw [sub_as_add_neg x y]
theorem binOp_add_as_sub_neg (x y : I64) (sp : Span) :
    binOp .add (.int x) (.int y) sp = binOp .sub (.int x) (.int (-y)) sp := by
  simp only [binOp, intOp]; rw [add_as_sub_neg x y]

end HmsProofs.Lemmas.Fuzz
