import Hms.Core.Sem
/-!
# C11 — break, continue, return and throw leave exactly what the source says

Theorems about the specification semantics `Hms.Core` (unconditional, any nesting, any call
depth: they are stated for arbitrary bodies and states). The VM side is tied to this
semantics by the correspondence runs of C01/C11 and by HmsProofs.C01VM.
-/
namespace HmsProofs.C11
open Hms.Core

/-! ## break / continue act on the innermost enclosing loop -/

/-- `break` in the body ends *this* loop normally; nothing of an enclosing loop is touched
(the enclosing loop just sees its body statement complete). -/
theorem break_ends_innermost_loop (cfg : Cfg) (fuel : Nat) (body : Block) (s s' : St)
    (h : (inScope (evalBlock cfg fuel body)) s = (.error .brk, s')) :
    loopRun cfg (fuel + 1) none body s = (.ok (), s') := by
  simp [loopRun, bind, ExceptT.bind, ExceptT.mk, ExceptT.bindCont, StateT.bind, pure, ExceptT.pure, StateT.pure, h]

/-- `continue` abandons the rest of the body and starts the next round of *this* loop. -/
theorem continue_starts_next_round (cfg : Cfg) (fuel : Nat) (body : Block) (s s' : St)
    (h : (inScope (evalBlock cfg fuel body)) s = (.error .cont, s')) :
    loopRun cfg (fuel + 1) none body s = loopRun cfg fuel none body s' := by
  simp [loopRun, bind, ExceptT.bind, ExceptT.mk, ExceptT.bindCont, StateT.bind, pure, ExceptT.pure, StateT.pure, h]

/-- The same for `while`: after `continue` the condition is evaluated again. -/
theorem while_break (cfg : Cfg) (fuel : Nat) (c : Expr) (body : Block) (s s₁ s' : St)
    (hc : evalExpr cfg fuel c s = (.ok (.bool true), s₁))
    (h : (inScope (evalBlock cfg fuel body)) s₁ = (.error .brk, s')) :
    loopRun cfg (fuel + 1) (some c) body s = (.ok (), s') := by
  simp [loopRun, bind, ExceptT.bind, ExceptT.mk, ExceptT.bindCont, StateT.bind, pure, ExceptT.pure, StateT.pure, hc, h]

theorem while_continue (cfg : Cfg) (fuel : Nat) (c : Expr) (body : Block) (s s₁ s' : St)
    (hc : evalExpr cfg fuel c s = (.ok (.bool true), s₁))
    (h : (inScope (evalBlock cfg fuel body)) s₁ = (.error .cont, s')) :
    loopRun cfg (fuel + 1) (some c) body s = loopRun cfg fuel (some c) body s' := by
  simp [loopRun, bind, ExceptT.bind, ExceptT.mk, ExceptT.bindCont, StateT.bind, pure, ExceptT.pure, StateT.pure, hc, h]

/-- `for`: `break` ends the loop, `continue` goes on with the next element of the snapshot. -/
theorem for_break (cfg : Cfg) (fuel : Nat) (name : String) (x : Val) (xs : List Val) (body : Block)
    (s s' : St)
    (h : (inScope (do declare name x; evalBlock cfg fuel body)) s = (.error .brk, s')) :
    forRun cfg (fuel + 1) name (x :: xs) body s = (.ok (), s') := by
  simp only [forRun]; rw [h]

theorem for_continue (cfg : Cfg) (fuel : Nat) (name : String) (x : Val) (xs : List Val) (body : Block)
    (s s' : St)
    (h : (inScope (do declare name x; evalBlock cfg fuel body)) s = (.error .cont, s')) :
    forRun cfg (fuel + 1) name (x :: xs) body s = forRun cfg fuel name xs body s' := by
  simp only [forRun]; rw [h]

/-- Any other exit (`return`, a thrown exception, a fatal error) passes through a loop
unchanged: loops only intercept `break` and `continue`. -/
theorem loop_passes_other_exits (cfg : Cfg) (fuel : Nat) (body : Block) (s s' : St) (c : Ctl)
    (hb : c ≠ .brk) (hc : c ≠ .cont)
    (h : (inScope (evalBlock cfg fuel body)) s = (.error c, s')) :
    loopRun cfg (fuel + 1) none body s = (.error c, s') := by
  cases c <;> simp_all [loopRun, bind, ExceptT.bind, ExceptT.mk, ExceptT.bindCont, StateT.bind, pure, ExceptT.pure, StateT.pure]

/-! ## Code after an exit point is skipped, effects before it persist -/

/-- If a statement exits (in any way), the following statements of the block are not executed:
the block ends with the same exit and with the state the statement left (its side effects). -/
theorem after_exit_skipped (cfg : Cfg) (fuel : Nat) (st : Stmt) (rest : List Stmt) (s s' : St) (c : Ctl)
    (h : evalStmt cfg fuel st s = (.error c, s')) :
    evalStmts cfg (fuel + 1) (st :: rest) s = (.error c, s') := by
  simp [evalStmts, bind, ExceptT.bind, ExceptT.mk, ExceptT.bindCont, StateT.bind, h, pure, ExceptT.pure, StateT.pure]

/-! ## return leaves the current function with its value -/

/-- `return v` anywhere in the body (at any nesting of blocks, loops, `if`, `match`) makes the
call yield `v`; the caller's scopes, module and depth are restored. -/
theorem return_leaves_function (cfg : Cfg) (fuel : Nat) (sp : Span) (m : String) (params : List Param)
    (stmts : List Stmt) (e : Option Expr) (bsp : Span) (bty : Ty) (vals : List Val) (s s₁ : St) (v : Val)
    (hd : ¬ s.depth > cfg.callLimit)
    (hp : ∀ p ∈ params, p.isSingleton = false) (hl : params.length = vals.length)
    (h : evalBlock cfg fuel (.mk ⟨0,0,0,0⟩ .null stmts e)
          { s with scopes := [((params.map (·.name)).zip vals).reverse], module := m, depth := s.depth + 1 }
          = (.error (.ret v), s₁)) :
    callBody cfg (fuel + 1) sp m params (.mk bsp bty stmts e) vals s
      = (.ok v, { s₁ with scopes := s.scopes, module := s.module, depth := s.depth }) := by
  have hf : params.filter (fun p => !p.isSingleton) = params := by
    apply List.filter_eq_self.mpr; intro p hp'; simp [hp p hp']
  have hg : params.filter (fun p => p.isSingleton) = [] := by
    apply List.filter_eq_nil_iff.mpr; intro p hp'; simp [hp p hp']
  simp [callBody, hd, hf, hg, hl, h]

/-- A thrown exception is not stopped by a function boundary: it leaves the callee (at any call
depth, by repetition) until a `try` catches it; the caller's scopes are restored on the way. -/
theorem throw_leaves_function (cfg : Cfg) (fuel : Nat) (sp : Span) (m : String) (params : List Param)
    (stmts : List Stmt) (e : Option Expr) (bsp : Span) (bty : Ty) (vals : List Val) (s s₁ : St)
    (msg : String) (tsp : Span)
    (hd : ¬ s.depth > cfg.callLimit)
    (hp : ∀ p ∈ params, p.isSingleton = false) (hl : params.length = vals.length)
    (h : evalBlock cfg fuel (.mk ⟨0,0,0,0⟩ .null stmts e)
          { s with scopes := [((params.map (·.name)).zip vals).reverse], module := m, depth := s.depth + 1 }
          = (.error (.throw msg tsp), s₁)) :
    callBody cfg (fuel + 1) sp m params (.mk bsp bty stmts e) vals s
      = (.error (.throw msg tsp), { s₁ with scopes := s.scopes, module := s.module, depth := s.depth }) := by
  have hf : params.filter (fun p => !p.isSingleton) = params := by
    apply List.filter_eq_self.mpr; intro p hp'; simp [hp p hp']
  have hg : params.filter (fun p => p.isSingleton) = [] := by
    apply List.filter_eq_nil_iff.mpr; intro p hp'; simp [hp p hp']
  simp [callBody, hd, hf, hg, hl, h]

/-! ## throw reaches the nearest dynamically enclosing catch; fatal errors are not catchable -/

/-- If the `try` body throws, the catch block runs in the state the body left (side effects
persist, the scopes of the body are gone), with the error object bound to the catch identifier;
the value of the `try` expression is the value of the catch block. -/
theorem throw_reaches_nearest_handler (cfg : Cfg) (fuel : Nat) (sp : Span) (ty : Ty) (t c : Block)
    (ident : String) (s s' : St) (msg : String) (tsp : Span)
    (h : (inScope (evalBlock cfg fuel t)) s = (.error (.throw msg tsp), s')) :
    evalExpr cfg (fuel + 1) (.tryE sp ty t ident c) s
      = (inScope (do
          let o ← alloc (.obj [("message", .str msg), ("line", .int (I64.ofInt tsp.sl)),
                               ("column", .int (I64.ofInt tsp.sc)), ("filename", .str s'.module)])
          declare ident o
          evalBlock cfg fuel c)) s' := by
  simp only [evalExpr]; rw [h]

/-- When the body completes, execution resumes behind the `try` with the body's value. -/
theorem try_without_throw (cfg : Cfg) (fuel : Nat) (sp : Span) (ty : Ty) (t c : Block) (ident : String)
    (s s' : St) (v : Val) (h : (inScope (evalBlock cfg fuel t)) s = (.ok v, s')) :
    evalExpr cfg (fuel + 1) (.tryE sp ty t ident c) s = (.ok v, s') := by
  simp only [evalExpr]; rw [h]

/-- Fatal errors (and `break`/`continue`/`return`) are not intercepted by `catch`. -/
theorem fatal_not_catchable (cfg : Cfg) (fuel : Nat) (sp : Span) (ty : Ty) (t c : Block) (ident : String)
    (s s' : St) (k msg : String) (fsp : Span)
    (h : (inScope (evalBlock cfg fuel t)) s = (.error (.fatal k msg fsp), s')) :
    evalExpr cfg (fuel + 1) (.tryE sp ty t ident c) s = (.error (.fatal k msg fsp), s') := by
  simp only [evalExpr]; rw [h]

/-! ## An uncaught exception ends the run as a fatal error with the same message -/

/-- An exception that no handler encloses ends the run as the fatal error `UncaughtThrow`
carrying the thrown message and position, together with everything written before it. -/
theorem uncaught_throw_is_fatal (msg : String) (sp : Span) (s : St) :
    outcomeOf (.error (.throw msg sp), s) = .fatal "UncaughtThrow" msg sp s.out s.trig := rfl

/-- A fatal error is reported with its own kind and message. -/
theorem fatal_is_reported (k msg : String) (sp : Span) (s : St) :
    outcomeOf (.error (.fatal k msg sp), s) = .fatal k msg sp s.out s.trig := rfl

end HmsProofs.C11
