import HmsGen.MapRanges
import Hms.Mod.Order
import HmsProofs.Lemmas.ModPerm
import HmsProofs.Lemmas.ModMangle
import HmsProofs.Lemmas.ModLink
import HmsProofs.Lemmas.ModInit
import HmsProofs.Lemmas.ModInventory
/-!
# C14 — analysis, compilation and execution are deterministic

The model is a function of its input, so determinism of the model is trivial; what the property
is about is the places where the Go code's result could depend on something that is *not* input:
the iteration order of a Go map, or state that survives from an earlier run. Hence:

* `map_ranges_covered`: every `range` over a map in the code (inventory regenerated on every run)
  is classified — unobservable / covered by a permutation lemma / covered only under the
  hypothesis of an open finding (V22, V12) / outside the model;
* one permutation lemma per class (`perm_invariant_*`): the observable result of the modelled
  computation is the same for every order of the entries;
* `mangle_injective_partial`: distinct declarations get distinct storage names (after the fix for
  V26), with the collision of the unfixed scheme as a counterexample;
* `fresh_state`: every package-level variable (inventory regenerated) is a constant table.

Lemmas: `HmsProofs/Lemmas/Mod{Perm,Mangle,Link,Init,Inventory}.lean`. Repetition on the real code:
`props/C14.py`.
-/
namespace HmsProofs.C14
open Hms.Mod

/-! ## The inventories are covered -/

/-- Every `range` over a map-typed expression in non-test code under `homescript/` is classified. -/
theorem map_ranges_covered : HmsGen.mapRanges.all (fun s => (classify s).isSome) = true := by decide

/-- … and the table has no stale duplicates that could hide a site. -/
theorem map_ranges_table_wellformed : (classification.map (·.1)).Nodup := by decide

/-- No state survives a run: every package-level variable is classified, and as a constant table. -/
theorem fresh_state :
    HmsGen.packageVars.all (fun v =>
      match varClassification.lookup (v.1, v.2.1) with
      | some verdict => verdict.isConstant
      | none => false) = true := by decide

/-! ## Module visiting order (`compileProgram`, `getMangledFn`) -/

/-- Full statement: the output of the compiled program does not depend on the orders in which the
compiler visits the modules. FALSE of the current compiler (finding V22). -/
def perm_invariant_compileProgram_full : Prop :=
  ∀ (ms ord₁ ord₂ any₁ any₂ : Modules), namesDistinct ms = true → closed ms = true →
    ord₁.Perm ms → ord₂.Perm ms → any₁.Perm ms → any₂.Perm ms → ∀ fuel,
      runLinked ms ord₁ any₁ fuel = runLinked ms ord₂ any₂ fuel

theorem perm_invariant_compileProgram_partial (ms ord₁ ord₂ any₁ any₂ : Modules) (hd : namesDistinct ms = true)
    (hc : noCrossModuleClash ms = true) (hcl : closed ms = true)
    (h₁ : ord₁.Perm ms) (h₂ : ord₂.Perm ms) (h₃ : any₁.Perm ms) (h₄ : any₂.Perm ms) (fuel : Nat) :
    runLinked ms ord₁ any₁ fuel = runLinked ms ord₂ any₂ fuel :=
  Hms.Mod.perm_invariant_compileProgram_partial ms ord₁ ord₂ any₁ any₂ hd hc hcl h₁ h₂ h₃ h₄ fuel

/-- Finding V22 (open): with a clashing global name the output depends on the visiting order. -/
theorem perm_invariant_compileProgram_counterexample_V22 : ¬ perm_invariant_compileProgram_full := by
  intro h
  obtain ⟨ms, o₁, o₂, hd, hcl, h₁, h₂, hne, _⟩ := link_counterexample_V22_global
  exact hne (h ms o₁ o₂ ms ms hd hcl h₁ h₂ (List.Perm.refl _) (List.Perm.refl _) 100)

/-- The order in which the entry `@init` calls the other modules' `@init` is irrelevant: each is
called exactly once, before `main`, for every order. -/
theorem perm_invariant_initCalls (ms ord : Modules) (entry : String) (hd : namesDistinct ms = true) (ho : ord.Perm ms)
    (he : (findMod ms entry).isSome = true) :
    (∀ m ∈ ms, (startup ord entry).count (.init m.name) = 1) ∧
    (startup ord entry).getLast? = some .main ∧ (startup ord entry).count .main = 1 :=
  init_once_vm ms ord entry hd ho he

/-! ## Function order (`relocateLabels`, `renameVariables`, `Compile`) -/

/-- A loop that rebuilds a map entry by entry (`relocateLabels`, `Compile`, `Clone`, `Fields`,
scope additions, argument binding, JSON): every key ends up with the same value. -/
theorem perm_invariant_relocateLabels {β γ} (f : String → β → γ) {l₁ l₂ : List (String × β)} (h : l₁.Perm l₂)
    (hk : (l₁.map Prod.fst).Nodup) (k : String) : obsMap (rebuild f l₁) k = obsMap (rebuild f l₂) k :=
  perm_invariant_rebuild f h hk k

/-- Full statement for `renameVariables`. FALSE of the current compiler (finding V12). -/
def perm_invariant_renameVariables_full : Prop :=
  ∀ (l₁ l₂ : List (String × List VInstr)), l₁.Perm l₂ → (l₁.map Prod.fst).Nodup → ∀ k,
    obsMap (renameAll [] l₁) k = obsMap (renameAll [] l₂) k

/-- `renameVariables` shares one slot map between all functions; when no variable name occurs in two
functions (no captured variables, injective mangling) every function gets the same slots in every
visiting order. -/
theorem perm_invariant_renameVariables_partial {l₁ l₂ : List (String × List VInstr)} (h : l₁.Perm l₂)
    (hs : noSharedVars l₁ = true) (hk : (l₁.map Prod.fst).Nodup) (k : String) :
    obsMap (renameAll [] l₁) k = obsMap (renameAll [] l₂) k :=
  Hms.Mod.perm_invariant_renameVariables_partial h hs hk k

/-- Finding V12 (open): a variable that occurs in two functions (a captured variable) gets its slot
from whichever function is visited first. -/
theorem perm_invariant_renameVariables_counterexample_V12 : ¬ perm_invariant_renameVariables_full := by
  intro h
  obtain ⟨l₁, l₂, hp, hk, hne⟩ := renameVariables_counterexample_V12
  exact hne (h l₁ l₂ hp hk "g")

/-- `getMangledFn`'s search of the current module: keys are distinct, the hit does not depend on
the order. -/
theorem perm_invariant_ownLookup {β} {l₁ l₂ : List (String × β)} (h : l₁.Perm l₂)
    (hk : (l₁.map Prod.fst).Nodup) (k : String) : l₁.lookup k = l₂.lookup k :=
  lookup_perm_of_nodup_keys h hk k

/-! ## Object fields (`Display`, `keys`, casts after the fix for V35, `IsEqual`) -/

theorem perm_invariant_display {l₁ l₂ : List (String × String)} (h : l₁.Perm l₂)
    (hk : (l₁.map Prod.fst).Nodup) : displayFields l₁ = displayFields l₂ :=
  perm_invariant_displayFields h hk

theorem perm_invariant_sortedKeys {β} {l₁ l₂ : List (String × β)} (h : l₁.Perm l₂)
    (hk : (l₁.map Prod.fst).Nodup) : sortByKey l₁ = sortByKey l₂ :=
  perm_invariant_sortByKey h hk

theorem perm_invariant_isEqual {β} [BEq β] {l₁ l₂ r₁ r₂ : List (String × β)} (hl : l₁.Perm l₂) (hr : r₁.Perm r₂)
    (hk : (r₁.map Prod.fst).Nodup) : fieldsEqual l₁ r₁ = fieldsEqual l₂ r₂ :=
  perm_invariant_fieldsEqual hl hr hk

/-! ## Scope maps → diagnostics as a multiset -/

theorem perm_invariant_scopeWarnings {l₁ l₂ : List (String × ScopeEntry)} (h : l₁.Perm l₂) :
    (dropScopeWarnings l₁).Perm (dropScopeWarnings l₂) :=
  perm_invariant_dropScope h

theorem perm_invariant_diagnostics {α β} (f : α → List β) {l₁ l₂ : List α} (h : l₁.Perm l₂) :
    (l₁.flatMap f).Perm (l₂.flatMap f) :=
  perm_invariant_emit f h

/-! ## Mangling -/

/-- Full statement: distinct (module, name, counter) triples get distinct storage names, for all
strings. Needs the hypothesis that identifiers contain no `.` (the lexer admits letters, digits
and `_`; the compiler adds a `$` prefix) — hence `_partial`. -/
def mangle_injective_full : Prop :=
  ∀ (m₁ m₂ n₁ n₂ : String) (c₁ c₂ : Nat), mangleVarFixed m₁ n₁ c₁ = mangleVarFixed m₂ n₂ c₂ →
    m₁ = m₂ ∧ n₁ = n₂ ∧ c₁ = c₂

theorem mangle_injective_partial {m₁ m₂ n₁ n₂ : String} {c₁ c₂ : Nat}
    (h₁ : '.' ∉ n₁.toList) (h₂ : '.' ∉ n₂.toList) (h : mangleVarFixed m₁ n₁ c₁ = mangleVarFixed m₂ n₂ c₂) :
    m₁ = m₂ ∧ n₁ = n₂ ∧ c₁ = c₂ :=
  mangleVarFixed_injective_partial h₁ h₂ h

theorem mangleFn_injective_partial {m₁ m₂ n₁ n₂ : String}
    (h₁ : '.' ∉ n₁.toList) (h₂ : '.' ∉ n₂.toList) (h : mangleFnFixed m₁ n₁ = mangleFnFixed m₂ n₂) :
    m₁ = m₂ ∧ n₁ = n₂ :=
  mangleFnFixed_injective_partial h₁ h₂ h

/-- Finding V26 (fixed): in the unfixed scheme `a1` + 0 and `a` + 10 get the same storage name. -/
theorem mangle_injective_counterexample_V26 :
    mangleVarUnfixed "m" "a1" 0 = mangleVarUnfixed "m" "a" 10 ∧ ("a1", 0) ≠ (("a", 10) : String × Nat) :=
  mangleVar_collision_counterexample_V26

/-- … and module `a` + function `b_f` collides with module `a_b` + function `f`. -/
theorem mangleFn_injective_counterexample_V26 :
    mangleFnUnfixed "a" "b_f" = mangleFnUnfixed "a_b" "f" ∧ (("a", "b_f") : String × String) ≠ ("a_b", "f") :=
  mangleFn_collision_counterexample

/-- Non-vacuity: identifiers as the lexer produces them satisfy the hypothesis. -/
example : '.' ∉ "a1".toList ∧ '.' ∉ "$iter_x".toList ∧ mangleVarFixed "main" "a1" 0 = "@main.a1.0" ∧
    mangleVarFixed "main" "a" 10 = "@main.a.10" := by decide

end HmsProofs.C14
