import Hms.Check.Typing
import Hms.Check.Template
import HmsProofs.Lemmas.CheckRules
import HmsProofs.Lemmas.CheckTemplate
/-!
# C03 — the analyzer rejects every ill-typed program and accepts every well-typed one

Property theorems only; the proofs are in `HmsProofs/Lemmas/Check*.lean`.

* `Hms.Check.check : PProg → List Diag` is the algorithmic checker (model of the Go analyzer
  after the repairs A1–A7, A9, A10, F1, S1; tied to the real analyzer by `./check.py C03`),
* `Hms.Check.WellTyped` / `ProgOK` / `HasType` / `StmtOK` … is the declarative typing relation
  (the specification, `Hms/Check/Typing.lean`).

`PProg` is the core language: every expression and statement form, functions, function
literals, globals, `main`. Soundness, completeness and the recorded-types theorem are proved
for *all* of `PProg` — no fragment hypothesis. Imports, singletons, `impl` blocks and
`trigger` statements are not part of `PProg`; their rules are covered by the decision-table
theorems `template_decision` and `trigger_decision`.
-/
namespace HmsProofs.C03
open Hms.Check HmsProofs.Lemmas.Check

/-! ## Soundness, completeness, recorded types -/

/-- A program without error-level diagnostic is well-typed. -/
theorem check_sound (p : PProg) (h : (check p).all notError = true) : WellTyped p :=
  ⟨_, sound_prog p ((check_all_notError_iff true p).mp h)⟩

/-- In particular a program without any diagnostic is well-typed. -/
theorem check_sound_nil (p : PProg) (h : check p = []) : WellTyped p :=
  check_sound p (by simp [h])

/-- A well-typed program receives no error-level diagnostic. -/
theorem check_complete (p : PProg) (h : WellTyped p) : (check p).all notError = true := by
  obtain ⟨tys, hd⟩ := h
  exact (check_all_notError_iff true p).mpr (by rw [complete_prog p tys hd])

/-- The types recorded for an accepted program are types the rules assign … -/
theorem check_types (p : PProg) (h : (check p).all notError = true) : ProgOK p (inferTypes p) :=
  sound_prog p ((check_all_notError_iff true p).mp h)

/-- … and the rules assign no others: the typing relation determines the recorded types. -/
theorem check_types_unique (p : PProg) (tys : List Ty) (h : ProgOK p tys) : tys = inferTypes p := by
  simp [inferTypes, complete_prog p tys h]

/-- Rejection is exact: an error-level diagnostic is reported iff the program is not well-typed. -/
theorem rejects_iff_ill_typed (p : PProg) : (check p).any (fun d => d.level == .error) = true ↔ ¬ WellTyped p := by
  constructor
  · intro h hw
    have := check_complete p hw
    rw [List.all_eq_true] at this
    rw [List.any_eq_true] at h
    obtain ⟨d, hd, he⟩ := h
    have := this d hd
    simp [notError] at this he
    exact this he
  · intro h
    cases hh : (check p).any (fun d => d.level == .error) with
    | true => rfl
    | false =>
      exfalso; apply h; apply check_sound
      rw [List.all_eq_true]
      intro d hd
      rw [List.any_eq_false] at hh
      have := hh d hd
      simpa [notError] using this

/-- `TypeCheck` decides exactly structural compatibility: element-, field-, parameter- and
result-wise, `any` accepts everything, `never` / `unknown` fit everywhere, function values only
where they are admitted. -/
theorem typecheck_decides_compatibility (a : Bool) (got exp : Ty) :
    typeCheck a got exp = none ↔ Compatible a got exp := typeCheck_iff exp a got

/-- Expression level: the checker's verdict and attributes coincide with the typing relation. -/
theorem expr_check_iff (Γ : Ctx) (s : Bool) (e : PExpr) (t : Ty) (x c : Bool) (l : List Ty) :
    HasType Γ s e t x c l ↔ checkExpr Γ s e = { errs := [], ty := t, ex := x, cst := c, tys := l } := by
  constructor
  · exact complete_expr e Γ s t x c l
  · intro h
    have := sound_expr e Γ s (by rw [h])
    rw [h] at this
    exact this

/-! ## Rule lemmas: every fault class of the statement yields an error-level diagnostic -/

/-- operand type mismatch -/
theorem operand_mismatch_rejected (Γ : Ctx) (s : Bool) (op : InfixOp) (l r : PExpr) (m : Msg)
    (h : typeCheck true (checkExpr Γ true r).ty (checkExpr Γ true l).ty = some m) :
    ⟨m, .operandMismatch⟩ ∈ (checkExpr Γ s (.infix op l r)).errs := operand_mismatch Γ s op l r m h

/-- operator not admitted for the operand type -/
theorem operator_not_admitted_rejected (Γ : Ctx) (s : Bool) (op : InfixOp) (l r : PExpr)
    (h : infixResult op (checkExpr Γ true l).ty = none) :
    ⟨.infixOperand, .operatorNotAdmitted⟩ ∈ (checkExpr Γ s (.infix op l r)).errs := operator_not_admitted Γ s op l r h

/-- argument type mismatch -/
theorem argument_mismatch_rejected (Γ : Ctx) (ps : List Ty) (rest : Option Ty) (a : PExpr) (as : PExprs) (m : Msg)
    (hk : (checkExpr Γ true a).ty.kind ≠ .null) (h : typeCheck true (checkExpr Γ true a).ty (argParam ps rest) = some m) :
    ⟨m, .argMismatch⟩ ∈ (checkArgs Γ ps rest (.cons a as)).errs := arg_mismatch Γ ps rest a as m hk h

/-- wrong number of arguments -/
theorem arity_mismatch_rejected (Γ : Ctx) (s : Bool) (base : PExpr) (args : PExprs) (ps : List (String × Ty)) (ret : Ty)
    (hc : callee (checkExpr Γ true base).ty = .fn ps ret) (hlen : args.length ≠ ps.length) :
    ⟨.arity, .arity⟩ ∈ (checkExpr Γ s (.call base args)).errs := arity_mismatch Γ s base args ps ret hc hlen

/-- `spawn` of a function value — a local, a parameter, a global, a builtin: whatever name is found
in the variable scopes — instead of a function of the program (repair S1) -/
theorem spawn_of_variable_rejected (Γ : Ctx) (s : Bool) (name : String) (args : PExprs) (t : Ty) (ps : List (String × Ty))
    (ret : Ty) (hl : lookupTy name Γ.vars = some t) (hc : callee t = .fn ps ret) :
    ⟨.spawnNonFunction, .spawnNonFunction⟩ ∈ (checkExpr Γ s (.spawn name args)).errs :=
  spawn_non_function_fn Γ s name args t ps ret hl hc

/-- the same for a variadic builtin (`spawn println(…)`) -/
theorem spawn_of_variadic_variable_rejected (Γ : Ctx) (s : Bool) (name : String) (args : PExprs) (t : Ty) (ps : List Ty)
    (rest ret : Ty) (hl : lookupTy name Γ.vars = some t) (hc : callee t = .var ps rest ret) :
    ⟨.spawnNonFunction, .spawnNonFunction⟩ ∈ (checkExpr Γ s (.spawn name args)).errs :=
  spawn_non_function_var Γ s name args t ps rest ret hl hc

/-- a function value as an argument of a `spawn` -/
theorem spawn_closure_argument_rejected (Γ : Ctx) (ps : List Ty) (rest : Option Ty) (a : PExpr) (as : PExprs)
    (hk : (checkExpr Γ true a).ty.kind = .fn) :
    ⟨.closureAcrossThreads, .closureAcrossThreads⟩ ∈ (checkSpawnArgs Γ ps rest (.cons a as)).errs :=
  spawn_closure_arg Γ ps rest a as hk

/-- `spawn` of something that is not callable -/
theorem spawn_not_callable_rejected (Γ : Ctx) (s : Bool) (name : String) (args : PExprs)
    (hc : callee (wrap true (identRes Γ name)).ty = .bad) :
    ⟨.notCallable, .notCallable⟩ ∈ (checkExpr Γ s (.spawn name args)).errs := spawn_not_callable Γ s name args hc

/-- a `spawn` has no value: its type is `null`, whatever is spawned (repair S1) -/
theorem spawn_type_null (Γ : Ctx) (s : Bool) (name : String) (args : PExprs) :
    (checkExpr Γ s (.spawn name args)).ty = .null := spawn_ty_null Γ s name args

/-- … in particular there is no thread handle to `join` -/
theorem spawn_join_rejected (Γ : Ctx) (s : Bool) (name : String) (args : PExprs) :
    ⟨.unknownMember, .unknownMember⟩ ∈ (checkExpr Γ s (.member (.spawn name args) "join" .dot)).errs :=
  spawn_no_member Γ s name args "join"

/-- `return` of the wrong type -/
theorem return_mismatch_rejected (Γ : Ctx) (e : PExpr) (rt : Ty) (m : Msg) (hr : Γ.ret = some rt)
    (h : typeCheck true (checkExpr Γ true e).ty rt = some m) :
    ⟨m, .returnMismatch⟩ ∈ (checkStmt Γ (.ret e)).errs := return_mismatch Γ e rt m hr h

/-- a function body whose value does not fit the declared return type -/
theorem body_mismatch_rejected (fns globals : List (String × Ty)) (f : PFn) (m : Msg) (hm : f.name ≠ "main")
    (h : typeCheck true
      (checkBlock { vars := paramScope [] (convertParamList f.params).2 ++ globals, fns := fns,
                    ret := some (curRet fns f.name), inLoop := false } f.body).ty (convertType true f.ret).2 = some m) :
    ⟨m, .returnMismatch⟩ ∈ (checkFn fns globals f).1 := body_mismatch fns globals f m hm h

/-- assignment of the wrong type -/
theorem assign_mismatch_rejected (Γ : Ctx) (s : Bool) (op : Option InfixOp) (l r : PExpr) (m : Msg)
    (h : typeCheck false (checkExpr Γ true r).ty (checkExpr Γ true l).ty = some m) :
    ⟨m, .assignMismatch⟩ ∈ (checkExpr Γ s (.assign op l r)).errs := assign_mismatch Γ s op l r m h

/-- compound assignment operator not admitted for the type (e.g. `%=` on floats, repair A7) -/
theorem assign_operator_rejected (Γ : Ctx) (s : Bool) (op : Option InfixOp) (l r : PExpr)
    (hc : typeCheck false (checkExpr Γ true r).ty (checkExpr Γ true l).ty = none)
    (h : assignOk op (checkExpr Γ true l).ty = false) :
    ⟨.assignOperand, .operatorNotAdmitted⟩ ∈ (checkExpr Γ s (.assign op l r)).errs :=
  assign_operator_not_admitted Γ s op l r hc h

/-- condition that is not `bool` (`if`) -/
theorem condition_not_bool_rejected (Γ : Ctx) (s : Bool) (c : PExpr) (t e : PBlock) (m : Msg)
    (h : typeCheck true (checkExpr Γ true c).ty .bool = some m) :
    ⟨m, .conditionNotBool⟩ ∈ (checkExpr Γ s (.ifElse c t e)).errs := condition_not_bool_if Γ s c t e m h

/-- condition that is not `bool` (`while`) -/
theorem while_condition_not_bool_rejected (Γ : Ctx) (c : PExpr) (b : PBlock) (m : Msg)
    (h : typeCheck true (checkExpr Γ true c).ty .bool = some m) :
    ⟨m, .conditionNotBool⟩ ∈ (checkStmt Γ (.whileS c b)).errs := condition_not_bool_while Γ c b m h

/-- branches of different types -/
theorem branch_mismatch_rejected (Γ : Ctx) (s : Bool) (c : PExpr) (t e : PBlock) (m : Msg)
    (h : typeCheck true (checkBlock Γ e).ty (checkBlock Γ t).ty = some m) :
    ⟨m, .branchMismatch⟩ ∈ (checkExpr Γ s (.ifElse c t e)).errs := branch_mismatch Γ s c t e m h

/-- a value-producing `if` without `else` -/
theorem missing_else_rejected (Γ : Ctx) (s : Bool) (c : PExpr) (t : PBlock)
    (h : (typeCheck true (checkBlock Γ t).ty .null).isSome = true) :
    ⟨.missingElse, .branchMismatch⟩ ∈ (checkExpr Γ s (.ifThen c t)).errs := missing_else Γ s c t h

/-- iteration over something that is not a range, string or list -/
theorem not_iterable_rejected (Γ : Ctx) (name : String) (it : PExpr) (b : PBlock)
    (h : iterTy (checkExpr Γ true it).ty = none) :
    ⟨.notIterable, .notIterable⟩ ∈ (checkStmt Γ (.forS name it b)).errs := not_iterable Γ name it b h

/-- unknown identifier -/
theorem unknown_ident_rejected (Γ : Ctx) (s : Bool) (name : String) (h : Γ.lookup name = none) :
    ⟨.unknownIdent, .unknownIdent⟩ ∈ (checkExpr Γ s (.ident name)).errs := unknown_ident Γ s name h

/-- unknown type (in a `let` annotation; `unknown_type_in_cast` for `as`) -/
theorem unknown_type_rejected (Γ : Ctx) (x name : String) (e : PExpr) (h : primTy name = none) :
    ⟨.unknownType, .unknownType⟩ ∈ (checkStmt Γ (.letS x (some (.name name)) e)).errs :=
  unknown_type_in_let Γ x name e h

/-- unknown member -/
theorem unknown_member_rejected (Γ : Ctx) (s : Bool) (b : PExpr) (name : String)
    (hr : memberRule (checkExpr Γ false b).ty name .dot = none) (hk : (checkExpr Γ false b).ty.kind ≠ .any) :
    ⟨.unknownMember, .unknownMember⟩ ∈ (checkExpr Γ s (.member b name .dot)).errs := unknown_member Γ s b name hr hk

/-- `break` outside of a loop -/
theorem break_outside_loop_rejected (Γ : Ctx) (h : Γ.inLoop = false) :
    ⟨.breakOutsideLoop, .breakOutsideLoop⟩ ∈ (checkStmt Γ .brk).errs := break_outside_loop Γ h

/-- `continue` outside of a loop -/
theorem continue_outside_loop_rejected (Γ : Ctx) (h : Γ.inLoop = false) :
    ⟨.continueOutsideLoop, .continueOutsideLoop⟩ ∈ (checkStmt Γ .cont).errs := continue_outside_loop Γ h

/-- A function literal does not inherit the loop it is written in (repair A2): `break` as a
statement of its body is an error of the literal, whatever `Γ.inLoop` is. -/
theorem break_in_closure_rejected (Γ : Ctx) (s : Bool) (params : List (String × PTy)) (ret : PTy) (rest : PStmts) :
    ⟨.breakOutsideLoop, .breakOutsideLoop⟩ ∈ (checkExpr Γ s (.lambda params ret (.mkNoTail (.cons .brk rest)))).errs :=
  closure_body_errors Γ s params ret _ _ (block_mem_stmts _ _ _ (stmts_mem_head _ _ _ _ (break_outside_loop _ rfl)))

/-- duplicate function definition -/
theorem dup_definition_rejected (seen : List String) (f : PFn) (rest : List PFn) (h : seen.contains f.name = true) :
    ⟨.duplicateFunction, .duplicateDefinition⟩ ∈ dupFnErrs seen (f :: rest) := duplicate_function seen f rest h

/-- duplicate global -/
theorem dup_global_rejected (Γ : Ctx) (name : String) (ann : Option PTy) (r : Res) (h : (lookupTy name Γ.vars).isSome = true) :
    ⟨.duplicateGlobal, .duplicateDefinition⟩ ∈ (letRule Γ name ann r true).errs := duplicate_global Γ name ann r h

/-- a function whose name is already taken by a value of the root scope (repair F3): the value
would win over the function wherever the name is used -/
theorem fn_name_taken_rejected (p : PProg) (f : PFn) (hf : f ∈ p.fns) (h : (lookupTy f.name hostScope).isSome = true) :
    ⟨.nameClash, .duplicateDefinition⟩ ∈ (checkProg true p).errs := fn_name_clash_prog p true f hf h

/-- a global whose name is that of a function of the module, in either order of appearance (repair F3) -/
theorem global_named_like_function_rejected (p : PProg) (g : PGlobal) (f : PFn) (hg : g ∈ p.globals) (hf : f ∈ p.fns)
    (h : g.name = f.name) : ¬ WellTyped p := by
  apply prog_not_welltyped
  intro hn
  have hl : (lookupTy g.name (p.fns.map fun f => (f.name, fnSig f))).isSome = true := by
    rw [h]; exact lookupTy_map_isSome p.fns f hf
  have := global_errors_reach_program p true _ (global_name_clash_mem _ p.globals g hg hl hostScope)
  rw [hn] at this
  cases this

/-- duplicate parameter -/
theorem dup_param_rejected (fns globals : List (String × Ty)) (f : PFn) (hm : f.name ≠ "main")
    (h : dupNames [] (convertParamList f.params).2 ≠ 0) :
    ⟨.duplicateParam, .duplicateDefinition⟩ ∈ (checkFn fns globals f).1 := duplicate_param fns globals f hm h

/-- non-constant global initialiser -/
theorem non_constant_global_rejected (Γ : Ctx) (name : String) (ann : Option PTy) (r : Res) (h : r.cst = false) :
    ⟨.nonConstantGlobal, .nonConstantGlobal⟩ ∈ (letRule Γ name ann r true).errs := non_constant_global Γ name ann r h

/-- a range literal is only as constant as its bounds (repair A6) -/
theorem range_constant_iff_bounds (Γ : Ctx) (a b : PExpr) (incl : Bool) :
    (checkExpr Γ true (.range a b incl)).cst = ((checkExpr Γ true a).cst && (checkExpr Γ true b).cst) :=
  range_constant Γ a b incl (by decide)

/-- implicit `any` -/
theorem implicit_any_rejected (s : Bool) (r : Res) (h : anyOK s r.ty = false) :
    ⟨.implicitAny, .implicitAny⟩ ∈ (wrap s r).errs := implicit_any s r h

/-- implicit `any` in a `let` without annotation -/
theorem implicit_any_let_rejected (Γ : Ctx) (name : String) (r : Res) (g : Bool) (h : r.ty.hasAny = true) :
    ⟨.implicitAny, .implicitAny⟩ ∈ (letRule Γ name none r g).errs := implicit_any_let Γ name r g h

/-- missing `main` when the host requires one -/
theorem main_missing_rejected (p : PProg) (h : (p.fns.any fun f => f.name == "main") = false) :
    ⟨.mainMissing, .mainShape⟩ ∈ (checkProg true p).errs := main_missing p h

/-- ill-formed `main`: parameters -/
theorem main_shape_rejected (fns globals : List (String × Ty)) (f : PFn) (hm : f.name = "main") (h : f.params ≠ []) :
    ⟨.mainParams, .mainShape⟩ ∈ (checkFn fns globals f).1 := main_params fns globals f hm h

/-- ill-formed `main`: return type -/
theorem main_return_rejected (fns globals : List (String × Ty)) (f : PFn) (hm : f.name = "main")
    (h1 : (convertType true f.ret).2.kind ≠ .unknown) (h2 : (convertType true f.ret).2.kind ≠ .null) :
    ⟨.mainReturn, .mainShape⟩ ∈ (checkFn fns globals f).1 := main_return fns globals f hm h1 h2

/-- An error found in a function reaches the diagnostics of the program. -/
theorem function_error_rejects_program (p : PProg) (f : PFn) (e : Err) (hf : f ∈ p.fns)
    (h : e ∈ (checkFn (p.fns.map fun f => (f.name, fnSig f))
      (checkGlobals (p.fns.map fun f => (f.name, fnSig f)) hostScope p.globals).vars f).1) :
    ¬ WellTyped p := by
  apply prog_not_welltyped
  intro hn
  have := fn_errors_reach_program p true e (checkFns_mem _ _ _ f e hf h)
  rw [hn] at this
  cases this

/-! ## `impl` blocks and `trigger` statements (decision tables) -/

/-- An `impl` block receives no template diagnostic iff it matches its template: all named
capabilities exist, no two selected ones conflict, exactly the required methods are implemented,
each with the required parameters, return type and modifier, extracting the singleton. -/
theorem template_decision (t : Template) (i : Impl) : templateCheck t i = [] ↔ TemplateOK t i :=
  HmsProofs.Lemmas.Check.template_decision t i

/-- A `trigger` statement receives no diagnostic iff trigger and callback exist, the callback is
an `event` function of the shape the trigger demands, it is not triggered from itself and the
arguments fit. -/
theorem trigger_decision (c : TrigCase) : triggerCheck c = [] ↔ TriggerOK c :=
  HmsProofs.Lemmas.Check.trigger_decision c

/-! ## Non-vacuity -/

section Examples

private def body (ss : List PStmt) : PBlock := .mkNoTail (PStmts.ofList ss)
private def mainFn (ss : List PStmt) : PFn := ⟨"main", [], .name "null", 0, body ss⟩
private def call (f : String) (as : List PExpr) : PExpr := .call (.ident f) (PExprs.ofList as)
private def hasErr (p : PProg) (r : Rule) : Bool := (check p).any fun d => d.level == .error && d.rule == r

/-- `let g = 1; fn f(a: int) -> int { a + g } fn main() { println(f(1)); }` is accepted and its
recorded types are the expected ones. -/
private def pOk : PProg :=
  ⟨[⟨"g", none, .int 1⟩],
   [⟨"f", [("a", .name "int")], .name "int", 0, .mk .nil (.infix .add (.ident "a") (.ident "g"))⟩,
    mainFn [.exprS (call "println" [call "f" [.int 1]])]]⟩

example : check pOk = [] := by decide +kernel
example : WellTyped pOk := check_sound_nil pOk (by decide +kernel)
example : (inferTypes pOk == [.int, .int, .int, .int, .int, .int, .int, .null, .null, .null, .fnvar [] .unknown .null, .int,
    .fn [("a", .int)] .int, .int]) = true := by decide +kernel

/-- a diverging `loop`, closures, `match`, `try`, objects, options: accepted -/
private def pRich : PProg :=
  ⟨[],
   [⟨"f", [("x", .name "int")], .name "int", 0,
      .mkNoTail (PStmts.ofList [
        .letS "h" (some (.fn [("a", .name "int")] (.name "int"))) (.lambda [("a", .name "int")] (.name "int") (.mk .nil (.ident "a"))),
        .letS "o" none (.obj (PFields.ofList [("k", .pre .some (.int 1))])),
        .loopS (.mkNoTail (PStmts.ofList [
          .exprS (.ifThen (.infix .gt (.ident "x") (.int 3)) (.mkNoTail (PStmts.ofList [.ret (call "h" [.ident "x"])]))),
          .exprS (.assign (some .add) (.ident "x") (.matchE (.ident "x")
            (PArms.ofList [(PLits.ofList [some (.int 1), some (.int 2)], .int 5), (PLits.ofList [none], .int 1)])))]))])⟩,
    mainFn [.exprS (call "println" [.tryE (.mk .nil (call "f" [.int 1])) "e" (.mk .nil (.int 0))])]]⟩

example : check pRich = [] := by decide +kernel

private def faulty (ss : List PStmt) : PProg := ⟨[], [mainFn ss]⟩

example : hasErr (faulty [.exprS (.infix .add (.int 1) (.str "a"))]) .operandMismatch = true := by decide +kernel
example : hasErr (faulty [.exprS (.infix .sub (.str "a") (.str "b"))]) .operatorNotAdmitted = true := by decide +kernel
example : hasErr (faulty [.exprS (call "assert" [.int 1])]) .argMismatch = true := by decide +kernel
example : hasErr (faulty [.exprS (call "assert" [])]) .arity = true := by decide +kernel
example : hasErr (faulty [.ret (.int 1)]) .returnMismatch = true := by decide +kernel
example : hasErr (faulty [.letS "x" none (.int 1), .exprS (.assign none (.ident "x") (.str "s"))]) .assignMismatch = true := by
  decide +kernel
example : hasErr (faulty [.letS "x" none (.float 0), .exprS (.assign (some .rem) (.ident "x") (.float 0))])
    .operatorNotAdmitted = true := by decide +kernel
example : hasErr (faulty [.whileS (.int 1) (body [])]) .conditionNotBool = true := by decide +kernel
example : hasErr (faulty [.letS "x" none (.ifElse (.bool true) (.mk .nil (.int 1)) (.mk .nil (.str "s")))]) .branchMismatch = true := by
  decide +kernel
example : hasErr (faulty [.forS "i" (.int 5) (body [])]) .notIterable = true := by decide +kernel
example : hasErr (faulty [.exprS (.ident "zz")]) .unknownIdent = true := by decide +kernel
example : hasErr (faulty [.letS "x" (some (.name "Zz")) (.int 1)]) .unknownType = true := by decide +kernel
example : hasErr (faulty [.exprS (.member (.int 1) "zz" .dot)]) .unknownMember = true := by decide +kernel
example : hasErr (faulty [.brk]) .breakOutsideLoop = true := by decide +kernel
example : hasErr (faulty [.cont]) .continueOutsideLoop = true := by decide +kernel
/-- A2: `loop { let f = fn() { break; }; break; }` -/
example : hasErr (faulty [.loopS (body [.letS "f" none (.lambda [] (.name "null") (body [.brk])), .brk])])
    .breakOutsideLoop = true := by decide +kernel
/-- A1: `fn f() -> int { let g = fn() -> str { "a" }; return "x"; }` -/
example : hasErr ⟨[], [⟨"f", [], .name "int", 0,
      body [.letS "g" none (.lambda [] (.name "str") (.mk .nil (.str "a"))), .ret (.str "x")]⟩, mainFn []]⟩
    .returnMismatch = true := by decide +kernel
/-- A5: `fn f(x: int) -> int { match x { 1 => { return 1; } } }` falls off its end -/
example : hasErr ⟨[], [⟨"f", [("x", .name "int")], .name "int", 0,
      .mk .nil (.matchE (.ident "x") (PArms.ofList [(PLits.ofList [some (.int 1)], .blk (body [.ret (.int 1)]))]))⟩, mainFn []]⟩
    .returnMismatch = true := by decide +kernel
example : hasErr ⟨[], [mainFn [], mainFn []]⟩ .duplicateDefinition = true := by decide +kernel
example : hasErr ⟨[⟨"g", none, .int 1⟩, ⟨"g", none, .int 2⟩], [mainFn []]⟩ .duplicateDefinition = true := by decide +kernel
/-- F3: `let f = 1; fn f() { } fn main() { }`, `let main = 1; fn main() { }`, `fn println() { } fn main() { }` -/
example : hasErr ⟨[⟨"f", none, .int 1⟩], [⟨"f", [], .name "null", 0, body []⟩, mainFn []]⟩ .duplicateDefinition = true := by
  decide +kernel
example : hasErr ⟨[⟨"main", none, .int 1⟩], [mainFn []]⟩ .duplicateDefinition = true := by decide +kernel
example : hasErr ⟨[], [⟨"println", [], .name "null", 0, body []⟩, mainFn []]⟩ .duplicateDefinition = true := by decide +kernel
example : check ⟨[⟨"f", none, .int 1⟩], [⟨"g", [], .name "null", 0, body []⟩, mainFn []]⟩ = [] := by decide +kernel
/-- A6: `let a = 1; let r = a..5;` -/
example : hasErr ⟨[⟨"a", none, .int 1⟩, ⟨"r", none, .range (.ident "a") (.int 5) false⟩], [mainFn []]⟩
    .nonConstantGlobal = true := by decide +kernel
example : hasErr (faulty [.letS "x" none (.list .nil)]) .implicitAny = true := by decide +kernel
example : hasErr ⟨[], []⟩ .mainShape = true := by decide +kernel
example : hasErr ⟨[], [⟨"main", [("a", .name "int")], .name "null", 0, body []⟩]⟩ .mainShape = true := by decide +kernel
example : hasErr ⟨[], [⟨"main", [], .name "int", 0, .mk .nil (.int 1)⟩]⟩ .mainShape = true := by decide +kernel

/-- S1: `fn work(n: int) { } fn main() { spawn work(1); let h = spawn work(2); let k: null = h; }` is accepted … -/
private def workFn : PFn := ⟨"work", [("n", .name "int")], .name "null", 0, body []⟩
private def spawnE (f : String) (as : List PExpr) : PExpr := .spawn f (PExprs.ofList as)
private def pSpawn (ss : List PStmt) : PProg := ⟨[], [workFn, mainFn ss]⟩

example : check (pSpawn [.exprS (spawnE "work" [.int 1])]) = [] := by decide +kernel
example : check (pSpawn [.exprS (spawnE "work" [.int 1]), .letS "h" none (spawnE "work" [.int 2]),
    .letS "k" (some (.name "null")) (.ident "h")]) = [] := by decide +kernel
example : WellTyped (pSpawn [.letS "h" none (spawnE "work" [.int 1])]) := check_sound_nil _ (by decide +kernel)
/-- … `let f = work; spawn f(1);`, `spawn println(1);`, a function literal as an argument, `.join()` and a
printed spawn are not -/
example : hasErr (pSpawn [.letS "f" none (.ident "work"), .exprS (spawnE "f" [.int 1])]) .spawnNonFunction = true := by
  decide +kernel
example : hasErr (pSpawn [.exprS (spawnE "println" [.int 1])]) .spawnNonFunction = true := by decide +kernel
example : hasErr (pSpawn [.exprS (spawnE "work" [.lambda [] (.name "null") (body [])])]) .closureAcrossThreads = true := by
  decide +kernel
example : hasErr (pSpawn [.letS "h" none (spawnE "work" [.int 1]), .exprS (.call (.member (.ident "h") "join" .dot) .nil)])
    .unknownMember = true := by decide +kernel
example : hasErr (pSpawn [.exprS (call "println" [spawnE "work" [.int 1]])]) .nullArgument = true := by decide +kernel
example : hasErr (pSpawn [.letS "x" none (.int 1), .exprS (spawnE "x" [])]) .notCallable = true := by decide +kernel
example : hasErr (pSpawn [.exprS (spawnE "work" [])]) .arity = true := by decide +kernel

example : Compatible true (.fn [("a", .int), ("b", .list .never)] .never) (.fn [("a", .any), ("b", .list .str)] (.opt .int)) :=
  (typecheck_decides_compatibility _ _ _).mp (by decide +kernel)
/-- F1: parameters correspond by position, `fn g(a: int, b: str) -> int` is no `fn(b: str, a: int) -> int` -/
example : ¬ Compatible true (.fn [("a", .int), ("b", .str)] .int) (.fn [("b", .str), ("a", .int)] .int) :=
  fun h => absurd ((typecheck_decides_compatibility _ _ _).mpr h) (by decide +kernel)
example : typeCheck true (.fn [("a", .int), ("b", .str)] .int) (.fn [("b", .str), ("a", .int)] .int) = some .fnParamMissing := by
  decide +kernel
example : ¬ Compatible false (.obj [("a", .int), ("b", .str)]) (.obj [("a", .int)]) :=
  fun h => absurd ((typecheck_decides_compatibility _ _ _).mpr h) (by decide +kernel)

/-- template decision table: the required method with a wrong parameter type is reported, the
matching implementation is not -/
example : templateCheck fooFeature ⟨["light"], [⟨"dim", [("percent", .int)], .bool, 0, true⟩]⟩ = [] := by decide +kernel
example : templateCheck fooFeature ⟨["light"], [⟨"dim", [("percent", .str)], .bool, 0, true⟩]⟩ = [.tc .typeMismatch] := by
  decide +kernel
example : templateCheck fooFeature ⟨["light", "temperature"], []⟩ = [.capabilityConflict] := by decide +kernel
example : triggerCheck ⟨true, true, false, 2, [("n", .int)], .null, [("elapsed", .int)], .null, [.int], [.int]⟩ = [] := by
  decide +kernel
example : triggerCheck ⟨true, true, false, 2, [("n", .str)], .null, [("elapsed", .int)], .null, [.int], [.int]⟩
    = [.tc .fnParamMissing] := by decide +kernel

end Examples

end HmsProofs.C03
