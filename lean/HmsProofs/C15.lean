import Hms.Mod.Graph
import Hms.Mod.Link
import HmsProofs.Lemmas.ModImport
import HmsProofs.Lemmas.ModCycle
import HmsProofs.Lemmas.ModLink
import HmsProofs.Lemmas.ModInit
/-!
# C15 — modules are isolated and linked by name and visibility

Property theorems only; the lemmas live in `HmsProofs/Lemmas/Mod{Import,Cycle,Link,Init}.lean`.
The model (`Hms/Mod/*`) mirrors `analyzer/topLevel.go importItem`, `analyzer/importGraph.go`
(after the fix for A8), `compiler/compiler.go compileProgram` + `compiler/util.go
getMangledFn/getMangled` (after the fix for V31), `interpreter/topLevel.go importItem` (after the
fix for V24). The tie to the Go code is checked on every run by `props/C15.py`.
-/
namespace HmsProofs.C15
open Hms.Mod

/-! ## The import decision -/

/-- `import_decision`, item level: an item that the consulted tables do not have with the requested
kind, or have without `pub`, is refused (≥ 1 diagnostic of a refusing class); an importable item
raises nothing except "already exists in current scope" when the name is taken. -/
theorem import_decision_item (t c : Tables) (it : ImpItem) :
    (itemLegal t it = false → ∃ d ∈ (importOne t c it).1, d.isRefusal = true) ∧
    (itemLegal t it = true →
      (importOne t c it).1 = (match it.kind with | .type => dupType c it.name | .normal => dupValue c it.name)) :=
  ⟨importOne_illegal t c it, importOne_legal t c it⟩

/-- `import_decision`, statement level (`importItem` as a whole, `rec` = the recursive analysis of
the target): (1) a module the host does not know → `nomodule` at the statement; (2) a first-time
import after which the importing module lies on an import cycle → `cyclic` at the statement;
(3) some requested item missing / of the wrong kind / private in the consulted tables → a refusing
diagnostic at the statement; (4) every item importable and new → the statement adds nothing. -/
theorem import_decision (ms : Modules) (rec : AState → String → AState) (name : String)
    (st : AState) (idx : Nat) (imp : Import) :
    (findMod ms imp.target = none → ⟨.nomodule, name, some idx⟩ ∈ (importStmt ms rec name st idx imp).diags) ∧
    (∀ t, findMod ms imp.target = some t → (imp.target == name) = false →
      ∀ tt, (stateBeforeItems ms rec name st idx imp).get imp.target = some tt →
        ((∃ it ∈ imp.items, itemLegal tt it = false) →
          ∃ d ∈ (importStmt ms rec name st idx imp).diags,
            d.module = name ∧ d.stmt = some idx ∧ d.cls.isRefusal = true) ∧
        ((∀ it ∈ imp.items, itemLegal tt it = true) →
          freshItems (((stateBeforeItems ms rec name st idx imp).get name).getD Tables.fresh) imp.items = true →
          (importStmt ms rec name st idx imp).diags = (stateBeforeItems ms rec name st idx imp).diags)) :=
  ⟨importStmt_missing_module ms rec name st idx imp,
   fun t h hne tt ht =>
     ⟨importStmt_illegal_item ms rec name st idx imp t h hne tt ht,
      importStmt_legal ms rec name st idx imp t h hne tt ht⟩⟩

/-- A first-time import that puts the importing module on an import cycle is reported as cyclic. -/
theorem import_decision_cyclic (ms : Modules) (rec : AState → String → AState) (name : String)
    (st : AState) (idx : Nat) (imp : Import) (t : Module) (h : findMod ms imp.target = some t)
    (hnew : ((st.set name { ((st.get name).getD Tables.fresh) with importsModules := ((st.get name).getD Tables.fresh).importsModules ++ [imp.target] }).get imp.target).isSome = false)
    (hc : importGraphIsCyclic (rec (st.set name { ((st.get name).getD Tables.fresh) with importsModules := ((st.get name).getD Tables.fresh).importsModules ++ [imp.target] }) imp.target).adj name = true) :
    ⟨.cyclic, name, some idx⟩ ∈ (importStmt ms rec name st idx imp).diags :=
  importStmt_cyclic ms rec name st idx imp t h hnew hc

/-- Non-vacuity: a private function, a missing item, a wrong kind and a legal import, decided by
the whole analysis of a two-module graph. -/
example :
    let a : Module := { name := "a", imports := [], inits := [("x", "a.x")], bodies := [], items := [⟨.glob, "x", true⟩, ⟨.type, "T", true⟩, ⟨.fn, "f", false⟩, ⟨.fn, "main", false⟩] }
    let main : Module := { name := "main", inits := [], bodies := [], items := [⟨.fn, "main", false⟩], imports := [⟨"a", [⟨"x", .normal⟩, ⟨"T", .type⟩]⟩, ⟨"a", [⟨"f", .normal⟩]⟩, ⟨"a", [⟨"g", .normal⟩, ⟨"x", .type⟩]⟩, ⟨"zz", [⟨"q", .normal⟩]⟩] }
    analyze [main, a] =
      [⟨.privfn, "main", some 1⟩, ⟨.noitem, "main", some 2⟩, ⟨.notype, "main", some 2⟩, ⟨.nomodule, "main", some 3⟩] := by
  decide

/-! ## The cycle check -/

/-- `importGraphIsCyclic` (with the visited set of the fix for A8) reports a cycle iff the start
module can be reached from itself along at least one import edge. -/
theorem cycle_check_correct (adj : Adj) (start : String) :
    importGraphIsCyclic adj start = true ↔ Path adj start start :=
  Hms.Mod.cycle_check_correct adj start

/-- Termination: every module is expanded at most once, so `number of modules + 1` levels of
recursion always suffice — more fuel never changes the answer. -/
theorem cycle_check_terminates (adj : Adj) (start : String) (fuel : Nat) (h : adj.length + 1 ≤ fuel) :
    (cyclicFrom adj start fuel [start] start).1 = importGraphIsCyclic adj start :=
  cycle_check_fuel adj start fuel h

/-- Finding A8 (fixed): without the visited set the search does not return on `main → a → b → a`. -/
theorem cycle_check_counterexample_A8 :
    ∀ fuel, cyclicFromUnfixed [("main", ["a"]), ("a", ["b"]), ("b", ["a"])] "main" fuel "main" = none :=
  cycle_check_unfixed_diverges

/-! ## Initialisation -/

/-- VM start-up (`NewVM` runs the entry module's `@init`, then the host spawns `main`): every
module's globals are initialised exactly once, before `main`, in whatever order the compiler
visited the modules. -/
theorem init_once_vm (ms ord : Modules) (entry : String) (hd : namesDistinct ms = true) (ho : ord.Perm ms)
    (he : (findMod ms entry).isSome = true) :
    (∀ m ∈ ms, (startup ord entry).count (.init m.name) = 1) ∧
    (startup ord entry).getLast? = some .main ∧ (startup ord entry).count .main = 1 :=
  Hms.Mod.init_once_vm ms ord entry hd ho he

/-- In the entry module's `@init` every other module's `@init` is called exactly once (and its own
never); every `@init` ends with `Return`. -/
theorem init_calls_once (ms ord : Modules) (entry : String) (hd : namesDistinct ms = true) (ho : ord.Perm ms)
    (e : Module) (he : e ∈ ms) (hn : e.name = entry) (m : Module) (hm : m ∈ ms) :
    (initOf ord entry e).count (.callInit m.name) = (if m.name = entry then 0 else 1) ∧
    (initOf ord entry m).getLast? = some .ret :=
  ⟨Hms.Mod.init_calls_once ms ord entry hd ho e he hn m hm, init_nonempty ord entry m⟩

/-- Finding V31 (fixed): before the fix the `@init` of an imported module without globals is empty
and the VM panics the host when the entry `@init` calls it. -/
theorem init_counterexample_V31 :
    ∃ ms : Modules, namesDistinct ms = true ∧ startupPanicsUnfixed ms "main" = true :=
  Hms.Mod.init_counterexample_V31

/-- Finding V24 (fixed): the unfixed interpreter executes (and so re-initialises) a module once per
import statement — twice in a diamond —, the fixed one once. -/
theorem init_counterexample_V24 :
    ∃ ms : Modules, namesDistinct ms = true ∧
      (treeExecsUnfixed ms 10 "main").count "a" = 2 ∧ ((treeExecs ms 10 [] "main").1).count "a" = 1 :=
  tree_exec_counterexample_V24

/-! ## Linking -/

/-- The full statement: every name that resolves lexically is linked to that definition, for all
module graphs. FALSE of the current compiler (finding V22, `link_counterexample_V22_*`). -/
def link_correct_full : Prop :=
  ∀ (ms ord any : Modules), namesDistinct ms = true → ord.Perm ms → any.Perm ms →
    ∀ m ∈ ms, ∀ n d : String,
      (resolveFn ms m n = some d → linkFn any m n = some d) ∧
      (resolveGlob ms m n = some d → linkGlob ord n = some d)

/-- Every call and every global reference in module `m` is linked to `m`'s own or explicitly
imported definition — whatever orders the compiler visits the modules in — provided no two modules
clash on a name (`noCrossModuleClash`: the hypothesis the open finding V22 costs). -/
theorem link_correct_partial (ms ord any : Modules) (hd : namesDistinct ms = true)
    (hc : noCrossModuleClash ms = true) (ho : ord.Perm ms) (ha : any.Perm ms)
    (m : Module) (hm : m ∈ ms) (n d : String) :
    (resolveFn ms m n = some d → linkFn any m n = some d) ∧
    (resolveGlob ms m n = some d → linkGlob ord n = some d) :=
  Hms.Mod.link_correct_partial ms ord any hd hc ho ha m hm n d

/-- … hence an accepted program (every name resolves lexically) runs its functions against the
globals of their defining modules, exactly as lexical per-module resolution prescribes. -/
theorem run_isolated_partial (ms ord any : Modules) (hd : namesDistinct ms = true)
    (hc : noCrossModuleClash ms = true) (hcl : closed ms = true) (ho : ord.Perm ms) (ha : any.Perm ms)
    (fuel : Nat) : runLinked ms ord any fuel = runLex ms fuel :=
  run_linked_eq_lex_partial ms ord any hd hc hcl ho ha fuel

/-- Finding V22 (open), globals: two modules with a private global of the same name; which one
both functions print depends on the visiting order, and it is never what the source says. -/
theorem link_counterexample_V22_global :
    ∃ ms ord₁ ord₂ : Modules, namesDistinct ms = true ∧ closed ms = true ∧ ord₁.Perm ms ∧ ord₂.Perm ms ∧
      runLinked ms ord₁ ms 100 ≠ runLinked ms ord₂ ms 100 ∧ runLinked ms ord₁ ms 100 ≠ runLex ms 100 :=
  Hms.Mod.link_counterexample_V22_global

/-- Finding V22 (open), functions: `main` imports `g` from `a`, `b` has a private `g`. -/
theorem link_counterexample_V22_fn :
    ∃ ms any₁ any₂ : Modules, namesDistinct ms = true ∧ closed ms = true ∧ any₁.Perm ms ∧ any₂.Perm ms ∧
      runLinked ms ms any₁ 100 ≠ runLinked ms ms any₂ 100 :=
  Hms.Mod.link_counterexample_V22_fn

theorem link_correct_full_is_false : ¬ link_correct_full := by
  intro h
  -- `a` and `b` both define the global `x`; `a`'s own `x` must be linked to `a` under every order
  let a : Module := { name := "a", imports := [], items := [⟨.glob, "x", false⟩], inits := [], bodies := [] }
  let b : Module := { name := "b", imports := [], items := [⟨.glob, "x", false⟩], inits := [], bodies := [] }
  have := (h [a, b] [a, b] [a, b] (by decide) (List.Perm.refl _) (List.Perm.refl _) a (by simp) "x" "a").2 (by decide)
  revert this
  decide

/-- Non-vacuity of `link_correct_partial` / `run_isolated_partial`: a three-module graph with
imports of functions and globals, a diamond, and private functions of the same name in two modules
satisfies the hypotheses. -/
example :
    let a : Module := { name := "a", imports := [], inits := [("x", "a.x")], items := [⟨.glob, "x", true⟩, ⟨.fn, "g", true⟩, ⟨.fn, "h", false⟩, ⟨.fn, "main", false⟩], bodies := [("g", [.say "a.g" ["x"], .bump "x", .call "h"]), ("h", [.say "a.h" []]), ("main", [])] }
    let b : Module := { name := "b", imports := [⟨"a", [⟨"g", .normal⟩, ⟨"x", .normal⟩]⟩], inits := [("y", "b.y")], items := [⟨.glob, "y", true⟩, ⟨.fn, "f", true⟩, ⟨.fn, "h", false⟩, ⟨.fn, "main", false⟩], bodies := [("f", [.say "b.f" ["x", "y"], .call "g", .call "h"]), ("h", [.say "b.h" []]), ("main", [])] }
    let main : Module := { name := "main", inits := [], items := [⟨.fn, "main", false⟩], imports := [⟨"a", [⟨"g", .normal⟩, ⟨"x", .normal⟩]⟩, ⟨"b", [⟨"f", .normal⟩, ⟨"y", .normal⟩]⟩], bodies := [("main", [.say "main" ["x", "y"], .call "f", .call "g", .say "main" ["x", "y"]])] }
    namesDistinct [main, a, b] = true ∧ noCrossModuleClash [main, a, b] = true ∧ closed [main, a, b] = true ∧
      runLex [main, a, b] 100 =
        some "main a.x b.y\nb.f a.x b.y\na.g a.x\na.h\nb.h\na.g a.x!\na.h\nmain a.x!! b.y\n" := by
  decide

end HmsProofs.C15
