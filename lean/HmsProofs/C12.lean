import Hms.Value.Cast
import HmsProofs.Lemmas.ValCast
/-!
# C12 — the dynamic-to-static type boundary is sound

Property theorems only; lemmas live in `HmsProofs/Lemmas/ValCast.lean` and `ValEq.lean`.

`castAll allow T v path` (Hms/Value/Cast.lean) is the model of `DeepCast`/`deepCastRecursive` of
both value libraries after the proposed fixes X1, X13a, X21, X22; `allow` is the `allowCasts`
flag (`true` for `expr as T`, `false` for annotated `let`, host arguments and return values).
On failure it yields *all* errors some map iteration order of the Go code can report; the
error theorems quantify over all of them.

Standing hypotheses, all decidable and evaluated by the driver on every generated case:
`T.wf` / `v.wf` — object types and object values are finite maps (no field name twice, at any
depth; Go: `map[string]*Value`, analyzer-checked type definitions); `v.data` — no function value
inside (functions are refused at the boundary and are never equal to anything).
-/
namespace HmsProofs.C12
open Hms.Value HmsProofs.Lemmas.ValCast HmsProofs.Lemmas.ValEq

/-- An admitted value deeply conforms to the target type. -/
theorem cast_sound (allow : Bool) (T : Ty) (hT : T.wf = true) (v v' : Val) (p : Path)
    (h : castAll allow T v p = .ok v') : conforms T v' = true :=
  castAll_sound allow T hT v p v' h

/-- A value that already has type `T` is admitted, and admitted unchanged (`IsEqual`). -/
theorem cast_identity (allow : Bool) (T : Ty) (hT : T.wf = true) (v : Val) (p : Path)
    (hw : v.wf = true) (hd : v.data = true) (hc : conforms T v = true) :
    ∃ v', castAll allow T v p = .ok v' ∧ v'.isEqual v = true :=
  castAll_identity allow T v p hT hc hw hd

/-- The cast admits exactly the pairs related by the permitted conversions (`convertible` is
written from the property statement, independently of `castAll`). -/
theorem cast_admits_iff (allow : Bool) (T : Ty) (v : Val) (p : Path) :
    (∃ v', castAll allow T v p = .ok v') ↔ convertible allow T v = true := by
  rw [← okB_iff, castAll_okB]

/-- A non-conforming, non-convertible value is never let through. -/
theorem cast_refuses (allow : Bool) (T : Ty) (v : Val) (p : Path) (h : convertible allow T v = false) :
    ∃ es, castAll allow T v p = .error es ∧ es ≠ [] := by
  cases hc : castAll allow T v p with
  | ok v' => exact absurd ((cast_admits_iff allow T v p).mp ⟨v', hc⟩) (by simp [h])
  | error es => exact ⟨es, rfl, castAll_err_ne allow T v p es hc⟩

/-- Every error the cast can report names a path that leads (from the cast's own path `p`) to a
sub-value / sub-type pair that really offends: the kinds do not fit, or the named field is
unexpected, or missing — and that sub-value is not convertible to that sub-type. -/
theorem cast_error_path (allow : Bool) (T : Ty) (hT : T.wf = true) (v : Val) (p : Path) (es : List CastErr)
    (h : castAll allow T v p = .error es) :
    ∀ e ∈ es, ∃ q vs Ts, e.path = p ++ q ∧ subAt q v T = .some (vs, Ts)
      ∧ offends allow e.cls vs Ts = true ∧ convertible allow Ts vs = false := by
  intro e he
  obtain ⟨q, vs, Ts, h1, h2, h3⟩ := castAll_errpath allow T hT v p es h e he
  exact ⟨q, vs, Ts, h1, h2, h3, offends_not_convertible allow e.cls vs Ts (subAt_peeled q v T vs Ts h2) h3⟩

/-- `DeepCast` (one error, empty start path): the reported error is one of the above. -/
theorem deepCast_error_path (allow : Bool) (T : Ty) (hT : T.wf = true) (v : Val) (e : CastErr)
    (h : deepCast allow v T = .error e) :
    ∃ vs Ts, subAt e.path v T = .some (vs, Ts) ∧ offends allow e.cls vs Ts = true
      ∧ convertible allow Ts vs = false := by
  unfold deepCast at h
  cases hc : castAll allow T v [] with
  | ok v' => simp [hc] at h
  | error es =>
    simp only [hc] at h
    have hne := castAll_err_ne allow T v [] es hc
    cases es with
    | nil => exact absurd rfl hne
    | cons e0 rest =>
      simp at h; subst h
      obtain ⟨q, vs, Ts, h1, h2, h3, h4⟩ := cast_error_path allow T hT v [] _ hc e0 (by simp)
      simp at h1; subst h1
      exact ⟨vs, Ts, h2, h3, h4⟩

/-- The admitted value is again a well-formed data value … -/
theorem cast_preserves_wf (allow : Bool) (T : Ty) (hT : T.wf = true) (v v' : Val) (p : Path)
    (hw : v.wf = true) (hd : v.data = true) (h : castAll allow T v p = .ok v') :
    v'.wf = true ∧ v'.data = true := by
  have := castAll_good allow T hT v p v' (by simp [good, hw, hd]) h
  simpa [good] using this

/-- … and casting it again changes nothing. -/
theorem cast_idempotent (allow allow' : Bool) (T : Ty) (hT : T.wf = true) (v v' : Val) (p p' : Path)
    (hw : v.wf = true) (hd : v.data = true) (h : castAll allow T v p = .ok v') :
    ∃ v'', castAll allow' T v' p' = .ok v'' ∧ v''.isEqual v' = true := by
  obtain ⟨hw', hd'⟩ := cast_preserves_wf allow T hT v v' p hw hd h
  exact cast_identity allow' T hT v' p' hw' hd' (cast_sound allow T hT v v' p h)

/-- Conformance implies convertibility (the scalar conversions are never needed for it). -/
theorem conforms_convertible (allow : Bool) (T : Ty) (hT : T.wf = true) (v : Val)
    (hw : v.wf = true) (hd : v.data = true) (hc : conforms T v = true) : convertible allow T v = true := by
  obtain ⟨v', h, _⟩ := cast_identity allow T hT v [] hw hd hc
  exact (cast_admits_iff allow T v []).mp ⟨v', h⟩

/-! ## Non-vacuity and the pre-fix behaviour (X1) -/

private def errorsOf : CastRes → List CastErr
  | .ok _ => []
  | .error es => es

private def tPerson : Ty := .obj (.cons "name" .str (.cons "tags" (.list (.opt .int)) .nil))
private def vPerson : Val := .obj (.cons "tags" (.list (.cons (.some (.int 1#64)) (.cons .none .nil))) (.cons "name" (.str "a") .nil))

example : tPerson.wf = true ∧ vPerson.wf = true ∧ vPerson.data = true ∧ conforms tPerson vPerson = true := by
  decide

example : ∃ v', castAll false tPerson vPerson [] = .ok v' ∧ v'.isEqual vPerson = true :=
  cast_identity false tPerson (by decide) vPerson [] (by decide) (by decide) (by decide)

/-- X1 (fixed by the proposed patch): before the fix `"a"` cast to `?int` was wrapped unchecked;
the model of the fixed code refuses it and names the spot. -/
example : errorsOf (castAll false (.opt .int) (.str "a") []) = [⟨.incompatible, []⟩] := by decide

/-- near miss: one extra field, one wrong element — both are reported, each at its own path -/
example : errorsOf (castAll false tPerson
    (.obj (.cons "tags" (.list (.cons .none (.cons (.str "x") .nil))) (.cons "name" (.str "a") (.cons "age" (.int 3#64) .nil)))) [])
    = [⟨.incompatible, [.field "tags", .index 1]⟩, ⟨.unexpectedField "age", []⟩] := by decide

end HmsProofs.C12
