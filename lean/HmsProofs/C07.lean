import Hms.Parse.Normal
import Hms.GenBridge
import HmsProofs.Tables
import HmsProofs.Lemmas.Pratt
/-!
# C07 — parse trees follow the documented grammar and ignore layout

Property theorems only; helper lemmas live in `HmsProofs/Lemmas/Pratt.lean`.
-/
namespace HmsProofs.C07
open Hms Hms.Pratt

/-! ## The operator table, as the property states it -/

/-- Rank of a binary operator in the chain of the property statement
(assignment < `||` < `&&` < `|` < `^` < `&` < equality < comparison < shift < additive <
multiplicative < `as` < `**`). Written from the statement, not from the code. -/
def rank : TokKind → Option Nat
  | .assign | .plusAssign | .minusAssign | .multiplyAssign | .divideAssign | .moduloAssign
  | .powerAssign | .shiftLeftAssign | .shiftRightAssign | .bitOrAssign | .bitAndAssign
  | .bitXorAssign => some 0
  | .or_ => some 1
  | .and_ => some 2
  | .bitOr => some 3
  | .bitXor => some 4
  | .bitAnd => some 5
  | .equal | .notEqual => some 6
  | .lessThan | .greaterThan | .lessThanEqual | .greaterThanEqual => some 7
  | .shiftLeft | .shiftRight => some 8
  | .plus | .minus => some 9
  | .multiply | .divide | .modulo => some 10
  | .as => some 11
  | .power => some 12
  | _ => none

def isPostfixOpener : TokKind → Bool
  | .lParen | .lBracket | .dot | .arrow | .tildeArrow => true
  | _ => false

def ranked (k : TokKind) : Bool := (rank k).isSome
def rk (k : TokKind) : Nat := (rank k).getD 0

/-- A higher rank binds strictly tighter on both sides. -/
def RanksOrdered (prec : Prec) : Prop :=
  ∀ a ∈ TokKind.all, ∀ b ∈ TokKind.all, ranked a = true → ranked b = true → rk a < rk b →
      max (prec a).1 (prec a).2 < min (prec b).1 (prec b).2
/-- Operators of one rank share their powers. -/
def RanksUniform (prec : Prec) : Prop :=
  ∀ a ∈ TokKind.all, ∀ b ∈ TokKind.all, ranked a = true → ranked b = true → rk a = rk b →
      prec a = prec b
/-- `**` is right-associative, every other ranked operator left-associative, and all of them bind. -/
def Associativity (prec : Prec) : Prop :=
  (prec .power).1 > (prec .power).2
  ∧ (∀ a ∈ TokKind.all, ranked a = true → a ≠ .power → (prec a).1 < (prec a).2)
  ∧ (∀ a ∈ TokKind.all, ranked a = true → 0 < (prec a).1)
/-- Prefix operands are parsed above every ranked operator and below call/index/member. -/
def PrefixPlacement (prec : Prec) : Prop :=
  (∀ a ∈ TokKind.all, ranked a = true → max (prec a).1 (prec a).2 < prefixBp)
  ∧ (∀ a ∈ TokKind.all, isPostfixOpener a = true → prefixBp < (prec a).1)
/-- Nothing else continues an expression, except the range operator. -/
def NothingElseBinds (prec : Prec) : Prop :=
  ∀ a ∈ TokKind.all, ranked a = false → isPostfixOpener a = false → a ≠ .doubleDot →
      prec a = (0, 0)

/-- What the property demands of a binding-power table. -/
def TableOK (prec : Prec) : Prop :=
  RanksOrdered prec ∧ RanksUniform prec ∧ Associativity prec ∧ PrefixPlacement prec
    ∧ NothingElseBinds prec

instance (prec : Prec) : Decidable (RanksOrdered prec) := by unfold RanksOrdered; infer_instance
instance (prec : Prec) : Decidable (RanksUniform prec) := by unfold RanksUniform; infer_instance
instance (prec : Prec) : Decidable (Associativity prec) := by unfold Associativity; infer_instance
instance (prec : Prec) : Decidable (PrefixPlacement prec) := by unfold PrefixPlacement; infer_instance
instance (prec : Prec) : Decidable (NothingElseBinds prec) := by unfold NothingElseBinds; infer_instance
instance (prec : Prec) : Decidable (TableOK prec) := by unfold TableOK; infer_instance
instance (prec : Prec) : Decidable (TableSane prec) := by unfold TableSane; infer_instance

/-- The regenerated `TokenKind.Prec()` table is the table of the property. -/
theorem prec_table_ok : TableOK Gen.prec := by decide +kernel

/-- Closers and separators never continue an expression (regenerated table). -/
theorem prec_table_sane : TableSane Gen.prec := by decide

/-- Every token the loop can enter on (non-zero left power) is handled by one of its cases. -/
theorem loop_cases_cover :
    ∀ k ∈ TokKind.all, 0 < (Gen.prec k).1 →
      (k == .doubleDot || isInfix k || isAssign k || k == .lParen || k == .lBracket
        || isMemberOp k || k == .as) = true := by decide

/-! ## The loop builds exactly the normal trees -/

/-- Completeness: a normal tree is rebuilt from its flattening, whatever follows it, provided
the following token does not bind tighter than the context or than the tree's right spine. -/
theorem pratt_correct (prec : Prec) (hs : TableSane prec) (p : Nat) (t : Tree) (rest : List TokKind)
    (hn : normal prec p t = true) (hr : headLbp prec rest ≤ p)
    (hsp : rightSpineOK prec (headLbp prec rest) t = true) :
    ∃ n, ∀ fuel, n ≤ fuel → parseE prec fuel p (flatten t ++ rest) = .ok (t, rest) :=
  Lemmas.Pratt.parseE_complete prec hs p t rest hn hr hsp

/-- Soundness: whatever the loop returns is a normal tree; after erasing every comma that
directly precedes `)` or `]` (a trailing comma), the input is exactly the tree's flattening
followed by the remaining input; and the remaining input does not bind tighter than the
context or the tree's right spine. -/
theorem pratt_sound (prec : Prec) (fuel p : Nat) (ts rest : List TokKind) (t : Tree)
    (h : parseE prec fuel p ts = .ok (t, rest)) :
    Lemmas.Pratt.dropTrailingCommas ts = flatten t ++ Lemmas.Pratt.dropTrailingCommas rest
      ∧ normal prec p t = true ∧ headLbp prec rest ≤ p
      ∧ rightSpineOK prec (headLbp prec rest) t = true :=
  Lemmas.Pratt.parseE_sound_dropTC prec fuel p ts rest t h

/-- Soundness without the proviso, for inputs that contain no trailing comma. -/
theorem pratt_sound_exact (prec : Prec) (fuel p : Nat) (ts rest : List TokKind) (t : Tree)
    (hntc : Lemmas.Pratt.hasTrailingComma ts = false)
    (h : parseE prec fuel p ts = .ok (t, rest)) :
    ts = flatten t ++ rest ∧ normal prec p t = true ∧ headLbp prec rest ≤ p
      ∧ rightSpineOK prec (headLbp prec rest) t = true :=
  Lemmas.Pratt.parseE_sound_exact prec fuel p ts rest t hntc h

/-- The proviso is needed: `[ 1 , ]` parses to the one-element list (kernel-checked). -/
theorem pratt_sound_needs_proviso :
    ¬ (∀ (prec : Prec) (fuel p : Nat) (ts rest : List TokKind) (t : Tree),
        parseE prec fuel p ts = .ok (t, rest) →
        ts = flatten t ++ rest ∧ normal prec p t = true ∧ headLbp prec rest ≤ p
          ∧ rightSpineOK prec (headLbp prec rest) t = true) :=
  Lemmas.Pratt.parseE_sound_false

/-- Uniqueness: two normal trees with the same token sequence are the same tree — the
operator table alone fixes the tree of an expression. -/
theorem normal_tree_unique (prec : Prec) (hs : TableSane prec) (t₁ t₂ : Tree)
    (h₁ : normal prec 0 t₁ = true) (h₂ : normal prec 0 t₂ = true)
    (hsp₁ : rightSpineOK prec 0 t₁ = true) (hsp₂ : rightSpineOK prec 0 t₂ = true)
    (hf : flatten t₁ = flatten t₂) : t₁ = t₂ := by
  obtain ⟨n₁, h₁'⟩ := pratt_correct prec hs 0 t₁ [] h₁ (by simp [headLbp]) (by simpa [headLbp] using hsp₁)
  obtain ⟨n₂, h₂'⟩ := pratt_correct prec hs 0 t₂ [] h₂ (by simp [headLbp]) (by simpa [headLbp] using hsp₂)
  have e₁ := h₁' (max n₁ n₂) (Nat.le_max_left _ _)
  have e₂ := h₂' (max n₁ n₂) (Nat.le_max_right _ _)
  rw [hf] at e₁
  rw [e₁] at e₂
  injection e₂ with e
  injection e with e _

/-- A trailing comma in a list or an argument list never changes the tree: two inputs that
differ only in trailing commas and both parse completely yield the same tree. -/
theorem trailing_comma_irrelevant (prec : Prec) (hs : TableSane prec) (f₁ f₂ : Nat)
    (ts₁ ts₂ : List TokKind) (t₁ t₂ : Tree)
    (h₁ : parseE prec f₁ 0 ts₁ = .ok (t₁, [])) (h₂ : parseE prec f₂ 0 ts₂ = .ok (t₂, []))
    (he : Lemmas.Pratt.dropTrailingCommas ts₁ = Lemmas.Pratt.dropTrailingCommas ts₂) : t₁ = t₂ := by
  obtain ⟨e₁, n₁, _, s₁⟩ := pratt_sound prec f₁ 0 ts₁ [] t₁ h₁
  obtain ⟨e₂, n₂, _, s₂⟩ := pratt_sound prec f₂ 0 ts₂ [] t₂ h₂
  have hf : flatten t₁ = flatten t₂ := by
    have : flatten t₁ ++ Lemmas.Pratt.dropTrailingCommas [] = flatten t₂ ++ Lemmas.Pratt.dropTrailingCommas [] := by
      rw [← e₁, ← e₂, he]
    simpa [Lemmas.Pratt.dropTrailingCommas] using this
  exact normal_tree_unique prec hs t₁ t₂ n₁ n₂ (by simpa [headLbp] using s₁) (by simpa [headLbp] using s₂) hf

/-- Fuel never runs out: the entry point's fuel is enough for every token list (totality of
the expression parser; also used by C05). -/
theorem pratt_total (prec : Prec) (ts : List TokKind) : parseExpr prec ts ≠ .error .fuel :=
  Lemmas.Pratt.parseExpr_ne_fuel prec ts

/-! ## Non-vacuity -/

/-- `1 + 2 * 3 ** 4 ** 5 - -6` : a non-trivial normal tree for the regenerated table. -/
example :
    parseExpr Gen.prec [.int, .plus, .int, .multiply, .int, .power, .int, .power, .int, .minus, .minus, .int]
      = .ok (.bin (.bin (.atom .int) .plus (.bin (.atom .int) .multiply
              (.bin (.atom .int) .power (.bin (.atom .int) .power (.atom .int)))))
            .minus (.pre .minus (.atom .int)), []) := by rfl

end HmsProofs.C07
