import Hms.Conc.Protocol
import Hms.Conc.Spawn
import HmsProofs.Lemmas.ConcProtocol
import HmsProofs.Lemmas.ConcSpawn
/-!
# C17 — spawned threads run to completion, are waited for, and do not race

Property theorems only (lemmas: `HmsProofs/Lemmas/ConcProtocol.lean`, `ConcSpawn.lean`).
Invariants over **all interleavings** of the protocol model `Hms/Conc/Protocol.lean` (fixed
configuration: after V18, V19, H1), i.e. over every state reachable by `Step`.

The claim is *partial*: the theorems cover the locking and signalling protocol; freedom from data
races in Go's memory model and the behaviour of the Go scheduler are facts about the real
runtime, which the check samples under the race detector.
-/
namespace HmsProofs.C17
open Hms.Conc

/-- A spawned function runs with the argument values given at the spawn: the compiler pushes the
arguments last-to-first, `Opcode_Spawn` pops them prepending, `spawnCoreInternal` pre-pushes
them, the callee pops one per parameter — parameter `i` is argument `i`, and the spawning core's
stack is left as it was. And the new core is a running, listed core (so `Wait` will wait for it). -/
theorem spawn_runs_with_args {V : Type} (st args : List V) (s : PState) :
    (let popped := spawnPop args.length (callPush st args) []
     popN args.length (prePush popped.1) = (args, []) ∧ popped.2 = st)
    ∧ s.spawn.core s.n = .running .idle ∧ s.n ∈ s.spawn.listed :=
  ⟨spawn_binds_args st args, by simp [PState.spawn], by simp [PState.spawn]⟩

/-- A live core stays on the list until `Wait` has taken its signal (or `Wait` has dropped the
whole list on an interrupt): nobody is forgotten, under every interleaving. -/
theorem spawned_core_stays_listed (s : PState) (hr : Reach Cfg.fixed s) (c : Nat)
    (hl : (s.core c).isLive = true) : c ∈ s.listed ∨ s.dropped = true :=
  (reach_inv hr).live_listed c hl

/-- `Wait` returns `nil` only after all cores have finished: at the moment `Wait` returns without
an interrupt (and has never dropped cores on an earlier interrupt), every core ever spawned has
run to completion and its `nil` signal has been received. -/
theorem wait_after_all (s s' : PState) (hr : Reach Cfg.fixed s) (hw : waitStep Cfg.fixed s = some s')
    (hret : s'.wait = .returned none) (hd : s'.dropped = false) :
    ∀ c, c < s'.n → s'.core c = .received none := by
  have hi := reach_inv hr
  cases waitStep_cases hw with
  | top h e => subst e; cases hret
  | sleeping h e => subst e; cases hret
  | toSleep h hl e => subst e; cases hret
  | recvNil c r h hc e => subst e; cases hret
  | recvIntr c r i h hc e => subst e; cases hret
  | skip c r h h1 h2 e => subst e; cases hret
  | remove c st r h hl e => subst e; cases hret
  | relock r h e => subst e; cases hret
  | cancel c i h hl e => subst e; cases hret
  | retNone h hl e =>
    subst e
    intro c hc
    simp only at hc hd ⊢
    have hne := hi.present_lt c hc
    cases hcs : s.core c with
    | absent => exact absurd hcs hne
    | running g =>
      rcases hi.live_listed c (by simp [hcs, CoreSt.isLive]) with h1 | h1
      · rw [hl] at h1; cases h1
      · rw [hd] at h1; cases h1
    | sending sg => exact absurd hcs (hi.no_sending c sg)
    | signalled sg =>
      rcases hi.live_listed c (by simp [hcs, CoreSt.isLive]) with h1 | h1
      · rw [hl] at h1; cases h1
      · rw [hd] at h1; cases h1
    | received sg =>
      cases sg with
      | none => rfl
      | some i =>
        rcases hi.recv_intr c i hcs with h1 | h1
        · rw [h] at h1; cases h1
        · rw [hd] at h1; cases h1

/-- `Wait` reports the first interrupt and cancels the rest: at the moment it returns an
interrupt `(c, i)`, the context is cancelled, the list is dropped, `i` is what core `c` signalled,
and (if this is the first such return) no other core's interrupt has been received — every other
core is still to see the cancellation at its next poll (`C10.core_can_signal`). -/
theorem first_fatal_cancels_rest (s s' : PState) (hr : Reach Cfg.fixed s) (hw : waitStep Cfg.fixed s = some s')
    (c : Nat) (i : Intr) (hret : s'.wait = .returned (some (c, i))) :
    s'.cancelled = true ∧ s'.listed = [] ∧ s'.core c = .received (some i)
      ∧ (s.dropped = false → ∀ d j, d ≠ c → s'.core d ≠ .received (some j)) := by
  have hi := reach_inv hr
  cases waitStep_cases hw with
  | top h e => subst e; cases hret
  | sleeping h e => subst e; cases hret
  | toSleep h hl e => subst e; cases hret
  | retNone h hl e => subst e; cases hret
  | recvNil c' r h hc e => subst e; cases hret
  | recvIntr c' r i' h hc e => subst e; cases hret
  | skip c' r h h1 h2 e => subst e; cases hret
  | remove c' st r h hl e => subst e; cases hret
  | relock r h e => subst e; cases hret
  | cancel c' i' h hl e =>
    subst e
    simp only [WaitPc.returned.injEq, Option.some.injEq, Prod.mk.injEq] at hret
    obtain ⟨rfl, rfl⟩ := hret
    refine ⟨rfl, rfl, hi.cancel_received _ _ h, ?_⟩
    intro hd d j hne hcd
    simp only at hcd
    rcases hi.recv_intr d j hcd with h1 | h1
    · rw [h] at h1; cases h1; exact hne rfl
    · rw [hd] at h1; cases h1

/-- Every transition touching the globals holds the mutex: a core inside a write holds it
exclusively (no other core reads or writes), a core inside a read holds it shared (nobody
writes); the only transition that changes the globals is made by the exclusive holder; and the
core list changes only while nobody holds its lock in read mode. -/
theorem shared_state_locked (s : PState) (hr : Reach Cfg.fixed s) :
    (∀ c, s.core c = .running .wr →
        s.gWriter = some c ∧ ∀ d, d ≠ c → s.core d ≠ .running .wr ∧ s.core d ≠ .running .rd)
    ∧ (∀ c, s.core c = .running .rd → s.gReader c = true ∧ s.gWriter = none)
    ∧ (∀ s', Step Cfg.fixed s s' → s'.gVersion ≠ s.gVersion → ∃ c, s.core c = .running .wr ∧ s.gWriter = some c)
    ∧ (∀ s', Step Cfg.fixed s s' → s'.listed ≠ s.listed → s.wait.holdsR = false ∧ s.leaked = 0) := by
  have hi := reach_inv hr
  refine ⟨?_, ?_, ?_, ?_⟩
  · intro c hc
    have hw := (hi.wr_iff c).mp hc
    refine ⟨hw, fun d hne => ⟨?_, ?_⟩⟩
    · intro hd
      have := (hi.wr_iff d).mp hd
      rw [hw] at this; cases this; exact hne rfl
    · intro hd
      have h1 := (hi.rd_iff d).mp hd
      rw [hi.wr_excl c hw d] at h1; cases h1
  · intro c hc
    refine ⟨(hi.rd_iff c).mp hc, ?_⟩
    cases hg : s.gWriter with
    | none => rfl
    | some w =>
      have h1 := (hi.rd_iff c).mp hc
      rw [hi.wr_excl w hg c] at h1; cases h1
  · intro s' hs hne
    cases hs with
    | hostSpawn _ => exact absurd rfl hne
    | coreSpawn _ _ _ => exact absurd rfl hne
    | hostCancel => exact absurd rfl hne
    | coreFinish _ _ _ _ => exact absurd rfl hne
    | gRLock _ _ _ => exact absurd rfl hne
    | gRUnlock _ _ => exact absurd rfl hne
    | gLock _ _ _ _ => exact absurd rfl hne
    | gWrite c hc => exact ⟨c, hc, (hi.wr_iff c).mp hc⟩
    | gUnlock _ _ => exact absurd rfl hne
    | waitStart _ => exact absurd rfl hne
    | wait =>
      rename_i hw
      cases waitStep_cases hw <;> (rename_i e; subst e; exact absurd rfl hne)
  · intro s' hs hne
    cases hs with
    | hostSpawn hf => simpa [PState.lockFree] using hf
    | coreSpawn _ _ hf => simpa [PState.lockFree] using hf
    | hostCancel => exact absurd rfl hne
    | coreFinish _ _ _ _ => exact absurd rfl hne
    | gRLock _ _ _ => exact absurd rfl hne
    | gRUnlock _ _ => exact absurd rfl hne
    | gLock _ _ _ _ => exact absurd rfl hne
    | gWrite _ _ => exact absurd rfl hne
    | gUnlock _ _ => exact absurd rfl hne
    | waitStart _ => exact absurd rfl hne
    | wait =>
      rename_i hw
      cases waitStep_cases hw with
      | top h e => subst e; exact absurd rfl hne
      | sleeping h e => subst e; exact absurd rfl hne
      | retNone h hl e => subst e; exact absurd rfl hne
      | toSleep h hl e => subst e; exact absurd rfl hne
      | recvNil c r h hc e => subst e; exact absurd rfl hne
      | recvIntr c r i h hc e => subst e; exact absurd rfl hne
      | skip c r h h1 h2 e => subst e; exact absurd rfl hne
      | relock r h e => subst e; exact absurd rfl hne
      | remove c st r h hl e => exact ⟨by simp [h, WaitPc.holdsR], hl⟩
      | cancel c i h hl e => exact ⟨by simp [h, WaitPc.holdsR], hl⟩

/-- Every run of the executable interleaving model (any program table, any schedule) is a path
of the transition system, so all of the above holds along it. -/
theorem model_runs_are_interleavings (progs : List (List Act)) (sched : List Nat) :
    Reach Cfg.fixed (runSys Cfg.fixed sched (Sys.start progs)).proto :=
  runSys_reach sched _ (start_reach progs)

/-! ## Non-vacuity; the regression witness of H1 -/

/-- main prints, spawns two workers (one of which spawns a third core) and writes a global. -/
def demoProgs : List (List Act) :=
  [[.print "m0", .spawn 1, .spawn 2, .gwrite, .print "m1"],
   [.print "a0", .gwrite, .spawn 3, .print "a1"],
   [.gread, .print "b0"],
   [.print "c0", .gwrite]]

def demoRun (seed : Nat) : Sys := runSys Cfg.fixed (schedule seed 400) (Sys.start demoProgs)

/-- Two different schedules: `Wait` returns `nil` after all four cores, the outputs are the same
multiset in different orders. -/
example : (demoRun 1).proto.wait = .returned none ∧ (demoRun 7).proto.wait = .returned none
    ∧ (demoRun 1).proto.n = 4 ∧ (demoRun 1).out ≠ (demoRun 7).out
    ∧ (demoRun 1).out.isPerm (demoRun 7).out = true := by decide +kernel

/-- A failing worker: `Wait` returns its fatal interrupt and the context is cancelled. -/
example : (runSys Cfg.fixed (schedule 3 400) (Sys.start [[.spawn 1, .print "m", .print "m"], [.fail]])).proto.wait
    = .returned (some (1, .fatal)) := by decide +kernel

/-- H1 (fixed): when `Wait` computed the shortened list *before* taking the write lock, a core
spawned in between was dropped from the list: `Wait` returned `nil` although core 2 was still
running. Trace: cores 0 and 1; core 0 finishes; `Wait` takes its `nil` (stale list = [1]);
core 1 spawns core 2 (list = [0, 1, 2]); `Wait` installs the stale list [1]; core 1 finishes;
`Wait` collects it and returns. -/
def h1Trace (cfg : Cfg) : PState :=
  let s0 := { PState.init.spawn.spawn with wait := .top }
  let s1 := { s0 with core := upd s0.core 0 (sent cfg none) }
  let s2 := waitRun cfg 2 s1                       -- top → scan [0,1] → received 0, wants the write lock
  let s3 := s2.spawn                               -- core 1 spawns core 2
  let s4 := waitRun cfg 3 s3                       -- install the list, re-lock, poll core 1 (still running)
  let s5 := { s4 with core := upd s4.core 1 (sent cfg none) }
  waitRun cfg 12 s5

theorem h1_counterexample :
    (h1Trace ⟨true, false, true⟩).wait = .returned none ∧ (h1Trace ⟨true, false, true⟩).core 2 = .running .idle
      ∧ (h1Trace ⟨true, false, true⟩).dropped = false := by
  refine ⟨?_, ?_, ?_⟩ <;> simp [h1Trace, waitRun, waitStep, PState.spawn, PState.init, upd, sent]

/-- With the fixed protocol the same schedule keeps `Wait` waiting for core 2. -/
example : (h1Trace Cfg.fixed).wait ≠ .returned none ∧ (h1Trace Cfg.fixed).listed = [2] := by
  constructor <;> simp [h1Trace, waitRun, waitStep, PState.spawn, PState.init, upd, sent, Cfg.fixed]

end HmsProofs.C17
