import Hms.Conc.Invoke
import HmsProofs.Lemmas.ConcProtocol
import HmsProofs.Lemmas.ConcInvoke
/-!
# C16 — host invocations on one VM are correct, repeatable and leave no residue

Property theorems only (lemmas: `HmsProofs/Lemmas/ConcInvoke.lean`, `ConcProtocol.lean`).
The model is `Hms/Conc/Invoke.lean` (host layer) on top of `Hms/Conc/Protocol.lean` (the `Wait`
protocol as it is after the fixes V18/V19/H1). Everything is stated for *all* value types,
globals types, programs (callee bodies are arbitrary functions) and invocation histories.
-/
namespace HmsProofs.C16
open Hms.Conc

/-- Reversal, pre-push and the callee's pops bind parameter `i` to argument `i`: popping one
operand per declared parameter from the pre-pushed stack yields the arguments in declared order
and leaves the stack empty. -/
theorem args_in_order {V : Type} (args : List V) :
    popN args.length (prePush (invert args)) = (args, []) :=
  popN_prePush_invert args

/-- …hence on a VM that has not failed, a valid call runs the callee's body on exactly the
host's arguments and the current globals. -/
theorem body_sees_args {V G : Type} (prog : Prog V G) (s : VMState V G) (c : Call V) (sg : FnSig)
    (hsig : prog.sig c.fn = some sg) (hlen : c.args.length = sg.params)
    (hq : s.quiescent) (hc : s.proto.cancelled = false) :
    (invoke Cfg.fixed prog s c).1.globals = (prog.body c.fn c.args s.globals).globals
      ∧ (invoke Cfg.fixed prog s c).2.2 = (prog.body c.fn c.args s.globals).out := by
  rw [invoke_quiescent prog s c sg hsig hlen hq]
  simp only [invokeSpec, runCore, hc, ← hlen, args_in_order]
  cases (prog.body c.fn c.args s.globals).res <;> simp

/-- The host receives exactly the value the callee left on top of its stack, provided it passes
the declared return type's assertion (otherwise the host call panics: never a wrong value);
a function whose declared type carries no value yields `nil`; and the finished core holds
nothing but that value. -/
theorem result_is_stack_top {V G : Type} (prog : Prog V G) (s : VMState V G) (c : Call V) (sg : FnSig)
    (hsig : prog.sig c.fn = some sg) (hlen : c.args.length = sg.params)
    (hq : s.quiescent) (hc : s.proto.cancelled = false) (v : Option V)
    (hb : (prog.body c.fn c.args s.globals).res = .ret v) :
    (invoke Cfg.fixed prog s c).2.1 =
        (if sg.hasValue then
          match v with
          | some x => if prog.typeOk c.fn x then .ret (some x) else .hostPanic "return type assertion failed"
          | none => .hostPanic "index out of range"
        else .ret none)
      ∧ (invoke Cfg.fixed prog s c).1.last = some { stack := v.toList, frames := 0 } := by
  rw [invoke_quiescent prog s c sg hsig hlen hq]
  simp only [invokeSpec, runCore, hc, ← hlen, args_in_order, hb]
  cases v <;> simp [handleTermination, push]

/-- Globals persist: what one call's body leaves is what the next call's body receives. -/
theorem globals_persist {V G : Type} (prog : Prog V G) (s : VMState V G) (c₁ c₂ : Call V) (sg₁ sg₂ : FnSig)
    (h₁ : prog.sig c₁.fn = some sg₁) (l₁ : c₁.args.length = sg₁.params)
    (h₂ : prog.sig c₂.fn = some sg₂) (l₂ : c₂.args.length = sg₂.params)
    (hq : s.quiescent) (hc : s.proto.cancelled = false) (v : Option V)
    (hb : (prog.body c₁.fn c₁.args s.globals).res = .ret v) :
    let s₁ := (invoke Cfg.fixed prog s c₁).1
    (invoke Cfg.fixed prog s₁ c₂).1.globals
      = (prog.body c₂.fn c₂.args (prog.body c₁.fn c₁.args s.globals).globals).globals := by
  intro s₁
  have hq₁ : s₁.quiescent := invoke_preserves_quiescent prog s c₁ hq
  have hg : s₁.globals = (prog.body c₁.fn c₁.args s.globals).globals :=
    (body_sees_args prog s c₁ sg₁ h₁ l₁ hq hc).1
  have hc₁ : s₁.proto.cancelled = false := by
    show (invoke Cfg.fixed prog s c₁).1.proto.cancelled = false
    rw [invoke_quiescent prog s c₁ sg₁ h₁ l₁ hq]
    simp [invokeSpec, syncEnd_cancelled, runCore, hc, ← l₁, args_in_order, hb]
  rw [(body_sees_args prog s₁ c₂ sg₂ h₂ l₂ hq₁ hc₁).1, hg]

/-- Every invocation runs on a fresh core: the answer of a call (result up to the core number,
output, globals afterwards, finished core) depends on the VM only through its globals and its
cancelled flag — nothing of any earlier core (stack, frames, handlers, core list, counters)
is visible to it. -/
theorem fresh_core_isolated {V G : Type} (prog : Prog V G) (s₁ s₂ : VMState V G) (c : Call V)
    (hq₁ : s₁.quiescent) (hq₂ : s₂.quiescent)
    (hg : s₁.globals = s₂.globals) (hc : s₁.proto.cancelled = s₂.proto.cancelled) :
    let r₁ := invoke Cfg.fixed prog s₁ c
    let r₂ := invoke Cfg.fixed prog s₂ c
    r₁.2.1.anon = r₂.2.1.anon ∧ r₁.2.2 = r₂.2.2 ∧ r₁.1.globals = r₂.1.globals ∧
      (∀ sg, prog.sig c.fn = some sg → c.args.length = sg.params → r₁.1.last = r₂.1.last) := by
  intro r₁ r₂
  cases hsig : prog.sig c.fn with
  | none => simp [r₁, r₂, invoke, hsig, hg, Result.anon]
  | some sg =>
    by_cases hlen : c.args.length = sg.params
    · simp only [r₁, r₂]
      rw [invoke_quiescent prog s₁ c sg hsig hlen hq₁, invoke_quiescent prog s₂ c sg hsig hlen hq₂]
      simp only [invokeSpec, hg, hc]
      refine ⟨?_, trivial, trivial, fun _ _ _ => trivial⟩
      split
      · rfl
      · simp [Result.anon]
    · refine ⟨?_, ?_, ?_, ?_⟩
      · simp [r₁, r₂, invoke, hsig, hlen, Result.anon]
      · simp [r₁, r₂, invoke, hsig, hlen]
      · simp [r₁, r₂, invoke, hsig, hlen, hg]
      · intro sg' h1 h2
        cases h1
        exact absurd h2 hlen

/-- After every call of every history the core list is empty again… -/
theorem cores_empty_after_wait {V G : Type} (prog : Prog V G) (cs : List (Call V)) (s : VMState V G)
    (hq : s.quiescent) : (runHistory Cfg.fixed prog s cs).1.proto.listed = [] := by
  induction cs generalizing s with
  | nil => exact hq.1
  | cons c cs ih => exact ih _ (invoke_preserves_quiescent prog s c hq)

/-- …and the cores lock can be taken (no read lock is left behind, `Wait` is not inside). -/
theorem lock_free_after_wait {V G : Type} (prog : Prog V G) (cs : List (Call V)) (s : VMState V G)
    (hq : s.quiescent) :
    (runHistory Cfg.fixed prog s cs).1.proto.lockFree = true ∧ (runHistory Cfg.fixed prog s cs).1.proto.leaked = 0 := by
  induction cs generalizing s with
  | nil => exact ⟨quiescent_lockFree hq, hq.2.1⟩
  | cons c cs ih => exact ih _ (invoke_preserves_quiescent prog s c hq)

/-- No call of any history ever blocks (the answer `blocked` = `spawnCore` cannot take the cores
lock, or `Wait` does not return). -/
theorem never_blocks {V G : Type} (prog : Prog V G) (cs : List (Call V)) (s : VMState V G)
    (hq : s.quiescent) : ∀ r ∈ (runHistory Cfg.fixed prog s cs).2, r.1 ≠ .blocked := by
  induction cs generalizing s with
  | nil => intro r hr; cases hr
  | cons c cs ih =>
    intro r hr
    simp only [runHistory, List.mem_cons] at hr
    rcases hr with rfl | hr
    · exact invoke_not_blocked prog s c hq
    · exact ih _ (invoke_preserves_quiescent prog s c hq) r hr

/-- After a failed call the VM answers every later call — it never blocks — and it answers with
a failure: no later call returns a value. -/
theorem after_failure_answers {V G : Type} (prog : Prog V G) (s : VMState V G) (c : Call V)
    (cs : List (Call V)) (hq : s.quiescent) (hf : (invoke Cfg.fixed prog s c).2.1.isFailure = true) :
    ∀ r ∈ (runHistory Cfg.fixed prog (invoke Cfg.fixed prog s c).1 cs).2,
      r.1 ≠ .blocked ∧ r.1.isRet = false := by
  have hq' := invoke_preserves_quiescent prog s c hq
  have hc' := invoke_failure_cancels prog s c hq hf
  generalize (invoke Cfg.fixed prog s c).1 = s' at hq' hc'
  clear hf
  induction cs generalizing s' with
  | nil => intro r hr; cases hr
  | cons d ds ih =>
    intro r hr
    simp only [runHistory, List.mem_cons] at hr
    rcases hr with rfl | hr
    · refine ⟨invoke_not_blocked prog s' d hq', ?_⟩
      cases hsig : prog.sig d.fn with
      | none => simp [invoke, hsig, Result.isRet]
      | some sg =>
        by_cases hlen : d.args.length = sg.params
        · rw [(invoke_on_cancelled prog s' d sg hsig hlen hq' hc').1]; rfl
        · simp [invoke, hsig, hlen, Result.isRet]
    · exact ih _ (invoke_preserves_quiescent prog s' d hq') (invoke_cancelled_mono prog s' d hq' hc') r hr

/-- Every history of invocations is a run of the protocol's transition system (spawn, the core's
signal, `Wait`'s steps are `Step`s), so the invariants proved over all interleavings (C10, C17)
hold along it. Callee bodies are arbitrary except that they cannot fabricate a termination. -/
theorem invocations_are_protocol_runs {V G : Type} (prog : Prog V G) (cs : List (Call V)) (s : VMState V G)
    (hterm : ∀ f a g k m, (prog.body f a g).res ≠ .fail .terminate k m)
    (hr : Reach Cfg.fixed s.proto) (hq : s.quiescent) :
    Reach Cfg.fixed (runHistory Cfg.fixed prog s cs).1.proto := by
  induction cs generalizing s with
  | nil => exact hr
  | cons c cs ih =>
    exact ih _ (invoke_reach Cfg.fixed prog s c hterm hr hq.2.2) (invoke_preserves_quiescent prog s c hq)

/-! ## Non-vacuity and the regression witnesses of the fixed findings -/

/-- A three-function program over `Int` values with an `Int` counter as globals:
`sub(a, b) = a - b`, `bump() = ++counter`, `boom()` throws. -/
def demo : Prog Int Int where
  sig := fun f => match f with
    | "sub" => some ⟨2, true⟩ | "bump" => some ⟨0, true⟩ | "boom" => some ⟨0, true⟩ | "nul" => some ⟨0, false⟩
    | _ => none
  body := fun f args g => match f, args with
    | "sub", [a, b] => ⟨g, "", .ret (some (a - b))⟩
    | "bump", [] => ⟨g + 1, "b", .ret (some (g + 1))⟩
    | "boom", [] => ⟨g, "", .fail .fatal "UncaughtThrow" "bang"⟩
    | _, _ => ⟨g + 100, "", .ret none⟩
  typeOk := fun _ _ => true

def demoHistory : List (Call Int) :=
  [⟨"sub", [10, 3]⟩, ⟨"bump", []⟩, ⟨"bump", []⟩, ⟨"nul", []⟩, ⟨"boom", []⟩, ⟨"sub", [1, 1]⟩, ⟨"bump", []⟩]

example : (VMState.init (V := Int) (0 : Int)).quiescent := by simp [VMState.quiescent, VMState.init, PState.init, WaitPc.active]

/-- The history exercises argument order (10 - 3 = 7), persistent globals (1, 2), a `null`
function, a failure and the answers after it. -/
example : ((runHistory Cfg.fixed demo (VMState.init 0) demoHistory).2.map (·.1)) =
    [.ret (some 7), .ret (some 1), .ret (some 2), .ret none, .exc 4 .fatal "UncaughtThrow" "bang",
     .exc 5 .terminate "-" "context canceled", .exc 6 .terminate "-" "context canceled"] := by decide +kernel

/-- V18 (fixed): when `Wait` returned from its interrupt path with the read lock held, the call
after a failed call blocked forever — witness history [ok, throw, ok]. -/
theorem v18_counterexample :
    ((runHistory ⟨true, true, false⟩ demo (VMState.init 0)
        [⟨"sub", [10, 3]⟩, ⟨"boom", []⟩, ⟨"sub", [1, 1]⟩]).2.map (·.1)) =
      [.ret (some 7), .exc 1 .fatal "UncaughtThrow" "bang", .blocked] := by decide +kernel

end HmsProofs.C16
