import Hms.Core.Sem
import HmsGen.Enums
/-!
# C04 — the tree-walking interpreter and the VM agree

Part 1 (this file): the two backends use the same vocabulary of fatal-error kinds — the
"corresponding kind" of the property is made precise by the regenerated `String()` tables of
`runtime/value.VMFatalExceptionKind` and `interpreter/value.RuntimeErrorKind`.
Both backends are tied to one specification semantics (`Hms.Core.runProgram`) by the
correspondence runs of C01 (VM) and C04 (interpreter); agreement of the backends on the
modelled fragment is the conjunction of the two ties.
-/
namespace HmsProofs.C04

/-- Every fatal kind of either backend has a printable name (no `String()` panic). -/
theorem fatal_kinds_printable :
    (∀ e ∈ HmsGen.vmFatalKindStrings, e.2.isSome = true)
    ∧ (∀ e ∈ HmsGen.treeFatalKindStrings, e.2.isSome = true) := by decide

/-- The fatal kinds of the two backends correspond one to one: same number of kinds, same name
at every position. A kind added or renamed on one side only breaks this. -/
theorem kinds_bijective : HmsGen.vmFatalKindStrings = HmsGen.treeFatalKindStrings := by decide

/-- The names are pairwise distinct, so "the same kind" is decided by the name. -/
theorem kind_names_distinct : (HmsGen.vmFatalKindStrings.map (·.2)).Nodup := by decide

/-- The interrupt classes both backends report to the host share their names. -/
theorem interrupt_kinds_shared :
    ∀ e ∈ HmsGen.vmInterruptKindStrings, ∃ f ∈ HmsGen.treeInterruptKindStrings, f.2 = e.2 := by decide

end HmsProofs.C04
