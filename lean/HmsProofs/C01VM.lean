import HmsProofs.Lemmas.SimPipeline
import HmsProofs.Lemmas.SimPureFinal
import HmsProofs.Lemmas.SimStmtFinal
import HmsProofs.Lemmas.SimSlots
/-!
# C01 (part 2) — the compiler and the VM simulate the specification semantics

Property-level statements about the *existing* models `Hms.Core.Comp` (compiler) and
`Hms.Core.VM` (virtual machine) versus `Hms.Core.evalExpr` (specification). The proofs live in
`HmsProofs/Lemmas/Sim*.lean`; here each statement is restated in full, with what it means for
the Go code and a concrete instance.

1. `relocate_*`, `label_*`, `sourcemap_aligned` — `relocateLabels`;
2. `renameVars_*`, `slots_*` — `renameVariables`;
3. `compileExpr_straight` — the instruction stream of a straight-line expression;
4. `straight_ok`, `straight_fatal`, `straight_runQuantum*`, `compiled_straight_correct` —
   executing that stream on the VM agrees with the specification;
5. `compileExpr_pure`, `pure_labels_fresh`, `pure_ok`, `pure_fatal`, `compiled_pure_correct` —
   the same for expressions with `&&`, `||` and `if`/`else` (jumps and labels);
6. `compileStmts_frag`, `mangled_names_injective`, `stmts_correct`, `compiled_stmts_correct` —
   `let`, assignment, compound assignment, `if` statements and `while`; no hypothesis on the
   identifiers: with the `.`-separated mangling (fix of finding V26) names are injective;
7. `compileFn_frag`, `fn_slots_fit`, `fn_body_correct`, `fn_run` — a whole parameterless function whose body
   is such a statement block: what `compileFn` emits, that its slots fit the frame reserved by
   `AddMempointer`, and that running it from its first instruction returns to the caller having
   simulated the specification (label hygiene, relocation, renaming and the initial relation are
   all discharged, no `Placed`/`StRel` hypothesis is left).
-/
namespace HmsProofs.C01VM
open Hms.Core Hms.Core.Comp Hms.Core.VM HmsProofs.Sim

/-! ## 1. `relocateLabels` -/

/-- **Relocation, shape of the output.** If `relocateLabels` succeeds, the function's code is the
emitted code with the `Label` pseudo-instructions removed; every other instruction is kept in
order and unchanged, except that the label operand of `Jump` / `JumpIfFalse` / `SetTryLabel` is
replaced by `labelIndex code l`. -/
theorem relocate_shape (code : SCode) (out : List (Instr Nat String × Span)) (h : relocate code = some out) :
    out = (stripLabels code).map (resolve (labelIndex code)) ∧ out.length = (stripLabels code).length :=
  ⟨relocate_some code out h, relocate_length code out h⟩

/-- **What a label resolves to.** `l ↦ n` iff the code is `pre ++ label l :: post` with no further
`label l` in `post` (the Go map keeps the *last* definition) and `n` is the number of real
instructions in `pre` — i.e. the output index of the first real instruction at or after that
label (`stripLabels code = stripLabels pre ++ stripLabels post`). -/
theorem label_resolution (code : SCode) (l : String) (n : Nat) :
    labelIndex? code l = some n ↔
      ∃ pre sp post, code = pre ++ (Instr.label l, sp) :: post ∧
        (∀ sp', (Instr.label l, sp') ∉ post) ∧ n = (stripLabels pre).length ∧
        stripLabels code = stripLabels pre ++ stripLabels post := by
  rw [labelIndex?_eq_some_iff]
  constructor
  · rintro ⟨pre, sp, post, rfl, h1, h2⟩
    exact ⟨pre, sp, post, rfl, h1, h2, by rw [stripLabels_append, stripLabels_cons_label]⟩
  · rintro ⟨pre, sp, post, h0, h1, h2, _⟩
    exact ⟨pre, sp, post, h0, h1, h2⟩

/-- A resolved label never points beyond the end of the function (it may equal the length: a
label at the very end). -/
theorem label_index_le (code : SCode) (out) (h : relocate code = some out) (l : String)
    (hl : ∃ sp, (Instr.label l, sp) ∈ code) : labelIndex code l ≤ out.length :=
  relocate_target_le code out h l hl

/-- **`sourcemap_aligned`.** The span paired with the i-th instruction of the relocated function
is the span that instruction was emitted with: removing labels never shifts the source map. -/
theorem sourcemap_aligned (code : SCode) (out) (h : relocate code = some out) :
    out.map (·.2) = (stripLabels code).map (·.2) :=
  relocate_spans code out h

/-- **Failure.** `relocateLabels` fails exactly when some jump target was never defined. -/
theorem relocate_fails_iff (code : SCode) :
    relocate code = none ↔
      ∃ p ∈ code, ∃ l, target? p.1 = some l ∧ ∀ sp, (Instr.label l, sp) ∉ code :=
  relocate_eq_none_iff code

section Example1
private def s1 : Span := ⟨1, 1, 1, 1⟩
private def s2 : Span := ⟨2, 2, 2, 2⟩
private def relocEx : SCode :=
  [(.label "a", s1), (.nop, s1), (.jumpIfFalse "b", s2), (.label "a", s2), (.jump "a", s1), (.label "b", s2)]

example : relocate relocEx = some [(.nop, s1), (.jumpIfFalse 3, s2), (.jump 2, s1)] := rfl
example : labelIndex relocEx "a" = 2 ∧ labelIndex relocEx "b" = 3 := by decide
example : relocate [((.jump "nowhere" : SInstr), s1)] = none := rfl
end Example1

/-! ## 2. `renameVariables` -/

/-- **Renaming is an instruction-wise map.** Only the operand of `GetVarImm` / `SetVarImm`
changes (mangled name ↦ `slotFn code name`); all other instructions, all spans, the order and
the length are unchanged. -/
theorem renameVars_shape (code : NCode) :
    renameVars code = code.map (fun p => (mapLV id (slotFn code) p.1, p.2)) ∧
    (renameVars code).length = code.length ∧
    (renameVars code).map (·.2) = code.map (·.2) :=
  ⟨renameVars_eq_map code, renameVars_length code, renameVars_spans code⟩

/-- **Slots are injective**: two occurrences get the same slot iff they carry the same mangled
name. -/
theorem slots_injective (code : NCode) (v w : String) (hv : v ∈ varNames code) (hw : w ∈ varNames code) :
    slotFn code v = slotFn code w ↔ v = w :=
  slotFn_inj code v w hv hw

/-- **Slots are dense**: every slot is below the number of distinct names of the function
(`distinctNames code` lists each name exactly once). -/
theorem slots_dense (code : NCode) :
    (distinctNames code).Nodup ∧ (∀ v, v ∈ distinctNames code ↔ v ∈ varNames code) ∧
    ∀ v ∈ varNames code, slotFn code v < (distinctNames code).length :=
  ⟨distinctNames_nodup code, mem_distinctNames code, slotFn_lt code⟩

section Example2
private def s0 : Span := ⟨0, 0, 0, 0⟩
private def renEx : NCode :=
  [(.setVar "@m.x.0", s0), (.setVar "@m.y.0", s0), (.getVar "@m.x.0", s0), (.jump 7, s0), (.getVar "@m.y.0", s0)]

example : renameVars renEx =
    [(.setVar 0, s0), (.setVar 1, s0), (.getVar 0, s0), (.jump 7, s0), (.getVar 1, s0)] := rfl
example : slotFn renEx "@m.x.0" = 0 ∧ slotFn renEx "@m.y.0" = 1 ∧ distinctNames renEx = ["@m.x.0", "@m.y.0"] := by
  decide
end Example2

/-! ## 3. The instruction stream of a straight-line expression -/

/-- **`compileExpr` on straight-line expressions.** For `e` built from int/bool/string/null/none
literals, parentheses, local variables, prefix operators and the infix operators other than
`&&`/`||`: with enough fuel and every variable of `e` in scope, the Go `compileExpr` appends
exactly the instruction list `cstraightSp ρ e` (a pure function of `e` and of the scope map
`ρ = ρOf cs`) to the current function — `appendCode` touches nothing else: label counters,
variable counters, scopes, loops and the `unsupported` flag are as before. -/
theorem compileExpr_straight (fuel : Nat) (e : Expr) (cs : CState)
    (hs : Frag.straight e = true) (hfuel : Frag.depth e ≤ fuel)
    (hv : ∀ x ∈ Frag.vars e, (ρOf cs x).isSome = true) :
    (compileExpr fuel e).run cs = ((), appendCode cs (cstraightSp (ρOf cs) e)) ∧
    (∀ f, cs.fns.lookup (cs.currModule, cs.currFn) = some f →
      (appendCode cs (cstraightSp (ρOf cs) e)).fns.lookup (cs.currModule, cs.currFn)
        = some { f with code := f.code ++ cstraightSp (ρOf cs) e }) ∧
    (∀ p ∈ cstraightSp (ρOf cs) e, isLabel p.1 = false ∧ target? p.1 = none) :=
  ⟨Sim.compileExpr_straight fuel e cs hs hfuel hv,
   fun f hf => appendCode_lookup cs _ f hf,
   cstraightSp_plain _ _ e (Nat.le_refl _)⟩

section Example3
private def sp0 : Span := ⟨0, 0, 0, 0⟩
private def spA : Span := ⟨1, 2, 1, 6⟩
private def spM : Span := ⟨1, 1, 1, 11⟩
/-- `(1 + x) * 3` -/
def ex1 : Expr :=
  .infix spM .int .mul
    (.grouped sp0 (.infix spA .int .add (.int sp0 1) (.ident sp0 .int "x" false false false)))
    (.int sp0 3)

def cs0 : CState :=
  { fns := [(("main", "main"), { name := "@main.main", code := [(.addMp 1, sp0)] })],
    currFn := "main", currModule := "main", scopes := [[("x", "@main.x.0")]] }

example : Frag.straight ex1 = true ∧ Frag.depth ex1 ≤ 4 ∧ ∀ x ∈ Frag.vars ex1, (ρOf cs0 x).isSome = true := by
  decide

example : cstraightSp (ρOf cs0) ex1 =
    [(.copyPush (.int 1), sp0), (.getVar "@main.x.0", sp0), (.add, spA), (.copyPush (.int 3), sp0), (.mul, spM)] := rfl

/-- The statement instantiated: the real `compileExpr` run agrees. -/
example : (((compileExpr 4 ex1).run cs0).2.fns.lookup ("main", "main")).map (·.code) =
    some ([(.addMp 1, sp0)] ++ cstraightSp (ρOf cs0) ex1) := by
  rw [(compileExpr_straight 4 ex1 cs0 (by decide) (by decide) (by decide)).1]
  rfl
end Example3

/-! ## 4. Straight-line code on the VM agrees with the specification -/

/-- **Values.** Let the current function's VM code contain, from the current `ip` on, the
lowered instructions of `e` (labels through any `lab`, names through `σ`); let every variable of
`e` be related by `EnvRel` (visible in the specification's scopes, resolved by `ρ`, its slot
inside the memory limit and holding the same value) and let both sides share the heap. If the
specification evaluates `e` to a value `v`, then it does so without changing its state, and the
VM, executing exactly `n = |code of e|` instructions with `VM.step` — no interrupt, no panic —
reaches the state with `ip + n`, `v` pushed, and stack below, memory, heap, output, globals,
handlers untouched (`done s n v`). -/
theorem straight_ok (cfg : Cfg) (code : Code) (lim : Limits) (ρ : String → Option String)
    (σ lab : String → Nat) (fuel : Nat) (e : Expr) (st st' : St) (v : Val) (s : VMState)
    (f : Frame) (rest : List Frame) (c : List (RInstr × Span))
    (hs : Frag.straight e = true) (hcalls : s.calls = f :: rest) (hfn : findCode code f.fn = some c)
    (hcode : CodeAt c f.ip ((cstraightSp ρ e).map (lower lab σ)))
    (henv : EnvRel ρ σ lim (Frag.vars e) st.scopes s.mp s.mem) (hheap : s.st.heap = st.heap)
    (hev : evalExpr cfg fuel e st = (.ok v, st')) :
    st' = st ∧ execN code lim (cstraightSp ρ e).length s = .next (done s (cstraightSp ρ e).length v) := by
  have := exec_straight cfg code lim ρ σ lab fuel e st s f rest c hs hcalls hfn hcode henv hheap
  rw [hev] at this
  exact this

/-- **Fatal errors.** Under the same hypotheses, if the specification ends in a fatal error
(`x / 0`, `x % 0`, a negative shift count: kind `ValueError`), the VM raises the *same* fatal
interrupt — kind, message and source span (the span of the offending operator, which is the
span its instruction was emitted with) — and its store is untouched. Fatal interrupts are not
catchable, so this is the program's outcome. -/
theorem straight_fatal (cfg : Cfg) (code : Code) (lim : Limits) (ρ : String → Option String)
    (σ lab : String → Nat) (fuel : Nat) (e : Expr) (st st' : St) (k m : String) (fsp : Span) (s : VMState)
    (f : Frame) (rest : List Frame) (c : List (RInstr × Span))
    (hs : Frag.straight e = true) (hcalls : s.calls = f :: rest) (hfn : findCode code f.fn = some c)
    (hcode : CodeAt c f.ip ((cstraightSp ρ e).map (lower lab σ)))
    (henv : EnvRel ρ σ lim (Frag.vars e) st.scopes s.mp s.mem) (hheap : s.st.heap = st.heap)
    (hev : evalExpr cfg fuel e st = (.error (.fatal k m fsp), st')) :
    st' = st ∧ ∃ s', execN code lim (cstraightSp ρ e).length s = .intr (.fatal k m fsp) s' ∧ SameStore s s' := by
  have := exec_straight cfg code lim ρ σ lab fuel e st s f rest c hs hcalls hfn hcode henv hheap
  rw [hev] at this
  exact this

/-- `execN` is the VM's own loop: after a successful `execN n`, `runQuantum` (the inner loop of
`Core.Run`) has consumed `n` iterations and continues from the reached state; a fatal interrupt
found by `execN` is the outcome `runQuantum` returns. -/
theorem straight_runQuantum (code : Code) (lim : Limits) (n m : Nat) (s s' : VMState)
    (h : execN code lim n s = .next s') :
    runQuantum code lim (n + m) s = runQuantum code lim m s' :=
  runQuantum_of_execN code lim m n s s' h

theorem straight_runQuantum_fatal (code : Code) (lim : Limits) (n m : Nat) (s s' : VMState)
    (k msg : String) (sp : Span) (h : execN code lim n s = .intr (.fatal k msg sp) s') :
    runQuantum code lim (n + m) s = .inr (.fatal k msg sp s') :=
  runQuantum_of_execN_fatal code lim m n s s' k msg sp h

/-- **The three passes together.** If the symbolic code of a function is
`pre ++ cstraightSp ρ e ++ post` (by `compileExpr_straight` that is what compiling `e` in the
middle of a function produces), `relocateLabels` succeeds with `r`, and the VM runs
`renameVariables r` as the code of the current frame's function with `ip` = the number of real
instructions of `pre`, then — the environment relation being taken with the function's own slot
assignment `slotFn r` — the conclusions of `straight_ok` / `straight_fatal` hold
(`Sim1`: value ↦ `done s n v`; fatal ↦ same fatal interrupt; otherwise no claim). -/
theorem compiled_straight_correct (cfg : Cfg) (code : Code) (lim : Limits) (ρ : String → Option String)
    (fuel : Nat) (e : Expr) (st : St) (s : VMState) (f : Frame) (rest : List Frame)
    (pre post : SCode) (r : NCode)
    (hs : Frag.straight e = true)
    (hrel : relocate (pre ++ cstraightSp ρ e ++ post) = some r)
    (hcalls : s.calls = f :: rest) (hfn : findCode code f.fn = some (renameVars r))
    (hip : f.ip = (stripLabels pre).length)
    (henv : EnvRel ρ (slotFn r) lim (Frag.vars e) st.scopes s.mp s.mem) (hheap : s.st.heap = st.heap) :
    Sim1 code lim s (cstraightSp ρ e).length st (evalExpr cfg fuel e st) := by
  refine exec_straight cfg code lim ρ (slotFn r) (labelIndex (pre ++ cstraightSp ρ e ++ post))
    fuel e st s f rest _ hs hcalls hfn ?_ henv hheap
  rw [hip]
  exact codeAt_straight ρ e pre post r hrel

section Example4
/-- The function body `addMp 1; <(1 + x) * 3>; label end; ret` as the compiler emits it. -/
private def symCode : SCode :=
  [(.addMp 1, sp0)] ++ cstraightSp (ρOf cs0) ex1 ++ [(.label "end", sp0), (.ret, sp0)]
private def relCode : NCode := (stripLabels symCode).map (resolve (labelIndex symCode))
private def vmCode : Code := [{ name := "@main.main", code := renameVars relCode }]
/-- `x = 3` in slot 0 at `mp = 5`; the frame is at instruction 1 (after `addMp`). -/
private def vm0 : VMState := { calls := [⟨"@main.main", 1⟩], mp := 5, mem := [(5, .int 3)] }
private def spec0 : St := { scopes := [[("x", .int 3)]] }

private theorem relocate_symCode : relocate symCode = some relCode := rfl

private theorem env0 : EnvRel (ρOf cs0) (slotFn relCode) {} (Frag.vars ex1) spec0.scopes vm0.mp vm0.mem := by
  intro x hx
  have : x = "x" := by simpa [Frag.vars, ex1] using hx
  subst this
  exact ⟨"@main.x.0", .int 3, rfl, rfl, by decide, by decide, rfl⟩

/-- `(1 + x) * 3` with `x = 3`: the specification says 12 … -/
example : evalExpr { prog := [] } 4 ex1 spec0 = (.ok (.int 12), spec0) := rfl
/-- … and five VM steps push 12 (the statement instantiated through all three passes). -/
example : execN vmCode {} 5 vm0 = .next (done vm0 5 (.int 12)) := by
  have h := compiled_straight_correct { prog := [] } vmCode {} (ρOf cs0) 4 ex1 spec0 vm0
    ⟨"@main.main", 1⟩ [] [(.addMp 1, sp0)] [(.label "end", sp0), (.ret, sp0)] relCode
    (by decide) relocate_symCode rfl rfl rfl env0 rfl
  have hev : evalExpr { prog := [] } 4 ex1 spec0 = (.ok (.int 12), spec0) := rfl
  rw [hev] at h
  exact h.2

private def spD : Span := ⟨7, 3, 7, 14⟩
/-- `1 / (x - 3)` -/
private def ex2 : Expr :=
  .infix spD .int .div (.int sp0 1)
    (.grouped sp0 (.infix spA .int .sub (.ident sp0 .int "x" false false false) (.int sp0 3)))
private def vmCode2 : Code :=
  [{ name := "f", code := (cstraightSp (ρOf cs0) ex2).map (lower (fun _ => 0) (fun _ => 0)) }]
private def vm2 : VMState := { calls := [⟨"f", 0⟩], mp := 5, mem := [(5, .int 3)] }

/-- `1 / (x - 3)` with `x = 3`: the specification's fatal `ValueError` at the span of `/` is
the VM's fatal interrupt. -/
example : ∃ s', execN vmCode2 {} 5 vm2 =
    .intr (.fatal "ValueError" "Division by zero error: this is operation is illegal" spD) s' ∧ SameStore vm2 s' := by
  have h := straight_fatal { prog := [] } vmCode2 {} (ρOf cs0) (fun _ => 0) (fun _ => 0) 4 ex2 spec0 spec0
    "ValueError" "Division by zero error: this is operation is illegal" spD vm2 ⟨"f", 0⟩ [] _
    (by decide) rfl rfl (fun k _ => by simp) ?_ rfl rfl
  · exact h.2
  · intro x hx
    have : x = "x" := by simpa [Frag.vars, ex2] using hx
    subst this
    exact ⟨"@main.x.0", .int 3, rfl, rfl, by decide, by decide, rfl⟩
end Example4

/-! ## 5. Pure expressions with control flow: `&&`, `||`, `if`/`else` -/

/-- **`compileExpr` on pure expressions with control flow.** For `e` in `Frag.pureE` (the
straight-line fragment plus `&&`, `||`, and `if c { t } else { e }` whose branches are single
pure expressions) the emitted code — now containing `Label`s and jumps — is the pure function
`cpE module ρ e labelCounters`; compiling appends it to the current function and advances the
label counters accordingly; nothing else changes (`upd`). -/
theorem compileExpr_pure (fuel : Nat) (e : Expr) (cs : CState)
    (hs : Frag.pureE e = true) (hd : Frag.depthE e ≤ fuel)
    (hv : ∀ x ∈ Frag.varsE e, (ρOf cs x).isSome = true) :
    (compileExpr fuel e).run cs =
      ((), upd cs (cpE cs.currModule (ρOf cs) e cs.labelMangle).1 (cpE cs.currModule (ρOf cs) e cs.labelMangle).2) :=
  Sim.compileExpr_pure fuel e cs hs hd hv

/-- **Label hygiene.** The labels defined in the code of a pure expression are pairwise
distinct, and each is `<module>.<ident>.<n>` with `n` between the counter of `ident` before and
after — so they differ from every label generated earlier or later (names are injective:
`labelName_inj`). This is what makes `relocateLabels`' "last definition wins" harmless. -/
theorem pure_labels_fresh (mod : String) (ρ : String → Option String) (e : Expr) (lm : LM) :
    LblInv mod lm (cpE mod ρ e lm).2 (definedLabels (cpE mod ρ e lm).1) :=
  (cpE_labels mod ρ (Frag.depthE e)).1 e lm (Nat.le_refl _)

/-- **Label names are injective**: for a fixed module, `<module>.<ident>.<n>` (what `mangleLabel`
returns: `freshLabel_fst`) determines `(ident, n)` — for every identifier, digits or dots
included: `n` is what follows the last `.`. -/
theorem label_names_injective (mod id1 id2 : String) (c1 c2 : Nat)
    (h : labelName mod id1 c1 = labelName mod id2 c2) : id1 = id2 ∧ c1 = c2 :=
  labelName_inj mod id1 id2 c1 c2 h

/-- **Values.** `Placed`: the VM code of the current function holds `e`'s code (labels stripped,
lowered through `lab`, `σ`) from the frame's `ip` on, and `lab` sends each label defined in it
to its position. If the specification evaluates `e` to `v` then its state is unchanged and the
VM gets, in some number `k` of `VM.step`s without interrupt or panic, to `ip + n` (`n` = number
of real instructions of the fragment) with `v` pushed and nothing else changed — whichever
branches were taken. -/
theorem pure_ok (cfg : Cfg) (code : Code) (lim : Limits) (mod : String) (ρ : String → Option String)
    (σ lab : String → Nat) (fuel : Nat) (e : Expr) (lm : LM) (st st' : St) (v : Val) (s : VMState)
    (f : Frame) (rest : List Frame) (c : List (RInstr × Span))
    (hs : Frag.pureE e = true) (hcalls : s.calls = f :: rest) (hfn : findCode code f.fn = some c)
    (hcode : Placed lab σ c f.ip (cpE mod ρ e lm).1)
    (henv : EnvRel ρ σ lim (Frag.varsE e) st.scopes s.mp s.mem) (hheap : s.st.heap = st.heap)
    (hev : evalExpr cfg fuel e st = (.ok v, st')) :
    st' = st ∧ ∃ k, execN code lim k s =
      .next (reach s (f.ip + nI (cpE mod ρ e lm).1) k (⟨v, none⟩ :: s.stack) s.mem) := by
  have := exec_pure cfg code lim mod ρ σ lab s f rest c hcalls hfn fuel e st f.ip s.stack s.mem lm hs hcode henv hheap
  rw [hev] at this
  exact ⟨this.1, this.2.from_state hcalls⟩

/-- **Fatal errors.** Same hypotheses; a fatal error of the specification is the VM's fatal
interrupt (same kind, message, span), with heap/output/globals untouched. -/
theorem pure_fatal (cfg : Cfg) (code : Code) (lim : Limits) (mod : String) (ρ : String → Option String)
    (σ lab : String → Nat) (fuel : Nat) (e : Expr) (lm : LM) (st st' : St) (kd m : String) (fsp : Span)
    (s : VMState) (f : Frame) (rest : List Frame) (c : List (RInstr × Span))
    (hs : Frag.pureE e = true) (hcalls : s.calls = f :: rest) (hfn : findCode code f.fn = some c)
    (hcode : Placed lab σ c f.ip (cpE mod ρ e lm).1)
    (henv : EnvRel ρ σ lim (Frag.varsE e) st.scopes s.mp s.mem) (hheap : s.st.heap = st.heap)
    (hev : evalExpr cfg fuel e st = (.error (.fatal kd m fsp), st')) :
    st' = st ∧ ∃ k s', execN code lim k s = .intr (.fatal kd m fsp) s' ∧
      s'.st = s.st ∧ s'.mp = s.mp ∧ s'.globals = s.globals ∧ s'.handlers = s.handlers := by
  have := exec_pure cfg code lim mod ρ σ lab s f rest c hcalls hfn fuel e st f.ip s.stack s.mem lm hs hcode henv hheap
  rw [hev] at this
  exact ⟨this.1, this.2.from_state hcalls⟩

/-- **The three passes together, with labels.** Symbolic function code `pre ++ code(e) ++ post`
in which no label of `code(e)` is defined again in `post`; `relocateLabels` gives `r`; the VM
runs `renameVariables r`. Then `Placed` holds with `lab = labelIndex` of the whole function and
`σ = slotFn r` (items 1 and 2), hence the simulation `SimP` from instruction `nI pre`. -/
theorem compiled_pure_correct (cfg : Cfg) (code : Code) (lim : Limits) (mod : String)
    (ρ : String → Option String) (fuel : Nat) (e : Expr) (lm : LM) (st : St) (s : VMState)
    (f : Frame) (rest : List Frame) (pre post : SCode) (r : NCode) (stk : List SVal) (mem : List (Int × Val))
    (hs : Frag.pureE e = true)
    (hrel : relocate (pre ++ (cpE mod ρ e lm).1 ++ post) = some r)
    (hpost : ∀ l ∈ definedLabels (cpE mod ρ e lm).1, l ∉ definedLabels post)
    (hcalls : s.calls = f :: rest) (hfn : findCode code f.fn = some (renameVars r))
    (henv : EnvRel ρ (slotFn r) lim (Frag.varsE e) st.scopes s.mp mem) (hheap : s.st.heap = st.heap) :
    SimP code lim s (nI pre) (nI (cpE mod ρ e lm).1) stk mem st (evalExpr cfg fuel e st) :=
  Sim.compiled_pure_correct cfg code lim mod ρ fuel e lm st s f rest pre post r stk mem hs hrel hpost hcalls hfn
    henv hheap

section Example5
private def spI : Span := ⟨3, 1, 3, 40⟩
private def spL : Span := ⟨3, 4, 3, 20⟩
/-- `if x > 2 && x != 5 { x * 2 } else { 0 }` -/
def ex3 : Expr :=
  .ifE spI .int
    (.infix spL .bool .and
      (.infix sp0 .bool .gt (.ident sp0 .int "x" false false false) (.int sp0 2))
      (.infix sp0 .bool .ne (.ident sp0 .int "x" false false false) (.int sp0 5)))
    (.mk sp0 .int [] (some (.infix sp0 .int .mul (.ident sp0 .int "x" false false false) (.int sp0 2))))
    (some (.mk sp0 .int [] (some (.int sp0 0))))

example : Frag.pureE ex3 = true ∧ Frag.depthE ex3 ≤ 5 := by decide

/-- The emitted code, labels and all … -/
example : (cpE "main" (ρOf cs0) ex3 []).1 =
    [(.getVar "@main.x.0", sp0), (.copyPush (.int 2), sp0), (.gt, sp0),
     (.jumpIfFalse "main.return_false.0", spL),
     (.getVar "@main.x.0", sp0), (.copyPush (.int 5), sp0), (.eq, sp0), (.not, sp0),
     (.jump "main.after_infix.0", spL), (.label "main.return_false.0", spL),
     (.copyPush (.bool false), spL), (.label "main.after_infix.0", spL),
     (.jumpIfFalse "main.else.0", spI),
     (.getVar "@main.x.0", sp0), (.copyPush (.int 2), sp0), (.mul, sp0),
     (.jump "main.if_after.0", spI), (.label "main.else.0", spI),
     (.copyPush (.int 0), sp0), (.label "main.if_after.0", spI)] := rfl

/-- … is what the real `compileExpr` produces (statement instantiated). -/
example : (((compileExpr 5 ex3).run cs0).2.fns.lookup ("main", "main")).map (·.code) =
    some ([(.addMp 1, sp0)] ++ (cpE "main" (ρOf cs0) ex3 []).1) := by
  rw [compileExpr_pure 5 ex3 cs0 (by decide) (by decide) (by decide)]
  rfl

private def symCode3 : SCode :=
  [(.addMp 1, sp0)] ++ (cpE "main" (ρOf cs0) ex3 []).1 ++ [(.label "main.cleanup.0", sp0), (.ret, sp0)]
private def relCode3 : NCode := (stripLabels symCode3).map (resolve (labelIndex symCode3))
private def vmCode3 : Code := [{ name := "@main.main", code := renameVars relCode3 }]
private def vm3 : VMState := { calls := [⟨"@main.main", 1⟩], mp := 5, mem := [(5, .int 3)] }
private def spec3 : St := { scopes := [[("x", .int 3)]] }

/-- With `x = 3` the specification says 6, and the VM — through `relocate`, `renameVars`, both
conditional jumps and the final `jump` — arrives at instruction 17 with 6 pushed. -/
example : ∃ k, execN vmCode3 {} k vm3 = .next (reach vm3 17 k [⟨.int 6, none⟩] vm3.mem) := by
  have h := compiled_pure_correct { prog := [] } vmCode3 {} "main" (ρOf cs0) 5 ex3 [] spec3 vm3
    ⟨"@main.main", 1⟩ [] [(.addMp 1, sp0)] [(.label "main.cleanup.0", sp0), (.ret, sp0)] relCode3 [] vm3.mem
    (by decide) (by rfl) (by decide) rfl rfl ?_ rfl
  · have hev : evalExpr { prog := [] } 5 ex3 spec3 = (.ok (.int 6), spec3) := rfl
    rw [hev] at h
    exact h.2.from_state (f := ⟨"@main.main", 1⟩) rfl
  · intro x hx
    have : x = "x" := by
      simp only [Frag.varsE, Frag.varsB, ex3, List.mem_append, List.mem_singleton, List.not_mem_nil,
        or_self, or_false] at hx
      exact hx
    subst this
    exact ⟨"@main.x.0", .int 3, rfl, rfl, by decide, by decide, rfl⟩
end Example5

/-! ## 6. `let`, assignment, `if`, `while` -/

/-- **`compileStmts` on the statement fragment.** For sequences of `let x = e;`, `x = e;`,
`x op= e;` (local `x`, pure `e`), `if c { … }`, `if c { … } else { … }` and `while c { … }` over
blocks of such statements (`Frag.okSs`), well scoped (`Frag.wsSs`), the Go compiler appends exactly `cSs module ss env` to the current function
and leaves the state `updS …`: scopes, variable counters, label counters and the function's
variable count as computed by the pure function `cSs`; the loop stack and everything else as
before. -/
theorem compileStmts_frag (fuel : Nat) (ss : List Stmt) (cs : CState)
    (hs : Frag.okSs ss = true) (hd : Frag.depthSs ss ≤ fuel)
    (hws : Frag.wsSs cs.currModule ss (envOf cs) = true) :
    (compileStmts fuel ss).run cs =
      ((), updS cs cs.loops (cSs cs.currModule ss (envOf cs)).1 (cSs cs.currModule ss (envOf cs)).2) := by
  have := (compile_stmt fuel).2.1 ss cs hs hd cs.loops [] (envOf cs) hws
  rwa [updS_self, List.nil_append] at this

/-- **Mangled variable names are injective** (the scheme after the fix of finding V26): for a
fixed module, `@<module>.<ident>.<n>` (what `mangleVar` returns: `freshVar`) determines
`(ident, n)` — for every identifier, no hypothesis on its characters: the decimal `n` contains no
`.`, so it is what follows the last `.` of the name. Distinct declarations therefore get distinct
names, hence — by `slots_injective` — distinct slots. -/
theorem mangled_names_injective (mod x y : String) (c d : Nat)
    (h : mangleName mod x c = mangleName mod y d) : x = y ∧ c = d :=
  mangleName_inj mod x y c d h

/-- The names that collided under the old scheme `@<module>_<ident><n>` (`x1`,0 and `x`,10 both
gave `@main_x10`) are now different. -/
example : mangleName "main" "x1" 0 = "@main.x1.0" ∧ mangleName "main" "x" 10 = "@main.x.10" ∧
    mangleName "main" "x1" 0 ≠ mangleName "main" "x" 10 := by decide

section V26Witness
private def mkLet (x : String) (v : Int) : Stmt := .letS sp0 x .int false .int (.int sp0 v)
private def printVar (x : String) : Stmt :=
  .exprS sp0 (.call sp0 .null (.ident sp0 (.fn [] .null) "println" false false false)
    [("", .ident sp0 .int x false false false)] false)
/-- `fn main() { let x1 = 100; let x = 0; let x = 1; … let x = 10; println(x1); }` — the witness
of finding V26: before the fix the eleventh `x` shared the slot of `x1` and the VM printed `10`. -/
private def v26prog : Program :=
  [{ name := "main", imports := [], singletons := [], globals := [], nImpls := 0,
     fns := [⟨sp0, "main", [], .null, 0, false,
       .mk sp0 .null ([mkLet "x1" 100] ++ (List.range 11).map (fun (i : Nat) => mkLet "x" (i : Int)) ++
         [printVar "x1"]) none⟩] }]

/-- On the models themselves (kernel evaluation): the specification prints `100` … -/
example : (match runProgram { prog := v26prog } 100 with | .ok out _ => out | _ => "?") = "100\n" := by
  decide +kernel
/-- … and so does the compiled program on the VM. -/
example : (match compile v26prog "main" 100 with
    | .ok c => (match runMain c {} 50 1000 with | .ok s => s.st.out | _ => "?")
    | .error e => e) = "100\n" := by
  decide +kernel
end V26Witness

/-- **Statements on the VM.** `StRel`: level by level the specification's scopes and the
compiler's scopes bind the same (tracked) identifiers, each mangled name's slot is a legal cell
holding the specification's value, live names are pairwise distinct and below the current
counters. `Good`: `σ` is injective on the name set `N`
and every name of `N` has a cell inside the memory limit. If the code of `ss` is `Placed` at `ip`
and the relation holds, then (`SimS`): when the specification completes `ss`, only its scopes
changed, and the VM — through all loop iterations — arrives at the end of the code with its
operand stack as before and a memory for which the relation holds again; a fatal error is matched
by the same fatal interrupt; the fragment never produces `break`/`continue`/`return`/`throw`. -/
theorem stmts_correct (cfg : Cfg) (code : Code) (lim : Limits) (mod : String) (T : List String)
    (N : String → Prop) (σ lab : String → Nat) (s : VMState) (f : Frame) (rest : List Frame)
    (c : List (RInstr × Span)) (hcalls : s.calls = f :: rest) (hfn : findCode code f.fn = some c)
    (hg : Good T N σ lim s.mp)
    (fuel : Nat) (ss : List Stmt) (env : CEnv) (spec : St) (ip : Nat) (stk : List SVal) (mem : List (Int × Val))
    (hs : Frag.okSs ss = true) (hT : ∀ x ∈ Frag.identsSs ss, x ∈ T) (hws : Frag.wsSs mod ss env = true)
    (hN : ∀ m ∈ codeVars (cSs mod ss env).1, N m) (hpl : Placed lab σ c ip (cSs mod ss env).1)
    (hrel : StRel mod T N σ lim s.mp env.scopes env.vm spec.scopes mem) (hheap : s.st.heap = spec.heap) :
    SimS code lim s ip (nI (cSs mod ss env).1) stk mem
      (StRel mod T N σ lim s.mp (cSs mod ss env).2.scopes (cSs mod ss env).2.vm) spec
      (evalStmts cfg fuel ss spec) :=
  (exec_stmt_all hcalls hfn hg fuel).2.1 ss env spec ip stk mem hs hT hws hN hpl hrel hheap

/-- **Statements, the three passes together** (`relocateLabels`, `renameVariables`, VM). -/
theorem compiled_stmts_correct (cfg : Cfg) (code : Code) (lim : Limits) (mod : String) (T : List String)
    (fuel : Nat) (ss : List Stmt) (env : CEnv) (spec : St) (s : VMState) (f : Frame) (rest : List Frame)
    (pre post : SCode) (r : NCode) (stk : List SVal) (mem : List (Int × Val))
    (hs : Frag.okSs ss = true) (hT : ∀ x ∈ Frag.identsSs ss, x ∈ T)
    (hws : Frag.wsSs mod ss env = true)
    (hrel : relocate (pre ++ (cSs mod ss env).1 ++ post) = some r)
    (hpost : ∀ l ∈ definedLabels (cSs mod ss env).1, l ∉ definedLabels post)
    (hcalls : s.calls = f :: rest) (hfn : findCode code f.fn = some (renameVars r))
    (hframe : ∀ m ∈ varNames r, 0 ≤ s.mp - (slotFn r m : Int) ∧ s.mp - (slotFn r m : Int) < (lim.memory : Int))
    (hst : StRel mod T (· ∈ varNames r) (slotFn r) lim s.mp env.scopes env.vm spec.scopes mem)
    (hheap : s.st.heap = spec.heap) :
    SimS code lim s (nI pre) (nI (cSs mod ss env).1) stk mem
      (StRel mod T (· ∈ varNames r) (slotFn r) lim s.mp (cSs mod ss env).2.scopes (cSs mod ss env).2.vm)
      spec (evalStmts cfg fuel ss spec) :=
  Sim.compiled_stmts_correct cfg code lim mod T fuel ss env spec s f rest pre post r stk mem hs hT hws hrel
    hpost hcalls hfn hframe hst hheap

section Example6
private def idn (x : String) : Expr := .ident sp0 .int x false false false
/-- `let i = 0; let acc = 0; while i < 5 { if i % 2 == 0 { acc += i; } i += 1; }` -/
def loopEx : List Stmt :=
  [ .letS sp0 "i" .int false .int (.int sp0 0),
    .letS sp0 "acc" .int false .int (.int sp0 0),
    .whileS sp0 (.infix sp0 .bool .lt (idn "i") (.int sp0 5))
      (.mk sp0 .null
        [ .exprS sp0 (.ifE sp0 .null
            (.infix sp0 .bool .eq (.infix sp0 .int .rem (idn "i") (.int sp0 2)) (.int sp0 0))
            (.mk sp0 .null [ .exprS sp0 (.assign sp0 (some .add) (idn "acc") (idn "i")) ] none) none),
          .exprS sp0 (.assign sp0 (some .add) (idn "i") (.int sp0 1)) ] none) ]
private def envL : CEnv := ⟨[[]], [], [], 0⟩
private def csL : CState :=
  { fns := [(("main", "main"), { name := "@main.main", code := [(.addMp 4, sp0)] })],
    currFn := "main", currModule := "main" }
private def symL : SCode :=
  [(.addMp 4, sp0)] ++ (cSs "main" loopEx envL).1 ++
    [(.label "main.cleanup.0", sp0), (.addMp (-4), sp0), (.ret, sp0)]
private def relL : NCode := (stripLabels symL).map (resolve (labelIndex symL))
private def codeL : Code := [{ name := "@main.main", code := renameVars relL }]
private def vmL : VMState := { calls := [⟨"@main.main", 1⟩], mp := 4 }
private def TL : List String := ["i", "acc"]

example : Frag.okSs loopEx = true ∧ Frag.depthSs loopEx ≤ 13 ∧ Frag.wsSs "main" loopEx envL = true := by
  decide +kernel

/-- The real compiler run produces `cSs …` (statement instantiated). -/
example : (((compileStmts 13 loopEx).run csL).2.fns.lookup ("main", "main")).map (·.code) =
    some ([(.addMp 4, sp0)] ++ (cSs "main" loopEx envL).1) := by
  rw [compileStmts_frag 13 loopEx csL (by decide +kernel) (by decide +kernel) (by decide +kernel)]
  rfl

private theorem relocate_symL : relocate symL = some relL := by
  have h : (relocate symL).isSome = true := by decide +kernel
  obtain ⟨r, hr⟩ := Option.isSome_iff_exists.mp h
  rw [hr, relocate_some symL r hr]
  rfl

private def isInt (n : Int) : Val → Bool
  | .int i => i.toInt == n
  | _ => false
private def okU : Except Ctl Unit → Bool
  | .ok _ => true
  | _ => false

/-- The specification: the loop ends normally with `acc = 6`. -/
private theorem spec_facts : okU (evalStmts { prog := [] } 20 loopEx {}).1 = true ∧
    ((lookupScopes "acc" (evalStmts { prog := [] } 20 loopEx {}).2.scopes).map (isInt 6)) = some true := by
  decide +kernel

/-- The VM, running the relocated and renamed code from instruction 1 with an empty memory,
reaches the end of the loop (instruction 25) with `6 = 0 + 2 + 4` in the cell of `acc` (slot 1:
cell `mp - 1 = 3`), after six evaluations of the loop condition, five passes through the body
and three through the `if` branch. -/
example : ∃ k mem', execN codeL {} k vmL = .next (reach vmL 25 k [] mem') ∧
    ∃ i : I64, mem'.lookup 3 = some (.int i) ∧ i.toInt = 6 := by
  have hst : StRel "main" TL (· ∈ varNames relL) (slotFn relL) {} vmL.mp envL.scopes envL.vm
      ({} : St).scopes [] :=
    ⟨⟨fun _ _ => trivial, trivial⟩, by decide +kernel, by decide +kernel, by
      intro sc hsc p hp; simp [envL] at hsc; subst hsc; simp at hp⟩
  have h1 : Frag.okSs loopEx = true := by decide +kernel
  have h2 : ∀ x ∈ Frag.identsSs loopEx, x ∈ TL := by decide +kernel
  have h4 : Frag.wsSs "main" loopEx envL = true := by decide +kernel
  have h5 : ∀ l ∈ definedLabels (cSs "main" loopEx envL).1,
      l ∉ definedLabels [((Instr.label "main.cleanup.0" : SInstr), sp0), (.addMp (-4), sp0), (.ret, sp0)] := by
    decide +kernel
  have h6 : findCode codeL (⟨"@main.main", 1⟩ : Frame).fn = some (renameVars relL) := by
    simp [findCode, codeL]
  have h7 : ∀ m ∈ varNames relL, 0 ≤ vmL.mp - (slotFn relL m : Int) ∧
      vmL.mp - (slotFn relL m : Int) < ((({} : Limits).memory : Nat) : Int) := by decide +kernel
  -- (the fuel is kept abstract while the theorem is instantiated, so that the elaborator does not
  -- start evaluating the specification; the kernel does that in `spec_facts`)
  obtain ⟨fuel, hfuel⟩ : ∃ n : Nat, n = 20 := ⟨20, rfl⟩
  have h := compiled_stmts_correct { prog := [] } codeL {} "main" TL fuel loopEx envL {} vmL
    ⟨"@main.main", 1⟩ [] [(.addMp 4, sp0)] [(.label "main.cleanup.0", sp0), (.addMp (-4), sp0), (.ret, sp0)]
    relL [] [] h1 h2 h4 relocate_symL h5 rfl h6 h7 hst rfl
  subst hfuel
  obtain ⟨hok, hacc⟩ := spec_facts
  rcases hev : evalStmts { prog := [] } 20 loopEx {} with ⟨res, st'⟩
  rw [hev] at h hok hacc
  cases res with
  | error e => simp [okU] at hok
  | ok u =>
    obtain ⟨_, mem', hrun, hrel'⟩ := h
    have hlk := hrel'.scopes.lookup TL (slotFn relL) {} vmL.mp "acc" (by decide)
    have hρ : ρS (cSs "main" loopEx envL).2.scopes "acc" = some "@main.acc.0" := by decide +kernel
    rw [hρ] at hlk
    simp only at hacc
    cases hv : lookupScopes "acc" st'.scopes with
    | none => simp [hv] at hacc
    | some v =>
      rw [hv] at hlk hacc
      simp only [Option.map_some, Option.some.injEq] at hacc
      obtain ⟨⟨_, _, hmem⟩, _⟩ := hlk
      obtain ⟨k, hk⟩ := hrun.from_state (f := ⟨"@main.main", 1⟩) rfl
      have hslot : vmL.mp - (slotFn relL "@main.acc.0" : Int) = 3 := by decide +kernel
      rw [hslot] at hmem
      refine ⟨k, mem', hk, ?_⟩
      cases v <;> simp [isInt] at hacc
      exact ⟨_, hmem, hacc⟩
end Example6

/-! ## 7. Whole functions -/

/-- **`compileFn`.** For a function without parameters and annotation whose body is a block of
statements of the fragment (no trailing expression), well scoped from the environment `fnEnv`
(the function's top scope holding the cleanup label, around the enclosing scopes): `compileFn`
ends in the state `fnFinal`, in which the function's entry is
`fnCode = AddMempointer(n); <cSs …>; cleanup: AddMempointer(-n); Return` with variable count `n`;
other functions, the scopes, the loop stack, the `try` depth and the `unsupported` flag are as
before. -/
theorem compileFn_frag (f2 : Nat) (fd : FnDef) (cs : CState) (bsp : Span) (bty : Ty) (stmts : List Stmt)
    (hbody : fd.body = .mk bsp bty stmts none) (hparams : fd.params = []) (hann : fd.hasAnnotation = false)
    (hs : Frag.okSs stmts = true) (hd : Frag.depthSs stmts ≤ f2)
    (hws : Frag.wsSs cs.currModule stmts (fnEnv cs fd.name) = true) :
    (compileFn (f2 + 2) fd).run cs = ((), fnFinal cs fd stmts) ∧
    (fnFinal cs fd stmts).fns.lookup (cs.currModule, fd.name) =
      some { name := mangleFnName cs.currModule fd.name, code := fnCode cs fd stmts,
             cntVars := (cSs cs.currModule stmts (fnEnv cs fd.name)).2.nv } ∧
    (∀ k, k ≠ (cs.currModule, fd.name) → (fnFinal cs fd stmts).fns.lookup k = cs.fns.lookup k) ∧
    (fnFinal cs fd stmts).scopes = cs.scopes ∧ (fnFinal cs fd stmts).loops = cs.loops ∧
    (fnFinal cs fd stmts).tryDepth = cs.tryDepth ∧ (fnFinal cs fd stmts).unsupported = cs.unsupported :=
  ⟨compileFn_frag_run f2 fd cs bsp bty stmts hbody hparams hann hs hd hws, fnFinal_lookup cs fd stmts,
   fnFinal_lookup_other cs fd stmts, (fnFinal_frame cs fd stmts).1, (fnFinal_frame cs fd stmts).2.1,
   (fnFinal_frame cs fd stmts).2.2.1, (fnFinal_frame cs fd stmts).2.2.2.2.1⟩

/-- **Slots fit the frame** (memory safety of locals): every slot `renameVariables` assigns in
such a function is at most the `n` of its `AddMempointer(n)`, so `mp - slot` stays inside the
cells the prologue reserved. -/
theorem fn_slots_fit (T : List String) (cs : CState) (fd : FnDef) (stmts : List Stmt) (r : NCode)
    (hT : ∀ x ∈ Frag.identsSs stmts, x ∈ T)
    (hws : Frag.wsSs cs.currModule stmts (fnEnv cs fd.name) = true)
    (hkey : cleanupKey cs.currModule fd.name ∉ T)
    (houter : ∀ sc ∈ cs.scopes, ∀ x ∈ T, sc.lookup x = none)
    (hrel : relocate (fnCode cs fd stmts) = some r) :
    ∀ m ∈ varNames r, slotFn r m ≤ (cSs cs.currModule stmts (fnEnv cs fd.name)).2.nv :=
  fn_slots_le T cs fd stmts r hT hws hkey houter hrel

/-- **A whole function on the VM.** The VM is about to execute instruction 0 of the function
(`relocateLabels` and `renameVariables` applied to `fnCode`), with a non-negative memory
pointer and room for the frame; the specification starts the body in a fresh activation
(`scopes = [[]]`); the identifiers of the body are not bound in the enclosing compile scopes. Then (`SimFn`): if the specification completes the body, the VM executes prologue, body
(with all its jumps) and epilogue and returns to the caller's frame with operand stack, memory
pointer, heap, output, globals and handlers as at the call; a fatal error of the specification is
the VM's fatal interrupt; the fragment produces no other outcome (`unsupported`/`timeout` of the
model aside). -/
theorem fn_body_correct (cfg : Cfg) (code : Code) (lim : Limits) (T : List String) (fuel : Nat)
    (cs : CState) (fd : FnDef) (stmts : List Stmt) (r : NCode) (spec : St) (s0 : VMState) (fname : String)
    (rest : List Frame)
    (hs : Frag.okSs stmts = true) (hT : ∀ x ∈ Frag.identsSs stmts, x ∈ T)
    (hws : Frag.wsSs cs.currModule stmts (fnEnv cs fd.name) = true)
    (hkey : cleanupKey cs.currModule fd.name ∉ T)
    (houter : ∀ sc ∈ cs.scopes, ∀ x ∈ T, sc.lookup x = none)
    (hrel : relocate (fnCode cs fd stmts) = some r)
    (hcalls : s0.calls = ⟨fname, 0⟩ :: rest) (hfn : findCode code fname = some (renameVars r))
    (hmp0 : 0 ≤ s0.mp)
    (hmem : s0.mp + ((cSs cs.currModule stmts (fnEnv cs fd.name)).2.nv : Int) < (lim.memory : Int))
    (hspec : spec.scopes = [[]]) (hheap : s0.st.heap = spec.heap) :
    SimFn code lim s0 rest spec (evalStmts cfg fuel stmts spec) :=
  fn_body_correct' cfg code lim T fuel cs fd stmts r spec s0 fname rest hs hT hws hkey houter hrel hcalls hfn
    hmp0 hmem hspec hheap

/-- **The VM's driver on a top-level call** (`Core.Run`: poll, then a quantum of instructions).
Hypotheses of `fn_body_correct`, no caller frame, operand stack within its limit. For every
quantum at least as large as the number of instructions the call executes — so that no poll
falls inside it — `run` ends with `ok`, in a state with heap/output, memory pointer and stack as
at the call, when the specification completes the body; and with the specification's fatal error
(same kind, message, span) when it ends in one. -/
theorem fn_run (cfg : Cfg) (code : Code) (lim : Limits) (T : List String) (fuel : Nat)
    (cs : CState) (fd : FnDef) (stmts : List Stmt) (r : NCode) (spec : St) (s0 : VMState) (fname : String)
    (hs : Frag.okSs stmts = true) (hT : ∀ x ∈ Frag.identsSs stmts, x ∈ T)
    (hws : Frag.wsSs cs.currModule stmts (fnEnv cs fd.name) = true)
    (hkey : cleanupKey cs.currModule fd.name ∉ T)
    (houter : ∀ sc ∈ cs.scopes, ∀ x ∈ T, sc.lookup x = none)
    (hrel : relocate (fnCode cs fd stmts) = some r)
    (hcalls : s0.calls = [⟨fname, 0⟩]) (hfn : findCode code fname = some (renameVars r))
    (hmp0 : 0 ≤ s0.mp)
    (hmem : s0.mp + ((cSs cs.currModule stmts (fnEnv cs fd.name)).2.nv : Int) < (lim.memory : Int))
    (hstack : s0.stack.length ≤ lim.stack) (hcallLim : 1 ≤ lim.callStack)
    (hspec : spec.scopes = [[]]) (hheap : s0.st.heap = spec.heap) :
    match evalStmts cfg fuel stmts spec with
    | (.ok _, _) =>
      ∃ K, ∀ quantum, K ≤ quantum → ∀ vfuel, ∃ s', run code lim quantum none (vfuel + 1) s0 = .ok s' ∧
        s'.st = s0.st ∧ s'.mp = s0.mp ∧ s'.stack = s0.stack
    | (.error (.fatal kd m sp), _) =>
      ∃ K, ∀ quantum, K ≤ quantum → ∀ vfuel, ∃ s', run code lim quantum none (vfuel + 1) s0 = .fatal kd m sp s' ∧
        s'.st = s0.st
    | _ => True :=
  Sim.fn_run cfg code lim T fuel cs fd stmts r spec s0 fname hs hT hws hkey houter hrel hcalls hfn hmp0 hmem
    hstack hcallLim hspec hheap

section Example7
/-- `fn main() { let i = 0; let acc = 0; while i < 5 { if i % 2 == 0 { acc += i; } i += 1; } }` -/
private def fdL : FnDef := ⟨sp0, "main", [], .null, 0, false, .mk sp0 .null loopEx none⟩
/-- The compiler state in which pass 2 of `compileProgram` reaches `main`. -/
private def csF : CState :=
  { fns := [(("main", "@init"), { name := "@main.@init", code := [] }),
            (("main", "main"), { name := "@main.main", code := [] })],
    currFn := "@init", currModule := "main" }
private def relF : NCode :=
  (stripLabels (fnCode csF fdL loopEx)).map (resolve (labelIndex (fnCode csF fdL loopEx)))
private def codeF : Code := [{ name := "@main.main", code := renameVars relF }]
private def vmF : VMState := { calls := [⟨"@main.main", 0⟩] }

private theorem relocate_fnCode : relocate (fnCode csF fdL loopEx) = some relF := by
  have h : (relocate (fnCode csF fdL loopEx)).isSome = true := by decide +kernel
  obtain ⟨r, hr⟩ := Option.isSome_iff_exists.mp h
  rw [hr, relocate_some _ r hr]
  rfl

/-- `compileFn` really produces `fnCode …` for `main` (statement instantiated), … -/
example : (((compileFn 15 fdL).run csF).2.fns.lookup ("main", "main")).map (·.code) =
    some (fnCode csF fdL loopEx) := by
  have h := compileFn_frag 13 fdL csF sp0 .null loopEx rfl rfl rfl (by decide +kernel) (by decide +kernel)
    (by decide +kernel)
  rw [h.1]
  exact congrArg (Option.map (·.code)) h.2.1

/-- … and a call of it on the VM — frame `⟨"@main.main", 0⟩`, empty stack, `mp = 0` — runs
prologue, loop and epilogue and returns (no frames left) with `mp = 0` and an empty stack. -/
example : ∃ k s', execN codeF {} k vmF = .next s' ∧ s'.calls = [] ∧ s'.mp = 0 ∧ s'.stack = [] := by
  obtain ⟨fuel, hfuel⟩ : ∃ n : Nat, n = 20 := ⟨20, rfl⟩
  have h := fn_body_correct { prog := [] } codeF {} TL fuel csF fdL loopEx relF {} vmF "@main.main" []
    (by decide +kernel) (by decide +kernel) (by decide +kernel) (by decide +kernel)
    (by decide +kernel) relocate_fnCode rfl (by simp [findCode, codeF]) (by decide) (by decide +kernel) rfl rfl
  subst hfuel
  obtain ⟨hok, _⟩ := spec_facts
  rcases hev : evalStmts { prog := [] } 20 loopEx {} with ⟨res, st'⟩
  rw [hev] at h hok
  cases res with
  | error e => simp [okU] at hok
  | ok u =>
    obtain ⟨_, k, s', hk, h1, h2, h3, _⟩ := h
    exact ⟨k, s', hk, h1, h2, h3⟩
/-- The same call through the VM's driver: with a quantum large enough `run` answers `ok`. -/
example : ∃ K, ∀ quantum, K ≤ quantum → ∀ vfuel, ∃ s', run codeF {} quantum none (vfuel + 1) vmF = .ok s' ∧
    s'.st = vmF.st ∧ s'.mp = 0 ∧ s'.stack = [] := by
  obtain ⟨fuel, hfuel⟩ : ∃ n : Nat, n = 20 := ⟨20, rfl⟩
  have h := fn_run { prog := [] } codeF {} TL fuel csF fdL loopEx relF {} vmF "@main.main"
    (by decide +kernel) (by decide +kernel) (by decide +kernel) (by decide +kernel)
    (by decide +kernel) relocate_fnCode rfl (by simp [findCode, codeF]) (by decide) (by decide +kernel)
    (by decide) (by decide) rfl rfl
  subst hfuel
  obtain ⟨hok, _⟩ := spec_facts
  rcases hev : evalStmts { prog := [] } 20 loopEx {} with ⟨res, st'⟩
  rw [hev] at h hok
  cases res with
  | error e => simp [okU] at hok
  | ok u => exact h
end Example7

/-! ## 8. Singletons: `Load_Singleton` and extraction -/

/-- **The host provides no value** (`found = false`): `Load_Singleton` leaves the default the
compiler pushed (`Cloning_Push` of the zero value) where it is. -/
theorem loadSingleton_not_found (code : Code) (lim : Limits) (s : VMState) (name m : String) (sp : Span)
    (h : lim.hostSingletons.lookup name = none) :
    step code lim s (.loadSingleton name m) sp = .next (advance s) := by
  simp [step, h]

/-- **The host provides a value** (`found = true`): the default is popped and the host's value —
the very value the specification starts the singleton with, `hostToVal` — is pushed instead. -/
theorem loadSingleton_found (code : Code) (lim : Limits) (s : VMState) (name m : String) (sp : Span)
    (hv : HostVal) (d : SVal) (rest : List SVal) (v : Val) (st' : St)
    (h : lim.hostSingletons.lookup name = some hv) (hs : s.stack = d :: rest)
    (hh : hostToVal hv s.st = (.ok v, st')) :
    step code lim s (.loadSingleton name m) sp
      = .next (advance (push1 { s with stack := rest, st := st' } v)) := by
  simp [step, h, pop1, hs, runM, hh]

/-- Without the default below it (never in compiled code: `compileSingletonInit` emits the
`Cloning_Push` first) a found value makes the Go code pop an empty stack: the panic outcome. -/
theorem loadSingleton_found_empty (code : Code) (lim : Limits) (s : VMState) (name m : String) (sp : Span)
    (hv : HostVal) (h : lim.hostSingletons.lookup name = some hv) (hs : s.stack = []) :
    step code lim s (.loadSingleton name m) sp = .panic "stack underflow" s := by
  simp [step, h, pop1, hs]

section SingletonWitness
private def callE (f : String) (args : List Expr) : Expr :=
  .call sp0 .null (.ident sp0 (.fn [] .null) f false true false) (args.map fun a => ("", a)) false
private def printE (args : List Expr) : Stmt :=
  .exprS sp0 (.call sp0 .null (.ident sp0 (.fn [] .null) "println" false false false) (args.map fun a => ("", a)) false)
private def cfgTy : Ty := .obj [("n", .int), ("l", .list .int)]
/-- `$C = { n: int, l: [int] }; $K = int;`
`fn f(c: $C, k: $K, a: int) { println(c.n + k + a); c.n = c.n + 1; }`
`fn main() { f(10); f(20); println($C.n); }` -/
private def singProg : Program :=
  [{ name := "main", imports := [], singletons := [("$C", cfgTy), ("$K", .int)], globals := [], nImpls := 0,
     fns := [
       ⟨sp0, "f", [⟨"c", cfgTy, true, "$C"⟩, ⟨"k", .int, true, "$K"⟩, ⟨"a", .int, false, ""⟩], .null, 0, false,
         .mk sp0 .null [
           printE [.infix sp0 .int .add (.infix sp0 .int .add (.member sp0 .int (.ident sp0 cfgTy "c" false false false) "n" .dot)
             (.ident sp0 .int "k" false false false)) (.ident sp0 .int "a" false false false)],
           .exprS sp0 (.assign sp0 none (.member sp0 .int (.ident sp0 cfgTy "c" false false false) "n" .dot)
             (.infix sp0 .int .add (.member sp0 .int (.ident sp0 cfgTy "c" false false false) "n" .dot) (.int sp0 1)))] none⟩,
       ⟨sp0, "main", [], .null, 0, false,
         .mk sp0 .null [.exprS sp0 (callE "f" [.int sp0 10]), .exprS sp0 (callE "f" [.int sp0 20]),
           printE [.member sp0 .int (.ident sp0 cfgTy "$C" false false true) "n" .dot]] none⟩] }]
private def singHost : HostSingletons := [("$C", .obj [("n", .int 5), ("l", .list [.int 1])]), ("$K", .int 100)]

/-- The callers pass one argument; `c` and `k` are the singletons, the update through `c` is seen
by the next call and by `$C`. Host-provided values: specification … -/
example : (match runProgram { prog := singProg, hostSingletons := singHost } 100 with | .ok out _ => out | _ => "?")
    = "115\n126\n7\n" := by
  decide +kernel
/-- … and compiled program on the VM (clean core afterwards). -/
example : (match compile singProg "main" 100 with
    | .ok c => (match runMain c { hostSingletons := singHost } 50 1000 with
      | .ok s => (s.st.out, s.stack.length, s.mp, s.handlers.length) | _ => ("?", 0, 0, 0))
    | .error e => (e, 0, 0, 0)) = ("115\n126\n7\n", 0, 0, 0) := by
  decide +kernel
/-- Nothing provided: zero values, on both sides. -/
example : (match runProgram { prog := singProg } 100 with | .ok out _ => out | _ => "?") = "10\n21\n2\n" := by
  decide +kernel
example : (match compile singProg "main" 100 with
    | .ok c => (match runMain c {} 50 1000 with | .ok s => s.st.out | _ => "?")
    | .error e => e) = "10\n21\n2\n" := by
  decide +kernel
end SingletonWitness

end HmsProofs.C01VM
