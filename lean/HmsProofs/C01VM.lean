import HmsProofs.Lemmas.SimPipeline
import HmsProofs.Lemmas.SimPureFinal
import HmsProofs.Lemmas.SimStmtFinal
import HmsProofs.Lemmas.SimSlots
import HmsProofs.Lemmas.SimHGlue
import HmsProofs.Lemmas.SimHEntry
import HmsProofs.Lemmas.SimHComp3
/-!
# C01 (part 2) — the compiler and the VM simulate the specification semantics

Property-level statements about the *existing* models `Hms.Core.Comp` (compiler) and
`Hms.Core.VM` (virtual machine) versus `Hms.Core.evalExpr` (specification). The proofs live in
`HmsProofs/Lemmas/Sim*.lean`; here each statement is restated in full, with what it means for
the Go code and a concrete instance.

1. `relocate_*`, `label_*`, `sourcemap_aligned` — `relocateLabels`;
2. `renameVars_*`, `slots_*` — `renameVariables`;
3. `compileExpr_straight` — the instruction stream of a straight-line expression;
4. `straight_ok`, `straight_fatal`, `straight_runQuantum*`, `compiled_straight_correct` —
   executing that stream on the VM agrees with the specification;
5. `compileExpr_pure`, `pure_labels_fresh`, `pure_ok`, `pure_fatal`, `compiled_pure_correct` —
   the same for expressions with `&&`, `||` and `if`/`else` (jumps and labels);
6. `compileStmts_frag`, `mangled_names_injective`, `stmts_correct`, `compiled_stmts_correct` —
   `let`, assignment, compound assignment, `if` statements and `while`; no hypothesis on the
   identifiers: with the `.`-separated mangling (fix of finding V26) names are injective;
7. `compileFn_frag`, `fn_slots_fit`, `fn_body_correct`, `fn_run` — a whole parameterless function whose body
   is such a statement block: what `compileFn` emits, that its slots fit the frame reserved by
   `AddMempointer`, and that running it from its first instruction returns to the caller having
   simulated the specification (label hygiene, relocation, renaming and the initial relation are
   all discharged, no `Placed`/`StRel` hypothesis is left);
8. `loadSingleton_*` — singletons;
9. `fn_compiled_ok`, `call_correct`, `call_returns`, `call_expr_correct`, `call_args_correct`,
   `args_order_witness_*` — calls of top-level functions (recursion included): arguments in
   reverse order, `Call_Imm`, the callee's prologue/parameters/epilogue, `Return`, by induction
   on the specification's fuel; arguments must be atoms except at most one (finding V13, with
   kernel-checked witnesses that two effectful — or two failing pure — arguments break it);
10. `gstmts_correct`, `loop_correct` — `loop`/`while` with `break`/`continue`, `return e;`,
    call statements: the VM follows `loopRun`;
11. `println_spec`, `println_vm`, `println_correct` — `println` of the fragment's values: the
    output buffers agree;
12. `fn_void_compiled_ok`, `entry_correct`, `entry_run` — a function without trailing expression
    (the entry function `main`) and the driver `run` on it: the whole program's output, or its
    fatal error, or `UncaughtThrow`;
13. `compileExpr_gfrag`, `compileStmts_gfrag`, `compileFn_gfrag` — what the compiler emits on
    that fragment (`cgE`/`cgSs`/`cgFn`: reversed arguments and `Call_Imm`, loops and their
    jumps, `return`, `println`, parameters, `try`/`catch`/`throw`), instantiated on the example
    programs;
14. `setTry_step`, `throw_dispatch`, `runQuantum_execHN`, `throw_correct`, `try_correct` —
    `try { … } catch e { … }` and `throw(msg)`: handler installation, unwinding to the handler's
    activation from any depth (handler record restore), the error object, the catch block.
15. `compileMatch_frag`, `match_spec`, `match_cascade_vm`, `match_correct`, `match_stmt_spec`,
    `match_stmt_correct` — `match` over int/bool/string literals with a default arm: the comparison
    cascade (`Eq_Pop_Once`), the first arm that hits, the default; as an expression (arms may call
    functions and nest further `match`es) and as a statement whose arms are statement blocks
    (`break`/`continue`/`return`/`throw` inside an arm included; `compileStmts_gfrag` covers the code).
16. `compileFor_frag`, `for_spec`, `for_round_spec`, `intoIter_step`, `iterAdvance_step`, `for_correct`,
    `fstmts_correct`, `fn_compiled_okF`, `fn_void_compiled_okF`, `call_correctF`, `entry_runF` —
    `for x in a..b { … }` over integer ranges with `break`/`continue`: the VM's iterator protocol
    (`Into_Range`, `Clone`, `Into_Iter`, `Iter_Advance`), snapshot semantics, nested loops and loops
    in callees (the iterator table is threaded through the simulation as part of the memory).
17. `compileList_frag`, `compileIndex_frag`, `compileIdxAssign_frag`, `index_spec`, `wrapIndex_lt`, `index_vm`,
    `assign_vm`, `idxAssign_spec`, `write_read_shared`, `list_correct`, `index_correct`, `idxAssign_correct` —
    list literals, element reads `l[i]` (negative indices, the fatal `IndexOutOfBounds`), element writes
    `l[i] = e` / `l[i] op= e`; lists are shared by reference: the heap relation is the identity (one heap,
    the `World` of both states), the value read by `Index` carries its origin and `Assign` writes through it.
18. `compileObj_frag`, `compileMember_frag`, `compileMemAssign_frag`, `obj_spec`, `member_spec`, `member_vm`,
    `memAssign_spec`, `field_write_read_shared`, `obj_correct`, `member_correct`, `memAssign_correct` —
    object literals `new { k: e, … }` (the VM's template-then-assign construction against the specification's
    evaluate-then-allocate), field reads `o.f`, field writes `o.f = e` / `o.f op= e`; objects are shared by
    reference like lists.
19. `method_spec`, `len_spec`, `push_spec`, `callVal_len_vm`, `callVal_push_vm`, `compileLen_frag`,
    `compilePush_frag`, `len_correct`, `push_correct` — the builtin methods `let n = l.len();` and `l.push(x);`
    (in the contexts with `G.fr = true`): `Member` yields the bound method because no object on the heap has a
    data field of that name — the heap invariant `HeapInv`, which every `Runs` keeps and `SpecOK` asks of the
    starting state when `G.fr = true` — and `Call_Val` on it is the specification's `callMember`.
20. `compileExpr_xfrag`, `compileLenExpr_frag`, `okE_extends`, `expr_correctX`, `args_correctX`, `lenExpr_correct` —
    the extended expression fragment `Frag.okE fr` (`fr = true`): cell reads `l[i]`, `o.f` and `l.len()` in
    conditions, `match` scrutinees, `for` bounds, call and `println` arguments, `return` and trailing
    expressions; `l.push(e)` with any `e` when the receiver or the argument is an atom. The origin of a pushed
    value is left open in these contexts (`Sim.OrgOK`), also for the results of calls.
21. `isSome_spec`, `meth0_vm`, `meth0_correct`, `unwrap_spec`, `unwrapOr_spec`, `unwrap_vm_some`, `unwrap_vm_none`,
    `unwrap_vm_null`, `unwrapOr_vm`, `unwrap_null_witness` — options and strings: `?e`, `none`, `+`, `==` are in the
    fragment since sections 3–5, `s.len()` since 19; new are `o.is_some()` / `o.is_none()` as expressions;
    `unwrap`/`unwrap_or` stay outside (finding V28: a builtin's `null` result is not pushed — witness on both
    models), their instructions are described.
22. `compileCast_frag`, `cast_spec`, `cast_scalar`, `cast_vm`, `cast_vm_throw`, `cast_correct_partial`,
    `castExpr_correct` — casts `e as T` to a scalar type (`Frag.castTyOK`), in every expression position; the cast
    exception is the VM's catchable interrupt at the `Cast` instruction. `cast_correct_full` (any target type) is
    stated, not proved. Example: `toInt`/`flag`/`safe`/`main` with a cast exception caught one activation up.
23. `compileIdxCompound_frag`, `compileMemCompound_frag`, `dup_vm`, `idxCompound_correct`, `memCompound_correct`,
    `compileSome_frag`, `some_spec`, `some_correct` — `l[i] op= e`, `o.f op= e` and `?e` by name (instances of
    sections 17, 18, 20); `unwrapOr_null_witness`, `forList_snapshot_witness`, `fnValue_repr_witness` — why
    `unwrap_or`, `for` over a list and calls through function values are outside the simulation.
   (Proofs of 9–23: `Lemmas/SimH*.lean`; the simulation is combined in `SimHAll.allP`. From
   section 9 on, VM runs are `execHN` — instruction sequences including `Core.Run`'s exception
   dispatch — and the states `mkS s calls mp k stk mem w` carry a world `w` = heap and output.)
-/
namespace HmsProofs.C01VM
open Hms.Core Hms.Core.Comp Hms.Core.VM HmsProofs.Sim

/-! ## 1. `relocateLabels` -/

/-- **Relocation, shape of the output.** If `relocateLabels` succeeds, the function's code is the
emitted code with the `Label` pseudo-instructions removed; every other instruction is kept in
order and unchanged, except that the label operand of `Jump` / `JumpIfFalse` / `SetTryLabel` is
replaced by `labelIndex code l`. -/
theorem relocate_shape (code : SCode) (out : List (Instr Nat String × Span)) (h : relocate code = some out) :
    out = (stripLabels code).map (resolve (labelIndex code)) ∧ out.length = (stripLabels code).length :=
  ⟨relocate_some code out h, relocate_length code out h⟩

/-- **What a label resolves to.** `l ↦ n` iff the code is `pre ++ label l :: post` with no further
`label l` in `post` (the Go map keeps the *last* definition) and `n` is the number of real
instructions in `pre` — i.e. the output index of the first real instruction at or after that
label (`stripLabels code = stripLabels pre ++ stripLabels post`). -/
theorem label_resolution (code : SCode) (l : String) (n : Nat) :
    labelIndex? code l = some n ↔
      ∃ pre sp post, code = pre ++ (Instr.label l, sp) :: post ∧
        (∀ sp', (Instr.label l, sp') ∉ post) ∧ n = (stripLabels pre).length ∧
        stripLabels code = stripLabels pre ++ stripLabels post := by
  rw [labelIndex?_eq_some_iff]
  constructor
  · rintro ⟨pre, sp, post, rfl, h1, h2⟩
    exact ⟨pre, sp, post, rfl, h1, h2, by rw [stripLabels_append, stripLabels_cons_label]⟩
  · rintro ⟨pre, sp, post, h0, h1, h2, _⟩
    exact ⟨pre, sp, post, h0, h1, h2⟩

/-- A resolved label never points beyond the end of the function (it may equal the length: a
label at the very end). -/
theorem label_index_le (code : SCode) (out) (h : relocate code = some out) (l : String)
    (hl : ∃ sp, (Instr.label l, sp) ∈ code) : labelIndex code l ≤ out.length :=
  relocate_target_le code out h l hl

/-- **`sourcemap_aligned`.** The span paired with the i-th instruction of the relocated function
is the span that instruction was emitted with: removing labels never shifts the source map. -/
theorem sourcemap_aligned (code : SCode) (out) (h : relocate code = some out) :
    out.map (·.2) = (stripLabels code).map (·.2) :=
  relocate_spans code out h

/-- **Failure.** `relocateLabels` fails exactly when some jump target was never defined. -/
theorem relocate_fails_iff (code : SCode) :
    relocate code = none ↔
      ∃ p ∈ code, ∃ l, target? p.1 = some l ∧ ∀ sp, (Instr.label l, sp) ∉ code :=
  relocate_eq_none_iff code

section Example1
private def s1 : Span := ⟨1, 1, 1, 1⟩
private def s2 : Span := ⟨2, 2, 2, 2⟩
private def relocEx : SCode :=
  [(.label "a", s1), (.nop, s1), (.jumpIfFalse "b", s2), (.label "a", s2), (.jump "a", s1), (.label "b", s2)]

example : relocate relocEx = some [(.nop, s1), (.jumpIfFalse 3, s2), (.jump 2, s1)] := rfl
example : labelIndex relocEx "a" = 2 ∧ labelIndex relocEx "b" = 3 := by decide
example : relocate [((.jump "nowhere" : SInstr), s1)] = none := rfl
end Example1

/-! ## 2. `renameVariables` -/

/-- **Renaming is an instruction-wise map.** Only the operand of `GetVarImm` / `SetVarImm`
changes (mangled name ↦ `slotFn code name`); all other instructions, all spans, the order and
the length are unchanged. -/
theorem renameVars_shape (code : NCode) :
    renameVars code = code.map (fun p => (mapLV id (slotFn code) p.1, p.2)) ∧
    (renameVars code).length = code.length ∧
    (renameVars code).map (·.2) = code.map (·.2) :=
  ⟨renameVars_eq_map code, renameVars_length code, renameVars_spans code⟩

/-- **Slots are injective**: two occurrences get the same slot iff they carry the same mangled
name. -/
theorem slots_injective (code : NCode) (v w : String) (hv : v ∈ varNames code) (hw : w ∈ varNames code) :
    slotFn code v = slotFn code w ↔ v = w :=
  slotFn_inj code v w hv hw

/-- **Slots are dense**: every slot is below the number of distinct names of the function
(`distinctNames code` lists each name exactly once). -/
theorem slots_dense (code : NCode) :
    (distinctNames code).Nodup ∧ (∀ v, v ∈ distinctNames code ↔ v ∈ varNames code) ∧
    ∀ v ∈ varNames code, slotFn code v < (distinctNames code).length :=
  ⟨distinctNames_nodup code, mem_distinctNames code, slotFn_lt code⟩

section Example2
private def s0 : Span := ⟨0, 0, 0, 0⟩
private def renEx : NCode :=
  [(.setVar "@m.x.0", s0), (.setVar "@m.y.0", s0), (.getVar "@m.x.0", s0), (.jump 7, s0), (.getVar "@m.y.0", s0)]

example : renameVars renEx =
    [(.setVar 0, s0), (.setVar 1, s0), (.getVar 0, s0), (.jump 7, s0), (.getVar 1, s0)] := rfl
example : slotFn renEx "@m.x.0" = 0 ∧ slotFn renEx "@m.y.0" = 1 ∧ distinctNames renEx = ["@m.x.0", "@m.y.0"] := by
  decide
end Example2

/-! ## 3. The instruction stream of a straight-line expression -/

/-- **`compileExpr` on straight-line expressions.** For `e` built from int/bool/string/null/none
literals, parentheses, local variables, prefix operators and the infix operators other than
`&&`/`||`: with enough fuel and every variable of `e` in scope, the Go `compileExpr` appends
exactly the instruction list `cstraightSp ρ e` (a pure function of `e` and of the scope map
`ρ = ρOf cs`) to the current function — `appendCode` touches nothing else: label counters,
variable counters, scopes, loops and the `unsupported` flag are as before. -/
theorem compileExpr_straight (fuel : Nat) (e : Expr) (cs : CState)
    (hs : Frag.straight e = true) (hfuel : Frag.depth e ≤ fuel)
    (hv : ∀ x ∈ Frag.vars e, (ρOf cs x).isSome = true) :
    (compileExpr fuel e).run cs = ((), appendCode cs (cstraightSp (ρOf cs) e)) ∧
    (∀ f, cs.fns.lookup (cs.currModule, cs.currFn) = some f →
      (appendCode cs (cstraightSp (ρOf cs) e)).fns.lookup (cs.currModule, cs.currFn)
        = some { f with code := f.code ++ cstraightSp (ρOf cs) e }) ∧
    (∀ p ∈ cstraightSp (ρOf cs) e, isLabel p.1 = false ∧ target? p.1 = none) :=
  ⟨Sim.compileExpr_straight fuel e cs hs hfuel hv,
   fun f hf => appendCode_lookup cs _ f hf,
   cstraightSp_plain _ _ e (Nat.le_refl _)⟩

section Example3
private def sp0 : Span := ⟨0, 0, 0, 0⟩
private def spA : Span := ⟨1, 2, 1, 6⟩
private def spM : Span := ⟨1, 1, 1, 11⟩
/-- `(1 + x) * 3` -/
def ex1 : Expr :=
  .infix spM .int .mul
    (.grouped sp0 (.infix spA .int .add (.int sp0 1) (.ident sp0 .int "x" false false false)))
    (.int sp0 3)

def cs0 : CState :=
  { fns := [(("main", "main"), { name := "@main.main", code := [(.addMp 1, sp0)] })],
    currFn := "main", currModule := "main", scopes := [[("x", "@main.x.0")]] }

example : Frag.straight ex1 = true ∧ Frag.depth ex1 ≤ 4 ∧ ∀ x ∈ Frag.vars ex1, (ρOf cs0 x).isSome = true := by
  decide

example : cstraightSp (ρOf cs0) ex1 =
    [(.copyPush (.int 1), sp0), (.getVar "@main.x.0", sp0), (.add, spA), (.copyPush (.int 3), sp0), (.mul, spM)] := rfl

/-- The statement instantiated: the real `compileExpr` run agrees. -/
example : (((compileExpr 4 ex1).run cs0).2.fns.lookup ("main", "main")).map (·.code) =
    some ([(.addMp 1, sp0)] ++ cstraightSp (ρOf cs0) ex1) := by
  rw [(compileExpr_straight 4 ex1 cs0 (by decide) (by decide) (by decide)).1]
  rfl
end Example3

/-! ## 4. Straight-line code on the VM agrees with the specification -/

/-- **Values.** Let the current function's VM code contain, from the current `ip` on, the
lowered instructions of `e` (labels through any `lab`, names through `σ`); let every variable of
`e` be related by `EnvRel` (visible in the specification's scopes, resolved by `ρ`, its slot
inside the memory limit and holding the same value) and let both sides share the heap. If the
specification evaluates `e` to a value `v`, then it does so without changing its state, and the
VM, executing exactly `n = |code of e|` instructions with `VM.step` — no interrupt, no panic —
reaches the state with `ip + n`, `v` pushed, and stack below, memory, heap, output, globals,
handlers untouched (`done s n v`). -/
theorem straight_ok (cfg : Cfg) (code : Code) (lim : Limits) (ρ : String → Option String)
    (σ lab : String → Nat) (fuel : Nat) (e : Expr) (st st' : St) (v : Val) (s : VMState)
    (f : Frame) (rest : List Frame) (c : List (RInstr × Span))
    (hs : Frag.straight e = true) (hcalls : s.calls = f :: rest) (hfn : findCode code f.fn = some c)
    (hcode : CodeAt c f.ip ((cstraightSp ρ e).map (lower lab σ)))
    (henv : EnvRel ρ σ lim (Frag.vars e) st.scopes s.mp s.mem) (hheap : s.st.heap = st.heap)
    (hev : evalExpr cfg fuel e st = (.ok v, st')) :
    st' = st ∧ execN code lim (cstraightSp ρ e).length s = .next (done s (cstraightSp ρ e).length v) := by
  have := exec_straight cfg code lim ρ σ lab fuel e st s f rest c hs hcalls hfn hcode henv hheap
  rw [hev] at this
  exact this

/-- **Fatal errors.** Under the same hypotheses, if the specification ends in a fatal error
(`x / 0`, `x % 0`, a negative shift count: kind `ValueError`), the VM raises the *same* fatal
interrupt — kind, message and source span (the span of the offending operator, which is the
span its instruction was emitted with) — and its store is untouched. Fatal interrupts are not
catchable, so this is the program's outcome. -/
theorem straight_fatal (cfg : Cfg) (code : Code) (lim : Limits) (ρ : String → Option String)
    (σ lab : String → Nat) (fuel : Nat) (e : Expr) (st st' : St) (k m : String) (fsp : Span) (s : VMState)
    (f : Frame) (rest : List Frame) (c : List (RInstr × Span))
    (hs : Frag.straight e = true) (hcalls : s.calls = f :: rest) (hfn : findCode code f.fn = some c)
    (hcode : CodeAt c f.ip ((cstraightSp ρ e).map (lower lab σ)))
    (henv : EnvRel ρ σ lim (Frag.vars e) st.scopes s.mp s.mem) (hheap : s.st.heap = st.heap)
    (hev : evalExpr cfg fuel e st = (.error (.fatal k m fsp), st')) :
    st' = st ∧ ∃ s', execN code lim (cstraightSp ρ e).length s = .intr (.fatal k m fsp) s' ∧ SameStore s s' := by
  have := exec_straight cfg code lim ρ σ lab fuel e st s f rest c hs hcalls hfn hcode henv hheap
  rw [hev] at this
  exact this

/-- `execN` is the VM's own loop: after a successful `execN n`, `runQuantum` (the inner loop of
`Core.Run`) has consumed `n` iterations and continues from the reached state; a fatal interrupt
found by `execN` is the outcome `runQuantum` returns. -/
theorem straight_runQuantum (code : Code) (lim : Limits) (n m : Nat) (s s' : VMState)
    (h : execN code lim n s = .next s') :
    runQuantum code lim (n + m) s = runQuantum code lim m s' :=
  runQuantum_of_execN code lim m n s s' h

theorem straight_runQuantum_fatal (code : Code) (lim : Limits) (n m : Nat) (s s' : VMState)
    (k msg : String) (sp : Span) (h : execN code lim n s = .intr (.fatal k msg sp) s') :
    runQuantum code lim (n + m) s = .inr (.fatal k msg sp s') :=
  runQuantum_of_execN_fatal code lim m n s s' k msg sp h

/-- **The three passes together.** If the symbolic code of a function is
`pre ++ cstraightSp ρ e ++ post` (by `compileExpr_straight` that is what compiling `e` in the
middle of a function produces), `relocateLabels` succeeds with `r`, and the VM runs
`renameVariables r` as the code of the current frame's function with `ip` = the number of real
instructions of `pre`, then — the environment relation being taken with the function's own slot
assignment `slotFn r` — the conclusions of `straight_ok` / `straight_fatal` hold
(`Sim1`: value ↦ `done s n v`; fatal ↦ same fatal interrupt; otherwise no claim). -/
theorem compiled_straight_correct (cfg : Cfg) (code : Code) (lim : Limits) (ρ : String → Option String)
    (fuel : Nat) (e : Expr) (st : St) (s : VMState) (f : Frame) (rest : List Frame)
    (pre post : SCode) (r : NCode)
    (hs : Frag.straight e = true)
    (hrel : relocate (pre ++ cstraightSp ρ e ++ post) = some r)
    (hcalls : s.calls = f :: rest) (hfn : findCode code f.fn = some (renameVars r))
    (hip : f.ip = (stripLabels pre).length)
    (henv : EnvRel ρ (slotFn r) lim (Frag.vars e) st.scopes s.mp s.mem) (hheap : s.st.heap = st.heap) :
    Sim1 code lim s (cstraightSp ρ e).length st (evalExpr cfg fuel e st) := by
  refine exec_straight cfg code lim ρ (slotFn r) (labelIndex (pre ++ cstraightSp ρ e ++ post))
    fuel e st s f rest _ hs hcalls hfn ?_ henv hheap
  rw [hip]
  exact codeAt_straight ρ e pre post r hrel

section Example4
/-- The function body `addMp 1; <(1 + x) * 3>; label end; ret` as the compiler emits it. -/
private def symCode : SCode :=
  [(.addMp 1, sp0)] ++ cstraightSp (ρOf cs0) ex1 ++ [(.label "end", sp0), (.ret, sp0)]
private def relCode : NCode := (stripLabels symCode).map (resolve (labelIndex symCode))
private def vmCode : Code := [{ name := "@main.main", code := renameVars relCode }]
/-- `x = 3` in slot 0 at `mp = 5`; the frame is at instruction 1 (after `addMp`). -/
private def vm0 : VMState := { calls := [⟨"@main.main", 1⟩], mp := 5, mem := [(5, .int 3)] }
private def spec0 : St := { scopes := [[("x", .int 3)]] }

private theorem relocate_symCode : relocate symCode = some relCode := rfl

private theorem env0 : EnvRel (ρOf cs0) (slotFn relCode) {} (Frag.vars ex1) spec0.scopes vm0.mp vm0.mem := by
  intro x hx
  have : x = "x" := by simpa [Frag.vars, ex1] using hx
  subst this
  exact ⟨"@main.x.0", .int 3, rfl, rfl, by decide, by decide, rfl⟩

/-- `(1 + x) * 3` with `x = 3`: the specification says 12 … -/
example : evalExpr { prog := [] } 4 ex1 spec0 = (.ok (.int 12), spec0) := rfl
/-- … and five VM steps push 12 (the statement instantiated through all three passes). -/
example : execN vmCode {} 5 vm0 = .next (done vm0 5 (.int 12)) := by
  have h := compiled_straight_correct { prog := [] } vmCode {} (ρOf cs0) 4 ex1 spec0 vm0
    ⟨"@main.main", 1⟩ [] [(.addMp 1, sp0)] [(.label "end", sp0), (.ret, sp0)] relCode
    (by decide) relocate_symCode rfl rfl rfl env0 rfl
  have hev : evalExpr { prog := [] } 4 ex1 spec0 = (.ok (.int 12), spec0) := rfl
  rw [hev] at h
  exact h.2

private def spD : Span := ⟨7, 3, 7, 14⟩
/-- `1 / (x - 3)` -/
private def ex2 : Expr :=
  .infix spD .int .div (.int sp0 1)
    (.grouped sp0 (.infix spA .int .sub (.ident sp0 .int "x" false false false) (.int sp0 3)))
private def vmCode2 : Code :=
  [{ name := "f", code := (cstraightSp (ρOf cs0) ex2).map (lower (fun _ => 0) (fun _ => 0)) }]
private def vm2 : VMState := { calls := [⟨"f", 0⟩], mp := 5, mem := [(5, .int 3)] }

/-- `1 / (x - 3)` with `x = 3`: the specification's fatal `ValueError` at the span of `/` is
the VM's fatal interrupt. -/
example : ∃ s', execN vmCode2 {} 5 vm2 =
    .intr (.fatal "ValueError" "Division by zero error: this is operation is illegal" spD) s' ∧ SameStore vm2 s' := by
  have h := straight_fatal { prog := [] } vmCode2 {} (ρOf cs0) (fun _ => 0) (fun _ => 0) 4 ex2 spec0 spec0
    "ValueError" "Division by zero error: this is operation is illegal" spD vm2 ⟨"f", 0⟩ [] _
    (by decide) rfl rfl (fun k _ => by simp) ?_ rfl rfl
  · exact h.2
  · intro x hx
    have : x = "x" := by simpa [Frag.vars, ex2] using hx
    subst this
    exact ⟨"@main.x.0", .int 3, rfl, rfl, by decide, by decide, rfl⟩
end Example4

/-! ## 5. Pure expressions with control flow: `&&`, `||`, `if`/`else` -/

/-- **`compileExpr` on pure expressions with control flow.** For `e` in `Frag.pureE` (the
straight-line fragment plus `&&`, `||`, and `if c { t } else { e }` whose branches are single
pure expressions) the emitted code — now containing `Label`s and jumps — is the pure function
`cpE module ρ e labelCounters`; compiling appends it to the current function and advances the
label counters accordingly; nothing else changes (`upd`). -/
theorem compileExpr_pure (fuel : Nat) (e : Expr) (cs : CState)
    (hs : Frag.pureE e = true) (hd : Frag.depthE e ≤ fuel)
    (hv : ∀ x ∈ Frag.varsE e, (ρOf cs x).isSome = true) :
    (compileExpr fuel e).run cs =
      ((), upd cs (cpE cs.currModule (ρOf cs) e cs.labelMangle).1 (cpE cs.currModule (ρOf cs) e cs.labelMangle).2) :=
  Sim.compileExpr_pure fuel e cs hs hd hv

/-- **Label hygiene.** The labels defined in the code of a pure expression are pairwise
distinct, and each is `<module>.<ident>.<n>` with `n` between the counter of `ident` before and
after — so they differ from every label generated earlier or later (names are injective:
`labelName_inj`). This is what makes `relocateLabels`' "last definition wins" harmless. -/
theorem pure_labels_fresh (mod : String) (ρ : String → Option String) (e : Expr) (lm : LM) :
    LblInv mod lm (cpE mod ρ e lm).2 (definedLabels (cpE mod ρ e lm).1) :=
  (cpE_labels mod ρ (Frag.depthE e)).1 e lm (Nat.le_refl _)

/-- **Label names are injective**: for a fixed module, `<module>.<ident>.<n>` (what `mangleLabel`
returns: `freshLabel_fst`) determines `(ident, n)` — for every identifier, digits or dots
included: `n` is what follows the last `.`. -/
theorem label_names_injective (mod id1 id2 : String) (c1 c2 : Nat)
    (h : labelName mod id1 c1 = labelName mod id2 c2) : id1 = id2 ∧ c1 = c2 :=
  labelName_inj mod id1 id2 c1 c2 h

/-- **Values.** `Placed`: the VM code of the current function holds `e`'s code (labels stripped,
lowered through `lab`, `σ`) from the frame's `ip` on, and `lab` sends each label defined in it
to its position. If the specification evaluates `e` to `v` then its state is unchanged and the
VM gets, in some number `k` of `VM.step`s without interrupt or panic, to `ip + n` (`n` = number
of real instructions of the fragment) with `v` pushed and nothing else changed — whichever
branches were taken. -/
theorem pure_ok (cfg : Cfg) (code : Code) (lim : Limits) (mod : String) (ρ : String → Option String)
    (σ lab : String → Nat) (fuel : Nat) (e : Expr) (lm : LM) (st st' : St) (v : Val) (s : VMState)
    (f : Frame) (rest : List Frame) (c : List (RInstr × Span))
    (hs : Frag.pureE e = true) (hcalls : s.calls = f :: rest) (hfn : findCode code f.fn = some c)
    (hcode : Placed lab σ c f.ip (cpE mod ρ e lm).1)
    (henv : EnvRel ρ σ lim (Frag.varsE e) st.scopes s.mp s.mem) (hheap : s.st.heap = st.heap)
    (hev : evalExpr cfg fuel e st = (.ok v, st')) :
    st' = st ∧ ∃ k, execN code lim k s =
      .next (reach s (f.ip + nI (cpE mod ρ e lm).1) k (⟨v, none⟩ :: s.stack) s.mem) := by
  have := exec_pure cfg code lim mod ρ σ lab s f rest c hcalls hfn fuel e st f.ip s.stack s.mem lm hs hcode henv hheap
  rw [hev] at this
  exact ⟨this.1, this.2.from_state hcalls⟩

/-- **Fatal errors.** Same hypotheses; a fatal error of the specification is the VM's fatal
interrupt (same kind, message, span), with heap/output/globals untouched. -/
theorem pure_fatal (cfg : Cfg) (code : Code) (lim : Limits) (mod : String) (ρ : String → Option String)
    (σ lab : String → Nat) (fuel : Nat) (e : Expr) (lm : LM) (st st' : St) (kd m : String) (fsp : Span)
    (s : VMState) (f : Frame) (rest : List Frame) (c : List (RInstr × Span))
    (hs : Frag.pureE e = true) (hcalls : s.calls = f :: rest) (hfn : findCode code f.fn = some c)
    (hcode : Placed lab σ c f.ip (cpE mod ρ e lm).1)
    (henv : EnvRel ρ σ lim (Frag.varsE e) st.scopes s.mp s.mem) (hheap : s.st.heap = st.heap)
    (hev : evalExpr cfg fuel e st = (.error (.fatal kd m fsp), st')) :
    st' = st ∧ ∃ k s', execN code lim k s = .intr (.fatal kd m fsp) s' ∧
      s'.st = s.st ∧ s'.mp = s.mp ∧ s'.globals = s.globals ∧ s'.handlers = s.handlers := by
  have := exec_pure cfg code lim mod ρ σ lab s f rest c hcalls hfn fuel e st f.ip s.stack s.mem lm hs hcode henv hheap
  rw [hev] at this
  exact ⟨this.1, this.2.from_state hcalls⟩

/-- **The three passes together, with labels.** Symbolic function code `pre ++ code(e) ++ post`
in which no label of `code(e)` is defined again in `post`; `relocateLabels` gives `r`; the VM
runs `renameVariables r`. Then `Placed` holds with `lab = labelIndex` of the whole function and
`σ = slotFn r` (items 1 and 2), hence the simulation `SimP` from instruction `nI pre`. -/
theorem compiled_pure_correct (cfg : Cfg) (code : Code) (lim : Limits) (mod : String)
    (ρ : String → Option String) (fuel : Nat) (e : Expr) (lm : LM) (st : St) (s : VMState)
    (f : Frame) (rest : List Frame) (pre post : SCode) (r : NCode) (stk : List SVal) (mem : List (Int × Val))
    (hs : Frag.pureE e = true)
    (hrel : relocate (pre ++ (cpE mod ρ e lm).1 ++ post) = some r)
    (hpost : ∀ l ∈ definedLabels (cpE mod ρ e lm).1, l ∉ definedLabels post)
    (hcalls : s.calls = f :: rest) (hfn : findCode code f.fn = some (renameVars r))
    (henv : EnvRel ρ (slotFn r) lim (Frag.varsE e) st.scopes s.mp mem) (hheap : s.st.heap = st.heap) :
    SimP code lim s (nI pre) (nI (cpE mod ρ e lm).1) stk mem st (evalExpr cfg fuel e st) :=
  Sim.compiled_pure_correct cfg code lim mod ρ fuel e lm st s f rest pre post r stk mem hs hrel hpost hcalls hfn
    henv hheap

section Example5
private def spI : Span := ⟨3, 1, 3, 40⟩
private def spL : Span := ⟨3, 4, 3, 20⟩
/-- `if x > 2 && x != 5 { x * 2 } else { 0 }` -/
def ex3 : Expr :=
  .ifE spI .int
    (.infix spL .bool .and
      (.infix sp0 .bool .gt (.ident sp0 .int "x" false false false) (.int sp0 2))
      (.infix sp0 .bool .ne (.ident sp0 .int "x" false false false) (.int sp0 5)))
    (.mk sp0 .int [] (some (.infix sp0 .int .mul (.ident sp0 .int "x" false false false) (.int sp0 2))))
    (some (.mk sp0 .int [] (some (.int sp0 0))))

example : Frag.pureE ex3 = true ∧ Frag.depthE ex3 ≤ 5 := by decide

/-- The emitted code, labels and all … -/
example : (cpE "main" (ρOf cs0) ex3 []).1 =
    [(.getVar "@main.x.0", sp0), (.copyPush (.int 2), sp0), (.gt, sp0),
     (.jumpIfFalse "main.return_false.0", spL),
     (.getVar "@main.x.0", sp0), (.copyPush (.int 5), sp0), (.eq, sp0), (.not, sp0),
     (.jump "main.after_infix.0", spL), (.label "main.return_false.0", spL),
     (.copyPush (.bool false), spL), (.label "main.after_infix.0", spL),
     (.jumpIfFalse "main.else.0", spI),
     (.getVar "@main.x.0", sp0), (.copyPush (.int 2), sp0), (.mul, sp0),
     (.jump "main.if_after.0", spI), (.label "main.else.0", spI),
     (.copyPush (.int 0), sp0), (.label "main.if_after.0", spI)] := rfl

/-- … is what the real `compileExpr` produces (statement instantiated). -/
example : (((compileExpr 5 ex3).run cs0).2.fns.lookup ("main", "main")).map (·.code) =
    some ([(.addMp 1, sp0)] ++ (cpE "main" (ρOf cs0) ex3 []).1) := by
  rw [compileExpr_pure 5 ex3 cs0 (by decide) (by decide) (by decide)]
  rfl

private def symCode3 : SCode :=
  [(.addMp 1, sp0)] ++ (cpE "main" (ρOf cs0) ex3 []).1 ++ [(.label "main.cleanup.0", sp0), (.ret, sp0)]
private def relCode3 : NCode := (stripLabels symCode3).map (resolve (labelIndex symCode3))
private def vmCode3 : Code := [{ name := "@main.main", code := renameVars relCode3 }]
private def vm3 : VMState := { calls := [⟨"@main.main", 1⟩], mp := 5, mem := [(5, .int 3)] }
private def spec3 : St := { scopes := [[("x", .int 3)]] }

/-- With `x = 3` the specification says 6, and the VM — through `relocate`, `renameVars`, both
conditional jumps and the final `jump` — arrives at instruction 17 with 6 pushed. -/
example : ∃ k, execN vmCode3 {} k vm3 = .next (reach vm3 17 k [⟨.int 6, none⟩] vm3.mem) := by
  have h := compiled_pure_correct { prog := [] } vmCode3 {} "main" (ρOf cs0) 5 ex3 [] spec3 vm3
    ⟨"@main.main", 1⟩ [] [(.addMp 1, sp0)] [(.label "main.cleanup.0", sp0), (.ret, sp0)] relCode3 [] vm3.mem
    (by decide) (by rfl) (by decide) rfl rfl ?_ rfl
  · have hev : evalExpr { prog := [] } 5 ex3 spec3 = (.ok (.int 6), spec3) := rfl
    rw [hev] at h
    exact h.2.from_state (f := ⟨"@main.main", 1⟩) rfl
  · intro x hx
    have : x = "x" := by
      simp only [Frag.varsE, Frag.varsB, ex3, List.mem_append, List.mem_singleton, List.not_mem_nil,
        or_self, or_false] at hx
      exact hx
    subst this
    exact ⟨"@main.x.0", .int 3, rfl, rfl, by decide, by decide, rfl⟩
end Example5

/-! ## 6. `let`, assignment, `if`, `while` -/

/-- **`compileStmts` on the statement fragment.** For sequences of `let x = e;`, `x = e;`,
`x op= e;` (local `x`, pure `e`), `if c { … }`, `if c { … } else { … }` and `while c { … }` over
blocks of such statements (`Frag.okSs`), well scoped (`Frag.wsSs`), the Go compiler appends exactly `cSs module ss env` to the current function
and leaves the state `updS …`: scopes, variable counters, label counters and the function's
variable count as computed by the pure function `cSs`; the loop stack and everything else as
before. -/
theorem compileStmts_frag (fuel : Nat) (ss : List Stmt) (cs : CState)
    (hs : Frag.okSs ss = true) (hd : Frag.depthSs ss ≤ fuel)
    (hws : Frag.wsSs cs.currModule ss (envOf cs) = true) :
    (compileStmts fuel ss).run cs =
      ((), updS cs cs.loops (cSs cs.currModule ss (envOf cs)).1 (cSs cs.currModule ss (envOf cs)).2) := by
  have := (compile_stmt fuel).2.1 ss cs hs hd cs.loops [] (envOf cs) hws
  rwa [updS_self, List.nil_append] at this

/-- **Mangled variable names are injective** (the scheme after the fix of finding V26): for a
fixed module, `@<module>.<ident>.<n>` (what `mangleVar` returns: `freshVar`) determines
`(ident, n)` — for every identifier, no hypothesis on its characters: the decimal `n` contains no
`.`, so it is what follows the last `.` of the name. Distinct declarations therefore get distinct
names, hence — by `slots_injective` — distinct slots. -/
theorem mangled_names_injective (mod x y : String) (c d : Nat)
    (h : mangleName mod x c = mangleName mod y d) : x = y ∧ c = d :=
  mangleName_inj mod x y c d h

/-- The names that collided under the old scheme `@<module>_<ident><n>` (`x1`,0 and `x`,10 both
gave `@main_x10`) are now different. -/
example : mangleName "main" "x1" 0 = "@main.x1.0" ∧ mangleName "main" "x" 10 = "@main.x.10" ∧
    mangleName "main" "x1" 0 ≠ mangleName "main" "x" 10 := by decide

section V26Witness
private def mkLet (x : String) (v : Int) : Stmt := .letS sp0 x .int false .int (.int sp0 v)
private def printVar (x : String) : Stmt :=
  .exprS sp0 (.call sp0 .null (.ident sp0 (.fn [] .null) "println" false false false)
    [("", .ident sp0 .int x false false false)] false)
/-- `fn main() { let x1 = 100; let x = 0; let x = 1; … let x = 10; println(x1); }` — the witness
of finding V26: before the fix the eleventh `x` shared the slot of `x1` and the VM printed `10`. -/
private def v26prog : Program :=
  [{ name := "main", imports := [], singletons := [], globals := [], nImpls := 0,
     fns := [⟨sp0, "main", [], .null, 0, false,
       .mk sp0 .null ([mkLet "x1" 100] ++ (List.range 11).map (fun (i : Nat) => mkLet "x" (i : Int)) ++
         [printVar "x1"]) none⟩] }]

/-- On the models themselves (kernel evaluation): the specification prints `100` … -/
example : (match runProgram { prog := v26prog } 100 with | .ok out _ => out | _ => "?") = "100\n" := by
  decide +kernel
/-- … and so does the compiled program on the VM. -/
example : (match compile v26prog "main" 100 with
    | .ok c => (match runMain c {} 50 1000 with | .ok s => s.st.out | _ => "?")
    | .error e => e) = "100\n" := by
  decide +kernel
end V26Witness

/-- **Statements on the VM.** `StRel`: level by level the specification's scopes and the
compiler's scopes bind the same (tracked) identifiers, each mangled name's slot is a legal cell
holding the specification's value, live names are pairwise distinct and below the current
counters. `Good`: `σ` is injective on the name set `N`
and every name of `N` has a cell inside the memory limit. If the code of `ss` is `Placed` at `ip`
and the relation holds, then (`SimS`): when the specification completes `ss`, only its scopes
changed, and the VM — through all loop iterations — arrives at the end of the code with its
operand stack as before and a memory for which the relation holds again; a fatal error is matched
by the same fatal interrupt; the fragment never produces `break`/`continue`/`return`/`throw`. -/
theorem stmts_correct (cfg : Cfg) (code : Code) (lim : Limits) (mod : String) (T : List String)
    (N : String → Prop) (σ lab : String → Nat) (s : VMState) (f : Frame) (rest : List Frame)
    (c : List (RInstr × Span)) (hcalls : s.calls = f :: rest) (hfn : findCode code f.fn = some c)
    (hg : Good T N σ lim s.mp)
    (fuel : Nat) (ss : List Stmt) (env : CEnv) (spec : St) (ip : Nat) (stk : List SVal) (mem : List (Int × Val))
    (hs : Frag.okSs ss = true) (hT : ∀ x ∈ Frag.identsSs ss, x ∈ T) (hws : Frag.wsSs mod ss env = true)
    (hN : ∀ m ∈ codeVars (cSs mod ss env).1, N m) (hpl : Placed lab σ c ip (cSs mod ss env).1)
    (hrel : StRel mod T N σ lim s.mp env.scopes env.vm spec.scopes mem) (hheap : s.st.heap = spec.heap) :
    SimS code lim s ip (nI (cSs mod ss env).1) stk mem
      (StRel mod T N σ lim s.mp (cSs mod ss env).2.scopes (cSs mod ss env).2.vm) spec
      (evalStmts cfg fuel ss spec) :=
  (exec_stmt_all hcalls hfn hg fuel).2.1 ss env spec ip stk mem hs hT hws hN hpl hrel hheap

/-- **Statements, the three passes together** (`relocateLabels`, `renameVariables`, VM). -/
theorem compiled_stmts_correct (cfg : Cfg) (code : Code) (lim : Limits) (mod : String) (T : List String)
    (fuel : Nat) (ss : List Stmt) (env : CEnv) (spec : St) (s : VMState) (f : Frame) (rest : List Frame)
    (pre post : SCode) (r : NCode) (stk : List SVal) (mem : List (Int × Val))
    (hs : Frag.okSs ss = true) (hT : ∀ x ∈ Frag.identsSs ss, x ∈ T)
    (hws : Frag.wsSs mod ss env = true)
    (hrel : relocate (pre ++ (cSs mod ss env).1 ++ post) = some r)
    (hpost : ∀ l ∈ definedLabels (cSs mod ss env).1, l ∉ definedLabels post)
    (hcalls : s.calls = f :: rest) (hfn : findCode code f.fn = some (renameVars r))
    (hframe : ∀ m ∈ varNames r, 0 ≤ s.mp - (slotFn r m : Int) ∧ s.mp - (slotFn r m : Int) < (lim.memory : Int))
    (hst : StRel mod T (· ∈ varNames r) (slotFn r) lim s.mp env.scopes env.vm spec.scopes mem)
    (hheap : s.st.heap = spec.heap) :
    SimS code lim s (nI pre) (nI (cSs mod ss env).1) stk mem
      (StRel mod T (· ∈ varNames r) (slotFn r) lim s.mp (cSs mod ss env).2.scopes (cSs mod ss env).2.vm)
      spec (evalStmts cfg fuel ss spec) :=
  Sim.compiled_stmts_correct cfg code lim mod T fuel ss env spec s f rest pre post r stk mem hs hT hws hrel
    hpost hcalls hfn hframe hst hheap

section Example6
private def idn (x : String) : Expr := .ident sp0 .int x false false false
/-- `let i = 0; let acc = 0; while i < 5 { if i % 2 == 0 { acc += i; } i += 1; }` -/
def loopEx : List Stmt :=
  [ .letS sp0 "i" .int false .int (.int sp0 0),
    .letS sp0 "acc" .int false .int (.int sp0 0),
    .whileS sp0 (.infix sp0 .bool .lt (idn "i") (.int sp0 5))
      (.mk sp0 .null
        [ .exprS sp0 (.ifE sp0 .null
            (.infix sp0 .bool .eq (.infix sp0 .int .rem (idn "i") (.int sp0 2)) (.int sp0 0))
            (.mk sp0 .null [ .exprS sp0 (.assign sp0 (some .add) (idn "acc") (idn "i")) ] none) none),
          .exprS sp0 (.assign sp0 (some .add) (idn "i") (.int sp0 1)) ] none) ]
private def envL : CEnv := ⟨[[]], [], [], 0⟩
private def csL : CState :=
  { fns := [(("main", "main"), { name := "@main.main", code := [(.addMp 4, sp0)] })],
    currFn := "main", currModule := "main" }
private def symL : SCode :=
  [(.addMp 4, sp0)] ++ (cSs "main" loopEx envL).1 ++
    [(.label "main.cleanup.0", sp0), (.addMp (-4), sp0), (.ret, sp0)]
private def relL : NCode := (stripLabels symL).map (resolve (labelIndex symL))
private def codeL : Code := [{ name := "@main.main", code := renameVars relL }]
private def vmL : VMState := { calls := [⟨"@main.main", 1⟩], mp := 4 }
private def TL : List String := ["i", "acc"]

example : Frag.okSs loopEx = true ∧ Frag.depthSs loopEx ≤ 13 ∧ Frag.wsSs "main" loopEx envL = true := by
  decide +kernel

/-- The real compiler run produces `cSs …` (statement instantiated). -/
example : (((compileStmts 13 loopEx).run csL).2.fns.lookup ("main", "main")).map (·.code) =
    some ([(.addMp 4, sp0)] ++ (cSs "main" loopEx envL).1) := by
  rw [compileStmts_frag 13 loopEx csL (by decide +kernel) (by decide +kernel) (by decide +kernel)]
  rfl

private theorem relocate_symL : relocate symL = some relL := by
  have h : (relocate symL).isSome = true := by decide +kernel
  obtain ⟨r, hr⟩ := Option.isSome_iff_exists.mp h
  rw [hr, relocate_some symL r hr]
  rfl

private def isInt (n : Int) : Val → Bool
  | .int i => i.toInt == n
  | _ => false
private def okU : Except Ctl Unit → Bool
  | .ok _ => true
  | _ => false

/-- The specification: the loop ends normally with `acc = 6`. -/
private theorem spec_facts : okU (evalStmts { prog := [] } 20 loopEx {}).1 = true ∧
    ((lookupScopes "acc" (evalStmts { prog := [] } 20 loopEx {}).2.scopes).map (isInt 6)) = some true := by
  decide +kernel

/-- The VM, running the relocated and renamed code from instruction 1 with an empty memory,
reaches the end of the loop (instruction 25) with `6 = 0 + 2 + 4` in the cell of `acc` (slot 1:
cell `mp - 1 = 3`), after six evaluations of the loop condition, five passes through the body
and three through the `if` branch. -/
example : ∃ k mem', execN codeL {} k vmL = .next (reach vmL 25 k [] mem') ∧
    ∃ i : I64, mem'.lookup 3 = some (.int i) ∧ i.toInt = 6 := by
  have hst : StRel "main" TL (· ∈ varNames relL) (slotFn relL) {} vmL.mp envL.scopes envL.vm
      ({} : St).scopes [] :=
    ⟨⟨fun _ _ => trivial, trivial⟩, by decide +kernel, by decide +kernel, by
      intro sc hsc p hp; simp [envL] at hsc; subst hsc; simp at hp⟩
  have h1 : Frag.okSs loopEx = true := by decide +kernel
  have h2 : ∀ x ∈ Frag.identsSs loopEx, x ∈ TL := by decide +kernel
  have h4 : Frag.wsSs "main" loopEx envL = true := by decide +kernel
  have h5 : ∀ l ∈ definedLabels (cSs "main" loopEx envL).1,
      l ∉ definedLabels [((Instr.label "main.cleanup.0" : SInstr), sp0), (.addMp (-4), sp0), (.ret, sp0)] := by
    decide +kernel
  have h6 : findCode codeL (⟨"@main.main", 1⟩ : Frame).fn = some (renameVars relL) := by
    simp [findCode, codeL]
  have h7 : ∀ m ∈ varNames relL, 0 ≤ vmL.mp - (slotFn relL m : Int) ∧
      vmL.mp - (slotFn relL m : Int) < ((({} : Limits).memory : Nat) : Int) := by decide +kernel
  -- (the fuel is kept abstract while the theorem is instantiated, so that the elaborator does not
  -- start evaluating the specification; the kernel does that in `spec_facts`)
  obtain ⟨fuel, hfuel⟩ : ∃ n : Nat, n = 20 := ⟨20, rfl⟩
  have h := compiled_stmts_correct { prog := [] } codeL {} "main" TL fuel loopEx envL {} vmL
    ⟨"@main.main", 1⟩ [] [(.addMp 4, sp0)] [(.label "main.cleanup.0", sp0), (.addMp (-4), sp0), (.ret, sp0)]
    relL [] [] h1 h2 h4 relocate_symL h5 rfl h6 h7 hst rfl
  subst hfuel
  obtain ⟨hok, hacc⟩ := spec_facts
  rcases hev : evalStmts { prog := [] } 20 loopEx {} with ⟨res, st'⟩
  rw [hev] at h hok hacc
  cases res with
  | error e => simp [okU] at hok
  | ok u =>
    obtain ⟨_, mem', hrun, hrel'⟩ := h
    have hlk := hrel'.scopes.lookup TL (slotFn relL) {} vmL.mp "acc" (by decide)
    have hρ : ρS (cSs "main" loopEx envL).2.scopes "acc" = some "@main.acc.0" := by decide +kernel
    rw [hρ] at hlk
    simp only at hacc
    cases hv : lookupScopes "acc" st'.scopes with
    | none => simp [hv] at hacc
    | some v =>
      rw [hv] at hlk hacc
      simp only [Option.map_some, Option.some.injEq] at hacc
      obtain ⟨⟨_, _, hmem⟩, _⟩ := hlk
      obtain ⟨k, hk⟩ := hrun.from_state (f := ⟨"@main.main", 1⟩) rfl
      have hslot : vmL.mp - (slotFn relL "@main.acc.0" : Int) = 3 := by decide +kernel
      rw [hslot] at hmem
      refine ⟨k, mem', hk, ?_⟩
      cases v <;> simp [isInt] at hacc
      exact ⟨_, hmem, hacc⟩
end Example6

/-! ## 7. Whole functions -/

/-- **`compileFn`.** For a function without parameters and annotation whose body is a block of
statements of the fragment (no trailing expression), well scoped from the environment `fnEnv`
(the function's top scope holding the cleanup label, around the enclosing scopes): `compileFn`
ends in the state `fnFinal`, in which the function's entry is
`fnCode = AddMempointer(n); <cSs …>; cleanup: AddMempointer(-n); Return` with variable count `n`;
other functions, the scopes, the loop stack, the `try` depth and the `unsupported` flag are as
before. -/
theorem compileFn_frag (f2 : Nat) (fd : FnDef) (cs : CState) (bsp : Span) (bty : Ty) (stmts : List Stmt)
    (hbody : fd.body = .mk bsp bty stmts none) (hparams : fd.params = []) (hann : fd.hasAnnotation = false)
    (hs : Frag.okSs stmts = true) (hd : Frag.depthSs stmts ≤ f2)
    (hws : Frag.wsSs cs.currModule stmts (fnEnv cs fd.name) = true) :
    (compileFn (f2 + 2) fd).run cs = ((), fnFinal cs fd stmts) ∧
    (fnFinal cs fd stmts).fns.lookup (cs.currModule, fd.name) =
      some { name := mangleFnName cs.currModule fd.name, code := fnCode cs fd stmts,
             cntVars := (cSs cs.currModule stmts (fnEnv cs fd.name)).2.nv } ∧
    (∀ k, k ≠ (cs.currModule, fd.name) → (fnFinal cs fd stmts).fns.lookup k = cs.fns.lookup k) ∧
    (fnFinal cs fd stmts).scopes = cs.scopes ∧ (fnFinal cs fd stmts).loops = cs.loops ∧
    (fnFinal cs fd stmts).tryDepth = cs.tryDepth ∧ (fnFinal cs fd stmts).unsupported = cs.unsupported :=
  ⟨compileFn_frag_run f2 fd cs bsp bty stmts hbody hparams hann hs hd hws, fnFinal_lookup cs fd stmts,
   fnFinal_lookup_other cs fd stmts, (fnFinal_frame cs fd stmts).1, (fnFinal_frame cs fd stmts).2.1,
   (fnFinal_frame cs fd stmts).2.2.1, (fnFinal_frame cs fd stmts).2.2.2.2.1⟩

/-- **Slots fit the frame** (memory safety of locals): every slot `renameVariables` assigns in
such a function is at most the `n` of its `AddMempointer(n)`, so `mp - slot` stays inside the
cells the prologue reserved. -/
theorem fn_slots_fit (T : List String) (cs : CState) (fd : FnDef) (stmts : List Stmt) (r : NCode)
    (hT : ∀ x ∈ Frag.identsSs stmts, x ∈ T)
    (hws : Frag.wsSs cs.currModule stmts (fnEnv cs fd.name) = true)
    (hkey : cleanupKey cs.currModule fd.name ∉ T)
    (houter : ∀ sc ∈ cs.scopes, ∀ x ∈ T, sc.lookup x = none)
    (hrel : relocate (fnCode cs fd stmts) = some r) :
    ∀ m ∈ varNames r, slotFn r m ≤ (cSs cs.currModule stmts (fnEnv cs fd.name)).2.nv :=
  fn_slots_le T cs fd stmts r hT hws hkey houter hrel

/-- **A whole function on the VM.** The VM is about to execute instruction 0 of the function
(`relocateLabels` and `renameVariables` applied to `fnCode`), with a non-negative memory
pointer and room for the frame; the specification starts the body in a fresh activation
(`scopes = [[]]`); the identifiers of the body are not bound in the enclosing compile scopes. Then (`SimFn`): if the specification completes the body, the VM executes prologue, body
(with all its jumps) and epilogue and returns to the caller's frame with operand stack, memory
pointer, heap, output, globals and handlers as at the call; a fatal error of the specification is
the VM's fatal interrupt; the fragment produces no other outcome (`unsupported`/`timeout` of the
model aside). -/
theorem fn_body_correct (cfg : Cfg) (code : Code) (lim : Limits) (T : List String) (fuel : Nat)
    (cs : CState) (fd : FnDef) (stmts : List Stmt) (r : NCode) (spec : St) (s0 : VMState) (fname : String)
    (rest : List Frame)
    (hs : Frag.okSs stmts = true) (hT : ∀ x ∈ Frag.identsSs stmts, x ∈ T)
    (hws : Frag.wsSs cs.currModule stmts (fnEnv cs fd.name) = true)
    (hkey : cleanupKey cs.currModule fd.name ∉ T)
    (houter : ∀ sc ∈ cs.scopes, ∀ x ∈ T, sc.lookup x = none)
    (hrel : relocate (fnCode cs fd stmts) = some r)
    (hcalls : s0.calls = ⟨fname, 0⟩ :: rest) (hfn : findCode code fname = some (renameVars r))
    (hmp0 : 0 ≤ s0.mp)
    (hmem : s0.mp + ((cSs cs.currModule stmts (fnEnv cs fd.name)).2.nv : Int) < (lim.memory : Int))
    (hspec : spec.scopes = [[]]) (hheap : s0.st.heap = spec.heap) :
    SimFn code lim s0 rest spec (evalStmts cfg fuel stmts spec) :=
  fn_body_correct' cfg code lim T fuel cs fd stmts r spec s0 fname rest hs hT hws hkey houter hrel hcalls hfn
    hmp0 hmem hspec hheap

/-- **The VM's driver on a top-level call** (`Core.Run`: poll, then a quantum of instructions).
Hypotheses of `fn_body_correct`, no caller frame, operand stack within its limit. For every
quantum at least as large as the number of instructions the call executes — so that no poll
falls inside it — `run` ends with `ok`, in a state with heap/output, memory pointer and stack as
at the call, when the specification completes the body; and with the specification's fatal error
(same kind, message, span) when it ends in one. -/
theorem fn_run (cfg : Cfg) (code : Code) (lim : Limits) (T : List String) (fuel : Nat)
    (cs : CState) (fd : FnDef) (stmts : List Stmt) (r : NCode) (spec : St) (s0 : VMState) (fname : String)
    (hs : Frag.okSs stmts = true) (hT : ∀ x ∈ Frag.identsSs stmts, x ∈ T)
    (hws : Frag.wsSs cs.currModule stmts (fnEnv cs fd.name) = true)
    (hkey : cleanupKey cs.currModule fd.name ∉ T)
    (houter : ∀ sc ∈ cs.scopes, ∀ x ∈ T, sc.lookup x = none)
    (hrel : relocate (fnCode cs fd stmts) = some r)
    (hcalls : s0.calls = [⟨fname, 0⟩]) (hfn : findCode code fname = some (renameVars r))
    (hmp0 : 0 ≤ s0.mp)
    (hmem : s0.mp + ((cSs cs.currModule stmts (fnEnv cs fd.name)).2.nv : Int) < (lim.memory : Int))
    (hstack : s0.stack.length ≤ lim.stack) (hcallLim : 1 ≤ lim.callStack)
    (hspec : spec.scopes = [[]]) (hheap : s0.st.heap = spec.heap) :
    match evalStmts cfg fuel stmts spec with
    | (.ok _, _) =>
      ∃ K, ∀ quantum, K ≤ quantum → ∀ vfuel, ∃ s', run code lim quantum none (vfuel + 1) s0 = .ok s' ∧
        s'.st = s0.st ∧ s'.mp = s0.mp ∧ s'.stack = s0.stack
    | (.error (.fatal kd m sp), _) =>
      ∃ K, ∀ quantum, K ≤ quantum → ∀ vfuel, ∃ s', run code lim quantum none (vfuel + 1) s0 = .fatal kd m sp s' ∧
        s'.st = s0.st
    | _ => True :=
  Sim.fn_run cfg code lim T fuel cs fd stmts r spec s0 fname hs hT hws hkey houter hrel hcalls hfn hmp0 hmem
    hstack hcallLim hspec hheap

section Example7
/-- `fn main() { let i = 0; let acc = 0; while i < 5 { if i % 2 == 0 { acc += i; } i += 1; } }` -/
private def fdL : FnDef := ⟨sp0, "main", [], .null, 0, false, .mk sp0 .null loopEx none⟩
/-- The compiler state in which pass 2 of `compileProgram` reaches `main`. -/
private def csF : CState :=
  { fns := [(("main", "@init"), { name := "@main.@init", code := [] }),
            (("main", "main"), { name := "@main.main", code := [] })],
    currFn := "@init", currModule := "main" }
private def relF : NCode :=
  (stripLabels (fnCode csF fdL loopEx)).map (resolve (labelIndex (fnCode csF fdL loopEx)))
private def codeF : Code := [{ name := "@main.main", code := renameVars relF }]
private def vmF : VMState := { calls := [⟨"@main.main", 0⟩] }

private theorem relocate_fnCode : relocate (fnCode csF fdL loopEx) = some relF := by
  have h : (relocate (fnCode csF fdL loopEx)).isSome = true := by decide +kernel
  obtain ⟨r, hr⟩ := Option.isSome_iff_exists.mp h
  rw [hr, relocate_some _ r hr]
  rfl

/-- `compileFn` really produces `fnCode …` for `main` (statement instantiated), … -/
example : (((compileFn 15 fdL).run csF).2.fns.lookup ("main", "main")).map (·.code) =
    some (fnCode csF fdL loopEx) := by
  have h := compileFn_frag 13 fdL csF sp0 .null loopEx rfl rfl rfl (by decide +kernel) (by decide +kernel)
    (by decide +kernel)
  rw [h.1]
  exact congrArg (Option.map (·.code)) h.2.1

/-- … and a call of it on the VM — frame `⟨"@main.main", 0⟩`, empty stack, `mp = 0` — runs
prologue, loop and epilogue and returns (no frames left) with `mp = 0` and an empty stack. -/
example : ∃ k s', execN codeF {} k vmF = .next s' ∧ s'.calls = [] ∧ s'.mp = 0 ∧ s'.stack = [] := by
  obtain ⟨fuel, hfuel⟩ : ∃ n : Nat, n = 20 := ⟨20, rfl⟩
  have h := fn_body_correct { prog := [] } codeF {} TL fuel csF fdL loopEx relF {} vmF "@main.main" []
    (by decide +kernel) (by decide +kernel) (by decide +kernel) (by decide +kernel)
    (by decide +kernel) relocate_fnCode rfl (by simp [findCode, codeF]) (by decide) (by decide +kernel) rfl rfl
  subst hfuel
  obtain ⟨hok, _⟩ := spec_facts
  rcases hev : evalStmts { prog := [] } 20 loopEx {} with ⟨res, st'⟩
  rw [hev] at h hok
  cases res with
  | error e => simp [okU] at hok
  | ok u =>
    obtain ⟨_, k, s', hk, h1, h2, h3, _⟩ := h
    exact ⟨k, s', hk, h1, h2, h3⟩
/-- The same call through the VM's driver: with a quantum large enough `run` answers `ok`. -/
example : ∃ K, ∀ quantum, K ≤ quantum → ∀ vfuel, ∃ s', run codeF {} quantum none (vfuel + 1) vmF = .ok s' ∧
    s'.st = vmF.st ∧ s'.mp = 0 ∧ s'.stack = [] := by
  obtain ⟨fuel, hfuel⟩ : ∃ n : Nat, n = 20 := ⟨20, rfl⟩
  have h := fn_run { prog := [] } codeF {} TL fuel csF fdL loopEx relF {} vmF "@main.main"
    (by decide +kernel) (by decide +kernel) (by decide +kernel) (by decide +kernel)
    (by decide +kernel) relocate_fnCode rfl (by simp [findCode, codeF]) (by decide) (by decide +kernel)
    (by decide) (by decide) rfl rfl
  subst hfuel
  obtain ⟨hok, _⟩ := spec_facts
  rcases hev : evalStmts { prog := [] } 20 loopEx {} with ⟨res, st'⟩
  rw [hev] at h hok
  cases res with
  | error e => simp [okU] at hok
  | ok u => exact h
end Example7

/-! ## 8. Singletons: `Load_Singleton` and extraction -/

/-- **The host provides no value** (`found = false`): `Load_Singleton` leaves the default the
compiler pushed (`Cloning_Push` of the zero value) where it is. -/
theorem loadSingleton_not_found (code : Code) (lim : Limits) (s : VMState) (name m : String) (sp : Span)
    (h : lim.hostSingletons.lookup name = none) :
    step code lim s (.loadSingleton name m) sp = .next (advance s) := by
  simp [step, h]

/-- **The host provides a value** (`found = true`): the default is popped and the host's value —
the very value the specification starts the singleton with, `hostToVal` — is pushed instead. -/
theorem loadSingleton_found (code : Code) (lim : Limits) (s : VMState) (name m : String) (sp : Span)
    (hv : HostVal) (d : SVal) (rest : List SVal) (v : Val) (st' : St)
    (h : lim.hostSingletons.lookup name = some hv) (hs : s.stack = d :: rest)
    (hh : hostToVal hv s.st = (.ok v, st')) :
    step code lim s (.loadSingleton name m) sp
      = .next (advance (push1 { s with stack := rest, st := st' } v)) := by
  simp [step, h, pop1, hs, runM, hh]

/-- Without the default below it (never in compiled code: `compileSingletonInit` emits the
`Cloning_Push` first) a found value makes the Go code pop an empty stack: the panic outcome. -/
theorem loadSingleton_found_empty (code : Code) (lim : Limits) (s : VMState) (name m : String) (sp : Span)
    (hv : HostVal) (h : lim.hostSingletons.lookup name = some hv) (hs : s.stack = []) :
    step code lim s (.loadSingleton name m) sp = .panic "stack underflow" s := by
  simp [step, h, pop1, hs]

section SingletonWitness
private def callE (f : String) (args : List Expr) : Expr :=
  .call sp0 .null (.ident sp0 (.fn [] .null) f false true false) (args.map fun a => ("", a)) false
private def printE (args : List Expr) : Stmt :=
  .exprS sp0 (.call sp0 .null (.ident sp0 (.fn [] .null) "println" false false false) (args.map fun a => ("", a)) false)
private def cfgTy : Ty := .obj [("n", .int), ("l", .list .int)]
/-- `$C = { n: int, l: [int] }; $K = int;`
`fn f(c: $C, k: $K, a: int) { println(c.n + k + a); c.n = c.n + 1; }`
`fn main() { f(10); f(20); println($C.n); }` -/
private def singProg : Program :=
  [{ name := "main", imports := [], singletons := [("$C", cfgTy), ("$K", .int)], globals := [], nImpls := 0,
     fns := [
       ⟨sp0, "f", [⟨"c", cfgTy, true, "$C"⟩, ⟨"k", .int, true, "$K"⟩, ⟨"a", .int, false, ""⟩], .null, 0, false,
         .mk sp0 .null [
           printE [.infix sp0 .int .add (.infix sp0 .int .add (.member sp0 .int (.ident sp0 cfgTy "c" false false false) "n" .dot)
             (.ident sp0 .int "k" false false false)) (.ident sp0 .int "a" false false false)],
           .exprS sp0 (.assign sp0 none (.member sp0 .int (.ident sp0 cfgTy "c" false false false) "n" .dot)
             (.infix sp0 .int .add (.member sp0 .int (.ident sp0 cfgTy "c" false false false) "n" .dot) (.int sp0 1)))] none⟩,
       ⟨sp0, "main", [], .null, 0, false,
         .mk sp0 .null [.exprS sp0 (callE "f" [.int sp0 10]), .exprS sp0 (callE "f" [.int sp0 20]),
           printE [.member sp0 .int (.ident sp0 cfgTy "$C" false false true) "n" .dot]] none⟩] }]
private def singHost : HostSingletons := [("$C", .obj [("n", .int 5), ("l", .list [.int 1])]), ("$K", .int 100)]

/-- The callers pass one argument; `c` and `k` are the singletons, the update through `c` is seen
by the next call and by `$C`. Host-provided values: specification … -/
example : (match runProgram { prog := singProg, hostSingletons := singHost } 100 with | .ok out _ => out | _ => "?")
    = "115\n126\n7\n" := by
  decide +kernel
/-- … and compiled program on the VM (clean core afterwards). -/
example : (match compile singProg "main" 100 with
    | .ok c => (match runMain c { hostSingletons := singHost } 50 1000 with
      | .ok s => (s.st.out, s.stack.length, s.mp, s.handlers.length) | _ => ("?", 0, 0, 0))
    | .error e => (e, 0, 0, 0)) = ("115\n126\n7\n", 0, 0, 0) := by
  decide +kernel
/-- Nothing provided: zero values, on both sides. -/
example : (match runProgram { prog := singProg } 100 with | .ok out _ => out | _ => "?") = "10\n21\n2\n" := by
  decide +kernel
example : (match compile singProg "main" 100 with
    | .ok c => (match runMain c {} 50 1000 with | .ok s => s.st.out | _ => "?")
    | .error e => e) = "10\n21\n2\n" := by
  decide +kernel
end SingletonWitness

/-! ## The vocabulary of sections 9–15

The simulation statements of `Lemmas/SimH*.lean` thread a memory `Mem` = cells + the VM's
iterator table (which only `for` loops change, section 16). Sections 9–15 speak about programs
without `for` loops (`G.OK`), about memories given as cell lists, the iterator table being the
base state's own: these are the statements `SimGE`, `SimGS`, … below. -/

/-- The memory with cells `mem` and the base state's iterator table. -/
def memOf (G : GCtx) (mem : List (Int × Val)) : Mem := ⟨mem, itOf G.s⟩

/-- `Sim.GRel` on a cell list. -/
def GRel (G : GCtx) (A : Act) (scopes : CScopes) (vm : List (String × Nat)) (ss : SScopes)
    (mem : List (Int × Val)) : Prop := Sim.GRel G A scopes vm ss (memOf G mem)

/-- `Sim.SimGE` from a cell list; outside the extended fragment a pushed value carries no origin. -/
def SimGE (G : GCtx) (A : Act) (ip n : Nat) (stk : List SVal) (mem : List (Int × Val)) (st : St)
    (r : Except Ctl Val × St) : Prop :=
  match r with
  | (.ok v, st') =>
    st' = { st with out := st'.out, heap := st'.heap } ∧
      ∃ mem', Runs G.fr G.code G.lim G.s A.fn A.rest A.mp ip stk (memOf G mem) st.world (ip + n) (⟨v, none⟩ :: stk) mem'
          st'.world ∧ MemLe G.fr A.mp (memOf G mem) mem'
  | r => Sim.SimGE G A ip n stk (memOf G mem) st r

/-- `Sim.SimArgs` from a cell list. -/
def SimArgs (G : GCtx) (A : Act) (ip n : Nat) (stk : List SVal) (mem : List (Int × Val)) (st : St)
    (r : Except Ctl (List Val) × St) : Prop :=
  match r with
  | (.ok vals, st') =>
    st' = { st with out := st'.out, heap := st'.heap } ∧
      ∃ mem', Runs G.fr G.code G.lim G.s A.fn A.rest A.mp ip stk (memOf G mem) st.world (ip + n)
          (vals.map (⟨·, none⟩) ++ stk) mem' st'.world ∧ MemLe G.fr A.mp (memOf G mem) mem'
  | r => Sim.SimArgs G A ip n stk (memOf G mem) st r

/-- `Sim.SimGS` from a cell list, the invariant `Q` being about cells. -/
def SimGS {α : Type} (G : GCtx) (A : Act) (loops : List (String × String)) (lscopes : CScopes) (d : Nat)
    (ip n : Nat) (stk : List SVal) (mem : List (Int × Val)) (Q : SScopes → List (Int × Val) → Prop) (st : St)
    (r : Except Ctl α × St) : Prop :=
  match r with
  | (.error (.ret v), st') =>
    A.rt = true ∧ st' = { st with scopes := st'.scopes, out := st'.out, heap := st'.heap } ∧
      ∃ mem', Runs G.fr G.code G.lim G.s A.fn A.rest A.mp ip stk (memOf G mem) st.world (A.lab A.cl) (⟨v, none⟩ :: stk) mem'
          st'.world ∧ MemLe G.fr (A.mp - (A.nv : Int)) (memOf G mem) mem'
  | r => Sim.SimGS G A loops lscopes d ip n stk (memOf G mem) (fun ss m => Q ss m.cells) st r

/-- `Sim.SimCall` from a cell list. -/
def SimCall (G : GCtx) (g : String) (frames : List Frame) (mp : Int) (args : List Val) (stk : List SVal)
    (mem : List (Int × Val)) (st : St) (r : Except Ctl Val × St) : Prop :=
  match r with
  | (.ok v, st') =>
    st' = { st with out := st'.out, heap := st'.heap } ∧
      ∃ mem', RunsCall G g frames mp (args.map (⟨·, none⟩) ++ stk) (memOf G mem) st.world (⟨v, none⟩ :: stk) mem' st'.world ∧
        MemLe G.fr mp (memOf G mem) mem'
  | r => Sim.SimCall G g frames mp (args.map (⟨·, none⟩)) stk (memOf G mem) st r

/-- `Sim.SimCallV` from a cell list. -/
def SimCallV (G : GCtx) (g : String) (frames : List Frame) (mp : Int) (args : List Val) (stk : List SVal)
    (mem : List (Int × Val)) (st : St) (r : Except Ctl Val × St) : Prop :=
  match r with
  | (.ok v, st') =>
    st' = { st with out := st'.out, heap := st'.heap } ∧
      ∃ mem' stk', (stk' = stk ∨ stk' = ⟨v, none⟩ :: stk) ∧
        RunsCall G g frames mp (args.map (⟨·, none⟩) ++ stk) (memOf G mem) st.world stk' mem' st'.world ∧
        MemLe G.fr mp (memOf G mem) mem'
  | r => Sim.SimCallV G g frames mp args stk (memOf G mem) st r

private theorem simGE_of {G : GCtx} {A : Act} {ip n stk} {mem : List (Int × Val)} {st : St} {r : Except Ctl Val × St}
    (hfr : G.fr = false) (h : Sim.SimGE G A ip n stk (memOf G mem) st r) : SimGE G A ip n stk mem st r := by
  obtain ⟨r1, st1⟩ := r
  cases r1 with
  | error c => exact h
  | ok v =>
    obtain ⟨h1, mem', o, ho, hrun, hml⟩ := h
    cases ho hfr
    exact ⟨h1, mem', hrun, hml⟩

private theorem simArgs_of {G : GCtx} {A : Act} {ip n stk} {mem : List (Int × Val)} {st : St}
    {r : Except Ctl (List Val) × St}
    (hfr : G.fr = false) (h : Sim.SimArgs G A ip n stk (memOf G mem) st r) : SimArgs G A ip n stk mem st r := by
  obtain ⟨r1, st1⟩ := r
  cases r1 with
  | error c => exact h
  | ok vals =>
    obtain ⟨h1, mem', svals, _, hs0, hrun, hml⟩ := h
    rw [hs0 hfr] at hrun
    exact ⟨h1, mem', hrun, hml⟩

private theorem simCall_of {G : GCtx} {g frames mp args stk} {mem : List (Int × Val)} {st : St} {r : Except Ctl Val × St}
    (hfr : G.fr = false) (h : Sim.SimCall G g frames mp (args.map (⟨·, none⟩)) stk (memOf G mem) st r) :
    SimCall G g frames mp args stk mem st r := by
  obtain ⟨r1, st1⟩ := r
  cases r1 with
  | error c => exact h
  | ok v =>
    obtain ⟨h1, mem', o, ho, hrun, hml⟩ := h
    cases ho hfr
    exact ⟨h1, mem', hrun, hml⟩

private theorem simCallV_of {G : GCtx} {g frames mp args stk} {mem : List (Int × Val)} {st : St} {r : Except Ctl Val × St}
    (hfr : G.fr = false) (h : Sim.SimCallV G g frames mp args stk (memOf G mem) st r) :
    SimCallV G g frames mp args stk mem st r := by
  obtain ⟨r1, st1⟩ := r
  cases r1 with
  | error c => exact h
  | ok v =>
    obtain ⟨h1, mem', stk', hs, hrun, hml⟩ := h
    refine ⟨h1, mem', stk', ?_, hrun, hml⟩
    rcases hs with hs | ⟨o, ho, hs⟩
    · exact Or.inl hs
    · cases ho hfr; exact Or.inr hs

private theorem simGS_of {α : Type} {G : GCtx} {A : Act} {loops lscopes d ip n stk} {mem : List (Int × Val)}
    {scopes : CScopes} {vm : List (String × Nat)} {st : St} {r : Except Ctl α × St} (hfr : G.fr = false)
    (h : Sim.SimGS G A loops lscopes d ip n stk (memOf G mem) (Sim.GRel G A scopes vm) st r) :
    SimGS G A loops lscopes d ip n stk mem (GRel G A scopes vm) st r := by
  have h' := Sim.SimGS.monoQ (Q' := fun ss m => GRel G A scopes vm ss m.cells) (fun _ _ hq => hq.cells_congr rfl) h
  obtain ⟨r1, st1⟩ := r
  cases r1 with
  | ok u => exact h'
  | error c =>
    cases c <;> try exact h'
    obtain ⟨hrt, h1, mem', o, ho, hrun, hml⟩ := h'
    cases ho hfr
    exact ⟨hrt, h1, mem', hrun, hml⟩

/-! ## 9. Calls of top-level functions -/

/-- **A compiled function satisfies the hypotheses of the call simulation** (`FnOK`). The
function `fd` has ordinary parameters, statements `stmts` of the general fragment
(`Frag.okGSs`: `let`, assignment, `if`, `while`, `loop`, `break`, `continue`, `return e;`, call
statements, `println(…)`) and a trailing expression `e` (`Frag.okGE`: the pure fragment plus
calls `f(a₁, …, aₙ)` of top-level functions in which *all arguments but at most one are atoms* —
literals or local variables, `Frag.oneNonAtom`; see `args_order_witness` for why). Its symbolic
code is `cgFn …` = `AddMempointer(n); SetVar p₁ … SetVar pₖ; statements; expression;
cleanup: AddMempointer(-n); Return`, where a call is `code(aₙ) … code(a₁); Call_Imm f`;
`relocateLabels` turns it into `r` and the VM holds `renameVariables r` under the function's
mangled name. That every label of the code is defined once and every slot is below the frame size
`n` is proved (`cgFn_labels_nodup`, `cgFn_slots`); the remaining side conditions are static and
decidable for a given function: `n ≤ G.F`, well-scopedness, the tracked identifiers `T`. -/
theorem fn_compiled_ok (G : GCtx) (fd : FnDef) (stmts : List Stmt) (e : Expr) (φ : String → Option String)
    (scopes0 : CScopes) (vm0 : List (String × Nat)) (lm0 : LM) (T : List String) (r : NCode)
    (hbody : ∃ bsp bty, fd.body = .mk bsp bty stmts (some e))
    (hparams : ∀ p ∈ fd.params, p.isSingleton = false)
    (hrel : relocate (cgFn G.mod φ fd stmts (some e) scopes0 vm0 lm0) = some r)
    (hcode : findCode G.code (mangleFnName G.mod fd.name) = some (renameVars r))
    (hframe : (fnParts G.mod φ fd stmts (some e) scopes0 vm0 lm0).envE.nv ≤ G.F)
    (okS : Frag.okGSs false true stmts = true) (okE : Frag.okGE e = true)
    (wsS : Frag.wsGSs G.mod fd.name φ [] stmts (fnParts G.mod φ fd stmts (some e) scopes0 vm0 lm0).envB = true)
    (wsE : Frag.wsGE (fnParts G.mod φ fd stmts (some e) scopes0 vm0 lm0).envS.scopes φ e = true)
    (tParams : ∀ p ∈ fd.params, p.name ∈ T) (tIdents : ∀ x ∈ Frag.identsGSs stmts, x ∈ T)
    (tVars : ∀ x ∈ Frag.namesGE e, x ∈ T) (key : cleanupKey G.mod fd.name ∉ T)
    (outer : ∀ sc ∈ scopes0, ∀ x ∈ T, sc.lookup x = none) (phi : PhiOK G φ) :
    FnOK G fd.name fd
      ⟨renameVars r, slotFn r, labelIndex (cgFn G.mod φ fd stmts (some e) scopes0 vm0 lm0), (· ∈ varNames r), T, φ,
        scopes0, vm0, lm0⟩ stmts e :=
  FnOK.of_compiled G fd stmts e φ scopes0 vm0 lm0 T r hbody hparams hrel hcode hframe
    (okFSs_of_okGSs _ _ _ _ okS) (okE_okGE _ _ okE) wsS wsE
    tParams tIdents tVars key outer phi

/-- **A call on the VM is the specification's call** (`Sem.callBody`, which is what
`evalCall`/`applyFn` run for a function value). Context `G` (`G.OK`): every callable function
(`G.K`) of the module is `FnOK`; frames are at most `G.F` cells and
`G.B + (callLimit + 2) · G.F < memory` (the VM has no depth check of its own at `Call_Imm`; the
room hypothesis is what keeps `AddMempointer` from failing before the specification's
`StackOverFlow`); `println` is not shadowed. The specification state `st` is in the program's
module, with no globals, the VM's heap, and call depth `d` with `mp ≤ G.B + d · G.F`.

Then (`SimCall`), for *every* fuel — the proof is by strong induction on the specification's
fuel, so recursion, direct or mutual, is covered — starting at the callee's first instruction
with the arguments on the operand stack (first argument on top):
* result `v` ↦ only the output of the specification state changed, and the VM runs prologue
  (`AddMempointer n`, one `SetVar` per parameter), body (all nested calls, loops, `return`s
  included) and epilogue, and is back in the caller's frames `frames` with the same memory pointer,
  `v` pushed on the caller's stack, the same output, and the caller's memory cells (`≤ mp`)
  untouched;
* a fatal error other than the specification's own `StackOverFlow` ↦ the VM stops with the same
  fatal interrupt (kind, message, span) after the same output;
* an exception nobody inside the callee catches (section 14) ↦ the VM is at a `Throw` instruction
  raising the same `(message, span)`, somewhere above the caller's frames, with the caller's
  operand stack below what was pushed since and the caller's memory cells untouched
  (`RunsCallT`): whoever installed the newest handler takes over (`try_correct`), or the run ends
  with `UncaughtThrow` (`entry_run`);
* `break`/`continue` never escape a call of the fragment. -/
theorem call_correct (G : GCtx) (hG : G.OK) (fuel : Nat) (g : String) (fd : FnDef) (I : FnInfo)
    (stmts : List Stmt) (e : Expr) (hK : G.K g) (hfind : findFn G.cfg.prog G.mod g = some fd)
    (hFn : FnOK G g fd I stmts e) (sp : Span) (vals : List Val) (st : St) (frames : List Frame) (mp : Int)
    (stk : List SVal) (mem : List (Int × Val)) (hsp : SpecOK G mp st) (hmp : 0 ≤ mp) :
    SimCall G (mangleFnName G.mod g) frames mp vals stk mem st
      (callBody G.cfg fuel sp G.mod fd.params fd.body vals st) := by
  have h := (allP G hG.toOK' fuel).pcall g fd I stmts e hK hfind hFn (by rw [hG.nofor]; intro h; cases h) sp
    (vals.map (⟨·, none⟩)) st frames mp stk (memOf G mem) hsp hmp
  have hvm : (vals.map (fun v => (⟨v, none⟩ : SVal))).map (·.v) = vals := by
    rw [List.map_map]; exact List.map_id' vals
  rw [hvm] at h
  exact simCall_of hG.nofor h

/-- `call_correct` for a call that returns, spelled out on `VM.step` sequences (`mkS G.s calls mp k
stk mem out`: the base state with these frames, memory pointer, operand stack, memory, output
and `k` more steps on the counter). -/
theorem call_returns (G : GCtx) (hG : G.OK) (fuel : Nat) (g : String) (fd : FnDef) (I : FnInfo)
    (stmts : List Stmt) (e : Expr) (hK : G.K g) (hfind : findFn G.cfg.prog G.mod g = some fd)
    (hFn : FnOK G g fd I stmts e) (sp : Span) (vals : List Val) (st st' : St) (v : Val) (frames : List Frame)
    (mp : Int) (stk : List SVal) (mem : List (Int × Val)) (hsp : SpecOK G mp st) (hmp : 0 ≤ mp)
    (hev : callBody G.cfg fuel sp G.mod fd.params fd.body vals st = (.ok v, st')) :
    st' = { st with out := st'.out, heap := st'.heap } ∧
    ∃ mem', (∀ k, ∃ k', execHN G.code G.lim k'
        (mkS G.s (⟨mangleFnName G.mod g, 0⟩ :: frames) mp k (vals.map (⟨·, none⟩) ++ stk) mem st.world) =
          .next (mkS G.s frames mp (k + k') (⟨v, none⟩ :: stk) mem' st'.world)) ∧
      ∀ a, a ≤ mp → mem'.lookup a = mem.lookup a := by
  have h := call_correct G hG fuel g fd I stmts e hK hfind hFn sp vals st frames mp stk mem hsp hmp
  rw [hev] at h
  obtain ⟨hfr, mem', hrun, hml⟩ := h
  have hit : mem'.it = itOf G.s := by have := hml.it; rw [hG.nofor] at this; exact this.eq
  refine ⟨hfr, mem'.cells, ?_, hml.cells⟩
  have e : mem' = ⟨mem'.cells, itOf G.s⟩ := by rw [← hit]
  rw [e] at hrun
  exact hrun.run

/-- **Expressions with calls inside an activation** (`SimGE`). The activation `A` (`A.OK`): frame
`⟨A.fn, ·⟩ :: A.rest`, memory pointer `A.mp` after the prologue, code `A.c`, slots `A.σ` below
the frame size `A.nv`, function table `A.φ`. For `e` of the fragment, well scoped, its code
`cgE …` placed at `ip`, the scopes related (`StRel`): a value ↦ the VM reaches the end of the
code with the value pushed — every call having gone through `Call_Imm`, the callee's frame and
`Return` — with the specification's output and the activation's cells untouched; fatal ↦ same
fatal interrupt. -/
theorem call_expr_correct (G : GCtx) (hG : G.OK) (fuel : Nat) (A : Act) (hA : A.OK G) (e : Expr) (st : St)
    (ip : Nat) (stk : List SVal) (mem : List (Int × Val)) (lm : LM) (scopes : CScopes) (vm : List (String × Nat))
    (hs : Frag.okGE e = true) (hws : Frag.wsGE scopes A.φ e = true) (hT : ∀ x ∈ Frag.namesGE e, x ∈ A.T)
    (hpl : Placed A.lab A.σ A.c ip (cgE G.mod (ρS scopes) A.φ e lm).1)
    (hrel : StRel G.mod A.T A.N A.σ G.lim A.mp scopes vm st.scopes mem) (hsp : SpecOK G A.mp st) :
    SimGE G A ip (nI (cgE G.mod (ρS scopes) A.φ e lm).1) stk mem st (evalExpr G.cfg fuel e st) :=
  simGE_of hG.nofor ((allP G hG.toOK' fuel).pe A hA e st ip stk (memOf G mem) lm scopes vm (okE_okGE _ _ hs) hws hT hpl hrel hsp)

/-- **Argument lists** (`SimArgs`): the code is `code(aₙ) ++ … ++ code(a₁)` (`cgArgs`), the VM
evaluates right to left, the specification (`evalList`) left to right; with all arguments but at
most one atoms both arrive at the same values (first argument on top of the stack), the same
output and — when an argument fails — the same fatal error. -/
theorem call_args_correct (G : GCtx) (hG : G.OK) (fuel : Nat) (A : Act) (hA : A.OK G)
    (args : List (String × Expr)) (st : St) (ip : Nat) (stk : List SVal) (mem : List (Int × Val)) (lm : LM)
    (scopes : CScopes) (vm : List (String × Nat))
    (hs : Frag.okGArgs args = true) (hone : Frag.oneNonAtom args = true)
    (hws : Frag.wsGArgs scopes A.φ args = true) (hT : ∀ x ∈ Frag.namesGArgs args, x ∈ A.T)
    (hpl : Placed A.lab A.σ A.c ip (cgArgs G.mod (ρS scopes) A.φ args lm).1)
    (hrel : StRel G.mod A.T A.N A.σ G.lim A.mp scopes vm st.scopes mem) (hsp : SpecOK G A.mp st) :
    SimArgs G A ip (nI (cgArgs G.mod (ρS scopes) A.φ args lm).1) stk mem st
      (evalList G.cfg fuel (args.map (·.2)) st) :=
  simArgs_of hG.nofor ((allP G hG.toOK' fuel).pargs A hA args st ip stk (memOf G mem) lm scopes vm (okEArgs_okGArgs _ _ hs) hone hws hT hpl hrel hsp)

section Example9
private def gv (x : String) : Expr := .ident sp0 .int x false false false
private def gcall (f : String) (args : List Expr) : Expr :=
  .call sp0 .int (.ident sp0 (.fn [] .int) f false true false) (args.map fun a => ("", a)) false
private def gprint (es : List Expr) : Stmt :=
  .exprS sp0 (.call sp0 .null (.ident sp0 (.fn [] .null) "println" false false false) (es.map fun e => ("", e)) false)
private def gfn (name : String) (params : List String) (ret : Ty) (stmts : List Stmt) (e : Option Expr) : FnDef :=
  ⟨sp0, name, params.map fun p => ⟨p, .int, false, ""⟩, ret, 0, false, .mk sp0 ret stmts e⟩
private def gif (c : Expr) (ss : List Stmt) : Stmt := .exprS sp0 (.ifE sp0 .null c (.mk sp0 .null ss none) none)
private def gasg (op : InfixOp) (x : String) (e : Expr) : Stmt := .exprS sp0 (.assign sp0 (some op) (gv x) e)

/-- `if n < 2 { return n; }` -/
def fibStmts : List Stmt := [gif (.infix sp0 .bool .lt (gv "n") (.int sp0 2)) [.ret sp0 (some (gv "n"))]]
/-- `fib(n - 1) + fib(n - 2)` -/
def fibE : Expr := .infix sp0 .int .add (gcall "fib" [.infix sp0 .int .sub (gv "n") (.int sp0 1)])
  (gcall "fib" [.infix sp0 .int .sub (gv "n") (.int sp0 2)])
/-- `fn fib(n: int) -> int { if n < 2 { return n; } fib(n - 1) + fib(n - 2) }` -/
def fibFd : FnDef := gfn "fib" ["n"] .int fibStmts (some fibE)
/-- `let i = 0; let acc = 0;`
`loop { i += 1; if i > k { break; } if i % 2 == 0 { continue; } acc += i; }`
`while i > 0 { i -= 1; if i > 3 { continue; } if i < 2 { break; } acc += 100; }` -/
def sumStmts : List Stmt :=
  [ .letS sp0 "i" .int false .int (.int sp0 0), .letS sp0 "acc" .int false .int (.int sp0 0),
    .loopS sp0 (.mk sp0 .null [ gasg .add "i" (.int sp0 1),
       gif (.infix sp0 .bool .gt (gv "i") (gv "k")) [.brk sp0],
       gif (.infix sp0 .bool .eq (.infix sp0 .int .rem (gv "i") (.int sp0 2)) (.int sp0 0)) [.cont sp0],
       gasg .add "acc" (gv "i") ] none),
    .whileS sp0 (.infix sp0 .bool .gt (gv "i") (.int sp0 0)) (.mk sp0 .null [ gasg .sub "i" (.int sp0 1),
       gif (.infix sp0 .bool .gt (gv "i") (.int sp0 3)) [.cont sp0],
       gif (.infix sp0 .bool .lt (gv "i") (.int sp0 2)) [.brk sp0],
       gasg .add "acc" (.int sp0 100) ] none) ]
/-- `fn sumOdd(k: int) -> int { …; acc }` -/
def sumFd : FnDef := gfn "sumOdd" ["k"] .int sumStmts (some (gv "acc"))
/-- `println("result", x, x > 100);` -/
def repStmts : List Stmt := [gprint [.str sp0 "result", gv "x", .infix sp0 .bool .gt (gv "x") (.int sp0 100)]]
/-- `fn report(x: int) -> int { println("result", x, x > 100); x }` -/
def repFd : FnDef := gfn "report" ["x"] .int repStmts (some (gv "x"))
/-- `fn main() { println(fib(10)); println(report(sumOdd(9)), true, "done"); }` -/
def mainStmts : List Stmt :=
  [gprint [gcall "fib" [.int sp0 10]], gprint [gcall "report" [gcall "sumOdd" [.int sp0 9]], .bool sp0 true, .str sp0 "done"]]
def mainFd : FnDef := gfn "main" [] .null mainStmts none
def progX : Program :=
  [{ name := "main", imports := [], singletons := [], globals := [], nImpls := 0, fns := [fibFd, sumFd, repFd, mainFd] }]

/-- The whole program on the models themselves (kernel evaluation): the specification … -/
example : (match runProgram { prog := progX } 200 with | .ok out _ => out | _ => "?") =
    "55\nresult 225 true\n225 true done\n" := by
  decide +kernel
/-- … and the compiled program on the VM print the same (and the VM ends with a clean core). -/
example : (match compile progX "main" 100 with
    | .ok c => (match runMain c {} 50 20000 with
      | .ok s => (s.st.out, s.stack.length, s.mp, s.calls.length) | _ => ("?", 0, 0, 0))
    | .error e => (e, 0, 0, 0)) = ("55\nresult 225 true\n225 true done\n", 0, 0, 0) := by
  decide +kernel

/-- The function table of the module. -/
def φX : String → Option String := fun n =>
  if n = "fib" then some "@main.fib" else if n = "sumOdd" then some "@main.sumOdd"
  else if n = "report" then some "@main.report" else none
def symFib : SCode := cgFn "main" φX fibFd fibStmts (some fibE) [[]] [] []
def symSum : SCode := cgFn "main" φX sumFd sumStmts (some (gv "acc")) [[]] [] []
def symRep : SCode := cgFn "main" φX repFd repStmts (some (gv "x")) [[]] [] []
def symMain : SCode := cgFn "main" φX mainFd mainStmts none [[]] [] []
private def relG (c : SCode) : NCode := (stripLabels c).map (resolve (labelIndex c))
/-- The VM code: `renameVariables (relocateLabels (cgFn …))` for the four functions. -/
def codeX : Code := [⟨"@main.fib", renameVars (relG symFib)⟩, ⟨"@main.sumOdd", renameVars (relG symSum)⟩,
  ⟨"@main.report", renameVars (relG symRep)⟩, ⟨"@main.main", renameVars (relG symMain)⟩]

/-- A boolean comparison of instruction lists that the kernel can evaluate (the derived `BEq` of
`PVal` is not structural). -/
private def pvalBeq : PVal → PVal → Bool
  | .null, .null => true | .int a, .int b => a == b | .float a, .float b => a == b | .bool a, .bool b => a == b
  | .str a, .str b => a == b | .noneOpt, .noneOpt => true | .emptyList, .emptyList => true
  | .emptyAnyObj, .emptyAnyObj => true | .range0, .range0 => true | .vmFn a, .vmFn b => a == b | _, _ => false
local instance (priority := high) : BEq PVal := ⟨pvalBeq⟩
deriving instance BEq for Hms.Core.Ty
deriving instance BEq for Hms.Core.Comp.Instr

/-- **The real compiler produces this code**: `Comp.compile` on the program gives, for `fib`,
`sumOdd`, `report` and `main`, exactly `codeX` — i.e. `compileFn` emits `cgFn …` up to the names of
labels and variables, which `relocateLabels`/`renameVariables` erase (kernel evaluation of the
compiler model, compared instruction by instruction, spans included). -/
example : (match compile progX "main" 100 with
    | .ok c => (c.fns.filter fun f => f.name != "@main.@init").map (fun f => (f.name, f.code))
        == codeX.map (fun f => (f.name, f.code))
    | .error _ => false) = true := by decide +kernel

/-- The context: program, code, default limits, the three callable functions, frames of at
most 6 cells above memory pointer 0. -/
def GX : GCtx :=
  ⟨{ prog := progX }, codeX, {}, "main", {}, fun g => g = "fib" ∨ g = "sumOdd" ∨ g = "report", 6, 0, false⟩

private theorem relocate_relG (c : SCode) (h : (relocate c).isSome = true) : relocate c = some (relG c) := by
  obtain ⟨r, hr⟩ := Option.isSome_iff_exists.mp h
  rw [hr, relocate_some c r hr]; rfl

private theorem phiX : PhiOK GX φX := by
  intro name f h
  unfold φX at h
  split at h
  · rename_i hn; subst hn; cases h
    exact ⟨by decide +kernel, Or.inl rfl, fibFd, rfl, rfl⟩
  · split at h
    · rename_i hn; subst hn; cases h
      exact ⟨by decide +kernel, Or.inr (Or.inl rfl), sumFd, rfl, rfl⟩
    · split at h
      · rename_i hn; subst hn; cases h
        exact ⟨by decide +kernel, Or.inr (Or.inr rfl), repFd, rfl, rfl⟩
      · cases h

/-- The three functions satisfy the hypotheses of the simulation (`fn_compiled_ok`; every side
remaining side
condition is checked by kernel evaluation). -/
theorem fnOK_fib : FnOK GX "fib" fibFd
    ⟨renameVars (relG symFib), slotFn (relG symFib), labelIndex symFib, (· ∈ varNames (relG symFib)), ["n", "fib"],
      φX, [[]], [], []⟩ fibStmts fibE :=
  fn_compiled_ok GX fibFd fibStmts fibE φX [[]] [] [] ["n", "fib"] (relG symFib) ⟨sp0, .int, rfl⟩
    (by decide) (relocate_relG _ (by decide +kernel))
    (by
      have h : mangleFnName GX.mod fibFd.name = "@main.fib" := by decide +kernel
      rw [h]; simp [findCode, codeX, GX])
    (by decide +kernel) (by decide +kernel) (by decide +kernel) (by decide +kernel)
    (by decide +kernel) (by decide +kernel) (by decide +kernel) (by decide +kernel) (by decide +kernel)
    (by decide +kernel) phiX

theorem fnOK_sum : FnOK GX "sumOdd" sumFd
    ⟨renameVars (relG symSum), slotFn (relG symSum), labelIndex symSum, (· ∈ varNames (relG symSum)),
      ["k", "i", "acc"], φX, [[]], [], []⟩ sumStmts (gv "acc") :=
  fn_compiled_ok GX sumFd sumStmts (gv "acc") φX [[]] [] [] ["k", "i", "acc"] (relG symSum) ⟨sp0, .int, rfl⟩
    (by decide) (relocate_relG _ (by decide +kernel))
    (by
      have h : mangleFnName GX.mod sumFd.name = "@main.sumOdd" := by decide +kernel
      rw [h]; simp [findCode, codeX, GX])
    (by decide +kernel) (by decide +kernel) (by decide +kernel) (by decide +kernel)
    (by decide +kernel) (by decide +kernel) (by decide +kernel) (by decide +kernel) (by decide +kernel)
    (by decide +kernel) phiX

theorem fnOK_rep : FnOK GX "report" repFd
    ⟨renameVars (relG symRep), slotFn (relG symRep), labelIndex symRep, (· ∈ varNames (relG symRep)),
      ["x", "println"], φX, [[]], [], []⟩ repStmts (gv "x") :=
  fn_compiled_ok GX repFd repStmts (gv "x") φX [[]] [] [] ["x", "println"] (relG symRep) ⟨sp0, .int, rfl⟩
    (by decide) (relocate_relG _ (by decide +kernel))
    (by
      have h : mangleFnName GX.mod repFd.name = "@main.report" := by decide +kernel
      rw [h]; simp [findCode, codeX, GX])
    (by decide +kernel) (by decide +kernel) (by decide +kernel) (by decide +kernel)
    (by decide +kernel) (by decide +kernel) (by decide +kernel) (by decide +kernel) (by decide +kernel)
    (by decide +kernel) phiX

theorem gx_ok : GX.OK := by
  refine ⟨⟨?_, by decide, by decide, rfl, rfl, rfl⟩, rfl⟩
  intro g fd hK hfind
  rcases hK with rfl | rfl | rfl
  · have h : findFn GX.cfg.prog GX.mod "fib" = some fibFd := rfl
    rw [h] at hfind; cases hfind
    exact ⟨_, _, _, fnOK_fib, fun h => by cases h⟩
  · have h : findFn GX.cfg.prog GX.mod "sumOdd" = some sumFd := rfl
    rw [h] at hfind; cases hfind
    exact ⟨_, _, _, fnOK_sum, fun h => by cases h⟩
  · have h : findFn GX.cfg.prog GX.mod "report" = some repFd := rfl
    rw [h] at hfind; cases hfind
    exact ⟨_, _, _, fnOK_rep, fun h => by cases h⟩

/-- The specification state at a top-level call: module `main`, depth 0, nothing printed. -/
def stX : St := { module := "main" }
private def isIntV (n : Int) : Except Ctl Val → Bool
  | .ok (.int i) => i.toInt == n
  | _ => false

private theorem spec_fib :
    isIntV 55 (callBody GX.cfg 120 sp0 GX.mod fibFd.params fibFd.body [.int (I64.ofInt 10)] stX).1 = true ∧
    (callBody GX.cfg 120 sp0 GX.mod fibFd.params fibFd.body [.int (I64.ofInt 10)] stX).2.out = "" := by
  decide +kernel

/-- A call through the theorem: specification result `n` and output `out` ↦ the VM run. -/
private theorem callX (g : String) (fd : FnDef) (I : FnInfo) (stmts : List Stmt) (e : Expr) (hK : GX.K g)
    (hfind : findFn GX.cfg.prog GX.mod g = some fd) (hFn : FnOK GX g fd I stmts e) (fuel : Nat) (arg n : Int)
    (out : String)
    (h1 : isIntV n (callBody GX.cfg fuel sp0 GX.mod fd.params fd.body [.int (I64.ofInt arg)] stX).1 = true)
    (h2 : (callBody GX.cfg fuel sp0 GX.mod fd.params fd.body [.int (I64.ofInt arg)] stX).2.out = out) :
    ∃ (i : I64) (mem' : List (Int × Val)) (heap' : Array Cell), i.toInt = n ∧
      ∀ k, ∃ k', execHN codeX {} k' (mkS {} [⟨mangleFnName "main" g, 0⟩] 0 k [⟨.int (I64.ofInt arg), none⟩] []
          ⟨#[], ""⟩) = .next (mkS {} [] 0 (k + k') [⟨.int i, none⟩] mem' ⟨heap', out⟩) := by
  rcases hev : callBody GX.cfg fuel sp0 GX.mod fd.params fd.body [.int (I64.ofInt arg)] stX with ⟨res, st'⟩
  rw [hev] at h1 h2
  cases res with
  | error e => simp [isIntV] at h1
  | ok v =>
    cases v <;> simp [isIntV] at h1
    obtain ⟨_, mem', hrun, _⟩ := call_returns GX gx_ok fuel g fd I stmts e hK hfind hFn sp0 [.int (I64.ofInt arg)] stX
      st' _ [] 0 [] [] ⟨fun _ => HeapInv.empty, rfl, rfl, by decide⟩ (by decide) hev
    simp only at h2
    refine ⟨_, mem', st'.heap, h1, ?_⟩
    have hw : st'.world = ⟨st'.heap, out⟩ := by rw [← h2]; rfl
    rw [hw] at hrun
    exact hrun

/-- **`fib(10)` on the VM, through `call_correct`**: from the first instruction of `@main.fib`
with 10 on the stack, 177 activations (two recursive calls each, `return n;` in the base case)
later the VM is back with no frame left, memory pointer 0 and 55 on the stack. -/
example : ∃ (i : I64) (mem' : List (Int × Val)) (heap' : Array Cell), i.toInt = 55 ∧
    ∀ k, ∃ k', execHN codeX {} k' (mkS {} [⟨"@main.fib", 0⟩] 0 k [⟨.int (I64.ofInt 10), none⟩] [] ⟨#[], ""⟩) =
      .next (mkS {} [] 0 (k + k') [⟨.int i, none⟩] mem' ⟨heap', ""⟩) := by
  obtain ⟨fuel, hfuel⟩ : ∃ n : Nat, n = 120 := ⟨120, rfl⟩
  have h := callX "fib" fibFd _ _ _ (Or.inl rfl) rfl fnOK_fib fuel 10 55 ""
  subst hfuel
  exact h spec_fib.1 spec_fib.2
end Example9

section ArgsOrderWitness
/-- `fn a() -> int { println("a"); 1 }  fn b() -> int { println("b"); 2 }`
`fn add(x: int, y: int) -> int { x + y }  fn main() { println(add(a(), b())); }` -/
private def v13prog : Program :=
  [{ name := "main", imports := [], singletons := [], globals := [], nImpls := 0,
     fns := [gfn "a" [] .int [gprint [.str sp0 "a"]] (some (.int sp0 1)),
             gfn "b" [] .int [gprint [.str sp0 "b"]] (some (.int sp0 2)),
             gfn "add" ["x", "y"] .int [] (some (.infix sp0 .int .add (gv "x") (gv "y"))),
             gfn "main" [] .null [gprint [gcall "add" [gcall "a" [], gcall "b" []]]] none] }]

/-- The call `add(a(), b())` is outside the fragment only because two arguments are not atoms … -/
example : Frag.okGArgs [("", gcall "a" []), ("", gcall "b" [])] = true ∧
    Frag.oneNonAtom [("", gcall "a" []), ("", gcall "b" [])] = false := by decide

/-- **Why at most one argument may have an effect** (`args_order_witness`, open finding V13): the
specification evaluates arguments left to right and prints `a` first … -/
theorem args_order_witness_spec :
    (match runProgram { prog := v13prog } 100 with | .ok out _ => out | _ => "?") = "a\nb\n3\n" := by
  decide +kernel
/-- … the compiled code evaluates them right to left (`code(aₙ) … code(a₁)`) and prints `b`
first: with two effectful arguments the statement of `call_args_correct` is false. -/
theorem args_order_witness_vm :
    (match compile v13prog "main" 100 with
      | .ok c => (match runMain c {} 50 1000 with | .ok s => s.st.out | _ => "?")
      | .error e => e) = "b\na\n3\n" := by
  decide +kernel

private def spDiv : Span := ⟨1, 1, 1, 6⟩
private def spRem : Span := ⟨2, 1, 2, 6⟩
/-- `fn add(x: int, y: int) -> int { x + y }  fn main() { println(add(1 / 0, 1 % 0)); }` with the
division on line 1 and the remainder on line 2. -/
private def spanProg : Program :=
  [{ name := "main", imports := [], singletons := [], globals := [], nImpls := 0,
     fns := [gfn "add" ["x", "y"] .int [] (some (.infix sp0 .int .add (gv "x") (gv "y"))),
             gfn "main" [] .null [gprint [gcall "add" [.infix spDiv .int .div (.int sp0 1) (.int sp0 0),
               .infix spRem .int .rem (.int sp0 1) (.int sp0 0)]]] none] }]
private def fatalLine : Hms.Core.Outcome → Option (String × Nat)
  | .fatal kd _ sp _ _ => some (kd, sp.sl)
  | _ => none
private def fatalLineVM : Hms.Core.VM.Outcome → Option (String × Nat)
  | .fatal kd _ sp _ => some (kd, sp.sl)
  | _ => none

/-- **Pure arguments are not enough either**: both arguments are pure and both fail; the
specification reports the first one's error (the division, line 1), the VM the last one's (the
remainder, line 2) — same kind, different message and span. Hence "all but at most one argument
are atoms" (`Frag.oneNonAtom`) rather than "pure". -/
theorem args_order_witness_fatal :
    fatalLine (runProgram { prog := spanProg } 100) = some ("ValueError", 1) ∧
    (match compile spanProg "main" 100 with
      | .ok c => fatalLineVM (runMain c {} 50 1000)
      | .error _ => none) = some ("ValueError", 2) := by
  decide +kernel
end ArgsOrderWitness

/-! ## 10. `loop`, `break`, `continue`, `return` -/

/-- **Statement sequences of the general fragment inside an activation** (`SimGS`). `loops`: the
enclosing loops' `(break label, continue label)` as in `CState.loops` (`popTries` does nothing
without `try`); `lscopes`: the compiler scopes at the innermost loop, `d ≥ 1` block levels up;
`GRel`: `StRel` plus the function's cleanup label being visible to `return`. For the code
`cgSs …` placed at `ip`:
* normal completion ↦ the VM is at the end of the code, operand stack as before, the relation
  holds for the new scopes/memory, same output;
* `break` / `continue` (only inside a loop: `Frag.okGSs (!loops.isEmpty)`) ↦ the VM is at the
  innermost loop's break / continue label, and the scopes `d` levels up are related again — the
  specification's `inScope` drops exactly the block levels the jump leaves;
* `return v` (only where `A.rt`: not inside a `try` body) ↦ the VM is at the cleanup label with `v`
  pushed;
* an exception `(msg, span)` (section 14) ↦ the VM is at a `Throw` instruction raising it (`RunsT`),
  possibly some activations deeper, and the scopes `d` levels up are related;
* fatal ↦ the same fatal interrupt after the same output. In every case the cells below the
  activation's frame (`≤ A.mp - A.nv`: the callers') are untouched. -/
theorem gstmts_correct (G : GCtx) (hG : G.OK) (fuel : Nat) (A : Act) (hA : A.OK G)
    (loops : List (String × String)) (lscopes : CScopes) (d : Nat) (ss : List Stmt) (env : CEnv) (spec : St)
    (ip : Nat) (stk : List SVal) (mem : List (Int × Val))
    (hs : Frag.okGSs (!loops.isEmpty) A.rt ss = true) (hT : ∀ x ∈ Frag.identsGSs ss, x ∈ A.T)
    (hws : Frag.wsGSs G.mod A.src A.φ loops ss env = true)
    (hN : ∀ m ∈ codeVars (cgSs G.mod A.src A.φ loops ss env).1, A.N m)
    (hpl : Placed A.lab A.σ A.c ip (cgSs G.mod A.src A.φ loops ss env).1)
    (hd : 1 ≤ d) (hls : lscopes = env.scopes.drop d)
    (hrel : GRel G A env.scopes env.vm spec.scopes mem) (hsp : SpecOK G A.mp spec) :
    SimGS G A loops lscopes d ip (nI (cgSs G.mod A.src A.φ loops ss env).1) stk mem
      (GRel G A (cgSs G.mod A.src A.φ loops ss env).2.scopes (cgSs G.mod A.src A.φ loops ss env).2.vm) spec
      (evalStmts G.cfg fuel ss spec) :=
  simGS_of hG.nofor ((allP G hG.toOK' fuel).pgss A hA loops lscopes d ss env spec ip stk (memOf G mem) (by rw [hG.nofor]; exact hs) hT hws hN hpl hd hls hrel hsp)

/-- **`loop { … }` and `while c { … }` follow the specification's `loopRun`** (`cnd = none`:
`loop`). The code is `continue: [code(c); JumpIfFalse break;] body; Jump continue; break:`; a
`break` in the body ends the loop normally, a `continue` or a completed body starts the next
iteration (and re-evaluates the condition), `return`/fatal leave it; the outcome of the whole loop —
after any number of iterations, `loopRun`'s recursion — is simulated as in `gstmts_correct`, with
the loop's own scopes as invariant. -/
theorem loop_correct (G : GCtx) (hG : G.OK) (fuel : Nat) (A : Act) (hA : A.OK G)
    (loops : List (String × String)) (lscopes : CScopes) (d : Nat) (sp : Span) (cnd : Option Expr) (body : Block)
    (env : CEnv) (spec : St) (ip : Nat) (stk : List SVal) (mem : List (Int × Val))
    (stmt : Stmt) (hstmt : stmt = match cnd with | some c => .whileS sp c body | none => .loopS sp body)
    (hs : Frag.okGS (!loops.isEmpty) A.rt stmt = true) (hT : ∀ x ∈ Frag.identsGS stmt, x ∈ A.T)
    (hws : Frag.wsGS G.mod A.src A.φ loops stmt env = true)
    (hN : ∀ m ∈ codeVars (cgS G.mod A.src A.φ loops stmt env).1, A.N m)
    (hpl : Placed A.lab A.σ A.c ip (cgS G.mod A.src A.φ loops stmt env).1)
    (hls : lscopes = env.scopes.drop d)
    (hrel : GRel G A env.scopes env.vm spec.scopes mem) (hsp : SpecOK G A.mp spec) :
    SimGS G A loops lscopes d ip (nI (cgS G.mod A.src A.φ loops stmt env).1) stk mem
      (GRel G A env.scopes env.vm) spec (loopRun G.cfg fuel cnd body spec) := by
  subst hstmt
  exact simGS_of hG.nofor ((allP G hG.toOK' fuel).pgl A hA loops lscopes d sp cnd body env spec ip stk (memOf G mem) (by rw [hG.nofor]; exact hs) hT hws hN hpl hls hrel hsp)

section Example10
private theorem spec_sum :
    isIntV 225 (callBody GX.cfg 120 sp0 GX.mod sumFd.params sumFd.body [.int (I64.ofInt 9)] stX).1 = true ∧
    (callBody GX.cfg 120 sp0 GX.mod sumFd.params sumFd.body [.int (I64.ofInt 9)] stX).2.out = "" := by
  decide +kernel

/-- **`sumOdd(9)` on the VM, through the theorems**: the `loop` runs ten times — five `continue`s,
four additions, one `break` — then the `while` nine times — five `continue`s (which re-evaluate
the condition), two additions, one `break`; the VM arrives with `1+3+5+7+9 + 200 = 225` on the
caller's stack, no frame left and memory pointer 0. -/
example : ∃ (i : I64) (mem' : List (Int × Val)) (heap' : Array Cell), i.toInt = 225 ∧
    ∀ k, ∃ k', execHN codeX {} k' (mkS {} [⟨"@main.sumOdd", 0⟩] 0 k [⟨.int (I64.ofInt 9), none⟩] [] ⟨#[], ""⟩) =
      .next (mkS {} [] 0 (k + k') [⟨.int i, none⟩] mem' ⟨heap', ""⟩) := by
  obtain ⟨fuel, hfuel⟩ : ∃ n : Nat, n = 120 := ⟨120, rfl⟩
  have h := callX "sumOdd" sumFd _ _ _ (Or.inr (Or.inl rfl)) rfl fnOK_sum fuel 9 225 ""
  subst hfuel
  exact h spec_sum.1 spec_sum.2
end Example10

/-! ## 11. `println` -/

/-- The specification's `println`: the displayed values joined by spaces and a newline are
appended to the output buffer (`printText`; `none`: a value the model cannot display). -/
theorem println_spec (vals : List Val) (sp : Span) (st : St) :
    callBuiltin "println" vals sp st = match printText st.heap vals with
      | some t => (.ok .null, { st with out := st.out ++ t })
      | none => (.error (.unsupported "display of this value"), st) :=
  println_run vals sp st

/-- The VM's `Call_Val` on the builtin `println` with `n` arguments below the argument count
(first argument on top): the host call appends the same text to the VM's output buffer, pops
callee, count and arguments, and pushes nothing. -/
theorem println_vm (code : Code) (lim : Limits) (s : VMState) (fn : String) (ip : Nat) (rest : List Frame)
    (mp : Int) (k : Nat) (stk : List SVal) (mem : List (Int × Val)) (out : World) (c : List (RInstr × Span))
    (hf : findCode code fn = some c) (sp : Span) (svs : List SVal) (o1 o2 : Option Org) (t : String)
    (hx : c[ip]? = some (.callVal, sp)) (hn : svs.length < 2 ^ 64)
    (ht : printText out.heap (svs.map (·.v)) = some t) :
    exec1 code lim (mkS s (⟨fn, ip⟩ :: rest) mp k
        (⟨.int (I64.ofInt (svs.length : Int)), o1⟩ :: ⟨.builtin "println", o2⟩ :: (svs ++ stk)) mem out) =
      .next (mkS s (⟨fn, ip + 1⟩ :: rest) mp (k + 1) stk mem ⟨out.heap, out.out ++ t⟩) :=
  mkS_callVal_println code lim s fn ip rest mp k stk mem out c hf sp svs o1 o2 t hx hn ht

/-- **`println(e₁, …, eₙ);` as a statement** (an instance of the statement simulation): the
arguments are in the expression fragment — so they may contain calls — all but at most one
atoms; the code is `code(eₙ) … code(e₁); GetGlobImm(println); CopyPush(n); Call_Val`. When the
specification completes the statement, the VM is at the end of that code with the operand stack
as before and *the same output buffer*; a fatal error in an argument is the same fatal interrupt. -/
theorem println_correct (G : GCtx) (hG : G.OK) (fuel : Nat) (A : Act) (hA : A.OK G)
    (loops : List (String × String)) (lscopes : CScopes) (d : Nat) (sp csp isp : Span) (cty ity : Ty)
    (g f s sw : Bool) (args : List (String × Expr)) (env : CEnv) (spec : St) (ip : Nat) (stk : List SVal)
    (mem : List (Int × Val)) (st : Stmt)
    (hst : st = .exprS sp (.call csp cty (.ident isp ity "println" g f s) args sw))
    (hs : Frag.okGS (!loops.isEmpty) A.rt st = true) (hT : ∀ x ∈ Frag.identsGS st, x ∈ A.T)
    (hws : Frag.wsGS G.mod A.src A.φ loops st env = true)
    (hN : ∀ m ∈ codeVars (cgS G.mod A.src A.φ loops st env).1, A.N m)
    (hpl : Placed A.lab A.σ A.c ip (cgS G.mod A.src A.φ loops st env).1)
    (hd : 1 ≤ d) (hls : lscopes = env.scopes.drop d)
    (hrel : GRel G A env.scopes env.vm spec.scopes mem) (hsp : SpecOK G A.mp spec) :
    SimGS G A loops lscopes d ip (nI (cgS G.mod A.src A.φ loops st env).1) stk mem
      (GRel G A (cgS G.mod A.src A.φ loops st env).2.scopes (cgS G.mod A.src A.φ loops st env).2.vm) spec
      (evalStmt G.cfg fuel st spec) := by
  subst hst
  exact simGS_of hG.nofor ((allP G hG.toOK' fuel).pgs A hA loops lscopes d _ env spec ip stk (memOf G mem) (by rw [hG.nofor]; exact hs) hT hws hN hpl hd hls hrel hsp)

section Example11
private theorem spec_rep :
    isIntV 7 (callBody GX.cfg 120 sp0 GX.mod repFd.params repFd.body [.int (I64.ofInt 7)] stX).1 = true ∧
    (callBody GX.cfg 120 sp0 GX.mod repFd.params repFd.body [.int (I64.ofInt 7)] stX).2.out = "result 7 false\n" := by
  decide +kernel

/-- **`report(7)` on the VM, through the theorems**: `println("result", x, x > 100)` — a string
literal, a variable and a comparison, pushed in reverse, `GetGlobImm(println)`, the count 3,
`Call_Val` — leaves `result 7 false` and a newline in the VM's output buffer, as in the
specification's; then 7 is returned. -/
example : ∃ (i : I64) (mem' : List (Int × Val)) (heap' : Array Cell), i.toInt = 7 ∧
    ∀ k, ∃ k', execHN codeX {} k' (mkS {} [⟨"@main.report", 0⟩] 0 k [⟨.int (I64.ofInt 7), none⟩] [] ⟨#[], ""⟩) =
      .next (mkS {} [] 0 (k + k') [⟨.int i, none⟩] mem' ⟨heap', "result 7 false\n"⟩) := by
  obtain ⟨fuel, hfuel⟩ : ∃ n : Nat, n = 120 := ⟨120, rfl⟩
  have h := callX "report" repFd _ _ _ (Or.inr (Or.inr rfl)) rfl fnOK_rep fuel 7 7 "result 7 false\n"
  subst hfuel
  exact h spec_rep.1 spec_rep.2
end Example11

/-! ## 12. The entry function and the driver `run` -/

/-- A compiled function *without* trailing expression satisfies `FnVoidOK` (as `fn_compiled_ok`). -/
theorem fn_void_compiled_ok (G : GCtx) (fd : FnDef) (stmts : List Stmt) (φ : String → Option String)
    (scopes0 : CScopes) (vm0 : List (String × Nat)) (lm0 : LM) (T : List String) (r : NCode)
    (hbody : ∃ bsp bty, fd.body = .mk bsp bty stmts none)
    (hparams : ∀ p ∈ fd.params, p.isSingleton = false)
    (hrel : relocate (cgFn G.mod φ fd stmts none scopes0 vm0 lm0) = some r)
    (hcode : findCode G.code (mangleFnName G.mod fd.name) = some (renameVars r))
    (hframe : (fnParts G.mod φ fd stmts none scopes0 vm0 lm0).envE.nv ≤ G.F)
    (okS : Frag.okGSs false true stmts = true)
    (wsS : Frag.wsGSs G.mod fd.name φ [] stmts (fnParts G.mod φ fd stmts none scopes0 vm0 lm0).envB = true)
    (tParams : ∀ p ∈ fd.params, p.name ∈ T) (tIdents : ∀ x ∈ Frag.identsGSs stmts, x ∈ T)
    (key : cleanupKey G.mod fd.name ∉ T)
    (outer : ∀ sc ∈ scopes0, ∀ x ∈ T, sc.lookup x = none) (phi : PhiOK G φ) :
    FnVoidOK G fd.name fd
      ⟨renameVars r, slotFn r, labelIndex (cgFn G.mod φ fd stmts none scopes0 vm0 lm0), (· ∈ varNames r), T, φ,
        scopes0, vm0, lm0⟩ stmts :=
  FnVoidOK.of_compiled G fd stmts φ scopes0 vm0 lm0 T r hbody hparams hrel hcode hframe
    (okFSs_of_okGSs _ _ _ _ okS) wsS
    tParams tIdents key outer phi

/-- **A call of a function without trailing expression** — in particular the entry function
`main`, whose statements call the functions of `G.K` (`SimCallV`): as `call_correct`, except that
on normal completion nothing is pushed when the body falls through (the specification's result is
`null`), and the returned value is pushed when a `return e;` was executed. -/
theorem entry_correct (G : GCtx) (hG : G.OK) (fuel : Nat) (g : String) (fd : FnDef) (I : FnInfo)
    (stmts : List Stmt) (hFn : FnVoidOK G g fd I stmts) (sp : Span) (vals : List Val) (st : St)
    (frames : List Frame) (mp : Int) (stk : List SVal) (mem : List (Int × Val)) (hsp : SpecOK G mp st)
    (hmp : 0 ≤ mp) :
    SimCallV G (mangleFnName G.mod g) frames mp vals stk mem st
      (callBody G.cfg fuel sp G.mod fd.params fd.body vals st) :=
  simCallV_of hG.nofor (callV_correct G hG.toOK' fuel g fd I stmts hFn (by rw [hG.nofor]; intro h; cases h) sp vals st
    frames mp stk (memOf G mem) hsp hmp)

/-- **The VM's driver on the entry function** (`Core.Run`: poll, then a quantum of
instructions). No caller frame, no arguments, operand stack within its limit. For every quantum
at least as large as the number of instructions the whole run executes — every nested call
included, so that no poll falls inside — `run` ends with `ok`, no frame left, the memory pointer
as at the start and *the specification's output*; and with the specification's fatal error
(kind, message, span; other than its own `StackOverFlow`) after the specification's output when
it ends in one; an exception that reaches the top (no handler installed) is the fatal error
`UncaughtThrow` with the exception's message and span, on both sides. -/
theorem entry_run (G : GCtx) (hG : G.OK) (fuel : Nat) (g : String) (fd : FnDef) (I : FnInfo)
    (stmts : List Stmt) (hFn : FnVoidOK G g fd I stmts) (sp : Span) (st : St) (mp : Int) (stk : List SVal)
    (mem : List (Int × Val)) (hsp : SpecOK G mp st) (hmp : 0 ≤ mp)
    (hstack : stk.length ≤ G.lim.stack) (hcallLim : 1 ≤ G.lim.callStack) :
    match callBody G.cfg fuel sp G.mod fd.params fd.body [] st with
    | (.ok v, st') =>
      ∃ K, ∀ quantum, K ≤ quantum → ∀ vfuel, ∃ s',
        run G.code G.lim quantum none (vfuel + 1) (mkS G.s [⟨mangleFnName G.mod g, 0⟩] mp 0 stk mem st.world) = .ok s' ∧
        s'.st = { G.s.st with out := st'.out, heap := st'.heap } ∧ s'.mp = mp ∧ s'.calls = [] ∧
        (s'.stack = stk ∨ s'.stack = ⟨v, none⟩ :: stk)
    | (.error (.fatal kd m fsp), st') =>
      kd ≠ "StackOverFlow" → ∃ K, ∀ quantum, K ≤ quantum → ∀ vfuel, ∃ s',
        run G.code G.lim quantum none (vfuel + 1) (mkS G.s [⟨mangleFnName G.mod g, 0⟩] mp 0 stk mem st.world) =
          .fatal kd m fsp s' ∧ s'.st = { G.s.st with out := st'.out, heap := st'.heap }
    | (.error (.throw msg tsp), st') =>
      G.s.handlers = [] → ∃ K, ∀ quantum, K ≤ quantum → ∀ vfuel, ∃ s',
        run G.code G.lim quantum none (vfuel + 1) (mkS G.s [⟨mangleFnName G.mod g, 0⟩] mp 0 stk mem st.world) =
          .fatal "UncaughtThrow" msg tsp s' ∧ s'.st = { G.s.st with out := st'.out, heap := st'.heap }
    | _ => True := by
  have h := Sim.entry_run G hG.toOK' fuel g fd I stmts hFn (by rw [hG.nofor]; intro h; cases h) sp st mp stk (memOf G mem)
    hsp hmp hstack hcallLim
  rcases hev : callBody G.cfg fuel sp G.mod fd.params fd.body [] st with ⟨r, st'⟩
  rw [hev] at h
  cases r with
  | error c => cases c <;> exact h
  | ok v =>
    obtain ⟨K, hK⟩ := h
    refine ⟨K, fun q hq vf => ?_⟩
    obtain ⟨s', h1, h2, h3, h4, h5⟩ := hK q hq vf
    refine ⟨s', h1, h2, h3, h4, ?_⟩
    rcases h5 with h5 | ⟨o, ho, h5⟩
    · exact Or.inl h5
    · cases ho hG.nofor; exact Or.inr h5

section Example12
theorem fnOK_main : FnVoidOK GX "main" mainFd
    ⟨renameVars (relG symMain), slotFn (relG symMain), labelIndex symMain, (· ∈ varNames (relG symMain)),
      ["println", "fib", "report", "sumOdd"], φX, [[]], [], []⟩ mainStmts :=
  fn_void_compiled_ok GX mainFd mainStmts φX [[]] [] [] ["println", "fib", "report", "sumOdd"] (relG symMain)
    ⟨sp0, .null, rfl⟩ (by decide) (relocate_relG _ (by decide +kernel))
    (by
      have h : mangleFnName GX.mod mainFd.name = "@main.main" := by decide +kernel
      rw [h]; simp [findCode, codeX, GX])
    (by decide +kernel) (by decide +kernel) (by decide +kernel) (by decide +kernel)
    (by decide +kernel) (by decide +kernel) (by decide +kernel) phiX

private def okOut (out : String) : Except Ctl Val × St → Bool
  | (.ok _, st) => st.out == out
  | _ => false
private theorem spec_main :
    okOut "55\nresult 225 true\n225 true done\n"
      (callBody GX.cfg 200 sp0 GX.mod mainFd.params mainFd.body [] stX) = true := by
  decide +kernel

/-- **The whole program through the theorems**: `run` on the VM code of `progX`, started on
`@main.main` with an empty core, ends with `ok`, no frame left, memory pointer 0 and exactly the specification's
output — `fib(10)` by 177 recursive activations, `sumOdd(9)` by a `loop` and a `while` with
`break`/`continue`, three `println`s — for every sufficiently large quantum. -/
example : ∃ K, ∀ quantum, K ≤ quantum → ∀ vfuel, ∃ s',
    run codeX {} quantum none (vfuel + 1) { calls := [⟨"@main.main", 0⟩] } = .ok s' ∧
    s'.st.out = "55\nresult 225 true\n225 true done\n" ∧ s'.mp = 0 ∧ s'.calls = [] := by
  obtain ⟨fuel, hfuel⟩ : ∃ n : Nat, n = 200 := ⟨200, rfl⟩
  have h := entry_run GX gx_ok fuel "main" mainFd _ mainStmts fnOK_main sp0 stX 0 [] []
    ⟨fun _ => HeapInv.empty, rfl, rfl, by decide⟩ (by decide) (by decide) (by decide)
  subst hfuel
  have hs := spec_main
  rcases hev : callBody GX.cfg 200 sp0 GX.mod mainFd.params mainFd.body [] stX with ⟨res, st'⟩
  rw [hev] at h hs
  cases res with
  | error e => simp [okOut] at hs
  | ok v =>
    simp only [okOut, beq_iff_eq] at hs
    obtain ⟨K, hK⟩ := h
    refine ⟨K, fun quantum hq vfuel => ?_⟩
    obtain ⟨s', hrun, hst, hmp, hcalls, hstk⟩ := hK quantum hq vfuel
    exact ⟨s', hrun, by rw [hst]; exact hs, hmp, hcalls⟩
end Example12

/-! ## 13. What the compiler emits on the general fragment -/

/-- **`compileExpr` on expressions with calls.** For `e` in `Frag.okGE`, enough compiler fuel
(`Frag.cdE`), well scoped (variables resolved, callees are functions the compiler knows — `φOf cs`
is what `getMangledFn` answers — and not variables): `compileExpr` appends exactly
`cgE module ρ φ e` — for a call `f(a₁, …, aₙ)`: `code(aₙ) ++ … ++ code(a₁) ++ [Call_Imm f']`, the
arguments in reverse order — and advances the label counters as `cgE` says. -/
theorem compileExpr_gfrag (fuel : Nat) (e : Expr) (cs : CState)
    (hs : Frag.okGE e = true) (hd : Frag.cdE e ≤ fuel) (hws : Frag.wsGE cs.scopes (φOf cs) e = true) :
    (compileExpr fuel e).run cs =
      ((), updS cs cs.loops (cgE cs.currModule (ρS cs.scopes) (φOf cs) e cs.labelMangle).1
        { envOf cs with lm := (cgE cs.currModule (ρS cs.scopes) (φOf cs) e cs.labelMangle).2 }) := by
  have := (compile_gexpr false fuel).1 e cs (okE_okGE _ _ hs) hd cs.loops [] (envOf cs) hws
  rwa [updS_self, List.nil_append] at this

/-- **`compileStmts` on the general statement fragment** (`Frag.okGSs il rt`: `break`/`continue`
only if `il`, and then the innermost loop was entered at the current `try` depth; `return` only if
`rt`, and then no `try` encloses it — the compiler's `popTryLabels` emits nothing): the emitted code is
`cgSs …` — `loop`: `head: body; Jump head; end:`; `break`/`continue`: `Jump` to the innermost
loop's labels; `return e;`: `code(e); Jump cleanup`; `println(…)`: reversed arguments,
`GetGlobImm(println)`, the count, `Call_Val`; a call statement: the call and `Drop` — and scopes,
counters and slot count end as `cgSs` computes them. -/
theorem compileStmts_gfrag (fuel : Nat) (ss : List Stmt) (cs : CState) (il rt : Bool)
    (hrt : rt = true → cs.tryDepth = 0) (hil : il = true → ∃ b c rest, cs.loops = (b, c, cs.tryDepth) :: rest)
    (hs : Frag.okGSs il rt ss = true) (hd : Frag.cdSs ss ≤ fuel)
    (hws : Frag.wsGSs cs.currModule cs.currFn (φOf cs) (loopsOf cs.loops) ss (envOf cs) = true) :
    (compileStmts fuel ss).run cs =
      ((), updS cs cs.loops (cgSs cs.currModule cs.currFn (φOf cs) (loopsOf cs.loops) ss (envOf cs)).1
        (cgSs cs.currModule cs.currFn (φOf cs) (loopsOf cs.loops) ss (envOf cs)).2) := by
  have := (compile_gstmt fuel).2.1 ss cs cs.loops il rt hrt hil hs hd [] (envOf cs) hws
  rwa [updS_self, List.nil_append] at this

/-- **`compileFn` on a function of the general fragment**: ordinary parameters, statements
`stmts`, optionally a trailing expression, compiled at top level. Afterwards the function's entry
holds `cgFn …` = `AddMempointer(n); SetVar p₁ … SetVar pₖ; statements; expression; cleanup:
AddMempointer(-n); Return`, with `n` the slot count (`partsOf …`.envE.nv`); the other functions,
the loop stack, the `try` depth and the `unsupported` flag are as before. (`fnBase cs fd`: `cs` with
the function registered — its own name is callable, for recursion.) -/
theorem compileFn_gfrag (f2 : Nat) (fd : FnDef) (cs : CState) (bsp : Span) (bty : Ty) (stmts : List Stmt)
    (oe : Option Expr)
    (hbody : fd.body = .mk bsp bty stmts oe) (hparams : ∀ p ∈ fd.params, p.isSingleton = false)
    (hann : fd.hasAnnotation = false) (hloops : cs.loops = [])
    (hs : Frag.okGSs false true stmts = true) (he : ∀ e, oe = some e → Frag.okGE e = true)
    (hd : Frag.cdSs stmts ≤ f2) (hde : ∀ e, oe = some e → Frag.cdE e ≤ f2)
    (hws : Frag.wsGSs cs.currModule fd.name (φOf (fnBase cs fd)) [] stmts (partsOf cs fd stmts oe).envB = true)
    (hwe : ∀ e, oe = some e → Frag.wsGE (partsOf cs fd stmts oe).envS.scopes (φOf (fnBase cs fd)) e = true) :
    ∃ cs', (compileFn (f2 + 2) fd).run cs = ((), cs') ∧
      cs'.fns.lookup (cs.currModule, fd.name) =
        some { name := mangleFnName cs.currModule fd.name,
               code := cgFn cs.currModule (φOf (fnBase cs fd)) fd stmts oe cs.scopes cs.varMangle cs.labelMangle,
               cntVars := (partsOf cs fd stmts oe).envE.nv } ∧
      (∀ k, k ≠ (cs.currModule, fd.name) → cs'.fns.lookup k = cs.fns.lookup k) ∧
      cs'.loops = cs.loops ∧ cs'.tryDepth = cs.tryDepth ∧ cs'.currModule = cs.currModule ∧
      cs'.unsupported = cs.unsupported :=
  Sim.compileFn_gfrag f2 fd cs bsp bty stmts oe hbody hparams hann hloops hs (fun e h => okE_okGE _ _ (he e h)) hd hde hws hwe

section Example13
/-- The compiler state in which pass 2 of `compileProgram` reaches the functions of `progX`. -/
private def csX : CState :=
  { fns := [(("main", "@init"), { name := "@main.@init", code := [] }),
            (("main", "fib"), { name := "@main.fib", code := [] }),
            (("main", "sumOdd"), { name := "@main.sumOdd", code := [] }),
            (("main", "report"), { name := "@main.report", code := [] }),
            (("main", "main"), { name := "@main.main", code := [] })],
    currFn := "@init", currModule := "main" }

/-- The symbolic code used in sections 9–11 is what `compileFn` emits (statement instantiated):
for `sumOdd` — two `let`s, a `loop` and a `while` with `break`/`continue` — … -/
example : (((compileFn 40 sumFd).run csX).2.fns.lookup ("main", "sumOdd")).map (·.code) = some symSum := by
  obtain ⟨cs', hrun, hlk, _⟩ := compileFn_gfrag 38 sumFd csX sp0 .int sumStmts (some (gv "acc")) rfl (by decide) rfl rfl
    (by decide +kernel) (by intro e he; cases he; decide) (by decide +kernel) (by intro e he; cases he; decide +kernel)
    (by decide +kernel) (by intro e he; cases he; decide +kernel)
  rw [hrun]
  exact congrArg (Option.map (·.code)) hlk
/-- … for the recursive `fib` with its `return` … -/
example : (((compileFn 40 fibFd).run csX).2.fns.lookup ("main", "fib")).map (·.code) = some symFib := by
  obtain ⟨cs', hrun, hlk, _⟩ := compileFn_gfrag 38 fibFd csX sp0 .int fibStmts (some fibE) rfl (by decide) rfl rfl
    (by decide +kernel) (by intro e he; cases he; decide +kernel) (by decide +kernel)
    (by intro e he; cases he; decide +kernel) (by decide +kernel) (by intro e he; cases he; decide +kernel)
  rw [hrun]
  exact congrArg (Option.map (·.code)) hlk
/-- … and for `report` with its `println`. -/
example : (((compileFn 40 repFd).run csX).2.fns.lookup ("main", "report")).map (·.code) = some symRep := by
  obtain ⟨cs', hrun, hlk, _⟩ := compileFn_gfrag 38 repFd csX sp0 .int repStmts (some (gv "x")) rfl (by decide) rfl rfl
    (by decide +kernel) (by intro e he; cases he; decide) (by decide +kernel) (by intro e he; cases he; decide +kernel)
    (by decide +kernel) (by intro e he; cases he; decide +kernel)
  rw [hrun]
  exact congrArg (Option.map (·.code)) hlk
end Example13

/-! ## 14. `try` / `catch` / `throw` -/

/-- **`Set_Try`** records, on the handler stack, the catch label in the current function together
with the call depth, the operand-stack height and the memory pointer of the moment. -/
theorem setTry_step (code : Code) (lim : Limits) (s : VMState) (fn : String) (ip : Nat) (rest : List Frame)
    (mp : Int) (k : Nat) (stk : List SVal) (mem : List (Int × Val)) (out : World) (c : List (RInstr × Span))
    (hf : findCode code fn = some c) (tfn : String) (l : Nat) (sp : Span)
    (hx : c[ip]? = some (.setTry tfn l, sp)) :
    exec1 code lim (mkS s (⟨fn, ip⟩ :: rest) mp k stk mem out) =
      .next (mkS (withH s (⟨⟨tfn, l⟩, rest.length + 1, stk.length, mp⟩ :: s.handlers)) (⟨fn, ip + 1⟩ :: rest) mp
        (k + 1) stk mem out) :=
  mkS_setTry code lim s fn ip rest mp k stk mem out c hf tfn l sp hx

/-- **The handler record is restored.** When an exception is raised `frames'` activations deeper
than the `try`, with `xs` more operands and another memory pointer, `Core.Run`'s dispatch
(`dispatch`, what `runQuantum` does on a `throw` interrupt) drops those frames and operands,
restores the recorded memory pointer, allocates the error object `{ message, line, column,
filename }` and continues at the catch label with (a reference to) it on the operand stack; the
handler itself stays installed until the catch code's own `Pop_Try`. -/
theorem throw_dispatch (s : VMState) (tfn : String) (tl : Nat) (hmp : Int) (hs : List Handler)
    (frames' : List Frame) (f : Frame) (rest : List Frame) (mp' : Int) (K : Nat) (xs stk : List SVal)
    (mem' : List (Int × Val)) (w' : World) (msg : String) (tsp : Span) :
    dispatch msg tsp (mkS (withH s (⟨⟨tfn, tl⟩, rest.length + 1, stk.length, hmp⟩ :: hs)) (frames' ++ f :: rest) mp' K
        (xs ++ stk) mem' w') =
      .next (mkS (withH s (⟨⟨tfn, tl⟩, rest.length + 1, stk.length, hmp⟩ :: hs)) (⟨tfn, tl⟩ :: rest) hmp K
        (⟨.ref w'.heap.size, none⟩ :: stk) mem' ⟨w'.heap.push (errCell msg tsp), w'.out⟩) :=
  dispatch_mkS s tfn tl hmp hs frames' f rest mp' K xs stk mem' w' msg tsp

/-- `execHN` — instruction sequences *with* that dispatch — is what the VM's inner loop runs:
a sequence ending normally, in a fatal interrupt, or in an exception no handler encloses (reported as
the fatal error `UncaughtThrow`). -/
theorem runQuantum_execHN (code : Code) (lim : Limits) (m n : Nat) (s s' : VMState) :
    (execHN code lim n s = .next s' → runQuantum code lim (n + m) s = runQuantum code lim m s') ∧
    (∀ k msg sp, execHN code lim n s = .intr (.fatal k msg sp) s' →
      runQuantum code lim (n + m) s = .inr (.fatal k msg sp s')) ∧
    (∀ msg sp, execHN code lim n s = .intr (.throw msg sp) s' →
      runQuantum code lim (n + m) s = .inr (.fatal "UncaughtThrow" msg sp s')) :=
  ⟨runQuantum_of_execHN code lim m n s s', fun k msg sp => runQuantum_of_execHN_fatal code lim m n s s' k msg sp,
   fun msg sp => runQuantum_of_execHN_throw code lim m n s s' msg sp⟩

/-- **`throw(a);`** (an instance of the statement simulation; `a` an atom): the specification
ends the statement with the exception `(display a, span of the call)`; the VM — `code(a);
Throw` — arrives at the `Throw` instruction, whose interrupt carries the same message and span,
with the operand stack, memory and world of the statement's start (`SimGS`, case `throw`:
`RunsT`). Statements, expressions and calls propagate that outcome (`gstmts_correct`,
`call_expr_correct`, `call_correct`: case `throw`), through any number of activations. -/
theorem throw_correct (G : GCtx) (hG : G.OK) (fuel : Nat) (A : Act) (hA : A.OK G)
    (loops : List (String × String)) (lscopes : CScopes) (d : Nat) (sp csp isp : Span) (cty ity : Ty)
    (g f s : Bool) (a : String × Expr) (env : CEnv) (spec : St) (ip : Nat) (stk : List SVal)
    (mem : List (Int × Val)) (st : Stmt)
    (hst : st = .exprS sp (.call csp cty (.ident isp ity "throw" g f s) [a] false))
    (hs : Frag.okGS (!loops.isEmpty) A.rt st = true) (hT : ∀ x ∈ Frag.identsGS st, x ∈ A.T)
    (hws : Frag.wsGS G.mod A.src A.φ loops st env = true)
    (hN : ∀ m ∈ codeVars (cgS G.mod A.src A.φ loops st env).1, A.N m)
    (hpl : Placed A.lab A.σ A.c ip (cgS G.mod A.src A.φ loops st env).1)
    (hd : 1 ≤ d) (hls : lscopes = env.scopes.drop d)
    (hrel : GRel G A env.scopes env.vm spec.scopes mem) (hsp : SpecOK G A.mp spec) :
    SimGS G A loops lscopes d ip (nI (cgS G.mod A.src A.φ loops st env).1) stk mem
      (GRel G A (cgS G.mod A.src A.φ loops st env).2.scopes (cgS G.mod A.src A.φ loops st env).2.vm) spec
      (evalStmt G.cfg fuel st spec) := by
  subst hst
  exact simGS_of hG.nofor ((allP G hG.toOK' fuel).pgs A hA loops lscopes d _ env spec ip stk (memOf G mem) (by rw [hG.nofor]; exact hs) hT hws hN hpl hd hls hrel hsp)

/-- **`try { … } catch e { … }`** (an instance of the statement simulation). Code:
`Set_Try(fn, exc); body; Pop_Try; Jump after; exc: Set_Var e; Pop_Try; catch block; after:`.
The body contains no `return` and no `break`/`continue` out of it (the compiler would have to
emit `Pop_Try`s there: `Frag.okGS`), the module is the entry module (the VM writes `"main"` into
the error object's `filename`, the specification the current module), and the function can name
itself (`φ fn`, for the handler's target).
* The body completes ↦ handler installed, body run *under that handler*, handler removed, jump
  over the catch code; the relation holds again.
* The body — or any function it calls, at any depth — throws `(msg, span)` ↦ the VM unwinds to this
  activation (`throw_dispatch`), both sides allocate the same error object at the same heap
  address, bind it to `e` in a fresh scope, and run the catch block; variable updates of the body
  persist on both sides. Its outcome (normal, `break`, `return`, another exception, fatal) is the
  statement's.
* A fatal error in the body ↦ the same fatal interrupt. -/
theorem try_correct (G : GCtx) (hG : G.OK) (fuel : Nat) (A : Act) (hA : A.OK G)
    (loops : List (String × String)) (lscopes : CScopes) (d : Nat) (sp tsp : Span) (ty : Ty) (tb cb : Block)
    (ci : String) (env : CEnv) (spec : St) (ip : Nat) (stk : List SVal) (mem : List (Int × Val)) (st : Stmt)
    (hst : st = .exprS sp (.tryE tsp ty tb ci cb))
    (hs : Frag.okGS (!loops.isEmpty) A.rt st = true) (hT : ∀ x ∈ Frag.identsGS st, x ∈ A.T)
    (hws : Frag.wsGS G.mod A.src A.φ loops st env = true)
    (hN : ∀ m ∈ codeVars (cgS G.mod A.src A.φ loops st env).1, A.N m)
    (hpl : Placed A.lab A.σ A.c ip (cgS G.mod A.src A.φ loops st env).1)
    (hd : 1 ≤ d) (hls : lscopes = env.scopes.drop d)
    (hrel : GRel G A env.scopes env.vm spec.scopes mem) (hsp : SpecOK G A.mp spec) :
    SimGS G A loops lscopes d ip (nI (cgS G.mod A.src A.φ loops st env).1) stk mem
      (GRel G A (cgS G.mod A.src A.φ loops st env).2.scopes (cgS G.mod A.src A.φ loops st env).2.vm) spec
      (evalStmt G.cfg fuel st spec) := by
  subst hst
  exact simGS_of hG.nofor ((allP G hG.toOK' fuel).pgs A hA loops lscopes d _ env spec ip stk (memOf G mem) (by rw [hG.nofor]; exact hs) hT hws hN hpl hd hls hrel hsp)

section Example14
private def gthrow (m : String) (sp : Span) : Stmt :=
  .exprS sp0 (.call sp .never (.ident sp0 (.fn [] .never) "throw" false false false) [("", .str sp0 m)] false)
private def gtry (b : List Stmt) (e : String) (c : List Stmt) : Stmt :=
  .exprS sp0 (.tryE sp0 .null (.mk sp0 .null b none) e (.mk sp0 .null c none))
private def gasgn (x : String) (e : Expr) : Stmt := .exprS sp0 (.assign sp0 none (gv x) e)
private def spThrow : Span := ⟨7, 3, 7, 19⟩

/-- `if x > 2 { throw("too big"); }` -/
def failStmts : List Stmt := [gif (.infix sp0 .bool .gt (gv "x") (.int sp0 2)) [gthrow "too big" spThrow]]
/-- `fn fail(x: int) -> int { if x > 2 { throw("too big"); } x }` -/
def failFd : FnDef := gfn "fail" ["x"] .int failStmts (some (gv "x"))
/-- `let r = 0; try { r = fail(a); println("ok", r); } catch e { println("caught"); r = 0 - 1; }` -/
def safeStmts : List Stmt :=
  [ .letS sp0 "r" .int false .int (.int sp0 0),
    gtry [gasgn "r" (gcall "fail" [gv "a"]), gprint [.str sp0 "ok", gv "r"]] "e"
      [gprint [.str sp0 "caught"], gasgn "r" (.infix sp0 .int .sub (.int sp0 0) (.int sp0 1))] ]
/-- `fn safe(a: int) -> int { …; r }` -/
def safeFd : FnDef := gfn "safe" ["a"] .int safeStmts (some (gv "r"))
def main2Stmts : List Stmt := [gprint [gcall "safe" [.int sp0 1]], gprint [gcall "safe" [.int sp0 5]]]
/-- `fn main() { println(safe(1)); println(safe(5)); }` -/
def main2Fd : FnDef := gfn "main" [] .null main2Stmts none
def progY : Program :=
  [{ name := "main", imports := [], singletons := [], globals := [], nImpls := 0, fns := [failFd, safeFd, main2Fd] }]

/-- The whole program on the models themselves: the exception raised in `fail` is caught in `safe`,
on the specification … -/
example : (match runProgram { prog := progY } 200 with | .ok out _ => out | _ => "?") = "ok 1\n1\ncaught\n-1\n" := by
  decide +kernel
/-- … and on the VM, which ends with a clean core (no handler left). -/
example : (match compile progY "main" 100 with
    | .ok c => (match runMain c {} 50 20000 with
      | .ok s => (s.st.out, s.stack.length, s.mp, s.handlers.length) | _ => ("?", 0, 0, 0))
    | .error e => (e, 0, 0, 0)) = ("ok 1\n1\ncaught\n-1\n", 0, 0, 0) := by
  decide +kernel

def φY : String → Option String := fun n =>
  if n = "fail" then some "@main.fail" else if n = "safe" then some "@main.safe" else none
def symFail : SCode := cgFn "main" φY failFd failStmts (some (gv "x")) [[]] [] []
def symSafe : SCode := cgFn "main" φY safeFd safeStmts (some (gv "r")) [[]] [] []
def symMain2 : SCode := cgFn "main" φY main2Fd main2Stmts none [[]] [] []
def codeY : Code := [⟨"@main.fail", renameVars (relG symFail)⟩, ⟨"@main.safe", renameVars (relG symSafe)⟩,
  ⟨"@main.main", renameVars (relG symMain2)⟩]

local instance (priority := high) : BEq PVal := ⟨pvalBeq⟩
/-- The real compiler produces `codeY` (kernel evaluation, instruction by instruction). -/
example : (match compile progY "main" 100 with
    | .ok c => (c.fns.filter fun f => f.name != "@main.@init").map (fun f => (f.name, f.code))
        == codeY.map (fun f => (f.name, f.code))
    | .error _ => false) = true := by decide +kernel

def GY : GCtx := ⟨{ prog := progY }, codeY, {}, "main", {}, fun g => g = "fail" ∨ g = "safe", 6, 0, false⟩

private theorem phiY : PhiOK GY φY := by
  intro name f h
  unfold φY at h
  split at h
  · rename_i hn; subst hn; cases h
    exact ⟨by decide +kernel, Or.inl rfl, failFd, rfl, rfl⟩
  · split at h
    · rename_i hn; subst hn; cases h
      exact ⟨by decide +kernel, Or.inr rfl, safeFd, rfl, rfl⟩
    · cases h

theorem fnOK_fail : FnOK GY "fail" failFd
    ⟨renameVars (relG symFail), slotFn (relG symFail), labelIndex symFail, (· ∈ varNames (relG symFail)),
      ["x", "throw"], φY, [[]], [], []⟩ failStmts (gv "x") :=
  fn_compiled_ok GY failFd failStmts (gv "x") φY [[]] [] [] ["x", "throw"] (relG symFail) ⟨sp0, .int, rfl⟩
    (by decide) (relocate_relG _ (by decide +kernel))
    (by
      have h : mangleFnName GY.mod failFd.name = "@main.fail" := by decide +kernel
      rw [h]; simp [findCode, codeY, GY])
    (by decide +kernel) (by decide +kernel) (by decide +kernel) (by decide +kernel)
    (by decide +kernel) (by decide +kernel) (by decide +kernel) (by decide +kernel) (by decide +kernel)
    (by decide +kernel) phiY

theorem fnOK_safe : FnOK GY "safe" safeFd
    ⟨renameVars (relG symSafe), slotFn (relG symSafe), labelIndex symSafe, (· ∈ varNames (relG symSafe)),
      ["a", "r", "e", "fail", "println"], φY, [[]], [], []⟩ safeStmts (gv "r") :=
  fn_compiled_ok GY safeFd safeStmts (gv "r") φY [[]] [] [] ["a", "r", "e", "fail", "println"] (relG symSafe)
    ⟨sp0, .int, rfl⟩ (by decide) (relocate_relG _ (by decide +kernel))
    (by
      have h : mangleFnName GY.mod safeFd.name = "@main.safe" := by decide +kernel
      rw [h]; simp [findCode, codeY, GY])
    (by decide +kernel) (by decide +kernel) (by decide +kernel) (by decide +kernel)
    (by decide +kernel) (by decide +kernel) (by decide +kernel) (by decide +kernel) (by decide +kernel)
    (by decide +kernel) phiY

theorem gy_ok : GY.OK := by
  refine ⟨⟨?_, by decide, by decide, rfl, rfl, rfl⟩, rfl⟩
  intro g fd hK hfind
  rcases hK with rfl | rfl
  · have h : findFn GY.cfg.prog GY.mod "fail" = some failFd := rfl
    rw [h] at hfind; cases hfind
    exact ⟨_, _, _, fnOK_fail, fun h => by cases h⟩
  · have h : findFn GY.cfg.prog GY.mod "safe" = some safeFd := rfl
    rw [h] at hfind; cases hfind
    exact ⟨_, _, _, fnOK_safe, fun h => by cases h⟩

theorem fnOK_main2 : FnVoidOK GY "main" main2Fd
    ⟨renameVars (relG symMain2), slotFn (relG symMain2), labelIndex symMain2, (· ∈ varNames (relG symMain2)),
      ["println", "safe"], φY, [[]], [], []⟩ main2Stmts :=
  fn_void_compiled_ok GY main2Fd main2Stmts φY [[]] [] [] ["println", "safe"] (relG symMain2)
    ⟨sp0, .null, rfl⟩ (by decide) (relocate_relG _ (by decide +kernel))
    (by
      have h : mangleFnName GY.mod main2Fd.name = "@main.main" := by decide +kernel
      rw [h]; simp [findCode, codeY, GY])
    (by decide +kernel) (by decide +kernel) (by decide +kernel) (by decide +kernel)
    (by decide +kernel) (by decide +kernel) (by decide +kernel) phiY

private theorem spec_main2 :
    okOut "ok 1\n1\ncaught\n-1\n" (callBody GY.cfg 200 sp0 GY.mod main2Fd.params main2Fd.body [] stX) = true := by
  decide +kernel

/-- **The program through the theorems**: `run` on the VM code, started on `@main.main`, ends with `ok` and
the specification's output. In the second call of `safe` the exception is raised two activations
below the handler — inside `fail`, called from the `try` body — with `fail`'s frame on the
call stack and its memory pointer; the dispatch restores `safe`'s, the catch block runs, and `-1`
is printed. -/
example : ∃ K, ∀ quantum, K ≤ quantum → ∀ vfuel, ∃ s',
    run codeY {} quantum none (vfuel + 1) { calls := [⟨"@main.main", 0⟩] } = .ok s' ∧
    s'.st.out = "ok 1\n1\ncaught\n-1\n" ∧ s'.mp = 0 ∧ s'.calls = [] := by
  obtain ⟨fuel, hfuel⟩ : ∃ n : Nat, n = 200 := ⟨200, rfl⟩
  have h := entry_run GY gy_ok fuel "main" main2Fd _ main2Stmts fnOK_main2 sp0 stX 0 [] []
    ⟨fun _ => HeapInv.empty, rfl, rfl, by decide⟩ (by decide) (by decide) (by decide)
  subst hfuel
  have hs := spec_main2
  rcases hev : callBody GY.cfg 200 sp0 GY.mod main2Fd.params main2Fd.body [] stX with ⟨res, st'⟩
  rw [hev] at h hs
  cases res with
  | error e => simp [okOut] at hs
  | ok v =>
    simp only [okOut, beq_iff_eq] at hs
    obtain ⟨K, hK⟩ := h
    refine ⟨K, fun quantum hq vfuel => ?_⟩
    obtain ⟨s', hrun, hst, hmp, hcalls, hstk⟩ := hK quantum hq vfuel
    exact ⟨s', hrun, by rw [hst]; exact hs, hmp, hcalls⟩
end Example14

/-! ## 15. `match` over literals with a default arm -/

/-- **What `compileExpr` emits for `match c { l₁₁ | l₁₂ … => a₁, …, _ => d }`** (literal patterns
`Frag.litE`: int, bool, string; arms and default in the fragment): with the control value on the
stack, for every literal `Copy_Push l; Eq_Pop_Once; Not; JumpIfFalse caseᵢ` (`armTests`), then
`Jump default`; the bodies `caseᵢ: Drop; code(aᵢ); Jump after` (`cgArms`); finally
`default: Drop; code(d); Jump after; after:`. -/
theorem compileMatch_frag (fuel : Nat) (sp : Span) (ty : Ty) (c : Expr) (arms : List (List Expr × Expr)) (d : Expr)
    (cs : CState) (hs : Frag.okGE (.matchE sp ty c arms (some d)) = true)
    (hd : Frag.cdE (.matchE sp ty c arms (some d)) ≤ fuel)
    (hws : Frag.wsGE cs.scopes (φOf cs) (.matchE sp ty c arms (some d)) = true) :
    let mod := cs.currModule
    let ρ := ρS cs.scopes
    let φ := φOf cs
    let cc := cgE mod ρ φ c cs.labelMangle
    let after := freshLabel mod cc.2 "match_after"
    let ts := armTests mod sp arms after.2
    let dfl := freshLabel mod ts.2.2 "match_default"
    let bs := cgArms mod ρ φ sp after.1 arms ts.2.1 dfl.2
    let cd := cgE mod ρ φ d bs.2
    (compileExpr fuel (.matchE sp ty c arms (some d))).run cs =
      ((), updS cs cs.loops
        (cc.1 ++ ts.1 ++ [(.jump dfl.1, sp)] ++ bs.1 ++ [(.label dfl.1, sp), (.drop, sp)] ++ cd.1 ++
          [(.jump after.1, sp), (.label after.1, sp)])
        { envOf cs with lm := cd.2 }) := by
  have h := compileExpr_gfrag fuel _ cs hs hd hws
  rw [cgE] at h
  exact h

/-- **The specification's `match`** (`evalArms`/`anyLit`/`eqM`): after the control value `v`, the
arms are tried in order, the literals of an arm left to right with the specification's equality
(`litsHit`/`armsHit` compute the first hit); the result is that of the first arm that hits,
otherwise that of the default arm — evaluated in the state after the control expression — or
`timeout`, or an `unsupported` comparison (never for the fragment's values). -/
theorem match_spec (cfg : Cfg) (fuel : Nat) (sp : Span) (ty : Ty) (c : Expr) (arms : List (List Expr × Expr))
    (d : Expr) (st : St) (hl : ∀ a ∈ arms, ∀ l ∈ a.1, Frag.litE l = true) :
    match evalExpr cfg fuel c st with
    | (.error e, st1) => evalExpr cfg (fuel + 1) (.matchE sp ty c arms (some d)) st = (.error e, st1)
    | (.ok v, st1) =>
      evalExpr cfg (fuel + 1) (.matchE sp ty c arms (some d)) st = (.error .timeout, st1) ∨
      (∃ msg, evalExpr cfg (fuel + 1) (.matchE sp ty c arms (some d)) st = (.error (.unsupported msg), st1)) ∨
      (∃ i a f', arms[i]? = some a ∧ armsHit st1.heap v arms = some (some i) ∧ f' < fuel ∧
        evalExpr cfg (fuel + 1) (.matchE sp ty c arms (some d)) st = evalExpr cfg f' a.2 st1) ∨
      (armsHit st1.heap v arms = some none ∧ ∃ f', f' < fuel ∧
        evalExpr cfg (fuel + 1) (.matchE sp ty c arms (some d)) st = evalExpr cfg f' d st1) := by
  rw [evalExpr_matchE]
  rcases evalExpr cfg fuel c st with ⟨r, st1⟩
  cases r with
  | error e => rfl
  | ok v => exact evalArms_spec cfg arms fuel v d st1 hl

/-- **The VM's comparison cascade** (`armTests`) with the control value `cv` on top of the stack:
`Eq_Pop_Once` pops only the literal; the first arm with an equal literal is jumped to (its `case`
label), with none the VM falls through to `Jump default`; the control value is still there —
each body and the default start with `Drop`. -/
theorem match_cascade_vm (G : GCtx) (A : Act) (hA : A.OK G) (sp : Span) (cv : SVal)
    (stk : List SVal) (mem : Mem) (w : World) (arms : List (List Expr × Expr)) (lm : LM) (ip : Nat)
    (hl : ∀ a ∈ arms, ∀ l ∈ a.1, Frag.litE l = true) (hpl : Placed A.lab A.σ A.c ip (armTests G.mod sp arms lm).1) :
    match armsHit w.heap cv.v arms with
    | some (some i) => ∃ nm, (armTests G.mod sp arms lm).2.1[i]? = some nm ∧
        Runs G.fr G.code G.lim G.s A.fn A.rest A.mp ip (cv :: stk) mem w (A.lab nm) (cv :: stk) mem w
    | some none => Runs G.fr G.code G.lim G.s A.fn A.rest A.mp ip (cv :: stk) mem w
        (ip + nI (armTests G.mod sp arms lm).1) (cv :: stk) mem w
    | none => True :=
  armTests_run G A hA sp cv stk mem w arms lm ip hl hpl

/-- **`match` expressions are simulated** (`SimGE`, as in `call_expr_correct`): control expression,
arm bodies and default may contain calls (and further `match`es); the specification's outcome —
the value of the first arm that hits or of the default, a fatal error in the control expression or
in the chosen body, an exception of a callee — is the VM's, after the same output; the bodies of the
other arms are not executed (no output, no error of theirs). -/
theorem match_correct (G : GCtx) (hG : G.OK) (fuel : Nat) (A : Act) (hA : A.OK G) (sp : Span) (ty : Ty) (c : Expr)
    (arms : List (List Expr × Expr)) (d : Expr) (st : St)
    (ip : Nat) (stk : List SVal) (mem : List (Int × Val)) (lm : LM) (scopes : CScopes) (vm : List (String × Nat))
    (hs : Frag.okGE (.matchE sp ty c arms (some d)) = true)
    (hws : Frag.wsGE scopes A.φ (.matchE sp ty c arms (some d)) = true)
    (hT : ∀ x ∈ Frag.namesGE (.matchE sp ty c arms (some d)), x ∈ A.T)
    (hpl : Placed A.lab A.σ A.c ip (cgE G.mod (ρS scopes) A.φ (.matchE sp ty c arms (some d)) lm).1)
    (hrel : StRel G.mod A.T A.N A.σ G.lim A.mp scopes vm st.scopes mem) (hsp : SpecOK G A.mp st) :
    SimGE G A ip (nI (cgE G.mod (ρS scopes) A.φ (.matchE sp ty c arms (some d)) lm).1) stk mem st
      (match evalExpr G.cfg fuel c st with
        | (.ok v, st1) => evalArms G.cfg fuel v arms (some d) st1
        | (.error e, st1) => (.error e, st1)) := by
  have h := call_expr_correct G hG (fuel + 1) A hA _ st ip stk mem lm scopes vm hs hws hT hpl hrel hsp
  rwa [evalExpr_matchE] at h

/-- **The specification's `match` statement**: the value of the chosen arm is discarded. -/
theorem match_stmt_spec (cfg : Cfg) (fuel : Nat) (sp msp : Span) (ty : Ty) (c : Expr)
    (arms : List (List Expr × Expr)) (dflt : Option Expr) (st : St) :
    evalStmt cfg (fuel + 2) (.exprS sp (.matchE msp ty c arms dflt)) st =
      match evalExpr cfg fuel c st with
      | (.ok v, st1) =>
        (match evalArms cfg fuel v arms dflt st1 with
          | (.ok _, st2) => (.ok (), st2)
          | (.error e, st2) => (.error e, st2))
      | (.error e, st1) => (.error e, st1) := by
  rw [evalStmt_exprS, evalExpr_matchE]
  rcases evalExpr cfg fuel c st with ⟨r, st1⟩
  cases r <;> rfl

/-- **`match` statements are simulated** (`SimGS`, as in `gstmts_correct`): `match c { l… => { … } … _ => { … } }`
of type null, the arm bodies and the default being statement blocks (`Frag.okGArmsS`), compiled to
`code(c); tests; Jump default; caseᵢ: Drop; blockᵢ; Jump after; …; default: Drop; block; Jump after; after:`
(`cgS`/`cgArmsS`). The chosen block runs in its own scope with the control value already dropped, so
a `break`/`continue` inside an arm reaches the enclosing loop's labels with the operand stack of
the statement's start and the specification's scopes (`inScope` pops the arm's scope), `return`
reaches the cleanup label, an exception its handler; a completed arm jumps behind the `match`,
where the relation holds for the `match`'s final counters. -/
theorem match_stmt_correct (G : GCtx) (hG : G.OK) (fuel : Nat) (A : Act) (hA : A.OK G)
    (loops : List (String × String)) (lscopes : CScopes) (d : Nat) (sp msp : Span) (ty : Ty) (c : Expr)
    (arms : List (List Expr × Expr)) (db : Block) (env : CEnv) (spec : St)
    (ip : Nat) (stk : List SVal) (mem : List (Int × Val))
    (stmt : Stmt) (hstmt : stmt = .exprS sp (.matchE msp ty c arms (some (.blockE db))))
    (hs : Frag.okGS (!loops.isEmpty) A.rt stmt = true) (hT : ∀ x ∈ Frag.identsGS stmt, x ∈ A.T)
    (hws : Frag.wsGS G.mod A.src A.φ loops stmt env = true)
    (hN : ∀ m ∈ codeVars (cgS G.mod A.src A.φ loops stmt env).1, A.N m)
    (hpl : Placed A.lab A.σ A.c ip (cgS G.mod A.src A.φ loops stmt env).1)
    (hd : 1 ≤ d) (hls : lscopes = env.scopes.drop d)
    (hrel : GRel G A env.scopes env.vm spec.scopes mem) (hsp : SpecOK G A.mp spec) :
    SimGS G A loops lscopes d ip (nI (cgS G.mod A.src A.φ loops stmt env).1) stk mem
      (GRel G A (cgS G.mod A.src A.φ loops stmt env).2.scopes (cgS G.mod A.src A.φ loops stmt env).2.vm) spec
      (match evalExpr G.cfg fuel c spec with
        | (.ok v, st1) =>
          (match evalArms G.cfg fuel v arms (some (.blockE db)) st1 with
            | (.ok _, st2) => (.ok (), st2)
            | (.error e, st2) => (.error e, st2))
        | (.error e, st1) => (.error e, st1)) := by
  subst hstmt
  have h := (allP G hG.toOK' (fuel + 2)).pgs A hA loops lscopes d _ env spec ip stk (memOf G mem) (by rw [hG.nofor]; exact hs) hT hws hN hpl hd hls
    hrel hsp
  rw [match_stmt_spec] at h
  exact simGS_of hG.nofor h

section Example15
private def gmatch (ty : Ty) (c : Expr) (arms : List (List Expr × Expr)) (d : Expr) : Expr :=
  .matchE sp0 ty c arms (some d)

/-- `match n { 0 | 1 => 10, 2 => 20 + n, _ => classify(n - 3) + 1 }` -/
def clsE : Expr := gmatch .int (gv "n")
  [ ([.int sp0 0, .int sp0 1], .int sp0 10), ([.int sp0 2], .infix sp0 .int .add (.int sp0 20) (gv "n")) ]
  (.infix sp0 .int .add (gcall "classify" [.infix sp0 .int .sub (gv "n") (.int sp0 3)]) (.int sp0 1))
/-- `fn classify(n: int) -> int { let r = match n { … }; r }` -/
def clsStmts : List Stmt := [.letS sp0 "r" .int false .int clsE]
def clsFd : FnDef := gfn "classify" ["n"] .int clsStmts (some (gv "r"))
/-- `match n > 2 { true => match "b" { "a" => 1, "b" => classify(n) * 2, _ => 3 }, _ => 0 }`: a `match` on a
boolean whose first arm is a `match` on a string, with a call in an arm. -/
def wordE : Expr := gmatch .int (.infix sp0 .bool .gt (gv "n") (.int sp0 2))
  [ ([.bool sp0 true], gmatch .int (.str sp0 "b")
      [ ([.str sp0 "a"], .int sp0 1), ([.str sp0 "b"], .infix sp0 .int .mul (gcall "classify" [gv "n"]) (.int sp0 2)) ]
      (.int sp0 3)) ]
  (.int sp0 0)
/-- `fn word(n: int) -> int { match n > 2 { … } }` -/
def wordFd : FnDef := gfn "word" ["n"] .int [] (some wordE)
private def gblk (ss : List Stmt) : Expr := .blockE (.mk sp0 .null ss none)
/-- `let i = 0; let acc = 0;`
`loop { i += 1;`
`  match i { 1 | 2 => { acc += 10; } 3 => { continue; } 7 => { break; } _ => { if i > k { return acc; } acc += i; } }`
`  acc += 1; }`: a `match` statement whose arms continue, leave and return from the enclosing loop. -/
def walkStmts : List Stmt :=
  [ .letS sp0 "i" .int false .int (.int sp0 0), .letS sp0 "acc" .int false .int (.int sp0 0),
    .loopS sp0 (.mk sp0 .null [ gasg .add "i" (.int sp0 1),
       .exprS sp0 (.matchE sp0 .null (gv "i")
         [ ([.int sp0 1, .int sp0 2], gblk [gasg .add "acc" (.int sp0 10)]),
           ([.int sp0 3], gblk [.cont sp0]),
           ([.int sp0 7], gblk [.brk sp0]) ]
         (some (gblk [gif (.infix sp0 .bool .gt (gv "i") (gv "k")) [.ret sp0 (some (gv "acc"))],
           gasg .add "acc" (gv "i")]))),
       gasg .add "acc" (.int sp0 1) ] none) ]
/-- `fn walk(k: int) -> int { …; acc }` -/
def walkFd : FnDef := gfn "walk" ["k"] .int walkStmts (some (gv "acc"))
/-- `fn main() { println(classify(7)); println(word(5)); println(word(1)); println(walk(100)); println(walk(5)); }` -/
def main3Stmts : List Stmt :=
  [gprint [gcall "classify" [.int sp0 7]], gprint [gcall "word" [.int sp0 5]], gprint [gcall "word" [.int sp0 1]],
   gprint [gcall "walk" [.int sp0 100]], gprint [gcall "walk" [.int sp0 5]]]
def main3Fd : FnDef := gfn "main" [] .null main3Stmts none
def progZ : Program :=
  [{ name := "main", imports := [], singletons := [], globals := [], nImpls := 0, fns := [clsFd, wordFd, walkFd, main3Fd] }]

/-- The whole program on the models themselves: the specification … -/
example : (match runProgram { prog := progZ } 200 with | .ok out _ => out | _ => "?") = "12\n46\n0\n40\n33\n" := by
  decide +kernel
/-- … and the VM, which ends with a clean core. -/
example : (match compile progZ "main" 100 with
    | .ok c => (match runMain c {} 50 20000 with
      | .ok s => (s.st.out, s.stack.length, s.mp, s.calls.length) | _ => ("?", 0, 0, 0))
    | .error e => (e, 0, 0, 0)) = ("12\n46\n0\n40\n33\n", 0, 0, 0) := by
  decide +kernel

def φZ : String → Option String := fun n =>
  if n = "classify" then some "@main.classify" else if n = "word" then some "@main.word"
  else if n = "walk" then some "@main.walk" else none
def symCls : SCode := cgFn "main" φZ clsFd clsStmts (some (gv "r")) [[]] [] []
def symWord : SCode := cgFn "main" φZ wordFd [] (some wordE) [[]] [] []
def symWalk : SCode := cgFn "main" φZ walkFd walkStmts (some (gv "acc")) [[]] [] []
def symMain3 : SCode := cgFn "main" φZ main3Fd main3Stmts none [[]] [] []
def codeZ : Code := [⟨"@main.classify", renameVars (relG symCls)⟩, ⟨"@main.word", renameVars (relG symWord)⟩,
  ⟨"@main.walk", renameVars (relG symWalk)⟩, ⟨"@main.main", renameVars (relG symMain3)⟩]

local instance (priority := high) : BEq PVal := ⟨pvalBeq⟩
/-- The real compiler produces `codeZ` (kernel evaluation, instruction by instruction). -/
example : (match compile progZ "main" 100 with
    | .ok c => (c.fns.filter fun f => f.name != "@main.@init").map (fun f => (f.name, f.code))
        == codeZ.map (fun f => (f.name, f.code))
    | .error _ => false) = true := by decide +kernel

def GZ : GCtx :=
  ⟨{ prog := progZ }, codeZ, {}, "main", {}, fun g => g = "classify" ∨ g = "word" ∨ g = "walk", 6, 0, false⟩

private theorem phiZ : PhiOK GZ φZ := by
  intro name f h
  unfold φZ at h
  split at h
  · rename_i hn; subst hn; cases h
    exact ⟨by decide +kernel, Or.inl rfl, clsFd, rfl, rfl⟩
  · split at h
    · rename_i hn; subst hn; cases h
      exact ⟨by decide +kernel, Or.inr (Or.inl rfl), wordFd, rfl, rfl⟩
    · split at h
      · rename_i hn; subst hn; cases h
        exact ⟨by decide +kernel, Or.inr (Or.inr rfl), walkFd, rfl, rfl⟩
      · cases h

theorem fnOK_cls : FnOK GZ "classify" clsFd
    ⟨renameVars (relG symCls), slotFn (relG symCls), labelIndex symCls, (· ∈ varNames (relG symCls)),
      ["n", "r", "classify"], φZ, [[]], [], []⟩ clsStmts (gv "r") :=
  fn_compiled_ok GZ clsFd clsStmts (gv "r") φZ [[]] [] [] ["n", "r", "classify"] (relG symCls) ⟨sp0, .int, rfl⟩
    (by decide) (relocate_relG _ (by decide +kernel))
    (by
      have h : mangleFnName GZ.mod clsFd.name = "@main.classify" := by decide +kernel
      rw [h]; simp [findCode, codeZ, GZ])
    (by decide +kernel) (by decide +kernel) (by decide +kernel) (by decide +kernel)
    (by decide +kernel) (by decide +kernel) (by decide +kernel) (by decide +kernel) (by decide +kernel)
    (by decide +kernel) phiZ

theorem fnOK_word : FnOK GZ "word" wordFd
    ⟨renameVars (relG symWord), slotFn (relG symWord), labelIndex symWord, (· ∈ varNames (relG symWord)),
      ["n", "classify"], φZ, [[]], [], []⟩ [] wordE :=
  fn_compiled_ok GZ wordFd [] wordE φZ [[]] [] [] ["n", "classify"] (relG symWord) ⟨sp0, .int, rfl⟩
    (by decide) (relocate_relG _ (by decide +kernel))
    (by
      have h : mangleFnName GZ.mod wordFd.name = "@main.word" := by decide +kernel
      rw [h]; simp [findCode, codeZ, GZ])
    (by decide +kernel) (by decide +kernel) (by decide +kernel) (by decide +kernel)
    (by decide +kernel) (by decide +kernel) (by decide +kernel) (by decide +kernel) (by decide +kernel)
    (by decide +kernel) phiZ

theorem fnOK_walk : FnOK GZ "walk" walkFd
    ⟨renameVars (relG symWalk), slotFn (relG symWalk), labelIndex symWalk, (· ∈ varNames (relG symWalk)),
      ["k", "i", "acc"], φZ, [[]], [], []⟩ walkStmts (gv "acc") :=
  fn_compiled_ok GZ walkFd walkStmts (gv "acc") φZ [[]] [] [] ["k", "i", "acc"] (relG symWalk) ⟨sp0, .int, rfl⟩
    (by decide) (relocate_relG _ (by decide +kernel))
    (by
      have h : mangleFnName GZ.mod walkFd.name = "@main.walk" := by decide +kernel
      rw [h]; simp [findCode, codeZ, GZ])
    (by decide +kernel) (by decide +kernel) (by decide +kernel) (by decide +kernel)
    (by decide +kernel) (by decide +kernel) (by decide +kernel) (by decide +kernel) (by decide +kernel)
    (by decide +kernel) phiZ

theorem gz_ok : GZ.OK := by
  refine ⟨⟨?_, by decide, by decide, rfl, rfl, rfl⟩, rfl⟩
  intro g fd hK hfind
  rcases hK with rfl | rfl | rfl
  · have h : findFn GZ.cfg.prog GZ.mod "classify" = some clsFd := rfl
    rw [h] at hfind; cases hfind
    exact ⟨_, _, _, fnOK_cls, fun h => by cases h⟩
  · have h : findFn GZ.cfg.prog GZ.mod "word" = some wordFd := rfl
    rw [h] at hfind; cases hfind
    exact ⟨_, _, _, fnOK_word, fun h => by cases h⟩
  · have h : findFn GZ.cfg.prog GZ.mod "walk" = some walkFd := rfl
    rw [h] at hfind; cases hfind
    exact ⟨_, _, _, fnOK_walk, fun h => by cases h⟩

theorem fnOK_main3 : FnVoidOK GZ "main" main3Fd
    ⟨renameVars (relG symMain3), slotFn (relG symMain3), labelIndex symMain3, (· ∈ varNames (relG symMain3)),
      ["println", "classify", "word", "walk"], φZ, [[]], [], []⟩ main3Stmts :=
  fn_void_compiled_ok GZ main3Fd main3Stmts φZ [[]] [] [] ["println", "classify", "word", "walk"] (relG symMain3)
    ⟨sp0, .null, rfl⟩ (by decide) (relocate_relG _ (by decide +kernel))
    (by
      have h : mangleFnName GZ.mod main3Fd.name = "@main.main" := by decide +kernel
      rw [h]; simp [findCode, codeZ, GZ])
    (by decide +kernel) (by decide +kernel) (by decide +kernel) (by decide +kernel)
    (by decide +kernel) (by decide +kernel) (by decide +kernel) phiZ

private theorem spec_main3 :
    okOut "12\n46\n0\n40\n33\n" (callBody GZ.cfg 200 sp0 GZ.mod main3Fd.params main3Fd.body [] stX) = true := by
  decide +kernel

/-- **The program through the theorems**: `run` on the compiled code, started on `@main.main`, ends with
`ok` and the specification's output: `classify(7)` recurses through the default arm twice and ends in
the two-literal arm `0 | 1`; `word(5)` takes the `true` arm, whose nested string `match` hits its
second arm and calls `classify(5)` (arm `2` after one recursion); `word(1)` takes the default;
`walk(100)` leaves its loop from the arm `7 => { break; }` after the arm `3 => { continue; }` skipped
an increment, `walk(5)` returns from inside the default arm. -/
example : ∃ K, ∀ quantum, K ≤ quantum → ∀ vfuel, ∃ s',
    run codeZ {} quantum none (vfuel + 1) { calls := [⟨"@main.main", 0⟩] } = .ok s' ∧
    s'.st.out = "12\n46\n0\n40\n33\n" ∧ s'.mp = 0 ∧ s'.calls = [] := by
  obtain ⟨fuel, hfuel⟩ : ∃ n : Nat, n = 200 := ⟨200, rfl⟩
  have h := entry_run GZ gz_ok fuel "main" main3Fd _ main3Stmts fnOK_main3 sp0 stX 0 [] []
    ⟨fun _ => HeapInv.empty, rfl, rfl, by decide⟩ (by decide) (by decide) (by decide)
  subst hfuel
  have hs := spec_main3
  rcases hev : callBody GZ.cfg 200 sp0 GZ.mod main3Fd.params main3Fd.body [] stX with ⟨res, st'⟩
  rw [hev] at h hs
  cases res with
  | error e => simp [okOut] at hs
  | ok v =>
    simp only [okOut, beq_iff_eq] at hs
    obtain ⟨K, hK⟩ := h
    refine ⟨K, fun quantum hq vfuel => ?_⟩
    obtain ⟨s', hrun, hst, hmp, hcalls, hstk⟩ := hK quantum hq vfuel
    exact ⟨s', hrun, by rw [hst]; exact hs, hmp, hcalls⟩
end Example15

/-! ## 16. `for x in a..b { … }` with `break` / `continue`

The VM's iterator protocol: `code(a); code(b); Into_Range; Clone; Into_Iter; SetVar it;
head: GetVar it; Iter_Advance; SetVar x; JumpIfFalse after; body; update: Jump head; after:`.
`Into_Iter` allocates an iterator over the *snapshot* of the elements in the VM's iterator table;
the statements of this section therefore thread a memory `Mem` = cells + iterator table, and the
contexts (`G.OK'`, `G.fr = true`) allow `for` loops in every function. -/

/-- **What `compileStmt` emits for `for x in a..b { … }`** (fragment `Frag.okFS true`: bounds in
`Frag.okGE`, body statements of the fragment — nested `for` loops included — with `break` and
`continue`): the three labels are generated first, then a scope is pushed, the bounds are compiled
left to right, the iterator variable `$iter_x` and the loop variable are declared in that scope,
and the body is compiled *without* a scope of its own (`cgS … (.forS …)`). -/
theorem compileFor_frag (fuel : Nat) (sp : Span) (name : String) (vty : Ty) (rsp : Span) (a b : Expr) (incl : Bool)
    (bsp : Span) (bty : Ty) (stmts : List Stmt) (cs : CState) (il rt : Bool)
    (hrt : rt = true → cs.tryDepth = 0) (hil : il = true → ∃ b c rest, cs.loops = (b, c, cs.tryDepth) :: rest)
    (hs : Frag.okFS true il rt (.forS sp name vty (.range rsp a b incl) (.mk bsp bty stmts none)) = true)
    (hd : Frag.cdS (.forS sp name vty (.range rsp a b incl) (.mk bsp bty stmts none)) ≤ fuel)
    (hws : Frag.wsGS cs.currModule cs.currFn (φOf cs) (loopsOf cs.loops)
      (.forS sp name vty (.range rsp a b incl) (.mk bsp bty stmts none)) (envOf cs) = true) :
    let mod := cs.currModule
    let φ := φOf cs
    let env := envOf cs
    let head := freshLabel mod env.lm "loop_head"
    let upd := freshLabel mod head.2 "loop_update"
    let after := freshLabel mod upd.2 "loop_end"
    let ca := cgE mod (ρS env.scopes) φ a after.2
    let cb := cgE mod (ρS env.scopes) φ b ca.2
    let fit := freshVar mod { env with scopes := [] :: env.scopes, lm := cb.2 } ("$iter_" ++ name)
    let fhv := freshVar mod fit.2 name
    let cbody := cgSs mod cs.currFn φ ((after.1, upd.1) :: loopsOf cs.loops) stmts fhv.2
    (compileStmt fuel (.forS sp name vty (.range rsp a b incl) (.mk bsp bty stmts none))).run cs =
      ((), updS cs cs.loops
        (ca.1 ++ cb.1 ++ [(.intoRange incl, rsp), (.clone, sp), (.intoIter, sp), (.setVar fit.1, sp), (.label head.1, sp),
            (.getVar fit.1, sp), (.iterAdvance, sp), (.setVar fhv.1, sp), (.jumpIfFalse after.1, sp)] ++ cbody.1 ++
          [(.label upd.1, sp), (.jump head.1, sp), (.label after.1, sp)])
        { cbody.2 with scopes := cbody.2.scopes.tail }) := by
  have h := (compile_gstmt fuel).1 _ cs cs.loops il rt hrt hil hs hd [] (envOf cs) hws
  rw [updS_self, List.nil_append, cgS] at h
  exact h

/-- **The specification's `for`** (`forRun`): the bounds are evaluated once, left to right, the
elements of the range are computed once (`rangeElems`: ascending when `a < b`, otherwise
descending; the snapshot); every round runs in a fresh scope that binds the loop variable;
`break` ends the loop, `continue` and a completed body start the next round. -/
theorem for_spec (cfg : Cfg) (fuel : Nat) (sp : Span) (name : String) (vty : Ty) (rsp : Span) (a b : Expr) (incl : Bool)
    (body : Block) (st : St) :
    evalStmt cfg (fuel + 2) (.forS sp name vty (.range rsp a b incl) body) st =
      match evalExpr cfg fuel a st with
      | (.ok x, st1) =>
        (match evalExpr cfg fuel b st1 with
          | (.ok y, st2) =>
            (match x, y with
              | .int x, .int y =>
                if (x.toInt - y.toInt).natAbs > 100000 then (.error (.unsupported "huge range"), st2)
                else forRun cfg (fuel + 1) name ((rangeElems x y incl).map Val.int) body st2
              | _, _ => (.error (.unsupported "range bounds"), st2))
          | (.error c, st2) => (.error c, st2))
      | (.error c, st1) => (.error c, st1) := by
  rw [evalStmt_forS, evalExpr_range]
  rcases evalExpr cfg fuel a st with ⟨r1, st1⟩
  cases r1 with
  | error c => rfl
  | ok x =>
    simp only []
    rcases evalExpr cfg fuel b st1 with ⟨r2, st2⟩
    cases r2 with
    | error c => rfl
    | ok y =>
      cases x <;> cases y <;> try rfl
      rename_i x y
      simp only [iterElems_range]
      by_cases h : (x.toInt - y.toInt).natAbs > 100000
      · simp only [h, if_true]
      · simp only [h, if_false]

/-- One round of the specification's loop over a block of statements. -/
theorem for_round_spec (cfg : Cfg) (g : Nat) (name : String) (x : Val) (xs : List Val) (bsp : Span) (bty : Ty)
    (stmts : List Stmt) (s : St) :
    forRun cfg (g + 2) name (x :: xs) (.mk bsp bty stmts none) s =
      match evalStmts cfg g stmts (roundSt name x s) with
      | (.error .brk, s1) => (.ok (), { s1 with scopes := s1.scopes.tail })
      | (.error .cont, s1) => forRun cfg (g + 1) name xs (.mk bsp bty stmts none) { s1 with scopes := s1.scopes.tail }
      | (.ok _, s1) => forRun cfg (g + 1) name xs (.mk bsp bty stmts none) { s1 with scopes := s1.scopes.tail }
      | (.error c, s1) => (.error c, { s1 with scopes := s1.scopes.tail }) :=
  forRun_cons_stmts cfg g name x xs bsp bty stmts s

/-- **`Into_Iter` on a range**: a new iterator `id = nextIter` over the snapshot of the elements, the
closure `1000000 + id` pushed. -/
theorem intoIter_step (code : Code) (lim : Limits) (s : VMState) (fn : String) (ip : Nat) (rest : List Frame)
    (mp : Int) (k : Nat) (stk : List SVal) (mem : List (Int × Val)) (out : World) (c : List (RInstr × Span))
    (hf : findCode code fn = some c) (sp : Span) (incl : Bool) (a b : I64) (o : Option Org) (it : ItSt)
    (hx : c[ip]? = some (.intoIter, sp)) (hsmall : ¬ (a.toInt - b.toInt).natAbs > 100000) :
    exec1 code lim (mkS (withIt s it) (⟨fn, ip⟩ :: rest) mp k (⟨.range a b incl, o⟩ :: stk) mem out) =
      .next (mkS (withIt s ⟨(it.next, (rangeElems a b incl).map Val.int) :: it.iters, it.next + 1⟩)
        (⟨fn, ip + 1⟩ :: rest) mp (k + 1) (⟨.closure (1000000 + it.next), none⟩ :: stk) mem out) :=
  mkS_intoIter_range code lim s fn ip rest mp k stk mem out c hf sp incl a b o it hx hsmall

/-- **`Iter_Advance`**: with an element left it is pushed above `true` and removed from the iterator;
an exhausted iterator pushes `null` above `false`. -/
theorem iterAdvance_step (code : Code) (lim : Limits) (s : VMState) (fn : String) (ip : Nat) (rest : List Frame)
    (mp : Int) (k : Nat) (stk : List SVal) (mem : List (Int × Val)) (out : World) (c : List (RInstr × Span))
    (hf : findCode code fn = some c) (sp : Span) (o : Option Org) (it : ItSt) (id : Nat)
    (hx : c[ip]? = some (.iterAdvance, sp)) :
    (∀ x xs, it.iters.lookup id = some (x :: xs) →
      exec1 code lim (mkS (withIt s it) (⟨fn, ip⟩ :: rest) mp k (⟨.closure (1000000 + id), o⟩ :: stk) mem out) =
        .next (mkS (withIt s ⟨(id, xs) :: it.iters.filter (·.1 != id), it.next⟩)
          (⟨fn, ip + 1⟩ :: rest) mp (k + 1) (⟨x, none⟩ :: ⟨.bool true, none⟩ :: stk) mem out)) ∧
    (it.iters.lookup id = some [] →
      exec1 code lim (mkS (withIt s it) (⟨fn, ip⟩ :: rest) mp k (⟨.closure (1000000 + id), o⟩ :: stk) mem out) =
        .next (mkS (withIt s it) (⟨fn, ip + 1⟩ :: rest) mp (k + 1) (⟨.null, none⟩ :: ⟨.bool false, none⟩ :: stk) mem out)) :=
  ⟨fun x xs hl => mkS_iterAdvance_cons code lim s fn ip rest mp k stk mem out c hf sp o it id x xs hx hl,
   fun hl => mkS_iterAdvance_nil code lim s fn ip rest mp k stk mem out c hf sp o it id hx hl⟩

/-- **`for` loops are simulated** (`Sim.SimGS` on a memory with its iterator table). The outcome of
`evalStmt` on the loop (`for_spec`) is the VM's: normal completion (the range exhausted, or a
`break`) ↦ the VM is behind the loop with the operand stack of the start, the relation holds for
the scopes of the start, iterators that existed before are untouched (`MemLe … .it`: `ItLe`);
`return`/fatal/exception inside a round ↦ as for `loop`; every round's body ran in the
specification's fresh scope with the loop variable bound, and the iterator's cell — an untracked
variable of the activation — kept its value through the body (calls, nested loops included). -/
theorem for_correct (G : GCtx) (hG : G.OK') (fuel : Nat) (A : Act) (hA : A.OK G)
    (loops : List (String × String)) (lscopes : CScopes) (d : Nat) (sp : Span) (name : String) (vty : Ty) (rsp : Span)
    (a b : Expr) (incl : Bool) (bsp : Span) (bty : Ty) (stmts : List Stmt) (env : CEnv) (spec : St)
    (ip : Nat) (stk : List SVal) (mem : Mem)
    (stmt : Stmt) (hstmt : stmt = .forS sp name vty (.range rsp a b incl) (.mk bsp bty stmts none))
    (hs : Frag.okFS G.fr (!loops.isEmpty) A.rt stmt = true) (hT : ∀ x ∈ Frag.identsGS stmt, x ∈ A.T)
    (hws : Frag.wsGS G.mod A.src A.φ loops stmt env = true)
    (hN : ∀ m ∈ codeVars (cgS G.mod A.src A.φ loops stmt env).1, A.N m)
    (hpl : Placed A.lab A.σ A.c ip (cgS G.mod A.src A.φ loops stmt env).1)
    (hd : 1 ≤ d) (hls : lscopes = env.scopes.drop d)
    (hrel : Sim.GRel G A env.scopes env.vm spec.scopes mem) (hsp : SpecOK G A.mp spec) :
    Sim.SimGS G A loops lscopes d ip (nI (cgS G.mod A.src A.φ loops stmt env).1) stk mem
      (Sim.GRel G A (cgS G.mod A.src A.φ loops stmt env).2.scopes (cgS G.mod A.src A.φ loops stmt env).2.vm) spec
      (evalStmt G.cfg fuel stmt spec) := by
  subst hstmt
  exact (allP G hG fuel).pgf A hA loops lscopes d sp name vty rsp a b incl bsp bty stmts env spec ip stk mem hs hT hws hN hpl
    hd hls hrel hsp

/-- **Statement sequences of the fragment with `for` loops** (`Frag.okFSs G.fr`), as `gstmts_correct`. -/
theorem fstmts_correct (G : GCtx) (hG : G.OK') (fuel : Nat) (A : Act) (hA : A.OK G)
    (loops : List (String × String)) (lscopes : CScopes) (d : Nat) (ss : List Stmt) (env : CEnv) (spec : St)
    (ip : Nat) (stk : List SVal) (mem : Mem)
    (hs : Frag.okFSs G.fr (!loops.isEmpty) A.rt ss = true) (hT : ∀ x ∈ Frag.identsGSs ss, x ∈ A.T)
    (hws : Frag.wsGSs G.mod A.src A.φ loops ss env = true)
    (hN : ∀ m ∈ codeVars (cgSs G.mod A.src A.φ loops ss env).1, A.N m)
    (hpl : Placed A.lab A.σ A.c ip (cgSs G.mod A.src A.φ loops ss env).1)
    (hd : 1 ≤ d) (hls : lscopes = env.scopes.drop d)
    (hrel : Sim.GRel G A env.scopes env.vm spec.scopes mem) (hsp : SpecOK G A.mp spec) :
    Sim.SimGS G A loops lscopes d ip (nI (cgSs G.mod A.src A.φ loops ss env).1) stk mem
      (Sim.GRel G A (cgSs G.mod A.src A.φ loops ss env).2.scopes (cgSs G.mod A.src A.φ loops ss env).2.vm) spec
      (evalStmts G.cfg fuel ss spec) :=
  (allP G hG fuel).pgss A hA loops lscopes d ss env spec ip stk mem hs hT hws hN hpl hd hls hrel hsp

/-- `fn_compiled_ok` for functions with `for` loops. -/
theorem fn_compiled_okF (G : GCtx) (fd : FnDef) (stmts : List Stmt) (e : Expr) (φ : String → Option String)
    (scopes0 : CScopes) (vm0 : List (String × Nat)) (lm0 : LM) (T : List String) (r : NCode)
    (hbody : ∃ bsp bty, fd.body = .mk bsp bty stmts (some e))
    (hparams : ∀ p ∈ fd.params, p.isSingleton = false)
    (hrel : relocate (cgFn G.mod φ fd stmts (some e) scopes0 vm0 lm0) = some r)
    (hcode : findCode G.code (mangleFnName G.mod fd.name) = some (renameVars r))
    (hframe : (fnParts G.mod φ fd stmts (some e) scopes0 vm0 lm0).envE.nv ≤ G.F)
    (okS : Frag.okFSs G.fr false true stmts = true) (okE : Frag.okE G.fr e = true)
    (wsS : Frag.wsGSs G.mod fd.name φ [] stmts (fnParts G.mod φ fd stmts (some e) scopes0 vm0 lm0).envB = true)
    (wsE : Frag.wsGE (fnParts G.mod φ fd stmts (some e) scopes0 vm0 lm0).envS.scopes φ e = true)
    (tParams : ∀ p ∈ fd.params, p.name ∈ T) (tIdents : ∀ x ∈ Frag.identsGSs stmts, x ∈ T)
    (tVars : ∀ x ∈ Frag.namesGE e, x ∈ T) (key : cleanupKey G.mod fd.name ∉ T)
    (outer : ∀ sc ∈ scopes0, ∀ x ∈ T, sc.lookup x = none) (phi : PhiOK G φ) :
    FnOK G fd.name fd
      ⟨renameVars r, slotFn r, labelIndex (cgFn G.mod φ fd stmts (some e) scopes0 vm0 lm0), (· ∈ varNames r), T, φ,
        scopes0, vm0, lm0⟩ stmts e :=
  FnOK.of_compiled G fd stmts e φ scopes0 vm0 lm0 T r hbody hparams hrel hcode hframe okS okE wsS wsE
    tParams tIdents tVars key outer phi

/-- `fn_void_compiled_ok` for functions with `for` loops. -/
theorem fn_void_compiled_okF (G : GCtx) (fd : FnDef) (stmts : List Stmt) (φ : String → Option String)
    (scopes0 : CScopes) (vm0 : List (String × Nat)) (lm0 : LM) (T : List String) (r : NCode)
    (hbody : ∃ bsp bty, fd.body = .mk bsp bty stmts none)
    (hparams : ∀ p ∈ fd.params, p.isSingleton = false)
    (hrel : relocate (cgFn G.mod φ fd stmts none scopes0 vm0 lm0) = some r)
    (hcode : findCode G.code (mangleFnName G.mod fd.name) = some (renameVars r))
    (hframe : (fnParts G.mod φ fd stmts none scopes0 vm0 lm0).envE.nv ≤ G.F)
    (okS : Frag.okFSs G.fr false true stmts = true)
    (wsS : Frag.wsGSs G.mod fd.name φ [] stmts (fnParts G.mod φ fd stmts none scopes0 vm0 lm0).envB = true)
    (tParams : ∀ p ∈ fd.params, p.name ∈ T) (tIdents : ∀ x ∈ Frag.identsGSs stmts, x ∈ T)
    (key : cleanupKey G.mod fd.name ∉ T)
    (outer : ∀ sc ∈ scopes0, ∀ x ∈ T, sc.lookup x = none) (phi : PhiOK G φ) :
    FnVoidOK G fd.name fd
      ⟨renameVars r, slotFn r, labelIndex (cgFn G.mod φ fd stmts none scopes0 vm0 lm0), (· ∈ varNames r), T, φ,
        scopes0, vm0, lm0⟩ stmts :=
  FnVoidOK.of_compiled G fd stmts φ scopes0 vm0 lm0 T r hbody hparams hrel hcode hframe okS wsS
    tParams tIdents key outer phi

/-- **Calls of functions with `for` loops** (`Sim.SimCall`: `call_correct` on a memory with its
iterator table; the callee's iterators are left in the table, exhausted or abandoned). The tracked
identifiers must not contain an iterator name `$iter_y` of a tracked `y`. The arguments are on the stack with
whatever origins they carry; the result carries none outside the extended fragment (`OrgOK`). -/
theorem call_correctF (G : GCtx) (hG : G.OK') (fuel : Nat) (g : String) (fd : FnDef) (I : FnInfo)
    (stmts : List Stmt) (e : Expr) (hK : G.K g) (hfind : findFn G.cfg.prog G.mod g = some fd)
    (hFn : FnOK G g fd I stmts e) (hgh : G.fr = true → ∀ y ∈ I.T, ("$iter_" ++ y) ∉ I.T)
    (sp : Span) (svals : List SVal) (st : St) (frames : List Frame) (mp : Int)
    (stk : List SVal) (mem : Mem) (hsp : SpecOK G mp st) (hmp : 0 ≤ mp) :
    Sim.SimCall G (mangleFnName G.mod g) frames mp svals stk mem st
      (callBody G.cfg fuel sp G.mod fd.params fd.body (svals.map (·.v)) st) :=
  (allP G hG fuel).pcall g fd I stmts e hK hfind hFn hgh sp svals st frames mp stk mem hsp hmp

/-- **`Core.Run` on an entry function with `for` loops**: as `entry_run`, from a state with any
iterator table. -/
theorem entry_runF (G : GCtx) (hG : G.OK') (fuel : Nat) (g : String) (fd : FnDef) (I : FnInfo)
    (stmts : List Stmt) (hFn : FnVoidOK G g fd I stmts) (hgh : G.fr = true → ∀ y ∈ I.T, ("$iter_" ++ y) ∉ I.T)
    (sp : Span) (st : St) (mp : Int) (stk : List SVal)
    (mem : Mem) (hsp : SpecOK G mp st) (hmp : 0 ≤ mp)
    (hstack : stk.length ≤ G.lim.stack) (hcallLim : 1 ≤ G.lim.callStack) :
    match callBody G.cfg fuel sp G.mod fd.params fd.body [] st with
    | (.ok v, st') =>
      ∃ K, ∀ quantum, K ≤ quantum → ∀ vfuel, ∃ s',
        run G.code G.lim quantum none (vfuel + 1) (mkSI G.s [⟨mangleFnName G.mod g, 0⟩] mp 0 stk mem st.world) = .ok s' ∧
        s'.st = { G.s.st with out := st'.out, heap := st'.heap } ∧ s'.mp = mp ∧ s'.calls = [] ∧
        (s'.stack = stk ∨ ∃ o, OrgOK G.fr o ∧ s'.stack = ⟨v, o⟩ :: stk)
    | (.error (.fatal kd m fsp), st') =>
      kd ≠ "StackOverFlow" → ∃ K, ∀ quantum, K ≤ quantum → ∀ vfuel, ∃ s',
        run G.code G.lim quantum none (vfuel + 1) (mkSI G.s [⟨mangleFnName G.mod g, 0⟩] mp 0 stk mem st.world) =
          .fatal kd m fsp s' ∧ s'.st = { G.s.st with out := st'.out, heap := st'.heap }
    | (.error (.throw msg tsp), st') =>
      G.s.handlers = [] → ∃ K, ∀ quantum, K ≤ quantum → ∀ vfuel, ∃ s',
        run G.code G.lim quantum none (vfuel + 1) (mkSI G.s [⟨mangleFnName G.mod g, 0⟩] mp 0 stk mem st.world) =
          .fatal "UncaughtThrow" msg tsp s' ∧ s'.st = { G.s.st with out := st'.out, heap := st'.heap }
    | _ => True :=
  Sim.entry_run G hG fuel g fd I stmts hFn hgh sp st mp stk mem hsp hmp hstack hcallLim

section Example16
private def gfor (x : String) (a b : Expr) (ss : List Stmt) : Stmt :=
  .forS sp0 x .int (.range sp0 a b false) (.mk sp0 .null ss none)

/-- `let acc = 0; for i in 0..n { if i == 3 { continue; } if i > 6 { break; } acc += i; }` -/
def sumToStmts : List Stmt :=
  [ .letS sp0 "acc" .int false .int (.int sp0 0),
    gfor "i" (.int sp0 0) (gv "n")
      [ gif (.infix sp0 .bool .eq (gv "i") (.int sp0 3)) [.cont sp0],
        gif (.infix sp0 .bool .gt (gv "i") (.int sp0 6)) [.brk sp0],
        gasg .add "acc" (gv "i") ] ]
/-- `fn sumTo(n: int) -> int { …; acc }` -/
def sumToFd : FnDef := gfn "sumTo" ["n"] .int sumToStmts (some (gv "acc"))
/-- `let c = 0; for i in 0..n { for j in i..n { c += sumTo(j); } }`: nested loops (the inner range
depends on the outer variable), a call — with a loop of its own — in the inner body. -/
def gridStmts : List Stmt :=
  [ .letS sp0 "c" .int false .int (.int sp0 0),
    gfor "i" (.int sp0 0) (gv "n") [ gfor "j" (gv "i") (gv "n") [ gasg .add "c" (gcall "sumTo" [gv "j"]) ] ] ]
/-- `fn grid(n: int) -> int { …; c }` -/
def gridFd : FnDef := gfn "grid" ["n"] .int gridStmts (some (gv "c"))
/-- `fn main() { println(sumTo(10)); println(grid(3)); for k in 3..0 { println(k); } }`: the last range
is descending. -/
def main4Stmts : List Stmt :=
  [ gprint [gcall "sumTo" [.int sp0 10]], gprint [gcall "grid" [.int sp0 3]],
    gfor "k" (.int sp0 3) (.int sp0 0) [gprint [gv "k"]] ]
def main4Fd : FnDef := gfn "main" [] .null main4Stmts none
def progW : Program :=
  [{ name := "main", imports := [], singletons := [], globals := [], nImpls := 0, fns := [sumToFd, gridFd, main4Fd] }]

/-- The whole program on the models themselves: the specification … -/
example : (match runProgram { prog := progW } 200 with | .ok out _ => out | _ => "?") = "18\n3\n3\n2\n1\n" := by
  decide +kernel
/-- … and the VM, which ends with a clean core. -/
example : (match compile progW "main" 100 with
    | .ok c => (match runMain c {} 50 20000 with
      | .ok s => (s.st.out, s.stack.length, s.mp, s.calls.length) | _ => ("?", 0, 0, 0))
    | .error e => (e, 0, 0, 0)) = ("18\n3\n3\n2\n1\n", 0, 0, 0) := by
  decide +kernel

def φW : String → Option String := fun n =>
  if n = "sumTo" then some "@main.sumTo" else if n = "grid" then some "@main.grid" else none
def symSumTo : SCode := cgFn "main" φW sumToFd sumToStmts (some (gv "acc")) [[]] [] []
def symGrid : SCode := cgFn "main" φW gridFd gridStmts (some (gv "c")) [[]] [] []
def symMain4 : SCode := cgFn "main" φW main4Fd main4Stmts none [[]] [] []
def codeW : Code := [⟨"@main.sumTo", renameVars (relG symSumTo)⟩, ⟨"@main.grid", renameVars (relG symGrid)⟩,
  ⟨"@main.main", renameVars (relG symMain4)⟩]

local instance (priority := high) : BEq PVal := ⟨pvalBeq⟩
/-- The real compiler produces `codeW` (kernel evaluation, instruction by instruction). -/
example : (match compile progW "main" 100 with
    | .ok c => (c.fns.filter fun f => f.name != "@main.@init").map (fun f => (f.name, f.code))
        == codeW.map (fun f => (f.name, f.code))
    | .error _ => false) = true := by decide +kernel

/-- The context: `for` loops allowed (`fr = true`), frames of at most 8 cells. -/
def GW : GCtx := ⟨{ prog := progW }, codeW, {}, "main", {}, fun g => g = "sumTo" ∨ g = "grid", 8, 0, true⟩

private theorem phiW : PhiOK GW φW := by
  intro name f h
  unfold φW at h
  split at h
  · rename_i hn; subst hn; cases h
    exact ⟨by decide +kernel, Or.inl rfl, sumToFd, rfl, rfl⟩
  · split at h
    · rename_i hn; subst hn; cases h
      exact ⟨by decide +kernel, Or.inr rfl, gridFd, rfl, rfl⟩
    · cases h

theorem fnOK_sumTo : FnOK GW "sumTo" sumToFd
    ⟨renameVars (relG symSumTo), slotFn (relG symSumTo), labelIndex symSumTo, (· ∈ varNames (relG symSumTo)),
      ["n", "acc", "i"], φW, [[]], [], []⟩ sumToStmts (gv "acc") :=
  fn_compiled_okF GW sumToFd sumToStmts (gv "acc") φW [[]] [] [] ["n", "acc", "i"] (relG symSumTo) ⟨sp0, .int, rfl⟩
    (by decide) (relocate_relG _ (by decide +kernel))
    (by
      have h : mangleFnName GW.mod sumToFd.name = "@main.sumTo" := by decide +kernel
      rw [h]; simp [findCode, codeW, GW])
    (by decide +kernel) (by decide +kernel) (by decide +kernel) (by decide +kernel)
    (by decide +kernel) (by decide +kernel) (by decide +kernel) (by decide +kernel) (by decide +kernel)
    (by decide +kernel) phiW

theorem fnOK_grid : FnOK GW "grid" gridFd
    ⟨renameVars (relG symGrid), slotFn (relG symGrid), labelIndex symGrid, (· ∈ varNames (relG symGrid)),
      ["n", "c", "i", "j", "sumTo"], φW, [[]], [], []⟩ gridStmts (gv "c") :=
  fn_compiled_okF GW gridFd gridStmts (gv "c") φW [[]] [] [] ["n", "c", "i", "j", "sumTo"] (relG symGrid) ⟨sp0, .int, rfl⟩
    (by decide) (relocate_relG _ (by decide +kernel))
    (by
      have h : mangleFnName GW.mod gridFd.name = "@main.grid" := by decide +kernel
      rw [h]; simp [findCode, codeW, GW])
    (by decide +kernel) (by decide +kernel) (by decide +kernel) (by decide +kernel)
    (by decide +kernel) (by decide +kernel) (by decide +kernel) (by decide +kernel) (by decide +kernel)
    (by decide +kernel) phiW

theorem gw_ok : GW.OK' := by
  refine ⟨?_, by decide, by decide, rfl, rfl, rfl⟩
  intro g fd hK hfind
  rcases hK with rfl | rfl
  · have h : findFn GW.cfg.prog GW.mod "sumTo" = some sumToFd := rfl
    rw [h] at hfind; cases hfind
    exact ⟨_, _, _, fnOK_sumTo, fun _ => by decide⟩
  · have h : findFn GW.cfg.prog GW.mod "grid" = some gridFd := rfl
    rw [h] at hfind; cases hfind
    exact ⟨_, _, _, fnOK_grid, fun _ => by decide⟩

theorem fnOK_main4 : FnVoidOK GW "main" main4Fd
    ⟨renameVars (relG symMain4), slotFn (relG symMain4), labelIndex symMain4, (· ∈ varNames (relG symMain4)),
      ["println", "sumTo", "grid", "k"], φW, [[]], [], []⟩ main4Stmts :=
  fn_void_compiled_okF GW main4Fd main4Stmts φW [[]] [] [] ["println", "sumTo", "grid", "k"] (relG symMain4)
    ⟨sp0, .null, rfl⟩ (by decide) (relocate_relG _ (by decide +kernel))
    (by
      have h : mangleFnName GW.mod main4Fd.name = "@main.main" := by decide +kernel
      rw [h]; simp [findCode, codeW, GW])
    (by decide +kernel) (by decide +kernel) (by decide +kernel) (by decide +kernel)
    (by decide +kernel) (by decide +kernel) (by decide +kernel) phiW

private theorem spec_main4 :
    okOut "18\n3\n3\n2\n1\n" (callBody GW.cfg 200 sp0 GW.mod main4Fd.params main4Fd.body [] stX) = true := by
  decide +kernel

/-- **The program through the theorems**: `run` on the compiled code, started on `@main.main` with an empty
iterator table, ends with `ok` and the specification's output. `sumTo(10)` skips `i = 3` with `continue`
and leaves the loop at `i = 7` with `break`; `grid(3)` runs two nested loops, the inner range starting at
the outer variable, calling `sumTo` — which allocates an iterator of its own each time — from the
inner body; `main` counts down `3..0`. Nine iterators are allocated in all; none disturbs another. -/
example : ∃ K, ∀ quantum, K ≤ quantum → ∀ vfuel, ∃ s',
    run codeW {} quantum none (vfuel + 1) { calls := [⟨"@main.main", 0⟩] } = .ok s' ∧
    s'.st.out = "18\n3\n3\n2\n1\n" ∧ s'.mp = 0 ∧ s'.calls = [] := by
  obtain ⟨fuel, hfuel⟩ : ∃ n : Nat, n = 200 := ⟨200, rfl⟩
  have h := entry_runF GW gw_ok fuel "main" main4Fd _ main4Stmts fnOK_main4 (fun _ => by decide) sp0 stX 0 []
    ⟨[], ⟨[], 0⟩⟩ ⟨fun _ => HeapInv.empty, rfl, rfl, by decide⟩ (by decide) (by decide) (by decide)
  subst hfuel
  have hs := spec_main4
  rcases hev : callBody GW.cfg 200 sp0 GW.mod main4Fd.params main4Fd.body [] stX with ⟨res, st'⟩
  rw [hev] at h hs
  cases res with
  | error e => simp [okOut] at hs
  | ok v =>
    simp only [okOut, beq_iff_eq] at hs
    obtain ⟨K, hK⟩ := h
    refine ⟨K, fun quantum hq vfuel => ?_⟩
    obtain ⟨s', hrun, hst, hmp, hcalls, hstk⟩ := hK quantum hq vfuel
    exact ⟨s', hrun, by rw [hst]; exact hs, hmp, hcalls⟩
end Example16

/-! ## 17. Lists: literals, `l[i]`, `l[i] = e`, `l[i] op= e`; sharing by reference

The VM's heap *is* the specification's heap (the `World` of the states: the same array of cells at
the same addresses), so the relation between list values is the identity on addresses: a list is
`.ref a` on both sides, two variables naming one list hold the same address `a`, and a write through
either is seen through the other because both sides update cell `a` in the same way.
`Index` pushes the element *with its origin* (`Org.listElem a n`); `Assign` writes through the origin of
the value below the top of the stack. Values that carry an origin arise only in the value positions of
statements (`Frag.okXE`: `let`, right-hand sides, operands of arithmetic), where `Sim.SimOE` — `Sim.SimGE`
with the origin left open — describes them. -/

/-- **What `compileExpr` emits for a list literal** whose elements are atoms: `Cloning_Push []`, then for
every element `code(x); Copy_Push 2; HostCall __internal_list_push` (`cgEls`). -/
theorem compileList_frag (fuel : Nat) (sp : Span) (ty : Ty) (xs : List Expr) (cs : CState)
    (hs : Frag.okGE (.list sp ty xs) = true) (hd : Frag.cdE (.list sp ty xs) ≤ fuel)
    (hws : Frag.wsGE cs.scopes (φOf cs) (.list sp ty xs) = true) :
    (compileExpr fuel (.list sp ty xs)).run cs =
      ((), updS cs cs.loops
        ([(.cloningPush .emptyList, sp)] ++ (cgEls cs.currModule (ρS cs.scopes) sp xs cs.labelMangle).1)
        { envOf cs with lm := (cgEls cs.currModule (ρS cs.scopes) sp xs cs.labelMangle).2 }) := by
  have h := compileExpr_gfrag fuel _ cs hs hd hws
  rwa [cgE] at h

/-- **What `compileExpr` emits for `l[i]`** (`Frag.okXE`): `code(l); code(i); Index`. -/
theorem compileIndex_frag (fuel : Nat) (sp : Span) (ty : Ty) (b i : Expr) (cs : CState)
    (hs : Frag.okXE (.index sp ty b i) = true) (hd : Frag.cdE (.index sp ty b i) ≤ fuel)
    (hws : Frag.wsGE cs.scopes (φOf cs) (.index sp ty b i) = true) :
    let cb := cgE cs.currModule (ρS cs.scopes) (φOf cs) b cs.labelMangle
    let ci := cgE cs.currModule (ρS cs.scopes) (φOf cs) i cb.2
    (compileExpr fuel (.index sp ty b i)).run cs =
      ((), updS cs cs.loops (cb.1 ++ ci.1 ++ [(.index, sp)]) { envOf cs with lm := ci.2 }) := by
  have h := compile_xexpr fuel _ cs hs hd cs.loops [] (envOf cs) hws
  rw [updS_self, List.nil_append, cgE] at h
  exact h

/-- **What `compileStmt` emits for `l[i] = e` and `l[i] op= e`**:
`code(l); code(i); Index; code(e); Assign`, resp. `code(l); code(i); Index; Dup; code(e); op; Assign`. -/
theorem compileIdxAssign_frag (fuel : Nat) (sp asp : Span) (op : Option InfixOp) (isp : Span) (ity : Ty) (b i r : Expr)
    (cs : CState) (fr il rt : Bool)
    (hrt : rt = true → cs.tryDepth = 0) (hil : il = true → ∃ b c rest, cs.loops = (b, c, cs.tryDepth) :: rest)
    (hs : Frag.okFS fr il rt (.exprS sp (.assign asp op (.index isp ity b i) r)) = true)
    (hd : Frag.cdS (.exprS sp (.assign asp op (.index isp ity b i) r)) ≤ fuel)
    (hws : Frag.wsGS cs.currModule cs.currFn (φOf cs) (loopsOf cs.loops)
      (.exprS sp (.assign asp op (.index isp ity b i) r)) (envOf cs) = true) :
    let cl := cgE cs.currModule (ρS cs.scopes) (φOf cs) (.index isp ity b i) cs.labelMangle
    let cr := cgE cs.currModule (ρS cs.scopes) (φOf cs) r cl.2
    (compileStmt fuel (.exprS sp (.assign asp op (.index isp ity b i) r))).run cs =
      ((), updS cs cs.loops (cl.1 ++ opPre op asp ++ cr.1 ++ opPost op asp ++ [(.assign, asp)])
        { envOf cs with lm := cr.2 }) := by
  have h := (compile_gstmt fuel).1 _ cs cs.loops il rt hrt hil hs hd [] (envOf cs) hws
  rw [updS_self, List.nil_append, cgS_idxAssign] at h
  exact h

/-- **The specification's `l[i]` on a list** (`indexVal`, = `value.IndexValue`): a negative index counts
from the end (`wrapIndex`); outside the list the fatal error `IndexOutOfBounds` at the span of the index
expression, with the (wrapped) index in the message. -/
theorem index_spec (a : Nat) (k : I64) (sp : Span) (st : St) (xs : List Val) (h : st.heap[a]? = some (.list xs)) :
    indexVal (.ref a) (.int k) sp st =
      match wrapIndex k xs.length with
      | some n => (.ok (xs.getD n .null), st)
      | none => (.error (.fatal "IndexOutOfBounds"
          s!"Index out of bounds: cannot index a list of length {xs.length} with {if k.toInt < 0 then k.toInt + xs.length else k.toInt}" sp), st) :=
  indexVal_list a k sp st xs h

theorem wrapIndex_lt (k : I64) (len n : Nat) (h : wrapIndex k len = some n) : n < len := by
  unfold wrapIndex at h
  simp only [] at h
  by_cases hk : k.toInt < 0
  · simp only [hk, if_true] at h
    split at h
    · cases h
    · have h' := Option.some.inj h; omega
  · simp only [hk, if_false] at h
    split at h
    · cases h
    · have h' := Option.some.inj h; omega

example : wrapIndex 1 3 = some 1 ∧ wrapIndex (-1) 3 = some 2 ∧ wrapIndex (-3) 3 = some 0 ∧ wrapIndex 3 3 = none ∧
    wrapIndex (-4) 3 = none := by decide

/-- **`Index` on the VM** is the specification's `indexVal` on the VM's heap; the value is pushed with the
slot it was read from (`idxOrg`: `Org.listElem a n` for a list, `Org.field a k` for an object). -/
theorem index_vm (code : Code) (lim : Limits) (s : VMState) (fn : String) (ip : Nat)
    (rest : List Frame) (mp : Int) (k : Nat) (stk : List SVal) (mem : List (Int × Val)) (out : World)
    (c : List (RInstr × Span)) (hf : findCode code fn = some c) (sp : Span) (bv iv : Val) (ob oi : Option Org)
    (hx : c[ip]? = some (.index, sp)) :
    exec1 code lim (mkS s (⟨fn, ip⟩ :: rest) mp k (⟨iv, oi⟩ :: ⟨bv, ob⟩ :: stk) mem out) =
      match (indexVal bv iv sp { s.st with heap := out.heap, out := out.out }).1 with
      | .ok v => .next (mkS s (⟨fn, ip + 1⟩ :: rest) mp (k + 1) (⟨v, idxOrg out.heap bv iv⟩ :: stk) mem out)
      | .error e => ctlToRes e (mkS s (⟨fn, ip⟩ :: rest) mp (k + 1) stk mem out) :=
  mkS_index code lim s fn ip rest mp k stk mem out c hf sp bv iv ob oi hx

/-- **`Assign` on the VM** writes the top of the stack through the origin of the value below it
(`assignHeap`: the list cell with element `n` replaced, resp. the object cell with the field replaced). -/
theorem assign_vm (code : Code) (lim : Limits) (s : VMState) (fn : String) (ip : Nat)
    (rest : List Frame) (mp : Int) (k : Nat) (stk : List SVal) (mem : List (Int × Val)) (out : World)
    (c : List (RInstr × Span)) (hf : findCode code fn = some c) (sp : Span) (org : Org) (heap' : Array Cell)
    (dv v : Val) (o : Option Org)
    (hx : c[ip]? = some (.assign, sp)) (hh : assignHeap out.heap org v = some heap') :
    exec1 code lim (mkS s (⟨fn, ip⟩ :: rest) mp k (⟨v, o⟩ :: ⟨dv, some org⟩ :: stk) mem out) =
      .next (mkS s (⟨fn, ip + 1⟩ :: rest) mp (k + 1) stk mem ⟨heap', out.out⟩) :=
  mkS_assign_org code lim s fn ip rest mp k stk mem out c hf sp org heap' dv v o hx hh

/-- **The specification's `l[i] = e`, `l[i] op= e`**: the slot is resolved first (`evalPlace`: `l`, then `i`,
then the bounds check — `IndexOutOfBounds` before the right-hand side runs), then the right-hand side
(for `op=`: the current element, the right-hand side, the operation), then the write. -/
theorem idxAssign_spec (cfg : Cfg) (fuel : Nat) (asp : Span) (op : Option InfixOp) (isp : Span) (ity : Ty)
    (b i r : Expr) (st : St) :
    evalExpr cfg (fuel + 2) (.assign asp op (.index isp ity b i) r) st =
      match evalExpr cfg fuel b st with
      | (.ok bv, st1) =>
        (match evalExpr cfg fuel i st1 with
          | (.ok iv, st2) =>
            (match placeOf bv iv isp st2 with
              | (.ok pl, st0) =>
                (match (match op with
                    | none => evalExpr cfg (fuel + 1) r st0
                    | some o =>
                      (match readPlace pl st0 with
                       | (.ok cur, st0') =>
                         (match evalExpr cfg (fuel + 1) r st0' with
                          | (.ok b, st1) => binOp o cur b asp st1
                          | (.error c, st1) => (.error c, st1))
                       | (.error c, st0') => (.error c, st0'))) with
                 | (.ok v, st2) =>
                   (match writePlace pl v st2 with
                    | (.ok _, st3) => (.ok .null, st3)
                    | (.error c, st3) => (.error c, st3))
                 | (.error c, st2) => (.error c, st2))
              | (.error c, st0) => (.error c, st0))
          | (.error c, st2) => (.error c, st2))
      | (.error c, st1) => (.error c, st1) := by
  rw [evalExpr_assign_gen, evalPlace_index]
  rcases evalExpr cfg fuel b st with ⟨r1, st1⟩
  cases r1 with
  | error c => rfl
  | ok bv =>
    simp only []
    rcases evalExpr cfg fuel i st1 with ⟨r2, st2⟩
    cases r2 <;> rfl

/-- **Sharing**: a write to element `n` of the list at address `a` — through whichever variable holds
`.ref a` — is what every later read of that address sees (`k` any index that wraps to `n`). -/
theorem write_read_shared (a n : Nat) (k : I64) (v : Val) (sp : Span) (st : St) (xs : List Val)
    (h : st.heap[a]? = some (.list xs)) (hk : wrapIndex k xs.length = some n) :
    ∃ st', writePlace { addr := a, idx := n } v st = (.ok (), st') ∧
      st' = { st with heap := st.heap.setIfInBounds a (.list (xs.set n v)) } ∧
      indexVal (.ref a) (.int k) sp st' = (.ok v, st') := by
  have hn := wrapIndex_lt k _ n hk
  have ha : a < st.heap.size := by
    rcases Nat.lt_or_ge a st.heap.size with h' | h'
    · exact h'
    · rw [Array.getElem?_eq_none h'] at h; cases h
  refine ⟨_, ?_, rfl, ?_⟩
  · unfold writePlace
    simp only [M_bind, readCell_run, h]
    rfl
  · have hc : ({ st with heap := st.heap.setIfInBounds a (.list (xs.set n v)) } : St).heap[a]? =
        some (.list (xs.set n v)) := by
      simp [ha]
    rw [indexVal_list a k sp _ _ hc, List.length_set, hk]
    simp only []
    congr 2
    rw [List.getD_eq_getElem?_getD, List.getElem?_set_self (by omega)]
    rfl

/-- **List literals are simulated**: the specification evaluates the elements left to right and allocates
a fresh cell (`evalExpr_list`); the VM builds the list in place on the same heap and ends with the same
reference on its stack. -/
theorem list_correct (G : GCtx) (hG : G.OK') (fuel : Nat) (A : Act) (hA : A.OK G) (sp : Span) (ty : Ty)
    (xs : List Expr) (st : St) (ip : Nat) (stk : List SVal) (mem : Mem) (lm : LM)
    (scopes : CScopes) (vm : List (String × Nat)) (e : Expr) (he : e = .list sp ty xs)
    (hs : Frag.okGE e = true) (hws : Frag.wsGE scopes A.φ e = true)
    (hT : ∀ x ∈ Frag.namesGE e, x ∈ A.T)
    (hpl : Placed A.lab A.σ A.c ip (cgE G.mod (ρS scopes) A.φ e lm).1)
    (hrel : StRel G.mod A.T A.N A.σ G.lim A.mp scopes vm st.scopes mem) (hsp : SpecOK G A.mp st) :
    Sim.SimGE G A ip (nI (cgE G.mod (ρS scopes) A.φ e lm).1) stk mem st (evalExpr G.cfg fuel e st) := by
  subst he
  exact (allP G hG fuel).pe A hA _ st ip stk mem lm scopes vm hs hws hT hpl hrel hsp

/-- **Element reads and arithmetic over them are simulated** (`Frag.okXE`, `Sim.SimOE`): the value of
`l[i]` — negative indices wrapped — or the fatal `IndexOutOfBounds` of the specification is the VM's, through
relocation, renaming and `Core.Run`; the heap is shared, the pushed value carries some origin. -/
theorem index_correct (G : GCtx) (hG : G.OK') (fuel : Nat) (A : Act) (hA : A.OK G)
    (e : Expr) (st : St) (ip : Nat) (stk : List SVal) (mem : Mem) (lm : LM)
    (scopes : CScopes) (vm : List (String × Nat))
    (hs : Frag.okXE e = true) (hws : Frag.wsGE scopes A.φ e = true)
    (hT : ∀ x ∈ Frag.namesGE e, x ∈ A.T)
    (hpl : Placed A.lab A.σ A.c ip (cgE G.mod (ρS scopes) A.φ e lm).1)
    (hrel : StRel G.mod A.T A.N A.σ G.lim A.mp scopes vm st.scopes mem) (hsp : SpecOK G A.mp st) :
    Sim.SimOE G A ip (nI (cgE G.mod (ρS scopes) A.φ e lm).1) stk mem st (evalExpr G.cfg fuel e st) :=
  px_all G fuel (fun m _ => (allP G hG m).pe) A hA e st ip stk mem lm scopes vm hs hws hT hpl hrel hsp

/-- **`l[i] = e` and `l[i] op= e` are simulated** (`Sim.SimGS`): the specification's outcome
(`idxAssign_spec`) — the updated heap, or `IndexOutOfBounds` from the bounds check, or whatever the
operands or the operation raise — is the VM's; the final heaps are equal (both are the `World` of the
final state), so every alias of the list sees the write (`write_read_shared`). The right-hand side
contains no call (finding V38 stays excluded). -/
theorem idxAssign_correct (G : GCtx) (hG : G.OK') (fuel : Nat) (A : Act) (hA : A.OK G)
    (loops : List (String × String)) (lscopes : CScopes) (d : Nat) (sp asp : Span) (op : Option InfixOp)
    (isp : Span) (ity : Ty) (b i r : Expr) (env : CEnv) (spec : St) (ip : Nat) (stk : List SVal) (mem : Mem)
    (stmt : Stmt) (hstmt : stmt = .exprS sp (.assign asp op (.index isp ity b i) r))
    (hs : Frag.okFS G.fr (!loops.isEmpty) A.rt stmt = true) (hT : ∀ x ∈ Frag.identsGS stmt, x ∈ A.T)
    (hws : Frag.wsGS G.mod A.src A.φ loops stmt env = true)
    (hN : ∀ m ∈ codeVars (cgS G.mod A.src A.φ loops stmt env).1, A.N m)
    (hpl : Placed A.lab A.σ A.c ip (cgS G.mod A.src A.φ loops stmt env).1)
    (hd : 1 ≤ d) (hls : lscopes = env.scopes.drop d)
    (hrel : Sim.GRel G A env.scopes env.vm spec.scopes mem) (hsp : SpecOK G A.mp spec) :
    Sim.SimGS G A loops lscopes d ip (nI (cgS G.mod A.src A.φ loops stmt env).1) stk mem
      (Sim.GRel G A (cgS G.mod A.src A.φ loops stmt env).2.scopes (cgS G.mod A.src A.φ loops stmt env).2.vm) spec
      (evalStmt G.cfg fuel stmt spec) := by
  subst hstmt
  exact (allP G hG fuel).pgs A hA loops lscopes d _ env spec ip stk mem hs hT hws hN hpl hd hls hrel hsp

section Example17
private def spIdx : Span := ⟨12, 11, 12, 15⟩
private def tyL : Ty := .list .int
private def gl (x : String) : Expr := .ident sp0 tyL x false false false
private def gidx (l : String) (i : Expr) : Expr := .index sp0 .int (gl l) i
private def gset (op : Option InfixOp) (l : String) (i : Expr) (e : Expr) : Stmt :=
  .exprS sp0 (.assign sp0 op (gidx l i) e)

/-- `let l = [n, 2, 3]; let m = l; m[0] = 10; l[-1] += 4; for i in 0..3 { m[i] = l[i] * 2; }
let s = l[0] + m[1]; let t = s + l[2];`: `m` is an alias of `l`. -/
def buildStmts : List Stmt :=
  [ .letS sp0 "l" tyL false tyL (.list sp0 tyL [gv "n", .int sp0 2, .int sp0 3]),
    .letS sp0 "m" tyL false tyL (gl "l"),
    gset none "m" (.int sp0 0) (.int sp0 10),
    gset (some .add) "l" (.int sp0 (-1)) (.int sp0 4),
    gfor "i" (.int sp0 0) (.int sp0 3) [ gset none "m" (gv "i") (.infix sp0 .int .mul (gidx "l" (gv "i")) (.int sp0 2)) ],
    .letS sp0 "s" .int false .int (.infix sp0 .int .add (gidx "l" (.int sp0 0)) (gidx "m" (.int sp0 1))),
    .letS sp0 "t" .int false .int (.infix sp0 .int .add (gv "s") (gidx "l" (.int sp0 2))) ]
/-- `fn build(n: int) -> int { …; t }` -/
def buildFd : FnDef := gfn "build" ["n"] .int buildStmts (some (gv "t"))
/-- `fn at(k: int) -> int { let l = [1, 2]; let x = l[k]; x }` -/
def atStmts : List Stmt :=
  [ .letS sp0 "l" tyL false tyL (.list sp0 tyL [.int sp0 1, .int sp0 2]),
    .letS sp0 "x" .int false .int (.index spIdx .int (gl "l") (gv "k")) ]
def atFd : FnDef := gfn "at" ["k"] .int atStmts (some (gv "x"))
/-- `fn main() { println(build(1)); println(at(-2)); println(at(2)); }`: the last call fails. -/
def main5Stmts : List Stmt :=
  [ gprint [gcall "build" [.int sp0 1]], gprint [gcall "at" [.int sp0 (-2)]], gprint [gcall "at" [.int sp0 2]] ]
def main5Fd : FnDef := gfn "main" [] .null main5Stmts none
def progL : Program :=
  [{ name := "main", imports := [], singletons := [], globals := [], nImpls := 0, fns := [buildFd, atFd, main5Fd] }]

private def fatalOut : Hms.Core.Outcome → String × String × String × Nat
  | .fatal kd m sp out _ => (out, kd, m, sp.sl)
  | .ok out _ => (out, "ok", "", 0)
  | _ => ("?", "", "", 0)

/-- The whole program on the models themselves: the specification … -/
example : fatalOut (runProgram { prog := progL } 200) =
    ("38\n1\n", "IndexOutOfBounds", "Index out of bounds: cannot index a list of length 2 with 2", 12) := by
  decide +kernel
/-- … and the VM. -/
example : (match compile progL "main" 100 with
    | .ok c => (match runMain c {} 50 20000 with
      | .fatal kd m sp s => (s.st.out, kd, m, sp.sl) | _ => ("?", "", "", 0))
    | .error e => (e, "", "", 0)) =
    ("38\n1\n", "IndexOutOfBounds", "Index out of bounds: cannot index a list of length 2 with 2", 12) := by
  decide +kernel
def φL : String → Option String := fun n =>
  if n = "build" then some "@main.build" else if n = "at" then some "@main.at" else none
def symBuild : SCode := cgFn "main" φL buildFd buildStmts (some (gv "t")) [[]] [] []
def symAt : SCode := cgFn "main" φL atFd atStmts (some (gv "x")) [[]] [] []
def symMain5 : SCode := cgFn "main" φL main5Fd main5Stmts none [[]] [] []
def codeL17 : Code := [⟨"@main.build", renameVars (relG symBuild)⟩, ⟨"@main.at", renameVars (relG symAt)⟩,
  ⟨"@main.main", renameVars (relG symMain5)⟩]

local instance (priority := high) : BEq PVal := ⟨pvalBeq⟩
/-- The real compiler produces `codeL17` (kernel evaluation, instruction by instruction). -/
example : (match compile progL "main" 100 with
    | .ok c => (c.fns.filter fun f => f.name != "@main.@init").map (fun f => (f.name, f.code))
        == codeL17.map (fun f => (f.name, f.code))
    | .error _ => false) = true := by decide +kernel

/-- The context: `for` loops allowed, frames of at most 12 cells. -/
def GL : GCtx := ⟨{ prog := progL }, codeL17, {}, "main", {}, fun g => g = "build" ∨ g = "at", 12, 0, true⟩

private theorem phiL : PhiOK GL φL := by
  intro name f h
  unfold φL at h
  split at h
  · rename_i hn; subst hn; cases h
    exact ⟨by decide +kernel, Or.inl rfl, buildFd, rfl, rfl⟩
  · split at h
    · rename_i hn; subst hn; cases h
      exact ⟨by decide +kernel, Or.inr rfl, atFd, rfl, rfl⟩
    · cases h

theorem fnOK_build : FnOK GL "build" buildFd
    ⟨renameVars (relG symBuild), slotFn (relG symBuild), labelIndex symBuild, (· ∈ varNames (relG symBuild)),
      ["n", "l", "m", "i", "s", "t"], φL, [[]], [], []⟩ buildStmts (gv "t") :=
  fn_compiled_okF GL buildFd buildStmts (gv "t") φL [[]] [] [] ["n", "l", "m", "i", "s", "t"] (relG symBuild)
    ⟨sp0, .int, rfl⟩
    (by decide) (relocate_relG _ (by decide +kernel))
    (by
      have h : mangleFnName GL.mod buildFd.name = "@main.build" := by decide +kernel
      rw [h]; simp [findCode, codeL17, GL])
    (by decide +kernel) (by decide +kernel) (by decide +kernel) (by decide +kernel)
    (by decide +kernel) (by decide +kernel) (by decide +kernel) (by decide +kernel) (by decide +kernel)
    (by decide +kernel) phiL

theorem fnOK_at : FnOK GL "at" atFd
    ⟨renameVars (relG symAt), slotFn (relG symAt), labelIndex symAt, (· ∈ varNames (relG symAt)),
      ["k", "l", "x"], φL, [[]], [], []⟩ atStmts (gv "x") :=
  fn_compiled_okF GL atFd atStmts (gv "x") φL [[]] [] [] ["k", "l", "x"] (relG symAt) ⟨sp0, .int, rfl⟩
    (by decide) (relocate_relG _ (by decide +kernel))
    (by
      have h : mangleFnName GL.mod atFd.name = "@main.at" := by decide +kernel
      rw [h]; simp [findCode, codeL17, GL])
    (by decide +kernel) (by decide +kernel) (by decide +kernel) (by decide +kernel)
    (by decide +kernel) (by decide +kernel) (by decide +kernel) (by decide +kernel) (by decide +kernel)
    (by decide +kernel) phiL

theorem gl_ok : GL.OK' := by
  refine ⟨?_, by decide, by decide, rfl, rfl, rfl⟩
  intro g fd hK hfind
  rcases hK with rfl | rfl
  · have h : findFn GL.cfg.prog GL.mod "build" = some buildFd := rfl
    rw [h] at hfind; cases hfind
    exact ⟨_, _, _, fnOK_build, fun _ => by decide⟩
  · have h : findFn GL.cfg.prog GL.mod "at" = some atFd := rfl
    rw [h] at hfind; cases hfind
    exact ⟨_, _, _, fnOK_at, fun _ => by decide⟩

theorem fnOK_main5 : FnVoidOK GL "main" main5Fd
    ⟨renameVars (relG symMain5), slotFn (relG symMain5), labelIndex symMain5, (· ∈ varNames (relG symMain5)),
      ["println", "build", "at"], φL, [[]], [], []⟩ main5Stmts :=
  fn_void_compiled_okF GL main5Fd main5Stmts φL [[]] [] [] ["println", "build", "at"] (relG symMain5)
    ⟨sp0, .null, rfl⟩ (by decide) (relocate_relG _ (by decide +kernel))
    (by
      have h : mangleFnName GL.mod main5Fd.name = "@main.main" := by decide +kernel
      rw [h]; simp [findCode, codeL17, GL])
    (by decide +kernel) (by decide +kernel) (by decide +kernel) (by decide +kernel)
    (by decide +kernel) (by decide +kernel) (by decide +kernel) phiL

private def fatalIs (out kd m : String) (sp : Span) : Except Ctl Val × St → Bool
  | (.error (.fatal kd' m' sp'), st) => st.out == out && kd' == kd && m' == m && sp' == sp
  | _ => false

private theorem spec_main5 :
    fatalIs "38\n1\n" "IndexOutOfBounds" "Index out of bounds: cannot index a list of length 2 with 2" spIdx
      (callBody GL.cfg 200 sp0 GL.mod main5Fd.params main5Fd.body [] stX) = true := by
  decide +kernel

/-- **The program through the theorems**: `run` on the compiled code ends with the specification's fatal
error — `IndexOutOfBounds` at the span of `l[k]` in `at`, two activations deep — after the specification's
output. Before that, `build(1)` allocated a list, wrote to it through the alias `m` (also inside a `for`
loop, reading the same list through `l`), used a negative index in a compound assignment, and summed
elements read through both names: `38`; `at(-2)` read the first element through a wrapped index. -/
example : ∃ K, ∀ quantum, K ≤ quantum → ∀ vfuel, ∃ s',
    run codeL17 {} quantum none (vfuel + 1) { calls := [⟨"@main.main", 0⟩] } =
      .fatal "IndexOutOfBounds" "Index out of bounds: cannot index a list of length 2 with 2" spIdx s' ∧
    s'.st.out = "38\n1\n" := by
  obtain ⟨fuel, hfuel⟩ : ∃ n : Nat, n = 200 := ⟨200, rfl⟩
  have h := entry_runF GL gl_ok fuel "main" main5Fd _ main5Stmts fnOK_main5 (fun _ => by decide) sp0 stX 0 []
    ⟨[], ⟨[], 0⟩⟩ ⟨fun _ => HeapInv.empty, rfl, rfl, by decide⟩ (by decide) (by decide) (by decide)
  subst hfuel
  have hs := spec_main5
  rcases hev : callBody GL.cfg 200 sp0 GL.mod main5Fd.params main5Fd.body [] stX with ⟨res, st'⟩
  rw [hev] at h hs
  cases res with
  | ok v => simp [fatalIs] at hs
  | error e =>
    cases e <;> try (simp [fatalIs] at hs; done)
    rename_i kd m fsp
    simp only [fatalIs, Bool.and_eq_true, beq_iff_eq] at hs
    obtain ⟨⟨⟨hout, rfl⟩, rfl⟩, rfl⟩ := hs
    obtain ⟨K, hK⟩ := h (by decide)
    refine ⟨K, fun quantum hq vfuel => ?_⟩
    obtain ⟨s', hrun, hst⟩ := hK quantum hq vfuel
    exact ⟨s', hrun, by rw [hst]; exact hout⟩
end Example17

/-! ## 18. Objects: `new { k: e, … }`, `o.f`, `o.f = e`, `o.f op= e`

Objects live on the shared heap like lists (`.ref a` on both sides, aliases see each other's writes).
The VM allocates the object *before* its fields are initialized (a template with `null` fields, then one
`Dup; Member k; code(e); Assign` per field) while the specification allocates afterwards; with pure
initializers (atoms) and distinct field names both end with the same cell at the same address.
`Member` pushes the field's value with its origin `Org.field a k`; `Assign` writes through it. -/

/-- **What `compileExpr` emits for an object literal** with atoms as initializers and distinct field names:
`Cloning_Push {k₁: null, …}`, then for every field `Dup; Member k; code(e); Assign` (`cgFields`). -/
theorem compileObj_frag (fuel : Nat) (sp : Span) (ty : Ty) (fs : List (String × Expr)) (cs : CState)
    (hs : Frag.okGE (.obj sp ty fs) = true) (hd : Frag.cdE (.obj sp ty fs) ≤ fuel)
    (hws : Frag.wsGE cs.scopes (φOf cs) (.obj sp ty fs) = true) :
    (compileExpr fuel (.obj sp ty fs)).run cs =
      ((), updS cs cs.loops
        ([(.cloningPush (.obj (fs.map fun f => (f.1, .null))), sp)] ++
          (cgFields cs.currModule (ρS cs.scopes) sp fs cs.labelMangle).1)
        { envOf cs with lm := (cgFields cs.currModule (ρS cs.scopes) sp fs cs.labelMangle).2 }) := by
  have h := compileExpr_gfrag fuel _ cs hs hd hws
  rwa [cgE] at h

/-- **What `compileExpr` emits for `o.f`** (`Frag.okXE`): `code(o); Member f`. -/
theorem compileMember_frag (fuel : Nat) (sp : Span) (ty : Ty) (b : Expr) (name : String) (cs : CState)
    (hs : Frag.okXE (.member sp ty b name .dot) = true) (hd : Frag.cdE (.member sp ty b name .dot) ≤ fuel)
    (hws : Frag.wsGE cs.scopes (φOf cs) (.member sp ty b name .dot) = true) :
    let cb := cgE cs.currModule (ρS cs.scopes) (φOf cs) b cs.labelMangle
    (compileExpr fuel (.member sp ty b name .dot)).run cs =
      ((), updS cs cs.loops (cb.1 ++ [(.member name, sp)]) { envOf cs with lm := cb.2 }) := by
  have h := compile_xexpr fuel _ cs hs hd cs.loops [] (envOf cs) hws
  rw [updS_self, List.nil_append, cgE] at h
  exact h

/-- **What `compileStmt` emits for `o.f = e` and `o.f op= e`**:
`code(o); Member f; code(e); Assign`, resp. `code(o); Member f; Dup; code(e); op; Assign`. -/
theorem compileMemAssign_frag (fuel : Nat) (sp asp : Span) (op : Option InfixOp) (msp : Span) (mty : Ty) (b : Expr)
    (name : String) (r : Expr) (cs : CState) (fr il rt : Bool)
    (hrt : rt = true → cs.tryDepth = 0) (hil : il = true → ∃ b c rest, cs.loops = (b, c, cs.tryDepth) :: rest)
    (hs : Frag.okFS fr il rt (.exprS sp (.assign asp op (.member msp mty b name .dot) r)) = true)
    (hd : Frag.cdS (.exprS sp (.assign asp op (.member msp mty b name .dot) r)) ≤ fuel)
    (hws : Frag.wsGS cs.currModule cs.currFn (φOf cs) (loopsOf cs.loops)
      (.exprS sp (.assign asp op (.member msp mty b name .dot) r)) (envOf cs) = true) :
    let cl := cgE cs.currModule (ρS cs.scopes) (φOf cs) (.member msp mty b name .dot) cs.labelMangle
    let cr := cgE cs.currModule (ρS cs.scopes) (φOf cs) r cl.2
    (compileStmt fuel (.exprS sp (.assign asp op (.member msp mty b name .dot) r))).run cs =
      ((), updS cs cs.loops (cl.1 ++ opPre op asp ++ cr.1 ++ opPost op asp ++ [(.assign, asp)])
        { envOf cs with lm := cr.2 }) := by
  have h := (compile_gstmt fuel).1 _ cs cs.loops il rt hrt hil hs hd [] (envOf cs) hws
  rw [updS_self, List.nil_append, cgS_memAssign] at h
  exact h

/-- **The specification's object literal**: the initializers in order, then a fresh cell. -/
theorem obj_spec (cfg : Cfg) (fuel : Nat) (sp : Span) (ty : Ty) (fs : List (String × Expr)) (st : St) :
    evalExpr cfg (fuel + 1) (.obj sp ty fs) st =
      match evalFields cfg fuel fs st with
      | (.ok vs, st1) => (.ok (.ref st1.heap.size), { st1 with heap := st1.heap.push (.obj vs) })
      | (.error c, st1) => (.error c, st1) :=
  evalExpr_obj cfg fuel sp ty fs st

/-- **The specification's `o.f`** (`memberVal … .dot`): the data field of an object, else the bound member
(a builtin method: `len`, `push`, …; `start`/`end` of a range). -/
theorem member_spec (b : Val) (name : String) (sp : Span) (st : St) :
    memberVal b name .dot sp st =
      match b with
      | .ref a =>
        (match st.heap[a]? with
          | some (.obj fs) => (match fs.lookup name with
              | some v => (.ok v, st)
              | none => (.ok (.bound b name), st))
          | some _ => (.ok (.bound b name), st)
          | none => (.error (.unsupported "dangling reference"), st))
      | .range x y _ =>
        (if name == "start" then (.ok (.int x), st) else if name == "end" then (.ok (.int y), st)
          else (.ok (.bound b name), st))
      | _ => (.ok (.bound b name), st) :=
  memberVal_dot b name sp st

/-- **`Member` on the VM** is the specification's `memberVal` on the VM's heap; a data field is pushed with
its origin (`memOrg`: `Org.field a name`). -/
theorem member_vm (code : Code) (lim : Limits) (s : VMState) (fn : String) (ip : Nat)
    (rest : List Frame) (mp : Int) (k : Nat) (stk : List SVal) (mem : List (Int × Val)) (out : World)
    (c : List (RInstr × Span)) (hf : findCode code fn = some c) (sp : Span) (name : String) (bv : Val) (ob : Option Org)
    (hx : c[ip]? = some (.member name, sp)) :
    exec1 code lim (mkS s (⟨fn, ip⟩ :: rest) mp k (⟨bv, ob⟩ :: stk) mem out) =
      match (memberVal bv name .dot sp { s.st with heap := out.heap, out := out.out }).1 with
      | .ok v => .next (mkS s (⟨fn, ip + 1⟩ :: rest) mp (k + 1) (⟨v, memOrg out.heap bv name⟩ :: stk) mem out)
      | .error e => ctlToRes e (mkS s (⟨fn, ip⟩ :: rest) mp (k + 1) stk mem out) :=
  mkS_member code lim s fn ip rest mp k stk mem out c hf sp name bv ob hx

/-- **The specification's `o.f = e`, `o.f op= e`**: the slot first (`o` must be an object with a data field
`f`), then the right-hand side, then the write. -/
theorem memAssign_spec (cfg : Cfg) (fuel : Nat) (asp : Span) (op : Option InfixOp) (msp : Span) (mty : Ty)
    (b : Expr) (name : String) (r : Expr) (st : St) :
    evalExpr cfg (fuel + 2) (.assign asp op (.member msp mty b name .dot) r) st =
      match evalExpr cfg fuel b st with
      | (.ok bv, st1) =>
        (match placeOfM bv name st1 with
          | (.ok pl, st0) =>
            (match (match op with
                | none => evalExpr cfg (fuel + 1) r st0
                | some o =>
                  (match readPlace pl st0 with
                   | (.ok cur, st0') =>
                     (match evalExpr cfg (fuel + 1) r st0' with
                      | (.ok b, st1) => binOp o cur b asp st1
                      | (.error c, st1) => (.error c, st1))
                   | (.error c, st0') => (.error c, st0'))) with
             | (.ok v, st2) =>
               (match writePlace pl v st2 with
                | (.ok _, st3) => (.ok .null, st3)
                | (.error c, st3) => (.error c, st3))
             | (.error c, st2) => (.error c, st2))
          | (.error c, st0) => (.error c, st0))
      | (.error c, st1) => (.error c, st1) := by
  rw [evalExpr_assign_gen, evalPlace_member]
  rcases evalExpr cfg fuel b st with ⟨r1, st1⟩
  cases r1 <;> rfl

/-- **Sharing**: a write to field `k` of the object at address `a` — through whichever variable holds
`.ref a` — is what every later read of that field sees. -/
theorem field_write_read_shared (a : Nat) (k : String) (v old : Val) (sp : Span) (st : St) (pre post : List (String × Val))
    (h : st.heap[a]? = some (.obj (pre ++ (k, old) :: post)))
    (h1 : k ∉ pre.map (·.1)) (h2 : k ∉ post.map (·.1)) :
    ∃ st', writePlace { addr := a, field := some k } v st = (.ok (), st') ∧
      st' = { st with heap := st.heap.setIfInBounds a (.obj (pre ++ (k, v) :: post)) } ∧
      memberVal (.ref a) k .dot sp st' = (.ok v, st') := by
  have ha : a < st.heap.size := by
    rcases Nat.lt_or_ge a st.heap.size with h' | h'
    · exact h'
    · rw [Array.getElem?_eq_none h'] at h; cases h
  refine ⟨_, ?_, rfl, ?_⟩
  · unfold writePlace
    simp only [M_bind, readCell_run, h]
    show (Except.ok (), _) = (Except.ok (), _)
    rw [setField_eq, setField_append pre k old v post h1 h2]
  · have hc : ({ st with heap := st.heap.setIfInBounds a (.obj (pre ++ (k, v) :: post)) } : St).heap[a]? =
        some (.obj (pre ++ (k, v) :: post)) := by
      simp [ha]
    rw [memberVal_dot]
    simp only [hc, lookup_append_not_mem pre k v post h1]

/-- **Object literals are simulated**: with atoms as initializers and distinct field names, the VM's
template-then-assign construction ends with the specification's cell at the specification's address. -/
theorem obj_correct (G : GCtx) (hG : G.OK') (fuel : Nat) (A : Act) (hA : A.OK G) (sp : Span) (ty : Ty)
    (fs : List (String × Expr)) (st : St) (ip : Nat) (stk : List SVal) (mem : Mem) (lm : LM)
    (scopes : CScopes) (vm : List (String × Nat)) (e : Expr) (he : e = .obj sp ty fs)
    (hs : Frag.okGE e = true) (hws : Frag.wsGE scopes A.φ e = true)
    (hT : ∀ x ∈ Frag.namesGE e, x ∈ A.T)
    (hpl : Placed A.lab A.σ A.c ip (cgE G.mod (ρS scopes) A.φ e lm).1)
    (hrel : StRel G.mod A.T A.N A.σ G.lim A.mp scopes vm st.scopes mem) (hsp : SpecOK G A.mp st) :
    Sim.SimGE G A ip (nI (cgE G.mod (ρS scopes) A.φ e lm).1) stk mem st (evalExpr G.cfg fuel e st) := by
  subst he
  exact (allP G hG fuel).pe A hA _ st ip stk mem lm scopes vm hs hws hT hpl hrel hsp

/-- **Field reads are simulated** (`Sim.SimOE`; an instance of `index_correct`, which covers all of `Frag.okXE`). -/
theorem member_correct (G : GCtx) (hG : G.OK') (fuel : Nat) (A : Act) (hA : A.OK G) (sp : Span) (ty : Ty)
    (b : Expr) (name : String) (st : St) (ip : Nat) (stk : List SVal) (mem : Mem) (lm : LM)
    (scopes : CScopes) (vm : List (String × Nat)) (e : Expr) (he : e = .member sp ty b name .dot)
    (hs : Frag.okXE e = true) (hws : Frag.wsGE scopes A.φ e = true)
    (hT : ∀ x ∈ Frag.namesGE e, x ∈ A.T)
    (hpl : Placed A.lab A.σ A.c ip (cgE G.mod (ρS scopes) A.φ e lm).1)
    (hrel : StRel G.mod A.T A.N A.σ G.lim A.mp scopes vm st.scopes mem) (hsp : SpecOK G A.mp st) :
    Sim.SimOE G A ip (nI (cgE G.mod (ρS scopes) A.φ e lm).1) stk mem st (evalExpr G.cfg fuel e st) := by
  subst he
  exact index_correct G hG fuel A hA _ st ip stk mem lm scopes vm hs hws hT hpl hrel hsp

/-- **`o.f = e` and `o.f op= e` are simulated** (`Sim.SimGS`), as `idxAssign_correct`. -/
theorem memAssign_correct (G : GCtx) (hG : G.OK') (fuel : Nat) (A : Act) (hA : A.OK G)
    (loops : List (String × String)) (lscopes : CScopes) (d : Nat) (sp asp : Span) (op : Option InfixOp)
    (msp : Span) (mty : Ty) (b : Expr) (name : String) (r : Expr) (env : CEnv) (spec : St) (ip : Nat)
    (stk : List SVal) (mem : Mem)
    (stmt : Stmt) (hstmt : stmt = .exprS sp (.assign asp op (.member msp mty b name .dot) r))
    (hs : Frag.okFS G.fr (!loops.isEmpty) A.rt stmt = true) (hT : ∀ x ∈ Frag.identsGS stmt, x ∈ A.T)
    (hws : Frag.wsGS G.mod A.src A.φ loops stmt env = true)
    (hN : ∀ m ∈ codeVars (cgS G.mod A.src A.φ loops stmt env).1, A.N m)
    (hpl : Placed A.lab A.σ A.c ip (cgS G.mod A.src A.φ loops stmt env).1)
    (hd : 1 ≤ d) (hls : lscopes = env.scopes.drop d)
    (hrel : Sim.GRel G A env.scopes env.vm spec.scopes mem) (hsp : SpecOK G A.mp spec) :
    Sim.SimGS G A loops lscopes d ip (nI (cgS G.mod A.src A.φ loops stmt env).1) stk mem
      (Sim.GRel G A (cgS G.mod A.src A.φ loops stmt env).2.scopes (cgS G.mod A.src A.φ loops stmt env).2.vm) spec
      (evalStmt G.cfg fuel stmt spec) := by
  subst hstmt
  exact (allP G hG fuel).pgs A hA loops lscopes d _ env spec ip stk mem hs hT hws hN hpl hd hls hrel hsp

section Example18
private def tyO : Ty := .obj [("x", .int), ("y", .int)]
private def tyQ : Ty := .obj [("items", tyL), ("k", .int)]
private def go (x : String) : Expr := .ident sp0 tyO x false false false
private def gmem (o : Expr) (f : String) : Expr := .member sp0 .int o f .dot
private def gsetf (op : Option InfixOp) (o : Expr) (f : String) (e : Expr) : Stmt :=
  .exprS sp0 (.assign sp0 op (gmem o f) e)

/-- `let o = new { x: n, y: 2 }; let p = o; p.x = 10; o.y += 5; let l = [1, 2];
let q = new { items: l, k: 0 }; let it = q.items; it[0] = o.x + p.y; let s = l[0] + q.k;`:
`p` is an alias of `o`, `it` and `q.items` are aliases of `l`. -/
def mkStmts : List Stmt :=
  [ .letS sp0 "o" tyO false tyO (.obj sp0 tyO [("x", gv "n"), ("y", .int sp0 2)]),
    .letS sp0 "p" tyO false tyO (go "o"),
    gsetf none (go "p") "x" (.int sp0 10),
    gsetf (some .add) (go "o") "y" (.int sp0 5),
    .letS sp0 "l" tyL false tyL (.list sp0 tyL [.int sp0 1, .int sp0 2]),
    .letS sp0 "q" tyQ false tyQ (.obj sp0 tyQ [("items", gl "l"), ("k", .int sp0 0)]),
    .letS sp0 "it" tyL false tyL (.member sp0 tyL (.ident sp0 tyQ "q" false false false) "items" .dot),
    gset none "it" (.int sp0 0) (.infix sp0 .int .add (gmem (go "o") "x") (gmem (go "p") "y")),
    .letS sp0 "s" .int false .int
      (.infix sp0 .int .add (gidx "l" (.int sp0 0)) (gmem (.ident sp0 tyQ "q" false false false) "k")) ]
/-- `fn mk(n: int) -> int { …; s }` -/
def mkFd : FnDef := gfn "mk" ["n"] .int mkStmts (some (gv "s"))
/-- `fn main() { println(mk(1)); }` -/
def main6Stmts : List Stmt := [ gprint [gcall "mk" [.int sp0 1]] ]
def main6Fd : FnDef := gfn "main" [] .null main6Stmts none
def progO : Program :=
  [{ name := "main", imports := [], singletons := [], globals := [], nImpls := 0, fns := [mkFd, main6Fd] }]

/-- The whole program on the models themselves: the specification … -/
example : (match runProgram { prog := progO } 200 with | .ok out _ => out | _ => "?") = "17\n" := by
  decide +kernel
/-- … and the VM, which ends with a clean core. -/
example : (match compile progO "main" 100 with
    | .ok c => (match runMain c {} 50 20000 with
      | .ok s => (s.st.out, s.stack.length, s.mp, s.calls.length) | _ => ("?", 0, 0, 0))
    | .error e => (e, 0, 0, 0)) = ("17\n", 0, 0, 0) := by
  decide +kernel

def φO : String → Option String := fun n => if n = "mk" then some "@main.mk" else none
def symMk : SCode := cgFn "main" φO mkFd mkStmts (some (gv "s")) [[]] [] []
def symMain6 : SCode := cgFn "main" φO main6Fd main6Stmts none [[]] [] []
def codeO : Code := [⟨"@main.mk", renameVars (relG symMk)⟩, ⟨"@main.main", renameVars (relG symMain6)⟩]

local instance (priority := high) : BEq PVal := ⟨pvalBeq⟩
/-- Object templates are compared field by field. -/
private def pvalBeqO : PVal → PVal → Bool
  | .obj a, .obj b => a.length == b.length && (a.zip b).all fun xy => xy.1.1 == xy.2.1 && pvalBeq xy.1.2 xy.2.2
  | a, b => pvalBeq a b
private def instrBeqO : RInstr → RInstr → Bool
  | .cloningPush a, .cloningPush b => pvalBeqO a b
  | x, y => x == y
private def codeBeqO (a b : List (RInstr × Span)) : Bool :=
  a.length == b.length && (a.zip b).all fun xy => instrBeqO xy.1.1 xy.2.1 && xy.1.2 == xy.2.2
/-- The real compiler produces `codeO` (kernel evaluation, instruction by instruction). -/
example : (match compile progO "main" 100 with
    | .ok c => (((c.fns.filter fun f => f.name != "@main.@init").zip codeO).all fun fg =>
        fg.1.name == fg.2.name && codeBeqO fg.1.code fg.2.code) &&
        (c.fns.filter fun f => f.name != "@main.@init").length == codeO.length
    | .error _ => false) = true := by decide +kernel

def GO : GCtx := ⟨{ prog := progO }, codeO, {}, "main", {}, fun g => g = "mk", 16, 0, false⟩

private theorem phiO : PhiOK GO φO := by
  intro name f h
  unfold φO at h
  split at h
  · rename_i hn; subst hn; cases h
    exact ⟨by decide +kernel, rfl, mkFd, rfl, rfl⟩
  · cases h

theorem fnOK_mk : FnOK GO "mk" mkFd
    ⟨renameVars (relG symMk), slotFn (relG symMk), labelIndex symMk, (· ∈ varNames (relG symMk)),
      ["n", "o", "p", "l", "q", "it", "s"], φO, [[]], [], []⟩ mkStmts (gv "s") :=
  fn_compiled_okF GO mkFd mkStmts (gv "s") φO [[]] [] [] ["n", "o", "p", "l", "q", "it", "s"] (relG symMk)
    ⟨sp0, .int, rfl⟩
    (by decide) (relocate_relG _ (by decide +kernel))
    (by
      have h : mangleFnName GO.mod mkFd.name = "@main.mk" := by decide +kernel
      rw [h]; simp [findCode, codeO, GO])
    (by decide +kernel) (by decide +kernel) (by decide +kernel) (by decide +kernel)
    (by decide +kernel) (by decide +kernel) (by decide +kernel) (by decide +kernel) (by decide +kernel)
    (by decide +kernel) phiO

theorem go_ok : GO.OK' := by
  refine ⟨?_, by decide, by decide, rfl, rfl, rfl⟩
  intro g fd hK hfind
  cases hK
  have h : findFn GO.cfg.prog GO.mod "mk" = some mkFd := rfl
  rw [h] at hfind; cases hfind
  exact ⟨_, _, _, fnOK_mk, fun h => by cases h⟩

theorem fnOK_main6 : FnVoidOK GO "main" main6Fd
    ⟨renameVars (relG symMain6), slotFn (relG symMain6), labelIndex symMain6, (· ∈ varNames (relG symMain6)),
      ["println", "mk"], φO, [[]], [], []⟩ main6Stmts :=
  fn_void_compiled_okF GO main6Fd main6Stmts φO [[]] [] [] ["println", "mk"] (relG symMain6)
    ⟨sp0, .null, rfl⟩ (by decide) (relocate_relG _ (by decide +kernel))
    (by
      have h : mangleFnName GO.mod main6Fd.name = "@main.main" := by decide +kernel
      rw [h]; simp [findCode, codeO, GO])
    (by decide +kernel) (by decide +kernel) (by decide +kernel) (by decide +kernel)
    (by decide +kernel) (by decide +kernel) (by decide +kernel) phiO

private theorem spec_main6 :
    okOut "17\n" (callBody GO.cfg 200 sp0 GO.mod main6Fd.params main6Fd.body [] stX) = true := by
  decide +kernel

/-- **The program through the theorems**: `mk(1)` builds an object, writes to it through the alias `p` and
through `o`, stores a list in a second object, takes the list out of the field again and writes to it, and
reads through all the names: `17`, the specification's output. -/
example : ∃ K, ∀ quantum, K ≤ quantum → ∀ vfuel, ∃ s',
    run codeO {} quantum none (vfuel + 1) { calls := [⟨"@main.main", 0⟩] } = .ok s' ∧
    s'.st.out = "17\n" ∧ s'.mp = 0 ∧ s'.calls = [] := by
  obtain ⟨fuel, hfuel⟩ : ∃ n : Nat, n = 200 := ⟨200, rfl⟩
  have h := entry_runF GO go_ok fuel "main" main6Fd _ main6Stmts fnOK_main6 (fun h => by cases h) sp0 stX 0 []
    ⟨[], ⟨[], 0⟩⟩ ⟨fun _ => HeapInv.empty, rfl, rfl, by decide⟩ (by decide) (by decide) (by decide)
  subst hfuel
  have hs := spec_main6
  rcases hev : callBody GO.cfg 200 sp0 GO.mod main6Fd.params main6Fd.body [] stX with ⟨res, st'⟩
  rw [hev] at h hs
  cases res with
  | error e => simp [okOut] at hs
  | ok v =>
    simp only [okOut, beq_iff_eq] at hs
    obtain ⟨K, hK⟩ := h
    refine ⟨K, fun quantum hq vfuel => ?_⟩
    obtain ⟨s', hrun, hst, hmp, hcalls, hstk⟩ := hK quantum hq vfuel
    exact ⟨s', hrun, by rw [hst]; exact hs, hmp, hcalls⟩
end Example18

/-! ## 19. The builtin methods `len` and `push`: `let n = l.len();`, `l.push(x);`

`o.len` on an object with a data field `len` is that field (`member_spec`), so `l.len()` calls the builtin
only if no object on the heap has such a field. The simulation carries this as an invariant, `HeapInv`:
every run of the VM keeps it (it is part of `Runs`), the fragment cannot break it (object literals of the
fragment have no field named `len` or `push`), and in the contexts of the extended fragment
(`G.fr = true`) `SpecOK` asks it of the state the run starts from — trivially true of the empty heap a
program starts with. -/

/-- **The heap invariant is what makes `l.len` / `l.push` the builtin method.** -/
theorem method_spec (b : Val) (name : String) (sp : Span) (st : St) (hinv : HeapInv st.heap)
    (hn : name ∈ methNames) :
    memberVal b name .dot sp st = (.ok (.bound b name), st) ∨
      ∃ w, memberVal b name .dot sp st = (.error (.unsupported w), st) :=
  memberVal_method b name sp st hinv hn

/-- **The specification's `len`** on a list or a string. -/
theorem len_spec (recv : Val) (sp : Span) (st : St) :
    callMember recv "len" [] sp st =
      match recv with
      | .str s => (.ok (.int (I64.ofInt s.length)), st)
      | .ref a =>
        (match st.heap[a]? with
          | some (.list xs) => (.ok (.int (I64.ofInt xs.length)), st)
          | some _ => (.error (.unsupported "member len"), st)
          | none => (.error (.unsupported "dangling reference"), st))
      | _ => (.error (.unsupported "member len"), st) :=
  callMember_len recv sp st

/-- **The specification's `push`**: the element is appended to the list cell, in place. -/
theorem push_spec (recv v : Val) (sp : Span) (st : St) :
    callMember recv "push" [v] sp st =
      match recv with
      | .ref a =>
        (match st.heap[a]? with
          | some (.list xs) => (.ok .null, { st with heap := st.heap.setIfInBounds a (.list (xs ++ [v])) })
          | some _ => (.error (.unsupported "member push"), st)
          | none => (.error (.unsupported "dangling reference"), st))
      | _ => (.error (.unsupported "member push"), st) :=
  callMember_push recv v sp st

/-- **`Call_Val` on the bound method `push`** of a list: the element is appended in the same cell of the
same heap; nothing is pushed (the result is `null`). -/
theorem callVal_push_vm (code : Code) (lim : Limits) (s : VMState) (fn : String) (ip : Nat)
    (rest : List Frame) (mp : Int) (k : Nat) (stk : List SVal) (mem : List (Int × Val)) (out : World)
    (c : List (RInstr × Span)) (hf : findCode code fn = some c) (sp : Span) (a : Nat) (xs : List Val) (v : Val)
    (o1 o2 o3 : Option Org)
    (hx : c[ip]? = some (.callVal, sp)) (hcell : out.heap[a]? = some (.list xs)) :
    exec1 code lim (mkS s (⟨fn, ip⟩ :: rest) mp k
        (⟨.int (I64.ofInt 1), o1⟩ :: ⟨.bound (.ref a) "push", o2⟩ :: ⟨v, o3⟩ :: stk) mem out) =
      .next (mkS s (⟨fn, ip + 1⟩ :: rest) mp (k + 1) stk mem
        ⟨out.heap.setIfInBounds a (.list (xs ++ [v])), out.out⟩) :=
  mkS_callVal_push code lim s fn ip rest mp k stk mem out c hf sp a xs v o1 o2 o3 hx hcell

/-- **`Call_Val` on the bound method `len`**: the specification's `callMember` on the VM's heap. -/
theorem callVal_len_vm (code : Code) (lim : Limits) (s : VMState) (fn : String) (ip : Nat)
    (rest : List Frame) (mp : Int) (k : Nat) (stk : List SVal) (mem : List (Int × Val)) (out : World)
    (c : List (RInstr × Span)) (hf : findCode code fn = some c) (sp : Span) (recv : Val) (o1 o2 : Option Org) (n : Val)
    (hx : c[ip]? = some (.callVal, sp))
    (hr : callMember recv "len" [] sp { s.st with heap := out.heap, out := out.out } =
      (.ok n, { s.st with heap := out.heap, out := out.out })) (hn : n ≠ .null) :
    exec1 code lim (mkS s (⟨fn, ip⟩ :: rest) mp k (⟨.int (I64.ofInt 0), o1⟩ :: ⟨.bound recv "len", o2⟩ :: stk) mem out) =
      .next (mkS s (⟨fn, ip + 1⟩ :: rest) mp (k + 1) (⟨n, none⟩ :: stk) mem out) :=
  mkS_callVal_len code lim s fn ip rest mp k stk mem out c hf sp recv o1 o2 n hx hr hn

/-- **What `compileStmt` emits for `let x = l.len();`**: `code(l); Member len; Copy_Push 0; Call_Val; SetVar x`. -/
theorem compileLen_frag (fuel : Nat) (sp : Span) (name : String) (vty oty : Ty) (csp : Span) (cty : Ty) (msp : Span)
    (mty : Ty) (b : Expr) (cs : CState) (il rt : Bool)
    (hrt : rt = true → cs.tryDepth = 0) (hil : il = true → ∃ b c rest, cs.loops = (b, c, cs.tryDepth) :: rest)
    (hs : Frag.okFS true il rt (.letS sp name vty false oty (.call csp cty (.member msp mty b "len" .dot) [] false)) = true)
    (hd : Frag.cdS (.letS sp name vty false oty (.call csp cty (.member msp mty b "len" .dot) [] false)) ≤ fuel)
    (hws : Frag.wsGS cs.currModule cs.currFn (φOf cs) (loopsOf cs.loops)
      (.letS sp name vty false oty (.call csp cty (.member msp mty b "len" .dot) [] false)) (envOf cs) = true) :
    let cb := cgE cs.currModule (ρS cs.scopes) (φOf cs) b cs.labelMangle
    let fv := freshVar cs.currModule { envOf cs with lm := cb.2 } name
    (compileStmt fuel (.letS sp name vty false oty (.call csp cty (.member msp mty b "len" .dot) [] false))).run cs =
      ((), updS cs cs.loops
        (cb.1 ++ [(.member "len", msp), (.copyPush (.int 0), csp), (.callVal, csp)] ++ [(.setVar fv.1, sp)])
        { fv.2 with nv := fv.2.nv + 1 }) := by
  have h := (compile_gstmt fuel).1 _ cs cs.loops il rt hrt hil hs hd [] (envOf cs) hws
  rw [updS_self, List.nil_append, cgS] at h
  exact h

/-- **What `compileStmt` emits for `l.push(x);`**: `code(x); code(l); Member push; Copy_Push 1; Call_Val`
(the argument first, the receiver after it; no `Drop`: the call's type is `null`). -/
theorem compilePush_frag (fuel : Nat) (sp csp : Span) (cty : Ty) (msp : Span) (mty : Ty) (b : Expr) (a : String × Expr)
    (cs : CState) (il rt : Bool)
    (hrt : rt = true → cs.tryDepth = 0) (hil : il = true → ∃ b c rest, cs.loops = (b, c, cs.tryDepth) :: rest)
    (hs : Frag.okFS true il rt (.exprS sp (.call csp cty (.member msp mty b "push" .dot) [a] false)) = true)
    (hd : Frag.cdS (.exprS sp (.call csp cty (.member msp mty b "push" .dot) [a] false)) ≤ fuel)
    (hws : Frag.wsGS cs.currModule cs.currFn (φOf cs) (loopsOf cs.loops)
      (.exprS sp (.call csp cty (.member msp mty b "push" .dot) [a] false)) (envOf cs) = true) :
    let ca := cgE cs.currModule (ρS cs.scopes) (φOf cs) a.2 cs.labelMangle
    let cb := cgE cs.currModule (ρS cs.scopes) (φOf cs) b ca.2
    (compileStmt fuel (.exprS sp (.call csp cty (.member msp mty b "push" .dot) [a] false))).run cs =
      ((), updS cs cs.loops (ca.1 ++ cb.1 ++ [(.member "push", msp), (.copyPush (.int 1), csp), (.callVal, csp)])
        { envOf cs with lm := cb.2 }) := by
  have h := (compile_gstmt fuel).1 _ cs cs.loops il rt hrt hil hs hd [] (envOf cs) hws
  rw [updS_self, List.nil_append, cgS] at h
  exact h

/-- **`let x = l.len();` is simulated** (`Sim.SimGS`, contexts with `G.fr = true`): the length of the list —
or of the string — `l` evaluates to is bound to `x`. -/
theorem len_correct (G : GCtx) (hG : G.OK') (fuel : Nat) (A : Act) (hA : A.OK G)
    (loops : List (String × String)) (lscopes : CScopes) (d : Nat) (sp : Span) (name : String) (vty oty : Ty)
    (csp : Span) (cty : Ty) (msp : Span) (mty : Ty) (b : Expr) (env : CEnv) (spec : St) (ip : Nat)
    (stk : List SVal) (mem : Mem)
    (stmt : Stmt) (hstmt : stmt = .letS sp name vty false oty (.call csp cty (.member msp mty b "len" .dot) [] false))
    (hs : Frag.okFS G.fr (!loops.isEmpty) A.rt stmt = true) (hT : ∀ x ∈ Frag.identsGS stmt, x ∈ A.T)
    (hws : Frag.wsGS G.mod A.src A.φ loops stmt env = true)
    (hN : ∀ m ∈ codeVars (cgS G.mod A.src A.φ loops stmt env).1, A.N m)
    (hpl : Placed A.lab A.σ A.c ip (cgS G.mod A.src A.φ loops stmt env).1)
    (hd : 1 ≤ d) (hls : lscopes = env.scopes.drop d)
    (hrel : Sim.GRel G A env.scopes env.vm spec.scopes mem) (hsp : SpecOK G A.mp spec) :
    Sim.SimGS G A loops lscopes d ip (nI (cgS G.mod A.src A.φ loops stmt env).1) stk mem
      (Sim.GRel G A (cgS G.mod A.src A.φ loops stmt env).2.scopes (cgS G.mod A.src A.φ loops stmt env).2.vm) spec
      (evalStmt G.cfg fuel stmt spec) := by
  subst hstmt
  exact (allP G hG fuel).pgs A hA loops lscopes d _ env spec ip stk mem hs hT hws hN hpl hd hls hrel hsp

/-- **`l.push(x);` is simulated**: the element is appended to the one cell both sides share, so every
alias of the list sees it; `x` is an atom (the VM evaluates the argument before the receiver, the
specification after it). -/
theorem push_correct (G : GCtx) (hG : G.OK') (fuel : Nat) (A : Act) (hA : A.OK G)
    (loops : List (String × String)) (lscopes : CScopes) (d : Nat) (sp csp : Span) (cty : Ty) (msp : Span) (mty : Ty)
    (b : Expr) (a : String × Expr) (env : CEnv) (spec : St) (ip : Nat) (stk : List SVal) (mem : Mem)
    (stmt : Stmt) (hstmt : stmt = .exprS sp (.call csp cty (.member msp mty b "push" .dot) [a] false))
    (hs : Frag.okFS G.fr (!loops.isEmpty) A.rt stmt = true) (hT : ∀ x ∈ Frag.identsGS stmt, x ∈ A.T)
    (hws : Frag.wsGS G.mod A.src A.φ loops stmt env = true)
    (hN : ∀ m ∈ codeVars (cgS G.mod A.src A.φ loops stmt env).1, A.N m)
    (hpl : Placed A.lab A.σ A.c ip (cgS G.mod A.src A.φ loops stmt env).1)
    (hd : 1 ≤ d) (hls : lscopes = env.scopes.drop d)
    (hrel : Sim.GRel G A env.scopes env.vm spec.scopes mem) (hsp : SpecOK G A.mp spec) :
    Sim.SimGS G A loops lscopes d ip (nI (cgS G.mod A.src A.φ loops stmt env).1) stk mem
      (Sim.GRel G A (cgS G.mod A.src A.φ loops stmt env).2.scopes (cgS G.mod A.src A.φ loops stmt env).2.vm) spec
      (evalStmt G.cfg fuel stmt spec) := by
  subst hstmt
  exact (allP G hG fuel).pgs A hA loops lscopes d _ env spec ip stk mem hs hT hws hN hpl hd hls hrel hsp

section Example19
private def gmcall (ty : Ty) (l : String) (m : String) (args : List Expr) : Expr :=
  .call sp0 ty (.member sp0 (.fn [] ty) (gl l) m .dot) (args.map fun a => ("", a)) false
private def gpush (l : String) (x : Expr) : Stmt := .exprS sp0 (gmcall .null l "push" [x])

/-- `let l = []; for i in 0..n { let sq = i * i; l.push(sq); } let m = l; m.push(100); let k = l.len();
let last = l[-1]; let s = k + last;` -/
def collectStmts : List Stmt :=
  [ .letS sp0 "l" tyL false tyL (.list sp0 tyL []),
    gfor "i" (.int sp0 0) (gv "n")
      [ .letS sp0 "sq" .int false .int (.infix sp0 .int .mul (gv "i") (gv "i")), gpush "l" (gv "sq") ],
    .letS sp0 "m" tyL false tyL (gl "l"),
    gpush "m" (.int sp0 100),
    .letS sp0 "k" .int false .int (gmcall .int "l" "len" []),
    .letS sp0 "last" .int false .int (gidx "l" (.int sp0 (-1))),
    .letS sp0 "s" .int false .int (.infix sp0 .int .add (gv "k") (gv "last")) ]
/-- `fn collect(n: int) -> int { …; s }` -/
def collectFd : FnDef := gfn "collect" ["n"] .int collectStmts (some (gv "s"))
/-- `fn main() { println(collect(4)); }` -/
def main7Stmts : List Stmt := [ gprint [gcall "collect" [.int sp0 4]] ]
def main7Fd : FnDef := gfn "main" [] .null main7Stmts none
def progP : Program :=
  [{ name := "main", imports := [], singletons := [], globals := [], nImpls := 0, fns := [collectFd, main7Fd] }]

/-- The whole program on the models themselves: the specification … -/
example : (match runProgram { prog := progP } 200 with | .ok out _ => out | _ => "?") = "105\n" := by
  decide +kernel
/-- … and the VM, which ends with a clean core. -/
example : (match compile progP "main" 100 with
    | .ok c => (match runMain c {} 50 20000 with
      | .ok s => (s.st.out, s.stack.length, s.mp, s.calls.length) | _ => ("?", 0, 0, 0))
    | .error e => (e, 0, 0, 0)) = ("105\n", 0, 0, 0) := by
  decide +kernel

def φP : String → Option String := fun n => if n = "collect" then some "@main.collect" else none
def symCollect : SCode := cgFn "main" φP collectFd collectStmts (some (gv "s")) [[]] [] []
def symMain7 : SCode := cgFn "main" φP main7Fd main7Stmts none [[]] [] []
def codeP : Code := [⟨"@main.collect", renameVars (relG symCollect)⟩, ⟨"@main.main", renameVars (relG symMain7)⟩]

local instance (priority := high) : BEq PVal := ⟨pvalBeq⟩
/-- The real compiler produces `codeP` (kernel evaluation, instruction by instruction). -/
example : (match compile progP "main" 100 with
    | .ok c => (c.fns.filter fun f => f.name != "@main.@init").map (fun f => (f.name, f.code))
        == codeP.map (fun f => (f.name, f.code))
    | .error _ => false) = true := by decide +kernel

/-- The context of the extended fragment (`fr = true`: `for` loops, `len`, `push`). -/
def GP : GCtx := ⟨{ prog := progP }, codeP, {}, "main", {}, fun g => g = "collect", 16, 0, true⟩

private theorem phiP : PhiOK GP φP := by
  intro name f h
  unfold φP at h
  split at h
  · rename_i hn; subst hn; cases h
    exact ⟨by decide +kernel, rfl, collectFd, rfl, rfl⟩
  · cases h

theorem fnOK_collect : FnOK GP "collect" collectFd
    ⟨renameVars (relG symCollect), slotFn (relG symCollect), labelIndex symCollect, (· ∈ varNames (relG symCollect)),
      ["n", "l", "i", "sq", "m", "k", "last", "s"], φP, [[]], [], []⟩ collectStmts (gv "s") :=
  fn_compiled_okF GP collectFd collectStmts (gv "s") φP [[]] [] [] ["n", "l", "i", "sq", "m", "k", "last", "s"]
    (relG symCollect) ⟨sp0, .int, rfl⟩
    (by decide) (relocate_relG _ (by decide +kernel))
    (by
      have h : mangleFnName GP.mod collectFd.name = "@main.collect" := by decide +kernel
      rw [h]; simp [findCode, codeP, GP])
    (by decide +kernel) (by decide +kernel) (by decide +kernel) (by decide +kernel)
    (by decide +kernel) (by decide +kernel) (by decide +kernel) (by decide +kernel) (by decide +kernel)
    (by decide +kernel) phiP

theorem gp_ok : GP.OK' := by
  refine ⟨?_, by decide, by decide, rfl, rfl, rfl⟩
  intro g fd hK hfind
  cases hK
  have h : findFn GP.cfg.prog GP.mod "collect" = some collectFd := rfl
  rw [h] at hfind; cases hfind
  exact ⟨_, _, _, fnOK_collect, fun _ => by decide⟩

theorem fnOK_main7 : FnVoidOK GP "main" main7Fd
    ⟨renameVars (relG symMain7), slotFn (relG symMain7), labelIndex symMain7, (· ∈ varNames (relG symMain7)),
      ["println", "collect"], φP, [[]], [], []⟩ main7Stmts :=
  fn_void_compiled_okF GP main7Fd main7Stmts φP [[]] [] [] ["println", "collect"] (relG symMain7)
    ⟨sp0, .null, rfl⟩ (by decide) (relocate_relG _ (by decide +kernel))
    (by
      have h : mangleFnName GP.mod main7Fd.name = "@main.main" := by decide +kernel
      rw [h]; simp [findCode, codeP, GP])
    (by decide +kernel) (by decide +kernel) (by decide +kernel) (by decide +kernel)
    (by decide +kernel) (by decide +kernel) (by decide +kernel) phiP

private theorem spec_main7 :
    okOut "105\n" (callBody GP.cfg 200 sp0 GP.mod main7Fd.params main7Fd.body [] stX) = true := by
  decide +kernel

/-- **The program through the theorems**: `collect(4)` grows a list from empty by `push` inside a `for`
loop, pushes once more through an alias, asks for the length through the first name and reads the last
element with a negative index: `105`. The heap invariant holds of the empty heap the run starts with. -/
example : ∃ K, ∀ quantum, K ≤ quantum → ∀ vfuel, ∃ s',
    run codeP {} quantum none (vfuel + 1) { calls := [⟨"@main.main", 0⟩] } = .ok s' ∧
    s'.st.out = "105\n" ∧ s'.mp = 0 ∧ s'.calls = [] := by
  obtain ⟨fuel, hfuel⟩ : ∃ n : Nat, n = 200 := ⟨200, rfl⟩
  have h := entry_runF GP gp_ok fuel "main" main7Fd _ main7Stmts fnOK_main7 (fun _ => by decide) sp0 stX 0 []
    ⟨[], ⟨[], 0⟩⟩ ⟨fun _ => HeapInv.empty, rfl, rfl, by decide⟩ (by decide) (by decide) (by decide)
  subst hfuel
  have hs := spec_main7
  rcases hev : callBody GP.cfg 200 sp0 GP.mod main7Fd.params main7Fd.body [] stX with ⟨res, st'⟩
  rw [hev] at h hs
  cases res with
  | error e => simp [okOut] at hs
  | ok v =>
    simp only [okOut, beq_iff_eq] at hs
    obtain ⟨K, hK⟩ := h
    refine ⟨K, fun quantum hq vfuel => ?_⟩
    obtain ⟨s', hrun, hst, hmp, hcalls, hstk⟩ := hK quantum hq vfuel
    exact ⟨s', hrun, by rw [hst]; exact hs, hmp, hcalls⟩
end Example19

/-! ## 20. Cell reads and `l.len()` anywhere an expression may stand; `l.push(e)` with any `e`

In the contexts of the extended fragment (`G.fr = true`) the expression fragment is `Frag.okE true`:
`Frag.okGE` closed under `l[i]`, `o.f` and `l.len()` in every position — conditions of `if`/`while`,
`match` scrutinees, `for` bounds, arguments of calls and of `println`, `return`, trailing expressions of
functions. A value may then arrive with the origin of the cell it was read from, also as the result of a
call (`return l[i]`): the simulation statements leave the origin of a pushed value open there
(`Sim.OrgOK G.fr o`: `none` when `G.fr = false`, anything otherwise), and arguments are taken from the stack
with whatever origins they carry. Finding V38 stays excluded: next to a cell read, the later operand calls
no function. -/

/-- **What `compileExpr` emits on the extended expression fragment** (`Frag.okE fr`): `cgE …`, with
`l[i]` ↦ `code(l); code(i); Index`, `o.f` ↦ `code(o); Member f`,
`l.len()` ↦ `code(l); Member len; Copy_Push 0; Call_Val`. -/
theorem compileExpr_xfrag (fr : Bool) (fuel : Nat) (e : Expr) (cs : CState)
    (hs : Frag.okE fr e = true) (hd : Frag.cdE e ≤ fuel) (hws : Frag.wsGE cs.scopes (φOf cs) e = true) :
    (compileExpr fuel e).run cs =
      ((), updS cs cs.loops (cgE cs.currModule (ρS cs.scopes) (φOf cs) e cs.labelMangle).1
        { envOf cs with lm := (cgE cs.currModule (ρS cs.scopes) (φOf cs) e cs.labelMangle).2 }) := by
  have := (compile_gexpr fr fuel).1 e cs hs hd cs.loops [] (envOf cs) hws
  rwa [updS_self, List.nil_append] at this

/-- The code of `l.len()`. -/
theorem compileLenExpr_frag (mod : String) (ρ φ : String → Option String) (csp : Span) (cty : Ty) (msp : Span) (mty : Ty)
    (b : Expr) (lm : LM) :
    cgE mod ρ φ (.call csp cty (.member msp mty b "len" .dot) [] false) lm =
      ((cgE mod ρ φ b lm).1 ++ [(.member "len", msp), (.copyPush (.int 0), csp), (.callVal, csp)], (cgE mod ρ φ b lm).2) := by
  simp only [cgE]

/-- `Frag.okGE` is the part of `Frag.okE fr` without cell reads, for either `fr`. -/
theorem okE_extends (fr : Bool) (e : Expr) (h : Frag.okGE e = true) : Frag.okE fr e = true := okE_okGE fr e h

/-- **Expressions of the extended fragment are simulated** (`Sim.SimGE`): values, fatal errors and
exceptions as in `call_expr_correct`; the pushed value carries an origin only if `G.fr = true`. -/
theorem expr_correctX (G : GCtx) (hG : G.OK') (fuel : Nat) (A : Act) (hA : A.OK G) (e : Expr) (st : St)
    (ip : Nat) (stk : List SVal) (mem : Mem) (lm : LM) (scopes : CScopes) (vm : List (String × Nat))
    (hs : Frag.okE G.fr e = true) (hws : Frag.wsGE scopes A.φ e = true)
    (hT : ∀ x ∈ Frag.namesGE e, x ∈ A.T)
    (hpl : Placed A.lab A.σ A.c ip (cgE G.mod (ρS scopes) A.φ e lm).1)
    (hrel : StRel G.mod A.T A.N A.σ G.lim A.mp scopes vm st.scopes mem) (hsp : SpecOK G A.mp st) :
    Sim.SimGE G A ip (nI (cgE G.mod (ρS scopes) A.φ e lm).1) stk mem st (evalExpr G.cfg fuel e st) :=
  (allP G hG fuel).pe A hA e st ip stk mem lm scopes vm hs hws hT hpl hrel hsp

/-- **Argument lists of the extended fragment** (`Sim.SimArgs`): at most one argument is not an atom
(finding V13); that one may be a cell read, and then it is on the stack with its origin. -/
theorem args_correctX (G : GCtx) (hG : G.OK') (fuel : Nat) (A : Act) (hA : A.OK G)
    (args : List (String × Expr)) (st : St) (ip : Nat) (stk : List SVal) (mem : Mem) (lm : LM)
    (scopes : CScopes) (vm : List (String × Nat))
    (hs : Frag.okEArgs G.fr args = true) (hone : Frag.oneNonAtom args = true)
    (hws : Frag.wsGArgs scopes A.φ args = true) (hT : ∀ x ∈ Frag.namesGArgs args, x ∈ A.T)
    (hpl : Placed A.lab A.σ A.c ip (cgArgs G.mod (ρS scopes) A.φ args lm).1)
    (hrel : StRel G.mod A.T A.N A.σ G.lim A.mp scopes vm st.scopes mem) (hsp : SpecOK G A.mp st) :
    Sim.SimArgs G A ip (nI (cgArgs G.mod (ρS scopes) A.φ args lm).1) stk mem st
      (evalList G.cfg fuel (args.map (·.2)) st) :=
  (allP G hG fuel).pargs A hA args st ip stk mem lm scopes vm hs hone hws hT hpl hrel hsp

/-- **`l.len()` as an expression**: an instance of `expr_correctX`. -/
theorem lenExpr_correct (G : GCtx) (hG : G.OK') (fuel : Nat) (A : Act) (hA : A.OK G) (csp : Span) (cty : Ty)
    (msp : Span) (mty : Ty) (b : Expr) (st : St)
    (ip : Nat) (stk : List SVal) (mem : Mem) (lm : LM) (scopes : CScopes) (vm : List (String × Nat))
    (e : Expr) (he : e = .call csp cty (.member msp mty b "len" .dot) [] false)
    (hs : Frag.okE G.fr e = true) (hws : Frag.wsGE scopes A.φ e = true)
    (hT : ∀ x ∈ Frag.namesGE e, x ∈ A.T)
    (hpl : Placed A.lab A.σ A.c ip (cgE G.mod (ρS scopes) A.φ e lm).1)
    (hrel : StRel G.mod A.T A.N A.σ G.lim A.mp scopes vm st.scopes mem) (hsp : SpecOK G A.mp st) :
    Sim.SimGE G A ip (nI (cgE G.mod (ρS scopes) A.φ e lm).1) stk mem st (evalExpr G.cfg fuel e st) := by
  subst he
  exact expr_correctX G hG fuel A hA _ st ip stk mem lm scopes vm hs hws hT hpl hrel hsp

section Example20
private def gwhile (c : Expr) (ss : List Stmt) : Stmt := .whileS sp0 c (.mk sp0 .null ss none)
private def glen (l : String) : Expr := gmcall .int l "len" []

/-- `let s = 0; let i = 0; while i < l.len() { if l[i] > 0 { s += l[i]; } i += 1; }` -/
def sumPosStmts : List Stmt :=
  [ .letS sp0 "s" .int false .int (.int sp0 0),
    .letS sp0 "i" .int false .int (.int sp0 0),
    gwhile (.infix sp0 .bool .lt (gv "i") (glen "l"))
      [ gif (.infix sp0 .bool .gt (gidx "l" (gv "i")) (.int sp0 0)) [ gasg .add "s" (gidx "l" (gv "i")) ],
        gasg .add "i" (.int sp0 1) ] ]
/-- `fn sumPos(l: [int]) -> int { …; s }` -/
def sumPosFd : FnDef := gfn "sumPos" ["l"] .int sumPosStmts (some (gv "s"))
/-- `fn first(l: [int]) -> int { l[0] }`: the result is a cell read. -/
def firstFd : FnDef := gfn "first" ["l"] .int [] (some (gidx "l" (.int sp0 0)))
/-- `fn dbl(x: int) -> int { x * 2 }` -/
def dblFd : FnDef := gfn "dbl" ["x"] .int [] (some (.infix sp0 .int .mul (gv "x") (.int sp0 2)))
/-- `fn main() { let l = [3, -1, 4]; l.push(first(l) + l.len()); println(l[3]); println(sumPos(l));
println(dbl(l[1])); }` -/
def main8Stmts : List Stmt :=
  [ .letS sp0 "l" tyL false tyL (.list sp0 tyL [.int sp0 3, .int sp0 (-1), .int sp0 4]),
    gpush "l" (.infix sp0 .int .add (gcall "first" [gl "l"]) (glen "l")),
    gprint [gidx "l" (.int sp0 3)],
    gprint [gcall "sumPos" [gl "l"]],
    gprint [gcall "dbl" [gidx "l" (.int sp0 1)]] ]
def main8Fd : FnDef := gfn "main" [] .null main8Stmts none
def progQ : Program :=
  [{ name := "main", imports := [], singletons := [], globals := [], nImpls := 0,
     fns := [sumPosFd, firstFd, dblFd, main8Fd] }]

/-- The whole program on the models themselves: the specification … -/
example : (match runProgram { prog := progQ } 200 with | .ok out _ => out | _ => "?") = "6\n13\n-2\n" := by
  decide +kernel
/-- … and the VM, which ends with a clean core. -/
example : (match compile progQ "main" 100 with
    | .ok c => (match runMain c {} 50 20000 with
      | .ok s => (s.st.out, s.stack.length, s.mp, s.calls.length) | _ => ("?", 0, 0, 0))
    | .error e => (e, 0, 0, 0)) = ("6\n13\n-2\n", 0, 0, 0) := by
  decide +kernel

def φQ : String → Option String := fun n =>
  if n = "sumPos" then some "@main.sumPos" else if n = "first" then some "@main.first"
  else if n = "dbl" then some "@main.dbl" else none
def symSumPos : SCode := cgFn "main" φQ sumPosFd sumPosStmts (some (gv "s")) [[]] [] []
def symFirst : SCode := cgFn "main" φQ firstFd [] (some (gidx "l" (.int sp0 0))) [[]] [] []
def symDbl : SCode := cgFn "main" φQ dblFd [] (some (.infix sp0 .int .mul (gv "x") (.int sp0 2))) [[]] [] []
def symMain8 : SCode := cgFn "main" φQ main8Fd main8Stmts none [[]] [] []
def codeQ : Code := [⟨"@main.sumPos", renameVars (relG symSumPos)⟩, ⟨"@main.first", renameVars (relG symFirst)⟩,
  ⟨"@main.dbl", renameVars (relG symDbl)⟩, ⟨"@main.main", renameVars (relG symMain8)⟩]

local instance (priority := high) : BEq PVal := ⟨pvalBeq⟩
/-- The real compiler produces `codeQ` (kernel evaluation, instruction by instruction). -/
example : (match compile progQ "main" 100 with
    | .ok c => (c.fns.filter fun f => f.name != "@main.@init").map (fun f => (f.name, f.code))
        == codeQ.map (fun f => (f.name, f.code))
    | .error _ => false) = true := by decide +kernel

def GQ : GCtx :=
  ⟨{ prog := progQ }, codeQ, {}, "main", {}, fun g => g = "sumPos" ∨ g = "first" ∨ g = "dbl", 12, 0, true⟩

private theorem phiQ : PhiOK GQ φQ := by
  intro name f h
  unfold φQ at h
  split at h
  · rename_i hn; subst hn; cases h
    exact ⟨by decide +kernel, Or.inl rfl, sumPosFd, rfl, rfl⟩
  · split at h
    · rename_i hn; subst hn; cases h
      exact ⟨by decide +kernel, Or.inr (Or.inl rfl), firstFd, rfl, rfl⟩
    · split at h
      · rename_i hn; subst hn; cases h
        exact ⟨by decide +kernel, Or.inr (Or.inr rfl), dblFd, rfl, rfl⟩
      · cases h

theorem fnOK_sumPos : FnOK GQ "sumPos" sumPosFd
    ⟨renameVars (relG symSumPos), slotFn (relG symSumPos), labelIndex symSumPos, (· ∈ varNames (relG symSumPos)),
      ["l", "s", "i"], φQ, [[]], [], []⟩ sumPosStmts (gv "s") :=
  fn_compiled_okF GQ sumPosFd sumPosStmts (gv "s") φQ [[]] [] [] ["l", "s", "i"] (relG symSumPos) ⟨sp0, .int, rfl⟩
    (by decide) (relocate_relG _ (by decide +kernel))
    (by
      have h : mangleFnName GQ.mod sumPosFd.name = "@main.sumPos" := by decide +kernel
      rw [h]; simp [findCode, codeQ, GQ])
    (by decide +kernel) (by decide +kernel) (by decide +kernel) (by decide +kernel)
    (by decide +kernel) (by decide +kernel) (by decide +kernel) (by decide +kernel) (by decide +kernel)
    (by decide +kernel) phiQ

theorem fnOK_first : FnOK GQ "first" firstFd
    ⟨renameVars (relG symFirst), slotFn (relG symFirst), labelIndex symFirst, (· ∈ varNames (relG symFirst)),
      ["l"], φQ, [[]], [], []⟩ [] (gidx "l" (.int sp0 0)) :=
  fn_compiled_okF GQ firstFd [] (gidx "l" (.int sp0 0)) φQ [[]] [] [] ["l"] (relG symFirst) ⟨sp0, .int, rfl⟩
    (by decide) (relocate_relG _ (by decide +kernel))
    (by
      have h : mangleFnName GQ.mod firstFd.name = "@main.first" := by decide +kernel
      rw [h]; simp [findCode, codeQ, GQ])
    (by decide +kernel) (by decide +kernel) (by decide +kernel) (by decide +kernel)
    (by decide +kernel) (by decide +kernel) (by decide +kernel) (by decide +kernel) (by decide +kernel)
    (by decide +kernel) phiQ

theorem fnOK_dbl : FnOK GQ "dbl" dblFd
    ⟨renameVars (relG symDbl), slotFn (relG symDbl), labelIndex symDbl, (· ∈ varNames (relG symDbl)),
      ["x"], φQ, [[]], [], []⟩ [] (.infix sp0 .int .mul (gv "x") (.int sp0 2)) :=
  fn_compiled_okF GQ dblFd [] (.infix sp0 .int .mul (gv "x") (.int sp0 2)) φQ [[]] [] [] ["x"] (relG symDbl) ⟨sp0, .int, rfl⟩
    (by decide) (relocate_relG _ (by decide +kernel))
    (by
      have h : mangleFnName GQ.mod dblFd.name = "@main.dbl" := by decide +kernel
      rw [h]; simp [findCode, codeQ, GQ])
    (by decide +kernel) (by decide +kernel) (by decide +kernel) (by decide +kernel)
    (by decide +kernel) (by decide +kernel) (by decide +kernel) (by decide +kernel) (by decide +kernel)
    (by decide +kernel) phiQ

theorem gq_ok : GQ.OK' := by
  refine ⟨?_, by decide, by decide, rfl, rfl, rfl⟩
  intro g fd hK hfind
  rcases hK with rfl | rfl | rfl
  · have h : findFn GQ.cfg.prog GQ.mod "sumPos" = some sumPosFd := rfl
    rw [h] at hfind; cases hfind
    exact ⟨_, _, _, fnOK_sumPos, fun _ => by decide⟩
  · have h : findFn GQ.cfg.prog GQ.mod "first" = some firstFd := rfl
    rw [h] at hfind; cases hfind
    exact ⟨_, _, _, fnOK_first, fun _ => by decide⟩
  · have h : findFn GQ.cfg.prog GQ.mod "dbl" = some dblFd := rfl
    rw [h] at hfind; cases hfind
    exact ⟨_, _, _, fnOK_dbl, fun _ => by decide⟩

theorem fnOK_main8 : FnVoidOK GQ "main" main8Fd
    ⟨renameVars (relG symMain8), slotFn (relG symMain8), labelIndex symMain8, (· ∈ varNames (relG symMain8)),
      ["println", "sumPos", "first", "dbl", "l"], φQ, [[]], [], []⟩ main8Stmts :=
  fn_void_compiled_okF GQ main8Fd main8Stmts φQ [[]] [] [] ["println", "sumPos", "first", "dbl", "l"] (relG symMain8)
    ⟨sp0, .null, rfl⟩ (by decide) (relocate_relG _ (by decide +kernel))
    (by
      have h : mangleFnName GQ.mod main8Fd.name = "@main.main" := by decide +kernel
      rw [h]; simp [findCode, codeQ, GQ])
    (by decide +kernel) (by decide +kernel) (by decide +kernel) (by decide +kernel)
    (by decide +kernel) (by decide +kernel) (by decide +kernel) phiQ

private theorem spec_main8 :
    okOut "6\n13\n-2\n" (callBody GQ.cfg 200 sp0 GQ.mod main8Fd.params main8Fd.body [] stX) = true := by
  decide +kernel

/-- **The program through the theorems**: `main` pushes `first(l) + l.len()` — a call whose result is a cell
read, plus a method call — onto the list, prints an element, the sum `sumPos(l)` — whose `while` condition
is `i < l.len()` and whose `if` condition reads `l[i]` — and `dbl(l[1])`, a call with a cell read as its
argument: the specification's output. -/
example : ∃ K, ∀ quantum, K ≤ quantum → ∀ vfuel, ∃ s',
    run codeQ {} quantum none (vfuel + 1) { calls := [⟨"@main.main", 0⟩] } = .ok s' ∧
    s'.st.out = "6\n13\n-2\n" ∧ s'.mp = 0 ∧ s'.calls = [] := by
  obtain ⟨fuel, hfuel⟩ : ∃ n : Nat, n = 200 := ⟨200, rfl⟩
  have h := entry_runF GQ gq_ok fuel "main" main8Fd _ main8Stmts fnOK_main8 (fun _ => by decide) sp0 stX 0 []
    ⟨[], ⟨[], 0⟩⟩ ⟨fun _ => HeapInv.empty, rfl, rfl, by decide⟩ (by decide) (by decide) (by decide)
  subst hfuel
  have hs := spec_main8
  rcases hev : callBody GQ.cfg 200 sp0 GQ.mod main8Fd.params main8Fd.body [] stX with ⟨res, st'⟩
  rw [hev] at h hs
  cases res with
  | error e => simp [okOut] at hs
  | ok v =>
    simp only [okOut, beq_iff_eq] at hs
    obtain ⟨K, hK⟩ := h
    refine ⟨K, fun quantum hq vfuel => ?_⟩
    obtain ⟨s', hrun, hst, hmp, hcalls, hstk⟩ := hK quantum hq vfuel
    exact ⟨s', hrun, by rw [hst]; exact hs, hmp, hcalls⟩
end Example20

/-! ## 21. Options and strings

`?e` (`Some`) and `none` are in the expression fragment since section 5 (`preOp .some`, the literal
`none`); string concatenation `+`, `==` and `!=` on strings are `binOp` (sections 3–5), `s.len()` is the
method `len` of section 19 on a string. New here: the methods `o.is_some()` and `o.is_none()` as
expressions (`meth0`: methods that read only, never yield `null`, fail only as unsupported), and what the
models say about `o.unwrap()` and `o.unwrap_or(d)`.

`unwrap`/`unwrap_or` are *not* in the simulated fragment: a builtin's `null` result is not pushed by
`Call_Val` (finding V28, `/repo/homescript/runtime/execute.go:131-135`), so `(?null).unwrap()` in a value
position leaves the VM's stack one short while the specification goes on (`unwrap_null_witness`); whether
the payload is `null` is not visible in the program text. Their instruction-level behaviour is stated
below (`unwrap_vm_some`, `unwrap_vm_none`: the catchable exception, `unwrap_vm_null`, `unwrapOr_vm`). -/

/-- **`o.is_some()` / `o.is_none()` in the specification**: a boolean on an option, unsupported on any
other value; the state is not touched. -/
theorem isSome_spec (nm : String) (hnm : nm = "is_some" ∨ nm = "is_none") (recv : Val) (sp : Span) (st : St) :
    (∃ o, recv = .opt o ∧
      callMember recv nm [] sp st = (.ok (.bool (if nm = "is_some" then o.isSome else o.isNone)), st)) ∨
      (∃ w, ∀ st' : St, st'.heap = st.heap → callMember recv nm [] sp st' = (.error (.unsupported w), st')) :=
  callMember_opt0 nm hnm recv sp st

/-- **`Call_Val` on a bound method without arguments** whose result is not `null`: the specification's
`callMember` on the VM's heap, the value pushed. -/
theorem meth0_vm (code : Code) (lim : Limits) (s : VMState) (fn : String) (ip : Nat)
    (rest : List Frame) (mp : Int) (k : Nat) (stk : List SVal) (mem : List (Int × Val)) (out : World)
    (c : List (RInstr × Span)) (hf : findCode code fn = some c) (sp : Span) (nm : String) (recv : Val)
    (o1 o2 : Option Org) (n : Val)
    (hx : c[ip]? = some (.callVal, sp))
    (hr : callMember recv nm [] sp { s.st with heap := out.heap, out := out.out } =
      (.ok n, { s.st with heap := out.heap, out := out.out })) (hn : n ≠ .null) :
    exec1 code lim (mkS s (⟨fn, ip⟩ :: rest) mp k (⟨.int (I64.ofInt 0), o1⟩ :: ⟨.bound recv nm, o2⟩ :: stk) mem out) =
      .next (mkS s (⟨fn, ip + 1⟩ :: rest) mp (k + 1) (⟨n, none⟩ :: stk) mem out) :=
  mkS_callVal_meth0 code lim s fn ip rest mp k stk mem out c hf sp nm recv o1 o2 n hx hr hn

/-- **`o.is_some()`, `o.is_none()`, `x.len()` as expressions are simulated**: instances of `expr_correctX`
(`Frag.okE true` allows `b.m()` for `m ∈ meth0`). -/
theorem meth0_correct (G : GCtx) (hG : G.OK') (fuel : Nat) (A : Act) (hA : A.OK G) (csp : Span) (cty : Ty)
    (msp : Span) (mty : Ty) (b : Expr) (nm : String) (st : St)
    (ip : Nat) (stk : List SVal) (mem : Mem) (lm : LM) (scopes : CScopes) (vm : List (String × Nat))
    (e : Expr) (he : e = .call csp cty (.member msp mty b nm .dot) [] false)
    (hs : Frag.okE G.fr e = true) (hws : Frag.wsGE scopes A.φ e = true)
    (hT : ∀ x ∈ Frag.namesGE e, x ∈ A.T)
    (hpl : Placed A.lab A.σ A.c ip (cgE G.mod (ρS scopes) A.φ e lm).1)
    (hrel : StRel G.mod A.T A.N A.σ G.lim A.mp scopes vm st.scopes mem) (hsp : SpecOK G A.mp st) :
    Sim.SimGE G A ip (nI (cgE G.mod (ρS scopes) A.φ e lm).1) stk mem st (evalExpr G.cfg fuel e st) := by
  subst he
  exact expr_correctX G hG fuel A hA _ st ip stk mem lm scopes vm hs hws hT hpl hrel hsp

/-- **The specification's `unwrap`**: the payload, or the catchable exception on `none`. -/
theorem unwrap_spec (o : Option Val) (sp : Span) (st : St) :
    callMember (.opt o) "unwrap" [] sp st =
      match o with
      | some v => (.ok v, st)
      | none => (.error (.throw "Called 'unwrap' on a 'null' option value" sp), st) := by
  cases o <;> rfl

/-- **The specification's `unwrap_or`**. -/
theorem unwrapOr_spec (o : Option Val) (d : Val) (sp : Span) (st : St) :
    callMember (.opt o) "unwrap_or" [d] sp st = (.ok (o.getD d), st) := rfl

/-- `Call_Val` on `unwrap` of `some v`, `v` not `null`: the payload is pushed. -/
theorem unwrap_vm_some (code : Code) (lim : Limits) (s : VMState) (fn : String) (ip : Nat)
    (rest : List Frame) (mp : Int) (k : Nat) (stk : List SVal) (mem : List (Int × Val)) (out : World)
    (c : List (RInstr × Span)) (hf : findCode code fn = some c) (sp : Span) (v : Val) (o1 o2 : Option Org)
    (hx : c[ip]? = some (.callVal, sp)) (hv : v ≠ .null) :
    exec1 code lim (mkS s (⟨fn, ip⟩ :: rest) mp k
        (⟨.int (I64.ofInt 0), o1⟩ :: ⟨.bound (.opt (some v)) "unwrap", o2⟩ :: stk) mem out) =
      .next (mkS s (⟨fn, ip + 1⟩ :: rest) mp (k + 1) (⟨v, none⟩ :: stk) mem out) :=
  mkS_callVal_meth0 code lim s fn ip rest mp k stk mem out c hf sp "unwrap" _ o1 o2 v hx rfl hv

/-- `Call_Val` on `unwrap` of `none`: the exception `Called 'unwrap' on a 'null' option value` at the span
of the call — an interrupt `Core.Run` dispatches to the innermost handler (`throw_dispatch`). -/
theorem unwrap_vm_none (code : Code) (lim : Limits) (s : VMState) (fn : String) (ip : Nat)
    (rest : List Frame) (mp : Int) (k : Nat) (stk : List SVal) (mem : List (Int × Val)) (out : World)
    (c : List (RInstr × Span)) (hf : findCode code fn = some c) (sp : Span) (o1 o2 : Option Org)
    (hx : c[ip]? = some (.callVal, sp)) :
    exec1 code lim (mkS s (⟨fn, ip⟩ :: rest) mp k
        (⟨.int (I64.ofInt 0), o1⟩ :: ⟨.bound (.opt none) "unwrap", o2⟩ :: stk) mem out) =
      .intr (.throw "Called 'unwrap' on a 'null' option value" sp) (mkS s (⟨fn, ip⟩ :: rest) mp (k + 1) stk mem out) :=
  mkS_callVal_meth0_throw code lim s fn ip rest mp k stk mem out c hf sp "unwrap" _ o1 o2 _ sp hx rfl

/-- `Call_Val` on `unwrap` of `some null`: **nothing is pushed** (finding V28). -/
theorem unwrap_vm_null (code : Code) (lim : Limits) (s : VMState) (fn : String) (ip : Nat)
    (rest : List Frame) (mp : Int) (k : Nat) (stk : List SVal) (mem : List (Int × Val)) (out : World)
    (c : List (RInstr × Span)) (hf : findCode code fn = some c) (sp : Span) (o1 o2 : Option Org)
    (hx : c[ip]? = some (.callVal, sp)) :
    exec1 code lim (mkS s (⟨fn, ip⟩ :: rest) mp k
        (⟨.int (I64.ofInt 0), o1⟩ :: ⟨.bound (.opt (some .null)) "unwrap", o2⟩ :: stk) mem out) =
      .next (mkS s (⟨fn, ip + 1⟩ :: rest) mp (k + 1) stk mem out) :=
  mkS_callVal_meth0_null code lim s fn ip rest mp k stk mem out c hf sp "unwrap" _ o1 o2 hx rfl

/-- `Call_Val` on `unwrap_or(d)`: the payload or the default, pushed unless it is `null`. -/
theorem unwrapOr_vm (code : Code) (lim : Limits) (s : VMState) (fn : String) (ip : Nat)
    (rest : List Frame) (mp : Int) (k : Nat) (stk : List SVal) (mem : List (Int × Val)) (out : World)
    (c : List (RInstr × Span)) (hf : findCode code fn = some c) (sp : Span) (o : Option Val) (d : Val)
    (o1 o2 o3 : Option Org)
    (hx : c[ip]? = some (.callVal, sp)) (hv : o.getD d ≠ .null) :
    exec1 code lim (mkS s (⟨fn, ip⟩ :: rest) mp k
        (⟨.int (I64.ofInt 1), o1⟩ :: ⟨.bound (.opt o) "unwrap_or", o2⟩ :: ⟨d, o3⟩ :: stk) mem out) =
      .next (mkS s (⟨fn, ip + 1⟩ :: rest) mp (k + 1) (⟨o.getD d, none⟩ :: stk) mem out) :=
  mkS_callVal_meth1 code lim s fn ip rest mp k stk mem out c hf sp "unwrap_or" _ d o1 o2 o3 _ hx rfl hv

section Example21
private def tyOI : Ty := .opt .int
private def gopt (x : String) : Expr := .ident sp0 tyOI x false false false
private def gm0 (ty : Ty) (b : Expr) (m : String) : Expr := .call sp0 ty (.member sp0 (.fn [] ty) b m .dot) [] false
private def gasgn' (x : String) (e : Expr) : Stmt := .exprS sp0 (.assign sp0 none (gv x) e)

/-- `let o = ?null; let x = o.unwrap(); println(1);` -/
private def wStmts : List Stmt :=
  [ .letS sp0 "o" (.opt .null) false (.opt .null) (.pre sp0 (.opt .null) .some (.null sp0)),
    .letS sp0 "x" .null false .null (gm0 .null (.ident sp0 (.opt .null) "o" false false false) "unwrap"),
    gprint [.int sp0 1] ]
private def wProg : Program :=
  [{ name := "main", imports := [], singletons := [], globals := [], nImpls := 0,
     fns := [gfn "main" [] .null wStmts none] }]

/-- **Finding V28 on `unwrap`**: with a `null` payload the specification completes (output `1`), the VM
panics with a stack underflow — `Call_Val` pushed nothing for `SetVar x` to pop. -/
theorem unwrap_null_witness :
    (match runProgram { prog := wProg } 200 with | .ok out _ => out | _ => "?") = "1\n" ∧
    (match compile wProg "main" 100 with
      | .ok c => (match runMain c {} 50 20000 with | .panic w _ => w | _ => "?")
      | .error e => e) = "stack underflow" := by
  constructor <;> decide +kernel

/-- `let r = "none"; if o.is_some() { r = "some"; }` -/
def describeStmts : List Stmt :=
  [ .letS sp0 "r" .str false .str (.str sp0 "none"),
    gif (gm0 .bool (gopt "o") "is_some") [ gasgn' "r" (.str sp0 "some") ] ]
/-- `fn describe(o: ?int) -> str { …; r }` -/
def describeFd : FnDef := gfn "describe" ["o"] .str describeStmts (some (gv "r"))
/-- `fn main() { let a = ?5; let b = none; println(describe(a) + "/" + describe(b)); let s = "ab" + "cd";
println(s.len()); println(s == "abcd"); println(b.is_none()); }` -/
def main9Stmts : List Stmt :=
  [ .letS sp0 "a" tyOI false tyOI (.pre sp0 tyOI .some (.int sp0 5)),
    .letS sp0 "b" tyOI false tyOI (.none sp0),
    gprint [.infix sp0 .str .add (.infix sp0 .str .add (gcall "describe" [gopt "a"]) (.str sp0 "/"))
      (gcall "describe" [gopt "b"])],
    .letS sp0 "s" .str false .str (.infix sp0 .str .add (.str sp0 "ab") (.str sp0 "cd")),
    gprint [gm0 .int (gv "s") "len"],
    gprint [.infix sp0 .bool .eq (gv "s") (.str sp0 "abcd")],
    gprint [gm0 .bool (gopt "b") "is_none"] ]
def main9Fd : FnDef := gfn "main" [] .null main9Stmts none
def progR : Program :=
  [{ name := "main", imports := [], singletons := [], globals := [], nImpls := 0, fns := [describeFd, main9Fd] }]

/-- The whole program on the models themselves: the specification … -/
example : (match runProgram { prog := progR } 200 with | .ok out _ => out | _ => "?") =
    "some/none\n4\ntrue\ntrue\n" := by
  decide +kernel
/-- … and the VM, which ends with a clean core. -/
example : (match compile progR "main" 100 with
    | .ok c => (match runMain c {} 50 20000 with
      | .ok s => (s.st.out, s.stack.length, s.mp, s.calls.length) | _ => ("?", 0, 0, 0))
    | .error e => (e, 0, 0, 0)) = ("some/none\n4\ntrue\ntrue\n", 0, 0, 0) := by
  decide +kernel

def φR : String → Option String := fun n => if n = "describe" then some "@main.describe" else none
def symDescribe : SCode := cgFn "main" φR describeFd describeStmts (some (gv "r")) [[]] [] []
def symMain9 : SCode := cgFn "main" φR main9Fd main9Stmts none [[]] [] []
def codeR : Code := [⟨"@main.describe", renameVars (relG symDescribe)⟩, ⟨"@main.main", renameVars (relG symMain9)⟩]

local instance (priority := high) : BEq PVal := ⟨pvalBeq⟩
/-- The real compiler produces `codeR` (kernel evaluation, instruction by instruction). -/
example : (match compile progR "main" 100 with
    | .ok c => (c.fns.filter fun f => f.name != "@main.@init").map (fun f => (f.name, f.code))
        == codeR.map (fun f => (f.name, f.code))
    | .error _ => false) = true := by decide +kernel

def GR : GCtx := ⟨{ prog := progR }, codeR, {}, "main", {}, fun g => g = "describe", 12, 0, true⟩

private theorem phiR : PhiOK GR φR := by
  intro name f h
  unfold φR at h
  split at h
  · rename_i hn; subst hn; cases h
    exact ⟨by decide +kernel, rfl, describeFd, rfl, rfl⟩
  · cases h

theorem fnOK_describe : FnOK GR "describe" describeFd
    ⟨renameVars (relG symDescribe), slotFn (relG symDescribe), labelIndex symDescribe, (· ∈ varNames (relG symDescribe)),
      ["o", "r"], φR, [[]], [], []⟩ describeStmts (gv "r") :=
  fn_compiled_okF GR describeFd describeStmts (gv "r") φR [[]] [] [] ["o", "r"] (relG symDescribe) ⟨sp0, .str, rfl⟩
    (by decide) (relocate_relG _ (by decide +kernel))
    (by
      have h : mangleFnName GR.mod describeFd.name = "@main.describe" := by decide +kernel
      rw [h]; simp [findCode, codeR, GR])
    (by decide +kernel) (by decide +kernel) (by decide +kernel) (by decide +kernel)
    (by decide +kernel) (by decide +kernel) (by decide +kernel) (by decide +kernel) (by decide +kernel)
    (by decide +kernel) phiR

theorem gr_ok : GR.OK' := by
  refine ⟨?_, by decide, by decide, rfl, rfl, rfl⟩
  intro g fd hK hfind
  cases hK
  have h : findFn GR.cfg.prog GR.mod "describe" = some describeFd := rfl
  rw [h] at hfind; cases hfind
  exact ⟨_, _, _, fnOK_describe, fun _ => by decide⟩

theorem fnOK_main9 : FnVoidOK GR "main" main9Fd
    ⟨renameVars (relG symMain9), slotFn (relG symMain9), labelIndex symMain9, (· ∈ varNames (relG symMain9)),
      ["println", "describe", "a", "b", "s"], φR, [[]], [], []⟩ main9Stmts :=
  fn_void_compiled_okF GR main9Fd main9Stmts φR [[]] [] [] ["println", "describe", "a", "b", "s"] (relG symMain9)
    ⟨sp0, .null, rfl⟩ (by decide) (relocate_relG _ (by decide +kernel))
    (by
      have h : mangleFnName GR.mod main9Fd.name = "@main.main" := by decide +kernel
      rw [h]; simp [findCode, codeR, GR])
    (by decide +kernel) (by decide +kernel) (by decide +kernel) (by decide +kernel)
    (by decide +kernel) (by decide +kernel) (by decide +kernel) phiR

private theorem spec_main9 :
    okOut "some/none\n4\ntrue\ntrue\n" (callBody GR.cfg 200 sp0 GR.mod main9Fd.params main9Fd.body [] stX) = true := by
  decide +kernel

/-- **The program through the theorems**: options built with `?5` and `none`, passed to a function that tests
them with `is_some()` in an `if` condition; strings concatenated with `+` (also the results of two calls),
measured with `len()`, compared with `==`; `is_none()` as a `println` argument: the specification's output. -/
example : ∃ K, ∀ quantum, K ≤ quantum → ∀ vfuel, ∃ s',
    run codeR {} quantum none (vfuel + 1) { calls := [⟨"@main.main", 0⟩] } = .ok s' ∧
    s'.st.out = "some/none\n4\ntrue\ntrue\n" ∧ s'.mp = 0 ∧ s'.calls = [] := by
  obtain ⟨fuel, hfuel⟩ : ∃ n : Nat, n = 200 := ⟨200, rfl⟩
  have h := entry_runF GR gr_ok fuel "main" main9Fd _ main9Stmts fnOK_main9 (fun _ => by decide) sp0 stX 0 []
    ⟨[], ⟨[], 0⟩⟩ ⟨fun _ => HeapInv.empty, rfl, rfl, by decide⟩ (by decide) (by decide) (by decide)
  subst hfuel
  have hs := spec_main9
  rcases hev : callBody GR.cfg 200 sp0 GR.mod main9Fd.params main9Fd.body [] stX with ⟨res, st'⟩
  rw [hev] at h hs
  cases res with
  | error e => simp [okOut] at hs
  | ok v =>
    simp only [okOut, beq_iff_eq] at hs
    obtain ⟨K, hK⟩ := h
    refine ⟨K, fun quantum hq vfuel => ?_⟩
    obtain ⟨s', hrun, hst, hmp, hcalls, hstk⟩ := hK quantum hq vfuel
    exact ⟨s', hrun, by rw [hst]; exact hs, hmp, hcalls⟩
end Example21

/-! ## 22. Casts `e as T` to a scalar type

`e as T` is `code(e); Cast(T, perform_cast=true)`. Both sides run the same function on the operand —
`castVal castFuel v T true "" sp` (`value.DeepCast`) —, the VM on its own state. For the target types of
`Frag.castTyOK` (`int`, `float`, `bool`, `str`, `null`, `range`, `any`) the function converts between
`bool`/`int`/`float`, passes a value of the target kind through, and answers everything else with the catchable
cast exception (`Cast error: Incompatible values: …`, at the span of the cast); it looks at the heap only to name
the kind of a container in that message and changes nothing (`cast_scalar`). Casts to list, object and option
types build new containers and stay outside the simulated fragment (`cast_correct_full`). -/

/-- **What `compileExpr` emits for `e as T`** (`Frag.okE true`): `code(e); Cast(T, true)`. -/
theorem compileCast_frag (fuel : Nat) (sp : Span) (ty : Ty) (e : Expr) (cs : CState)
    (hs : Frag.okE true (.cast sp ty e) = true) (hd : Frag.cdE (.cast sp ty e) ≤ fuel)
    (hws : Frag.wsGE cs.scopes (φOf cs) (.cast sp ty e) = true) :
    (compileExpr fuel (.cast sp ty e)).run cs =
      ((), updS cs cs.loops
        ((cgE cs.currModule (ρS cs.scopes) (φOf cs) e cs.labelMangle).1 ++ [(.cast ty true, sp)])
        { envOf cs with lm := (cgE cs.currModule (ρS cs.scopes) (φOf cs) e cs.labelMangle).2 }) := by
  have h := compileExpr_xfrag true fuel _ cs hs hd hws
  rwa [cgE] at h

/-- **The specification's `e as T`**: the operand, then `castVal` with conversions allowed, at the span of the
cast. -/
theorem cast_spec (cfg : Cfg) (fuel : Nat) (sp : Span) (ty : Ty) (e : Expr) (st : St) :
    evalExpr cfg (fuel + 1) (.cast sp ty e) st =
      match evalExpr cfg fuel e st with
      | (.ok v, st1) => castVal castFuel v ty true "" sp st1
      | (.error c, st1) => (.error c, st1) :=
  evalExpr_cast cfg fuel sp ty e st

/-- **A cast to a scalar type reads the heap and writes nothing**: the state is left as it is, the result
depends on the heap only, and an error is the catchable cast exception or lies outside the model (a dangling
reference, `int64(f)` of a float outside the `int64` range). -/
theorem cast_scalar (v : Val) (ty : Ty) (hty : Frag.castTyOK ty = true) (sp : Span) (st : St) :
    (castVal castFuel v ty true "" sp st).2 = st ∧
    (∀ st' : St, st'.heap = st.heap →
      castVal castFuel v ty true "" sp st' = ((castVal castFuel v ty true "" sp st).1, st')) ∧
    (∀ c st', castVal castFuel v ty true "" sp st = (.error c, st') →
      (∃ msg tsp, c = .throw msg tsp) ∨ ∃ w, c = .unsupported w) := by
  obtain ⟨hHO, hErr⟩ := castVal_scalar v ty hty sp
  exact ⟨hHO.state st, fun st' h => hHO st st' h, fun c st' h => hErr st c st' h⟩

/-- **The VM's `Cast`, conversion possible**: the operand on top of the stack is replaced by the converted value
(which carries no origin). -/
theorem cast_vm (code : Code) (lim : Limits) (s : VMState) (fn : String) (ip : Nat)
    (rest : List Frame) (mp : Int) (k : Nat) (stk : List SVal) (mem : List (Int × Val)) (out : World)
    (c : List (RInstr × Span)) (hf : findCode code fn = some c) (sp : Span) (ty : Ty) (allow : Bool) (v v' : Val)
    (o : Option Org) (hx : c[ip]? = some (.cast ty allow, sp))
    (hr : castVal castFuel v ty allow "" sp { s.st with heap := out.heap, out := out.out } =
      (.ok v', { s.st with heap := out.heap, out := out.out })) :
    exec1 code lim (mkS s (⟨fn, ip⟩ :: rest) mp k (⟨v, o⟩ :: stk) mem out) =
      .next (mkS s (⟨fn, ip + 1⟩ :: rest) mp (k + 1) (⟨v', none⟩ :: stk) mem out) :=
  mkS_cast_ok code lim s fn ip rest mp k stk mem out c hf sp ty allow v v' o hx hr

/-- **The VM's `Cast`, conversion impossible**: the catchable exception interrupt with the message and span of
`castVal`; the operand is popped, the instruction pointer stays (the dispatch of `Core.Run` takes over). -/
theorem cast_vm_throw (code : Code) (lim : Limits) (s : VMState) (fn : String) (ip : Nat)
    (rest : List Frame) (mp : Int) (k : Nat) (stk : List SVal) (mem : List (Int × Val)) (out : World)
    (c : List (RInstr × Span)) (hf : findCode code fn = some c) (sp : Span) (ty : Ty) (allow : Bool) (v : Val)
    (o : Option Org) (msg : String) (tsp : Span) (hx : c[ip]? = some (.cast ty allow, sp))
    (hr : castVal castFuel v ty allow "" sp { s.st with heap := out.heap, out := out.out } =
      (.error (.throw msg tsp), { s.st with heap := out.heap, out := out.out })) :
    exec1 code lim (mkS s (⟨fn, ip⟩ :: rest) mp k (⟨v, o⟩ :: stk) mem out) =
      .intr (.throw msg tsp) (mkS s (⟨fn, ip⟩ :: rest) mp (k + 1) stk mem out) :=
  mkS_cast_throw code lim s fn ip rest mp k stk mem out c hf sp ty allow v o msg tsp hx hr

/-- The cast step at full strength: *any* target type — also list, object and option types, where `castVal`
allocates the converted containers. Not proved: it needs `castVal`'s frame property and the preservation of
the heap invariant (`HeapInv`) through the mutual recursion `castVal`/`castList`/`castFields`/`deepCloneFields`;
the two sides still run the same function on the same heap. -/
def cast_correct_full : Prop :=
  ∀ (G : GCtx) (A : Act), A.OK G → ∀ (n : Nat) (sp : Span) (ty : Ty) (e : Expr)
    (st : St) (ip : Nat) (stk : List SVal) (mem : Mem) (lm : LM) (scopes : CScopes),
    Placed A.lab A.σ A.c ip (cgE G.mod (ρS scopes) A.φ (.cast sp ty e) lm).1 →
    SpecOK G A.mp st →
    Sim.SimGE G A ip (nI (cgE G.mod (ρS scopes) A.φ e lm).1) stk mem st (evalExpr G.cfg n e st) →
    Sim.SimGE G A ip (nI ((cgE G.mod (ρS scopes) A.φ e lm).1 ++ [(.cast ty true, sp)])) stk mem st
      (evalExpr G.cfg (n + 1) (.cast sp ty e) st)

/-- **`e as T` is simulated for scalar `T`** (`cast_correct_full` restricted to `Frag.castTyOK`), given the
simulation of `e`: the specification's converted value is what the VM leaves on its stack; the specification's
cast exception (message and span) is the interrupt the VM raises at the `Cast` instruction, with the operand
popped and memory as the operand left it. -/
theorem cast_correct_partial (G : GCtx) (A : Act) (hA : A.OK G) (n : Nat) (sp : Span) (ty : Ty) (e : Expr)
    (hty : Frag.castTyOK ty = true)
    (st : St) (ip : Nat) (stk : List SVal) (mem : Mem) (lm : LM) (scopes : CScopes)
    (hpl : Placed A.lab A.σ A.c ip (cgE G.mod (ρS scopes) A.φ (.cast sp ty e) lm).1)
    (he : Sim.SimGE G A ip (nI (cgE G.mod (ρS scopes) A.φ e lm).1) stk mem st (evalExpr G.cfg n e st)) :
    Sim.SimGE G A ip (nI ((cgE G.mod (ρS scopes) A.φ e lm).1 ++ [(.cast ty true, sp)])) stk mem st
      (evalExpr G.cfg (n + 1) (.cast sp ty e) st) := by
  have h := cast_step G A hA n sp ty e hty st ip stk mem lm scopes hpl he
  rwa [cgE] at h

/-- **Scalar casts anywhere an expression may stand** (`G.fr = true`): an instance of `expr_correctX` — the
expression fragment `Frag.okE true` is closed under `e as T` for `Frag.castTyOK T`, so casts occur in
conditions, arguments, `return`, right-hand sides, inside `try` (where the cast exception is caught). -/
theorem castExpr_correct (G : GCtx) (hG : G.OK') (fuel : Nat) (A : Act) (hA : A.OK G) (sp : Span) (ty : Ty)
    (e0 : Expr) (st : St)
    (ip : Nat) (stk : List SVal) (mem : Mem) (lm : LM) (scopes : CScopes) (vm : List (String × Nat))
    (e : Expr) (he : e = .cast sp ty e0)
    (hs : Frag.okE G.fr e = true) (hws : Frag.wsGE scopes A.φ e = true)
    (hT : ∀ x ∈ Frag.namesGE e, x ∈ A.T)
    (hpl : Placed A.lab A.σ A.c ip (cgE G.mod (ρS scopes) A.φ e lm).1)
    (hrel : StRel G.mod A.T A.N A.σ G.lim A.mp scopes vm st.scopes mem) (hsp : SpecOK G A.mp st) :
    Sim.SimGE G A ip (nI (cgE G.mod (ρS scopes) A.φ e lm).1) stk mem st (evalExpr G.cfg fuel e st) := by
  subst he
  exact expr_correctX G hG fuel A hA _ st ip stk mem lm scopes vm hs hws hT hpl hrel hsp

section Example22
private def spCast : Span := ⟨3, 5, 3, 12⟩
private def gcast (sp : Span) (ty : Ty) (e : Expr) : Expr := .cast sp ty e

/-- `castVal` on the scalars: `true as int = 1`, `5 as bool = true`, `0 as bool = false`; a string is not an
`int`: the cast exception. -/
example :
    (match castVal castFuel (.bool true) .int true "" sp0 {} with | (.ok (.int i), _) => i.toInt | _ => -1) = 1 ∧
    (match castVal castFuel (.int 5) .bool true "" sp0 {} with | (.ok (.bool b), _) => b | _ => false) = true ∧
    (match castVal castFuel (.int 0) .bool true "" sp0 {} with | (.ok (.bool b), _) => b | _ => true) = false ∧
    (match castVal castFuel (.str "x") .int true "" spCast {} with
      | (.error (.throw m sp), _) => (m, sp.sl) | _ => ("?", 0)) =
      ("Cast error: Incompatible values: a value of type 'string' is not compatible with a value of type 'int'", 3) := by
  refine ⟨?_, ?_, ?_, ?_⟩ <;> decide +kernel

/-- `fn toInt(v: any) -> int { v as int }` -/
def toIntE : Expr := gcast spCast .int (gv "v")
def toIntFd : FnDef := gfn "toInt" ["v"] .int [] (some toIntE)
/-- `let b = n as bool; let k = (b as int) + ((n > 2) as int);` -/
def flagStmts : List Stmt :=
  [ .letS sp0 "b" .bool false .bool (gcast sp0 .bool (gv "n")),
    .letS sp0 "k" .int false .int
      (.infix sp0 .int .add (gcast sp0 .int (.ident sp0 .bool "b" false false false))
        (gcast sp0 .int (.infix sp0 .bool .gt (gv "n") (.int sp0 2)))) ]
/-- `fn flag(n: int) -> int { …; k }` -/
def flagFd : FnDef := gfn "flag" ["n"] .int flagStmts (some (gv "k"))
/-- `let r = 0; try { r = toInt(v); println("ok", r); } catch e { println("caught"); r = 0 - 1; }` -/
def safe2Stmts : List Stmt :=
  [ .letS sp0 "r" .int false .int (.int sp0 0),
    gtry [gasgn "r" (gcall "toInt" [gv "v"]), gprint [.str sp0 "ok", gv "r"]] "e"
      [gprint [.str sp0 "caught"], gasgn "r" (.infix sp0 .int .sub (.int sp0 0) (.int sp0 1))] ]
/-- `fn safe(v: any) -> int { …; r }` -/
def safe2Fd : FnDef := gfn "safe" ["v"] .int safe2Stmts (some (gv "r"))
/-- `fn main() { println(flag(5)); println(safe(true)); println(safe("x")); }` -/
def main10Stmts : List Stmt :=
  [ gprint [gcall "flag" [.int sp0 5]], gprint [gcall "safe" [.bool sp0 true]], gprint [gcall "safe" [.str sp0 "x"]] ]
def main10Fd : FnDef := gfn "main" [] .null main10Stmts none
def progC : Program :=
  [{ name := "main", imports := [], singletons := [], globals := [], nImpls := 0,
     fns := [toIntFd, flagFd, safe2Fd, main10Fd] }]

/-- The whole program on the models themselves: the specification … -/
example : (match runProgram { prog := progC } 200 with | .ok out _ => out | _ => "?") =
    "2\nok 1\n1\ncaught\n-1\n" := by
  decide +kernel
/-- … and the VM, which ends with a clean core (no handler left). -/
example : (match compile progC "main" 100 with
    | .ok c => (match runMain c {} 50 20000 with
      | .ok s => (s.st.out, s.stack.length, s.mp, s.handlers.length) | _ => ("?", 0, 0, 0))
    | .error e => (e, 0, 0, 0)) = ("2\nok 1\n1\ncaught\n-1\n", 0, 0, 0) := by
  decide +kernel

def φC : String → Option String := fun n =>
  if n = "toInt" then some "@main.toInt" else if n = "flag" then some "@main.flag"
  else if n = "safe" then some "@main.safe" else none
def symToInt : SCode := cgFn "main" φC toIntFd [] (some toIntE) [[]] [] []
def symFlag : SCode := cgFn "main" φC flagFd flagStmts (some (gv "k")) [[]] [] []
def symSafe2 : SCode := cgFn "main" φC safe2Fd safe2Stmts (some (gv "r")) [[]] [] []
def symMain10 : SCode := cgFn "main" φC main10Fd main10Stmts none [[]] [] []
def codeC : Code := [⟨"@main.toInt", renameVars (relG symToInt)⟩, ⟨"@main.flag", renameVars (relG symFlag)⟩,
  ⟨"@main.safe", renameVars (relG symSafe2)⟩, ⟨"@main.main", renameVars (relG symMain10)⟩]

local instance (priority := high) : BEq PVal := ⟨pvalBeq⟩
/-- The target types of `Cast` are compared constructor by constructor (the derived `BEq` of the nested type `Ty`
is not evaluated by the kernel). -/
private def tyBeqC : Ty → Ty → Bool
  | .int, .int | .float, .float | .bool, .bool | .str, .str | .null, .null | .range, .range | .any, .any => true
  | _, _ => false
private def instrBeqC : RInstr → RInstr → Bool
  | .cast t a, .cast t' a' => tyBeqC t t' && a == a'
  | x, y => x == y
private def codeBeqC (a b : List (RInstr × Span)) : Bool :=
  a.length == b.length && (a.zip b).all fun xy => instrBeqC xy.1.1 xy.2.1 && xy.1.2 == xy.2.2
/-- The real compiler produces `codeC` (kernel evaluation, instruction by instruction). -/
example : (match compile progC "main" 100 with
    | .ok c => (((c.fns.filter fun f => f.name != "@main.@init").zip codeC).all fun fg =>
        fg.1.name == fg.2.name && codeBeqC fg.1.code fg.2.code) &&
        (c.fns.filter fun f => f.name != "@main.@init").length == codeC.length
    | .error _ => false) = true := by decide +kernel

def GC : GCtx :=
  ⟨{ prog := progC }, codeC, {}, "main", {}, fun g => g = "toInt" ∨ g = "flag" ∨ g = "safe", 12, 0, true⟩

private theorem phiC : PhiOK GC φC := by
  intro name f h
  unfold φC at h
  split at h
  · rename_i hn; subst hn; cases h
    exact ⟨by decide +kernel, Or.inl rfl, toIntFd, rfl, rfl⟩
  · split at h
    · rename_i hn; subst hn; cases h
      exact ⟨by decide +kernel, Or.inr (Or.inl rfl), flagFd, rfl, rfl⟩
    · split at h
      · rename_i hn; subst hn; cases h
        exact ⟨by decide +kernel, Or.inr (Or.inr rfl), safe2Fd, rfl, rfl⟩
      · cases h

theorem fnOK_toInt : FnOK GC "toInt" toIntFd
    ⟨renameVars (relG symToInt), slotFn (relG symToInt), labelIndex symToInt, (· ∈ varNames (relG symToInt)),
      ["v"], φC, [[]], [], []⟩ [] toIntE :=
  fn_compiled_okF GC toIntFd [] toIntE φC [[]] [] [] ["v"] (relG symToInt) ⟨sp0, .int, rfl⟩
    (by decide) (relocate_relG _ (by decide +kernel))
    (by
      have h : mangleFnName GC.mod toIntFd.name = "@main.toInt" := by decide +kernel
      rw [h]; simp [findCode, codeC, GC])
    (by decide +kernel) (by decide +kernel) (by decide +kernel) (by decide +kernel)
    (by decide +kernel) (by decide +kernel) (by decide +kernel) (by decide +kernel) (by decide +kernel)
    (by decide +kernel) phiC

theorem fnOK_flag : FnOK GC "flag" flagFd
    ⟨renameVars (relG symFlag), slotFn (relG symFlag), labelIndex symFlag, (· ∈ varNames (relG symFlag)),
      ["n", "b", "k"], φC, [[]], [], []⟩ flagStmts (gv "k") :=
  fn_compiled_okF GC flagFd flagStmts (gv "k") φC [[]] [] [] ["n", "b", "k"] (relG symFlag) ⟨sp0, .int, rfl⟩
    (by decide) (relocate_relG _ (by decide +kernel))
    (by
      have h : mangleFnName GC.mod flagFd.name = "@main.flag" := by decide +kernel
      rw [h]; simp [findCode, codeC, GC])
    (by decide +kernel) (by decide +kernel) (by decide +kernel) (by decide +kernel)
    (by decide +kernel) (by decide +kernel) (by decide +kernel) (by decide +kernel) (by decide +kernel)
    (by decide +kernel) phiC

theorem fnOK_safe2 : FnOK GC "safe" safe2Fd
    ⟨renameVars (relG symSafe2), slotFn (relG symSafe2), labelIndex symSafe2, (· ∈ varNames (relG symSafe2)),
      ["v", "r", "e", "toInt", "println"], φC, [[]], [], []⟩ safe2Stmts (gv "r") :=
  fn_compiled_okF GC safe2Fd safe2Stmts (gv "r") φC [[]] [] [] ["v", "r", "e", "toInt", "println"] (relG symSafe2)
    ⟨sp0, .int, rfl⟩ (by decide) (relocate_relG _ (by decide +kernel))
    (by
      have h : mangleFnName GC.mod safe2Fd.name = "@main.safe" := by decide +kernel
      rw [h]; simp [findCode, codeC, GC])
    (by decide +kernel) (by decide +kernel) (by decide +kernel) (by decide +kernel)
    (by decide +kernel) (by decide +kernel) (by decide +kernel) (by decide +kernel) (by decide +kernel)
    (by decide +kernel) phiC

theorem gc_ok : GC.OK' := by
  refine ⟨?_, by decide, by decide, rfl, rfl, rfl⟩
  intro g fd hK hfind
  rcases hK with rfl | rfl | rfl
  · have h : findFn GC.cfg.prog GC.mod "toInt" = some toIntFd := rfl
    rw [h] at hfind; cases hfind
    exact ⟨_, _, _, fnOK_toInt, fun _ => by decide⟩
  · have h : findFn GC.cfg.prog GC.mod "flag" = some flagFd := rfl
    rw [h] at hfind; cases hfind
    exact ⟨_, _, _, fnOK_flag, fun _ => by decide⟩
  · have h : findFn GC.cfg.prog GC.mod "safe" = some safe2Fd := rfl
    rw [h] at hfind; cases hfind
    exact ⟨_, _, _, fnOK_safe2, fun _ => by decide⟩

theorem fnOK_main10 : FnVoidOK GC "main" main10Fd
    ⟨renameVars (relG symMain10), slotFn (relG symMain10), labelIndex symMain10, (· ∈ varNames (relG symMain10)),
      ["println", "flag", "safe"], φC, [[]], [], []⟩ main10Stmts :=
  fn_void_compiled_okF GC main10Fd main10Stmts φC [[]] [] [] ["println", "flag", "safe"] (relG symMain10)
    ⟨sp0, .null, rfl⟩ (by decide) (relocate_relG _ (by decide +kernel))
    (by
      have h : mangleFnName GC.mod main10Fd.name = "@main.main" := by decide +kernel
      rw [h]; simp [findCode, codeC, GC])
    (by decide +kernel) (by decide +kernel) (by decide +kernel) (by decide +kernel)
    (by decide +kernel) (by decide +kernel) (by decide +kernel) phiC

private theorem spec_main10 :
    okOut "2\nok 1\n1\ncaught\n-1\n" (callBody GC.cfg 200 sp0 GC.mod main10Fd.params main10Fd.body [] stX) = true := by
  decide +kernel

/-- **The program through the theorems**: `flag(5)` converts an `int` to `bool`, a `bool` variable and a
comparison to `int` inside an addition: `2`; `safe(true)` casts `true` to `1` in `toInt`; in `safe("x")` the cast
in `toInt` — one activation below the `try` — raises the cast exception, which `Core.Run` dispatches to the handler
of `safe`: `caught`, `-1`. `run` on the compiled code ends with `ok` and the specification's output. -/
example : ∃ K, ∀ quantum, K ≤ quantum → ∀ vfuel, ∃ s',
    run codeC {} quantum none (vfuel + 1) { calls := [⟨"@main.main", 0⟩] } = .ok s' ∧
    s'.st.out = "2\nok 1\n1\ncaught\n-1\n" ∧ s'.mp = 0 ∧ s'.calls = [] := by
  obtain ⟨fuel, hfuel⟩ : ∃ n : Nat, n = 200 := ⟨200, rfl⟩
  have h := entry_runF GC gc_ok fuel "main" main10Fd _ main10Stmts fnOK_main10 (fun _ => by decide) sp0 stX 0 []
    ⟨[], ⟨[], 0⟩⟩ ⟨fun _ => HeapInv.empty, rfl, rfl, by decide⟩ (by decide) (by decide) (by decide)
  subst hfuel
  have hs := spec_main10
  rcases hev : callBody GC.cfg 200 sp0 GC.mod main10Fd.params main10Fd.body [] stX with ⟨res, st'⟩
  rw [hev] at h hs
  cases res with
  | error e => simp [okOut] at hs
  | ok v =>
    simp only [okOut, beq_iff_eq] at hs
    obtain ⟨K, hK⟩ := h
    refine ⟨K, fun quantum hq vfuel => ?_⟩
    obtain ⟨s', hrun, hst, hmp, hcalls, hstk⟩ := hK quantum hq vfuel
    exact ⟨s', hrun, by rw [hst]; exact hs, hmp, hcalls⟩
end Example22

/-! ## 23. Compound assignment to cells and `?e` by name; what stays outside, with witnesses

`l[i] op= e` and `o.f op= e` are the case `op = some o` of `idxAssign_correct` / `memAssign_correct` (sections 17,
18), `?e` is the prefix operator `some` of the expression fragment (sections 3–5, 20): the statements are
repeated here for these constructs alone, with the instruction the compiler adds (`Duplicate` of the resolved
cell pointer, `Some`). Three constructs stay outside the simulation, each for a reason that is visible on the
models and recorded as a kernel-checked witness: `unwrap_or` (finding V28), `for` over a list (the VM's snapshot
cell), function values (the two sides represent them differently). -/

/-- **What `compileStmt` emits for `l[i] op= e`**: the target is compiled *once* — `code(l); code(i); Index`
leaves the element with the pointer to its cell — and duplicated: `Duplicate; code(e); op; Assign`. -/
theorem compileIdxCompound_frag (fuel : Nat) (sp asp : Span) (o : InfixOp) (isp : Span) (ity : Ty) (b i r : Expr)
    (cs : CState) (fr il rt : Bool)
    (hrt : rt = true → cs.tryDepth = 0) (hil : il = true → ∃ b c rest, cs.loops = (b, c, cs.tryDepth) :: rest)
    (hs : Frag.okFS fr il rt (.exprS sp (.assign asp (some o) (.index isp ity b i) r)) = true)
    (hd : Frag.cdS (.exprS sp (.assign asp (some o) (.index isp ity b i) r)) ≤ fuel)
    (hws : Frag.wsGS cs.currModule cs.currFn (φOf cs) (loopsOf cs.loops)
      (.exprS sp (.assign asp (some o) (.index isp ity b i) r)) (envOf cs) = true) :
    let cl := cgE cs.currModule (ρS cs.scopes) (φOf cs) (.index isp ity b i) cs.labelMangle
    let cr := cgE cs.currModule (ρS cs.scopes) (φOf cs) r cl.2
    (compileStmt fuel (.exprS sp (.assign asp (some o) (.index isp ity b i) r))).run cs =
      ((), updS cs cs.loops (cl.1 ++ [(.dup, asp)] ++ cr.1 ++ (arithI o).map (·, asp) ++ [(.assign, asp)])
        { envOf cs with lm := cr.2 }) :=
  compileIdxAssign_frag fuel sp asp (some o) isp ity b i r cs fr il rt hrt hil hs hd hws

/-- **What `compileStmt` emits for `o.f op= e`**: `code(o); Member f; Duplicate; code(e); op; Assign`. -/
theorem compileMemCompound_frag (fuel : Nat) (sp asp : Span) (o : InfixOp) (msp : Span) (mty : Ty) (b : Expr)
    (name : String) (r : Expr) (cs : CState) (fr il rt : Bool)
    (hrt : rt = true → cs.tryDepth = 0) (hil : il = true → ∃ b c rest, cs.loops = (b, c, cs.tryDepth) :: rest)
    (hs : Frag.okFS fr il rt (.exprS sp (.assign asp (some o) (.member msp mty b name .dot) r)) = true)
    (hd : Frag.cdS (.exprS sp (.assign asp (some o) (.member msp mty b name .dot) r)) ≤ fuel)
    (hws : Frag.wsGS cs.currModule cs.currFn (φOf cs) (loopsOf cs.loops)
      (.exprS sp (.assign asp (some o) (.member msp mty b name .dot) r)) (envOf cs) = true) :
    let cl := cgE cs.currModule (ρS cs.scopes) (φOf cs) (.member msp mty b name .dot) cs.labelMangle
    let cr := cgE cs.currModule (ρS cs.scopes) (φOf cs) r cl.2
    (compileStmt fuel (.exprS sp (.assign asp (some o) (.member msp mty b name .dot) r))).run cs =
      ((), updS cs cs.loops (cl.1 ++ [(.dup, asp)] ++ cr.1 ++ (arithI o).map (·, asp) ++ [(.assign, asp)])
        { envOf cs with lm := cr.2 }) :=
  compileMemAssign_frag fuel sp asp (some o) msp mty b name r cs fr il rt hrt hil hs hd hws

/-- **The VM's `Duplicate`** copies the top of the stack *with its origin*: after it the cell pointer is there
twice — one copy is consumed by the operation, the other by `Assign`. -/
theorem dup_vm (code : Code) (lim : Limits) (s : VMState) (fn : String) (ip : Nat)
    (rest : List Frame) (mp : Int) (k : Nat) (stk : List SVal) (mem : List (Int × Val)) (out : World)
    (c : List (RInstr × Span)) (hf : findCode code fn = some c) (sp : Span) (x : SVal)
    (hx : c[ip]? = some (.dup, sp)) :
    exec1 code lim (mkS s (⟨fn, ip⟩ :: rest) mp k (x :: stk) mem out) =
      .next (mkS s (⟨fn, ip + 1⟩ :: rest) mp (k + 1) (x :: x :: stk) mem out) :=
  mkS_dup code lim s fn ip rest mp k stk mem out c hf sp x hx

/-- **`l[i] op= e` is simulated** (`idxAssign_correct` at `op = some o`; the specification: `idxAssign_spec` —
the slot is resolved once, before the right-hand side; `o` is an arithmetic, comparison or bit operator and `e`
calls no function, finding V38). -/
theorem idxCompound_correct (G : GCtx) (hG : G.OK') (fuel : Nat) (A : Act) (hA : A.OK G)
    (loops : List (String × String)) (lscopes : CScopes) (d : Nat) (sp asp : Span) (o : InfixOp)
    (isp : Span) (ity : Ty) (b i r : Expr) (env : CEnv) (spec : St) (ip : Nat) (stk : List SVal) (mem : Mem)
    (stmt : Stmt) (hstmt : stmt = .exprS sp (.assign asp (some o) (.index isp ity b i) r))
    (hs : Frag.okFS G.fr (!loops.isEmpty) A.rt stmt = true) (hT : ∀ x ∈ Frag.identsGS stmt, x ∈ A.T)
    (hws : Frag.wsGS G.mod A.src A.φ loops stmt env = true)
    (hN : ∀ m ∈ codeVars (cgS G.mod A.src A.φ loops stmt env).1, A.N m)
    (hpl : Placed A.lab A.σ A.c ip (cgS G.mod A.src A.φ loops stmt env).1)
    (hd : 1 ≤ d) (hls : lscopes = env.scopes.drop d)
    (hrel : Sim.GRel G A env.scopes env.vm spec.scopes mem) (hsp : SpecOK G A.mp spec) :
    Sim.SimGS G A loops lscopes d ip (nI (cgS G.mod A.src A.φ loops stmt env).1) stk mem
      (Sim.GRel G A (cgS G.mod A.src A.φ loops stmt env).2.scopes (cgS G.mod A.src A.φ loops stmt env).2.vm) spec
      (evalStmt G.cfg fuel stmt spec) :=
  idxAssign_correct G hG fuel A hA loops lscopes d sp asp (some o) isp ity b i r env spec ip stk mem stmt hstmt hs hT hws
    hN hpl hd hls hrel hsp

/-- **`o.f op= e` is simulated** (`memAssign_correct` at `op = some o`). -/
theorem memCompound_correct (G : GCtx) (hG : G.OK') (fuel : Nat) (A : Act) (hA : A.OK G)
    (loops : List (String × String)) (lscopes : CScopes) (d : Nat) (sp asp : Span) (o : InfixOp)
    (msp : Span) (mty : Ty) (b : Expr) (name : String) (r : Expr) (env : CEnv) (spec : St) (ip : Nat)
    (stk : List SVal) (mem : Mem)
    (stmt : Stmt) (hstmt : stmt = .exprS sp (.assign asp (some o) (.member msp mty b name .dot) r))
    (hs : Frag.okFS G.fr (!loops.isEmpty) A.rt stmt = true) (hT : ∀ x ∈ Frag.identsGS stmt, x ∈ A.T)
    (hws : Frag.wsGS G.mod A.src A.φ loops stmt env = true)
    (hN : ∀ m ∈ codeVars (cgS G.mod A.src A.φ loops stmt env).1, A.N m)
    (hpl : Placed A.lab A.σ A.c ip (cgS G.mod A.src A.φ loops stmt env).1)
    (hd : 1 ≤ d) (hls : lscopes = env.scopes.drop d)
    (hrel : Sim.GRel G A env.scopes env.vm spec.scopes mem) (hsp : SpecOK G A.mp spec) :
    Sim.SimGS G A loops lscopes d ip (nI (cgS G.mod A.src A.φ loops stmt env).1) stk mem
      (Sim.GRel G A (cgS G.mod A.src A.φ loops stmt env).2.scopes (cgS G.mod A.src A.φ loops stmt env).2.vm) spec
      (evalStmt G.cfg fuel stmt spec) :=
  memAssign_correct G hG fuel A hA loops lscopes d sp asp (some o) msp mty b name r env spec ip stk mem stmt hstmt hs hT
    hws hN hpl hd hls hrel hsp

/-- Non-vacuity: the compound assignments `l[-1] += 4` of `progL` (section 17) and `o.y += 5` of `progO`
(section 18) are statements of the fragment, and their code carries the `Duplicate` — both programs run through
the theorems in the examples of those sections. -/
example :
    Frag.okFS true false true (gset (some .add) "l" (.int sp0 (-1)) (.int sp0 4)) = true ∧
    Frag.okFS false false true (gsetf (some .add) (go "o") "y" (.int sp0 5)) = true ∧
    (((cgS "main" "build" φL [] (gset (some .add) "l" (.int sp0 (-1)) (.int sp0 4)) ⟨[[("l", "@main.l.0")]], [], [], 0⟩).1.map
      (·.1)) == [.getVar "@main.l.0", .copyPush (.int (-1)), .index, .dup, .copyPush (.int 4), .add, .assign]) = true := by
  refine ⟨by decide +kernel, by decide +kernel, by decide +kernel⟩

/-- **What `compileExpr` emits for `?e`**: `code(e); Some`. -/
theorem compileSome_frag (mod : String) (ρ φ : String → Option String) (sp : Span) (ty : Ty) (e : Expr) (lm : LM) :
    cgE mod ρ φ (.pre sp ty .some e) lm = ((cgE mod ρ φ e lm).1 ++ [(.some, sp)], (cgE mod ρ φ e lm).2) := by
  simp only [cgE, preI]

/-- **The specification's `?e`**: the value of `e`, wrapped. -/
theorem some_spec (cfg : Cfg) (fuel : Nat) (sp : Span) (ty : Ty) (e : Expr) (st : St) :
    evalExpr cfg (fuel + 1) (.pre sp ty .some e) st =
      match evalExpr cfg fuel e st with
      | (.ok v, st1) => (.ok (.opt (some v)), st1)
      | (.error c, st1) => (.error c, st1) := by
  rw [evalExpr_pre]
  rcases evalExpr cfg fuel e st with ⟨r, st1⟩
  cases r <;> rfl

/-- **`?e` is simulated** (an instance of `expr_correctX`; for `e` without calls and cell reads also of
`compiled_pure_correct`): the VM's `Some` wraps the operand the code of `e` left on the stack. -/
theorem some_correct (G : GCtx) (hG : G.OK') (fuel : Nat) (A : Act) (hA : A.OK G) (sp : Span) (ty : Ty)
    (e0 : Expr) (st : St)
    (ip : Nat) (stk : List SVal) (mem : Mem) (lm : LM) (scopes : CScopes) (vm : List (String × Nat))
    (e : Expr) (he : e = .pre sp ty .some e0)
    (hs : Frag.okE G.fr e = true) (hws : Frag.wsGE scopes A.φ e = true)
    (hT : ∀ x ∈ Frag.namesGE e, x ∈ A.T)
    (hpl : Placed A.lab A.σ A.c ip (cgE G.mod (ρS scopes) A.φ e lm).1)
    (hrel : StRel G.mod A.T A.N A.σ G.lim A.mp scopes vm st.scopes mem) (hsp : SpecOK G A.mp st) :
    Sim.SimGE G A ip (nI (cgE G.mod (ρS scopes) A.φ e lm).1) stk mem st (evalExpr G.cfg fuel e st) := by
  subst he
  exact expr_correctX G hG fuel A hA _ st ip stk mem lm scopes vm hs hws hT hpl hrel hsp

/-- Non-vacuity: `?5` of `progR` (section 21, run through the theorems there) and `?f(x)` with a call inside are in
the fragment; the code of `?5`. -/
example :
    Frag.okE true (.pre sp0 (.opt .int) .some (.int sp0 5)) = true ∧
    Frag.okE false (.pre sp0 (.opt .int) .some (gcall "f" [gv "x"])) = true ∧
    (((cgE "main" (fun _ => none) (fun _ => none) (.pre sp0 (.opt .int) .some (.int sp0 5)) []).1.map (·.1)) ==
      [.copyPush (.int 5), .some]) = true := by
  refine ⟨by decide +kernel, by decide +kernel, by decide +kernel⟩

section Witnesses23
private def progOf (ss : List Stmt) : Program :=
  [{ name := "main", imports := [], singletons := [], globals := [], nImpls := 0, fns := [gfn "main" [] .null ss none] }]

/-- `let o = ?null; let x = o.unwrap_or(null); println(1);` -/
private def uoStmts : List Stmt :=
  [ .letS sp0 "o" (.opt .null) false (.opt .null) (.pre sp0 (.opt .null) .some (.null sp0)),
    .letS sp0 "x" .null false .null
      (.call sp0 .null (.member sp0 (.fn [.null] .null) (.ident sp0 (.opt .null) "o" false false false) "unwrap_or" .dot)
        [("", .null sp0)] false),
    gprint [.int sp0 1] ]

/-- **Finding V28 on `unwrap_or`** (why `o.unwrap_or(d)` is not in the simulated fragment): when the result is
`null` the specification completes (output `1`), the VM panics with a stack underflow — `Call_Val` pushed nothing
for `SetVar x` to pop. Whether the result is `null` is not visible in the program text. -/
theorem unwrapOr_null_witness :
    (match runProgram { prog := progOf uoStmts } 200 with | .ok out _ => out | _ => "?") = "1\n" ∧
    (match compile (progOf uoStmts) "main" 100 with
      | .ok c => (match runMain c {} 50 20000 with | .panic w _ => w | _ => "?")
      | .error e => e) = "stack underflow" := by
  constructor <;> decide +kernel

/-- `let l = [1, 2]; for x in l { println(x); } let m = [3]; println(m);` -/
private def flStmts : List Stmt :=
  [ .letS sp0 "l" tyL false tyL (.list sp0 tyL [.int sp0 1, .int sp0 2]),
    .forS sp0 "x" .int (gl "l") (.mk sp0 .null [gprint [gv "x"]] none),
    .letS sp0 "m" tyL false tyL (.list sp0 tyL [.int sp0 3]),
    gprint [gl "m"] ]

/-- **`for` over a list: the VM's snapshot cell** (why `for x in l` is not in the simulated fragment). The two
sides print the same, but `Clone` allocates a cell for the snapshot of `l` that the specification does not
have (`iterElems` reads the list in place): after the loop the heaps have 3 and 2 cells, and the list `m` lives at
address 2 on the VM and at address 1 in the specification. The simulation of sections 17–22 identifies the two
heaps (same cells at the same addresses); covering this loop needs a relation up to a renaming of addresses
throughout. Iteration itself is covered: `for_correct` (ranges) runs the rounds over an arbitrary element list. -/
theorem forList_snapshot_witness :
    ((fun r : Except Ctl Val × St => (r.2.out, r.2.heap.size))
      (callBody { prog := progOf flStmts } 200 sp0 "main" [] (.mk sp0 .null flStmts none) [] stX)) = ("1\n2\n[3]\n", 2) ∧
    (match compile (progOf flStmts) "main" 100 with
      | .ok c => (match runMain c {} 50 20000 with | .ok s => (s.st.out, s.st.heap.size) | _ => ("?", 0))
      | .error e => (e, 0)) = ("1\n2\n[3]\n", 3) := by
  constructor <;> decide +kernel

/-- `let f = fn(a: int) -> int { a };` -/
private def fLet : Stmt := .letS sp0 "f" (.fn [.int] .int) false (.fn [.int] .int)
  (.lambda sp0 (.fn [.int] .int) [⟨"a", .int, false, ""⟩] .int (.mk sp0 .int [] (some (gv "a"))))
/-- `let f = fn(a: int) -> int { a }; println(f(2));` -/
private def fvStmts : List Stmt :=
  [ fLet, gprint [.call sp0 .int (.ident sp0 (.fn [.int] .int) "f" false false false) [("", .int sp0 2)] false] ]

/-- **Function values are represented differently** (why `Call_Val` through a function value is not in the
simulated fragment). Both sides print `2`; but the variable `f` holds `closure 0` — an index into the state's
closure table — in the specification, and the VM's `Copy_Push` of the compiled literal yields
`fn "" "@main.$lambda_0"`, the name of a separately compiled function. The simulation relates memory cells and
stack operands to the specification's values by equality; function values need a value relation (and the
frame equations a growing closure table) throughout. -/
theorem fnValue_repr_witness :
    (match runProgram { prog := progOf fvStmts } 200 with | .ok out _ => out | _ => "?") = "2\n" ∧
    (match compile (progOf fvStmts) "main" 100 with
      | .ok c => (match runMain c {} 50 20000 with | .ok s => s.st.out | _ => "?")
      | .error e => e) = "2\n" ∧
    (match (evalStmts { prog := progOf fvStmts } 50 [fLet] stX).2.scopes with
      | [[("f", .closure 0)]] => true | _ => false) = true ∧
    (match compile (progOf fvStmts) "main" 100 with
      | .ok c => c.fns.any fun f => f.name == "@main.main" &&
          f.code.any fun i => match i.1 with | .copyPush (.vmFn "@main.$lambda_0") => true | _ => false
      | .error _ => false) = true ∧
    ∀ (st : St) (n : String), pvalToVal st (.vmFn n) = (.fn "" n, st) := by
  refine ⟨by decide +kernel, by decide +kernel, by decide +kernel, by decide +kernel, fun _ _ => rfl⟩
end Witnesses23

end HmsProofs.C01VM
