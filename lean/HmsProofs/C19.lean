import Hms.Print.Expr
import Hms.GenBridge
import HmsProofs.Tables
import HmsProofs.C07
import HmsProofs.Lemmas.PrintPratt
import HmsProofs.Lemmas.PrintStr
import HmsProofs.Lemmas.PrintOpt
/-!
# C19 — printing and optimising a program preserve its meaning

Property theorems only; helper lemmas live in `HmsProofs/Lemmas/Print*.lean`.
-/
namespace HmsProofs.C19
open Hms Hms.Pratt Hms.Print

/-! ## (a) Expression core: print, then parse -/

/-- The printer of the model adds no parentheses of its own: it *is* `Pratt.flatten`
(see `Hms/Print/Expr.lean` for the correspondence with the Go `String()` methods). -/
theorem printer_is_flatten : printTree = flatten := rfl

/-- Printing a normal tree and parsing the text gives the tree back, for every binding-power
table that never lets a closer or a comma continue an expression. -/
theorem print_parse (prec : Prec) (hs : TableSane prec) (t : Tree) (hn : normal prec 0 t = true) :
    parseExpr prec (printTree t) = .ok (t, []) := by
  obtain ⟨n, h⟩ := C07.pratt_correct prec hs 0 t [] hn (by simp [headLbp])
    (by simpa [headLbp] using Lemmas.Pratt.rightSpineOK_zero prec t)
  have := h n (Nat.le_refl _)
  rw [List.append_nil] at this
  exact Lemmas.Print.parseExpr_of_parseE prec this

/-- Whatever the parser returns for a completely consumed input is a normal tree. -/
theorem parse_result_normal (prec : Prec) (ts : List TokKind) (t : Tree)
    (h : parseExpr prec ts = .ok (t, [])) : normal prec 0 t = true :=
  (C07.pratt_sound prec _ 0 ts [] t h).2.1

/-- Hence printing a PARSED expression and parsing the text again gives the same tree. -/
theorem print_parsed_roundtrip (prec : Prec) (hs : TableSane prec) (ts : List TokKind) (t : Tree)
    (h : parseExpr prec ts = .ok (t, [])) :
    parseExpr prec (printTree t) = .ok (t, []) :=
  print_parse prec hs t (parse_result_normal prec ts t h)

/-- Printing is a fixed point after one round: the text printed for a parsed expression parses,
and printing the result gives that text again. -/
theorem print_fixed_point (prec : Prec) (hs : TableSane prec) (ts : List TokKind) (t : Tree)
    (h : parseExpr prec ts = .ok (t, [])) :
    ∃ t', parseExpr prec (printTree t) = .ok (t', []) ∧ printTree t' = printTree t :=
  ⟨t, print_parsed_roundtrip prec hs ts t h, rfl⟩

/-- The same for the regenerated `TokenKind.Prec()` table of the code. -/
theorem print_parsed_roundtrip_gen (ts : List TokKind) (t : Tree)
    (h : parseExpr Gen.prec ts = .ok (t, [])) : parseExpr Gen.prec (printTree t) = .ok (t, []) :=
  print_parsed_roundtrip Gen.prec C07.prec_table_sane ts t h

/-- `10 + -2 ** 2` as the fuzzer builds it from `10 - 2 ** 2` (finding R8): the negated operand
is a power expression directly below the prefix operator. -/
def r8Tree : Tree :=
  .bin (.atom .int) .plus (.pre .minus (.bin (.atom .int) .power (.atom .int)))

/-- A NON-normal tree does not survive printing: the text of `r8Tree` parses to
`10 + (-2) ** 2` — another tree, with another value. (Kernel-checked on the regenerated table.) -/
theorem print_parse_counterexample :
    normal Gen.prec 0 r8Tree = false ∧
    parseExpr Gen.prec (printTree r8Tree)
      = .ok (.bin (.atom .int) .plus (.bin (.pre .minus (.atom .int)) .power (.atom .int)), []) ∧
    parseExpr Gen.prec (printTree r8Tree) ≠ .ok (r8Tree, []) := by
  have h : parseExpr Gen.prec (printTree r8Tree)
      = .ok (.bin (.atom .int) .plus (.bin (.pre .minus (.atom .int)) .power (.atom .int)), []) := by rfl
  refine ⟨by rfl, h, ?_⟩
  rw [h]
  intro e
  cases e

/-- `2 * (7 / 2)` built without a grouped node (swapped operands of `7 / 2 * 2`, finding R8):
the text `2 * 7 / 2` parses to `(2 * 7) / 2`. -/
def r8SwapTree : Tree :=
  .bin (.atom .int) .multiply (.bin (.atom .int) .divide (.atom .int))

theorem print_parse_swap_counterexample :
    normal Gen.prec 0 r8SwapTree = false ∧
    parseExpr Gen.prec (printTree r8SwapTree)
      = .ok (.bin (.bin (.atom .int) .multiply (.atom .int)) .divide (.atom .int), []) := by
  refine ⟨by rfl, by rfl⟩

/-- With the operand wrapped in a grouped node (the repaired fuzzer) the tree is normal and
survives. -/
theorem print_parse_grouped_example :
    parseExpr Gen.prec (printTree (.bin (.atom .int) .plus
        (.pre .minus (.grp (.bin (.atom .int) .power (.atom .int))))))
      = .ok (.bin (.atom .int) .plus (.pre .minus (.grp (.bin (.atom .int) .power (.atom .int)))), []) := by
  rfl

/-! ## (b) String literals: print, then lex -/

/-- For every string value `s`, the literal the printers write — `quote (escape s)`, the model of
`ast.EscapeString` between double quotes — is lexed (by the proved lexer model of C06) as exactly
one token: a string token whose value is `s`, followed by the end of the input, without error. -/
theorem string_literal_roundtrip (s : List Char) :
    (Lex.lexAll (quote s)).tokens.map (fun t => (t.kind, t.value)) = [(TokKind.string, s)]
      ∧ (Lex.lexAll (quote s)).err = none ∧ (Lex.lexAll (quote s)).eof.isSome = true := by
  obtain ⟨h1, h2, h3⟩ := Lemmas.Print.lexAll_quote s
  refine ⟨?_, h2, h3⟩
  rw [h1]
  rfl

/-- Escaping is needed: the text between quotes that the unrepaired parser-AST printer wrote for
the value `"` (finding R1: the value itself, unescaped) does not lex to one string token. -/
theorem unescaped_literal_counterexample :
    (Lex.lexAll ('"' :: ['"'] ++ ['"'])).tokens.map (fun t => (t.kind, t.value)) ≠ [(TokKind.string, ['"'])] := by
  decide

/-! ## (c) The optimizer -/

open Hms.Core Lemmas.Print in
/-- The optimizer's output behaves exactly like its input: for every program, every recorded-type
oracle `isNever` under which statements of recorded type `never` do not complete normally, every
fuel and entry function, the specification semantics gives the same outcome (output, trigger
trace, completion or fatal error) for the optimised program. -/
theorem optimize_preserves (cfg : Cfg) (isNever : Stmt → Bool) (h : NeverDiverges cfg isNever)
    (fuel : Nat) (entry : String) :
    runProgram { cfg with prog := optimizeProgram isNever cfg.prog } fuel entry = runProgram cfg fuel entry :=
  Lemmas.Print.runProgram_optimize cfg isNever h fuel entry

open Hms.Core Lemmas.Print in
/-- The same for a single block, in any state: the block the optimizer builds evaluates to the
same result and final state as the original, at any fuel. -/
theorem optimize_block_preserves (cfg : Cfg) (isNever : Stmt → Bool) (h : NeverDiverges cfg isNever)
    (b : Block) (fuel : Nat) (st : St) :
    evalBlock cfg fuel (optimizeBlock isNever b) st = evalBlock cfg fuel b st := by
  rw [Lemmas.Print.evalBlock_optimize cfg isNever h b fuel]

open Hms.Core Lemmas.Print in
/-- The hypothesis is a theorem for `return`, `break` and `continue` (non-vacuity: dropping what
follows one of them preserves every program unconditionally). -/
theorem optimize_preserves_control (cfg : Cfg) (fuel : Nat) (entry : String) :
    runProgram { cfg with prog := optimizeProgram isControl cfg.prog } fuel entry = runProgram cfg fuel entry :=
  optimize_preserves cfg isControl (control_never_diverges cfg) fuel entry

open Hms.Core in
/-- The optimizer only ever drops a suffix of a statement list, and the number of statements it
keeps is determined by the flags alone (what the tie with the Go optimizer compares). -/
theorem optimize_keeps_prefix (isNever : Stmt → Bool) (stmts : List Stmt) :
    takeThrough isNever stmts <+: stmts
      ∧ (takeThrough isNever stmts).length = keptCount (stmts.map isNever) :=
  ⟨Lemmas.Print.takeThrough_prefix isNever stmts, Lemmas.Print.keptCount_eq isNever stmts⟩

open Hms.Core Lemmas.Print in
/-- The hypothesis is needed (finding A5): `match 0 { 1 => { return; } }` has no default arm and
only diverging arms, so the analyzer records `never` for it — but no arm matches and it completes.
The optimizer drops the `1 / 0;` that follows: the optimised block completes normally, the
original ends in a fatal error. (Kernel-checked evaluation of the specification semantics.) -/
theorem optimize_needs_never_diverges_counterexample :
    recordedNever (fun _ => false) a5Match = true
      ∧ isOk (evalBlock { prog := [] } 8 (optimizeBlock (recordedNever fun _ => false) a5Block) {}) = true
      ∧ isFatal (evalBlock { prog := [] } 8 a5Block {}) = true
      ∧ ¬ NeverDiverges { prog := [] } (recordedNever fun _ => false) := by
  refine ⟨by rfl, by decide, by decide, ?_⟩
  intro h
  have := optimize_block_preserves { prog := [] } (recordedNever fun _ => false) h a5Block 8 {}
  have h1 : isOk (evalBlock { prog := [] } 8 (optimizeBlock (recordedNever fun _ => false) a5Block) {}) = true := by
    decide
  have h2 : isOk (evalBlock { prog := [] } 8 a5Block {}) = false := by decide
  rw [this] at h1
  rw [h1] at h2
  cases h2

end HmsProofs.C19
