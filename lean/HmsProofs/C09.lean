import HmsProofs.Lemmas.VMRun
/-!
# C09 — configured resource limits are enforced as interrupts

Statements about the VM model `Hms.Core.VM` (`step`, `runQuantum`, `run`) for **all** code, all
limits, all fuel. `Reach code lim quantum cancelAt s₀ s`: `s` is a state in which `run`, started in
`s₀`, performs a poll or executes an instruction (`run_describes_reach` ties it to `run`).

* operand stack / call stack: bounded overshoot (`stack_bound`, `callstack_bound`), the limit is
  answered by the fatal interrupt `StackOverFlow` (`limit_interrupt_not_panic`);
* memory: `addMp` keeps `mp < lim.memory` or answers `OutOfMemoryError`; slot accesses outside
  `[0, lim.memory)` are exactly the panic "memory index" (`memory_bound_*`);
* a run whose polls see sizes within the limits is never stopped by them (`no_false_stop`);
* `fuel_monotone`.

That loops and calls of bounded depth neither grow the stack nor the memory pointer (the "run
indefinitely" clause) is `HmsProofs.C02.balanced` (for checked code).
-/
namespace HmsProofs.C09
open Hms.Core Hms.Core.Comp Hms.Core.VM Hms.Core.BcCheck
open HmsProofs.Lemmas.VMStep HmsProofs.Lemmas.VMRun

abbrev Reach := @HmsProofs.Lemmas.VMRun.Reach
abbrev PollReach := @HmsProofs.Lemmas.VMRun.PollReach
abbrev maxPush := HmsProofs.Lemmas.VMRun.maxPush

/-! ## (a) operand stack and call stack -/

/-- One instruction (`Core.runInstruction`) grows the operand stack by at most `maxPush i ≤ 1`
entries and the call stack by at most one frame; an interrupt (throw, fatal, terminate) leaves
both at most as large as before. `maxPush` is exact: 1 for `copyPush`, `cloningPush`, `dup`,
`getVar`, `getGlob`, `iterAdvance` (pops the iterator, pushes two values), 0 otherwise. -/
theorem push_bound (code : Code) (lim : Limits) (s : VMState) (i : RInstr) (sp : Span) :
    maxPush i ≤ 1 ∧
    (∀ s', step code lim s i sp = .next s' →
      s'.stack.length ≤ s.stack.length + maxPush i ∧ s'.calls.length ≤ s.calls.length + 1) ∧
    (∀ x s', step code lim s i sp = .intr x s' →
      s'.stack.length ≤ s.stack.length ∧ s'.calls.length ≤ s.calls.length) := by
  have h := step_bound code lim s i sp
  refine ⟨maxPush_le_one i, ?_, ?_⟩
  · intro s' e; rw [e] at h; exact ⟨h.1, h.2.1⟩
  · intro x s' e; rw [e] at h; exact ⟨h.1, h.2.1⟩

/-- **Bounded overshoot of the operand stack.** In every state in which the Go VM executes an
instruction or polls, the operand stack holds at most `quantum` entries more than the configured
limit (or than it held initially): the poll compares the size with the limit only every
`quantum` instructions, and each instruction (including the push of the error object by the
exception dispatch) adds at most one entry. -/
theorem stack_bound (code : Code) (lim : Limits) (quantum : Nat) (cancelAt : Option Nat) (s₀ s : VMState)
    (h : Reach code lim quantum cancelAt s₀ s) :
    s.stack.length ≤ max s₀.stack.length lim.stack + quantum := by
  have := (reach_bound h).1; omega

/-- The bound in the form of the property statement (each instruction pushes at most two entries). -/
theorem stack_bound_two (code : Code) (lim : Limits) (quantum : Nat) (cancelAt : Option Nat) (s₀ s : VMState)
    (h : Reach code lim quantum cancelAt s₀ s) :
    s.stack.length ≤ max s₀.stack.length lim.stack + 2 * quantum := by
  have := stack_bound code lim quantum cancelAt s₀ s h; omega

/-- **Bounded overshoot of the call stack**: at most `quantum` frames above the limit. -/
theorem callstack_bound (code : Code) (lim : Limits) (quantum : Nat) (cancelAt : Option Nat) (s₀ s : VMState)
    (h : Reach code lim quantum cancelAt s₀ s) :
    s.calls.length ≤ max s₀.calls.length lim.callStack + quantum := by
  have := (reach_bound h).2.1; omega

/-- `Reach` is about `run`: from every poll state `p` of the run from `s₀`, `run` continues as
`run` from `p` with the remaining fuel. -/
theorem run_describes_reach (code : Code) (lim : Limits) (quantum : Nat) (cancelAt : Option Nat) (s₀ p : VMState)
    (h : PollReach code lim quantum cancelAt s₀ p) :
    ∃ k, ∀ fuel, run code lim quantum cancelAt (fuel + k) s₀ = run code lim quantum cancelAt fuel p :=
  run_of_pollReach h

/-! ## (b) memory -/

/-- After every `addMp` the memory pointer is below the limit, or the instruction answers the
fatal interrupt `OutOfMemoryError` (never a panic). -/
theorem memory_bound_addMp (code : Code) (lim : Limits) (s : VMState) (n : Int) (sp : Span) :
    (∃ s', step code lim s (.addMp n) sp = .next s' ∧ s'.mp = s.mp + n ∧ s'.mp < (lim.memory : Int))
    ∨ (∃ msg s', step code lim s (.addMp n) sp = .intr (.fatal "OutOfMemoryError" msg sp) s'
        ∧ (lim.memory : Int) ≤ s.mp + n) := by
  rcases step_addMp code lim s n sp with ⟨h1, h2⟩ | ⟨h1, msg, h2⟩
  · left; exact ⟨_, h2, by simp, by simpa using h1⟩
  · right; exact ⟨msg, _, h2, h1⟩

/-- `getVar k` touches memory only at index `mp - k`, and only if `0 ≤ mp - k < lim.memory`;
otherwise — exactly then — it answers the panic "memory index" (the Go VM's slice index out of
range). `HmsProofs.C02.hcheck_sound_partial` excludes that case for checked code. -/
theorem memory_bound_getVar (code : Code) (lim : Limits) (s : VMState) (k : Nat) (sp : Span) :
    (step code lim s (.getVar k) sp = .panic "memory index" s
        ↔ ¬ (0 ≤ s.mp - (k : Int) ∧ s.mp - (k : Int) < (lim.memory : Int)))
    ∧ (∀ s', step code lim s (.getVar k) sp = .next s' →
        ∃ v, memGet s (s.mp - (k : Int)) = some v ∧ s' = advance (push1 s v)) := by
  rcases step_getVar code lim s k sp with ⟨h1, h2⟩ | ⟨h1, ⟨v, hv, h2⟩ | ⟨hv, h2⟩⟩
  · rw [h2]; exact ⟨⟨fun _ => h1, fun _ => rfl⟩, by intro s' e; cases e⟩
  · rw [h2]; exact ⟨⟨fun e => (by cases e), fun hn => absurd h1 hn⟩, by intro s' e; cases e; exact ⟨v, hv, rfl⟩⟩
  · rw [h2]; exact ⟨⟨fun e => (by simp at e), fun hn => absurd h1 hn⟩, by intro s' e; cases e⟩

/-- `setVar k` writes only the cell `mp - k`, and only if `0 ≤ mp - k < lim.memory`; otherwise
— exactly then, if there is an operand — it answers the panic "memory index". -/
theorem memory_bound_setVar (code : Code) (lim : Limits) (s : VMState) (k : Nat) (sp : Span)
    (x : SVal) (rest : List SVal) (hs : s.stack = x :: rest) :
    (step code lim s (.setVar k) sp = .panic "memory index" s
        ↔ ¬ (0 ≤ s.mp - (k : Int) ∧ s.mp - (k : Int) < (lim.memory : Int)))
    ∧ (∀ s', step code lim s (.setVar k) sp = .next s' →
        s' = advance (memSet { s with stack := rest } (s.mp - (k : Int)) x.v)) := by
  rcases step_setVar code lim s k sp with ⟨h1, _⟩ | ⟨x', rest', hs', ⟨h1, h2⟩ | ⟨h1, h2⟩⟩
  · rw [hs] at h1; cases h1
  · rw [h2]; exact ⟨⟨fun _ => h1, fun _ => rfl⟩, by intro s' e; cases e⟩
  · rw [hs] at hs'; cases hs'
    rw [h2]; exact ⟨⟨fun e => (by cases e), fun hn => absurd h1 hn⟩, by intro s' e; cases e; rfl⟩

/-- **Memory stays within the configured size**: if initially the memory pointer is below the
limit and the cells lie in `[0, lim.memory)` (true for a fresh core), then in every reachable
state the memory pointer is below the limit and at most `lim.memory` cells are in use, all at
indices in `[0, lim.memory)`. -/
theorem memory_bound (code : Code) (lim : Limits) (quantum : Nat) (cancelAt : Option Nat) (s₀ s : VMState)
    (h : Reach code lim quantum cancelAt s₀ s) (h0 : MemOK lim s₀) :
    s.mp < (lim.memory : Int) ∧ (∀ kv ∈ s.mem, 0 ≤ kv.1 ∧ kv.1 < (lim.memory : Int))
      ∧ s.mem.length ≤ lim.memory := by
  have hok := (reach_bound h).2.2 h0
  exact ⟨hok.1, hok.2.1, hok.length_le⟩

/-- A fresh core satisfies the hypothesis of `memory_bound` whenever the memory limit is positive. -/
theorem memOK_fresh (lim : Limits) (h : 0 < lim.memory) (calls : List Frame) :
    MemOK lim { calls := calls } := by
  refine ⟨by simpa using h, by simp, by simp⟩

/-! ## (c) exceeding a limit is a fatal interrupt, never a panic -/

/-- **Exceeding a limit is answered by the corresponding fatal interrupt.**
(1) A poll that finds the operand stack or the call stack above its limit ends the run with
`fatal "StackOverFlow"` in the polled state, for every amount of fuel.
(2) An `addMp` that takes the memory pointer to the limit ends the run's quantum with
`fatal "OutOfMemoryError"`. In neither case is the outcome `Outcome.panic` (a Go panic). -/
theorem limit_interrupt_not_panic (code : Code) (lim : Limits) (quantum : Nat) (cancelAt : Option Nat)
    (s : VMState) :
    (PollExceeds lim cancelAt s →
      ∃ msg sp, ∀ fuel, run code lim quantum cancelAt (fuel + 1) s = .fatal "StackOverFlow" msg sp (pollState s))
    ∧ (∀ f rest c n sp, s.calls = f :: rest → findCode code f.fn = some c → c[f.ip]? = some (.addMp n, sp) →
        (lim.memory : Int) ≤ s.mp + n →
        ∃ msg s', s'.mp = s.mp + n ∧
          ∀ k, runQuantum code lim (k + 1) s = .inr (.fatal "OutOfMemoryError" msg sp s')) := by
  refine ⟨run_exceeds code lim quantum cancelAt s, ?_⟩
  intro f rest c n sp hc hf hi h
  obtain ⟨msg, s', h1, _, _, h4⟩ := runQuantum_oom code lim s f rest c n sp hc hf hi h
  exact ⟨msg, s', h1, h4⟩

/-- The three answers of a poll: terminate (cancelled), `StackOverFlow` (a limit is exceeded),
or the run goes on — exhaustive and exclusive by definition. -/
theorem poll_cases (lim : Limits) (cancelAt : Option Nat) (s : VMState) (h : s.calls ≠ []) :
    cancelled cancelAt (pollState s) = true ∨ PollExceeds lim cancelAt s ∨ PollPass lim cancelAt s :=
  poll_trichotomy lim cancelAt s h

/-! ## (d) no false stop -/

/-- Where a fatal outcome comes from: either a poll found a limit exceeded — then it is
`StackOverFlow` in the polled state — or an instruction of the quantum after a poll that passed
raised it (a fatal of a builtin, `OutOfMemoryError`, an uncaught throw). -/
theorem fatal_origin (code : Code) (lim : Limits) (quantum : Nat) (cancelAt : Option Nat) (fuel : Nat)
    (s₀ : VMState) (k msg : String) (sp : Span) (s : VMState)
    (h : run code lim quantum cancelAt fuel s₀ = .fatal k msg sp s) :
    ∃ p, PollReach code lim quantum cancelAt s₀ p ∧
      ((PollExceeds lim cancelAt p ∧ k = "StackOverFlow" ∧ s = pollState p)
        ∨ (PollPass lim cancelAt p ∧ runQuantum code lim quantum (pollState p) = .inr (.fatal k msg sp s))) :=
  run_fatal_origin code lim quantum cancelAt fuel s₀ k msg sp s h

/-- **A program that stays within the limits is never stopped by them.** If at every poll of
the run the operand stack and the call stack are within their limits, then a fatal outcome of
the run was not raised by a poll: it was raised by an instruction executed after a poll that
passed. -/
theorem no_false_stop (code : Code) (lim : Limits) (quantum : Nat) (cancelAt : Option Nat) (fuel : Nat)
    (s₀ : VMState) (k msg : String) (sp : Span) (s : VMState)
    (hwithin : ∀ p, PollReach code lim quantum cancelAt s₀ p →
      p.stack.length ≤ lim.stack ∧ p.calls.length ≤ lim.callStack)
    (h : run code lim quantum cancelAt fuel s₀ = .fatal k msg sp s) :
    ∃ p, PollReach code lim quantum cancelAt s₀ p ∧ PollPass lim cancelAt p ∧
      runQuantum code lim quantum (pollState p) = .inr (.fatal k msg sp s) := by
  obtain ⟨p, hp, ⟨⟨_, _, hx⟩, _, _⟩ | ⟨hpass, hq⟩⟩ := fatal_origin code lim quantum cancelAt fuel s₀ k msg sp s h
  · have := hwithin p hp; omega
  · exact ⟨p, hp, hpass, hq⟩

/-! ## (e) fuel -/

/-- `run` is a function (deterministic), and more fuel does not change an outcome other than
`outOfFuel`. -/
theorem fuel_monotone (code : Code) (lim : Limits) (quantum : Nat) (cancelAt : Option Nat) (fuel k : Nat)
    (s : VMState) (o : VM.Outcome) (h : run code lim quantum cancelAt fuel s = o)
    (hne : ∀ s', o ≠ .outOfFuel s') : run code lim quantum cancelAt (fuel + k) s = o :=
  run_fuel_mono code lim quantum cancelAt fuel k s o h hne

/-! ## Non-vacuity and sharpness (concrete runs, evaluated by the kernel) -/

section Examples

private def sp0 : Span := ⟨0, 0, 0, 0⟩
private def mk (l : List RInstr) : FnCode := l.map (·, sp0)

/-- Eight pushes in `main`. -/
private def pushes : Code := [{ name := "main", code := mk (List.replicate 8 (.copyPush (.int 7))) }]
private def limS : Limits := { callStack := 10, stack := 1, memory := 10 }
/-- Start with the operand stack exactly at the limit. -/
private def sAt : VMState := { calls := [⟨"main", 0⟩], stack := [⟨.null, none⟩] }

/-- The bound of `stack_bound` is attained: with limit 1 and quantum 3 the run is stopped by
`StackOverFlow` with `1 + 3` entries on the stack — an overshoot of exactly one quantum. -/
theorem stack_bound_tight :
    (match run pushes limS 3 none 5 sAt with
      | .fatal k _ _ s => k == "StackOverFlow" && s.stack.length == limS.stack + 3
      | _ => false) = true := by decide

/-- `Reach` is inhabited beyond the initial state: the state after the first quantum is reachable
and has 4 entries (and `stack_bound` says `≤ max 1 1 + 3`). -/
example : ∃ s, Reach pushes limS 3 none sAt s ∧ s.stack.length = 4 := by
  have hd : (match runQuantum pushes limS 3 (pollState sAt) with
      | .inl s => s.stack.length == 4 | .inr _ => false) = true := by decide
  cases h : runQuantum pushes limS 3 (pollState sAt) with
  | inr o => rw [h] at hd; cases hd
  | inl s =>
    rw [h] at hd
    refine ⟨s, ⟨s, .next .start ⟨by decide, by decide, by decide, by decide⟩ h, Or.inl rfl⟩, by simpa using hd⟩

/-- Exceeding the memory limit is `OutOfMemoryError`. -/
example : (match run [{ name := "main", code := mk [.addMp 20, .ret] }] limS 3 none 5 { calls := [⟨"main", 0⟩] } with
      | .fatal k _ _ s => k == "OutOfMemoryError" && s.mp == 20
      | _ => false) = true := by decide

/-- Exceeding the call-stack limit (unbounded recursion) is `StackOverFlow` with at most
`quantum` frames of overshoot. -/
example : (match run [{ name := "f", code := mk [.callImm "f", .ret] }] { callStack := 4, stack := 5, memory := 5 } 3 none 9
        { calls := [⟨"f", 0⟩] } with
      | .fatal k _ _ s => k == "StackOverFlow" && decide (s.calls.length ≤ 4 + 3)
      | _ => false) = true := by decide

/-- A loop of bounded stack use runs through many polls without being stopped
(`no_false_stop`, `HmsProofs.C02.balanced`): 40 polls of a 3-instruction loop under limit 1. -/
example : (match run [{ name := "main", code := mk [.copyPush (.int 1), .drop, .jump 0] }]
        { callStack := 1, stack := 1, memory := 1 } 3 none 40 { calls := [⟨"main", 0⟩] } with
      | .outOfFuel s => s.stack.length == 0 && s.polls == 40
      | _ => false) = true := by decide +kernel

/-- A fatal that is not the poll's: an uncaught `throw` (cf. `fatal_origin`). -/
example : (match run [{ name := "main", code := mk [.copyPush (.str "x"), .throw] }] limS 3 none 5 { calls := [⟨"main", 0⟩] } with
      | .fatal k _ _ _ => k == "UncaughtThrow"
      | _ => false) = true := by decide

/-- **Discrepancy (by design of the poll).** The limit is only looked at every `quantum`
instructions: a program may hold more entries than the limit between two polls and complete
normally. Here the stack reaches 3 under limit 1 and the run ends `ok`. -/
theorem exceeded_between_polls_unnoticed :
    (match run [{ name := "main", code := mk [.copyPush (.int 1), .copyPush (.int 1), .copyPush (.int 1), .drop, .drop, .drop, .ret] }]
        { callStack := 1, stack := 1, memory := 1 } 50 none 5 { calls := [⟨"main", 0⟩] } with
      | .ok s => s.stack.length == 0
      | _ => false) = true := by decide

/-- **Discrepancy (unchecked bytecode).** "Never by crashing the host" needs the bytecode
checker: `addMp` with a negative operand is not checked against 0, so hand-made code can move the
memory pointer below 0 and the next slot access is the panic "memory index" (a Go slice index
out of range). `hcheck` rejects this code (`HmsProofs.C02`). -/
theorem unchecked_code_can_panic :
    (match run [{ name := "main", code := mk [.addMp (-1), .getVar 0, .ret] }] limS 3 none 5 { calls := [⟨"main", 0⟩] } with
      | .panic why _ => why == "memory index"
      | _ => false) = true
    ∧ hcheck [{ name := "main", code := mk [.addMp (-1), .getVar 0, .ret] }] = false := by decide

end Examples

end HmsProofs.C09
