import Hms.Value.Val
import Hms.Value.Display
import Hms.Value.Json
import Hms.Value.Heap
import HmsProofs.Lemmas.ValEq
import HmsProofs.Lemmas.ValJson
import HmsProofs.Lemmas.ValHeap
import HmsProofs.Lemmas.ValContent
/-!
# C13 — runtime values obey equality, copy and serialisation laws

Property theorems only; lemmas live in `HmsProofs/Lemmas/ValEq.lean`, `ValJson.lean`, `ValHeap.lean`.
The model (`Hms/Value/*.lean`) mirrors `runtime/value` and `interpreter/value` after the proposed
fixes X2, X3, X20 (equality), X10, X11 (display, strings), X4, X24 (JSON).

Standing hypotheses (decidable, evaluated by the driver on every generated case): `v.wf` — objects
are finite maps (no field name twice, at any depth); `v.data` — no function value inside
(a function is not equal to anything, not even to itself).
-/
namespace HmsProofs.C13
open Hms.Value Hms.Value.Heap HmsProofs.Lemmas.ValEq HmsProofs.Lemmas.ValJson HmsProofs.Lemmas.ValHeap

/-! ## `==` is an equivalence -/

theorem eq_refl (v : Val) (hw : v.wf = true) (hd : v.data = true) : v.isEqual v = true :=
  isEqual_refl v hw hd

theorem eq_symm (a b : Val) (ha : a.wf = true) (hb : b.wf = true) (h : a.isEqual b = true) :
    b.isEqual a = true :=
  isEqual_symm a b ha hb h

/-- as a Boolean identity: `a == b` and `b == a` always give the same answer -/
theorem eq_symm_iff (a b : Val) (ha : a.wf = true) (hb : b.wf = true) : a.isEqual b = b.isEqual a := by
  cases h1 : a.isEqual b <;> cases h2 : b.isEqual a <;> try rfl
  · rw [isEqual_symm b a hb ha h2] at h1; cases h1
  · rw [isEqual_symm a b ha hb h1] at h2; cases h2

theorem eq_trans (a b c : Val) (h1 : a.isEqual b = true) (h2 : b.isEqual c = true) : a.isEqual c = true :=
  isEqual_trans a b c h1 h2

/-- `==` holds exactly when the two values have the same structural content (objects as finite
maps; `Hms/Value/Content.lean`). -/
theorem eq_iff_content (a b : Val) (ha : a.wf = true) (hb : b.wf = true) (hd : a.data = true) :
    a.isEqual b = true ↔ content a = content b :=
  ⟨HmsProofs.Lemmas.ValContent.content_of_isEqual a b ha hb,
   HmsProofs.Lemmas.ValContent.isEqual_of_content a b ha hb hd⟩

/-- X2 (fixed by the proposed patch): comparing only the left operand's fields made `==`
asymmetric on any-objects. The model of the fixed code separates the two values both ways. -/
example : let a := Val.anyobj (.cons "a" (.int 1#64) .nil)
          let b := Val.anyobj (.cons "a" (.int 1#64) (.cons "b" (.int 2#64) .nil))
          a.isEqual b = false ∧ b.isEqual a = false := by decide

/-- X3 (fixed): `1..5` and `1..=5` are different ranges. -/
example : (Val.range 1#64 5#64 false).isEqual (.range 1#64 5#64 true) = false := by decide

/-! ## Both runtimes render a value as the same text -/

theorem display_agree (v : Val) : displayVM v = displayTree v :=
  HmsProofs.Lemmas.ValJson.display_agree v

/-- X10 (fixed by the proposed patch): the interpreter printed ranges as `{1}..{5}`. -/
theorem display_range_prefix_counterexample :
    displayTreeRangePreFix 1#64 5#64 ≠ displayVM (.range 1#64 5#64 false) := by decide

/-! ## JSON: marshal, print, parse, unmarshal under the type -/

/-- Typed route (`TypeAwareUnmarshalValue` of the VM library) for both marshallers: a
JSON-representable value of type `T` comes back as an equal value. -/
theorem json_roundtrip (T : Ty) (hT : T.wf = true) (v : Val) (hw : v.wf = true) (hr : jsonRepr T v = true) :
    (∃ j v', marshalVM v = .some j ∧ unmarshalTyped T j = .some v' ∧ v'.isEqual v = true)
    ∧ (∃ j v', marshalTree v = .some j ∧ unmarshalTyped T j = .some v' ∧ v'.isEqual v = true) :=
  ⟨rt_typed _ T hT v hw hr, rt_typed _ T hT v hw hr⟩

/-- The route a program takes (`to_json`, `parse_json`, annotated `let`), for both libraries and
for all values JSON-representable on that route (`jsonReprProg`: every int, not only those below
2^53 — J1: `parse_json` reads an integer spelling exactly as an int and every other number as a
float, so that whole floats such as `2.0` come back as floats; the former X5 zone needs no extra
hypothesis any more): a value written by `to_json`, read by `parse_json` and
bound by an annotated `let` of its type is an equal value. -/
theorem json_roundtrip_prog (T : Ty) (hT : T.wf = true) (v : Val) (hw : v.wf = true)
    (hr : jsonReprProg T v = true) (p : Path) :
    (∃ j v', marshalVM v = .some j ∧ castAll false T (unmarshalUntyped j) p = .ok v' ∧ v'.isEqual v = true)
    ∧ (∃ j v', marshalTree v = .some j ∧ castAll false T (unmarshalUntyped j) p = .ok v' ∧ v'.isEqual v = true) :=
  ⟨rt_prog _ T hT v hw hr p, rt_prog _ T hT v hw hr p⟩

/-- non-vacuity: a nested value in the class, with a whole float -/
example : let T : Ty := .obj (.cons "a" (.list (.opt .int)) (.cons "b" .float .nil))
          let v : Val := .obj (.cons "b" (.flt ⟨2, 0⟩) (.cons "a" (.list (.cons .none (.cons (.some (.int 7#64)) .nil))) .nil))
          T.wf = true ∧ v.wf = true ∧ jsonReprProg T v = true := by decide

/-- non-vacuity: ints beyond 2^53 and at the end of the range are in the class of the program route
(not in the class of the typed route of a host which decodes to float64) -/
example : let T : Ty := .list .int
          let v : Val := .list (.cons (.int 9007199254740993#64) (.cons (.int 9223372036854775807#64) .nil))
          T.wf = true ∧ v.wf = true ∧ jsonReprProg T v = true ∧ jsonRepr T v = false := by decide

/-- The former X5 witness: the float 2.0 is written as `2.0`, read back as the float 2.0 and accepted
by the annotated `let … : float`. -/
theorem json_roundtrip_whole_float :
    marshalVM (.flt ⟨2, 0⟩) = .some (.num ⟨2, 0⟩ false)
    ∧ castAll false .float (unmarshalUntyped (.num ⟨2, 0⟩ false)) [] = .ok (.flt ⟨2, 0⟩) := by
  simp [marshalVM, marshalWith, unmarshalUntyped, castAll]

/-- An int beyond 2^53 is read back exactly by `parse_json` (the typed route of a host which decodes
to float64 rounds it). -/
theorem json_untyped_big_int :
    (marshalVM (.int 9007199254740993#64)).map unmarshalUntyped = .some (.int 9007199254740993#64) := by
  simp [marshalVM, marshalWith, unmarshalUntyped]

/-- X26 (open): the typed unmarshaller of the VM library panics on an any-object type. -/
theorem typed_unmarshal_anyobj_counterexample : unmarshalTyped .anyobj (.obj .nil) = .none := by decide

/-! ## `Clone()` on the cell heap

`Heap.read fuel h a = some v`: the cell `a` of heap `h` denotes the value `v` (`fuel` bounds the
depth). `Closed h`: every reference is in bounds (every heap the runtime builds). -/

/-- A clone is a value with the same content as its original (and the original keeps its own). -/
theorem clone_eq (fuel : Nat) (h : Heap) (a : Nat) (v : Val) (hc : Closed h) (hr : Heap.read fuel h a = some v) :
    ∃ h' r', clone fuel h a = some (h', r') ∧ Heap.read fuel h' r' = some v ∧ Heap.read fuel h' a = some v := by
  obtain ⟨h', r', hcl, hrd⟩ := clone_read fuel h a v hc hr
  obtain ⟨e, _, _⟩ := clone_spec fuel h a h' r' hcl
  exact ⟨h', r', hcl, hrd, by rw [read_ext hc e fuel a (read_some_lt hr)]; exact hr⟩

/-- … so `original == clone` holds, in both directions (well-formed data values). -/
theorem clone_isEqual (v : Val) (hw : v.wf = true) (hd : v.data = true) : v.isEqual v = true :=
  isEqual_refl v hw hd

/-- The clone shares no cell with the original: it lives in freshly appended cells that refer
to freshly appended cells only. -/
theorem clone_fresh (fuel : Nat) (h : Heap) (a : Nat) (h' : Heap) (r' : Nat) (hcl : clone fuel h a = some (h', r')) :
    h.length ≤ r' ∧ r' < h'.length ∧
    ∃ ext : Heap, h' = h ++ ext ∧ ∀ (i : Nat) (node : Node), ext[i]? = some node →
      ∀ r ∈ node.refs, h.length ≤ r ∧ r < h'.length := by
  obtain ⟨e, h1, h2⟩ := clone_spec fuel h a h' r' hcl
  exact ⟨h1, h2, e⟩

/-- No sequence of mutations applied through the clone changes what any cell of the original
heap denotes — in particular the original value. -/
theorem clone_isolated (fuel : Nat) (h : Heap) (a : Nat) (h' : Heap) (r' : Nat) (hc : Closed h)
    (hcl : clone fuel h a = some (h', r')) (ops : List Op) (m b : Nat) (hb : b < h.length) :
    Heap.read m (applyOps h' r' ops) b = Heap.read m h b := by
  obtain ⟨e, h1, _⟩ := clone_spec fuel h a h' r' hcl
  rw [applyOps_read (sep_old hc e) r' (Or.inr h1) ops m b (Nat.zero_le _) hb]
  exact read_ext hc e m b hb

/-- … and no sequence of mutations applied through the original changes the clone. -/
theorem orig_isolated (fuel : Nat) (h : Heap) (a : Nat) (h' : Heap) (r' : Nat) (hc : Closed h) (ha : a < h.length)
    (hcl : clone fuel h a = some (h', r')) (ops : List Op) (m : Nat) :
    Heap.read m (applyOps h' a ops) r' = Heap.read m h' r' := by
  obtain ⟨e, h1, h2⟩ := clone_spec fuel h a h' r' hcl
  exact applyOps_read (sep_new hc e) a (Or.inl ha) ops m r' h1 h2

/-- A shallow copy would not do: sharing one element cell between "clone" and original lets a
mutation through the copy change the original (the model distinguishes the two). -/
theorem shallow_copy_counterexample :
    let h : Heap := [.leaf (.int 1#64), .list [0], .list [0]]     -- cell 2 = shallow copy of the list in cell 1
    let h' := applyOps h 2 [⟨[.index 0], .assign (.int 9#64)⟩]     -- copy[0] = 9
    (Heap.read 3 h 1).map (Val.beq (.list (.cons (.int 1#64) .nil))) = some true
    ∧ (Heap.read 3 h' 1).map (Val.beq (.list (.cons (.int 9#64) .nil))) = some true := by
  decide

end HmsProofs.C13
