import Hms.Conc.Protocol
import Hms.Conc.Poll
import HmsGen.Enums
import HmsProofs.Lemmas.ConcProtocol
import HmsProofs.Lemmas.ConcWait
import HmsProofs.Lemmas.ConcPoll
/-!
# C10 — cancellation always stops execution promptly

Property theorems only (lemmas: `HmsProofs/Lemmas/ConcPoll.lean`, `ConcWait.lean`,
`ConcProtocol.lean`). Models: `Hms/Conc/Poll.lean` (the run loop of one core with an arbitrary
instruction function; the interpreter's poll per node) and `Hms/Conc/Protocol.lean` (Wait,
cores, channels, locks; all interleavings). The quantum is the regenerated constant
`HmsGen.vmQuantum` (`NUM_INSTRUCTIONS_EXECUTE_PER_VCYCLE`).

The claim is *partial* with respect to real time and the Go scheduler: time is counted in
steps of a core (instructions, frame pops) and in steps of `Wait`; that every goroutine keeps
being scheduled, and how long a step takes, is outside the model (sampled by the check).
-/
namespace HmsProofs.C10
open Hms.Conc

def quantum : Nat := HmsGen.vmQuantum

/-- The regenerated quantum is positive (otherwise a core would never poll after its first cycle). -/
theorem quantum_pos : 0 < quantum := by decide

/-- Whatever the program does — `m.step` is an arbitrary function: loops, calls, handlers — if
the context is cancelled from step-time `T` on, a core started at time 0
(1) ends (no fuel problem: `T + 1` loop iterations suffice),
(2) has executed fewer than `T + quantum` steps in total, i.e. fewer than `quantum` after the
    cancellation, and
(3) at a poll that sees the cancellation signals `terminate` without executing anything more. -/
theorem cancel_bounded_vm {σ : Type} (m : Machine σ) (T : Nat) (s : σ) :
    (∃ r, run m quantum T (T + 1) 0 0 [] s = some r ∧ r.t < T + quantum)
    ∧ (∀ fuel t p tr r, run m quantum T fuel t p tr s = some r → r.t ≤ max t (T + quantum - 1))
    ∧ (∀ fuel t p tr, m.empty s = false → T ≤ t →
        run m quantum T (fuel + 1) t p tr s = some ⟨some .terminate, t, p + 1, tr ++ [m.obs s]⟩) := by
  refine ⟨?_, ?_, ?_⟩
  · have h := run_fuel_suffices m quantum T quantum_pos (T + 1) 0 0 [] s (by omega) (by omega)
    obtain ⟨r, hr⟩ := Option.isSome_iff_exists.mp h
    have hb := run_time_bound m quantum T _ _ _ _ _ _ hr
    have := quantum_pos
    exact ⟨r, hr, by omega⟩
  · intro fuel t p tr r h; exact run_time_bound m quantum T fuel t p tr s r h
  · intro fuel t p tr he hT; exact run_cancelled_at_poll m quantum T fuel t p tr s he hT

/-- A core that is started when the context is already cancelled — the successor in a relay of short-lived
threads, say — executes nothing at all: the poll comes before its first instruction, so the relay cannot outlive
the cancellation by way of cores that never reach a poll. (Instance of `cancel_bounded_vm` (3) at time 0.) -/
theorem late_core_runs_nothing {σ : Type} (m : Machine σ) (s : σ) (fuel : Nat) (he : m.empty s = false) :
    run m quantum 0 (fuel + 1) 0 0 [] s = some ⟨some .terminate, 0, 1, [m.obs s]⟩ := by
  simpa using (cancel_bounded_vm m 0 s).2.2 fuel 0 0 [] he (Nat.le_refl 0)

/-- The interpreter polls at every statement and expression: no node is visited at or after the
cancellation, whatever the program does, and the evaluation ends. -/
theorem cancel_bounded_tree {σ : Type} (m : TreeMachine σ) (T : Nat) (s : σ) :
    (∃ r, treeRun m T (T + 1) 0 [] s = some r ∧ r.t ≤ T)
    ∧ (∀ fuel t tr r, treeRun m T fuel t tr s = some r → r.t ≤ max t T) := by
  refine ⟨?_, fun fuel t tr r h => treeRun_time_bound m T fuel t tr s r h⟩
  have h := treeRun_fuel_suffices m T (T + 1) 0 [] s (by omega) (by omega)
  obtain ⟨r, hr⟩ := Option.isSome_iff_exists.mp h
  have := treeRun_time_bound m T _ _ _ _ _ hr
  exact ⟨r, hr, by omega⟩

/-- A termination interrupt is not a normal exception: the handler dispatch of `Run` does not
intercept it. An instruction (a polling builtin) that raises an interrupt ends the cycle with that
interrupt however many handlers are installed, and the termination found at a poll does not look
at the handlers at all: two machines that differ only in their handlers answer alike. -/
theorem cancel_not_catchable {σ : Type} (m : Machine σ) (T c t : Nat) (s s' : σ) (i : Intr)
    (he : m.empty s = false) (hf : m.frameEnd s = false)
    (hs : m.step s (decide (T ≤ t)) = .raise (.intr i) s') :
    inner m T (c + 1) t s = .done (some i) (t + 1)
    ∧ ∀ (h' : σ → Nat) (c' : σ → σ) (q fuel p : Nat) (tr : List Nat), T ≤ t →
        run { m with handlers := h', catch_ := c' } q T (fuel + 1) t p tr s
          = run m q T (fuel + 1) t p tr s := by
  refine ⟨by simp [inner, he, hf, hs], ?_⟩
  intro h' c' q fuel p tr hT
  simp [run, he, hT]

/-- The interpreter's `try` likewise: an interrupt raised by a node ends the evaluation although
handlers are installed. -/
theorem cancel_not_catchable_tree {σ : Type} (m : TreeMachine σ) (T fuel t : Nat) (tr : List Nat) (s s' : σ)
    (i : Intr) (hfin : m.finished s = false) (hT : ¬ T ≤ t) (hs : m.visit s false = .raise (.intr i) s') :
    treeRun m T (fuel + 1) t tr s = some ⟨some i, t + 1, t + 1, tr ++ [m.obs s]⟩ := by
  simp [treeRun, hfin, hT, hs]

/-- `Wait` always returns: in every reachable state of the protocol (all interleavings)
`Wait` is never blocked on its lock; whatever the cores do, its current pass over the snapshot
ends within `3·|rest| + 4` of its own steps; and once every listed core has signalled (which a
cancelled core does at its next poll, `cancel_bounded_vm`) it returns within
`3·|rest| + 3·|listed| + 6` of its own steps. -/
theorem wait_returns (s : PState) (hr : Reach Cfg.fixed s) (ha : s.wait.active = true) :
    (waitStep Cfg.fixed s).isSome = true
    ∧ (∃ k, k ≤ 3 * restLen s.wait + 4 ∧
        ((waitRun Cfg.fixed k s).wait = .top ∨ ∃ r, (waitRun Cfg.fixed k s).wait = .returned r))
    ∧ (Quiet s → ∃ k, k ≤ 3 * restLen s.wait + 3 * s.listed.length + 6 ∧
        ∃ r, (waitRun Cfg.fixed k s).wait = .returned r) := by
  have hi := reach_inv hr
  refine ⟨waitStep_enabled s hi.leaked0 ha, ?_, fun hq => wait_returns_of_quiet s hq ha⟩
  obtain ⟨k, hk, ht⟩ := phase_ends s hi.leaked0 ha
  exact ⟨k, hk, ht.2⟩

/-- A cancelled running core can always take its terminating step, and a running core can always
finish: sending the signal never blocks. -/
theorem core_can_signal (s : PState) (c : Nat) (hc : s.core c = .running .idle) :
    Step Cfg.fixed s { s with core := upd s.core c (.signalled none) }
    ∧ (s.cancelled = true → Step Cfg.fixed s { s with core := upd s.core c (.signalled (some .terminate)) }) :=
  ⟨Step.coreFinish s c none hc (by simp), fun hcan => Step.coreFinish s c (some .terminate) hc (fun _ => hcan)⟩

/-- No core is left blocked: in every reachable state, under every interleaving, no core
goroutine sits in a send on its signal channel — it is running (and can signal, see
`core_can_signal`) or its goroutine has ended; in particular after `Wait` has returned. And the
cancellation is never undone. -/
theorem no_core_left_blocked (s : PState) (hr : Reach Cfg.fixed s) :
    (∀ c sg, s.core c ≠ .sending sg)
    ∧ (∀ c, (s.core c).isLive = true → (∃ g, s.core c = .running g) ∨ ∃ sg, s.core c = .signalled sg)
    ∧ (∀ s', Step Cfg.fixed s s' → s.cancelled = true → s'.cancelled = true) := by
  have hi := reach_inv hr
  refine ⟨hi.no_sending, ?_, fun s' h hc => cancelled_mono h hc⟩
  intro c hl
  cases h : s.core c with
  | absent => simp [h, CoreSt.isLive] at hl
  | running g => exact .inl ⟨g, rfl⟩
  | sending sg => exact absurd h (hi.no_sending c sg)
  | signalled sg => exact .inr ⟨sg, rfl⟩
  | received sg => simp [h, CoreSt.isLive] at hl

/-! ## Non-vacuity and the regression witness of V19 -/

/-- An endless loop with a handler installed (`loop { try { … } catch … }`), cancelled at step 120:
the core signals `terminate` at its fourth poll, after 150 steps. -/
def spin : Machine Nat where
  empty := fun _ => false
  frameEnd := fun _ => false
  popFrame := id
  step := fun s _ => .next (s + 1)
  handlers := fun _ => 1
  catch_ := id
  overLimit := fun _ => false
  obs := id

example : run spin quantum 120 10 0 0 [] 0 = some ⟨some .terminate, 150, 4, [0, 50, 100, 150]⟩ := by decide +kernel

/-- A program that throws in every instruction inside a handler cannot swallow the termination. -/
def thrower : Machine Nat where
  empty := fun _ => false
  frameEnd := fun _ => false
  popFrame := id
  step := fun s _ => .raise .throw_ (s + 1)
  handlers := fun _ => 1
  catch_ := id
  overLimit := fun _ => false
  obs := id

example : (run thrower quantum 7 10 0 0 [] 0).map (·.sig) = some (some .terminate) := by decide +kernel

/-- The state reached by: spawn core 0 and core 1; core 0 fails; `Wait` takes the interrupt, cancels
and returns; core 1 polls, sees the cancellation and sends on its signal channel. -/
def v19Trace (cfg : Cfg) : PState :=
  let s0 := PState.init.spawn.spawn
  let s1 := { s0 with core := upd s0.core 0 (sent cfg (some .fatal)) }
  let s2 := waitRun cfg 4 { s1 with wait := .top }
  { s2 with core := upd s2.core 1 (sent cfg (some .terminate)) }

theorem v19Trace_reach (cfg : Cfg) : Reach cfg (v19Trace cfg) := by
  have r0 : Reach cfg PState.init.spawn.spawn :=
    .step _ _ (.step _ _ .init (.hostSpawn _ (by decide))) (.hostSpawn _ (by simp [PState.lockFree, PState.spawn, PState.init, WaitPc.holdsR]))
  have r1 := Reach.step _ _ r0 (Step.coreFinish (cfg := cfg) PState.init.spawn.spawn 0 (some .fatal)
    (by simp [PState.spawn, PState.init, upd]) (by simp))
  have r1' := Reach.step _ _ r1 (Step.waitStart _ (by simp [PState.spawn, PState.init, WaitPc.active]))
  have r2 := waitRun_reach 4 _ r1'
  refine Reach.step _ _ r2 (Step.coreFinish _ 1 (some .terminate) ?_ ?_)
  · cases cfg with
    | mk b l st => cases b <;> simp [waitRun, waitStep, PState.spawn, PState.init, upd, sent]
  · intro _
    cases cfg with
    | mk b l st => cases b <;> cases l <;> simp [waitRun, waitStep, PState.spawn, PState.init, upd, sent]

/-- V19 (fixed): with unbuffered signal channels, after `Wait` has returned (first interrupt)
core 1 sits in its send, is not listed any more, and stays there whatever happens afterwards
(further spawns, further calls of `Wait`): a goroutine blocked forever behind the host's wait.
With the buffered channel the same trace leaves core 1 finished. -/
theorem v19_counterexample :
    let cfg : Cfg := ⟨false, false, false⟩
    let s := v19Trace cfg
    Reach cfg s ∧ s.wait = .returned (some (0, .fatal)) ∧ s.core 1 = .sending (some .terminate)
      ∧ ∀ s', Steps cfg s s' → s'.core 1 = .sending (some .terminate) := by
  intro cfg s
  have h1 : s.core 1 = .sending (some .terminate) := by
    simp [s, cfg, v19Trace, waitRun, waitStep, PState.spawn, PState.init, upd, sent]
  refine ⟨v19Trace_reach _, ?_, h1, ?_⟩
  · simp [s, cfg, v19Trace, waitRun, waitStep, PState.spawn, PState.init, upd, sent]
  · intro s' hs
    refine sending_unlisted_stuck_forever (cfg := cfg) rfl hs 1 _ h1 ?_ ?_ ?_ <;>
      simp [s, cfg, v19Trace, waitRun, waitStep, PState.spawn, PState.init, upd, sent, snapshotOf]

example : (v19Trace Cfg.fixed).core 1 = .signalled (some .terminate) ∧
    (v19Trace Cfg.fixed).wait = .returned (some (0, .fatal)) := by
  constructor <;> simp [v19Trace, waitRun, waitStep, PState.spawn, PState.init, upd, sent, Cfg.fixed]

end HmsProofs.C10
