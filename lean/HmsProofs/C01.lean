import Hms.Core.Sem
/-!
# C01 — compiled execution is faithful to the source program

Part 1 (this file, unconditional): the specification semantics `Hms.Core` implements the
conventions the property names — 64-bit two's-complement integers, truncating division,
shift rules, short-circuit `&&`/`||`, `for` over a snapshot.
Part 2 (HmsProofs.C01VM, as it lands): the compiler/VM model simulates `specRun`.
-/
namespace HmsProofs.C01
open Hms.Core

/-! ## 64-bit two's complement -/

/-- `+`, `-`, `*` wrap around modulo 2^64 (the result is the true result reduced into the
signed 64-bit range). -/
theorem add_wraps (a b : I64) : (a + b).toInt = (a.toInt + b.toInt).bmod (2 ^ 64) := by
  simp [BitVec.toInt_add]

theorem sub_wraps (a b : I64) : (a - b).toInt = (a.toInt - b.toInt).bmod (2 ^ 64) := by
  simp [BitVec.toInt_sub]

theorem mul_wraps (a b : I64) : (a * b).toInt = (a.toInt * b.toInt).bmod (2 ^ 64) := by
  simp [BitVec.toInt_mul]

theorem neg_wraps (a : I64) : (-a).toInt = (-a.toInt).bmod (2 ^ 64) := by
  simp [BitVec.toInt_neg]

/-- Overflow example of the statement: `MaxInt64 + 1 = MinInt64`. -/
example : ((9223372036854775807 : I64) + 1).toInt = -9223372036854775808 := by decide

/-- Division truncates toward zero and the remainder takes the sign of the dividend
(`MinInt64 / -1` wraps to `MinInt64`). -/
theorem div_truncates (a b : I64) : (a.sdiv b).toInt = (a.toInt.tdiv b.toInt).bmod (2 ^ 64) := by
  simp [BitVec.toInt_sdiv]

theorem rem_sign_of_dividend (a b : I64) : (a.srem b).toInt = a.toInt.tmod b.toInt := by
  simp [BitVec.toInt_srem]

/-- A zero divisor is never a value of `/` or `%`: it is the fatal `ValueError`. -/
theorem div_by_zero_is_fatal (a : I64) (sp : Span) (s : St) :
    ∃ msg, (intOp .div a 0 sp) s = (.error (.fatal "ValueError" msg sp), s)
      ∧ (intOp .rem a 0 sp) s = (.error (.fatal "ValueError" msg sp), s) :=
  ⟨_, rfl, rfl⟩

/-- Shifts by 64 or more give 0 (`<<`), and 0 or −1 by the sign of the left operand (`>>`). -/
theorem shl_large (a b : I64) (h : 64 ≤ b.toNat) : shlI a b = 0 := by
  simp [shlI, h]

theorem shr_large (a b : I64) (h : 64 ≤ b.toNat) : (shrI a b).toInt = if a.toInt < 0 then -1 else 0 := by
  unfold shrI
  have : min b.toNat 64 = 64 := by omega
  rw [this, BitVec.toInt_sshiftRight, Int.shiftRight_eq_div_pow]
  have h1 := BitVec.toInt_lt (x := a)
  have h2 := BitVec.le_toInt (x := a)
  simp at h1 h2
  split <;> omega

/-- A negative shift count is the fatal `ValueError`, never a value. -/
theorem negative_shift_is_fatal (a b : I64) (sp : Span) (s : St) (h : b.toInt < 0) :
    (intOp .shl a b sp) s = (.error (.fatal "ValueError" "Negative shift count: this is operation is illegal" sp), s)
      ∧ (intOp .shr a b sp) s = (.error (.fatal "ValueError" "Negative shift count: this is operation is illegal" sp), s) := by
  constructor <;> simp [intOp, h] <;> rfl

/-! ## Short-circuit evaluation -/

/-- `l && r` does not evaluate `r` when `l` is false; `l || r` does not when `l` is true:
the result and the state are those after `l`. -/
theorem and_short_circuits (cfg : Cfg) (fuel : Nat) (sp : Span) (ty : Ty) (l r : Expr) (s s' : St)
    (h : evalExpr cfg fuel l s = (.ok (.bool false), s')) :
    evalExpr cfg (fuel + 1) (.infix sp ty .and l r) s = (.ok (.bool false), s') := by
  simp [evalExpr, bind, ExceptT.bind, ExceptT.mk, ExceptT.bindCont, StateT.bind, h, pure, ExceptT.pure, StateT.pure]

theorem or_short_circuits (cfg : Cfg) (fuel : Nat) (sp : Span) (ty : Ty) (l r : Expr) (s s' : St)
    (h : evalExpr cfg fuel l s = (.ok (.bool true), s')) :
    evalExpr cfg (fuel + 1) (.infix sp ty .or l r) s = (.ok (.bool true), s') := by
  simp [evalExpr, bind, ExceptT.bind, ExceptT.mk, ExceptT.bindCont, StateT.bind, h, pure, ExceptT.pure, StateT.pure]

/-! ## `for` iterates over a snapshot -/

/-- The elements a `for` loop visits are fixed when the loop starts: `forRun` receives the list
of elements, and no heap update made by the body can change it. In particular pushing to the
list inside the body does not add iterations. -/
theorem for_visits_snapshot (cfg : Cfg) (fuel : Nat) (name : String) (x : Val) (xs : List Val)
    (body : Block) (s s' : St) (v : Val)
    (h : (inScope (do declare name x; evalBlock cfg fuel body)) s = (.ok v, s')) :
    forRun cfg (fuel + 1) name (x :: xs) body s = forRun cfg fuel name xs body s' := by
  simp only [forRun]
  rw [h]

/-! ## Singletons -/

/-- A singleton the host provides starts as the host's value … -/
theorem singleton_starts_as_host_value (host : HostSingletons) (name : String) (t : Ty) (hv : HostVal)
    (h : host.lookup name = some hv) : singletonInit host name t = hostToVal hv := by
  simp [singletonInit, h]

/-- … every other singleton as the zero value of its type. -/
theorem singleton_starts_as_zero_value (host : HostSingletons) (name : String) (t : Ty)
    (h : host.lookup name = none) : singletonInit host name t = zeroValue t := by
  simp [singletonInit, h]

/-- A host that provides nothing (the default configuration) gives every singleton its zero value. -/
theorem no_host_singletons (name : String) (t : Ty) : singletonInit [] name t = zeroValue t := rfl

/-- **Extraction.** A function `fn f(c: $S, a: T)` is called with the normal argument only; the
activation binds `a` to the argument and `c` to the current value of the module's singleton `$S`
(the value itself: an object or list is shared with `$S` and with every other extraction, a scalar
is copied), whatever the caller's scopes are. -/
theorem extraction_binds_singleton (cfg : Cfg) (fuel : Nat) (sp : Span) (m c a sname sname' : String) (tc ta : Ty)
    (stmts : List Stmt) (e : Option Expr) (bsp : Span) (bty : Ty) (v g : Val) (s s₁ : St) (r : Val)
    (hd : ¬ s.depth > cfg.callLimit) (hg : s.globals.lookup (m, sname) = some g)
    (h : evalBlock cfg fuel (.mk ⟨0,0,0,0⟩ .null stmts e)
          { s with scopes := [[(c, g), (a, v)]], module := m, depth := s.depth + 1 } = (.ok r, s₁)) :
    callBody cfg (fuel + 1) sp m [⟨c, tc, true, sname⟩, ⟨a, ta, false, sname'⟩] (.mk bsp bty stmts e) [v] s
      = (.ok r, { s₁ with scopes := s.scopes, module := s.module, depth := s.depth }) := by
  simp [callBody, hd, hg, h]

/-- The caller cannot pass the singleton: an argument list as long as the full parameter list is
outside the language (the analyzer rejects it; here the call is not given a meaning). -/
theorem extraction_takes_no_argument (cfg : Cfg) (fuel : Nat) (sp : Span) (m c a sname sname' : String) (tc ta : Ty)
    (body : Block) (v w : Val) (s : St) (hd : ¬ s.depth > cfg.callLimit) :
    callBody cfg (fuel + 1) sp m [⟨c, tc, true, sname⟩, ⟨a, ta, false, sname'⟩] body [w, v] s
      = (.error (.unsupported "arity"), s) := by
  simp [callBody, hd]

end HmsProofs.C01
