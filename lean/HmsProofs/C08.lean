import Hms.Pos.Render
import HmsProofs.C06
import HmsProofs.Lemmas.PosRender
import HmsProofs.Lemmas.PosSpans
/-!
# C08 — every reported position is real, points at the culprit and can be rendered

Property theorems only; helper lemmas live in `HmsProofs/Lemmas/PosRender.lean` and
`HmsProofs/Lemmas/PosSpans.lean`.

`renderErrOK src sp` / `renderDiagOK src sp` (Hms/Pos/Render.lean) transcribe the index and
`strings.Repeat` arithmetic of `errors.Error.Display` / `diagnostic.Diagnostic.Display`: they are
`true` iff the Go code indexes `lines[...]` in range and never passes a negative count to `Repeat`
(64-bit wrap-around included). The check compares them with what the two Go functions actually do
on arbitrary spans and on every span the analyzer and the parser report.

`InText src sp`: both ends are real positions of `src` (index ≤ number of runes; line and column
are those of the independent description `Spec.locAt`). `WholeFile sp`: the all-zero span.
-/
namespace HmsProofs.C08
open Hms Hms.Lex Hms.Pos

/-- The renderers use 64-bit arithmetic; below 2^32 runes nothing can wrap (the property speaks
of texts up to 64 KiB). -/
abbrev sizeBound : Nat := Lemmas.PosRender.sizeBound

/-! ## Rendering -/

/-- The statement at full strength: a whole-file or in-text span, start not after end, can be
rendered by both renderers. It is FALSE of the code: `errors.Error.Display` has no case for the
whole-file span (see `render_err_whole_file_counterexample`). -/
def render_safe_full : Prop :=
  ∀ (src : List Char) (sp : Span), src.length < sizeBound → (InText src sp ∨ WholeFile sp) → Ordered sp →
    renderErrOK src sp = true ∧ renderDiagOK src sp = true

/-- What holds: every span whose ends are real positions of the text, start not after end, is
rendered by BOTH renderers without an index out of range or a negative `Repeat` count — on every
text, for single-line and multi-line spans, at the end of input, with multi-byte characters;
and the whole-file span is rendered by `Diagnostic.Display`. The missing case — `Error.Display`
on the whole-file span — is excluded by the check's oracle: a syntax error never carries it. -/
theorem render_safe_partial (src : List Char) (sp : Span) (hsize : src.length < sizeBound) :
    (InText src sp → Ordered sp → renderErrOK src sp = true ∧ renderDiagOK src sp = true)
      ∧ (WholeFile sp → renderDiagOK src sp = true) :=
  ⟨Lemmas.PosRender.render_safe src sp hsize, Lemmas.PosRender.render_diag_whole_file src sp⟩

/-- In-text spans: the form used for syntax errors and located diagnostics. -/
theorem render_safe (src : List Char) (sp : Span) (hsize : src.length < sizeBound)
    (hin : InText src sp) (hord : Ordered sp) :
    renderErrOK src sp = true ∧ renderDiagOK src sp = true :=
  Lemmas.PosRender.render_safe src sp hsize hin hord

/-- The same for a program text that is not valid UTF-8 (Go decodes every invalid byte to one
U+FFFD rune, so a line has at least as many bytes as runes and at most four times as many): the
conclusion only needs that much about the byte lengths `bl k` of the lines. -/
theorem render_safe_any_encoding (bl : Nat → Nat) (src : List Char) (sp : Span)
    (hbl : Lemmas.PosRender.ByteLens bl src) (hsize : src.length < sizeBound)
    (hin : InText src sp) (hord : Ordered sp) :
    renderErrOK src sp = true ∧ renderDiagOKWith bl src sp = true :=
  Lemmas.PosRender.render_safe_with bl src sp hbl hsize hin hord

/-- The all-zero span makes `errors.Error.Display` index `lines[-1]` (Go: index out of range). -/
theorem render_err_whole_file_counterexample :
    WholeFile ⟨Loc.zero, Loc.zero⟩ ∧ Ordered ⟨Loc.zero, Loc.zero⟩
      ∧ renderErrOK "ab\ncd".toList ⟨Loc.zero, Loc.zero⟩ = false
      ∧ renderDiagOK "ab\ncd".toList ⟨Loc.zero, Loc.zero⟩ = true := by decide

theorem render_safe_full_false : ¬ render_safe_full := by
  intro h
  have := (h "ab\ncd".toList ⟨Loc.zero, Loc.zero⟩ (by decide) (Or.inr (by decide)) (by decide)).1
  revert this
  decide

/-- End column before start column on one line: both renderers call `Repeat` with a negative
count (the hypothesis `Ordered` of `render_safe` is needed). -/
theorem render_reversed_counterexample :
    renderErrOK "ab\ncd".toList ⟨⟨1, 5, 4⟩, ⟨1, 2, 1⟩⟩ = false
      ∧ renderDiagOK "ab\ncd".toList ⟨⟨1, 5, 4⟩, ⟨1, 2, 1⟩⟩ = false := by decide

/-- Start line past the last line: both renderers index `lines` out of range (the hypothesis
`InText` is needed). -/
theorem render_line_past_end_counterexample :
    renderErrOK "ab\ncd".toList ⟨⟨3, 1, 6⟩, ⟨3, 1, 6⟩⟩ = false
      ∧ renderDiagOK "ab\ncd".toList ⟨⟨3, 1, 6⟩, ⟨3, 1, 6⟩⟩ = false := by decide

/-- A multi-line diagnostic whose start column lies beyond the end of its line: negative count of
the `~~~ ...` marker (only `Diagnostic.Display` has this form). -/
theorem render_column_past_line_counterexample :
    renderErrOK "ab\ncd".toList ⟨⟨1, 9, 8⟩, ⟨2, 1, 3⟩⟩ = true
      ∧ renderDiagOK "ab\ncd".toList ⟨⟨1, 9, 8⟩, ⟨2, 1, 3⟩⟩ = false := by decide

/-! ## Spans of the lexed stream -/

/-- Every token of the (proved) lexer model carries a span that lies in the text, start ≤ end. -/
theorem tok_span_wf (src : List Char) (ps : List Piece)
    (h : pieces (src.length + 1) Loc.start src = .inl (.ok ps)) :
    ∀ t ∈ (lexAll src).tokens, InText src ⟨t.start, t.stop⟩ ∧ Ordered ⟨t.start, t.stop⟩ := by
  rw [(C06.lex_stream_ok src ps h).1]
  exact Lemmas.PosSpans.tok_span_wf src ps (C06.lexer_meets_spec src ps h)

/-- The EOF token sits at the end-of-input position, which is a real position. -/
theorem eof_span_wf (src : List Char) (ps : List Piece)
    (h : pieces (src.length + 1) Loc.start src = .inl (.ok ps)) :
    ∃ t, (lexAll src).eof = some t ∧ InText src ⟨t.start, t.stop⟩ ∧ Ordered ⟨t.start, t.stop⟩ :=
  ⟨_, (C06.lex_stream_ok src ps h).2.2,
    ⟨Nat.le_refl _, Nat.le_refl _, rfl, rfl⟩, Nat.le_refl _⟩

/-- A lexical error carries a span that lies in the text, start ≤ end. -/
theorem lex_error_span_wf (src : List Char) (e : LexErr)
    (h : pieces (src.length + 1) Loc.start src = .inl (.error e)) :
    (lexAll src).err = some e ∧ InText src ⟨e.start, e.stop⟩ ∧ Ordered ⟨e.start, e.stop⟩ := by
  obtain ⟨h1, h2, h3, h4, h5⟩ := C06.lex_error_span src e h
  exact ⟨h1, ⟨by simp only; omega, h3, h4, h5⟩, h2⟩

/-- `start_i.Until(end_j)` — how the parser builds the range of every construct from the first
token it saw and the last token it consumed — is a well-formed in-text span whenever `i ≤ j`. -/
theorem until_wf (src : List Char) (ps : List Piece)
    (h : pieces (src.length + 1) Loc.start src = .inl (.ok ps))
    (i j : Nat) (hij : i ≤ j) (hj : j < (lexAll src).tokens.length) :
    InText src (spanUntil ((lexAll src).tokens[i]'(by omega)).start ((lexAll src).tokens[j]'hj).stop)
      ∧ Ordered (spanUntil ((lexAll src).tokens[i]'(by omega)).start ((lexAll src).tokens[j]'hj).stop) := by
  have e := (C06.lex_stream_ok src ps h).1
  have hj' : j < (tokensOf ps).length := by rw [← e]; exact hj
  have := Lemmas.PosSpans.until_wf src ps (C06.lexer_meets_spec src ps h) i j hij hj'
  simpa only [e] using this

/-- Consequence used by the check: every construct range and every token span of a lexed text can
be rendered. -/
theorem until_renders (src : List Char) (ps : List Piece) (hsize : src.length < sizeBound)
    (h : pieces (src.length + 1) Loc.start src = .inl (.ok ps))
    (i j : Nat) (hij : i ≤ j) (hj : j < (lexAll src).tokens.length) :
    let sp := spanUntil ((lexAll src).tokens[i]'(by omega)).start ((lexAll src).tokens[j]'hj).stop
    renderErrOK src sp = true ∧ renderDiagOK src sp = true := by
  obtain ⟨h1, h2⟩ := until_wf src ps h i j hij hj
  exact render_safe src _ hsize h1 h2

/-! ## Non-vacuity -/

/-- A multi-line span over a text with multi-byte characters: real, ordered, rendered. -/
example :
    let src := "fn main() {\n  let é = \"∑\";\n  throw(\n    1\n  );\n}".toList
    let sp : Span := ⟨Spec.locAt src 29, Spec.locAt src 44⟩
    InText src sp ∧ Ordered sp ∧ sp.start.line = 3 ∧ sp.stop.line = 5
      ∧ renderErrOK src sp = true ∧ renderDiagOK src sp = true := by decide

end HmsProofs.C08
