import Hms.GenBridge
import HmsGen.Enums
/-! Ties between hand-written enumerations of the model and the regenerated tables. -/
namespace HmsProofs.Tables
open Hms

/-- The model's `TokKind` lists the Go constants of `lexer.TokenKind` in the same order. -/
theorem kind_names_agree : TokKind.all.map TokKind.goName = HmsGen.goKindNames := by decide

theorem kind_codes_agree : TokKind.all.map TokKind.code = List.range HmsGen.goKindNames.length := by
  decide

/-- Every non-zero entry of the regenerated `Prec()` table belongs to a named kind. -/
theorem prec_table_in_range : ∀ e ∈ HmsGen.precTable, e.1 < TokKind.all.length := by decide

end HmsProofs.Tables
