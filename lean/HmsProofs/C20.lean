import Hms.Fuzz.Rules
import Hms.GenBridge
import HmsProofs.Tables
import HmsProofs.C07
import HmsProofs.Lemmas.FuzzArith
import HmsProofs.Lemmas.FuzzEval
import HmsProofs.Lemmas.FuzzPratt
import HmsProofs.Lemmas.FuzzGuard
/-!
# C20 — the semantic fuzzer's rewrites preserve behaviour

One theorem per rewrite rule of `Hms.Fuzz.Rules` (the model of `fuzzer/{expression,
infixExpression,statement}.go`), over the specification semantics of `Hms.Core.Sem`: integers
are `BitVec 64` (wrap-around), comparisons and equality are the operators `binOp` of the language,
`evalExpr` is the evaluator. Property theorems only; lemmas live in `HmsProofs/Lemmas/Fuzz*.lean`.

Class hypotheses of the property statement, as they appear below:
* "reordered or duplicated sub-expressions are side-effect free": `PureAt cfg e` — evaluating `e`
  leaves the state unchanged and fails at most by running out of fuel;
* "integer multiplications have small non-negative right operands": `b.toNat < 2^63` (sign bit
  clear) and the loop is given `b` rounds;
* "numeric literals far from the overflow boundary": `n.toNat * k.toNat < 2^63`.
-/
namespace HmsProofs.C20
open Hms Hms.Core Hms.Fuzz Hms.Pratt Lemmas.Fuzz

/-! ## Literal rules -/

/-- `(n + k) - k = n` on 64-bit integers, unconditionally (wrap-around included). -/
theorem lit_add_sub (n k : I64) : (n + k) - k = n := Lemmas.Fuzz.lit_add_sub n k

/-- `(n - k) + k = n`, unconditionally. -/
theorem lit_sub_add (n k : I64) : (n - k) + k = n := Lemmas.Fuzz.lit_sub_add n k

/-- `(n * k) / k = n` when the product does not overflow (`n ≥ 0`, `0 < k`, `n * k < 2^63`). -/
theorem lit_mul_div (n k : I64) (hk : 0 < k.toNat) (hk' : k.toNat < 2 ^ 63)
    (h : n.toNat * k.toNat < 2 ^ 63) : (n * k).sdiv k = n := Lemmas.Fuzz.lit_mul_div n k hk hk' h

/-- The hypothesis is needed: at the overflow boundary `(2^62 * 4) / 4 = 0`. -/
theorem lit_mul_div_overflow_counterexample :
    ((4611686018427387904 : I64) * 4).sdiv 4 ≠ 4611686018427387904 :=
  Lemmas.Fuzz.lit_mul_div_overflow_counterexample

/-- The first two literal rules in the evaluator: the variant of an integer literal evaluates,
in every state, to what the literal evaluates to. -/
theorem eval_lit_add_sub (cfg : Cfg) (fuel : Nat) (sp : Span) (n k : Int) (st : St) :
    evalExpr cfg (fuel + 4) (litAddSub k (.int sp n)) st = evalExpr cfg (fuel + 1) (.int sp n) st :=
  Lemmas.Fuzz.eval_litAddSub cfg fuel sp n k st

theorem eval_lit_sub_add (cfg : Cfg) (fuel : Nat) (sp : Span) (n k : Int) (st : St) :
    evalExpr cfg (fuel + 4) (litSubAdd k (.int sp n)) st = evalExpr cfg (fuel + 1) (.int sp n) st :=
  Lemmas.Fuzz.eval_litSubAdd cfg fuel sp n k st

/-! ## Commutations and negation -/

theorem add_comm (a b : I64) : a + b = b + a := Lemmas.Fuzz.add_comm a b
theorem mul_comm (a b : I64) : a * b = b * a := Lemmas.Fuzz.mul_comm a b

/-- `a - b = a + (-b)` and `a + b = a - (-b)` on 64-bit integers, `b = MIN` included. -/
theorem sub_as_add_neg (a b : I64) : a - b = a + (-b) := Lemmas.Fuzz.sub_as_add_neg a b
theorem add_as_sub_neg (a b : I64) : a + b = a - (-b) := Lemmas.Fuzz.add_as_sub_neg a b

/-- The same as operators of the language (result or error, in every state). -/
theorem sub_as_add_neg_op (x y : I64) (sp : Span) :
    binOp .sub (.int x) (.int y) sp = binOp .add (.int x) (.int (-y)) sp :=
  Lemmas.Fuzz.binOp_sub_as_add_neg x y sp

/-- Literals are pure (non-vacuity of the purity hypothesis). -/
theorem literals_pure (cfg : Cfg) (sp : Span) (n : Int) (b : Bool) (s : String) :
    PureAt cfg (.int sp n) ∧ PureAt cfg (.bool sp b) ∧ PureAt cfg (.str sp s) :=
  ⟨pure_int cfg sp n, pure_bool cfg sp b, pure_str cfg sp s⟩

/-- `a + b` → `(b) + (a)`, `a * b` → `(b) * (a)`: for pure operands of integer value the variant
evaluates, in every state, to the same result (or the same error) as the original. -/
theorem eval_commute (cfg : Cfg) (l r : Expr) (hl : PureAt cfg l) (hr : PureAt cfg r)
    (il : IntValued cfg l) (ir : IntValued cfg r) (fuel : Nat) (sp : Span) (ty : Ty) (op : InfixOp)
    (hop : op = .add ∨ op = .mul) (st : St) :
    evalExpr cfg (fuel + 2) (commute (.infix sp ty op l r)) st
      = evalExpr cfg (fuel + 1) (.infix sp ty op l r) st :=
  eval_commute_int cfg l r hl hr il ir fuel sp ty op hop st

/-- The purity hypothesis is needed: with the operand `{ x = 5; x }` (an assignment inside) and
`x = 1` before, `{ x = 5; x } + x` is 10 but the swapped `(x) + ({ x = 5; x })` is 6.
(Kernel-checked evaluation of the specification semantics.) -/
theorem commute_needs_purity_counterexample :
    intResult (evalExpr { prog := [] } 8 (.infix spZ .int .add effectfulOperand readX) stateX1) = some 10
      ∧ intResult (evalExpr { prog := [] } 8 (commute (.infix spZ .int .add effectfulOperand readX)) stateX1) = some 6 := by
  refine ⟨by decide, by decide⟩

/-! ## The product as a loop -/

/-- For a non-negative multiplier `b` the loop `while mul_count < b { mul_res += a; mul_count += 1; }`
leaves `a * b` in `mul_res` (wrap-around included), by induction on the rounds. -/
theorem mul_as_loop (a b : I64) (hb : b.toNat < 2 ^ 63) (fuel : Nat) (hf : b.toNat ≤ fuel) :
    mulLoop a b fuel 0 0 = a * b := Lemmas.Fuzz.mul_as_loop a b hb fuel hf

/-- For a negative multiplier the loop does not run: the unrepaired rule computed 0 for
`2 * -3` (finding R17; reachable inside the class after the operands of `(0 - 3) * 2` were
swapped in an earlier pass). -/
theorem mul_as_loop_negative_counterexample :
    (∀ fuel, mulLoop 2 (-3) fuel 0 0 = 0) ∧ (2 : I64) * (-3) ≠ 0 :=
  Lemmas.Fuzz.mul_as_loop_negative_counterexample

/-! ## Booleans, equality, comparisons -/

theorem not_not (b : Bool) : (!(!b)) = b := Lemmas.Fuzz.not_not b

theorem eval_not_not (cfg : Cfg) (fuel : Nat) (sp : Span) (b : Bool) (st : St) :
    evalExpr cfg (fuel + 4) (notNot (.bool sp b)) st = evalExpr cfg (fuel + 1) (.bool sp b) st :=
  eval_notNot cfg fuel sp b st

/-- `a == b` → `!(a != b)`, `a != b` → `!(a == b)`: for ALL operands (they are evaluated once, in
the original order) the variant gives the same result, error and final state. -/
theorem eq_as_not_ne (cfg : Cfg) (fuel : Nat) (sp : Span) (ty : Ty) (op : InfixOp) (l r : Expr)
    (hop : op = .eq ∨ op = .ne) (st : St) :
    evalExpr cfg (fuel + 3) (eqAsNotNe l r (.infix sp ty op l r)) st
      = evalExpr cfg (fuel + 1) (.infix sp ty op l r) st :=
  eval_eqAsNotNe cfg fuel sp ty op l r hop st

/-- `a < b` ⇄ `b > a`, `a <= b` ⇄ `b >= a` as operators of the language, on every pair of values. -/
theorem cmp_swap (a b : Val) (sp : Span) :
    binOp .lt a b sp = binOp .gt b a sp ∧ binOp .gt a b sp = binOp .lt b a sp
      ∧ binOp .le a b sp = binOp .ge b a sp ∧ binOp .ge a b sp = binOp .le b a sp :=
  ⟨cmp_swap_lt a b sp, cmp_swap_gt a b sp, cmp_swap_le a b sp, cmp_swap_ge a b sp⟩

/-- In the evaluator, for pure operands. -/
theorem eval_cmp_swap (cfg : Cfg) (l r : Expr) (hl : PureAt cfg l) (hr : PureAt cfg r) (fuel : Nat)
    (sp : Span) (ty : Ty) (op : InfixOp) (hop : op = .lt ∨ op = .gt ∨ op = .le ∨ op = .ge) (st : St) :
    evalExpr cfg (fuel + 1) (cmpSwap l r (.infix sp ty op l r)) st
      = evalExpr cfg (fuel + 1) (.infix sp ty op l r) st :=
  Lemmas.Fuzz.eval_cmp_swap cfg l r hl hr fuel sp ty op hop st

/-- A grouped expression is its content. -/
theorem eval_grouped (cfg : Cfg) (fuel : Nat) (sp : Span) (e : Expr) :
    evalExpr cfg (fuel + 1) (.grouped sp e) = evalExpr cfg fuel e := Lemmas.Fuzz.eval_grouped cfg fuel sp e

/-! ## The variants survive printing (finding R8) -/

/-- Swapped operands wrapped in grouped nodes form a normal tree whenever the original was: the
printers, which add no parentheses, print it to a text that parses back to it (C19 `print_parse`). -/
theorem commute_normal (prec : Prec) (p : Nat) (l r : Tree) (o : TokKind)
    (h : normal prec p (.bin l o r) = true) : normal prec p (.bin (.grp r) o (.grp l)) = true :=
  Lemmas.Fuzz.commute_normal prec p l r o h

/-- The same for `l o' -(r)`. -/
theorem sub_as_add_neg_normal (prec : Prec) (p : Nat) (l r : Tree) (o o' : TokKind)
    (ho' : isInfix o' = true) (hp : prec o' = prec o) (h : normal prec p (.bin l o r) = true) :
    normal prec p (.bin l o' (.pre .minus (.grp r))) = true :=
  Lemmas.Fuzz.subAsAddNeg_normal prec p l r o o' ho' hp h

/-- `+` and `-` do share their binding powers in the regenerated table (the side condition above). -/
theorem plus_minus_same_power : Gen.prec .plus = Gen.prec .minus := by decide

/-- `!(…)` around a grouped operand (`eqAsNotNe`, `ifInverted`, the guard of `whileAsLoop0`). -/
theorem not_grouped_normal (prec : Prec) (p q : Nat) (t : Tree) (h : normal prec q t = true) :
    normal prec p (.pre .not_ (.grp t)) = true := Lemmas.Fuzz.not_grouped_normal prec p q t h

/-- Without the grouped nodes the rule was wrong inside the class (finding R8): the tree the
unrepaired fuzzer built for `10 - 2 ** 2` → `10 + -2 ** 2` is not normal and its text parses to
`10 + (-2) ** 2`; likewise `7 / 2 * 2` → `2 * 7 / 2`. -/
theorem unparenthesised_variants_counterexample :
    normal Gen.prec 0 (.bin (.atom .int) .plus (.pre .minus (.bin (.atom .int) .power (.atom .int)))) = false
      ∧ parseExpr Gen.prec (flatten (.bin (.atom .int) .plus (.pre .minus (.bin (.atom .int) .power (.atom .int)))))
          = .ok (.bin (.atom .int) .plus (.bin (.pre .minus (.atom .int)) .power (.atom .int)), [])
      ∧ normal Gen.prec 0 (.bin (.atom .int) .multiply (.bin (.atom .int) .divide (.atom .int))) = false
      ∧ parseExpr Gen.prec (flatten (.bin (.atom .int) .multiply (.bin (.atom .int) .divide (.atom .int))))
          = .ok (.bin (.bin (.atom .int) .multiply (.atom .int)) .divide (.atom .int), []) :=
  ⟨by rfl, by rfl, by rfl, by rfl⟩

/-- …and the values differ: `10 - 2 ** 2 = 6` but `10 + (-2) ** 2 = 14`; `7 / 2 * 2 = 6` but
`(2 * 7) / 2 = 7` (64-bit integers). -/
theorem unparenthesised_values_counterexample :
    (10 : I64) - powNat 2 2 ≠ 10 + powNat (-2) 2 ∧ ((7 : I64).sdiv 2) * 2 ≠ ((2 : I64) * 7).sdiv 2 := by
  decide

/-! ## The loop-control guard -/

/-- Soundness of `stmtCanControlLoop`: a statement the guard lets pass never ends in `break` or
`continue` — at any fuel, in any state, in any program. (So wrapping it into a one-iteration loop
cannot redirect a loop exit; the body of a loop statement is rightly ignored by the guard, its
exits are consumed by that loop.) -/
theorem can_control_loop_sound (cfg : Cfg) (fuel : Nat) (s : Stmt) (st : St) (h : stmtCCL s = false) :
    (evalStmt cfg fuel s st).1 ≠ .error .brk ∧ (evalStmt cfg fuel s st).1 ≠ .error .cont :=
  ((ccl_all cfg fuel).stmt s h).h st

/-- The same for expressions and blocks (`exprCanControlLoop`, `blockCanControlLoop`). -/
theorem expr_can_control_loop_sound (cfg : Cfg) (fuel : Nat) (e : Expr) (st : St) (h : exprCCL e = false) :
    (evalExpr cfg fuel e st).1 ≠ .error .brk ∧ (evalExpr cfg fuel e st).1 ≠ .error .cont :=
  ((ccl_all cfg fuel).expr e h).h st

theorem block_can_control_loop_sound (cfg : Cfg) (fuel : Nat) (b : Block) (st : St) (h : blockCCL b = false) :
    (evalBlock cfg fuel b st).1 ≠ .error .brk ∧ (evalBlock cfg fuel b st).1 ≠ .error .cont :=
  ((ccl_all cfg fuel).block b h).h st

/-- A function call never lets a loop exit through, whatever the callee does. -/
theorem call_never_exits_loop (cfg : Cfg) (fuel : Nat) (sp : Span) (f : Val) (vs : List Val) (st : St) :
    (applyFn cfg fuel sp f vs st).1 ≠ .error .brk ∧ (applyFn cfg fuel sp f vs st).1 ≠ .error .cont :=
  ((ccl_all cfg fuel).apply sp f vs).h st

/-- The guard is needed, and the unrepaired guard was too weak (finding R9): it ignored the
default arm of a `match`. `match 0 { _ => { break; } }` does end in `break`; the model guard
reports it. -/
theorem guard_sees_match_default :
    stmtCCL (.exprS ⟨0,0,0,0⟩ (.matchE ⟨0,0,0,0⟩ .never (.int ⟨0,0,0,0⟩ 0) []
      (some (.blockE (.mk ⟨0,0,0,0⟩ .never [.brk ⟨0,0,0,0⟩] none))))) = true := by
  simp [stmtCCL, exprCCL, optExprCCL, armsCCL, blockCCL, stmtsCCL]

end HmsProofs.C20
