import Hms
import HmsGen.Enums
import Hms.Core.BcCheck
import Driver.Decode
/-! Driver commands of the "Core" area. `dispatchCore cmd payload` answers `some line` for the
commands it owns and `none` otherwise. -/
namespace Driver
open Hms

/-- `compile <modules sexp>` → the model compiler's instruction stream, as `x<hex>` of the text
`FN <name>\n<instr>\n…` with functions sorted by name (same format as the harness's ASM field). -/
def cmdCompile (payload : String) : String :=
  match Sexp.parse payload with
  | none => "BAD-INPUT"
  | some sx =>
    match Decode.program sx with
    | .error e => s!"DECODE-ERROR {Sexp.hexOfString e}"
    | .ok prog =>
      match Core.Comp.compile prog with
      | .error w => s!"UNSUPPORTED {Sexp.hexOfString w}"
      | .ok c =>
        let fns := (c.fns.toArray.qsort fun a b => a.name < b.name).toList
        let text := String.join (fns.map fun f =>
          s!"FN {f.name}\n" ++ String.join (f.code.map fun (i, _) => i.render ++ "\n"))
        Sexp.hexOfString text

def spanS' (sp : Core.Span) : String := s!"{sp.sl}.{sp.sc}-{sp.el}.{sp.ec}"
def firstLine' (s : String) : String := (s.splitOn "\n").headD ""

def vmOutcomeS : Core.VM.Outcome → String
  | .ok s => s!"OK out={Sexp.hexOfString s.st.out} trig={Sexp.hexOfString s.st.trig} stack={s.stack.length} mp={s.mp} handlers={s.handlers.length} steps={s.steps} polls={s.polls}"
  | .fatal k msg sp s => s!"FATAL kind={k} msg={Sexp.hexOfString (firstLine' msg)} span={spanS' sp} out={Sexp.hexOfString s.st.out} trig={Sexp.hexOfString s.st.trig}"
  | .term s => s!"TERM out={Sexp.hexOfString s.st.out}"
  | .panic why s => s!"PANIC {Sexp.hexOfString why} out={Sexp.hexOfString s.st.out}"
  | .outOfFuel _ => "TIMEOUT"

/-- `vmrun <calls> <stack> <mem> <modules sexp>` → outcome of the compiler model + VM model;
`(hosted (singletons (x<name> V)…) <modules sexp>)` in place of the modules: the host provides these
singleton values. -/
def cmdVmRun (payload : String) : String :=
  match payload.splitOn " " with
  | a :: b :: c :: rest =>
    match a.toNat?, b.toNat?, c.toNat?, Sexp.parse (" ".intercalate rest) with
    | some calls, some stack, some mem, some sx =>
      match Decode.hostedProgram sx with
      | .error e => s!"DECODE-ERROR {Sexp.hexOfString e}"
      | .ok (prog, host) =>
        match Core.Comp.compile prog with
        | .error w => s!"UNSUPPORTED {Sexp.hexOfString w}"
        | .ok cp => vmOutcomeS (Core.VM.runMain cp
            { callStack := calls, stack := stack, memory := mem, hostSingletons := host } HmsGen.vmQuantum)
    | _, _, _, _ => "BAD-INPUT"
  | _ => "BAD-INPUT"

/-- `hcheck <modules sexp>` → `HCHECK-OK fns=<n>` | `HCHECK-REJECT x<hex report>`: the bytecode height
checker on the code of the compiler model (whose instruction stream is compared verbatim with the
real compiler's in C01). -/
def cmdHcheck (payload : String) : String :=
  match Sexp.parse payload with
  | none => "BAD-INPUT"
  | some sx =>
    match Decode.program sx with
    | .error e => s!"DECODE-ERROR {Sexp.hexOfString e}"
    | .ok prog =>
      match Core.Comp.compile prog with
      | .error w => s!"UNSUPPORTED {Sexp.hexOfString w}"
      | .ok c =>
        if Core.BcCheck.hcheck c.fns then s!"HCHECK-OK fns={c.fns.length}"
        else s!"HCHECK-REJECT {Sexp.hexOfString (toString (Core.BcCheck.hcheckReport c.fns))}"

def dispatchCore (cmd : String) (payload : String) : Option String :=
  match cmd with
  | "hcheck" => some (cmdHcheck payload)
  | "compile" => some (cmdCompile payload)
  | "vmrun" => some (cmdVmRun payload)
  | _ => none

end Driver
