import Hms
import Driver.Decode
/-! Driver commands of the "Analyzer" area. `dispatchAnalyzer cmd payload` answers `some line` for the
commands it owns and `none` otherwise. -/
namespace Driver
open Hms

def dispatchAnalyzer (cmd : String) (payload : String) : Option String :=
  let _ := payload
  match cmd with
  | _ => none

end Driver
