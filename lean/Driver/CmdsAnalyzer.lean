import Hms.Sexp
import Hms.Check.Check
import Hms.Check.Template
/-! Driver commands of the "Analyzer" area (C03). `dispatchAnalyzer cmd payload` answers
`some line` for the commands it owns and `none` otherwise.

* `check [nomain] <parser-AST sexp of hv panalyze>` →
  `V=<sorted message classes of the error-level diagnostics or -> R=<sorted rule classes or -> W=<n> T=(<types>)`
  or `UNSUPPORTED x<hex reason>` when the program uses a construct outside the model. -/
namespace Driver
open Hms Hms.Check

namespace PDecode

abbrev D := Except String

def unsupported {α} (what : String) : D α := .error s!"unsupported: {what}"
def bad {α} (what : String) (s : Sexp) : D α := .error s!"decode {what}: {(toString s).take 100}"

def str (s : Sexp) : D String :=
  match s.asStr? with
  | some x => .ok x
  | none => bad "string" s

partial def pty (s : Sexp) : D PTy :=
  match s with
  | .list [.atom "name", n] => do pure (.name (← str n))
  | .list [.atom "sing", _] => unsupported "singleton type"
  | .list [.atom "opt", t] => do pure (.opt (← pty t))
  | .list [.atom "list", t] => do pure (.list (← pty t))
  | .atom "anyobj" => pure .anyobj
  | .list (.atom "obj" :: fs) => do
    let fields ← fs.mapM fun f => match f with
      | .list [n, t, .atom "false"] => do pure (← str n, ← pty t)
      | .list [_, _, .atom "true"] => unsupported "type field annotation"
      | _ => bad "type field" f
    pure (.obj fields)
  | .list [.atom "fn", .list ps, r] => do
    let params ← ps.mapM fun p => match p with
      | .list [n, t] => do pure (← str n, ← pty t)
      | _ => bad "fn type param" p
    pure (.fn params (← pty r))
  | _ => bad "type" s

def ptyOpt (s : Sexp) : D (Option PTy) :=
  match s with
  | .atom "none" => pure none
  | t => some <$> pty t

def params (ps : List Sexp) : D (List (String × PTy)) :=
  ps.mapM fun p => match p with
    | .list [n, t] => do pure (← str n, ← pty t)
    | _ => bad "param" p

def infixOp (s : String) : D InfixOp :=
  match s with
  | "+" => pure .add | "-" => pure .sub | "*" => pure .mul | "/" => pure .div | "%" => pure .rem
  | "**" => pure .pow | "<<" => pure .shl | ">>" => pure .shr | "|" => pure .bitOr | "&" => pure .bitAnd
  | "^" => pure .bitXor | "||" => pure .or | "&&" => pure .and | "==" => pure .eq | "!=" => pure .ne
  | "<" => pure .lt | "<=" => pure .le | ">" => pure .gt | ">=" => pure .ge
  | _ => .error s!"decode infix operator {s}"

def assignOp (s : String) : D (Option InfixOp) :=
  match s with
  | "=" => pure none
  | "+=" => pure (some .add) | "-=" => pure (some .sub) | "*=" => pure (some .mul) | "/=" => pure (some .div)
  | "%=" => pure (some .rem) | "**=" => pure (some .pow) | "<<=" => pure (some .shl) | ">>=" => pure (some .shr)
  | "|=" => pure (some .bitOr) | "&=" => pure (some .bitAnd) | "^=" => pure (some .bitXor)
  | _ => .error s!"decode assign operator {s}"

mutual
partial def expr (s : Sexp) : D PExpr :=
  match s with
  | .list [.atom "int", v] =>
    match v.asInt? with
    | some i => pure (.int i)
    | none => bad "int" v
  | .list [.atom "float", v] =>
    match v.asNat? with
    | some n => pure (.float n)
    | none => bad "float" v
  | .list [.atom "bool", v] =>
    match v.asBool? with
    | some b => pure (.bool b)
    | none => bad "bool" v
  | .list [.atom "str", v] => do pure (.str (← str v))
  | .list [.atom "ident", n, .atom "false"] => do pure (.ident (← str n))
  | .list [.atom "ident", _, .atom "true"] => unsupported "singleton reference"
  | .list [.atom "null"] => pure .null
  | .list [.atom "none"] => pure .none
  | .list [.atom "range", a, b, incl] => do pure (.range (← expr a) (← expr b) (incl.asBool?.getD false))
  | .list (.atom "list" :: xs) => do pure (.list (PExprs.ofList (← xs.mapM expr)))
  | .list [.atom "anyobj"] => pure .anyobj
  | .list (.atom "obj" :: fs) => do
    let fields ← fs.mapM fun f => match f with
      | .list [k, e] => do pure (← str k, ← expr e)
      | _ => bad "object field" f
    pure (.obj (PFields.ofList fields))
  | .list [.atom "lambda", .list ps, r, b] => do pure (.lambda (← params ps) (← pty r) (← block b))
  | .list [.atom "grp", e] => do pure (.grp (← expr e))
  | .list [.atom "pre", .atom op, e] => do
    let op ← match op with
      | "neg" => pure PrefixOp.neg | "not" => pure PrefixOp.not | "some" => pure PrefixOp.some
      | _ => .error s!"decode prefix operator {op}"
    pure (.pre op (← expr e))
  | .list [.atom "infix", op, l, r] => do pure (.infix (← infixOp (← str op)) (← expr l) (← expr r))
  | .list [.atom "assign", op, l, r] => do pure (.assign (← assignOp (← str op)) (← expr l) (← expr r))
  | .list [.atom "call", b, .list as, .atom "false"] => do pure (.call (← expr b) (PExprs.ofList (← as.mapM expr)))
  | .list [.atom "call", .list [.atom "ident", n, .atom "false"], .list as, .atom "true"] => do
    pure (.spawn (← str n) (PExprs.ofList (← as.mapM expr)))
  | .list [.atom "call", _, _, .atom "true"] => unsupported "spawn"
  | .list [.atom "index", b, i] => do pure (.index (← expr b) (← expr i))
  | .list [.atom "member", b, n, op] => do
    let op ← match (← str op) with
      | "." => pure MemberOp.dot | "->" => pure MemberOp.arrow | "~>" => pure MemberOp.tildeArrow
      | o => .error s!"decode member operator {o}"
    pure (.member (← expr b) (← str n) op)
  | .list [.atom "cast", e, t] => do pure (.cast (← expr e) (← pty t))
  | .list [.atom "blk", b] => do pure (.blk (← block b))
  | .list [.atom "if", c, t, .atom "none"] => do pure (.ifThen (← expr c) (← block t))
  | .list [.atom "if", c, t, e] => do pure (.ifElse (← expr c) (← block t) (← block e))
  | .list [.atom "match", c, .list arms] => do
    let arms ← arms.mapM fun a => match a with
      | .list [.list lits, act] => do
        let lits ← lits.mapM fun l => match l with
          | .atom "default" => pure none
          | e => some <$> expr e
        if lits.length > 1 && lits.any Option.isNone then unsupported "default case next to literals"
        pure (PLits.ofList lits, ← expr act)
      | _ => bad "match arm" a
    pure (.matchE (← expr c) (PArms.ofList arms))
  | .list [.atom "try", t, n, c] => do pure (.tryE (← block t) (← str n) (← block c))
  | .list [.atom "unsupported", w] => do unsupported (← str w)
  | _ => bad "expr" s
partial def block (s : Sexp) : D PBlock :=
  match s with
  | .list [.atom "block", .list ss, .atom "none"] => do pure (.mkNoTail (PStmts.ofList (← ss.mapM stmt)))
  | .list [.atom "block", .list ss, e] => do pure (.mk (PStmts.ofList (← ss.mapM stmt)) (← expr e))
  | _ => bad "block" s
partial def stmt (s : Sexp) : D PStmt :=
  match s with
  | .list [.atom "let", n, t, e, _] => do pure (.letS (← str n) (← ptyOpt t) (← expr e))
  | .list [.atom "return", .atom "none"] => pure .retNone
  | .list [.atom "return", e] => do pure (.ret (← expr e))
  | .list [.atom "break"] => pure .brk
  | .list [.atom "continue"] => pure .cont
  | .list [.atom "loop", b] => do pure (.loopS (← block b))
  | .list [.atom "while", c, b] => do pure (.whileS (← expr c) (← block b))
  | .list [.atom "for", n, it, b] => do pure (.forS (← str n) (← expr it) (← block b))
  | .list [.atom "expr", e] => do pure (.exprS (← expr e))
  | .list (.atom "typedef" :: _) => unsupported "type definition"
  | .list (.atom "trigger" :: _) => unsupported "trigger statement"
  | _ => bad "stmt" s
end

def fn (s : Sexp) : D PFn :=
  match s with
  | .list [.atom "fn", n, .list ps, r, m, .atom "false", b] => do
    pure ⟨← str n, ← params ps, ← pty r, m.asNat?.getD 0, ← block b⟩
  | .list [.atom "fn", _, _, _, _, .atom "true", _] => unsupported "function annotation"
  | _ => bad "fn" s

def global (s : Sexp) : D PGlobal :=
  match s with
  | .list [.atom "let", n, t, e, _] => do pure ⟨← str n, ← ptyOpt t, ← expr e⟩
  | _ => bad "global" s

def prog (s : Sexp) : D PProg :=
  match s with
  | .list [.atom "prog", .list imports, .list types, .list sings, .list impls, .list globals, .list fns] => do
    if !imports.isEmpty then unsupported "import"
    if !types.isEmpty then unsupported "type definition"
    if !sings.isEmpty then unsupported "singleton"
    if !impls.isEmpty then unsupported "impl block"
    pure ⟨← globals.mapM global, ← fns.mapM fn⟩
  | _ => bad "prog" s

end PDecode

partial def tySexp : Ty → String
  | .unknown => "unknown" | .never => "never" | .any => "any" | .null => "null" | .int => "int"
  | .float => "float" | .bool => "bool" | .str => "str" | .range => "range" | .anyobj => "anyobj"
  | .list t => s!"(list {tySexp t})"
  | .opt t => s!"(opt {tySexp t})"
  | .obj fs => "(obj" ++ String.join (fs.map fun (n, t) => s!" ({Sexp.hexOfString n} {tySexp t})") ++ ")"
  | .fn ps r => s!"(fn ({" ".intercalate (ps.map fun (_, t) => tySexp t)}) {tySexp r})"
  | .fnvar ps rest r => s!"(fnvar ({" ".intercalate (ps.map tySexp)}) {tySexp rest} {tySexp r})"

def sortStrings (xs : List String) : List String := (xs.toArray.qsort (· < ·)).toList

def joinOrDash (xs : List String) : String := if xs.isEmpty then "-" else ",".intercalate xs

/-- `check [nomain] <sexp>` -/
def cmdCheck (payload : String) : String :=
  let (needMain, body) :=
    if payload.startsWith "nomain " then (false, (payload.drop 7).toString) else (true, payload)
  match Sexp.parse body with
  | none => "BAD-INPUT"
  | some sx =>
    match PDecode.prog sx with
    | .error e => if e.startsWith "unsupported" then s!"UNSUPPORTED {Sexp.hexOfString e}" else s!"DECODE-ERROR {Sexp.hexOfString e}"
    | .ok p =>
      let r := checkProg needMain p
      let v := sortStrings (r.errs.map fun e => e.msg.name)
      let rules := sortStrings (r.errs.map fun e => e.rule.name)
      s!"V={joinOrDash v} R={joinOrDash rules} W={(warnings p).length} T=({" ".intercalate (r.tys.map tySexp)})"

namespace TDecode
open PDecode

partial def ty (s : Sexp) : D Ty :=
  match s with
  | .atom "null" => pure .null | .atom "int" => pure .int | .atom "float" => pure .float | .atom "bool" => pure .bool
  | .atom "str" => pure .str | .atom "range" => pure .range | .atom "any" => pure .any | .atom "anyobj" => pure .anyobj
  | .list [.atom "list", t] => do pure (.list (← ty t))
  | .list [.atom "opt", t] => do pure (.opt (← ty t))
  | _ => bad "type" s

def method (s : Sexp) : D IMethod :=
  match s with
  | .list [n, .list ps, r, m, x] => do
    let params ← ps.mapM fun p => match p with
      | .list [pn, pt] => do pure (← str pn, ← ty pt)
      | _ => bad "param" p
    pure ⟨← str n, params, ← ty r, m.asNat?.getD 0, x.asBool?.getD false⟩
  | _ => bad "method" s

def impl (s : Sexp) : D Impl :=
  match s with
  | .list [.atom "impl", .list caps, .list ms] => do pure ⟨← caps.mapM str, ← ms.mapM method⟩
  | _ => bad "impl" s

end TDecode

/-- `template <(impl (caps…) (methods…))>`: the decision table against the testing host's
`FooFeature` template → `V=<sorted rule classes or ->` -/
def cmdTemplate (payload : String) : String :=
  match Sexp.parse payload with
  | none => "BAD-INPUT"
  | some sx =>
    match TDecode.impl sx with
    | .error e => s!"DECODE-ERROR {Sexp.hexOfString e}"
    | .ok i => s!"V={joinOrDash (sortStrings ((templateCheck fooFeature i).map TErr.name))}"

/-- `trigger (trig <known> <cbKnown> <fromItself> <modifier> ((x<name> T)…) R (T…))`: the trigger
decision table against the testing host's `minute` trigger → `V=<sorted rule classes or ->` -/
def cmdTrigger (payload : String) : String :=
  match Sexp.parse payload with
  | some (.list [.atom "trig", tk, ck, fi, m, .list ps, r, .list as]) =>
    let d : PDecode.D TrigCase := do
      let params ← ps.mapM fun p => match p with
        | .list [pn, pt] => do pure (← PDecode.str pn, ← TDecode.ty pt)
        | _ => PDecode.bad "param" p
      pure { triggerKnown := tk.asBool?.getD false, callbackKnown := ck.asBool?.getD false, fromItself := fi.asBool?.getD false,
             modifier := m.asNat?.getD 0, cbParams := params, cbRet := ← TDecode.ty r,
             expParams := [("elapsed", .int)], expRet := .null, trigParams := [.int], argTys := ← as.mapM TDecode.ty }
    match d with
    | .error e => s!"DECODE-ERROR {Sexp.hexOfString e}"
    | .ok c => s!"V={joinOrDash (sortStrings ((triggerCheck c).map TrigErr.name))}"
  | _ => "BAD-INPUT"

def dispatchAnalyzer (cmd : String) (payload : String) : Option String :=
  match cmd with
  | "check" => some (cmdCheck payload)
  | "template" => some (cmdTemplate payload)
  | "trigger" => some (cmdTrigger payload)
  | _ => none

end Driver
