import Hms.Sexp
import Hms.Core.Syntax
import Hms.Core.Value
/-! Decoder for the analysed-AST S-expressions written by `harness/ast.go` (driver side only). -/
namespace Driver.Decode
open Hms Hms.Core

abbrev D := Except String

def fail {α} (what : String) (s : Sexp) : D α :=
  .error s!"decode {what}: {(toString s).take 120}"

def str (s : Sexp) : D String :=
  match s.asStr? with
  | some x => .ok x
  | none => fail "string" s

def bool (s : Sexp) : D Bool :=
  match s.asBool? with
  | some x => .ok x
  | none => fail "bool" s

def nat (s : Sexp) : D Nat :=
  match s.asNat? with
  | some x => .ok x
  | none => fail "nat" s

def int (s : Sexp) : D Int :=
  match s.asInt? with
  | some x => .ok x
  | none => fail "int" s

def span (s : Sexp) : D Span :=
  match s with
  | .list [a, b, c, d] => do pure ⟨← nat a, ← nat b, ← nat c, ← nat d⟩
  | _ => fail "span" s

partial def ty (s : Sexp) : D Ty :=
  match s with
  | .atom "unknown" => pure .unknown
  | .atom "nil" => pure .unknown
  | .atom "never" => pure .never
  | .atom "any" => pure .any
  | .atom "null" => pure .null
  | .atom "int" => pure .int
  | .atom "float" => pure .float
  | .atom "bool" => pure .bool
  | .atom "str" => pure .str
  | .atom "range" => pure .range
  | .atom "anyobj" => pure .anyobj
  | .atom "ident" => pure .ident
  | .list [.atom "list", t] => do pure (.list (← ty t))
  | .list [.atom "opt", t] => do pure (.opt (← ty t))
  | .list (.atom "obj" :: fs) => do
    let fields ← fs.mapM fun f => match f with
      | .list [n, t] => do pure (← str n, ← ty t)
      | _ => fail "objfield" f
    pure (.obj fields)
  | .list [.atom "fn", .list ps, r] => do pure (.fn (← ps.mapM ty) (← ty r))
  | .list [.atom "fnvar", .list ps, rest, r] => do pure (.fnvar (← ps.mapM ty) (← ty rest) (← ty r))
  | _ => fail "type" s

def infixOp (s : String) : D InfixOp :=
  match s with
  | "+" => pure .add | "-" => pure .sub | "*" => pure .mul | "/" => pure .div | "%" => pure .rem
  | "**" => pure .pow | "<<" => pure .shl | ">>" => pure .shr | "|" => pure .bitOr | "&" => pure .bitAnd
  | "^" => pure .bitXor | "||" => pure .or | "&&" => pure .and | "==" => pure .eq | "!=" => pure .ne
  | "<" => pure .lt | "<=" => pure .le | ">" => pure .gt | ">=" => pure .ge
  | _ => .error s!"decode infix operator {s}"

def assignOp (s : String) : D (Option InfixOp) :=
  match s with
  | "=" => pure none
  | "+=" => pure (some .add) | "-=" => pure (some .sub) | "*=" => pure (some .mul) | "/=" => pure (some .div)
  | "%=" => pure (some .rem) | "**=" => pure (some .pow) | "<<=" => pure (some .shl) | ">>=" => pure (some .shr)
  | "|=" => pure (some .bitOr) | "&=" => pure (some .bitAnd) | "^=" => pure (some .bitXor)
  | _ => .error s!"decode assign operator {s}"

def param (s : Sexp) : D Param :=
  match s with
  | .list [n, t, b, sing] => do pure ⟨← str n, ← ty t, ← bool b, ← str sing⟩
  | _ => fail "param" s

mutual
partial def expr (s : Sexp) : D Expr :=
  match s with
  | .list (.atom kind :: sp :: t :: rest) => do
    let sp ← span sp
    let t ← ty t
    match kind, rest with
    | "int", [v] => pure (.int sp (← int v))
    | "float", [v] => pure (.float sp (← nat v))
    | "bool", [v] => pure (.bool sp (← bool v))
    | "str", [v] => pure (.str sp (← str v))
    | "null", [] => pure (.null sp)
    | "none", [] => pure (.none sp)
    | "ident", [n, g, f, si] => pure (.ident sp t (← str n) (← bool g) (← bool f) (← bool si))
    | "range", [a, b, incl] => pure (.range sp (← expr a) (← expr b) (← bool incl))
    | "list", [.list xs] => pure (.list sp t (← xs.mapM expr))
    | "anyobj", [] => pure (.anyobj sp)
    | "obj", [.list fs] => do
      let fields ← fs.mapM fun f => match f with
        | .list [n, e] => do pure (← str n, ← expr e)
        | _ => fail "objlit field" f
      pure (.obj sp t fields)
    | "lambda", [.list ps, r, b] => pure (.lambda sp t (← ps.mapM param) (← ty r) (← block b))
    | "grouped", [e] => pure (.grouped sp (← expr e))
    | "prefix", [.atom op, e] =>
      let op ← match op with
        | "neg" => pure PrefixOp.neg | "not" => pure PrefixOp.not | "some" => pure PrefixOp.some
        | _ => .error s!"decode prefix operator {op}"
      pure (.pre sp t op (← expr e))
    | "infix", [op, l, r] => pure (.infix sp t (← infixOp (← str op)) (← expr l) (← expr r))
    | "assign", [op, l, r] => pure (.assign sp (← assignOp (← str op)) (← expr l) (← expr r))
    | "call", [b, .list as, sp', _] => pure (.call sp t (← expr b) (← args as) (← bool sp'))
    | "index", [b, i] => pure (.index sp t (← expr b) (← expr i))
    | "member", [b, n, op] =>
      let op ← match (← str op) with
        | "." => pure MemberOp.dot | "->" => pure MemberOp.arrow | "~>" => pure MemberOp.tildeArrow
        | o => .error s!"decode member operator {o}"
      pure (.member sp t (← expr b) (← str n) op)
    | "cast", [e] => pure (.cast sp t (← expr e))
    | "blockexpr", [b] => pure (.blockE (← block b))
    | "if", [c, th, el] =>
      let el ← match el with
        | .atom "none" => pure none
        | b => some <$> block b
      pure (.ifE sp t (← expr c) (← block th) el)
    | "match", [c, .list arms, d] => do
      let arms ← arms.mapM fun a => match a with
        | .list [.list lits, act] => do pure (← lits.mapM expr, ← expr act)
        | _ => fail "match arm" a
      let d ← match d with
        | .atom "none" => pure none
        | e => some <$> expr e
      pure (.matchE sp t (← expr c) arms d)
    | "try", [tb, id, cb] => pure (.tryE sp t (← block tb) (← str id) (← block cb))
    | _, _ => fail "expr" s
  | _ => fail "expr" s
partial def args (as : List Sexp) : D (List (String × Expr)) :=
  as.mapM fun a => match a with
    | .list [n, e] => do pure (← str n, ← expr e)
    | _ => fail "arg" a
partial def exprOpt (s : Sexp) : D (Option Expr) :=
  match s with
  | .atom "none" => pure none
  | e => some <$> expr e
partial def block (s : Sexp) : D Block :=
  match s with
  | .list [.atom "block", sp, t, .list ss, e] => do
    pure (.mk (← span sp) (← ty t) (← ss.mapM stmt) (← exprOpt e))
  | _ => fail "block" s
partial def stmt (s : Sexp) : D Stmt :=
  match s with
  | .list (.atom kind :: sp :: rest) => do
    let sp ← span sp
    match kind, rest with
    | "typedef", [] => pure (.typedef sp)
    | "trigger", [cb, kw, tr, .list as] => pure (.trigger sp (← str cb) (← str kw) (← str tr) (← args as))
    | "let", [n, vt, nc, ot, e] => pure (.letS sp (← str n) (← ty vt) (← bool nc) (← ty ot) (← expr e))
    | "return", [e] => pure (.ret sp (← exprOpt e))
    | "break", [] => pure (.brk sp)
    | "continue", [] => pure (.cont sp)
    | "loop", [b] => pure (.loopS sp (← block b))
    | "while", [c, b] => pure (.whileS sp (← expr c) (← block b))
    | "for", [n, vt, it, b] => pure (.forS sp (← str n) (← ty vt) (← expr it) (← block b))
    | "expr", [e] => pure (.exprS sp (← expr e))
    | _, _ => fail "stmt" s
  | _ => fail "stmt" s
end

def fnDef (s : Sexp) : D FnDef :=
  match s with
  | .list [.atom "fn", sp, n, .list ps, r, m, ann, b] => do
    pure ⟨← span sp, ← str n, ← ps.mapM param, ← ty r, ← nat m, ← bool ann, ← block b⟩
  | _ => fail "fn" s

def module (s : Sexp) : D Module :=
  match s with
  | .list [.atom "module", n, .list imps, .list sings, .list globs, .list fns, ni] => do
    let imps ← imps.mapM fun i => match i with
      | .list [m, h, .list items] => do
        let items ← items.mapM fun it => match it with
          | .list [x, k] => do pure (← str x, ← nat k)
          | _ => fail "import item" it
        pure (⟨← str m, ← bool h, items⟩ : Import)
      | _ => fail "import" i
    let sings ← sings.mapM fun x => match x with
      | .list [a, t] => do pure (← str a, ← ty t)
      | _ => fail "singleton" x
    pure ⟨← str n, imps, sings, ← globs.mapM stmt, ← fns.mapM fnDef, ← nat ni⟩
  | _ => fail "module" s

def program (s : Sexp) : D Program :=
  match s with
  | .list (.atom "modules" :: ms) => ms.mapM module
  | _ => fail "program" s

/-! ## Host-provided values (the value S-expressions of `harness/values.go`)

`null | none | (some V) | (i n) | (f m e)` (the float `m / 2^e`) `| (b true|false) | (s x<hex>) |
(l V…) | (o (x<key> V)…) | (a (x<key> V)…) | (r a b incl)` -/

partial def hostVal (s : Sexp) : D HostVal :=
  match s with
  | .atom "null" => pure .null
  | .atom "none" => pure .none
  | .list [.atom "some", v] => do pure (.some (← hostVal v))
  | .list [.atom "i", n] => do pure (.int (← int n))
  | .list [.atom "f", m, e] => do
    let m ← int m
    let e ← nat e
    pure (.float ((Float.ofInt m).scaleB (-(e : Int))).toBits.toNat)
  | .list [.atom "b", b] => do pure (.bool (← bool b))
  | .list [.atom "s", x] => do pure (.str (← str x))
  | .list (.atom "l" :: xs) => do pure (.list (← xs.mapM hostVal))
  | .list (.atom "o" :: fs) => do pure (.obj (← fs.mapM field))
  | .list (.atom "a" :: fs) => do pure (.anyobj (← fs.mapM field))
  | .list [.atom "r", a, b, incl] => do pure (.range (← int a) (← int b) (← bool incl))
  | _ => fail "host value" s
where
  field (f : Sexp) : D (String × HostVal) :=
    match f with
    | .list [k, v] => do pure (← str k, ← hostVal v)
    | _ => fail "host object field" f

/-- `(singletons (x<name> V)…)` -/
def hostSingletons (s : Sexp) : D HostSingletons :=
  match s with
  | .list (.atom "singletons" :: kvs) => kvs.mapM fun kv => match kv with
    | .list [k, v] => do pure (← str k, ← hostVal v)
    | _ => fail "singleton binding" kv
  | _ => fail "singletons" s

/-- A program with what its host provides: `(modules …)` (a host that provides nothing) or
`(hosted (singletons (x<name> V)…) (modules …))`. -/
def hostedProgram (s : Sexp) : D (Program × HostSingletons) :=
  match s with
  | .list [.atom "hosted", h, p] => do pure (← program p, ← hostSingletons h)
  | _ => do pure (← program s, [])

end Driver.Decode
