import Hms.Sexp
import Hms.Conc.Protocol
import Hms.Conc.Invoke
import Hms.Conc.Poll
import Hms.Conc.Spawn
import HmsGen.Enums
/-! Driver commands of the "Host" area (C16, C10, C17). `dispatchHost cmd payload` answers
`some line` for the commands it owns and `none` otherwise.

* `hostmodel (cfg fixed|v18) (fns (x<fn> <params> <hasValue> <retkind>)…) (init <globals>)
     (calls (call x<fn> (args v…) (bound v…) (before <globals>) (after <globals>) x<out> <res>)…)`
  runs `Hms.Conc.runHistory` with values and globals as S-expressions. The per-call oracle entry
  says what the callee's body does *when it is given the parameters `bound` and the globals
  `before`*; the model looks entries up by what its own stack discipline and globals threading
  produce, so a wrong binding or a lost global shows as `NO-ORACLE-ENTRY`.
  `<res>` = `(ret <v>)` | `(retnull)` | `(fail <class> x<kind> x<msg>)`.
* `pollmodel …` (C10) and `spawnmodel …` (C17): see below.
-/
namespace Driver
open Hms Hms.Conc

private def hexStr (s : String) : String := Sexp.hexOfString s

private def intrOfString : String → Option Intr
  | "fatal" => some .fatal
  | "terminate" => some .terminate
  | "exit" => some .exit
  | _ => none

private def intrName : Intr → String
  | .fatal => "fatal"
  | .terminate => "terminate"
  | .exit => "exit"

private structure OracleEntry where
  fn : String
  bound : List Sexp
  before : Sexp
  out : BodyOut Sexp Sexp

private def parseRes (sx : Sexp) : Option (CallRes Sexp) :=
  match sx.tag, sx.args with
  | "ret", [v] => some (.ret (some v))
  | "retnull", [] => some (.ret none)
  | "fail", [c, k, m] => do
    let cls ← match c with | .atom a => intrOfString a | _ => none
    let kind ← k.asStr?
    let msg ← m.asStr?
    pure (.fail cls kind msg)
  | _, _ => none

private def findArg (tagName : String) (xs : List Sexp) : Option Sexp := xs.find? (fun x => x.tag == tagName)

private def parseCallEntry (sx : Sexp) : Option (Call Sexp × OracleEntry) :=
  match sx.args with
  | fnS :: rest => do
    let fn ← fnS.asStr?
    let args ← (findArg "args" rest).map Sexp.args
    let bound ← (findArg "bound" rest).map Sexp.args
    let before ← (findArg "before" rest) >>= (·.args.head?)
    let after ← (findArg "after" rest) >>= (·.args.head?)
    let outS ← rest.find? (fun x => match x with | .atom a => a.startsWith "x" | _ => false)
    let out ← outS.asStr?
    let resS ← rest.find? (fun x => x.tag == "ret" || x.tag == "retnull" || x.tag == "fail")
    let res ← parseRes resS
    pure (⟨fn, args⟩, ⟨fn, bound, before, ⟨after, out, res⟩⟩)
  | _ => none

/-- Does the value have the shape of the declared return type (first level)? -/
private def kindMatches (kind : String) (v : Sexp) : Bool :=
  match kind with
  | "any" => true
  | "option" => v.tag == "some" || v.tag == "none"
  | k => v.tag == k

private def mkProg (fns : List (String × FnSig × String)) (table : List OracleEntry) : Prog Sexp Sexp where
  sig := fun f => (fns.find? (fun e => e.1 == f)).map (·.2.1)
  body := fun f bound g =>
    match table.find? (fun e => e.fn == f && e.bound == bound && e.before == g) with
    | some e => e.out
    | none => ⟨g, "", .fail .fatal "NO-ORACLE-ENTRY" ""⟩
  typeOk := fun f v =>
    match fns.find? (fun e => e.1 == f) with
    | some e => kindMatches e.2.2 v
    | none => false

private def lockS (p : PState) : String := if p.lockFree then "free" else "held"

private def resultLine (s : VMState Sexp Sexp) (r : Result Sexp) (out : String) : String :=
  let tail := s!"out={hexStr out} cores={s.proto.listed.length} lock={lockS s.proto}"
  let core := match s.last with
    | some c => s!" stack={c.stack.length} frames={c.frames}"
    | none => ""
  match r with
  | .ret (some v) => s!"RET {v} {tail}{core} globals={s.globals}"
  | .ret none => s!"RET (nil) {tail}{core} globals={s.globals}"
  | .exc _ i kind msg => s!"EXC {intrName i} kind={kind} msg={hexStr msg} {tail}{core} globals={s.globals}"
  | .blocked => "BLOCKED"
  | .hostPanic why => s!"PANIC {hexStr why}"

def cmdHostModel (payload : String) : String :=
  match Sexp.parse ("(" ++ payload ++ ")") with
  | none => "BAD-INPUT"
  | some sx =>
    let parts := sx.items
    let cfg : Cfg := match (findArg "cfg" parts).map Sexp.args with
      | some [.atom "v18"] => ⟨true, true, false⟩
      | _ => Cfg.fixed
    let fns := ((findArg "fns" parts).map Sexp.args).getD [] |>.filterMap fun e =>
      match e.items with
      | [n, p, h, k] => do
        let name ← n.asStr?
        let np ← p.asNat?
        let hv ← h.asBool?
        let kind ← match k with | .atom a => some a | _ => none
        pure (name, (⟨np, hv⟩ : FnSig), kind)
      | _ => none
    match (findArg "init" parts) >>= (·.args.head?), ((findArg "calls" parts).map Sexp.args).getD [] |>.mapM parseCallEntry with
    | some g0, some entries =>
      let prog := mkProg fns (entries.map (·.2))
      -- run call by call to print the state after each call
      let rec go (s : VMState Sexp Sexp) (cs : List (Call Sexp)) (acc : List String) (alive : Bool) : List String :=
        match cs with
        | [] => acc.reverse
        | c :: rest =>
          if !alive then go s rest ("SKIPPED" :: acc) false else
          let r := invoke cfg prog s c
          let line := resultLine r.1 r.2.1 r.2.2
          go r.1 rest (line :: acc) (match r.2.1 with | .blocked => false | _ => true)
      " | ".intercalate (go (VMState.init g0) (entries.map (·.1)) [] true)
    | _, _ => "BAD-INPUT"

/-! ### `pollmodel (entry x<fn>) (fns (x<fn> <op>…)…) (ks <k>…)`

Ops: `X` (any instruction without effect on control), `P` (a print: builtin call), `R` (Return),
`C:x<fn>` (Call_Imm). Runs `Hms.Conc.run` on the listing machine with the regenerated quantum:
first uncancelled (`polls`, prints before every poll), then, for every `k`, cancelled from the
time of the k-th poll on. Answer: `FULL sig=… steps=… polls=… tpp=(…) | k=<k> sig=… polls=… prints=…`. -/

private def parseOp (sx : Sexp) : Option Op :=
  match sx with
  | .atom "X" => some .plain
  | .atom "P" => some .print
  | .atom "R" => some .ret
  | .atom a =>
    if a.startsWith "C:" then (Sexp.atom (String.ofList (a.toList.drop 2))).asStr?.map Op.call else none
  | _ => none

private def sigS : Sig → String
  | none => "nil"
  | some i => intrName i

private def natList (xs : List Nat) : String := "(" ++ " ".intercalate (xs.map toString) ++ ")"

def cmdPollModel (payload : String) : String :=
  match Sexp.parse ("(" ++ payload ++ ")") with
  | none => "BAD-INPUT"
  | some sx =>
    let parts := sx.items
    let fns := ((findArg "fns" parts).map Sexp.args).getD [] |>.filterMap fun e =>
      match e.items with
      | n :: ops => do
        let name ← n.asStr?
        let os ← ops.mapM parseOp
        pure (name, os)
      | _ => none
    match (findArg "entry" parts) >>= (·.args.head?) >>= Sexp.asStr? with
    | none => "BAD-INPUT"
    | some entry =>
      let l : Listing := ⟨fns⟩
      let q := HmsGen.vmQuantum
      let m := listingMachine l
      let mt : Machine LState := { m with obs := fun s => s.steps }
      let s0 : LState := ⟨[(entry, 0)], 0, 0⟩
      let never := 1000000000
      let fuel := 200000
      match run m q never fuel 0 0 [] s0, run mt q never fuel 0 0 [] s0 with
      | some full, some times =>
        let ks := ((findArg "ks" parts).map Sexp.args).getD [] |>.filterMap Sexp.asNat?
        let perK := ks.map fun k =>
          match times.trace[k - 1]? with
          | none => s!"k={k} beyond"
          | some T =>
            match run m q T fuel 0 0 [] s0 with
            | some r => s!"k={k} sig={sigS r.sig} polls={r.polls} prints={r.trace.getLast?.getD 0}"
            | none => s!"k={k} fuel"
        " | ".intercalate (s!"FULL sig={sigS full.sig} steps={full.t} polls={full.polls} tpp={natList full.trace}" :: perK)
      | _, _ => "FUEL"

/-! ### `spawnmodel (seeds <n>…) (progs (<act>…)…)`

Acts: `(p x<line>)` print a line, `(s <j>)` spawn a core running program `j`, `w` write a global,
`r` read a global, `f` fail (fatal). Program 0 is the entry function. For every seed the
executable interleaving model (`Hms.Conc.runSys`) is run under the schedule of that seed.
Answer per seed: `R=<OK|FATAL|TERM|EXIT|STUCK> lines=<hex of the sorted lines> cores=<n> lock=… live=<n>`. -/

private def parseAct (sx : Sexp) : Option Act :=
  match sx with
  | .atom "w" => some .gwrite
  | .atom "r" => some .gread
  | .atom "f" => some .fail
  | .list [.atom "p", l] => l.asStr?.map Act.print
  | .list [.atom "s", j] => j.asNat?.map Act.spawn
  | _ => none

def cmdSpawnModel (payload : String) : String :=
  match Sexp.parse ("(" ++ payload ++ ")") with
  | none => "BAD-INPUT"
  | some sx =>
    let parts := sx.items
    let seeds := ((findArg "seeds" parts).map Sexp.args).getD [] |>.filterMap Sexp.asNat?
    match ((findArg "progs" parts).map Sexp.args).getD [] |>.mapM (fun p => p.items.mapM parseAct) with
    | none => "BAD-INPUT"
    | some progs =>
      let nacts := progs.foldl (fun a p => a + p.length) 0
      let answers := seeds.map fun seed =>
        let s := runSys Cfg.fixed (schedule seed (60 * nacts + 400)) (Sys.start progs)
        let outcome := match s.proto.wait with
          | .returned none => "OK"
          | .returned (some (_, i)) => (intrName i).toUpper
          | _ => "STUCK"
        let lines := (s.out.toArray.qsort (· < ·)).toList
        let live := (List.range s.proto.n).filter (fun c => (s.proto.core c).isLive) |>.length
        s!"R={outcome} lines={hexStr ("\n".intercalate lines)} cores={s.proto.listed.length} lock={lockS s.proto} live={live}"
      " | ".intercalate answers

def dispatchHost (cmd : String) (payload : String) : Option String :=
  match cmd with
  | "hostmodel" => some (cmdHostModel payload)
  | "pollmodel" => some (cmdPollModel payload)
  | "spawnmodel" => some (cmdSpawnModel payload)
  | _ => none

end Driver
