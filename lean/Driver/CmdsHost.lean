import Hms
import Driver.Decode
/-! Driver commands of the "Host" area. `dispatchHost cmd payload` answers `some line` for the
commands it owns and `none` otherwise. -/
namespace Driver
open Hms

def dispatchHost (cmd : String) (payload : String) : Option String :=
  let _ := payload
  match cmd with
  | _ => none

end Driver
