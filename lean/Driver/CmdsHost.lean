import Hms.Sexp
import Hms.Conc.Protocol
import Hms.Conc.Invoke
/-! Driver commands of the "Host" area (C16, C10, C17). `dispatchHost cmd payload` answers
`some line` for the commands it owns and `none` otherwise.

* `hostmodel (cfg fixed|v18) (fns (x<fn> <params> <hasValue> <retkind>)…) (init <globals>)
     (calls (call x<fn> (args v…) (bound v…) (before <globals>) (after <globals>) x<out> <res>)…)`
  runs `Hms.Conc.runHistory` with values and globals as S-expressions. The per-call oracle entry
  says what the callee's body does *when it is given the parameters `bound` and the globals
  `before`*; the model looks entries up by what its own stack discipline and globals threading
  produce, so a wrong binding or a lost global shows as `NO-ORACLE-ENTRY`.
  `<res>` = `(ret <v>)` | `(retnull)` | `(fail <class> x<kind> x<msg>)`.
* `pollmodel …` (C10) and `spawnmodel …` (C17): see below.
-/
namespace Driver
open Hms Hms.Conc

def hexStr (s : String) : String := Sexp.hexOfString s

def intrOfString : String → Option Intr
  | "fatal" => some .fatal
  | "terminate" => some .terminate
  | "exit" => some .exit
  | _ => none

def intrName : Intr → String
  | .fatal => "fatal"
  | .terminate => "terminate"
  | .exit => "exit"

structure OracleEntry where
  fn : String
  bound : List Sexp
  before : Sexp
  out : BodyOut Sexp Sexp

def parseRes (sx : Sexp) : Option (CallRes Sexp) :=
  match sx.tag, sx.args with
  | "ret", [v] => some (.ret (some v))
  | "retnull", [] => some (.ret none)
  | "fail", [c, k, m] => do
    let cls ← match c with | .atom a => intrOfString a | _ => none
    let kind ← k.asStr?
    let msg ← m.asStr?
    pure (.fail cls kind msg)
  | _, _ => none

def findArg (tagName : String) (xs : List Sexp) : Option Sexp := xs.find? (fun x => x.tag == tagName)

def parseCallEntry (sx : Sexp) : Option (Call Sexp × OracleEntry) :=
  match sx.args with
  | fnS :: rest => do
    let fn ← fnS.asStr?
    let args ← (findArg "args" rest).map Sexp.args
    let bound ← (findArg "bound" rest).map Sexp.args
    let before ← (findArg "before" rest) >>= (·.args.head?)
    let after ← (findArg "after" rest) >>= (·.args.head?)
    let outS ← rest.find? (fun x => match x with | .atom a => a.startsWith "x" | _ => false)
    let out ← outS.asStr?
    let resS ← rest.find? (fun x => x.tag == "ret" || x.tag == "retnull" || x.tag == "fail")
    let res ← parseRes resS
    pure (⟨fn, args⟩, ⟨fn, bound, before, ⟨after, out, res⟩⟩)
  | _ => none

/-- Does the value have the shape of the declared return type (first level)? -/
def kindMatches (kind : String) (v : Sexp) : Bool :=
  match kind with
  | "any" => true
  | "option" => v.tag == "some" || v.tag == "none"
  | k => v.tag == k

def mkProg (fns : List (String × FnSig × String)) (table : List OracleEntry) : Prog Sexp Sexp where
  sig := fun f => (fns.find? (fun e => e.1 == f)).map (·.2.1)
  body := fun f bound g =>
    match table.find? (fun e => e.fn == f && e.bound == bound && e.before == g) with
    | some e => e.out
    | none => ⟨g, "", .fail .fatal "NO-ORACLE-ENTRY" ""⟩
  typeOk := fun f v =>
    match fns.find? (fun e => e.1 == f) with
    | some e => kindMatches e.2.2 v
    | none => false

def lockS (p : PState) : String := if p.lockFree then "free" else "held"

def resultLine (s : VMState Sexp Sexp) (r : Result Sexp) (out : String) : String :=
  let tail := s!"out={hexStr out} cores={s.proto.listed.length} lock={lockS s.proto}"
  let core := match s.last with
    | some c => s!" stack={c.stack.length} frames={c.frames}"
    | none => ""
  match r with
  | .ret (some v) => s!"RET {v} {tail}{core} globals={s.globals}"
  | .ret none => s!"RET (nil) {tail}{core} globals={s.globals}"
  | .exc _ i kind msg => s!"EXC {intrName i} kind={kind} msg={hexStr msg} {tail}{core} globals={s.globals}"
  | .blocked => "BLOCKED"
  | .hostPanic why => s!"PANIC {hexStr why}"

def cmdHostModel (payload : String) : String :=
  match Sexp.parse ("(" ++ payload ++ ")") with
  | none => "BAD-INPUT"
  | some sx =>
    let parts := sx.items
    let cfg : Cfg := match (findArg "cfg" parts).map Sexp.args with
      | some [.atom "v18"] => ⟨true, true, false⟩
      | _ => Cfg.fixed
    let fns := ((findArg "fns" parts).map Sexp.args).getD [] |>.filterMap fun e =>
      match e.items with
      | [n, p, h, k] => do
        let name ← n.asStr?
        let np ← p.asNat?
        let hv ← h.asBool?
        let kind ← match k with | .atom a => some a | _ => none
        pure (name, (⟨np, hv⟩ : FnSig), kind)
      | _ => none
    match (findArg "init" parts) >>= (·.args.head?), ((findArg "calls" parts).map Sexp.args).getD [] |>.mapM parseCallEntry with
    | some g0, some entries =>
      let prog := mkProg fns (entries.map (·.2))
      -- run call by call to print the state after each call
      let rec go (s : VMState Sexp Sexp) (cs : List (Call Sexp)) (acc : List String) (alive : Bool) : List String :=
        match cs with
        | [] => acc.reverse
        | c :: rest =>
          if !alive then go s rest ("SKIPPED" :: acc) false else
          let r := invoke cfg prog s c
          let line := resultLine r.1 r.2.1 r.2.2
          go r.1 rest (line :: acc) (match r.2.1 with | .blocked => false | _ => true)
      " | ".intercalate (go (VMState.init g0) (entries.map (·.1)) [] true)
    | _, _ => "BAD-INPUT"

def dispatchHost (cmd : String) (payload : String) : Option String :=
  match cmd with
  | "hostmodel" => some (cmdHostModel payload)
  | _ => none

end Driver
