import Hms
import Hms.Print.Expr
import Hms.Print.Str
import Hms.Print.Optimize
import Hms.Fuzz.Rules
import Driver.Decode
/-! Driver commands of the "Print" area (C19, C20). `dispatchPrint cmd payload` answers `some line`
for the commands it owns and `none` otherwise.

* `printexpr <kind codes>` → `OK flat=<kind codes> reparse=same|diff tree=<render>` | `ERR <class>`:
  parse the tokens with the Pratt model, print the tree with `Print.printTree`, parse the printed
  tokens again (tie: the tokens of the Go `String()` output must be `flat`).
* `strlit (<code points>)` → `P=(<code points of quote (escape s)>) | R=<n>:<kind>:(<value>)`:
  the model of the string literal printers and what the lexer model reads back.
* `variantcheck <modules before> | <modules after>` → `OK` | `MISMATCH <where>` | `DECODE-ERROR x…`:
  is the entry module the transformer built (its analysed AST before printing), function by
  function and node by node, the original or an instance of a rule of `Hms.Fuzz.Rules`
  (spans, recorded types and identifier flags are not compared)?
* `optprefix ((<n> (<i> …)) …)` → `OK <k> …`: for every function body with `n` statements of which
  those at the listed indices have recorded type `never`, the number of statements the optimizer
  model keeps.
-/
namespace Driver
open Hms

def codesOf (ks : List TokKind) : String := " ".intercalate (ks.map fun k => toString k.code)

def cmdPrintExpr (payload : String) : String :=
  let codes := (payload.splitOn " ").filter (· ≠ "")
  match codes.mapM (fun s => s.toNat? >>= TokKind.ofCode?) with
  | none => "BAD-INPUT"
  | some ks =>
    match Pratt.parseExpr Gen.prec ks with
    | .ok (t, []) =>
      let flat := Print.printTree t
      let again := match Print.reparse Gen.prec t with
        | .ok (t', []) => if t'.render == t.render then "same" else "diff"
        | _ => "diff"
      s!"OK flat={codesOf flat} reparse={again} tree={t.render}"
    | .ok (_, _ :: _) => "ERR trailing"
    | .error .syntax => "ERR syntax"
    | .error .unsupported => "ERR unsupported"
    | .error .fuel => "ERR fuel"

def runesS (cs : List Char) : String := "(" ++ " ".intercalate (cs.map fun c => toString c.toNat) ++ ")"

def cmdStrLit (payload : String) : String :=
  match Sexp.parse payload >>= Sexp.asRunes? with
  | none => "BAD-INPUT"
  | some s =>
    let q := Print.quote s
    let r := Lex.lexAll q
    let back := match r.err, r.tokens with
      | some _, _ => "ERR"
      | none, [] => "0:-1:()"
      | none, t :: rest => s!"{rest.length + 1}:{t.kind.code}:{runesS t.value}"
    s!"P={runesS q} | R={back}"

def cmdOptPrefix (payload : String) : String :=
  match Sexp.parse payload with
  | some (.list rows) =>
    let one (row : Sexp) : Option Nat :=
      match row with
      | .list [n, .list idx] => do
        let n ← n.asNat?
        let idx ← idx.mapM Sexp.asNat?
        pure (Print.keptCount ((List.range n).map fun i => idx.contains i))
      | _ => none
    match rows.mapM one with
    | some ks => "OK " ++ " ".intercalate (ks.map toString)
    | none => "BAD-INPUT"
  | _ => "BAD-INPUT"

/-! ## C20: is a variant an instance of the modelled rules? -/

open Hms.Core Hms.Fuzz in
mutual
/-- Canonical text of an expression without spans, recorded types and identifier flags. -/
partial def showE : Expr → String
  | .int _ v => s!"(int {v})"
  | .float _ b => s!"(float {b})"
  | .bool _ b => s!"(bool {b})"
  | .str _ s => s!"(str {Sexp.hexOfString s})"
  | .null _ => "null"
  | .none _ => "none"
  | .ident _ _ n _ _ _ => s!"(id {n})"
  | .range _ a b i => s!"(range {showE a} {showE b} {i})"
  | .list _ _ xs => "(list " ++ " ".intercalate (xs.map showE) ++ ")"
  | .anyobj _ => "anyobj"
  | .obj _ _ fs => "(obj " ++ " ".intercalate (fs.map fun (k, e) => s!"({Sexp.hexOfString k} {showE e})") ++ ")"
  | .lambda _ _ ps _ b => "(lambda (" ++ " ".intercalate (ps.map (·.name)) ++ s!") {showB b})"
  | .grouped _ e => s!"(g {showE e})"
  | .pre _ _ op e => s!"(pre {repr op} {showE e})"
  | .infix _ _ op l r => s!"(infix {repr op} {showE l} {showE r})"
  | .assign _ op l r => s!"(assign {repr op} {showE l} {showE r})"
  | .call _ _ b as sp => s!"(call {showE b} (" ++ " ".intercalate (as.map fun (_, e) => showE e) ++ s!") {sp})"
  | .index _ _ b i => s!"(index {showE b} {showE i})"
  | .member _ _ b n op => s!"(member {showE b} {n} {repr op})"
  | .cast _ _ e => s!"(cast {showE e})"
  | .blockE b => s!"(blockexpr {showB b})"
  | .ifE _ _ c t e => s!"(if {showE c} {showB t} " ++ (match e with | some b => showB b | none => "none") ++ ")"
  | .matchE _ _ c arms d =>
    s!"(match {showE c} (" ++ " ".intercalate (arms.map fun (ls, a) =>
      "((" ++ " ".intercalate (ls.map showE) ++ s!") {showE a})") ++ ") " ++
      (match d with | some e => showE e | none => "none") ++ ")"
  | .tryE _ _ t id c => s!"(try {showB t} {id} {showB c})"
partial def showS : Stmt → String
  | .typedef _ => "typedef"
  | .trigger _ cb kw tr as => s!"(trigger {cb} {kw} {tr} (" ++ " ".intercalate (as.map fun (_, e) => showE e) ++ "))"
  | .letS _ n _ _ _ e => s!"(let {n} {showE e})"
  | .ret _ e => "(return " ++ (match e with | some e => showE e | none => "none") ++ ")"
  | .brk _ => "break"
  | .cont _ => "continue"
  | .loopS _ b => s!"(loop {showB b})"
  | .whileS _ c b => s!"(while {showE c} {showB b})"
  | .forS _ n _ it b => s!"(for {n} {showE it} {showB b})"
  | .exprS _ e => s!"(expr {showE e})"
partial def showB : Block → String
  | .mk _ _ ss e => "(block (" ++ " ".intercalate (ss.map showS) ++ ") " ++
      (match e with | some e => showE e | none => "none") ++ ")"
end

open Hms.Core Hms.Fuzz in
mutual
/-- `e'` is `e` or an instance of a rule of `Hms.Fuzz.Rules` applied to `e` (with variants of the
sub-expressions where the rule transforms them). -/
partial def varE (e e' : Expr) : Bool :=
  showE e == showE e' ||
  (match e with
    | .int .. => uselessValues.any fun k =>
        [litAddSub k e, litSubAdd k e, litMulDiv k e].any fun c => showE c == showE e'
    | .float .. => uselessFloatBits.any fun kb =>
        [litFloat .add .sub kb e, litFloat .sub .add kb e, litFloat .mul .div kb e].any fun c => showE c == showE e'
    | .bool .. => showE (notNot e) == showE e'
    | .grouped .. => showE (groupAgain e) == showE e' || showE (groupBlock e) == showE e'
    | .cast .. => showE (castTwice e) == showE e'
    | .lambda _ _ _ _ body =>
      (match e' with
        | .lambda _ _ _ _ body' => varB body body' && showE e' == showE (match e with
            | .lambda sp ty ps ret _ => .lambda sp ty ps ret body'
            | x => x)
        | _ => false)
    | .ifE sp _ c t el =>
      (match e' with
        | .ifE _ _ c' t' el' =>
          (showE c == showE c' && varB t t' && (match el, el' with
            | some a, some a' => varB a a'
            | none, none => true
            | _, _ => false))
          || (match c', el' with
            | .pre _ _ .not (.grouped _ c''), some eb' =>
              varE c c'' && varB t eb' && (match el with
                | some elb => varB elb t'
                | none => showB t' == showB (emptyBlock sp))
            | _, _ => false)
        | _ => false)
    | .infix _ _ op l r =>
      ((op == .add || op == .mul) && showE (commute e) == showE e')
      || ((op == .add || op == .sub) && showE (subAsAddNeg e) == showE e')
      || (op == .mul && mulAsLoopApplies e && showE (mulAsLoop e) == showE e')
      || ((op == .eq || op == .ne) && (match e' with
          | .pre _ _ .not (.grouped _ (.infix _ _ _ l' r')) =>
            varE l l' && varE r r' && showE e' == showE (eqAsNotNe l' r' e)
          | .pre _ _ .not (.grouped _ (.grouped _ (.infix _ _ _ l' r'))) =>
            varE l l' && varE r r' && showE e' == showE (eqAsNotNe2 l' r' e)
          | _ => false))
      || ((op == .lt || op == .gt || op == .le || op == .ge) && (match e' with
          | .infix _ _ _ r' l' => varE l l' && varE r r' && showE e' == showE (cmpSwap l' r' e)
          | _ => false))
    | _ => false)
partial def varOptE (e e' : Option Expr) : Bool :=
  match e, e' with
  | some a, some a' => varE a a'
  | none, none => true
  | _, _ => false
/-- `s'` is `s`, a node-specific variant of `s`, or one of the wrappers around `s`. -/
partial def varS (s s' : Stmt) : Bool :=
  showS s == showS s'
  || showS s' == showS (ifTrueWrap s) || showS s' == showS (iterOnceWhile s) || showS s' == showS (iterOnceFor s)
  || (match s, s' with
    | .letS _ n _ _ _ e, .letS _ n' _ _ _ e' => n == n' && varE e e'
    | .ret _ e, .ret _ e' => varOptE e e'
    | .ret _ e, .loopS _ (.mk _ _ [.ret _ e'] none) => varOptE e e'
    | .brk _, _ => showS s' == showS (inBlock s)
    | .loopS _ b, .loopS _ b' => varB b b'
    | .loopS _ b, .whileS _ (.bool _ true) b' => varB b b'
    | .whileS _ c b, .whileS _ c' b' => varE c c' && varB b b'
    | .whileS _ c b, .loopS _ (.mk _ _ stmts' none) =>
      (match stmts' with
        | [.exprS _ (.ifE _ _ c' tb' (some _))] =>
          showE c' == showE c && varB b tb' && showS s' == showS (whileAsLoop1 (fun _ => tb') s)
        | _ => false)
      || (match b, stmts' with
        | .mk bsp _ bst be, _ :: rest =>
          let body := rest.take bst.length
          let tail := rest.drop bst.length
          let tb' : Option Block := match be, tail with
            | none, [] => some (.mk bsp .null body none)
            | some _, [.exprS _ e''] => some (.mk bsp .null body (some e''))
            | _, _ => none
          (match tb' with
            | some tb' => varB b tb' && showS s' == showS (whileAsLoop0 (fun _ => tb') s)
            | none => false)
        | _, _ => false)
    | .forS _ n _ it b, .forS _ n' _ it' b' => n == n' && varE it it' && varB b b'
    | .exprS _ e, .exprS _ e' => varE e e'
    | _, _ => false)
partial def varB (b b' : Block) : Bool :=
  match b, b' with
  | .mk _ _ ss e, .mk _ _ ss' e' =>
    ss.length == ss'.length && (ss.zip ss').all (fun p => varS p.1 p.2) && varOptE e e'
end

open Hms.Core in
/-- First statement pair of two function bodies that does not match (for the report). -/
def firstMismatch (b b' : Block) : String :=
  match b, b' with
  | .mk _ _ ss e, .mk _ _ ss' e' =>
    if ss.length != ss'.length then s!"statement count {ss.length} vs {ss'.length}"
    else match (ss.zip ss').find? (fun p => !varS p.1 p.2) with
      | some (s, s') => s!"stmt {(showS s).take 300} => {(showS s').take 500}"
      | none => if varOptE e e' then "?" else "trailing expression"

open Hms.Core in
def cmdVariantCheck (payload : String) : String :=
  match payload.splitOn " | " with
  | [a, b] =>
    match Sexp.parse a, Sexp.parse b with
    | some sa, some sb =>
      match Decode.program sa, Decode.program sb with
      | .ok pa, .ok pb =>
        match pa.find? (·.name == "main"), pb.find? (·.name == "main") with
        | none, none => "OK"
        | some ma, some mb =>
          let fnBad := mb.fns.findSome? fun f' =>
            match ma.fns.find? (·.name == f'.name) with
            | none => some s!"fn {f'.name}: not in the original"
            | some f => if varB f.body f'.body then none else some s!"fn {f'.name}: {firstMismatch f.body f'.body}"
          let globBad := mb.globals.findSome? fun g' =>
            match g' with
            | .letS _ n _ _ _ e' =>
              let orig := ma.globals.findSome? fun g => match g with
                | .letS _ m _ _ _ e => if m == n then some e else none
                | _ => none
              (match orig with
                | some e => if varE e e' then none else some s!"global {n}"
                | none => some s!"global {n}: not in the original")
            | _ => some "global statement"
          if ma.fns.length != mb.fns.length then s!"MISMATCH function count {ma.fns.length} vs {mb.fns.length}"
          else if ma.globals.length != mb.globals.length then "MISMATCH global count"
          else match fnBad, globBad with
            | some w, _ => "MISMATCH " ++ w
            | none, some w => "MISMATCH " ++ w
            | none, none => "OK"
        | _, _ => "MISMATCH no entry module"
      | .error e, _ => s!"DECODE-ERROR {Sexp.hexOfString e}"
      | _, .error e => s!"DECODE-ERROR {Sexp.hexOfString e}"
    | _, _ => "BAD-INPUT"
  | _ => "BAD-INPUT"

def dispatchPrint (cmd : String) (payload : String) : Option String :=
  match cmd with
  | "printexpr" => some (cmdPrintExpr payload)
  | "strlit" => some (cmdStrLit payload)
  | "optprefix" => some (cmdOptPrefix payload)
  | "variantcheck" => some (cmdVariantCheck payload)
  | _ => none

end Driver
