import Hms
import Driver.Decode
/-! Driver commands of the "Print" area. `dispatchPrint cmd payload` answers `some line` for the
commands it owns and `none` otherwise. -/
namespace Driver
open Hms

def dispatchPrint (cmd : String) (payload : String) : Option String :=
  let _ := payload
  match cmd with
  | _ => none

end Driver
