import Hms
import Hms.Print.Expr
import Hms.Print.Str
import Hms.Print.Optimize
import Driver.Decode
/-! Driver commands of the "Print" area (C19, C20). `dispatchPrint cmd payload` answers `some line`
for the commands it owns and `none` otherwise.

* `printexpr <kind codes>` → `OK flat=<kind codes> reparse=same|diff tree=<render>` | `ERR <class>`:
  parse the tokens with the Pratt model, print the tree with `Print.printTree`, parse the printed
  tokens again (tie: the tokens of the Go `String()` output must be `flat`).
* `strlit (<code points>)` → `P=(<code points of quote (escape s)>) | R=<n>:<kind>:(<value>)`:
  the model of the string literal printers and what the lexer model reads back.
* `optprefix ((<n> (<i> …)) …)` → `OK <k> …`: for every function body with `n` statements of which
  those at the listed indices have recorded type `never`, the number of statements the optimizer
  model keeps.
-/
namespace Driver
open Hms

def codesOf (ks : List TokKind) : String := " ".intercalate (ks.map fun k => toString k.code)

def cmdPrintExpr (payload : String) : String :=
  let codes := (payload.splitOn " ").filter (· ≠ "")
  match codes.mapM (fun s => s.toNat? >>= TokKind.ofCode?) with
  | none => "BAD-INPUT"
  | some ks =>
    match Pratt.parseExpr Gen.prec ks with
    | .ok (t, []) =>
      let flat := Print.printTree t
      let again := match Print.reparse Gen.prec t with
        | .ok (t', []) => if t'.render == t.render then "same" else "diff"
        | _ => "diff"
      s!"OK flat={codesOf flat} reparse={again} tree={t.render}"
    | .ok (_, _ :: _) => "ERR trailing"
    | .error .syntax => "ERR syntax"
    | .error .unsupported => "ERR unsupported"
    | .error .fuel => "ERR fuel"

def runesS (cs : List Char) : String := "(" ++ " ".intercalate (cs.map fun c => toString c.toNat) ++ ")"

def cmdStrLit (payload : String) : String :=
  match Sexp.parse payload >>= Sexp.asRunes? with
  | none => "BAD-INPUT"
  | some s =>
    let q := Print.quote s
    let r := Lex.lexAll q
    let back := match r.err, r.tokens with
      | some _, _ => "ERR"
      | none, [] => "0:-1:()"
      | none, t :: rest => s!"{rest.length + 1}:{t.kind.code}:{runesS t.value}"
    s!"P={runesS q} | R={back}"

def cmdOptPrefix (payload : String) : String :=
  match Sexp.parse payload with
  | some (.list rows) =>
    let one (row : Sexp) : Option Nat :=
      match row with
      | .list [n, .list idx] => do
        let n ← n.asNat?
        let idx ← idx.mapM Sexp.asNat?
        pure (Print.keptCount ((List.range n).map fun i => idx.contains i))
      | _ => none
    match rows.mapM one with
    | some ks => "OK " ++ " ".intercalate (ks.map toString)
    | none => "BAD-INPUT"
  | _ => "BAD-INPUT"

def dispatchPrint (cmd : String) (payload : String) : Option String :=
  match cmd with
  | "printexpr" => some (cmdPrintExpr payload)
  | "strlit" => some (cmdStrLit payload)
  | "optprefix" => some (cmdOptPrefix payload)
  | _ => none

end Driver
