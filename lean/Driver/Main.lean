import Hms
import Driver.Cmds
/-! Line-protocol driver: `<command> <payload>` per line, one answer line per input line. -/
open Hms

partial def loop (h : IO.FS.Stream) (out : IO.FS.Stream) : IO Unit := do
  let line ← h.getLine
  if line.isEmpty then return ()
  let line := (line.dropRightWhile (fun c => c == '\n' || c == '\r'))
  let ans := Driver.dispatch line
  out.putStrLn ans
  out.flush
  loop h out

def main : IO Unit := do
  loop (← IO.getStdin) (← IO.getStdout)
