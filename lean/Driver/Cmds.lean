import Hms
import Driver.Decode
import Driver.CmdsValues
import Driver.CmdsMembers
import Driver.CmdsAnalyzer
import Driver.CmdsHost
import Driver.CmdsPrint
import Driver.CmdsTotal
import Driver.CmdsModules
import Driver.CmdsCore
/-! Command table of the driver. Each command is a pure function `String → String`. -/
namespace Driver
open Hms

def splitCmd (line : String) : String × String :=
  match line.splitOn " " with
  | [] => ("", "")
  | c :: rest => (c, " ".intercalate rest)

/-- `pratt <code> <code> …` → `OK <tree>` | `ERR <class>` -/
def cmdPratt (payload : String) : String :=
  let codes := (payload.splitOn " ").filter (· ≠ "")
  match codes.mapM (fun s => s.toNat? >>= TokKind.ofCode?) with
  | none => "BAD-INPUT"
  | some ks =>
    match Pratt.parseExpr Gen.prec ks with
    | .ok (t, []) =>
      let n := Pratt.normal Gen.prec 0 t
      s!"OK normal={n} {t.render}"
    | .ok (_, _ :: _) => "ERR trailing"
    | .error .syntax => "ERR syntax"
    | .error .unsupported => "ERR unsupported"
    | .error .fuel => "ERR fuel"

def locStr (l : Lex.Loc) : String := s!"{l.line}.{l.col}.{l.idx}"

def errClass : Lex.ErrKind → String
  | .illegalChar => "illegalChar"
  | .stringNeverClosed => "stringNeverClosed"
  | .unfinishedEscape => "unfinishedEscape"
  | .invalidEscape => "invalidEscape"
  | .expectedGt => "expectedGt"

/-- `lex (c1 c2 …)` → same format as `hv lex` (without the file flag). -/
def cmdLex (payload : String) : String :=
  match Sexp.parse payload >>= Sexp.asRunes? with
  | none => "BAD-INPUT"
  | some cs =>
    let r := Lex.lexAll cs
    let toks := r.tokens.map fun t =>
      s!"T{t.kind.code}:{".".intercalate (t.value.map fun c => toString c.toNat)}:{locStr t.start}-{locStr t.stop} "
    let tail := match r.err, r.eof with
      | some e, _ => s!"X{errClass e.kind}:{locStr e.start}-{locStr e.stop}"
      | none, some t => s!"E:{locStr t.start}"
      | none, none => "!fuel"
    String.join toks ++ tail

def parseLoc (s : String) : Option Lex.Loc :=
  match (s.splitOn ".").map String.toNat? with
  | [some l, some c, some i] => some ⟨l, c, i⟩
  | _ => none

/-- Parse one `T<kind>:<v1.v2…>:<loc>-<loc>` item of the token-stream format. -/
def parseTokItem (s : String) : Option Lex.Tok := do
  guard (s.startsWith "T")
  match (String.ofList (s.toList.drop 1)).splitOn ":" with
  | [k, v, span] =>
    let kind ← k.toNat? >>= TokKind.ofCode?
    let vals ← (if v == "" then some [] else (v.splitOn ".").mapM String.toNat?)
    match span.splitOn "-" with
    | [a, b] =>
      let st ← parseLoc a
      let en ← parseLoc b
      pure ⟨kind, vals.map Char.ofNat, st, en⟩
    | _ => none
  | _ => none

/-- `tokcheck (c1 c2 …) | <token stream line>` → `SPEC-OK` / `SPEC-FAIL`: does the
implementation's token stream satisfy the lexical specification? Also checks the EOF position. -/
def cmdTokCheck (payload : String) : String :=
  match payload.splitOn " | " with
  | [srcS, stream] =>
    match Sexp.parse srcS >>= Sexp.asRunes? with
    | none => "BAD-INPUT"
    | some src =>
      let items := (stream.splitOn " ").filter (· ≠ "")
      let tokItems := items.filter (·.startsWith "T")
      match tokItems.mapM parseTokItem with
      | none => "BAD-INPUT"
      | some toks =>
        let eofItem := items.find? (·.startsWith "E:")
        match eofItem with
        | some e =>
          let eofOK := parseLoc (String.ofList (e.toList.drop 2)) == some (Lex.Spec.locAt src src.length)
          if Lex.Spec.tokensMeetSpec src toks && eofOK then "SPEC-OK" else "SPEC-FAIL"
        | none => "SPEC-NA"   -- the stream ends in an error: judged by the error-path checks
  | _ => "BAD-INPUT"

/-- `selfcheck (c1 c2 …)` → does the *model's* piece list satisfy the specification? -/
def cmdSelfCheck (payload : String) : String :=
  match Sexp.parse payload >>= Sexp.asRunes? with
  | none => "BAD-INPUT"
  | some src =>
    match Lex.pieces (src.length + 1) Lex.Loc.start src with
    | .inl (.ok ps) => if Lex.Spec.tokenizes src ps then "SPEC-OK" else "SPEC-FAIL"
    | .inl (.error _) => "SPEC-NA"
    | .inr () => "FUEL"

def hexS (s : String) : String := Sexp.hexOfString s

def spanS (sp : Core.Span) : String := s!"{sp.sl}.{sp.sc}-{sp.el}.{sp.ec}"

def firstLine (s : String) : String := (s.splitOn "\n").headD ""

def outcomeS : Core.Outcome → String
  | .ok out trig => s!"OK out={hexS out} trig={hexS trig}"
  | .fatal k msg sp out trig => s!"FATAL kind={k} msg={hexS (firstLine msg)} span={spanS sp} out={hexS out} trig={hexS trig}"
  | .unsupported w => s!"UNSUPPORTED {hexS w}"
  | .timeout => "TIMEOUT"

/-- `spec <fuel> <callLimit> <modules sexp>` → outcome of the specification semantics;
`(hosted (singletons (x<name> V)…) <modules sexp>)` in place of the modules: the host provides these
singleton values. -/
def cmdSpec (payload : String) : String :=
  match payload.splitOn " " with
  | fuelS :: limS :: rest =>
    match fuelS.toNat?, limS.toNat?, Sexp.parse (" ".intercalate rest) with
    | some fuel, some lim, some sx =>
      match Decode.hostedProgram sx with
      | .ok (prog, host) => outcomeS (Core.runProgram { prog := prog, callLimit := lim, hostSingletons := host } fuel)
      | .error e => s!"DECODE-ERROR {hexS e}"
    | _, _, _ => "BAD-INPUT"
  | _ => "BAD-INPUT"

def dispatch (line : String) : String :=
  let (c, p) := splitCmd line
  match c with
  | "pratt" => cmdPratt p
  | "lex" => cmdLex p
  | "tokcheck" => cmdTokCheck p
  | "selfcheck" => cmdSelfCheck p
  | "spec" => cmdSpec p
  | "ping" => "pong"
  | _ =>
    let areas : List (String → String → Option String) :=
      [dispatchValues, dispatchMembers, dispatchAnalyzer, dispatchHost, dispatchPrint, dispatchTotal,
       dispatchModules, dispatchCore]
    match areas.findSome? (fun f => f c p) with
    | some ans => ans
    | none => "BAD-COMMAND"

end Driver
