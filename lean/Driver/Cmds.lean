import Hms
/-! Command table of the driver. Each command is a pure function `String → String`. -/
namespace Driver
open Hms

def splitCmd (line : String) : String × String :=
  match line.splitOn " " with
  | [] => ("", "")
  | c :: rest => (c, " ".intercalate rest)

/-- `pratt <code> <code> …` → `OK <tree>` | `ERR <class>` -/
def cmdPratt (payload : String) : String :=
  let codes := (payload.splitOn " ").filter (· ≠ "")
  match codes.mapM (fun s => s.toNat? >>= TokKind.ofCode?) with
  | none => "BAD-INPUT"
  | some ks =>
    match Pratt.parseExpr Gen.prec ks with
    | .ok (t, []) =>
      let n := Pratt.normal Gen.prec 0 t
      s!"OK normal={n} {t.render}"
    | .ok (_, _ :: _) => "ERR trailing"
    | .error .syntax => "ERR syntax"
    | .error .unsupported => "ERR unsupported"
    | .error .fuel => "ERR fuel"

def dispatch (line : String) : String :=
  let (c, p) := splitCmd line
  match c with
  | "pratt" => cmdPratt p
  | "ping" => "pong"
  | _ => "BAD-COMMAND"

end Driver
