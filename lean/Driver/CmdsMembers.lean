import Hms
import Driver.Decode
import Hms.Members.Sig
/-! Driver commands of the "Members" area (C18). `dispatchMembers cmd payload` answers `some line`
for the commands it owns and `none` otherwise.

* `mmodel vm|tree <op>` — the model's outcome for `(call recv x<member> arg…)`, `(field recv x<member>)`,
  `(index recv idx)` (value syntax of `hv membercall`):
  `OK ret=<v> recv=<v>` | `INT class=fatal|throw kind=<K|-> msg=<hex>` | `PANIC <hex>` | `UNMODELLED`;
  `(seq recv (x<member> arg…)…)` applies the calls in turn and appends ` step=<n>`
* `mconf call|field|index x<rep> x<member> <ret> <recv>` — does the dumped result conform to the type the
  regenerated analyzer table advertises, and the receiver to the representative's type?
  `CONF ret=<b> recv=<b>` | `NOROW`
* `mrows` — the regenerated typed analyzer table: `rep|member|method|(params…)|result|modelled;…`
* `mreps` — `rep|type;…`     * `mconverse` — `VM:rep.member,…|TREE:rep.member,…`
-/
namespace Driver
open Hms Hms.Members HmsGen

mutual
def decodeVal : Sexp → Option MVal
  | .atom a => if a == "null" then some .null else if a == "none" then some .none else none
  | .list [] => none
  | .list (.list _ :: _) => none
  | .list (.atom tag :: args) =>
    match tag, args with
    | "int", [x] => (x.asInt?).map fun i => .int (BitVec.ofInt 64 i)
    | "float", [x] => (x.asNat?).map .float
    | "bool", [x] => (x.asBool?).map .bool
    | "str", [x] => (x.asStr?).map fun t => .str t.toList
    | "range", [a, b, c] => do
      let a ← a.asInt?; let b ← b.asInt?; let c ← c.asBool?
      pure (.range (BitVec.ofInt 64 a) (BitVec.ofInt 64 b) c)
    | "list", xs => (decodeVals xs).map .list
    | "some", [x] => (decodeVal x).map .some
    | "anyobj", fs => (decodeFields fs).map fun kv => .anyobj (kv.map (·.1)) (kv.map (·.2))
    | "obj", fs => (decodeFields fs).map fun kv => .obj (kv.map (·.1)) (kv.map (·.2))
    | "fn", [] => some .fn
    | "other", [x] => (x.asStr?).map .other
    | _, _ => none
def decodeVals : List Sexp → Option (List MVal)
  | [] => some []
  | x :: xs => do
    let v ← decodeVal x
    let vs ← decodeVals xs
    pure (v :: vs)
def decodeFields : List Sexp → Option (List (String × MVal))
  | [] => some []
  | .list [k, v] :: rest => do
    let k ← k.asStr?
    let v ← decodeVal v
    let r ← decodeFields rest
    pure ((k, v) :: r)
  | _ => none
end

/-- Pair keys with (encoded) values and sort by key (the Go side dumps maps sorted). -/
def sortedFields (ks : List String) (vs : List String) : List (String × String) :=
  let kv := ks.zip vs
  (sortStrings (kv.map (·.1))).filterMap fun k => (kv.find? (·.1 == k)).map fun p => (k, p.2)

def encodeFields (fs : List (String × String)) : List String :=
  fs.map fun (k, v) => s!"({Sexp.hexOfString k} {v})"

mutual
def encodeVal : MVal → String
  | .null => "null"
  | .none => "none"
  | .int v => s!"(int {v.toInt})"
  | .float b => s!"(float {b})"
  | .bool b => s!"(bool {b})"
  | .str cs => s!"(str {Sexp.hexOfString (String.ofList cs)})"
  | .range a b i => s!"(range {a.toInt} {b.toInt} {i})"
  | .list xs => "(" ++ " ".intercalate ("list" :: encodeVals xs) ++ ")"
  | .some v => s!"(some {encodeVal v})"
  | .anyobj ks vs => "(" ++ " ".intercalate ("anyobj" :: encodeFields (sortedFields ks (encodeVals vs))) ++ ")"
  | .obj ks vs => "(" ++ " ".intercalate ("obj" :: encodeFields (sortedFields ks (encodeVals vs))) ++ ")"
  | .fn => "(fn)"
  | .other k => s!"(other {Sexp.hexOfString k})"
def encodeVals : List MVal → List String
  | [] => []
  | v :: vs => encodeVal v :: encodeVals vs
end

def encodeRes : Res → String
  | .ok ret recv => s!"OK ret={encodeVal ret} recv={encodeVal recv}"
  | .fatal k m => s!"INT class=fatal kind={k} msg={Sexp.hexOfString m}"
  | .throw m => s!"INT class=throw kind=- msg={Sexp.hexOfString m}"
  | .panic w => s!"PANIC {Sexp.hexOfString w}"
  | .unmodelled => "UNMODELLED"

def runOp (vm : Bool) (op : Sexp) : Option Res :=
  match op with
  | .list (.atom "call" :: recv :: name :: args) => do
    let r ← decodeVal recv
    let n ← name.asStr?
    let a ← decodeVals args
    pure (callMember vm r n a)
  | .list [.atom "field", recv, name] => do
    let r ← decodeVal recv
    let n ← name.asStr?
    pure (fieldMember r n)
  | .list [.atom "index", recv, idx] => do
    let r ← decodeVal recv
    let i ← decodeVal idx
    pure (indexValue r i)
  | _ => none

/-- `(seq recv (x<member> arg…)…)`: the calls one after the other on the same receiver; the first
non-OK step or the last step, with its number. -/
def runSeq (vm : Bool) (recv : MVal) (steps : List Sexp) : Option (Res × Nat) := do
  let mut cur := recv
  let mut last : Res := .ok .null recv
  let mut n := 0
  for st in steps do
    match st with
    | .list (name :: args) =>
      let nm ← name.asStr?
      let a ← decodeVals args
      let r := callMember vm cur nm a
      match r with
      | .ok _ recv' => cur := recv'; last := r
      | .fatal k m => return (.fatal k m, n)
      | .throw m => return (.throw m, n)
      | .panic w => return (.panic w, n)
      | .unmodelled => return (.unmodelled, n)
    | _ => none
    n := n + 1
  return (last, n - 1)

def cmdModel (payload : String) : String :=
  match payload.splitOn " " with
  | be :: rest =>
    match Sexp.parse (" ".intercalate rest) with
    | some (.list (.atom "seq" :: recv :: steps)) =>
      match decodeVal recv >>= fun r => runSeq (be == "vm") r steps with
      | some (r, n) => s!"{encodeRes r} step={n}"
      | none => "BAD-INPUT"
    | some op =>
      match runOp (be == "vm") op with
      | some r => encodeRes r
      | none => "BAD-INPUT"
    | none => "BAD-INPUT"
  | _ => "BAD-INPUT"

def encodeTy : GTy → String
  | .unknown => "unknown" | .never => "never" | .any => "any" | .null => "null" | .int => "int"
  | .float => "float" | .bool => "bool" | .str => "str" | .range => "range" | .anyobj => "anyobj"
  | .obj => "obj" | .fn => "fn"
  | .list e => s!"(list {encodeTy e})"
  | .opt e => s!"(opt {encodeTy e})"
  | .other p => s!"(other {Sexp.hexOfString p})"

/-- `mconf kind x<rep> x<member> <ret> <recv>` -/
def cmdConf (payload : String) : String :=
  match Sexp.parse ("(" ++ payload ++ ")") with
  | some (.list [.atom kind, rep, member, ret, recv]) =>
    match rep.asStr?, member.asStr?, decodeVal ret, decodeVal recv with
    | some rep, some member, some ret, some recv =>
      match repType rep with
      | none => "NOROW"
      | some t =>
        let resTy : Option GTy :=
          if kind == "index" then indexResultType t
          else (advertised rep member).map fun r => r.2.2
        match resTy with
        | none => "NOROW"
        | some rt => s!"CONF ret={conforms ret rt} recv={conforms recv t}"
    | _, _, _, _ => "BAD-INPUT"
  | _ => "BAD-INPUT"

def cmdRows : String :=
  ";".intercalate <| membersAnalyzerTyped.map fun r =>
    s!"{r.1}|{r.2.1}|{r.2.2.1}|({" ".intercalate (r.2.2.2.1.map encodeTy)})|{encodeTy r.2.2.2.2}|{modelled r.1 r.2.1 r.2.2.1}"

def cmdReps : String :=
  ";".intercalate <| repTypes.map fun r => s!"{r.1}|{encodeTy r.2}"

def runtimeOnlyRows (tbl : List (String × String × String)) : List String :=
  (tbl.filter fun r => !(membersAnalyzer.any fun a => a.1 == r.1 && a.2.1 == r.2.1)).map fun r => s!"{r.1}.{r.2.1}"

def cmdConverse : String :=
  s!"VM:{",".intercalate (runtimeOnlyRows membersVM)}|TREE:{",".intercalate (runtimeOnlyRows membersTree)}"

def dispatchMembers (cmd : String) (payload : String) : Option String :=
  match cmd with
  | "mmodel" => some (cmdModel payload)
  | "mconf" => some (cmdConf payload)
  | "mrows" => some cmdRows
  | "mreps" => some cmdReps
  | "mconverse" => some cmdConverse
  | _ => none

end Driver
