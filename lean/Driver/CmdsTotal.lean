import Hms
import Hms.Pos.Render
import Hms.Pos.ImportGraph
import Driver.Decode
/-! Driver commands of the "Total" area (C05, C08). `dispatchTotal cmd payload` answers `some line`
for the commands it owns and `none` otherwise.

* `rendercheck (<code points>) sl sc si el ec ei` → `err=ok|panic diag=ok|panic pos=in|whole|bad ord=0|1`:
  the verdict of the Lean transcriptions `renderErrOK` / `renderDiagOK` of the two Go renderers and the
  span predicates of `Hms.Pos` on an arbitrary span (tie for `HmsProofs.C08.render_safe`).
* `importcheck ((main a b) (a a) (b))` → `visited=a,b,main cyclic=<n>` | `FUEL`: the module-recursion
  model on an import graph (module name followed by the modules it imports, entry module first).
-/
namespace Driver
open Hms Hms.Pos

def cmdRenderCheck (payload : String) : String :=
  match Sexp.parse ("(" ++ payload ++ ")") with
  | some (.list [srcS, a, b, c, d, e, f]) =>
    match Sexp.asRunes? srcS, [a, b, c, d, e, f].mapM Sexp.asNat? with
    | some src, some [sl, sc, si, el, ec, ei] =>
      let sp : Span := ⟨⟨sl, sc, si⟩, ⟨el, ec, ei⟩⟩
      let v (b : Bool) := if b then "ok" else "panic"
      let pos := if decide (WholeFile sp) then "whole" else if decide (InText src sp) then "in" else "bad"
      let ord := if decide (Ordered sp) then "1" else "0"
      s!"err={v (renderErrOK src sp)} diag={v (renderDiagOK src sp)} pos={pos} ord={ord}"
    | _, _ => "BAD-INPUT"
  | _ => "BAD-INPUT"

def atomName : Sexp → Option String
  | .atom s => some s
  | _ => none

def insertSorted (x : String) : List String → List String
  | [] => [x]
  | y :: ys => if x < y then x :: y :: ys else y :: insertSorted x ys

def cmdImportCheck (payload : String) : String :=
  match Sexp.parse payload with
  | some (.list mods) =>
    match mods.mapM (fun m => m.items.mapM atomName) with
    | some rows =>
      let host : Imports.Host := rows.filterMap fun r =>
        match r with
        | n :: imps => some (n, imps)
        | [] => none
      match host with
      | [] => "BAD-INPUT"
      | (entry, _) :: _ =>
        match Imports.analyze host entry with
        | none => "FUEL"
        | some st =>
          let vis := st.visited.foldl (fun acc x => insertSorted x acc) []
          s!"visited={",".intercalate vis} cyclic={st.cyclicAt.length}"
    | none => "BAD-INPUT"
  | _ => "BAD-INPUT"

def dispatchTotal (cmd : String) (payload : String) : Option String :=
  match cmd with
  | "rendercheck" => some (cmdRenderCheck payload)
  | "importcheck" => some (cmdImportCheck payload)
  | _ => none

end Driver
