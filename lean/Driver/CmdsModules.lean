import Hms
import Hms.Mod.Graph
import Hms.Mod.Link
import Hms.Mod.Order
import Driver.Decode
/-! Driver commands of the "Modules" area. `dispatchModules cmd payload` answers `some line` for the
commands it owns and `none` otherwise.

* `modgraph (graph (mod x<name> (imports (imp x<target> (x<item> n|t)…)…) (items (fn|glob|type x<name> 0|1)…)
  (inits (x<name> x<value>)…) (bodies (x<fn> (say x<label> x<g>…) (bump x<g>) (call x<f>)…)…))…)`
  → `D=<class>@<module>#<idx>,… | FRAG=… | CLASH=… | ILLEGAL=<module>#<idx>,… | OUT=x<hex>|NONE |
     LINKED=same|differs | INIT=<module>:<#SetGlob>:<callees joined by +>:<ends with Return>;…`
* `mangle <module> <name> <counter>` → the mangled storage name under the fixed scheme.
-/
namespace Driver
open Hms Hms.Mod

namespace ModCmds

namespace Dec

def str? (s : Sexp) : Option String := s.asStr?

def impItem? : Sexp → Option ImpItem
  | .list [n, .atom "n"] => do pure ⟨← str? n, .normal⟩
  | .list [n, .atom "t"] => do pure ⟨← str? n, .type⟩
  | _ => none

def import? : Sexp → Option Import
  | .list (.atom "imp" :: tgt :: items) => do pure ⟨← str? tgt, ← items.mapM impItem?⟩
  | _ => none

def item? : Sexp → Option Item
  | .list [.atom k, n, .atom p] => do
    let kind ← match k with
      | "fn" => some ItemKind.fn | "glob" => some ItemKind.glob | "type" => some ItemKind.type | _ => none
    pure ⟨kind, ← str? n, p == "1"⟩
  | _ => none

def act? : Sexp → Option Act
  | .list (.atom "say" :: l :: gs) => do pure (.say (← str? l) (← gs.mapM str?))
  | .list [.atom "bump", g] => do pure (.bump (← str? g))
  | .list [.atom "call", f] => do pure (.call (← str? f))
  | _ => none

def body? : Sexp → Option (String × List Act)
  | .list (f :: acts) => do pure (← str? f, ← acts.mapM act?)
  | _ => none

def init? : Sexp → Option (String × String)
  | .list [n, v] => do pure (← str? n, ← str? v)
  | _ => none

def module? : Sexp → Option Module
  | .list [.atom "mod", n, .list (.atom "imports" :: imps), .list (.atom "items" :: items),
      .list (.atom "inits" :: inits), .list (.atom "bodies" :: bodies)] => do
    pure ⟨← str? n, ← imps.mapM import?, ← items.mapM item?, ← inits.mapM init?, ← bodies.mapM body?⟩
  | _ => none

def graph? : Sexp → Option Modules
  | .list (.atom "graph" :: ms) => ms.mapM module?
  | _ => none

end Dec

def diagS (d : Diag) : String :=
  s!"{d.cls.name}@{d.module}#{match d.stmt with | some i => toString i | none => "-"}"

def sortStrings (xs : List String) : List String := (xs.toArray.qsort (· < ·)).toList

/-- All permutations of a (short) list. -/
def perms {α} : List α → List (List α)
  | [] => [[]]
  | x :: xs => (perms xs).flatMap fun p => (List.range (p.length + 1)).map fun i => p.take i ++ [x] ++ p.drop i

def cmdModGraph (payload : String) : String :=
  match Sexp.parse payload >>= Dec.graph? with
  | none => "BAD-INPUT"
  | some all =>
    let diags := sortStrings ((analyze all).map diagS)
    let ms0 := all
    let illegal := sortStrings (ms0.flatMap fun m =>
      (List.zip m.imports (List.range m.imports.length)).filterMap fun (imp, i) =>
        if stmtIllegal ms0 m imp then some s!"{m.name}#{i}" else none)
    let ms := analysed all
    let fuel := 20000
    let out := runLex ms fuel
    let outS := match out with | some o => Sexp.hexOfString o | none => "NONE"
    let ps := perms ms
    let linkedSame := ps.all fun ord => ps.all fun any => runLinked ms ord any fuel == out
    let byName := (ms.toArray.qsort fun a b => a.name < b.name).toList
    let initS := ";".intercalate (byName.map fun m =>
      let code := initOf ms "main" m
      let nSet := (code.filter fun i => match i with | .setGlob .. => true | _ => false).length
      let callees := sortStrings (code.filterMap fun i => match i with | .callInit o => some o | _ => none)
      let endsRet := code.getLast? == some .ret
      s!"{m.name}:{nSet}:{"+".intercalate callees}:{endsRet}")
    let startupOK := ps.all fun ord =>
      let ev := startup ord "main"
      ev.getLast? == some .main && ms.all fun m => ev.count (.init m.name) == 1
    let execs := (treeExecs ms (ms.length + 1) [] "main").1
    s!"D={",".intercalate diags} | FRAG={fragC15 all} | CLASH={!noCrossModuleClash ms} | CLOSED={closed ms} | ILLEGAL={",".intercalate illegal} | OUT={outS} | LINKED={if linkedSame then "same" else "differs"} | INIT={initS} | STARTUP={startupOK} | EXECS={"+".intercalate execs}"

/-- `mangle x<module> x<name> <counter>` → fixed-scheme storage name and the unfixed one. -/
def cmdMangle (payload : String) : String :=
  match payload.splitOn " " with
  | [m, n, c] =>
    match (Sexp.atom m).asStr?, (Sexp.atom n).asStr?, c.toNat? with
    | some m, some n, some c => s!"FIXED={Sexp.hexOfString (mangleVarFixed m n c)} | UNFIXED={Sexp.hexOfString (mangleVarUnfixed m n c)} | FNFIXED={Sexp.hexOfString (mangleFnFixed m n)} | FNUNFIXED={Sexp.hexOfString (mangleFnUnfixed m n)}"
    | _, _, _ => "BAD-INPUT"
  | _ => "BAD-INPUT"

end ModCmds

def dispatchModules (cmd : String) (payload : String) : Option String :=
  match cmd with
  | "modgraph" => some (ModCmds.cmdModGraph payload)
  | "mangle" => some (ModCmds.cmdMangle payload)
  | _ => none

end Driver
