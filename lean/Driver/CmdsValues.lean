import Hms
import Driver.Decode
import Hms.Value.Val
import Hms.Value.Cast
import Hms.Value.Display
import Hms.Value.Json
import Hms.Value.Heap
/-! Driver commands of the "Values" area (C12, C13). `dispatchValues cmd payload` answers
`some line` for the commands it owns and `none` otherwise. The S-expression syntax of values and
types is the one of `harness/values.go`. -/
namespace Driver
open Hms Hms.Value

namespace ValCodec

partial def decVal (s : Sexp) : Option Val :=
  match s with
  | .atom "null" => some .null
  | .atom "none" => some .none
  | .atom "fn" => some .fn
  | .list [.atom "some", v] => (decVal v).map .some
  | .list [.atom "i", n] => n.asInt?.map fun i => .int (BitVec.ofInt 64 i)
  | .list [.atom "f", m, e] => do
      let m ← m.asInt?
      let e ← e.asNat?
      pure (.flt (Dy.norm ⟨m, e⟩))
  | .list [.atom "b", b] => b.asBool?.map .bool
  | .list [.atom "s", x] => x.asStr?.map .str
  | .list (.atom "l" :: xs) => do
      let vs ← xs.mapM decVal
      pure (.list (Vals.ofList vs))
  | .list (.atom "o" :: fs) => do
      let kvs ← fs.mapM decField
      pure (.obj (Fields.ofList kvs))
  | .list (.atom "a" :: fs) => do
      let kvs ← fs.mapM decField
      pure (.anyobj (Fields.ofList kvs))
  | .list [.atom "r", a, b, incl] => do
      let a ← a.asInt?
      let b ← b.asInt?
      let i ← incl.asBool?
      pure (.range (BitVec.ofInt 64 a) (BitVec.ofInt 64 b) i)
  | _ => none
where
  decField (s : Sexp) : Option (String × Val) :=
    match s with
    | .list [k, v] => do
        let k ← k.asStr?
        let v ← decVal v
        pure (k, v)
    | _ => none

partial def decTy (s : Sexp) : Option Ty :=
  match s with
  | .atom "any" => some .any
  | .atom "null" => some .null
  | .atom "int" => some .int
  | .atom "float" => some .float
  | .atom "bool" => some .bool
  | .atom "str" => some .str
  | .atom "range" => some .range
  | .atom "anyobj" => some .anyobj
  | .atom "fn" => some .fn
  | .list [.atom "list", t] => (decTy t).map .list
  | .list [.atom "opt", t] => (decTy t).map .opt
  | .list (.atom "obj" :: fs) => do
      let kts ← fs.mapM fun f =>
        match f with
        | .list [k, t] => do
            let k ← k.asStr?
            let t ← decTy t
            pure (k, t)
        | _ => none
      pure (.obj (TyFields.ofList kts))
  | _ => none

def insertKV (kv : String × String) : List (String × String) → List (String × String)
  | [] => [kv]
  | x :: xs => if kv.1 < x.1 then kv :: x :: xs else x :: insertKV kv xs

def sortKV : List (String × String) → List (String × String)
  | [] => []
  | x :: xs => insertKV x (sortKV xs)

def boolS (b : Bool) : String := if b then "true" else "false"

mutual
partial def encVal : Val → String
  | .null => "null"
  | .none => "none"
  | .fn => "fn"
  | .some v => s!"(some {encVal v})"
  | .int i => s!"(i {i.toInt})"
  | .flt d => let n := d.norm; s!"(f {n.m} {n.e})"
  | .bool b => s!"(b {boolS b})"
  | .str s => s!"(s {Sexp.hexOfString s})"
  | .list xs => "(l" ++ String.join (xs.toList.map fun v => " " ++ encVal v) ++ ")"
  | .obj fs => "(o" ++ encFields fs ++ ")"
  | .anyobj fs => "(a" ++ encFields fs ++ ")"
  | .range a b i => s!"(r {a.toInt} {b.toInt} {boolS i})"
partial def encFields (fs : Fields) : String :=
  let kvs := fs.toList.map fun kv => (kv.1, encVal kv.2)
  String.join ((sortKV kvs).map fun kv => s!" ({Sexp.hexOfString kv.1} {kv.2})")
end

def pathS (p : Path) : String :=
  String.join (p.map fun c =>
    match c with
    | .field k => "." ++ k
    | .index i => s!"[{i}]"
    | .optInner => "<option-inner>")

def clsS : ErrClass → String
  | .incompatible => "incompatible"
  | .unexpectedField _ => "unexpected-field"
  | .missingField _ => "missing-field"

def clsKey : ErrClass → String
  | .incompatible => ""
  | .unexpectedField k => k
  | .missingField k => k

def errS (e : CastErr) : String := s!"{clsS e.cls}:{Sexp.hexOfString (clsKey e.cls)}:{Sexp.hexOfString (pathS e.path)}"

/-! JSON trees travel as S-expressions: null | (jb true) | (jn m e intLit) | (js x<hex>) | (ja J…) | (jo (x<key> J)…) -/

partial def decJ (s : Sexp) : Option J :=
  match s with
  | .atom "null" => some .null
  | .list [.atom "jb", b] => b.asBool?.map .bool
  | .list [.atom "jn", m, e, l] => do
      let m ← m.asInt?
      let e ← e.asNat?
      let l ← l.asBool?
      -- an integer spelling which fits an int64 is the exact `int` kind (J1)
      if l && e == 0 && -(2 : Int) ^ 63 ≤ m && m < (2 : Int) ^ 63 then pure (.int (BitVec.ofInt 64 m))
      else pure (.num (Dy.norm ⟨m, e⟩) l)
  | .list [.atom "js", x] => x.asStr?.map .str
  | .list (.atom "ja" :: xs) => do
      let js ← xs.mapM decJ
      pure (.arr (js.foldr (fun j acc => .cons j acc) .nil))
  | .list (.atom "jo" :: fs) => do
      let kvs ← fs.mapM fun f =>
        match f with
        | .list [k, v] => do
            let k ← k.asStr?
            let v ← decJ v
            pure (k, v)
        | _ => none
      pure (.obj (kvs.foldr (fun kv acc => .cons kv.1 kv.2 acc) .nil))
  | _ => none

mutual
partial def encJ : J → String
  | .null => "null"
  | .bool b => s!"(jb {boolS b})"
  | .num d l => let n := d.norm; s!"(jn {n.m} {n.e} {boolS l})"
  | .int i => s!"(jn {i.toInt} 0 true)"
  | .str s => s!"(js {Sexp.hexOfString s})"
  | .arr xs => "(ja" ++ encJs xs ++ ")"
  | .obj fs => "(jo" ++ String.join ((sortKV (encJFields fs)).map fun kv => s!" ({Sexp.hexOfString kv.1} {kv.2})") ++ ")"
partial def encJs : Js → String
  | .nil => ""
  | .cons j js => " " ++ encJ j ++ encJs js
partial def encJFields : JFields → List (String × String)
  | .nil => []
  | .cons k j fs => (k, encJ j) :: encJFields fs
end

end ValCodec

open ValCodec

def parseArgs (payload : String) : Option (List Sexp) :=
  (Sexp.parse ("(" ++ payload ++ ")")).map Sexp.items

def flagsS (v : Val) (T : Ty) : String := s!"wf={boolS (v.wf && T.wf)} data={boolS v.data}"

/-- `vcast <allow> V T` → `OK <V'> conf=<conforms T V'> …` | `ERR <first> ALT <all possible> …` -/
def cmdVCast (payload : String) : String :=
  match parseArgs payload with
  | some [a, v, t] =>
    match a.asBool?, decVal v, decTy t with
    | some allow, some v, some T =>
      let conv := boolS (convertible allow T v)
      let conf := boolS (conforms T v)
      match castAll allow T v [] with
      | .ok v' => s!"OK {encVal v'} outconf={boolS (conforms T v')} same={boolS (v'.isEqual v)} conf={conf} conv={conv} {flagsS v T}"
      | .error es => s!"ERR {" ".intercalate (es.map errS)} conf={conf} conv={conv} {flagsS v T}"
    | _, _, _ => "BAD-INPUT"
  | _ => "BAD-INPUT"

/-- `vconf V T` → does the (Go-produced) value conform to the type? -/
def cmdVConf (payload : String) : String :=
  match parseArgs payload with
  | some [v, t] =>
    match decVal v, decTy t with
    | some v, some T => boolS (conforms T v)
    | _, _ => "BAD-INPUT"
  | _ => "BAD-INPUT"

def decPath (s : String) : Option Path :=
  -- path syntax of the Go messages: .name  [n]  <option-inner>
  let rec go (cs : List Char) (fuel : Nat) (acc : Path) : Option Path :=
    match fuel with
    | 0 => none
    | fuel + 1 =>
      match cs with
      | [] => some acc.reverse
      | '.' :: rest =>
        let name := rest.takeWhile (fun c => c != '.' && c != '[' && c != '<')
        go (rest.drop name.length) fuel (.field (String.ofList name) :: acc)
      | '[' :: rest =>
        let ds := rest.takeWhile (· != ']')
        match (String.ofList ds).toNat? with
        | some n => go (rest.drop (ds.length + 1)) fuel (.index n :: acc)
        | none => none
      | '<' :: rest =>
        let w := rest.takeWhile (· != '>')
        if String.ofList w == "option-inner" then go (rest.drop (w.length + 1)) fuel (.optInner :: acc) else none
      | _ => none
  go s.toList (s.length + 1) []

/-- `verr <allow> V T <class> x<key> x<path>` → does the error Go reported address an offending
sub-value (specification side, independent of `castAll`)? -/
def cmdVErr (payload : String) : String :=
  match parseArgs payload with
  | some [a, v, t, .atom cls, key, path] =>
    match a.asBool?, decVal v, decTy t, key.asStr?, path.asStr? with
    | some allow, some v, some T, some key, some pathStr =>
      let c : ErrClass := match cls with
        | "unexpected-field" => .unexpectedField key
        | "missing-field" => .missingField key
        | _ => .incompatible
      match decPath pathStr with
      | none => "BAD-PATH"
      | some p =>
        match subAt p v T with
        | none => "NO-SUCH-PATH"
        | some (vs, Ts) => if offends allow c vs Ts && !convertible allow Ts vs then "OFFENDS" else "NOT-OFFENDING"
    | _, _, _, _, _ => "BAD-INPUT"
  | _ => "BAD-INPUT"

/-- `veq V V` → `true|false refl=.. wf=..` -/
def cmdVEq (payload : String) : String :=
  match parseArgs payload with
  | some [a, b] =>
    match decVal a, decVal b with
    | some a, some b => s!"{boolS (a.isEqual b)} wf={boolS (a.wf && b.wf)} data={boolS (a.data && b.data)} syn={boolS (a == b)}"
    | _, _ => "BAD-INPUT"
  | _ => "BAD-INPUT"

/-- `vdisp vm|tree V` → x<hex> -/
def cmdVDisp (payload : String) : String :=
  match parseArgs payload with
  | some [.atom lib, v] =>
    match decVal v with
    | some v => Sexp.hexOfString (if lib == "tree" then displayTree v else displayVM v)
    | none => "BAD-INPUT"
  | _ => "BAD-INPUT"

/-- `vjson vm|tree V` → `OK <J>` | `ERR` -/
def cmdVJson (payload : String) : String :=
  match parseArgs payload with
  | some [.atom lib, v] =>
    match decVal v with
    | some v =>
      match (if lib == "tree" then marshalTree v else marshalVM v) with
      | some j => "OK " ++ encJ j
      | none => "ERR"
    | none => "BAD-INPUT"
  | _ => "BAD-INPUT"

/-- `vparse J` → untyped unmarshal -/
def cmdVParse (payload : String) : String :=
  match parseArgs payload with
  | some [j] =>
    match decJ j with
    | some j => "OK " ++ encVal (unmarshalUntyped j)
    | none => "BAD-INPUT"
  | _ => "BAD-INPUT"

/-- `vunjson vm|tree J T`: vm = typed unmarshal; tree = untyped unmarshal, then the annotated-let cast -/
def cmdVUnjson (payload : String) : String :=
  match parseArgs payload with
  | some [.atom lib, j, t] =>
    match decJ j, decTy t with
    | some j, some T =>
      if lib == "tree" then
        match castAll false T (unmarshalUntyped j) [] with
        | .ok v => "OK " ++ encVal v
        | .error _ => "ERR cast"
      else
        match unmarshalTyped T j with
        | some v => "OK " ++ encVal v
        | none => "PANIC"
    | _, _ => "BAD-INPUT"
  | _ => "BAD-INPUT"

/-- `vrt vm|tree V T` → `repr=<jsonRepr> prog=<in-program class> back=<V'> eq=<..>` -/
def cmdVRt (payload : String) : String :=
  match parseArgs payload with
  | some [.atom lib, v, t] =>
    match decVal v, decTy t with
    | some v, some T =>
      let repr := jsonRepr T v && v.wf && T.wf
      let prog := jsonReprProg T v && v.wf && T.wf      -- J1: whole floats and every int are in the class
      let j := if lib == "tree" then marshalTree v else marshalVM v
      match j with
      | none => s!"repr={boolS repr} prog={boolS prog} ERR marshal"
      | some j =>
        let back : Option Val :=
          if lib == "tree" then
            match castAll false T (unmarshalUntyped j) [] with
            | .ok v' => some v'
            | .error _ => none
          else unmarshalTyped T j
        match back with
        | none => s!"repr={boolS repr} prog={boolS prog} ERR unmarshal"
        | some v' => s!"repr={boolS repr} prog={boolS prog} back={encVal v'} eq={boolS (v.isEqual v')}"
    | _, _ => "BAD-INPUT"
  | _ => "BAD-INPUT"

/-- `vprog <allow> J T`: what a program sees — `parse_json`, then the cast of `as` (allow) or of an
annotated `let` (no allow): `OK <V'> disp=x<Display>` | `ERR <all possible errors>` -/
def cmdVProg (payload : String) : String :=
  match parseArgs payload with
  | some [a, j, t] =>
    match a.asBool?, decJ j, decTy t with
    | some allow, some j, some T =>
      let v := unmarshalUntyped j
      match castAll allow T v [] with
      | .ok v' => s!"OK {encVal v'} disp={Sexp.hexOfString (displayVM v')} raw={encVal v}"
      | .error es => s!"ERR {" ".intercalate (es.map errS)} raw={encVal v}"
    | _, _, _ => "BAD-INPUT"
  | _ => "BAD-INPUT"

/-! Mutation: `vmut clone|orig V (OP…)` with the op syntax of `harness/values.go`. -/

def decStep (s : Sexp) : Option PathComp :=
  match s with
  | .list [.atom "i", n] => n.asNat?.map .index
  | .list [.atom "k", k] => k.asStr?.map .field
  | .list [.atom "u"] => some .optInner
  | _ => none

def decOp (s : Sexp) : Option Heap.Op :=
  match s with
  | .list [.atom "push", .list p, v] => do pure ⟨← p.mapM decStep, .push (← decVal v)⟩
  | .list [.atom "push_front", .list p, v] => do pure ⟨← p.mapM decStep, .pushFront (← decVal v)⟩
  | .list [.atom "pop", .list p] => do pure ⟨← p.mapM decStep, .pop⟩
  | .list [.atom "pop_front", .list p] => do pure ⟨← p.mapM decStep, .popFront⟩
  | .list [.atom "insert", .list p, i, v] => do pure ⟨← p.mapM decStep, .insert (← i.asInt?) (← decVal v)⟩
  | .list [.atom "remove", .list p, i] => do pure ⟨← p.mapM decStep, .remove (← i.asInt?)⟩
  | .list [.atom "concat", .list p, v] => do pure ⟨← p.mapM decStep, .concat (← decVal v)⟩
  | .list [.atom "seti", .list p, i, v] => do pure ⟨← p.mapM decStep, .setIndex (← i.asInt?) (← decVal v)⟩
  | .list [.atom "setf", .list p, k, v] => do pure ⟨← p.mapM decStep, .setField (← k.asStr?) (← decVal v)⟩
  | .list [.atom "assign", .list p, v] => do pure ⟨← p.mapM decStep, .assign (← decVal v)⟩
  | _ => none

def cmdVMut (payload : String) : String :=
  match parseArgs payload with
  | some [.atom side, v, .list ops] =>
    match decVal v, ops.mapM decOp with
    | some v, some ops =>
      let r := Heap.cloneAndMutate (side == "orig") v ops
      let showV (o : Option Val) : String := match o with | some x => encVal x | none => "FUEL"
      s!"applied={r.applied} orig={showV r.orig} clone={showV r.clone}"
    | _, _ => "BAD-INPUT"
  | _ => "BAD-INPUT"

def dispatchValues (cmd : String) (payload : String) : Option String :=
  match cmd with
  | "vcast" => some (cmdVCast payload)
  | "vconf" => some (cmdVConf payload)
  | "verr" => some (cmdVErr payload)
  | "veq" => some (cmdVEq payload)
  | "vdisp" => some (cmdVDisp payload)
  | "vjson" => some (cmdVJson payload)
  | "vparse" => some (cmdVParse payload)
  | "vunjson" => some (cmdVUnjson payload)
  | "vrt" => some (cmdVRt payload)
  | "vprog" => some (cmdVProg payload)
  | "vmut" => some (cmdVMut payload)
  | _ => none

end Driver
