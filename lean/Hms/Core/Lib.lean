import Hms.Core.Value
/-!
# Pure helpers of the builtin layer (transcribed from the Go standard library / the value packages)

Everything here is a total, structurally recursive function on `Float`, `Nat`, `List Char`:
* `goPow`: `math.Pow` (go1.23 `src/math/pow.go`, the portable `pow`; amd64/arm64 have no assembly
  version) for the exponents whose path through the code uses IEEE operations only (integral
  exponents: repeated squaring on the `Frexp` fraction; `±0.5`: `Sqrt`). Fractional exponents go
  through `Exp(yf*Log(x))`, which is not modelled (`none`).
* float ↔ int conversions (`int64(f)` is implementation-defined outside the `int64` range: `none`).
* `strings.ReplaceAll`, `strings.Split`, `strings.Contains`, `strings.ToUpper/ToLower` (ASCII
  strings only), `strconv.ParseInt(s, 10, 64)`, `strconv.ParseBool`, a decided sub-class of
  `strconv.ParseFloat`, `strconv.Quote` for printable-ASCII strings (the error texts quote the input).
* the insertion sort of `valueList.go`.
* the text of a type (`ast.Type.String()`) as the cast error messages print it.
A Go string is modelled by its code points; for valid UTF-8 byte-wise search/comparison and
code-point-wise search/comparison coincide.
-/
namespace Hms.Core

/-! ## Floats -/

def floatIsNegZeroOrNeg (f : Float) : Bool := f < 0 || (f == 0 && f.toBits != 0)

/-- `math.Trunc`. -/
def floatTrunc (f : Float) : Float := if f < 0 then f.ceil else f.floor

/-- `int64(f)` for the floats whose truncation fits `int64` (the Go specification leaves every
other conversion, NaN included, implementation-defined). -/
def floatToI64? (f : Float) : Option I64 :=
  if f ≥ -9223372036854775808.0 && f < 9223372036854775808.0 then
    some (I64.ofInt f.toInt64.toInt)
  else none

/-- `float64(i)` (round to nearest even). -/
def i64ToFloat (i : I64) : Float := Float.ofInt i.toInt

/-- `float64(int64(f)) == f` (`is_int`); `none`: finite but outside `int64`. -/
def floatIsInt? (f : Float) : Option Bool :=
  if f.isNaN || f.isInf then some false      -- no finite value equals NaN / ±Inf
  else (floatToI64? f).map fun i => i64ToFloat i == f

/-- `isOddInt` of `math/pow.go`. -/
def isOddIntF (x : Float) : Bool :=
  if x.abs ≥ 9007199254740992.0 then false
  else
    let xi := floatTrunc x
    xi == x && (xi.abs.toUInt64.toNat % 2 == 1)

/-- The squaring loop of `pow`: `for i := int64(yi); i != 0; i >>= 1`. Returns `(a1, ae)`. -/
def powLoop : Nat → Nat → Float → Int → Float → Int → Float × Int
  | 0, _, _, _, a1, ae => (a1, ae)
  | fuel + 1, i, x1, xe, a1, ae =>
    if i == 0 then (a1, ae)
    else if xe < -4096 || 4096 < xe then (a1, ae + xe)
    else
      let (a1, ae) := if i % 2 == 1 then (a1 * x1, ae + xe) else (a1, ae)
      let x1 := x1 * x1
      let xe := xe * 2
      let (x1, xe) := if x1 < 0.5 then (x1 + x1, xe - 1) else (x1, xe)
      powLoop fuel (i / 2) x1 xe a1 ae

/-- `math.Pow(x, y)`; `none` where the Go code calls `Exp`/`Log` (a fractional exponent other than
`±0.5`) or where this transcription stops (|y| ≥ 2^63, handled by Go with a shortcut that is
transcribed too). -/
def goPow (x y : Float) : Option Float :=
  let inf : Float := 1.0 / 0.0
  let nan : Float := 0.0 / 0.0
  let signbit (f : Float) : Bool := f.toBits ≥ 9223372036854775808
  if y == 0 || x == 1 then some 1
  else if y == 1 then some x
  else if x.isNaN || y.isNaN then some nan
  else if x == 0 then
    if y < 0 then
      if signbit x && isOddIntF y then some (-inf) else some inf
    else -- y > 0
      if signbit x && isOddIntF y then some x else some 0
  else if y.isInf then
    if x == -1 then some 1
    else if (x.abs < 1) == (y > 0) then some 0
    else some inf
  else if x.isInf then
    if x < 0 then
      -- Pow(1/x, -y) = Pow(-0, -y); -y is finite and non-zero here
      let ny := -y
      if ny < 0 then (if isOddIntF ny then some (-inf) else some inf)
      else (if isOddIntF ny then some (-0.0) else some 0)
    else if y < 0 then some 0 else some inf
  else if y == 0.5 then some x.sqrt
  else if y == -0.5 then some (1 / x.sqrt)
  else
    let ay := y.abs
    let yi := ay.floor
    let yf := ay - yi
    if yf != 0 then
      if x < 0 then some nan else none
    else if yi ≥ 9223372036854775808.0 then
      if x == -1 then some 1
      else if (x.abs < 1) == (y > 0) then some 0
      else some inf
    else
      let (x1, xe) := x.frExp
      let (a1, ae) := powLoop 64 yi.toUInt64.toNat x1 xe 1.0 0
      let (a1, ae) := if y < 0 then (1 / a1, -ae) else (a1, ae)
      some (a1.scaleB ae)

/-! ## Strings -/

def isAsciiStr (cs : List Char) : Bool := cs.all fun c => c.toNat < 128

/-- `strings.ToUpper` / `strings.ToLower` on an ASCII string (`none`: the Unicode tables are not modelled). -/
def goToUpper? (cs : List Char) : Option (List Char) :=
  if isAsciiStr cs then some (cs.map fun c => if 'a' ≤ c && c ≤ 'z' then Char.ofNat (c.toNat - 32) else c) else none
def goToLower? (cs : List Char) : Option (List Char) :=
  if isAsciiStr cs then some (cs.map fun c => if 'A' ≤ c && c ≤ 'Z' then Char.ofNat (c.toNat + 32) else c) else none

/-- `strings.Contains`. -/
def goContains : List Char → List Char → Bool
  | [], sub => sub.isEmpty
  | c :: cs, sub => sub.isPrefixOf (c :: cs) || goContains cs sub

def replaceLoop (old new : List Char) : Nat → List Char → List Char
  | 0, s => s
  | _, [] => []
  | n + 1, c :: cs =>
    if old.isPrefixOf (c :: cs) then new ++ replaceLoop old new n ((c :: cs).drop old.length)
    else c :: replaceLoop old new n cs

/-- `strings.ReplaceAll(s, old, new)`: leftmost non-overlapping occurrences; an empty `old` matches
before every code point and at the end. -/
def goReplaceAll (s old new : List Char) : List Char :=
  if old.isEmpty then new ++ (s.map fun c => c :: new).flatten
  else replaceLoop old new s.length s

def splitLoop (sep : List Char) : Nat → List Char → List Char → List (List Char)
  | 0, cur, rest => [cur.reverse ++ rest]
  | _, cur, [] => [cur.reverse]
  | n + 1, cur, c :: cs =>
    if sep.isPrefixOf (c :: cs) then cur.reverse :: splitLoop sep n [] ((c :: cs).drop sep.length)
    else splitLoop sep n (c :: cur) cs

/-- `strings.Split(s, sep)`: an empty `sep` explodes `s` into its code points (`[]` for `""`). -/
def goSplit (s sep : List Char) : List (List Char) :=
  if sep.isEmpty then s.map fun c => [c]
  else splitLoop sep s.length [] s

/-- `len(s)`: UTF-8 bytes. -/
def utf8Len (cs : List Char) : Nat := (cs.map fun c => c.utf8Size).sum

/-- `strconv.Quote(s)` for strings of printable ASCII (and `\n`, `\t`, `\r`); `none` otherwise
(`unicode.IsPrint` is not modelled). -/
def goQuote? (cs : List Char) : Option String :=
  let step (acc : Option (List Char)) (c : Char) : Option (List Char) :=
    acc.bind fun a =>
      if c == '"' then some (a ++ ['\\', '"'])
      else if c == '\\' then some (a ++ ['\\', '\\'])
      else if c == '\n' then some (a ++ ['\\', 'n'])
      else if c == '\t' then some (a ++ ['\\', 't'])
      else if c == '\r' then some (a ++ ['\\', 'r'])
      else if 32 ≤ c.toNat && c.toNat < 127 then some (a ++ [c])
      else none
  (cs.foldl step (some [])).map fun body => String.ofList (['"'] ++ body ++ ['"'])

inductive NumErr where
  | syntax | range
  deriving Repr, BEq, Inhabited

def NumErr.text : NumErr → String
  | .syntax => "invalid syntax"
  | .range => "value out of range"

/-- The digit loop of `strconv.ParseUint(s, 10, 64)` (errors in the order the loop meets them). -/
def parseUintLoop : List Char → Nat → Except NumErr Nat
  | [], n => .ok n
  | c :: cs, n =>
    if '0' ≤ c && c ≤ '9' then
      let d := c.toNat - '0'.toNat
      if n ≥ 1844674407370955162 then .error .range          -- cutoff = maxUint64/10 + 1
      else
        let n1 := n * 10 + d
        if n1 > 18446744073709551615 then .error .range
        else parseUintLoop cs n1
    else .error .syntax

/-- `strconv.ParseInt(s, 10, 64)`. -/
def goParseInt (s : List Char) : Except NumErr I64 :=
  match s with
  | [] => .error .syntax
  | c :: rest =>
    let (neg, digits) := if c == '+' then (false, rest) else if c == '-' then (true, rest) else (false, s)
    if digits.isEmpty then .error .syntax
    else
      match parseUintLoop digits 0 with
      | .error .syntax => .error .syntax
      | .error .range => .error .range       -- un = maxVal ≥ cutoff
      | .ok un =>
        if !neg && un ≥ 9223372036854775808 then .error .range
        else if neg && un > 9223372036854775808 then .error .range
        else .ok (I64.ofInt (if neg then -(un : Int) else (un : Int)))

/-- `strconv.ParseBool`. -/
def goParseBool (s : String) : Option Bool :=
  if s == "1" || s == "t" || s == "T" || s == "true" || s == "TRUE" || s == "True" then some true
  else if s == "0" || s == "f" || s == "F" || s == "false" || s == "FALSE" || s == "False" then some false
  else none

def allDigits (cs : List Char) : Bool := !cs.isEmpty && cs.all fun c => '0' ≤ c && c ≤ '9'
def digitsVal (cs : List Char) : Nat := cs.foldl (fun n c => n * 10 + (c.toNat - '0'.toNat)) 0

inductive ParseFloatRes where
  | ok (f : Float)
  | syntaxErr
  | unmodelled
  deriving Inhabited

/-- `strconv.ParseFloat(s, 64)` (`atof64`: `special`, `readFloat`, the final `n != len(s)` test) on the
inputs for which the answer does not depend on the rounding algorithm:
* `[+-] digits [. digits]` with at least one digit (`5.`, `.5` included), at most 18 digits, denoting a
  dyadic rational with a numerator below 2^53: exactly representable, every correctly rounded parser returns it;
* `invalid syntax`: the empty string, a first character that cannot start a number, no digit at all
  (`+`, `.`, `-.`), or such a number followed by a character that `readFloat` does not consume
  (anything but a digit, `e`, `E`, `_`, and `x`, `X`, `p`, `P`, which are left unmodelled);
* everything else (exponents, hex, underscores, inf / nan, long or non-dyadic mantissas): unmodelled. -/
def goParseFloat (s : List Char) : ParseFloatRes :=
  match s with
  | [] => .syntaxErr
  | c :: rest =>
    if !("+-.0123456789iInN".toList.contains c) then .syntaxErr
    else
      let (neg, body) := if c == '+' then (false, rest) else if c == '-' then (true, rest) else (false, s)
      if (match body with | b :: _ => "iInN".toList.contains b | [] => false) then .unmodelled   -- `special`
      else
        let isDigit := fun (ch : Char) => '0' ≤ ch && ch ≤ '9'
        let ip := body.takeWhile isDigit
        let afterIp := body.drop ip.length
        let (fp, tail) : List Char × List Char := match afterIp with
          | '.' :: r => (r.takeWhile isDigit, r.drop (r.takeWhile isDigit).length)
          | _ => ([], afterIp)
        if ip.isEmpty && fp.isEmpty then
          -- no digit: `readFloat` fails unless an underscore was skipped before the test
          if (match afterIp with | '_' :: _ => true | '.' :: '_' :: _ => true | _ => false) then .unmodelled else .syntaxErr
        else
          match tail with
          | t :: _ =>
            if "eE_xXpP".toList.contains t then .unmodelled else .syntaxErr
          | [] =>
            if ip.length + fp.length > 18 then .unmodelled
            else
              let e := fp.length
              let m := digitsVal (ip ++ fp)          -- value = m / 10^e
              if m % (5 ^ e) != 0 then .unmodelled
              else
                let m' := m / (5 ^ e)                -- value = m' / 2^e
                if m' ≥ 9007199254740992 then .unmodelled
                else
                  let f := (Float.ofNat m').scaleB (-(e : Int))
                  .ok (if neg then -f else f)

/-! ## JSON text (`encoding/json`, go1.23) -/

def hexDigit (n : Nat) : Char := "0123456789abcdef".toList.getD n '0'

/-- `appendString(dst, s, escapeHTML = true)`: how `json.Marshal` writes a string / an object key. -/
def jsonString (s : String) : String :=
  let esc (c : Char) : List Char :=
    if c == '\\' || c == '"' then ['\\', c]
    else if c.toNat == 8 then ['\\', 'b']
    else if c.toNat == 12 then ['\\', 'f']
    else if c == '\n' then ['\\', 'n']
    else if c == '\r' then ['\\', 'r']
    else if c == '\t' then ['\\', 't']
    else if c.toNat < 32 || c == '<' || c == '>' || c == '&' then
      ['\\', 'u', '0', '0', hexDigit (c.toNat / 16), hexDigit (c.toNat % 16)]
    else if c.toNat == 0x2028 then ['\\', 'u', '2', '0', '2', '8']
    else if c.toNat == 0x2029 then ['\\', 'u', '2', '0', '2', '9']
    else [c]
  String.ofList (['"'] ++ (s.toList.map esc).flatten ++ ['"'])

/-- `jsonFloat.MarshalJSON` (`runtime/value/json.go`): `strconv.AppendFloat(nil, n, 'f', prec, 64)` with
`prec = 1` for whole numbers and the shortest digits otherwise; for the dyadic-safe class of `fmtFloat`
(a fractional value of that class is below 65536 and at least 2^-10: `'f'` and `%v` print it alike). -/
def jsonFloat? (f : Float) : Option String :=
  if f.isNaN || f.isInf then none
  else
    let neg := f < 0 || (f == 0 && f.toBits != 0)
    let a := f.abs
    if a ≥ 9007199254740992.0 then none
    else if a.floor == a then some ((if neg then "-" else "") ++ toString a.toUInt64.toNat ++ ".0")
    else fmtFloat f

def isJsonWs (c : Char) : Bool := c == ' ' || c == '\t' || c == '\r' || c == '\n'
def jsonSkipWs (cs : List Char) : List Char := cs.dropWhile isJsonWs

def hexVal? (c : Char) : Option Nat :=
  if '0' ≤ c && c ≤ '9' then some (c.toNat - '0'.toNat)
  else if 'a' ≤ c && c ≤ 'f' then some (c.toNat - 'a'.toNat + 10)
  else if 'A' ≤ c && c ≤ 'F' then some (c.toNat - 'A'.toNat + 10)
  else none

/-- The rest of a JSON string literal after the opening quote: the decoded text and what follows the
closing quote. `none`: not a string literal of the decided class (raw control characters and bad
escapes are errors of the decoder; surrogate escapes are not modelled). -/
def jsonStringBody : Nat → List Char → List Char → Option (String × List Char)
  | 0, _, _ => none
  | _ + 1, _, [] => none
  | n + 1, acc, c :: rest =>
    if c == '"' then some (String.ofList acc.reverse, rest)
    else if c == '\\' then
      match rest with
      | 'u' :: h1 :: h2 :: h3 :: h4 :: rest' =>
        match hexVal? h1, hexVal? h2, hexVal? h3, hexVal? h4 with
        | some a, some b, some c', some d =>
          let code := ((a * 16 + b) * 16 + c') * 16 + d
          if 0xD800 ≤ code && code ≤ 0xDFFF then none
          else jsonStringBody n (Char.ofNat code :: acc) rest'
        | _, _, _, _ => none
      | e :: rest' =>
        let dec : Option Char :=
          if e == '"' then some '"' else if e == '\\' then some '\\' else if e == '/' then some '/'
          else if e == 'b' then some (Char.ofNat 8) else if e == 'f' then some (Char.ofNat 12)
          else if e == 'n' then some '\n' else if e == 'r' then some '\r' else if e == 't' then some '\t'
          else none
        match dec with
        | some ch => jsonStringBody n (ch :: acc) rest'
        | none => none
      | [] => none
    else if c.toNat < 32 then none
    else jsonStringBody n (c :: acc) rest

inductive JsonNum where
  | int (i : I64)
  | float (f : Float)
  deriving Inhabited

/-- A JSON number (`-?(0|[1-9][0-9]*)(\.[0-9]+)?`, no exponent) of the class `goParseFloat` decides, as
`UnmarshalValue` turns it into a value (J1: `parse_json` keeps the spelling, `json.Number`): an integer
spelling which fits an int64 is that int, exactly; every other number is a float. -/
def jsonNumber? (cs : List Char) : Option JsonNum :=
  let body := match cs with | '-' :: r => r | _ => cs
  let ip := body.takeWhile (· != '.')
  let grammarOk := match ip with
    | ['0'] => true
    | '0' :: _ => false
    | _ => allDigits ip
  let afterIp := body.drop ip.length
  let fracOk := match afterIp with
    | [] => true
    | '.' :: fp => allDigits fp
    | _ => false
  if !grammarOk || !fracOk || cs.head? == some '+' then none
  else
    let n : Int := if cs.head? == some '-' then -(digitsVal ip : Int) else (digitsVal ip : Int)
    if afterIp.isEmpty && decide (-9223372036854775808 ≤ n) && decide (n ≤ 9223372036854775807) then some (.int (I64.ofInt n))
    else
      match goParseFloat cs with
      | .ok f => some (.float f)
      | _ => none

/-! ## Levenshtein distance (`github.com/agnivade/levenshtein` v1.1.1 `ComputeDistance`, used by `compare_lev`) -/

/-- One pass of the inner loop: the new row from the old one (`x`), for the character `c2` of the
longer string; `prev` is the new row's entry to the left. -/
def levRow (c2 : Char) : List Char → List Nat → Nat → List Nat
  | c1 :: s1, o0 :: o1 :: os, prev =>
    let cur := if c2 == c1 then o0 else min (min (o0 + 1) (prev + 1)) (o1 + 1)
    prev :: levRow c2 s1 (o1 :: os) cur
  | _, _, prev => [prev]

def levRows (s1 : List Char) : List Char → Nat → List Nat → List Nat
  | [], _, row => row
  | c2 :: s2, i, row => levRows s1 s2 (i + 1) (levRow c2 s1 row i)

/-- `ComputeDistance(a, b)` on code points; `none` beyond 10000 characters (the Go code counts in `uint16`). -/
def goLevenshtein? (a b : List Char) : Option Nat :=
  if a.isEmpty then some b.length
  else if b.isEmpty then some a.length
  else if a == b then some 0
  else if a.length > 10000 || b.length > 10000 then none
  else
    let (s1, s2) := if a.length > b.length then (b, a) else (a, b)
    (levRows s1 s2 1 (List.range (s1.length + 1))).getLast?

/-! ## Sorting (`insertionSortInt/Float/String` of `valueList.go`) -/

/-- One round of the insertion sort: `temp` moves left past every element `gt`-greater than it. -/
def insertFromRight {α} (gt : α → α → Bool) (sorted : List α) (temp : α) : List α :=
  let rev := sorted.reverse
  let moved := rev.takeWhile fun x => gt x temp
  (rev.dropWhile fun x => gt x temp).reverse ++ temp :: moved.reverse

def insertionSort {α} (gt : α → α → Bool) (xs : List α) : List α :=
  xs.foldl (insertFromRight gt) []

/-! ## Types as text (`ast.Type.String()`) -/

/-- `none`: object and function types (field annotations / parameter names are not part of the
analysed AST the model receives), and the kinds that never reach run time. -/
def tyText : Ty → Option String
  | .any => some "any"
  | .null => some "null"
  | .int => some "int"
  | .float => some "float"
  | .bool => some "bool"
  | .str => some "str"
  | .range => some "range"
  | .anyobj => some "{ ? }"
  | .list t => (tyText t).map fun s => "[" ++ s ++ "]"
  | .opt t => (tyText t).map fun s => "?" ++ s
  | _ => none

end Hms.Core
