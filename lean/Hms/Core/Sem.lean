import Hms.Core.Value
import Hms.Core.Lib
/-!
# Source-level specification semantics (`specRun`)

A fuel-indexed big-step evaluator for the analysed core language: 64-bit two's-complement
integers, evaluation in program order with short-circuit `&&`/`||`, lexical block scoping
with shadowing, lists and objects shared by reference while scalars are copied, `for` over a
snapshot of its iterable, `if`/`match`/block/`try` yielding the value of the branch taken,
exceptions that unwind to the nearest dynamically enclosing `catch`, fatal errors that are
not catchable. This is what C01 calls "the source-level semantics"; it is written from the
language's documentation and the property statements, not from the compiler.

Constructs outside the modelled core evaluate to `Ctl.unsupported` (the checks then skip the
program and count it as outside the model).
-/
namespace Hms.Core

inductive Ctl where
  | brk
  | cont
  | ret (v : Val)
  | throw (msg : String) (sp : Span)
  | fatal (kind : String) (msg : String) (sp : Span)
  | unsupported (what : String)
  | timeout
  deriving Inhabited

structure Closure where
  params : List Param
  body : Block
  module : String
  deriving Inhabited

structure St where
  heap : Array Cell := #[]
  /-- globals per module: (module, name) ↦ value -/
  globals : List ((String × String) × Val) := []
  /-- block scopes of the current activation, innermost first -/
  scopes : List (List (String × Val)) := [[]]
  closures : Array Closure := #[]
  out : String := ""
  trig : String := ""
  module : String := "main"
  depth : Nat := 0
  deriving Inhabited

structure Cfg where
  prog : Program
  callLimit : Nat := 100
  /-- singleton values provided by the host (`Executor.LoadSingleton` answering "found") -/
  hostSingletons : HostSingletons := []
  deriving Inhabited

abbrev M := ExceptT Ctl (StateM St)

def throwCtl {α} (c : Ctl) : M α := throw c

/-! ## State helpers -/

def alloc (c : Cell) : M Val := do
  let s ← get
  set { s with heap := s.heap.push c }
  pure (.ref s.heap.size)

def readCell (a : Nat) : M Cell := do
  let s ← get
  match s.heap[a]? with
  | some c => pure c
  | none => throwCtl (.unsupported "dangling reference")

def writeCell (a : Nat) (c : Cell) : M Unit :=
  modify fun s => { s with heap := s.heap.setIfInBounds a c }

def lookupScopes (name : String) : List (List (String × Val)) → Option Val
  | [] => none
  | sc :: rest => match sc.lookup name with
    | some v => some v
    | none => lookupScopes name rest

def assignScopes (name : String) (v : Val) : List (List (String × Val)) → Option (List (List (String × Val)))
  | [] => none
  | sc :: rest =>
    if (sc.lookup name).isSome then
      some ((sc.map fun (k, old) => if k == name then (k, v) else (k, old)) :: rest)
    else (assignScopes name v rest).map (sc :: ·)

def declare (name : String) (v : Val) : M Unit :=
  modify fun s => match s.scopes with
    | sc :: rest => { s with scopes := ((name, v) :: sc) :: rest }
    | [] => { s with scopes := [[(name, v)]] }

def pushScope : M Unit := modify fun s => { s with scopes := [] :: s.scopes }
def popScope : M Unit := modify fun s => { s with scopes := s.scopes.tail }

/-- Run `m` in a fresh block scope; the scope is removed on every exit path. -/
def inScope {α} (m : M α) : M α := fun s =>
  let (r, s') := (pushScope *> m) s
  (r, { s' with scopes := s'.scopes.tail })

def emit (text : String) : M Unit := modify fun s => { s with out := s.out ++ text }

def builtinNames : List String := ["print", "println", "throw", "debug", "assert", "fmt", "log", "time"]

def findFn (prog : Program) (module name : String) : Option FnDef :=
  match prog.find? (·.name == module) with
  | some m => m.fns.find? (·.name == name)
  | none => none

/-- Which module's function does `name` denote inside `module`: its own, or one it imports. -/
def resolveFn (prog : Program) (module name : String) : Option (String × FnDef) :=
  match findFn prog module name with
  | some f => some (module, f)
  | none =>
    match prog.find? (·.name == module) with
    | some m =>
      m.imports.findSome? fun imp =>
        if imp.targetIsHms && imp.items.any (fun it => it.1 == name && it.2 == 0) then
          (findFn prog imp.fromModule name).map fun f => (imp.fromModule, f)
        else none
    | none => none

/-! ## Display, equality -/

def sortFields (fs : List (String × Val)) : List (String × Val) :=
  (fs.toArray.qsort fun a b => a.1 < b.1).toList

mutual
def display (heap : Array Cell) : Nat → Val → Option String
  | 0, _ => none
  | fuel + 1, v =>
    match v with
    | .null => some "null"
    | .int i => some (fmtInt i)
    | .float f => fmtFloat f
    | .bool b => some (if b then "true" else "false")
    | .str s => some s
    | .opt none => some "none"
    | .opt (some x) => (display heap fuel x).map fun d => s!"Some({d})"
    | .range a b _ => some s!"{fmtInt a}..{fmtInt b}"
    | .ref a =>
      match heap[a]? with
      | some (.list xs) => (displayList heap fuel xs).map fun ds => "[" ++ ", ".intercalate ds ++ "]"
      | some (.obj fs) =>
        (displayFields heap fuel (sortFields fs)).map fun ds =>
          "{\n    " ++ ",\n    ".intercalate (ds.map fun d => d.replace "\n" "\n    ") ++ "\n}"
      | some (.anyobj fs) =>
        (displayFields heap fuel (sortFields fs)).map fun ds => "{\n    " ++ ",\n    ".intercalate ds ++ "\n}"
      | none => none
    -- function values print the same on both backends (no mangled names)
    | .fn _ name => some (if (name.splitOn "$lambda_").length > 1 then "<closure>" else "<function>")
    | .closure _ => some "<closure>"
    | .builtin _ => some "<builtin-function>"
    | .bound _ _ => none
def displayList (heap : Array Cell) : Nat → List Val → Option (List String)
  | 0, _ => none
  | _ + 1, [] => some []
  | fuel + 1, x :: xs => do
    let d ← display heap fuel x
    let ds ← displayList heap fuel xs
    pure (d :: ds)
def displayFields (heap : Array Cell) : Nat → List (String × Val) → Option (List String)
  | 0, _ => none
  | _ + 1, [] => some []
  | fuel + 1, (k, x) :: xs => do
    let d ← display heap fuel x
    let ds ← displayFields heap fuel xs
    pure (s!"{k}: {d}" :: ds)
end

mutual
/-- Structural equality (`==`). `none`: not decidable within the fuel / unsupported kinds. -/
def valEq (heap : Array Cell) : Nat → Val → Val → Option Bool
  | 0, _, _ => none
  | fuel + 1, a, b =>
    match a, b with
    | .null, .null => some true
    | .int x, .int y => some (x == y)
    | .float x, .float y => some (x == y)
    | .bool x, .bool y => some (x == y)
    | .str x, .str y => some (x == y)
    | .opt none, .opt none => some true
    | .opt (some x), .opt (some y) => valEq heap fuel x y
    | .opt _, .opt _ => some false
    | .range a1 b1 i1, .range a2 b2 i2 => some (a1 == a2 && b1 == b2 && i1 == i2)
    | .ref x, .ref y =>
      match heap[x]?, heap[y]? with
      | some (.list xs), some (.list ys) => listEq heap fuel xs ys
      | some (.obj f1), some (.obj f2) => fieldsEq heap fuel (sortFields f1) (sortFields f2)
      | some (.anyobj f1), some (.anyobj f2) => fieldsEq heap fuel (sortFields f1) (sortFields f2)
      | _, _ => none
    -- function values are never equal, not even to themselves (IsEqual of both backends)
    | .fn .., _ | .closure .., _ | .builtin .., _ => some false
    | .bound .., _ => none
    | _, _ => some false
def listEq (heap : Array Cell) : Nat → List Val → List Val → Option Bool
  | 0, _, _ => none
  | _ + 1, [], [] => some true
  | fuel + 1, x :: xs, y :: ys => do
    if ← valEq heap fuel x y then listEq heap fuel xs ys else pure false
  | _ + 1, _, _ => some false
def fieldsEq (heap : Array Cell) : Nat → List (String × Val) → List (String × Val) → Option Bool
  | 0, _, _ => none
  | _ + 1, [], [] => some true
  | fuel + 1, (k1, x) :: xs, (k2, y) :: ys => do
    if k1 != k2 then pure false
    else if ← valEq heap fuel x y then fieldsEq heap fuel xs ys else pure false
  | _ + 1, _, _ => some false
end

def displayM (v : Val) : M String := do
  let s ← get
  match display s.heap 1000000 v with   -- the fuel bounds elements + nesting (a model limit)
  | some d => pure d
  | none => throwCtl (.unsupported "display of this value")

def eqM (a b : Val) : M Bool := do
  let s ← get
  match valEq s.heap 64 a b with
  | some r => pure r
  | none => throwCtl (.unsupported "equality of these values")

/-! ## JSON (`runtime/value/json.go` = `interpreter/value/json.go`) -/

/-- A line break + indentation of `json.MarshalIndent(v, "", "    ")` at nesting depth `d`; nothing for `json.Marshal`. -/
def jsonNl (indent : Bool) (d : Nat) : String :=
  if indent then "\n" ++ String.ofList (List.replicate (4 * d) ' ') else ""

mutual
/-- `json.Marshal(MarshalValue(v))` / `json.MarshalIndent`: object keys sorted, `none` / `null` as
`null`, `Some(x)` as `x`, floats through `jsonFloat`. `none`: outside the modelled class (ranges and
function values, which make Go report an error or skip the value; floats outside the dyadic class). -/
def toJson (heap : Array Cell) (indent : Bool) : Nat → Nat → Val → Option String
  | 0, _, _ => none
  | fuel + 1, d, v =>
    match v with
    | .null => some "null"
    | .int i => some (fmtInt i)
    | .float f => jsonFloat? f
    | .bool b => some (if b then "true" else "false")
    | .str s => some (jsonString s)
    | .opt none => some "null"
    | .opt (some x) => toJson heap indent fuel d x
    | .ref a =>
      match heap[a]? with
      | some (.list xs) =>
        if xs.isEmpty then some "[]"
        else (toJsonList heap indent fuel (d + 1) xs).map fun es =>
          "[" ++ jsonNl indent (d + 1) ++ ("," ++ jsonNl indent (d + 1)).intercalate es ++ jsonNl indent d ++ "]"
      | some (.obj fs) | some (.anyobj fs) =>
        if fs.isEmpty then some "{}"
        else (toJsonFields heap indent fuel (d + 1) (sortFields fs)).map fun es =>
          "{" ++ jsonNl indent (d + 1) ++ ("," ++ jsonNl indent (d + 1)).intercalate es ++ jsonNl indent d ++ "}"
      | none => none
    | _ => none
def toJsonList (heap : Array Cell) (indent : Bool) : Nat → Nat → List Val → Option (List String)
  | 0, _, _ => none
  | _ + 1, _, [] => some []
  | fuel + 1, d, x :: xs => do
    let e ← toJson heap indent fuel d x
    let es ← toJsonList heap indent fuel d xs
    pure (e :: es)
def toJsonFields (heap : Array Cell) (indent : Bool) : Nat → Nat → List (String × Val) → Option (List String)
  | 0, _, _ => none
  | _ + 1, _, [] => some []
  | fuel + 1, d, (k, x) :: xs => do
    let e ← toJson heap indent fuel d x
    let es ← toJsonFields heap indent fuel d xs
    pure ((jsonString k ++ (if indent then ": " else ":") ++ e) :: es)
end

def toJsonM (indent : Bool) (v : Val) : M Val := do
  let s ← get
  match toJson s.heap indent 1000000 0 v with
  | some t => pure (.str t)
  | none => throwCtl (.unsupported "to_json of this value")

/-! ## Operators -/

def intOp (op : InfixOp) (a b : I64) (sp : Span) : M Val :=
  match op with
  | .add => pure (.int (a + b))
  | .sub => pure (.int (a - b))
  | .mul => pure (.int (a * b))
  | .div =>
    if b == 0 then throwCtl (.fatal "ValueError" "Division by zero error: this is operation is illegal" sp)
    else pure (.int (a.sdiv b))
  | .rem =>
    if b == 0 then throwCtl (.fatal "ValueError" "Division by zero error: this is operation is illegal" sp)
    else pure (.int (a.srem b))
  | .pow =>
    if b.toInt < 0 then
      -- both backends: int64(math.Pow(float64 a, float64 b)); a reciprocal truncates to 0 unless |a| ≤ 1.
      -- The exponent's parity is that of float64(b): every float64 of magnitude ≥ 2^53 is even.
      if a == 1 then pure (.int 1)
      else if a == -1 then
        pure (.int (if b.toInt > -(2 ^ 53 : Int) && b.toInt % 2 != 0 then -1 else 1))
      else if a == 0 then throwCtl (.unsupported "0 ** negative exponent (platform-defined conversion of +Inf)")
      else pure (.int 0)
    else if b.toNat > 4096 then throwCtl (.unsupported "huge integer exponent")
    else pure (.int (powNat a b.toNat))
  | .shl =>
    if b.toInt < 0 then throwCtl (.fatal "ValueError" "Negative shift count: this is operation is illegal" sp)
    else pure (.int (shlI a b))
  | .shr =>
    if b.toInt < 0 then throwCtl (.fatal "ValueError" "Negative shift count: this is operation is illegal" sp)
    else pure (.int (shrI a b))
  | .bitOr => pure (.int (a ||| b))
  | .bitAnd => pure (.int (a &&& b))
  | .bitXor => pure (.int (a ^^^ b))
  | .lt => pure (.bool (a.slt b))
  | .le => pure (.bool (a.sle b))
  | .gt => pure (.bool (b.slt a))
  | .ge => pure (.bool (b.sle a))
  | _ => throwCtl (.unsupported "integer operator")

def floatOp (op : InfixOp) (a b : Float) (sp : Span) : M Val :=
  match op with
  | .add => pure (.float (a + b))
  | .sub => pure (.float (a - b))
  | .mul => pure (.float (a * b))
  | .div =>
    if b == 0.0 then throwCtl (.fatal "ValueError" "Division by zero error: this is operation is illegal" sp)
    else pure (.float (a / b))
  | .lt => pure (.bool (a < b))
  | .le => pure (.bool (a ≤ b))
  | .gt => pure (.bool (a > b))
  | .ge => pure (.bool (a ≥ b))
  | .pow =>
    -- both backends: math.Pow
    match goPow a b with
    | some r => pure (.float r)
    | none => throwCtl (.unsupported "float ** with a fractional exponent (math.Exp/math.Log)")
  | _ => throwCtl (.unsupported "float operator")

def boolOp (op : InfixOp) (a b : Bool) : M Val :=
  match op with
  | .bitOr => pure (.bool (a || b))
  | .bitAnd => pure (.bool (a && b))
  | .bitXor => pure (.bool (a != b))
  | _ => throwCtl (.unsupported "bool operator")

def binOp (op : InfixOp) (a b : Val) (sp : Span) : M Val :=
  match op, a, b with
  | .eq, _, _ => do pure (.bool (← eqM a b))
  | .ne, _, _ => do pure (.bool (!(← eqM a b)))
  | _, .int x, .int y => intOp op x y sp
  | _, .float x, .float y => floatOp op x y sp
  | _, .bool x, .bool y => boolOp op x y
  | .add, .str x, .str y => pure (.str (x ++ y))
  | _, _, _ => throwCtl (.unsupported "operand kinds of infix operator")

def wrapIndex (i : I64) (len : Nat) : Option Nat :=
  let k := i.toInt
  let k := if k < 0 then k + len else k
  if k < 0 ∨ k ≥ len then none else some k.toNat

mutual
/-- Zero value of a type (`value.ZeroValue`): used for singletons the host does not provide. -/
def zeroValue : Ty → M Val
  | .null => pure .null
  | .int => pure (.int 0)
  | .float => pure (.float 0.0)
  | .bool => pure (.bool false)
  | .str => pure (.str "")
  | .range => pure (.range 0 0 false)
  | .list _ => alloc (.list [])
  | .anyobj => alloc (.anyobj [])
  | .opt _ => pure (.opt none)
  | .obj fs => do alloc (.obj (← zeroFields fs))
  | _ => throwCtl (.unsupported "zero value of this type")
def zeroFields : List (String × Ty) → M (List (String × Val))
  | [] => pure []
  | (k, ft) :: rest => do
    let v ← zeroValue ft
    let vs ← zeroFields rest
    pure ((k, v) :: vs)
end

mutual
/-- Place a value handed over by the host in the heap: what the program sees of the result of
`LoadSingleton`. -/
def hostToVal : HostVal → M Val
  | .null => pure .null
  | .int v => pure (.int (I64.ofInt v))
  | .float b => pure (.float (floatOfBits b))
  | .bool b => pure (.bool b)
  | .str s => pure (.str s)
  | .none => pure (.opt none)
  | .some v => do pure (.opt (some (← hostToVal v)))
  | .range a b incl => pure (.range (I64.ofInt a) (I64.ofInt b) incl)
  | .list xs => do alloc (.list (← hostToVals xs))
  | .obj fs => do alloc (.obj (← hostToFields fs))
  | .anyobj fs => do alloc (.anyobj (← hostToFields fs))
def hostToVals : List HostVal → M (List Val)
  | [] => pure []
  | x :: xs => do pure ((← hostToVal x) :: (← hostToVals xs))
def hostToFields : List (String × HostVal) → M (List (String × Val))
  | [] => pure []
  | (k, x) :: xs => do pure ((k, ← hostToVal x) :: (← hostToFields xs))
end

/-- The value a singleton starts with (`instantiateSingleton`, `compileSingletonInit` +
`Opcode_Load_Singleton`): the host's value when it provides one, else the zero value of the type. -/
def singletonInit (host : HostSingletons) (name : String) (t : Ty) : M Val :=
  match host.lookup name with
  | some hv => hostToVal hv
  | none => zeroValue t

/-- Iteration order of a range (`ValueRange.iterNext`). -/
def rangeElems (a b : I64) (incl : Bool) : List I64 :=
  let x := a.toInt
  let y := b.toInt
  if x < y then
    let hi := if incl then y + 1 else y
    (List.range (hi - x).toNat).map fun (k : Nat) => I64.ofInt (x + (k : Int))
  else
    let lo := if incl then y - 1 else y
    (List.range (x - lo).toNat).map fun (k : Nat) => I64.ofInt (x - (k : Int))

/-- `int64(f)` where it is defined. -/
def floatToIntM (f : Float) : M Val :=
  match floatToI64? f with
  | some i => pure (.int i)
  | none => throwCtl (.unsupported "int64(f) outside the int64 range (implementation-defined)")

def floatIsIntM (f : Float) : M Val :=
  match floatIsInt? f with
  | some b => pure (.bool b)
  | none => throwCtl (.unsupported "int64(f) outside the int64 range (implementation-defined)")

/-! ## Casts (`value.DeepCast`, `runtime/value/cast.go` = `interpreter/value/cast.go`) -/

/-- `Value.Kind().String()` as the cast error messages print it. -/
def kindNameM (v : Val) : M String := do
  match v with
  | .null => pure "null"
  | .int _ => pure "int"
  | .float _ => pure "float"
  | .bool _ => pure "bool"
  | .str _ => pure "string"
  | .opt _ => pure "option"
  | .range .. => pure "range"
  | .ref a => do
    match ← readCell a with
    | .list _ => pure "list"
    | .obj _ => pure "object"
    | .anyobj _ => pure "any-object"
  -- the two backends name function values differently ("closure" / "function")
  | _ => throwCtl (.unsupported "kind name of a function value")

/-- `Value.Kind().TypeKind().String()` (`get_type`). -/
def typeKindNameM (v : Val) : M String := do
  match v with
  | .null => pure "null"
  | .int _ => pure "int"
  | .float _ => pure "float"
  | .bool _ => pure "bool"
  | .str _ => pure "str"
  | .opt _ => pure "Option"
  | .range .. => pure "range"
  | .ref a => do
    match ← readCell a with
    | .list _ => pure "list"
    | .obj _ => pure "object"
    | .anyobj _ => pure "any-object"
  | .fn .. | .closure _ | .builtin _ => pure "function"
  | .bound .. => throwCtl (.unsupported "type name of a bound member")

mutual
/-- `Value.Clone()`: a deep copy of lists, objects, any-objects (through options). -/
def deepClone : Nat → Val → M Val
  | 0, _ => throwCtl (.unsupported "clone depth")
  | fuel + 1, v =>
    match v with
    | .ref a => do
      match ← readCell a with
      | .list xs => do alloc (.list (← deepCloneList fuel xs))
      | .obj fs => do alloc (.obj (← deepCloneFields fuel fs))
      | .anyobj fs => do alloc (.anyobj (← deepCloneFields fuel fs))
    | .opt (some x) => do pure (.opt (some (← deepClone fuel x)))
    | v => pure v
def deepCloneList : Nat → List Val → M (List Val)
  | 0, _ => throwCtl (.unsupported "clone depth")
  | _ + 1, [] => pure []
  | fuel + 1, x :: xs => do
    let y ← deepClone fuel x
    let ys ← deepCloneList fuel xs
    pure (y :: ys)
def deepCloneFields : Nat → List (String × Val) → M (List (String × Val))
  | 0, _ => throwCtl (.unsupported "clone depth")
  | _ + 1, [] => pure []
  | fuel + 1, (k, x) :: xs => do
    let y ← deepClone fuel x
    let ys ← deepCloneFields fuel xs
    pure ((k, y) :: ys)
end

/-- `CastError.Message()` / `newCastErr`: the text of the catchable exception. -/
def castErrMsg (path what : String) : String :=
  "Cast error" ++ (if path.isEmpty then "" else " at `" ++ path ++ "`") ++ ": " ++ what

def castIncompat {α} (v : Val) (t : Ty) (path : String) (sp : Span) : M α := do
  let k ← kindNameM v
  match tyText t with
  | some ts =>
    throwCtl (.throw (castErrMsg path
      s!"Incompatible values: a value of type '{k}' is not compatible with a value of type '{ts}'") sp)
  | none => throwCtl (.unsupported "cast error naming an object / function type")

mutual
/-- `deepCastRecursive(val, typ, span, allowCasts, path)`. A cast list / object is a new
container (elements converted one by one); an any-object is returned as it is; an object cast to
`{ ? }` is a deep copy. -/
def castVal : Nat → Val → Ty → Bool → String → Span → M Val
  | 0, _, _, _, _, _ => throwCtl (.unsupported "cast depth")
  | fuel + 1, v, t, allow, path, sp =>
    match t with
    | .any => pure v
    | .opt inner =>
      match v with
      | .opt none => pure (.opt none)
      | .opt (some x) => do
        pure (.opt (some (← castVal fuel x inner allow (path ++ "<option-inner>") sp)))
      | .null => pure (.opt none)
      | _ => do pure (.opt (some (← castVal fuel v inner allow path sp)))
    | _ =>
      match v with
      | .bool b =>
        match t with
        | .bool => pure v
        | .int => if allow then pure (.int (if b then 1 else 0)) else castIncompat v t path sp
        | .float => if allow then pure (.float (if b then 1.0 else 0.0)) else castIncompat v t path sp
        | _ => castIncompat v t path sp
      | .int i =>
        match t with
        | .int => pure v
        | .bool => if allow then pure (.bool (i != 0)) else castIncompat v t path sp
        | .float => if allow then pure (.float (i64ToFloat i)) else castIncompat v t path sp
        | _ => castIncompat v t path sp
      | .float f =>
        match t with
        | .float => pure v
        | .bool => if allow then pure (.bool (!(f == 0))) else castIncompat v t path sp
        | .int =>
          if allow then floatToIntM f else castIncompat v t path sp
        | _ => castIncompat v t path sp
      | .str _ =>
        match t with
        | .str => pure v
        | _ => castIncompat v t path sp
      | .null =>
        match t with
        | .null => pure v
        | _ => castIncompat v t path sp
      | .range .. =>
        match t with
        | .range => pure v
        | _ => castIncompat v t path sp
      | .opt _ => castIncompat v t path sp
      | .ref a => do
        match ← readCell a with
        | .list xs =>
          match t with
          | .list inner => do alloc (.list (← castList fuel xs inner allow path 0 sp))
          | _ => castIncompat v t path sp
        | .anyobj _ =>
          match t with
          | .anyobj => pure v
          | _ => castIncompat v t path sp
        | .obj fs =>
          match t with
          | .anyobj => do alloc (.anyobj (← deepCloneFields 1000000 fs))
          | .obj tfs => do
            -- the fields of the value in key order; the first error found is the one reported
            let out ← castFields fuel (sortFields fs) tfs allow path sp
            match tfs.find? fun kt => (fs.lookup kt.1).isNone with
            | some (k, _) =>
              throwCtl (.throw (castErrMsg path s!"Incompatible values: field '{k}' was expected but not found") sp)
            | none => alloc (.obj out)
          | _ => castIncompat v t path sp
      | _ => throwCtl (.unsupported "cast of a function value")
def castList : Nat → List Val → Ty → Bool → String → Nat → Span → M (List Val)
  | 0, _, _, _, _, _, _ => throwCtl (.unsupported "cast depth")
  | _ + 1, [], _, _, _, _, _ => pure []
  | fuel + 1, x :: xs, inner, allow, path, idx, sp => do
    let y ← castVal fuel x inner allow (path ++ s!"[{idx}]") sp
    let ys ← castList fuel xs inner allow path (idx + 1) sp
    pure (y :: ys)
def castFields : Nat → List (String × Val) → List (String × Ty) → Bool → String → Span → M (List (String × Val))
  | 0, _, _, _, _, _ => throwCtl (.unsupported "cast depth")
  | _ + 1, [], _, _, _, _ => pure []
  | fuel + 1, (k, x) :: xs, tfs, allow, path, sp => do
    match tfs.lookup k with
    | none => throwCtl (.throw (castErrMsg path s!"Incompatible values: found unexpected field '{k}'") sp)
    | some ft =>
      let y ← castVal fuel x ft allow (path ++ "." ++ k) sp
      let ys ← castFields fuel xs tfs allow path sp
      pure ((k, y) :: ys)
end

/-- The fuel of a cast: bounds elements + nesting of the value (a model limit). -/
def castFuel : Nat := 1000000

mutual
/-- `containsAnyObject(val, target)` of `valueAnyObject.go`: does `v` hold, at any depth, the
any-object at heap address `target`? `none`: not decided within the fuel. -/
def reachesVal (heap : Array Cell) (target : Nat) : Nat → Val → Option Bool
  | 0, _ => none
  | fuel + 1, v =>
    match v with
    | .ref b =>
      if b == target then some true
      else
        match heap[b]? with
        | some (.list xs) => reachesList heap target fuel xs
        | some (.obj fs) => reachesList heap target fuel (fs.map (·.2))
        | some (.anyobj fs) => reachesList heap target fuel (fs.map (·.2))
        | none => none
    | .opt (some x) => reachesVal heap target fuel x
    | _ => some false
def reachesList (heap : Array Cell) (target : Nat) : Nat → List Val → Option Bool
  | 0, _ => none
  | _ + 1, [] => some false
  | fuel + 1, x :: xs =>
    match reachesVal heap target fuel x with
    | some true => some true
    | some false => reachesList heap target fuel xs
    | none => none
end

/-! ## The evaluator -/

structure Place where
  /-- variable (`none` addr) or heap slot -/
  var : Option (String × Bool) := none
  addr : Nat := 0
  idx : Nat := 0
  field : Option String := none
  deriving Inhabited

def spOf : Expr → Span
  | .int sp _ | .float sp _ | .bool sp _ | .str sp _ | .null sp | .none sp => sp
  | .ident sp .. | .range sp .. | .list sp .. | .anyobj sp | .obj sp .. | .lambda sp ..
  | .grouped sp _ | .pre sp .. | .infix sp .. | .assign sp .. | .call sp .. | .index sp ..
  | .member sp .. | .cast sp .. | .ifE sp .. | .matchE sp .. | .tryE sp .. => sp
  | .blockE (.mk sp ..) => sp

def readPlace (pl : Place) : M Val := do
  match pl.var with
  | some (name, _) => do
    let s ← get
    match lookupScopes name s.scopes with
    | some v => pure v
    | none =>
      match s.globals.lookup (s.module, name) with
      | some v => pure v
      | none => throwCtl (.unsupported "assignment to an unknown variable")
  | none => do
    match ← readCell pl.addr, pl.field with
    | .list xs, none => pure (xs.getD pl.idx .null)
    | .obj fs, some k | .anyobj fs, some k => pure ((fs.lookup k).getD .null)
    | _, _ => throwCtl (.unsupported "place")
def writePlace (pl : Place) (v : Val) : M Unit := do
  match pl.var with
  | some (name, _) => do
    let s ← get
    match assignScopes name v s.scopes with
    | some sc => set { s with scopes := sc }
    | none =>
      if (s.globals.lookup (s.module, name)).isSome then
        set { s with globals := s.globals.map fun (k, old) => if k == (s.module, name) then (k, v) else (k, old) }
      else throwCtl (.unsupported "assignment to an unknown variable")
  | none => do
    match ← readCell pl.addr, pl.field with
    | .list xs, none => writeCell pl.addr (.list (xs.set pl.idx v))
    | .obj fs, some k => writeCell pl.addr (.obj (fs.map fun (k', old) => if k' == k then (k', v) else (k', old)))
    | .anyobj fs, some k => writeCell pl.addr (.anyobj (fs.map fun (k', old) => if k' == k then (k', v) else (k', old)))
    | _, _ => throwCtl (.unsupported "place")
def indexVal (b i : Val) (sp : Span) : M Val := do
  match b, i with
  | .ref a, .int k => do
    match ← readCell a with
    | .list xs =>
      match wrapIndex k xs.length with
      | some n => pure (xs.getD n .null)
      | none => throwCtl (.fatal "IndexOutOfBounds"
          s!"Index out of bounds: cannot index a list of length {xs.length} with {if k.toInt < 0 then k.toInt + xs.length else k.toInt}" sp)
    | _ => throwCtl (.unsupported "index base")
  | .ref a, .str k => do
    match ← readCell a with
    | .obj fs =>
      match fs.lookup k with
      | some v => pure v
      | none => throwCtl (.fatal "IndexOutOfBounds" s!"Value of type 'object' has no field named '{k}'" sp)
    | .anyobj fs =>
      match fs.lookup k with
      | some v => pure v
      | none => throwCtl (.fatal "IndexOutOfBounds" s!"Value of type 'any-object' has no field named '{k}'" sp)
    | _ => throwCtl (.unsupported "index base")
  | .str s, .int k =>
    -- strings are indexed by character, as `len` and iteration count them
    match wrapIndex k s.length with
    | some n => pure (.str (String.singleton (s.toList.getD n ' ')))
    | none => throwCtl (.fatal "IndexOutOfBounds"
        s!"Index out of bounds: cannot index a string of length {s.length} with {if k.toInt < 0 then k.toInt + s.length else k.toInt}" sp)
  | _, _ => throwCtl (.unsupported "index operands")
def memberVal (b : Val) (name : String) (op : MemberOp) (_sp : Span) : M Val := do
  match op with
  | .dot =>
    match b with
    | .ref a => do
      match ← readCell a with
      | .obj fs =>
        match fs.lookup name with
        | some v => pure v
        | none => pure (.bound b name)
      | _ => pure (.bound b name)
    | .range x y _ =>
      if name == "start" then pure (.int x) else if name == "end" then pure (.int y) else pure (.bound b name)
    | _ => pure (.bound b name)
  -- `o->k`: the data field `k` of an any-object as an option (Member_Anyobj); `o~>k`: that option
  -- unwrapped (Member_Anyobj; Member_Unwrap; the interpreter's memberExpression does the same since fix V42).
  | .arrow =>
    match b with
    | .ref a => do
      match ← readCell a with
      | .anyobj fs => pure (.opt (fs.lookup name))
      | _ => throwCtl (.unsupported "-> on a value that is not an any-object")
    | _ => throwCtl (.unsupported "-> on a value that is not an any-object")
  | .tildeArrow =>
    match b with
    | .ref a => do
      match ← readCell a with
      | .anyobj fs =>
        match fs.lookup name with
        | some v => pure v
        | none => throwCtl (.throw "Called 'unwrap' on a 'null' option value" _sp)
      | _ => throwCtl (.unsupported "~> on a value that is not an any-object")
    | _ => throwCtl (.unsupported "~> on a value that is not an any-object")
def iterElems (v : Val) : M (List Val) := do
  match v with
  | .range a b incl =>
    if (a.toInt - b.toInt).natAbs > 100000 then throwCtl (.unsupported "huge range")
    else pure ((rangeElems a b incl).map Val.int)
  | .ref a => do
    match ← readCell a with
    | .list xs => pure xs
    | _ => throwCtl (.unsupported "iteration over this value")
  | .str s => pure (s.toList.map fun c => Val.str (String.singleton c))
  | _ => throwCtl (.unsupported "iteration over this value")
def callBuiltin (name : String) (vals : List Val) (sp : Span) : M Val := do
  match name with
  | "print" => do
    let ds ← vals.mapM displayM
    emit (" ".intercalate ds)
    pure .null
  | "println" => do
    let ds ← vals.mapM displayM
    emit (" ".intercalate ds ++ "\n")
    pure .null
  | "debug" => do
    let ds ← vals.mapM displayM
    emit ("DEBUG: " ++ " ".intercalate ds ++ "\n")
    pure .null
  | "throw" =>
    match vals with
    | [v] => do throwCtl (.throw (← displayM v) sp)
    | _ => throwCtl (.unsupported "throw arity")
  | "assert" =>
    match vals with
    | [.bool true] => pure .null
    | [.bool false] => throwCtl (.fatal "HostError" "Assert failed" sp)
    | _ => throwCtl (.unsupported "assert argument")
  | _ => throwCtl (.unsupported s!"builtin {name}")
/-- Members of a float (`valueFloat.go`) beyond `to_string`: `is_int`, `trunc`, `round`. -/
def floatMember (f : Float) (name : String) (vals : List Val) : M Val :=
  if name == "is_int" && vals.isEmpty then floatIsIntM f
  else if name == "trunc" && vals.isEmpty then floatToIntM (floatTrunc f)
  else if name == "round" && vals.isEmpty then floatToIntM f.round
  else throwCtl (.unsupported ("member " ++ name))

/-! Members of a string (`valueString.go`) beyond those listed in `callMember`; one function per
member, `strMember` dispatches on the name. -/

def strSubstring (s : String) (vals : List Val) (sp : Span) : M Val :=
  match vals with
  | [.int u] =>
    -- runes[0:upper]; `upper == len` is refused too
    if u.toInt < 0 || u.toInt ≥ (s.length : Int) then throwCtl (.throw "index out of range" sp)
    else pure (.str (String.ofList (s.toList.take u.toNat)))
  | _ => throwCtl (.unsupported "member substring")

def strReplace (s : String) (vals : List Val) : M Val :=
  match vals with
  | [.str old, .str new] => pure (.str (String.ofList (goReplaceAll s.toList old.toList new.toList)))
  | _ => throwCtl (.unsupported "member replace")

def strSplit (s : String) (vals : List Val) : M Val :=
  match vals with
  | [.str sep] => alloc (.list ((goSplit s.toList sep.toList).map fun piece => Val.str (String.ofList piece)))
  | _ => throwCtl (.unsupported "member split")

def strToUpper (s : String) : M Val :=
  match goToUpper? s.toList with
  | some r => pure (.str (String.ofList r))
  | none => throwCtl (.unsupported "to_upper of a non-ASCII string")

def strToLower (s : String) : M Val :=
  match goToLower? s.toList with
  | some r => pure (.str (String.ofList r))
  | none => throwCtl (.unsupported "to_lower of a non-ASCII string")

/-- The exception of a failed `strconv` parse: `NumError.Error()`. -/
def strconvErr {α} (fn : String) (s : String) (why : String) (sp : Span) : M α :=
  match goQuote? s.toList with
  | some q => throwCtl (.throw ("strconv." ++ fn ++ ": parsing " ++ q ++ ": " ++ why) sp)
  | none => throwCtl (.unsupported "strconv.Quote of a non-ASCII / unprintable string")

def strParseInt (s : String) (sp : Span) : M Val :=
  match goParseInt s.toList with
  | .ok i => pure (.int i)
  | .error e => strconvErr "ParseInt" s e.text sp

def strParseBool (s : String) (sp : Span) : M Val :=
  match goParseBool s with
  | some b => pure (.bool b)
  | none => strconvErr "ParseBool" s "invalid syntax" sp

def strParseFloat (s : String) (sp : Span) : M Val :=
  match goParseFloat s.toList with
  | .ok f => pure (.float f)
  | .syntaxErr => strconvErr "ParseFloat" s "invalid syntax" sp
  | .unmodelled => throwCtl (.unsupported "parse_float outside the decided class")

/-! `parse_json`: a `json.Decoder` with `UseNumber` into `interface{}` followed by `UnmarshalValue`. Modelled for valid
documents of the decided class (numbers without exponent that `jsonNumber?` decides, strings without
surrogate escapes); everything else — syntax errors with their `encoding/json` texts included — is
answered `unsupported`. JSON objects become objects (a repeated key keeps its last value), `null`
becomes `none`, a number spelled as an integer which fits an int becomes that int, every other number a
float (J1). -/

def jsonUnmodelled {α} : M α := throwCtl (.unsupported "parse_json outside the decided class")

def jsonSetField (fs : List (String × Val)) (k : String) (v : Val) : List (String × Val) :=
  if (fs.lookup k).isSome then fs.map fun kv => if kv.1 == k then (kv.1, v) else kv else fs ++ [(k, v)]

def isJsonNumChar (c : Char) : Bool := c == '-' || c == '+' || c == '.' || c == 'e' || c == 'E' || ('0' ≤ c && c ≤ '9')

mutual
/-- One JSON value at the head of `cs` (after optional white space): the value and the rest. -/
def pjValue : Nat → List Char → M (Val × List Char)
  | 0, _ => jsonUnmodelled
  | fuel + 1, cs =>
    match jsonSkipWs cs with
    | '{' :: rest =>
      match jsonSkipWs rest with
      | '}' :: rest' => do pure (← alloc (.obj []), rest')
      | rest' => pjMembers fuel rest' []
    | '[' :: rest =>
      match jsonSkipWs rest with
      | ']' :: rest' => do pure (← alloc (.list []), rest')
      | rest' => pjElems fuel rest' []
    | '"' :: rest =>
      match jsonStringBody (rest.length + 1) [] rest with
      | some (s, rest') => pure (.str s, rest')
      | none => jsonUnmodelled
    | 't' :: 'r' :: 'u' :: 'e' :: rest => pure (.bool true, rest)
    | 'f' :: 'a' :: 'l' :: 's' :: 'e' :: rest => pure (.bool false, rest)
    | 'n' :: 'u' :: 'l' :: 'l' :: rest => pure (.opt none, rest)
    | cs' =>
      let num := cs'.takeWhile isJsonNumChar
      match jsonNumber? num with
      | some (.int i) => pure (.int i, cs'.drop num.length)
      | some (.float f) => pure (.float f, cs'.drop num.length)
      | none => jsonUnmodelled
/-- The elements of an array after `[` (at least one), up to and including `]`. -/
def pjElems : Nat → List Char → List Val → M (Val × List Char)
  | 0, _, _ => jsonUnmodelled
  | fuel + 1, cs, acc => do
    let (v, rest) ← pjValue fuel cs
    match jsonSkipWs rest with
    | ',' :: rest' => pjElems fuel rest' (acc ++ [v])
    | ']' :: rest' => do pure (← alloc (.list (acc ++ [v])), rest')
    | _ => jsonUnmodelled
/-- The members of an object after `{` (at least one), up to and including `}`. -/
def pjMembers : Nat → List Char → List (String × Val) → M (Val × List Char)
  | 0, _, _ => jsonUnmodelled
  | fuel + 1, cs, acc =>
    match jsonSkipWs cs with
    | '"' :: rest =>
      match jsonStringBody (rest.length + 1) [] rest with
      | some (k, rest') =>
        match jsonSkipWs rest' with
        | ':' :: rest'' => do
          let (v, rest3) ← pjValue fuel rest''
          match jsonSkipWs rest3 with
          | ',' :: rest4 => pjMembers fuel rest4 (jsonSetField acc k v)
          | '}' :: rest4 => do pure (← alloc (.obj (jsonSetField acc k v)), rest4)
          | _ => jsonUnmodelled
        | _ => jsonUnmodelled
      | none => jsonUnmodelled
    | _ => jsonUnmodelled
end

def strParseJson (s : String) : M Val := do
  let (v, rest) ← pjValue (s.length + 2) s.toList
  if (jsonSkipWs rest).isEmpty then pure v else jsonUnmodelled

def strCompareLev (s : String) (vals : List Val) : M Val :=
  match vals with
  | [.str t] =>
    match goLevenshtein? s.toList t.toList with
    | some d => pure (.int (I64.ofInt d))
    | none => throwCtl (.unsupported "compare_lev of very long strings")
  | _ => throwCtl (.unsupported "member compare_lev")

def strMember (s : String) (name : String) (vals : List Val) (sp : Span) : M Val :=
  if name == "substring" then strSubstring s vals sp
  else if name == "replace" then strReplace s vals
  else if name == "split" then strSplit s vals
  else if name == "to_upper" && vals.isEmpty then strToUpper s
  else if name == "to_lower" && vals.isEmpty then strToLower s
  else if name == "parse_int" && vals.isEmpty then strParseInt s sp
  else if name == "parse_bool" && vals.isEmpty then strParseBool s sp
  else if name == "parse_float" && vals.isEmpty then strParseFloat s sp
  else if name == "parse_json" && vals.isEmpty then strParseJson s
  else if name == "compare_lev" then strCompareLev s vals
  else throwCtl (.unsupported ("member " ++ name))

/-- `sort` of the list at address `a` with elements `xs` (`valueList.go`). -/
def listSort (a : Nat) (xs : List Val) : M Val :=
  -- insertion sort, dispatched on the kind of the first element
  match xs with
  | [] => pure .null
  | .int _ :: _ =>
    match xs.mapM fun x => match x with | .int i => some i | _ => none with
    | some is => do
      writeCell a (.list ((insertionSort (fun (x t : I64) => t.slt x) is).map Val.int)); pure .null
    | none => throwCtl (.unsupported "sort of a list of mixed kinds")
  | .float _ :: _ =>
    match xs.mapM fun x => match x with | .float f => some f | _ => none with
    | some fs => do
      writeCell a (.list ((insertionSort (fun (x t : Float) => x > t) fs).map Val.float)); pure .null
    | none => throwCtl (.unsupported "sort of a list of mixed kinds")
  | .str _ :: _ =>
    match xs.mapM fun x => match x with | .str s => some s | _ => none with
    | some ss => do
      writeCell a (.list ((insertionSort (fun (x t : String) => decide (t < x)) ss).map Val.str)); pure .null
    | none => throwCtl (.unsupported "sort of a list of mixed kinds")
  | _ => throwCtl (.unsupported "sort of this element kind")

def callMember (recv : Val) (name : String) (vals : List Val) (sp : Span) : M Val := do
  match recv, name, vals with
  | .int i, "to_string", [] => pure (.str (fmtInt i))
  | .int i, "to_range", [] => pure (.range 0 i false)
  | .bool b, "to_string", [] => pure (.str (if b then "true" else "false"))
  | .float f, "to_string", [] => do pure (.str (← displayM (.float f)))
  | .float f, _, _ => floatMember f name vals
  | .str s, "len", [] => pure (.int (I64.ofInt s.length))
  | .str s, "to_string", [] => pure (.str s)
  | .str s, "contains", [.str t] =>
    pure (.bool ((s.splitOn t).length > 1 || t.isEmpty))
  | .str s, "starts_with", [.str t] => pure (.bool (t.toList.isPrefixOf s.toList))
  | .str s, "repeat", [.int n] =>
    let bytes := utf8Len s.toList
    if n.toInt < 0 then throwCtl (.throw "negative repeat count" sp)
    else if bytes > 0 && n.toInt > (9223372036854775807 : Int) / (bytes : Int) then
      throwCtl (.throw "repeat output length overflow" sp)
    else if s.isEmpty then pure (.str "")     -- `strings.Repeat("", n)`
    else if n.toNat * s.length > 100000 then throwCtl (.unsupported "huge repeat")
    else pure (.str (String.join (List.replicate n.toNat s)))
  | .str s, _, _ => strMember s name vals sp
  | .opt o, "is_some", [] => pure (.bool o.isSome)
  | .opt o, "is_none", [] => pure (.bool o.isNone)
  | .opt o, "unwrap", [] =>
    match o with
    | some v => pure v
    | none => throwCtl (.throw "Called 'unwrap' on a 'null' option value" sp)
  | .opt o, "unwrap_or", [d] => pure (o.getD d)
  | .opt o, "expect", [.str msg] =>
    match o with
    | some v => pure v
    | none => throwCtl (.fatal "ValueError" msg sp)
  | .opt o, "to_string", [] => do pure (.str (← displayM (.opt o)))
  | .range a b incl, "rev", [] => pure (.range b a incl)
  | .range a b _, "diff", [] =>
    pure (.int (if b.slt a then a - b else b - a))
  | .range .., "to_string", [] => do pure (.str (← displayM recv))
  | .ref a, _, _ => do
    match ← readCell a, name, vals with
    | .list xs, "len", [] => pure (.int (I64.ofInt xs.length))
    | .list xs, "push", [v] => do writeCell a (.list (xs ++ [v])); pure .null
    | .list xs, "push_front", [v] => do writeCell a (.list (v :: xs)); pure .null
    | .list xs, "pop", [] =>
      match xs.getLast? with
      | some v => do writeCell a (.list xs.dropLast); pure (.opt (some v))
      | none => pure (.opt none)
    | .list xs, "pop_front", [] =>
      match xs with
      | v :: rest => do writeCell a (.list rest); pure (.opt (some v))
      | [] => pure (.opt none)
    | .list xs, "last", [] => pure (.opt xs.getLast?)
    | .list xs, "contains", [v] => do
      let mut found := false
      for x in xs do
        if ← eqM v x then found := true
      pure (.bool found)
    | .list xs, "concat", [.ref b] => do
      match ← readCell b with
      | .list ys => do writeCell a (.list (xs ++ ys)); pure .null
      | _ => throwCtl (.unsupported "concat argument")
    | .list xs, "join", [.str sep] => do
      let ds ← xs.mapM displayM
      pure (.str (sep.intercalate ds))
    | .list xs, "insert", [.int i, v] =>
      let k := if i.toInt < 0 then i.toInt + xs.length else i.toInt
      if k < 0 ∨ k > xs.length then
        throwCtl (.fatal "IndexOutOfBounds" s!"Index out of bounds: the index is {k}, the but length is {xs.length}" sp)
      else do writeCell a (.list (xs.take k.toNat ++ v :: xs.drop k.toNat)); pure .null
    | .list xs, "remove", [.int i] =>
      let k := if i.toInt < 0 then i.toInt + xs.length else i.toInt
      if k < 0 ∨ k ≥ xs.length then
        throwCtl (.fatal "IndexOutOfBounds" s!"Index out of bounds: the index is {k}, the but length is {xs.length}" sp)
      else do writeCell a (.list (xs.eraseIdx k.toNat)); pure .null
    | .list _, "to_string", [] => do pure (.str (← displayM recv))
    | .list xs, "sort", [] => listSort a xs
    | _, "to_json", [] => toJsonM false recv
    | _, "to_json_indent", [] => toJsonM true recv
    | .obj _, "to_string", [] => do pure (.str (← displayM recv))
    | .obj fs, "keys", [] => do alloc (.list ((sortFields fs).map fun (k, _) => Val.str k))
    | .anyobj fs, "keys", [] => do alloc (.list ((sortFields fs).map fun (k, _) => Val.str k))
    | .anyobj fs, "set", [.str k, v] => do
      -- an any-object that would contain itself is refused (catchable)
      match reachesVal (← get).heap a 100000 v with
      | some true => throwCtl (.throw "an any-object cannot contain itself" sp)
      | none => throwCtl (.unsupported "containment test of any-object set")
      | some false => pure ()
      if (fs.lookup k).isSome then
        writeCell a (.anyobj (fs.map fun (k', old) => if k' == k then (k', v) else (k', old)))
      else writeCell a (.anyobj (fs ++ [(k, v)]))
      pure .null
    | .anyobj fs, "get", [.str k] => pure (.opt (fs.lookup k))
    | .anyobj fs, "get_type", [.str k] =>
      match fs.lookup k with
      | some v => do pure (.str (← typeKindNameM v))
      | none => throwCtl (.fatal "IndexOutOfBounds" s!"Value of type 'any-object' has no field named '{k}'" sp)
    | .anyobj _, "to_string", [] => do pure (.str (← displayM recv))
    | _, _, _ => throwCtl (.unsupported s!"member {name}")
  | _, _, _ => throwCtl (.unsupported s!"member {name}")

mutual
def evalExpr (cfg : Cfg) : Nat → Expr → M Val
  | 0, _ => throwCtl .timeout
  | fuel + 1, e =>
    match e with
    | .int _ v => pure (.int (I64.ofInt v))
    | .float _ bits => pure (.float (floatOfBits bits))
    | .bool _ b => pure (.bool b)
    | .str _ s => pure (.str s)
    | .null _ => pure .null
    | .none _ => pure (.opt none)
    | .grouped _ e => evalExpr cfg fuel e
    | .ident _ _ name _ _ _ => do
      let s ← get
      match lookupScopes name s.scopes with
      | some v => pure v
      | none =>
        match s.globals.lookup (s.module, name) with
        | some v => pure v
        | none =>
          match resolveFn cfg.prog s.module name with
          | some (m, _) => pure (.fn m name)
          | none =>
            if builtinNames.contains name then pure (.builtin name)
            else throwCtl (.unsupported s!"identifier {name} (captured variable or host value)")
    | .range _ a b incl => do
      let x ← evalExpr cfg fuel a
      let y ← evalExpr cfg fuel b
      match x, y with
      | .int x, .int y => pure (.range x y incl)
      | _, _ => throwCtl (.unsupported "range bounds")
    | .list _ _ xs => do
      let vs ← evalList cfg fuel xs
      alloc (.list vs)
    | .anyobj _ => alloc (.anyobj [])
    | .obj _ _ fields => do
      let vs ← evalFields cfg fuel fields
      alloc (.obj vs)
    | .lambda _ _ params _ body => do
      let s ← get
      set { s with closures := s.closures.push ⟨params, body, s.module⟩ }
      pure (.closure s.closures.size)
    | .pre sp _ op e => do
      let v ← evalExpr cfg fuel e
      match op, v with
      | .neg, .int x => pure (.int (-x))
      | .neg, .float x => pure (.float (-x))
      | .not, .bool b => pure (.bool (!b))
      | .not, .int x => pure (.int (~~~x))
      | .some, v => pure (.opt (some v))
      | _, _ => let _ := sp; throwCtl (.unsupported "prefix operand kind")
    | .infix sp _ op l r =>
      match op with
      | .or => do
        match ← evalExpr cfg fuel l with
        | .bool true => pure (.bool true)
        | .bool false => evalExpr cfg fuel r
        | _ => throwCtl (.unsupported "|| operand")
      | .and => do
        match ← evalExpr cfg fuel l with
        | .bool false => pure (.bool false)
        | .bool true => evalExpr cfg fuel r
        | _ => throwCtl (.unsupported "&& operand")
      | _ => do
        let a ← evalExpr cfg fuel l
        let b ← evalExpr cfg fuel r
        binOp op a b sp
    | .assign sp op l r => do
      let pl ← evalPlace cfg fuel l
      let rhs ← match op with
        | none => evalExpr cfg fuel r
        | some o => do
          let cur ← readPlace pl
          let b ← evalExpr cfg fuel r
          binOp o cur b sp
      writePlace pl rhs
      pure .null
    | .call sp _ base args isSpawn =>
      if isSpawn then throwCtl (.unsupported "spawn")
      else evalCall cfg fuel sp base args
    | .index sp _ base idx => do
      let b ← evalExpr cfg fuel base
      let i ← evalExpr cfg fuel idx
      indexVal b i sp
    | .member sp _ base name op => do
      let b ← evalExpr cfg fuel base
      memberVal b name op sp
    | .cast sp ty e => do
      let v ← evalExpr cfg fuel e
      castVal castFuel v ty true "" sp
    | .blockE b => inScope (evalBlock cfg fuel b)
    | .ifE _ _ c t e => do
      match ← evalExpr cfg fuel c with
      | .bool true => inScope (evalBlock cfg fuel t)
      | .bool false =>
        match e with
        | some eb => inScope (evalBlock cfg fuel eb)
        | none => pure .null
      | _ => throwCtl (.unsupported "if condition")
    | .matchE _ _ c arms dflt => do
      let v ← evalExpr cfg fuel c
      evalArms cfg fuel v arms dflt
    | .tryE _ _ t catchIdent c => fun s =>
      match (inScope (evalBlock cfg fuel t)) s with
      | (.error (.throw msg sp), s') =>
        -- handlers and scopes of the `try` body are gone; effects persist
        let body : M Val := inScope do
          let o ← alloc (.obj [("message", .str msg), ("line", .int (I64.ofInt sp.sl)),
                               ("column", .int (I64.ofInt sp.sc)), ("filename", .str s'.module)])
          declare catchIdent o
          evalBlock cfg fuel c
        -- `inScope` has already removed the scopes of the `try` body; variable updates persist
        body s'
      | r => r
def evalList (cfg : Cfg) : Nat → List Expr → M (List Val)
  | 0, _ => throwCtl .timeout
  | _ + 1, [] => pure []
  | fuel + 1, e :: es => do
    let v ← evalExpr cfg fuel e
    let vs ← evalList cfg fuel es
    pure (v :: vs)
def evalFields (cfg : Cfg) : Nat → List (String × Expr) → M (List (String × Val))
  | 0, _ => throwCtl .timeout
  | _ + 1, [] => pure []
  | fuel + 1, (k, e) :: es => do
    let v ← evalExpr cfg fuel e
    let vs ← evalFields cfg fuel es
    pure ((k, v) :: vs)
def evalArms (cfg : Cfg) : Nat → Val → List (List Expr × Expr) → Option Expr → M Val
  | 0, _, _, _ => throwCtl .timeout
  | fuel + 1, _, [], dflt =>
    match dflt with
    | some d => evalExpr cfg fuel d
    | none => pure .null
  | fuel + 1, v, (lits, act) :: rest, dflt => do
    if ← anyLit cfg fuel v lits then evalExpr cfg fuel act
    else evalArms cfg fuel v rest dflt
def anyLit (cfg : Cfg) : Nat → Val → List Expr → M Bool
  | 0, _, _ => throwCtl .timeout
  | _ + 1, _, [] => pure false
  | fuel + 1, v, l :: ls => do
    let lv ← evalExpr cfg fuel l
    if ← eqM lv v then pure true else anyLit cfg fuel v ls
/-- Left-hand side of an assignment: a variable or a heap slot (bounds checked here, before the
right-hand side is evaluated). -/
def evalPlace (cfg : Cfg) : Nat → Expr → M Place
  | 0, _ => throwCtl .timeout
  | fuel + 1, e =>
    match e with
    | .grouped _ e => evalPlace cfg fuel e
    | .ident _ _ name isGlobal _ _ => pure { var := some (name, isGlobal) }
    | .index sp _ base idx => do
      let b ← evalExpr cfg fuel base
      let i ← evalExpr cfg fuel idx
      match b, i with
      | .ref a, .int k => do
        match ← readCell a with
        | .list xs =>
          match wrapIndex k xs.length with
          | some n => pure { addr := a, idx := n }
          | none => throwCtl (.fatal "IndexOutOfBounds"
              s!"Index out of bounds: cannot index a list of length {xs.length} with {if k.toInt < 0 then k.toInt + xs.length else k.toInt}" sp)
        | _ => throwCtl (.unsupported "index assignment target")
      | .ref a, .str k => do
        match ← readCell a with
        | .obj fs | .anyobj fs =>
          if (fs.lookup k).isSome then pure { addr := a, field := some k }
          else throwCtl (.unsupported "index assignment to a missing field")
        | _ => throwCtl (.unsupported "index assignment target")
      | _, _ => throwCtl (.unsupported "index assignment target")
    | .member _ _ base name .dot => do
      match ← evalExpr cfg fuel base with
      | .ref a => do
        match ← readCell a with
        | .obj fs =>
          if (fs.lookup name).isSome then pure { addr := a, field := some name }
          else throwCtl (.unsupported "member assignment to a missing field")
        | _ => throwCtl (.unsupported "member assignment target")
      | _ => throwCtl (.unsupported "member assignment target")
    | _ => throwCtl (.unsupported "assignment target")
def evalCall (cfg : Cfg) : Nat → Span → Expr → List (String × Expr) → M Val
  | 0, _, _, _ => throwCtl .timeout
  | fuel + 1, sp, base, args => do
    let f ← evalExpr cfg fuel base
    let vals ← evalList cfg fuel (args.map (·.2))
    applyFn cfg fuel sp f vals
def applyFn (cfg : Cfg) : Nat → Span → Val → List Val → M Val
  | 0, _, _, _ => throwCtl .timeout
  | fuel + 1, sp, f, vals =>
    match f with
    | .builtin name => callBuiltin name vals sp
    | .bound recv name => callMember recv name vals sp
    | .fn m name =>
      match findFn cfg.prog m name with
      | none => throwCtl (.unsupported s!"function {name}")
      | some fd => callBody cfg fuel sp m fd.params fd.body vals
    | .closure id => do
      let s ← get
      match s.closures[id]? with
      | some c => callBody cfg fuel sp c.module c.params c.body vals
      | none => throwCtl (.unsupported "closure")
    | _ => throwCtl (.unsupported "call of a non-function")
/-- Function activation: fresh scopes, parameters bound in order, `return` caught here;
the caller's scopes, module and depth are restored on every exit path. -/
def callBody (cfg : Cfg) : Nat → Span → String → List Param → Block → List Val → M Val
  | 0, _, _, _, _, _ => throwCtl .timeout
  | fuel + 1, sp, m, params, body, vals => fun s =>
    if s.depth > cfg.callLimit then
      (.error (.fatal "StackOverFlow" s!"Maximum callstack size of {cfg.callLimit} was exceeded" sp), s)
    else
      let normal := params.filter (!·.isSingleton)
      if normal.length != vals.length then (.error (.unsupported "arity"), s)
      else
        let sing := params.filter (·.isSingleton)
        let singBinds := sing.filterMap fun p => (s.globals.lookup (m, p.singleton)).map fun v => (p.name, v)
        if singBinds.length != sing.length then (.error (.unsupported "singleton parameter"), s)
        else
          let binds := (normal.map (·.name)).zip vals ++ singBinds
          let s0 := { s with scopes := [binds.reverse], module := m, depth := s.depth + 1 }
          let (r, s1) := (match body with | .mk _ _ stmts e => evalBlock cfg fuel (.mk ⟨0,0,0,0⟩ .null stmts e)) s0
          let s2 := { s1 with scopes := s.scopes, module := s.module, depth := s.depth }
          match r with
          | .error (.ret v) => (.ok v, s2)
          | .error .brk | .error .cont => (.error (.unsupported "loop exit outside a loop"), s2)
          | r => (r, s2)
def evalBlock (cfg : Cfg) : Nat → Block → M Val
  | 0, _ => throwCtl .timeout
  | fuel + 1, .mk _ _ stmts e => do
    evalStmts cfg fuel stmts
    match e with
    | some e => evalExpr cfg fuel e
    | none => pure .null
def evalStmts (cfg : Cfg) : Nat → List Stmt → M Unit
  | 0, _ => throwCtl .timeout
  | _ + 1, [] => pure ()
  | fuel + 1, s :: ss => do
    evalStmt cfg fuel s
    evalStmts cfg fuel ss
def evalStmt (cfg : Cfg) : Nat → Stmt → M Unit
  | 0, _ => throwCtl .timeout
  | fuel + 1, st =>
    match st with
    | .typedef _ => pure ()
    | .trigger _ cb _ tr args => do
      let vals ← evalList cfg fuel (args.map (·.2))
      let ds ← vals.mapM displayM
      modify fun s => { s with trig := s.trig ++ s!"{cb}<-{tr}({",".intercalate ds});" }
    | .letS sp name _ needsCast optTy e => do
      let v ← evalExpr cfg fuel e
      -- an initialiser whose static type mentions `any` is validated against the annotation (no conversions)
      if needsCast then do declare name (← castVal castFuel v optTy false "" sp)
      else declare name v
    | .ret _ e => do
      match e with
      | some e => do throwCtl (.ret (← evalExpr cfg fuel e))
      | none => throwCtl (.ret .null)
    | .brk _ => throwCtl .brk
    | .cont _ => throwCtl .cont
    | .loopS _ body => loopRun cfg fuel none body
    | .whileS _ c body => loopRun cfg fuel (some c) body
    | .forS _ name _ iter body => do
      let it ← evalExpr cfg fuel iter
      let elems ← iterElems it
      forRun cfg fuel name elems body
    | .exprS _ e => do let _ ← evalExpr cfg fuel e
/-- `loop` (no condition) and `while`: `break` ends the loop, `continue` starts the next round. -/
def loopRun (cfg : Cfg) : Nat → Option Expr → Block → M Unit
  | 0, _, _ => throwCtl .timeout
  | fuel + 1, cond, body => do
    let go ← match cond with
      | none => pure true
      | some c => do
        match ← evalExpr cfg fuel c with
        | .bool b => pure b
        | _ => throwCtl (.unsupported "while condition")
    if !go then pure ()
    else fun s =>
      match (inScope (evalBlock cfg fuel body)) s with
      | (.error .brk, s') => (.ok (), s')
      | (.error .cont, s') => loopRun cfg fuel cond body s'
      | (.ok _, s') => loopRun cfg fuel cond body s'
      | (.error c, s') => (.error c, s')
/-- `for` over the snapshot `elems`. -/
def forRun (cfg : Cfg) : Nat → String → List Val → Block → M Unit
  | 0, _, _, _ => throwCtl .timeout
  | _ + 1, _, [], _ => pure ()
  | fuel + 1, name, x :: xs, body => fun s =>
    let round : M Val := inScope do
      declare name x
      evalBlock cfg fuel body
    match round s with
    | (.error .brk, s') => (.ok (), s')
    | (.error .cont, s') => forRun cfg fuel name xs body s'
    | (.ok _, s') => forRun cfg fuel name xs body s'
    | (.error c, s') => (.error c, s')
end

/-! ## Whole programs -/

inductive Outcome where
  | ok (out trig : String)
  | fatal (kind msg : String) (sp : Span) (out trig : String)
  | unsupported (what : String)
  | timeout
  deriving Repr, Inhabited

/-- How a run is reported to the host: normal completion, an exception no handler encloses as
the fatal error `UncaughtThrow` with the thrown message and position, a fatal error with its
own kind. -/
def outcomeOf : Except Ctl Val × St → Outcome
  | (.ok _, s) => .ok s.out s.trig
  | (.error (.throw msg sp), s) => .fatal "UncaughtThrow" msg sp s.out s.trig
  | (.error (.fatal k msg sp), s) => .fatal k msg sp s.out s.trig
  | (.error (.unsupported w), _) => .unsupported w
  | (.error .timeout, _) => .timeout
  | (.error (.ret _), s) => .ok s.out s.trig
  | (.error .brk, _) | (.error .cont, _) => .unsupported "loop exit at top level"

/-- Initialise the globals of every module (a singleton from the value the host provides for
its name, `cfg.hostSingletons`, else from the zero value of its type), then run `main` of the
entry module. -/
def runProgram (cfg : Cfg) (fuel : Nat) (entry : String := "main") : Outcome :=
  let init : M Unit := do
    for m in cfg.prog do
      modify fun s => { s with module := m.name, scopes := [[]] }
      for (name, t) in m.singletons do
        let v ← singletonInit cfg.hostSingletons name t
        modify fun s => { s with globals := s.globals ++ [((m.name, name), v)] }
      for g in m.globals do
        match g with
        | .letS sp name _ needsCast optTy e => do
          let v ← evalExpr cfg fuel e
          let v ← if needsCast then castVal castFuel v optTy false "" sp else pure v
          modify fun s => { s with globals := s.globals ++ [((m.name, name), v)] }
        | _ => throwCtl (.unsupported "global statement")
    modify fun s => { s with module := "main", scopes := [[]] }
  let main : M Val := do
    init
    match findFn cfg.prog "main" entry with
    | some fd => applyFn cfg fuel fd.sp (.fn "main" entry) []
    | none => throwCtl (.unsupported "no entry function")
  outcomeOf (main {})

end Hms.Core
