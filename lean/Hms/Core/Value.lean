import Hms.Core.Syntax
/-!
# Runtime values of the specification semantics

Scalars are values; lists, objects and any-objects live in heap cells and are shared by
reference (`Val.ref`). 64-bit integers are `BitVec 64` (two's complement, wrap-around).
Floats are Lean `Float` (IEEE-754 binary64, as Go's `float64`); they are opaque to the
kernel, so theorems treat float operations as uninterpreted functions — both the
specification semantics and the VM model use the same ones.
-/
namespace Hms.Core

abbrev I64 := BitVec 64

inductive Val where
  | null
  | int (v : I64)
  | float (f : Float)
  | bool (b : Bool)
  | str (s : String)
  | ref (addr : Nat)
  | opt (v : Option Val)
  | range (a b : I64) (incl : Bool)
  | fn (module name : String)
  | closure (id : Nat)
  | builtin (name : String)
  | bound (recv : Val) (member : String)
  deriving Inhabited

inductive Cell where
  | list (xs : List Val)
  | obj (fields : List (String × Val))      -- insertion order; displayed sorted by key
  | anyobj (fields : List (String × Val))
  deriving Inhabited

def I64.ofInt (i : Int) : I64 := BitVec.ofInt 64 i

/-- A value the host hands to the program (a singleton's initial value, `LoadSingleton`): a
tree, not yet placed in the heap. Floats travel as their IEEE-754 bits. -/
inductive HostVal where
  | null
  | int (v : Int)
  | float (bits : Nat)
  | bool (b : Bool)
  | str (s : String)
  | none
  | some (v : HostVal)
  | range (a b : Int) (incl : Bool)
  | list (xs : List HostVal)
  | obj (fields : List (String × HostVal))
  | anyobj (fields : List (String × HostVal))
  deriving Repr, Inhabited

/-- The singleton values the host provides, by singleton name (`$Name`); a singleton that is not
listed is initialised with the zero value of its type. -/
abbrev HostSingletons := List (String × HostVal)

/-! ## Integer operators (Go `int64`) -/

/-- `<<`: shift counts ≥ 64 give 0 (Go semantics for a non-negative count). -/
def shlI (a b : I64) : I64 := if b.toNat ≥ 64 then 0 else a <<< b.toNat
/-- `>>` arithmetic: counts ≥ 64 give 0 or -1. -/
def shrI (a b : I64) : I64 := a.sshiftRight (min b.toNat 64)

/-- Integer power by repeated multiplication with wrap-around, for a non-negative exponent. -/
def powNat (a : I64) : Nat → I64
  | 0 => 1
  | n + 1 => a * powNat a n

/-! ## Display -/

def fmtInt (v : I64) : String := toString v.toInt

/-- Decimal rendering of the floats whose Go `%v` form is a plain decimal that this function
reproduces exactly: integers below 2^53 in magnitude and multiples of 2^-10 below 2^16.
`none`: outside the modelled class. -/
def fmtFloat (f : Float) : Option String :=
  if f.isNaN || f.isInf then none
  else
    let neg := f < 0 || (f == 0 && f.toBits != 0)   -- `-0` prints as "-0"
    let a := f.abs
    if a ≥ 9007199254740992.0 then none
    else
      let scaled := a * 1024.0
      if scaled.floor != scaled then none
      else
        let n := scaled.toUInt64.toNat       -- a = n / 1024
        let ip := n / 1024
        let fp := n % 1024                   -- fraction = fp / 1024 = fp * 9765625 / 10^10
        let sign := if neg then "-" else ""
        if fp == 0 then
          if ip ≥ 1000000 then
            -- `%v` = `strconv.FormatFloat(f, 'g', -1, 64)`: exponent notation from decimal exponent 6 on; the
            -- shortest round-trip digits of an integer below 2^53 are its digits without trailing zeros
            let all := (toString ip).toList
            let digs := (all.reverse.dropWhile (· == '0')).reverse
            let exp := all.length - 1
            let mant := match digs with
              | [] => "0"
              | [c] => String.singleton c
              | c :: rest => String.singleton c ++ "." ++ String.ofList rest
            some (sign ++ mant ++ "e+" ++ (if exp < 10 then "0" else "") ++ toString exp)
          else some (sign ++ toString ip)
        else if ip ≥ 65536 then none
        else
          let digits := toString (fp * 9765625)
          let padded := String.ofList (List.replicate (10 - digits.length) '0') ++ digits
          let trimmed := String.ofList (padded.toList.reverse.dropWhile (· == '0')).reverse
          some (sign ++ toString ip ++ "." ++ trimmed)

def floatOfBits (bits : Nat) : Float := Float.ofBits bits.toUInt64

end Hms.Core
