import Hms.Core.Value
/-!
# Compiler model

Mirrors `homescript/compiler` (`compileProgram`, `compileFn`, `compileBlock`, `compileStmt`,
`compileLetStmt`, `compileExpr`, `compileCallExpr`, `compileInfixExpr`, `compileIfExpr`,
`relocateLabels`, `renameVariables`) for single- and multi-module programs, after the `fix:`
commits. The output is rendered in the textual form of the Go `Instruction.String()` methods
so that the instruction stream of the real compiler can be compared verbatim.
-/
namespace Hms.Core.Comp
open Hms.Core

/-- Constants that `Copy_Push` / `Cloning_Push` carry. -/
inductive PVal where
  | null
  | int (v : Int)
  | float (bits : Nat)
  | bool (b : Bool)
  | str (s : String)
  | noneOpt
  | emptyList
  | emptyAnyObj
  | obj (fields : List (String × PVal))
  | range0
  | vmFn (name : String)
  deriving Repr, Inhabited, BEq

/-- Instructions with symbolic labels (`String`) and mangled variable names before
`relocateLabels` / `renameVariables`; with instruction indices / slots (`Nat`) afterwards. -/
inductive Instr (L V : Type) where
  | nop
  | copyPush (v : PVal)
  | cloningPush (v : PVal)
  | clone
  | drop
  | dup
  | spawn (fn : String)
  | callVal
  | callImm (fn : String)
  | ret
  | loadSingleton (name module : String)
  | hostCall (name : String)
  | jump (l : L)
  | jumpIfFalse (l : L)
  | getVar (v : V)
  | getGlob (name : String)
  | setVar (v : V)
  | setGlob (name : String)
  | assign
  | cast (ty : Ty) (allow : Bool)
  | neg | some | not
  | add | sub | mul | pow | div | rem | eq | eqPopOnce | lt | gt | le | ge | shl | shr
  | bitOr | bitAnd | bitXor
  | index
  | setTry (fn : String) (l : L)
  | popTry
  | throw
  | member (name : String)
  | memberAnyobj (name : String)
  | unwrap
  | importI (module item : String)
  | label (l : L)
  | intoRange (incl : Bool)
  | addMp (n : Int)
  | iterAdvance
  | intoIter
  deriving Repr, Inhabited

abbrev SInstr := Instr String String
abbrev RInstr := Instr Nat Nat

structure SFn where
  name : String                 -- mangled
  code : List (SInstr × Span)   -- in order
  cntVars : Nat := 0
  deriving Inhabited

structure CState where
  /-- (module, source ident) ↦ compiled function, in creation order -/
  fns : List ((String × String) × SFn) := []
  currFn : String := ""
  currModule : String := ""
  loops : List (String × String × Nat) := []    -- (break label, continue label, try depth at entry), innermost first
  tryDepth : Nat := 0                           -- enclosing `try` bodies of the current function
  varMangle : List (String × Nat) := []
  labelMangle : List (String × Nat) := []
  scopes : List (List (String × String)) := [[]] -- innermost first; source ident ↦ mangled
  lambdaCount : Nat := 0
  unsupported : Option String := none
  deriving Inhabited

abbrev C := StateM CState

def unsup (what : String) : C Unit :=
  modify fun s => if s.unsupported.isNone then { s with unsupported := some what } else s

def mangleFnName (module ident : String) : String := s!"@{module}.{ident}"

def addFn (ident mangled : String) : C Unit :=
  modify fun s =>
    let key := (s.currModule, ident)
    let fresh : SFn := { name := mangled, code := [] }
    if s.fns.any (·.1 == key) then
      { s with fns := s.fns.map fun (k, f) => if k == key then (k, fresh) else (k, f) }
    else { s with fns := s.fns ++ [(key, fresh)] }

def updCurr (f : SFn → SFn) : C Unit :=
  modify fun s =>
    let key := (s.currModule, s.currFn)
    { s with fns := s.fns.map fun (k, fn) => if k == key then (k, f fn) else (k, fn) }

def emit (i : SInstr) (sp : Span) : C Unit := updCurr fun f => { f with code := f.code ++ [(i, sp)] }

def currLen : C Nat := do
  let s ← get
  pure ((s.fns.lookup (s.currModule, s.currFn)).map (·.code.length) |>.getD 0)

def pushScopeC : C Unit := modify fun s => { s with scopes := [] :: s.scopes }
def popScopeC : C Unit := modify fun s => { s with scopes := s.scopes.tail }

def mangleVar (ident : String) : C String := do
  updCurr fun f => { f with cntVars := f.cntVars + 1 }
  let s ← get
  let cnt := (s.varMangle.lookup ident).getD 0
  let vm := if (s.varMangle.lookup ident).isSome then
      s.varMangle.map fun (k, n) => if k == ident then (k, n + 1) else (k, n)
    else s.varMangle ++ [(ident, 1)]
  let mangled := s!"@{s.currModule}.{ident}.{cnt}"
  let scopes := match s.scopes with
    | sc :: rest => ((ident, mangled) :: sc.filter (·.1 != ident)) :: rest
    | [] => [[(ident, mangled)]]
  set { s with varMangle := vm, scopes := scopes }
  pure mangled

def mangleLabel (ident : String) : C String := do
  let s ← get
  let cnt := (s.labelMangle.lookup ident).getD 0
  let lm := if (s.labelMangle.lookup ident).isSome then
      s.labelMangle.map fun (k, n) => if k == ident then (k, n + 1) else (k, n)
    else s.labelMangle ++ [(ident, 1)]
  set { s with labelMangle := lm }
  pure s!"{s.currModule}.{ident}.{cnt}"

def getMangled (ident : String) : C (Option String) := do
  let s ← get
  pure (s.scopes.findSome? fun sc => sc.lookup ident)

/-- `getMangledFn`: the current module's function of that name, else any module's (first in
creation order — the Go code iterates a map here, see finding V22). -/
def getMangledFn (ident : String) : C (Option String) := do
  let s ← get
  match s.fns.lookup (s.currModule, ident) with
  | some f => pure (some f.name)
  | none => pure ((s.fns.find? fun (k, _) => k.2 == ident).map (·.2.name))

/-- `popTryLabels`: uninstall the handlers of `n` enclosing `try` blocks. -/
def popTries (sp : Span) : Nat → C Unit
  | 0 => pure ()
  | n + 1 => do emit .popTry sp; popTries sp n

def bumpVars : C Unit := updCurr fun f => { f with cntVars := f.cntVars + 1 }

mutual
/-- `value.ZeroValue` as a push operand (the default `compileSingletonInit` pushes). -/
def zeroPVal : Ty → Option PVal
  | .null => some .null
  | .int => some (.int 0)
  | .float => some (.float 0)
  | .bool => some (.bool false)
  | .str => some (.str "")
  | .range => some .range0
  | .list _ => some .emptyList
  | .anyobj => some .emptyAnyObj
  | .opt _ => some .noneOpt
  | .obj fs => (zeroPFields fs).map .obj
  | _ => none
def zeroPFields : List (String × Ty) → Option (List (String × PVal))
  | [] => some []
  | (k, ft) :: rest => do
    let v ← zeroPVal ft
    let vs ← zeroPFields rest
    pure ((k, v) :: vs)
end

def arith (op : InfixOp) (sp : Span) : C Unit :=
  match op with
  | .add => emit .add sp | .sub => emit .sub sp | .mul => emit .mul sp | .div => emit .div sp
  | .rem => emit .rem sp | .pow => emit .pow sp | .shl => emit .shl sp | .shr => emit .shr sp
  | .bitOr => emit .bitOr sp | .bitAnd => emit .bitAnd sp | .bitXor => emit .bitXor sp
  | .eq => emit .eq sp
  | .ne => do emit .eq sp; emit .not sp
  | .lt => emit .lt sp | .le => emit .le sp | .gt => emit .gt sp | .ge => emit .ge sp
  | .or | .and => unsup "logical operator in arithmetic helper"

def exprSpan : Expr → Span
  | .int sp _ | .float sp _ | .bool sp _ | .str sp _ | .null sp | .none sp => sp
  | .ident sp .. | .range sp .. | .list sp .. | .anyobj sp | .obj sp .. | .lambda sp ..
  | .grouped sp _ | .pre sp .. | .infix sp .. | .assign sp .. | .call sp .. | .index sp ..
  | .member sp .. | .cast sp .. | .ifE sp .. | .matchE sp .. | .tryE sp .. => sp
  | .blockE (.mk sp ..) => sp

/-- The label `return` jumps to: the cleanup label of the function being compiled. It is stored
as the pseudo scope entry `cleanup:<module>:<fn>`. -/
def cleanupLabel : C String := do
  let s ← get
  pure ((s.scopes.findSome? fun sc => sc.lookup s!"cleanup:{s.currModule}:{s.currFn}").getD "?cleanup")

def compileParams (sp : Span) : List Param → C Unit
  | [] => pure ()
  | p :: ps => do
    if !p.isSingleton then
      let n ← mangleVar p.name
      emit (.setVar n) sp
    compileParams sp ps

def compileSingletonParams (sp : Span) : List Param → C Unit
  | [] => pure ()
  | p :: ps => do
    if p.isSingleton then
      match ← getMangled p.singleton with
      | some g => do
        emit (.getGlob g) sp
        let n ← mangleVar p.name
        emit (.setVar n) sp
      | none => unsup "singleton not found"
    compileSingletonParams sp ps

mutual
def compileExpr : Nat → Expr → C Unit
  | 0, _ => unsup "compiler model fuel"
  | fuel + 1, e =>
  match e with
  | .int sp v => emit (.copyPush (.int v)) sp
  | .float sp b => emit (.copyPush (.float b)) sp
  | .bool sp b => emit (.copyPush (.bool b)) sp
  | .str sp s => emit (.copyPush (.str s)) sp
  | .null sp => emit (.copyPush .null) sp
  | .none sp => emit (.copyPush .noneOpt) sp
  | .ident sp _ name isGlobal _ isSingleton => do
    match ← getMangled name with
    | some m => emit (if isGlobal || isSingleton then .getGlob m else .getVar m) sp
    | none =>
      match ← getMangledFn name with
      | some f => emit (.copyPush (.vmFn f)) sp
      | none => emit (if isGlobal || isSingleton then .getGlob name else .getVar name) sp
  | .range sp a b incl => do
    compileExpr fuel a; compileExpr fuel b; emit (.intoRange incl) sp
  | .list sp _ xs => do
    emit (.cloningPush .emptyList) sp
    compileListElems fuel sp xs
  | .anyobj sp => emit (.cloningPush .emptyAnyObj) sp
  | .obj sp _ fields => do
    -- placeholders only (null): every field is assigned its initializer by compileObjFields
    let zs : List (String × PVal) := fields.map fun (k, _) => (k, .null)
    -- the Go code builds a map: later duplicates overwrite earlier ones
    let dedup := zs.foldl (fun acc (k, v) => acc.filter (·.1 != k) ++ [(k, v)]) []
    emit (.cloningPush (.obj dedup)) sp
    compileObjFields fuel sp fields
  | .lambda sp _ params ret body => do
    let s ← get
    let ident := s!"$lambda_{s.lambdaCount}"
    set { s with lambdaCount := s.lambdaCount + 1 }
    let fnName := mangleFnName s.currModule ident
    addFn ident fnName
    let old := s.currFn
    compileFn fuel ⟨sp, ident, params, ret, 0, false, body⟩
    modify fun s => { s with currFn := old }
    emit (.copyPush (.vmFn fnName)) sp
  | .grouped _ e => compileExpr fuel e
  | .pre sp _ op e => do
    compileExpr fuel e
    match op with
    | .neg => emit .neg sp
    | .not => emit .not sp
    | .some => emit .some sp
  | .infix sp _ op l r =>
    match op with
    | .or => do
      let rt ← mangleLabel "return_true"
      let af ← mangleLabel "after_infix"
      compileExpr fuel l
      emit .not sp
      emit (.jumpIfFalse rt) sp
      compileExpr fuel r
      emit (.jump af) sp
      emit (.label rt) sp
      emit (.copyPush (.bool true)) sp
      emit (.label af) sp
    | .and => do
      let rf ← mangleLabel "return_false"
      let af ← mangleLabel "after_infix"
      compileExpr fuel l
      emit (.jumpIfFalse rf) sp
      compileExpr fuel r
      emit (.jump af) sp
      emit (.label rf) sp
      emit (.copyPush (.bool false)) sp
      emit (.label af) sp
    | _ => do
      compileExpr fuel l; compileExpr fuel r; arith op sp
  | .assign sp op l r =>
    match l with
    | .ident _ _ name isGlobal _ isSingleton => do
      let m := (← getMangled name).getD name
      -- a singleton lives in a global, like in the identifier case
      match op with
      | some o => do
        emit (if isGlobal || isSingleton then .getGlob m else .getVar m) sp
        compileExpr fuel r
        arith o sp
      | none => compileExpr fuel r
      emit (if isGlobal || isSingleton then .setGlob m else .setVar m) sp
    | _ => do
      compileExpr fuel l
      match op with
      | some o => do
        emit .dup sp
        compileExpr fuel r
        arith o sp
      | none => compileExpr fuel r
      emit .assign sp
  | .call sp _ base args isSpawn => do
    compileExprs fuel (args.reverse.map (·.2))
    let argc : SInstr := .copyPush (.int args.length)
    match base with
    | .ident _ _ name _ _ _ =>
      if name == "throw" then emit .throw sp
      else do
        match ← getMangled name with
        | some _ => do
          if isSpawn then unsup "spawn of a variable"
          compileExpr fuel base
          emit argc sp
          emit .callVal sp
        | none =>
          match ← getMangledFn name with
          | some f =>
            if isSpawn then do emit argc sp; emit (.spawn f) sp
            else emit (.callImm f) sp
          | none => do
            emit (.getGlob name) sp
            emit argc sp
            emit .callVal sp
    | _ => do
      if isSpawn then unsup "spawn of a non-identifier"
      compileExpr fuel base
      emit argc sp
      emit .callVal sp
  | .index sp _ b i => do
    compileExpr fuel b; compileExpr fuel i; emit .index sp
  | .member sp _ b name op => do
    compileExpr fuel b
    match op with
    | .dot => emit (.member name) sp
    | .arrow => emit (.memberAnyobj name) sp
    | .tildeArrow => do emit (.memberAnyobj name) sp; emit .unwrap sp
  | .cast sp ty e => do
    compileExpr fuel e; emit (.cast ty true) sp
  | .blockE b => compileBlock fuel b true
  | .ifE sp _ c t el => do
    compileExpr fuel c
    let after ← mangleLabel "if_after"
    let els ← mangleLabel "else"
    emit (.jumpIfFalse (if el.isSome then els else after)) sp
    compileBlock fuel t true
    emit (.jump after) sp
    match el with
    | some eb => do
      emit (.label els) sp
      compileBlock fuel eb true
    | none => pure ()
    emit (.label after) sp
  | .matchE sp _ c arms dflt => do
    compileExpr fuel c
    let after ← mangleLabel "match_after"
    let branches ← compileArmTests fuel sp arms
    let dfl ← mangleLabel "match_default"
    if dflt.isSome then emit (.jump dfl) sp
    else do
      emit .drop sp
      emit (.jump after) sp
    compileArmBodies fuel sp after (arms.zip branches)
    match dflt with
    | some d => do
      emit (.label dfl) sp
      emit .drop sp
      compileExpr fuel d
      emit (.jump after) sp
    | none => pure ()
    emit (.label after) sp
  | .tryE sp _ t catchIdent c => do
    let s ← get
    let curr := (← getMangledFn s.currFn).getD ""
    let exc ← mangleLabel "exception_label"
    let after ← mangleLabel "after_catch_label"
    emit (.setTry curr exc) sp
    modify fun s => { s with tryDepth := s.tryDepth + 1 }
    compileBlock fuel t true
    modify fun s => { s with tryDepth := s.tryDepth - 1 }
    emit .popTry sp
    emit (.jump after) sp
    emit (.label exc) sp
    pushScopeC
    let ev ← mangleVar catchIdent
    emit (.setVar ev) sp
    emit .popTry sp
    compileBlock fuel c false
    emit (.label after) sp
    popScopeC
def compileExprs : Nat → List Expr → C Unit
  | 0, _ => unsup "compiler model fuel"
  | _ + 1, [] => pure ()
  | fuel + 1, e :: es => do compileExpr fuel e; compileExprs fuel es
def compileListElems : Nat → Span → List Expr → C Unit
  | 0, _, _ => unsup "compiler model fuel"
  | _ + 1, _, [] => pure ()
  | fuel + 1, sp, x :: xs => do
    compileExpr fuel x
    emit (.copyPush (.int 2)) sp
    emit (.hostCall "__internal_list_push") sp
    compileListElems fuel sp xs
def compileObjFields : Nat → Span → List (String × Expr) → C Unit
  | 0, _, _ => unsup "compiler model fuel"
  | _ + 1, _, [] => pure ()
  | fuel + 1, sp, (k, fe) :: rest => do
    emit .dup sp
    emit (.member k) sp
    compileExpr fuel fe
    emit .assign sp
    compileObjFields fuel sp rest
/-- The comparison cascade of a `match`: returns the case labels in arm order. -/
def compileArmTests : Nat → Span → List (List Expr × Expr) → C (List String)
  | 0, _, _ => do unsup "compiler model fuel"; pure []
  | _ + 1, _, [] => pure []
  | fuel + 1, sp, (lits, _) :: rest => do
    let name ← mangleLabel "case"
    compileLitTests fuel sp name lits
    let names ← compileArmTests fuel sp rest
    pure (name :: names)
def compileLitTests : Nat → Span → String → List Expr → C Unit
  | 0, _, _, _ => unsup "compiler model fuel"
  | _ + 1, _, _, [] => pure ()
  | fuel + 1, sp, name, l :: ls => do
    compileExpr fuel l
    emit .eqPopOnce sp
    emit .not sp
    emit (.jumpIfFalse name) sp
    compileLitTests fuel sp name ls
def compileArmBodies : Nat → Span → String → List ((List Expr × Expr) × String) → C Unit
  | 0, _, _, _ => unsup "compiler model fuel"
  | _ + 1, _, _, [] => pure ()
  | fuel + 1, sp, after, ((_, act), name) :: rest => do
    emit (.label name) sp
    emit .drop sp
    compileExpr fuel act
    emit (.jump after) sp
    compileArmBodies fuel sp after rest
def compileBlock : Nat → Block → Bool → C Unit
  | 0, _, _ => unsup "compiler model fuel"
  | fuel + 1, .mk _ _ stmts e, scope => do
    if scope then pushScopeC
    compileStmts fuel stmts
    match e with
    | some e => compileExpr fuel e
    | none => pure ()
    if scope then popScopeC
def compileStmts : Nat → List Stmt → C Unit
  | 0, _ => unsup "compiler model fuel"
  | _ + 1, [] => pure ()
  | fuel + 1, s :: ss => do compileStmt fuel s; compileStmts fuel ss
def compileLet : Nat → Span → String → Bool → Ty → Expr → Bool → C String
  | 0, _, _, _, _, _, _ => do unsup "compiler model fuel"; pure ""
  | fuel + 1, sp, name, needsCast, optTy, e, isGlobal => do
    compileExpr fuel e
    if needsCast then emit (.cast optTy false) sp
    let m ← mangleVar name
    emit (if isGlobal then .setGlob m else .setVar m) sp
    bumpVars
    pure m
def compileStmt : Nat → Stmt → C Unit
  | 0, _ => unsup "compiler model fuel"
  | fuel + 1, st =>
  match st with
  | .typedef _ => pure ()
  | .trigger sp cb _ tr args => do
    compileExprs fuel (args.reverse.map (·.2))
    emit (.copyPush (.str tr)) sp
    emit (.copyPush (.str cb)) sp
    emit (.copyPush (.int (2 + args.length))) sp
    emit (.hostCall "@trigger") sp
  | .letS sp name _ needsCast optTy e => do let _ ← compileLet fuel sp name needsCast optTy e false
  | .ret sp e => do
    match e with
    | some e => compileExpr fuel e
    | none => pure ()
    popTries sp (← get).tryDepth
    emit (.jump (← cleanupLabel)) sp
  | .brk sp => do
    let s ← get
    match s.loops with
    | (b, _, td) :: _ => do popTries sp (s.tryDepth - td); emit (.jump b) sp
    | [] => unsup "break outside a loop"
  | .cont sp => do
    let s ← get
    match s.loops with
    | (_, c, td) :: _ => do popTries sp (s.tryDepth - td); emit (.jump c) sp
    | [] => unsup "continue outside a loop"
  | .loopS sp body => do
    let head ← mangleLabel "loop_head"
    let after ← mangleLabel "loop_end"
    emit (.label head) sp
    modify fun s => { s with loops := (after, head, s.tryDepth) :: s.loops }
    compileBlock fuel body true
    emit (.jump head) sp
    emit (.label after) sp
    modify fun s => { s with loops := s.loops.tail }
  | .whileS sp c body => do
    let head ← mangleLabel "loop_head"
    let after ← mangleLabel "loop_end"
    emit (.label head) sp
    compileExpr fuel c
    emit (.jumpIfFalse after) sp
    modify fun s => { s with loops := (after, head, s.tryDepth) :: s.loops }
    compileBlock fuel body true
    emit (.jump head) sp
    emit (.label after) sp
    modify fun s => { s with loops := s.loops.tail }
  | .forS sp name _ iter body => do
    let head ← mangleLabel "loop_head"
    let update ← mangleLabel "loop_update"
    let after ← mangleLabel "loop_end"
    pushScopeC
    compileExpr fuel iter
    emit .clone sp
    emit .intoIter sp
    let it ← mangleVar s!"$iter_{name}"
    emit (.setVar it) sp
    let hv ← mangleVar name
    emit (.label head) sp
    emit (.getVar it) sp
    emit .iterAdvance sp
    emit (.setVar hv) sp
    emit (.jumpIfFalse after) sp
    modify fun s => { s with loops := (after, update, s.tryDepth) :: s.loops }
    compileBlock fuel body false
    emit (.label update) sp
    emit (.jump head) sp
    emit (.label after) sp
    modify fun s => { s with loops := s.loops.tail }
    popScopeC
  | .exprS sp e => do
    compileExpr fuel e
    -- a `spawn` always leaves a value on the stack (`null` until thread handles exist)
    if !e.ty.isNull || e.isSpawn then emit .drop sp
def compileFn : Nat → FnDef → C Unit
  | 0, _ => unsup "compiler model fuel"
  | fuel + 1, fd => do
  let m := mangleFnName (← get).currModule fd.name
  addFn fd.name m
  modify fun s => { s with currFn := fd.name }
  pushScopeC
  let outerTryDepth := (← get).tryDepth
  modify fun s => { s with tryDepth := 0 }
  if fd.hasAnnotation then unsup "function annotation"
  let mpIdx ← currLen
  emit (.addMp 0) fd.sp
  compileParams fd.sp fd.params
  compileSingletonParams fd.sp fd.params
  let cleanup ← mangleLabel "cleanup"
  -- remember the cleanup label for `return` (scoped like a variable, so nested lambdas restore it)
  modify fun s =>
    let key := s!"cleanup:{s.currModule}:{s.currFn}"
    match s.scopes with
    | sc :: rest => { s with scopes := ((key, cleanup) :: sc) :: rest }
    | [] => s
  compileBlock fuel fd.body false
  let s ← get
  let cnt : Int := ((s.fns.lookup (s.currModule, fd.name)).map (·.cntVars)).getD 0
  updCurr fun f => { f with code := f.code.set mpIdx (.addMp cnt, fd.sp) }
  emit (.label cleanup) fd.sp
  emit (.addMp (-cnt)) fd.sp
  emit .ret fd.sp
  modify fun s => { s with tryDepth := outerTryDepth }
  popScopeC
end

/-- `compileProgram`: modules are visited in the order given (the Go code ranges over a map). -/
def compileProgram (fuel : Nat) (prog : Program) (entry : String) : C Unit := do
  -- pass 1: init functions, singletons, globals, imports, function names
  for m in prog do
    modify fun s => { s with currModule := m.name }
    addFn "@init" (mangleFnName m.name "@init")
    modify fun s => { s with currFn := "@init" }
    for (name, ty) in m.singletons do
      match zeroPVal ty with
      | some z => do
        emit (.cloningPush z) default
        emit (.loadSingleton name m.name) default
        let g ← mangleVar name
        emit (.setGlob g) default
        bumpVars
      | none => unsup "singleton without a zero value"
    for g in m.globals do
      match g with
      | .letS sp name _ needsCast optTy e => do let _ ← compileLet fuel sp name needsCast optTy e true
      | _ => unsup "global statement"
    for imp in m.imports do
      if !imp.targetIsHms then
        for (item, kind) in imp.items do
          if kind == 0 then emit (.importI imp.fromModule item) default
    -- every `@init` but the entry module's ends here (the entry's is terminated in pass 2)
    if m.name != entry then emit .ret default
    for f in m.fns do addFn f.name (mangleFnName m.name f.name)
    if m.nImpls > 0 then unsup "impl blocks"
  -- pass 2: function bodies, then the entry module's init epilogue
  for m in prog do
    modify fun s => { s with currModule := m.name }
    for f in m.fns do compileFn fuel f
    if m.name == entry then
      modify fun s => { s with currFn := "@init", currModule := entry }
      let mainSp := (m.fns.find? (·.name == "main")).map (·.sp) |>.getD default
      for other in prog do
        if other.name != entry then emit (.callImm (mangleFnName other.name "@init")) mainSp
      emit .ret mainSp

/-! ## relocateLabels / renameVariables -/

def relocate (code : List (SInstr × Span)) : Option (List (Instr Nat String × Span)) :=
  let rec labels (idx : Nat) : List (SInstr × Span) → List (String × Nat)
    | [] => []
    | (.label l, _) :: rest => (l, idx) :: labels idx rest
    | _ :: rest => labels (idx + 1) rest
  let tbl := labels 0 code
  let look (l : String) : Option Nat := ((tbl.reverse).lookup l)   -- the Go map keeps the last entry
  (code.filter fun (i, _) => match i with | .label _ => false | _ => true).mapM fun (i, sp) =>
    match i with
    | .jump l => do pure (.jump (← look l), sp)
    | .jumpIfFalse l => do pure (.jumpIfFalse (← look l), sp)
    | .setTry f l => do pure (.setTry f (← look l), sp)
    | .label _ => none
    | .nop => pure (.nop, sp) | .copyPush v => pure (.copyPush v, sp) | .cloningPush v => pure (.cloningPush v, sp)
    | .clone => pure (.clone, sp) | .drop => pure (.drop, sp) | .dup => pure (.dup, sp)
    | .spawn f => pure (.spawn f, sp) | .callVal => pure (.callVal, sp) | .callImm f => pure (.callImm f, sp)
    | .ret => pure (.ret, sp) | .loadSingleton a b => pure (.loadSingleton a b, sp) | .hostCall n => pure (.hostCall n, sp)
    | .getVar v => pure (.getVar v, sp) | .getGlob n => pure (.getGlob n, sp) | .setVar v => pure (.setVar v, sp)
    | .setGlob n => pure (.setGlob n, sp) | .assign => pure (.assign, sp) | .cast t a => pure (.cast t a, sp)
    | .neg => pure (.neg, sp) | .some => pure (.some, sp) | .not => pure (.not, sp)
    | .add => pure (.add, sp) | .sub => pure (.sub, sp) | .mul => pure (.mul, sp) | .pow => pure (.pow, sp)
    | .div => pure (.div, sp) | .rem => pure (.rem, sp) | .eq => pure (.eq, sp) | .eqPopOnce => pure (.eqPopOnce, sp)
    | .lt => pure (.lt, sp) | .gt => pure (.gt, sp) | .le => pure (.le, sp) | .ge => pure (.ge, sp)
    | .shl => pure (.shl, sp) | .shr => pure (.shr, sp) | .bitOr => pure (.bitOr, sp) | .bitAnd => pure (.bitAnd, sp)
    | .bitXor => pure (.bitXor, sp) | .index => pure (.index, sp) | .popTry => pure (.popTry, sp)
    | .throw => pure (.throw, sp) | .member n => pure (.member n, sp) | .memberAnyobj n => pure (.memberAnyobj n, sp)
    | .unwrap => pure (.unwrap, sp) | .importI a b => pure (.importI a b, sp) | .intoRange b => pure (.intoRange b, sp)
    | .addMp n => pure (.addMp n, sp) | .iterAdvance => pure (.iterAdvance, sp) | .intoIter => pure (.intoIter, sp)

/-- `renameVariables`: slots in order of first occurrence within the function. -/
def renameVars (code : List (Instr Nat String × Span)) : List (RInstr × Span) :=
  let step (acc : List (String × Nat) × List (RInstr × Span)) (x : Instr Nat String × Span) :=
    let (slots, out) := acc
    let slotOf (v : String) : List (String × Nat) × Nat :=
      match slots.lookup v with
      | some n => (slots, n)
      | none => (slots ++ [(v, slots.length)], slots.length)
    match x with
    | (.getVar v, sp) => let (s', n) := slotOf v; (s', out ++ [(.getVar n, sp)])
    | (.setVar v, sp) => let (s', n) := slotOf v; (s', out ++ [(.setVar n, sp)])
    | (.jump l, sp) => (slots, out ++ [(.jump l, sp)])
    | (.jumpIfFalse l, sp) => (slots, out ++ [(.jumpIfFalse l, sp)])
    | (.setTry f l, sp) => (slots, out ++ [(.setTry f l, sp)])
    | (.label l, sp) => (slots, out ++ [(.label l, sp)])
    | (.nop, sp) => (slots, out ++ [(.nop, sp)]) | (.copyPush v, sp) => (slots, out ++ [(.copyPush v, sp)])
    | (.cloningPush v, sp) => (slots, out ++ [(.cloningPush v, sp)]) | (.clone, sp) => (slots, out ++ [(.clone, sp)])
    | (.drop, sp) => (slots, out ++ [(.drop, sp)]) | (.dup, sp) => (slots, out ++ [(.dup, sp)])
    | (.spawn f, sp) => (slots, out ++ [(.spawn f, sp)]) | (.callVal, sp) => (slots, out ++ [(.callVal, sp)])
    | (.callImm f, sp) => (slots, out ++ [(.callImm f, sp)]) | (.ret, sp) => (slots, out ++ [(.ret, sp)])
    | (.loadSingleton a b, sp) => (slots, out ++ [(.loadSingleton a b, sp)]) | (.hostCall n, sp) => (slots, out ++ [(.hostCall n, sp)])
    | (.getGlob n, sp) => (slots, out ++ [(.getGlob n, sp)]) | (.setGlob n, sp) => (slots, out ++ [(.setGlob n, sp)])
    | (.assign, sp) => (slots, out ++ [(.assign, sp)]) | (.cast t a, sp) => (slots, out ++ [(.cast t a, sp)])
    | (.neg, sp) => (slots, out ++ [(.neg, sp)]) | (.some, sp) => (slots, out ++ [(.some, sp)]) | (.not, sp) => (slots, out ++ [(.not, sp)])
    | (.add, sp) => (slots, out ++ [(.add, sp)]) | (.sub, sp) => (slots, out ++ [(.sub, sp)]) | (.mul, sp) => (slots, out ++ [(.mul, sp)])
    | (.pow, sp) => (slots, out ++ [(.pow, sp)]) | (.div, sp) => (slots, out ++ [(.div, sp)]) | (.rem, sp) => (slots, out ++ [(.rem, sp)])
    | (.eq, sp) => (slots, out ++ [(.eq, sp)]) | (.eqPopOnce, sp) => (slots, out ++ [(.eqPopOnce, sp)])
    | (.lt, sp) => (slots, out ++ [(.lt, sp)]) | (.gt, sp) => (slots, out ++ [(.gt, sp)]) | (.le, sp) => (slots, out ++ [(.le, sp)])
    | (.ge, sp) => (slots, out ++ [(.ge, sp)]) | (.shl, sp) => (slots, out ++ [(.shl, sp)]) | (.shr, sp) => (slots, out ++ [(.shr, sp)])
    | (.bitOr, sp) => (slots, out ++ [(.bitOr, sp)]) | (.bitAnd, sp) => (slots, out ++ [(.bitAnd, sp)]) | (.bitXor, sp) => (slots, out ++ [(.bitXor, sp)])
    | (.index, sp) => (slots, out ++ [(.index, sp)]) | (.popTry, sp) => (slots, out ++ [(.popTry, sp)]) | (.throw, sp) => (slots, out ++ [(.throw, sp)])
    | (.member n, sp) => (slots, out ++ [(.member n, sp)]) | (.memberAnyobj n, sp) => (slots, out ++ [(.memberAnyobj n, sp)])
    | (.unwrap, sp) => (slots, out ++ [(.unwrap, sp)]) | (.importI a b, sp) => (slots, out ++ [(.importI a b, sp)])
    | (.intoRange b, sp) => (slots, out ++ [(.intoRange b, sp)]) | (.addMp n, sp) => (slots, out ++ [(.addMp n, sp)])
    | (.iterAdvance, sp) => (slots, out ++ [(.iterAdvance, sp)]) | (.intoIter, sp) => (slots, out ++ [(.intoIter, sp)])
  (code.foldl step ([], [])).2

structure CompiledFn where
  name : String
  code : List (RInstr × Span)
  deriving Inhabited

structure Compiled where
  fns : List CompiledFn
  /-- source ident ↦ mangled, for the entry module's functions -/
  entryFns : List (String × String)
  deriving Inhabited

def compile (prog : Program) (entry : String := "main") (fuel : Nat := 10000) : Except String Compiled :=
  let (_, s) := (compileProgram fuel prog entry).run {}
  match s.unsupported with
  | some w => .error w
  | none =>
    let fns := s.fns.mapM fun (_, f) => do
      let r ← relocate f.code
      pure ({ name := f.name, code := renameVars r } : CompiledFn)
    match fns with
    | none => .error "unresolved label"
    | some fs => .ok { fns := fs, entryFns := (s.fns.filter (·.1.1 == entry)).map fun (k, f) => (k.2, f.name) }

/-! ## Rendering in the format of the Go `Instruction.String()` methods -/

/-- `Value.Display()` of an instruction operand (`valueObject.go`: fields in key order, one per line, nested
displays re-indented by four blanks; an empty any-object is `{\n    \n}`). -/
partial def PVal.display : PVal → String
  | .null => "null"
  | .int v => toString v
  | .float b => (fmtFloat (floatOfBits b)).getD "<float>"
  | .bool b => if b then "true" else "false"
  | .str s => s
  | .noneOpt => "none"
  | .emptyList => "[]"
  | .emptyAnyObj => "{\n    \n}"
  | .obj fs =>
    let sorted := (fs.toArray.qsort fun a b => a.1 < b.1).toList
    "{\n    " ++ ",\n    ".intercalate (sorted.map fun (k, v) => s!"{k}: {v.display.replace "\n" "\n    "}") ++ "\n}"
  | .range0 => "0..0"
  | .vmFn n => s!"<vm-runtime-function ({n})>"

/-- `ValueInstruction.String()`: the display, a string operand in quotes, line breaks (each with up to four blanks of
indentation) removed. -/
def PVal.render (v : PVal) : String :=
  let strip := fun (s : String) => (s.replace "\n    " "").replace "\n" ""
  match v with
  | .str s => "\"" ++ strip s ++ "\""
  | v => strip v.display

def tyRender : Ty → String
  | _ => "?"

def RInstr.render : RInstr → String
  | .nop => "Nop"
  | .copyPush v => s!"CopyPush({v.render})"
  | .cloningPush v => s!"CloningPush({v.render})"
  | .clone => "Clone" | .drop => "Drop" | .dup => "Duplicate"
  | .spawn f => s!"Spawn({f})"
  | .callVal => "Call_Val"
  | .callImm f => s!"Call_Imm({f})"
  | .ret => "Return"
  | .loadSingleton a b => s!"LoadSingleton({a}, {b})"
  | .hostCall n => s!"HostCall({n})"
  | .jump l => s!"Jump({l})"
  | .jumpIfFalse l => s!"JumpIfFalse({l})"
  | .getVar v => s!"GetVarImm({v})"
  | .getGlob n => s!"GetGlobImm({n})"
  | .setVar v => s!"SetVarImm({v})"
  | .setGlob n => s!"SetGlobImm({n})"
  | .assign => "Assign"
  | .cast _ allow => s!"Cast(perform_cast={allow})"
  | .neg => "Neg" | .some => "Some" | .not => "Not"
  | .add => "Add" | .sub => "Sub" | .mul => "Mul" | .pow => "Pow" | .div => "Div" | .rem => "Rem"
  | .eq => "Eq" | .eqPopOnce => "Eq_PopOnce" | .lt => "Lt" | .gt => "Gt" | .le => "Le" | .ge => "Ge"
  | .shl => "Shl" | .shr => "Shr" | .bitOr => "BitOr" | .bitAnd => "BitAnd" | .bitXor => "BitXor"
  | .index => "Index"
  | .setTry f l => s!"SetTryLabel({f}:{l})"
  | .popTry => "PopTryLabel"
  | .throw => "Throw"
  | .member n => s!"Member({n})"
  | .memberAnyobj n => s!"MemberAnyobj({n})"
  | .unwrap => "Unwrap"
  | .importI a b => s!"Import({a}, {b})"
  | .label l => s!"Label({l})"
  | .intoRange b => s!"Into_Range({b})"
  | .addMp n => s!"AddMempointer({n})"
  | .iterAdvance => "IterAdvance"
  | .intoIter => "IntoIter"

end Hms.Core.Comp
