/-!
# Analysed AST of the core language

Mirrors `homescript/analyzer/ast` as far as the compiler and the interpreter consume it.
Programs reach the model already analysed (the Go harness serialises the analysed AST, see
`harness/ast.go`); every expression carries its source span (line/column of start and end)
and the type the analyzer recorded for it.
-/
namespace Hms.Core

structure Span where
  sl : Nat
  sc : Nat
  el : Nat
  ec : Nat
  deriving Repr, Inhabited, DecidableEq

inductive Ty where
  | unknown | never | any | null | int | float | bool | str | range | anyobj | ident
  | list (t : Ty)
  | opt (t : Ty)
  | obj (fields : List (String × Ty))
  | fn (params : List Ty) (ret : Ty)
  | fnvar (params : List Ty) (rest : Ty) (ret : Ty)
  deriving Repr, Inhabited

inductive PrefixOp where
  | neg | not | some
  deriving Repr, Inhabited, DecidableEq

inductive InfixOp where
  | add | sub | mul | div | rem | pow | shl | shr | bitOr | bitAnd | bitXor
  | or | and | eq | ne | lt | le | gt | ge
  deriving Repr, Inhabited, DecidableEq

inductive MemberOp where
  | dot | arrow | tildeArrow
  deriving Repr, Inhabited, DecidableEq

structure Param where
  name : String
  ty : Ty
  isSingleton : Bool
  singleton : String
  deriving Repr, Inhabited

mutual
inductive Expr where
  | int (sp : Span) (v : Int)
  | float (sp : Span) (bits : Nat)
  | bool (sp : Span) (b : Bool)
  | str (sp : Span) (s : String)
  | null (sp : Span)
  | none (sp : Span)
  | ident (sp : Span) (ty : Ty) (name : String) (isGlobal isFn isSingleton : Bool)
  | range (sp : Span) (a b : Expr) (incl : Bool)
  | list (sp : Span) (ty : Ty) (xs : List Expr)
  | anyobj (sp : Span)
  | obj (sp : Span) (ty : Ty) (fields : List (String × Expr))
  | lambda (sp : Span) (ty : Ty) (params : List Param) (ret : Ty) (body : Block)
  | grouped (sp : Span) (e : Expr)
  | pre (sp : Span) (ty : Ty) (op : PrefixOp) (e : Expr)
  | infix (sp : Span) (ty : Ty) (op : InfixOp) (l r : Expr)
  /-- `op = none` is plain `=`. -/
  | assign (sp : Span) (op : Option InfixOp) (l r : Expr)
  | call (sp : Span) (ty : Ty) (base : Expr) (args : List (String × Expr)) (isSpawn : Bool)
  | index (sp : Span) (ty : Ty) (base idx : Expr)
  | member (sp : Span) (ty : Ty) (base : Expr) (name : String) (op : MemberOp)
  | cast (sp : Span) (ty : Ty) (e : Expr)
  | blockE (b : Block)
  | ifE (sp : Span) (ty : Ty) (c : Expr) (t : Block) (e : Option Block)
  | matchE (sp : Span) (ty : Ty) (c : Expr) (arms : List (List Expr × Expr)) (dflt : Option Expr)
  | tryE (sp : Span) (ty : Ty) (t : Block) (catchIdent : String) (c : Block)
inductive Stmt where
  | typedef (sp : Span)
  | trigger (sp : Span) (callback keyword trigger : String) (args : List (String × Expr))
  | letS (sp : Span) (name : String) (varTy : Ty) (needsCast : Bool) (optTy : Ty) (e : Expr)
  | ret (sp : Span) (e : Option Expr)
  | brk (sp : Span)
  | cont (sp : Span)
  | loopS (sp : Span) (body : Block)
  | whileS (sp : Span) (c : Expr) (body : Block)
  | forS (sp : Span) (name : String) (varTy : Ty) (iter : Expr) (body : Block)
  | exprS (sp : Span) (e : Expr)
inductive Block where
  | mk (sp : Span) (ty : Ty) (stmts : List Stmt) (e : Option Expr)
end

instance : Inhabited Expr := ⟨.null ⟨0, 0, 0, 0⟩⟩
instance : Inhabited Block := ⟨.mk ⟨0, 0, 0, 0⟩ .null [] none⟩
instance : Inhabited Stmt := ⟨.typedef ⟨0, 0, 0, 0⟩⟩

structure FnDef where
  sp : Span
  name : String
  params : List Param
  ret : Ty
  modifier : Nat
  hasAnnotation : Bool
  body : Block
  deriving Inhabited

structure Import where
  fromModule : String
  targetIsHms : Bool
  items : List (String × Nat)
  deriving Inhabited, Repr

structure Module where
  name : String
  imports : List Import
  singletons : List (String × Ty)
  globals : List Stmt
  fns : List FnDef
  nImpls : Nat
  deriving Inhabited

abbrev Program := List Module

/-- The type recorded for an expression (`AnalyzedExpression.Type()`). -/
def Expr.ty : Expr → Ty
  | .int .. => .int
  | .float .. => .float
  | .bool .. => .bool
  | .str .. => .str
  | .null .. => .null
  | .none .. => .opt .any
  | .ident _ ty .. => ty
  | .range .. => .range
  | .list _ ty _ => ty
  | .anyobj .. => .anyobj
  | .obj _ ty _ => ty
  | .lambda _ ty .. => ty
  | .grouped _ e => e.ty
  | .pre _ ty .. => ty
  | .infix _ ty .. => ty
  | .assign .. => .null
  | .call _ ty .. => ty
  | .index _ ty .. => ty
  | .member _ ty .. => ty
  | .cast _ ty _ => ty
  | .blockE (.mk _ ty _ _) => ty
  | .ifE _ ty .. => ty
  | .matchE _ ty .. => ty
  | .tryE _ ty .. => ty

def Ty.isNull : Ty → Bool
  | .null => true
  | _ => false

/-- `spawn f(args)`: the call expression carries the `IsSpawn` flag. -/
def Expr.isSpawn : Expr → Bool
  | .call _ _ _ _ sw => sw
  | _ => false

end Hms.Core
