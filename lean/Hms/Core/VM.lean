import Hms.Core.Sem
import Hms.Core.Compile
/-!
# VM model

Mirrors `runtime.Core` (`runInstruction`, `Run`) and the host-call glue of `runtime/vm.go`
for one core, after the `fix:` commits. Go panics (stack underflow, failed type assertion,
missing member, bad memory index) are the explicit outcome `panic`, so that "never panics"
is a statement about this model and not an omission.

Pointers: the Go VM keeps `*Value` on its stack. Here a stack entry is a value plus, for
entries produced by `Index`/`Member`, the heap place it was read from (`org`), which is what
`Assign` writes through. This is faithful as long as the container is not resized between the
read and the `Assign` (true in the fragment of the partial theorems: pure right-hand sides).
-/
namespace Hms.Core.VM
open Hms.Core Hms.Core.Comp

structure Frame where
  fn : String
  ip : Nat
  deriving Repr, Inhabited, BEq

/-- A catch label with the machine state recorded when the `try` block was entered. -/
structure Handler where
  target : Frame
  callDepth : Nat
  stackHeight : Nat
  mp : Int
  deriving Inhabited

inductive Org where
  | listElem (addr idx : Nat)
  | field (addr : Nat) (name : String)
  deriving Repr, Inhabited

structure SVal where
  v : Val
  org : Option Org := none
  deriving Inhabited

/-- What the host fixes for a run: the limits of a core and the singleton values it provides
(`Executor.LoadSingleton`; a name that is not listed is answered "not found"). -/
structure Limits where
  callStack : Nat := 100
  stack : Nat := 500
  memory : Nat := 10000
  hostSingletons : HostSingletons := []
  deriving Repr, Inhabited

structure VMState where
  stack : List SVal := []            -- top first
  calls : List Frame := []           -- top first
  mem : List (Int × Val) := []       -- absolute index ↦ value
  mp : Int := 0
  handlers : List Handler := []      -- top first
  iters : List (Nat × List Val) := []  -- iterator id ↦ remaining elements
  nextIter : Nat := 0
  globals : List (String × Val) := []
  st : St := {}                      -- heap, output, trigger trace (shared with the spec's builtins)
  polls : Nat := 0
  steps : Nat := 0
  deriving Inhabited

inductive Interrupt where
  | throw (msg : String) (sp : Span)
  | fatal (kind msg : String) (sp : Span)
  | term
  deriving Inhabited

inductive StepRes where
  | next (s : VMState)
  | intr (i : Interrupt) (s : VMState)
  | panic (why : String) (s : VMState)
  deriving Inhabited

abbrev Code := List CompiledFn

def findCode (code : Code) (fn : String) : Option (List (RInstr × Span)) :=
  (code.find? (·.name == fn)).map (·.code)

def pvalToVal (heapSt : St) : PVal → Val × St
  | .null => (.null, heapSt)
  | .int v => (.int (I64.ofInt v), heapSt)
  | .float b => (.float (floatOfBits b), heapSt)
  | .bool b => (.bool b, heapSt)
  | .str s => (.str s, heapSt)
  | .noneOpt => (.opt none, heapSt)
  | .emptyList => (.ref heapSt.heap.size, { heapSt with heap := heapSt.heap.push (.list []) })
  | .emptyAnyObj => (.ref heapSt.heap.size, { heapSt with heap := heapSt.heap.push (.anyobj []) })
  | .obj fs =>
    -- fields of an object template are scalars/empty containers; nested templates get their own cells
    let (vals, st') := fs.foldl (fun (acc : List (String × Val) × St) (k, pv) =>
      let (v, st'') := pvalToValFlat acc.2 pv
      (acc.1 ++ [(k, v)], st'')) ([], heapSt)
    (.ref st'.heap.size, { st' with heap := st'.heap.push (.obj vals) })
  | .range0 => (.range 0 0 false, heapSt)
  | .vmFn n => (.fn "" n, heapSt)
where
  pvalToValFlat (st : St) : PVal → Val × St
    | .null => (.null, st)
    | .int v => (.int (I64.ofInt v), st)
    | .float b => (.float (floatOfBits b), st)
    | .bool b => (.bool b, st)
    | .str s => (.str s, st)
    | .noneOpt => (.opt none, st)
    | .emptyList => (.ref st.heap.size, { st with heap := st.heap.push (.list []) })
    | .emptyAnyObj => (.ref st.heap.size, { st with heap := st.heap.push (.anyobj []) })
    | .range0 => (.range 0 0 false, st)
    | .vmFn n => (.fn "" n, st)
    | .obj _ => (.null, st)   -- nested object templates are outside the model (flagged by the compiler model)

mutual
/-- `Value.Clone()`: a deep copy of lists/objects. -/
def cloneVal : Nat → St → Val → Option (Val × St)
  | 0, _, _ => none
  | fuel + 1, st, v =>
    match v with
    | .ref a =>
      match st.heap[a]? with
      | some (.list xs) => do
        let (ys, st') ← cloneList fuel st xs
        pure (.ref st'.heap.size, { st' with heap := st'.heap.push (.list ys) })
      | some (.obj fs) => do
        let (gs, st') ← cloneFields fuel st fs
        pure (.ref st'.heap.size, { st' with heap := st'.heap.push (.obj gs) })
      | some (.anyobj fs) => do
        let (gs, st') ← cloneFields fuel st fs
        pure (.ref st'.heap.size, { st' with heap := st'.heap.push (.anyobj gs) })
      | none => none
    | .opt (some x) => do
      let (y, st') ← cloneVal fuel st x
      pure (.opt (some y), st')
    | v => some (v, st)
def cloneList : Nat → St → List Val → Option (List Val × St)
  | 0, _, _ => none
  | _ + 1, st, [] => some ([], st)
  | fuel + 1, st, x :: xs => do
    let (y, st') ← cloneVal fuel st x
    let (ys, st'') ← cloneList fuel st' xs
    pure (y :: ys, st'')
def cloneFields : Nat → St → List (String × Val) → Option (List (String × Val) × St)
  | 0, _, _ => none
  | _ + 1, st, [] => some ([], st)
  | fuel + 1, st, (k, x) :: xs => do
    let (y, st') ← cloneVal fuel st x
    let (ys, st'') ← cloneFields fuel st' xs
    pure ((k, y) :: ys, st'')
end

/-- The snapshot a `for` loop iterates over (`Opcode_Clone` in `runtime/execute.go`): a list gets a fresh cell holding the
same element values (one level deep), anything else is cloned (the fuel bounds elements + nesting of the cloned value, a
model limit far above what programs build). -/
def snapshotVal (st : St) (v : Val) : Option (Val × St) :=
  match v with
  | .ref a =>
    match st.heap[a]? with
    | some (.list xs) => some (.ref st.heap.size, { st with heap := st.heap.push (.list xs) })
    | _ => cloneVal 1000000 st v
  | v => cloneVal 1000000 st v

def memGet (s : VMState) (abs : Int) : Option Val := s.mem.lookup abs
def memSet (s : VMState) (abs : Int) (v : Val) : VMState :=
  { s with mem := (abs, v) :: s.mem.filter (·.1 != abs) }

def pop1 (s : VMState) : Option (SVal × VMState) :=
  match s.stack with
  | x :: rest => some (x, { s with stack := rest })
  | [] => none

def push1 (s : VMState) (v : Val) (org : Option Org := none) : VMState :=
  { s with stack := ⟨v, org⟩ :: s.stack }

def advance (s : VMState) : VMState :=
  match s.calls with
  | f :: rest => { s with calls := { f with ip := f.ip + 1 } :: rest }
  | [] => s

/-- Run a computation of the specification's builtin layer on the VM's heap/output state. -/
def runM {α} (s : VMState) (m : M α) : Except Ctl α × VMState :=
  let (r, st') := m s.st
  (r, { s with st := st' })

def ctlToRes (c : Ctl) (s : VMState) : StepRes :=
  match c with
  | .throw msg sp => .intr (.throw msg sp) s
  | .fatal k msg sp => .intr (.fatal k msg sp) s
  | .unsupported w => .panic ("unsupported: " ++ w) s
  | .timeout => .panic "builtin timeout" s
  | .brk | .cont | .ret _ => .panic "control value out of a builtin" s

def popN : Nat → VMState → Option (List Val × VMState)
  | 0, s => some ([], s)
  | n + 1, s => do
    let (x, s') ← pop1 s
    let (xs, s'') ← popN n s'
    pure (x.v :: xs, s'')

def binArith (op : InfixOp) (s : VMState) (sp : Span) : StepRes :=
  match s.stack with
  | r :: l :: rest =>
    let s' := { s with stack := rest }
    -- the Go code dispatches on the left operand's kind and asserts the right one
    let okKinds : Bool := match op, l.v, r.v with
      | .eq, _, _ => true
      | _, .int _, .int _ => true
      | .pow, .float _, .float _ => true
      | .pow, _, _ => false
      | .add, .float _, .float _ | .sub, .float _, .float _ | .mul, .float _, .float _
      | .div, .float _, .float _ | .lt, .float _, .float _ | .gt, .float _, .float _
      | .le, .float _, .float _ | .ge, .float _, .float _ => true
      | .add, .str _, .str _ => true
      | .bitOr, .bool _, .bool _ | .bitAnd, .bool _, .bool _ | .bitXor, .bool _, .bool _ => true
      | _, _, _ => false
    if !okKinds then .panic "operand kinds" s
    else
      match runM s' (binOp op l.v r.v sp) with
      | (.ok v, s'') => .next (advance (push1 s'' v))
      | (.error c, s'') => ctlToRes c s''
  | _ => .panic "stack underflow" s

def setField (fs : List (String × Val)) (name : String) (v : Val) : List (String × Val) :=
  fs.map fun kv => if kv.1 == name then (kv.1, v) else kv

/-- One instruction (`Core.runInstruction`); `sp` is the instruction's source span. -/
def step (code : Code) (lim : Limits) (s : VMState) (i : RInstr) (sp : Span) : StepRes :=
  match i with
  | .nop => .next (advance s)
  | .label _ => .panic "label at run time" s
  | .addMp n =>
    let s' := { s with mp := s.mp + n }
    if s'.mp ≥ (lim.memory : Int) then
      .intr (.fatal "OutOfMemoryError" s!"Memory capacity of {s'.mp} variables was exceeded (mp={lim.memory})" sp) s'
    else .next (advance s')
  | .copyPush pv | .cloningPush pv =>
    let (v, st') := pvalToVal s.st pv
    .next (advance (push1 { s with st := st' } v))
  | .clone =>
    match pop1 s with
    | some (x, s') =>
      -- `for` iterates over a SNAPSHOT of its iterable (the only place the compiler emits this instruction): a list is
      -- copied one level deep — new cells, the elements themselves shared (lists and objects are references) —, every
      -- other iterable (range, string) is cloned as a whole
      match snapshotVal s'.st x.v with
      | some (v, st') => .next (advance (push1 { s' with st := st' } v))
      | none => .panic "clone" s
    | none => .panic "stack underflow" s
  | .drop =>
    match pop1 s with
    | some (_, s') => .next (advance s')
    | none => .panic "stack underflow" s
  | .dup =>
    match s.stack with
    | x :: _ => .next (advance { s with stack := x :: s.stack })
    | [] => .panic "stack underflow" s
  | .spawn _ => .panic "spawn is outside the single-core model" s
  | .callImm f =>
    let s' := advance s
    .next { s' with calls := ⟨f, 0⟩ :: s'.calls }
  | .callVal =>
    match s.stack with
    | ⟨.int argc, _⟩ :: ⟨f, _⟩ :: rest =>
      let s1 := { s with stack := rest }
      match f with
      | .fn _ name =>
        let s2 := advance s1
        .next { s2 with calls := ⟨name, 0⟩ :: s2.calls }
      | .builtin name =>
        match popN argc.toNat s1 with
        | some (args, s2) =>
          match runM s2 (callBuiltin name args sp) with
          | (.ok .null, s3) => .next (advance s3)
          | (.ok v, s3) => .next (advance (push1 s3 v))
          | (.error c, s3) => ctlToRes c s3
        | none => .panic "stack underflow" s
      | .bound recv name =>
        match popN argc.toNat s1 with
        | some (args, s2) =>
          match runM s2 (callMember recv name args sp) with
          | (.ok .null, s3) => .next (advance s3)
          | (.ok v, s3) => .next (advance (push1 s3 v))
          | (.error c, s3) => ctlToRes c s3
        | none => .panic "stack underflow" s
      | _ => .panic "call of a non-function" s
    | _ => .panic "call operands" s
  | .ret =>
    .next { s with calls := s.calls.tail }
  | .loadSingleton name _ =>
    -- `found`: the default the compiler pushed is popped and the host's value is used instead
    match lim.hostSingletons.lookup name with
    | none => .next (advance s)
    | some hv =>
      match pop1 s with
      | some (_, s') =>
        match runM s' (hostToVal hv) with
        | (.ok v, s'') => .next (advance (push1 s'' v))
        | (.error c, s'') => ctlToRes c s''
      | none => .panic "stack underflow" s
  | .hostCall name =>
    match s.stack with
    | ⟨.int argc, _⟩ :: rest =>
      match popN argc.toNat { s with stack := rest } with
      | some (args, s1) =>
        if name == "__internal_list_push" then
          match args with
          | [elem, .ref a] =>
            match s1.st.heap[a]? with
            | some (.list xs) =>
              let st' := { s1.st with heap := s1.st.heap.setIfInBounds a (.list (xs ++ [elem])) }
              .next (advance (push1 { s1 with st := st' } (.ref a)))
            | _ => .panic "list push target" s
          | _ => .panic "list push operands" s
        else if name == "@trigger" then
          match args with
          | .str cb :: .str tr :: rest' =>
            match runM s1 (rest'.mapM displayM) with
            | (.ok ds, s2) =>
              let joined := ",".intercalate ds
              let st' := { s2.st with trig := s2.st.trig ++ s!"{cb}<-{tr}({joined});" }
              -- the host call has no result: nothing is pushed
              .next (advance { s2 with st := st' })
            | (.error c, s2) => ctlToRes c s2
          | _ => .panic "trigger operands" s
        else .panic "invalid hostcall" s
      | none => .panic "stack underflow" s
    | _ => .panic "hostcall operands" s
  | .jump l =>
    match s.calls with
    | f :: rest => .next { s with calls := { f with ip := l } :: rest }
    | [] => .panic "no frame" s
  | .jumpIfFalse l =>
    match pop1 s with
    | some (⟨.bool b, _⟩, s') =>
      if b then .next (advance s')
      else match s'.calls with
        | f :: rest => .next { s' with calls := { f with ip := l } :: rest }
        | [] => .panic "no frame" s
    | some _ => .panic "condition kind" s
    | none => .panic "stack underflow" s
  | .getVar k =>
    let abs := s.mp - (k : Int)
    if abs < 0 ∨ abs ≥ (lim.memory : Int) then .panic "memory index" s
    else match memGet s abs with
      | some v => .next (advance (push1 s v))
      | none => .panic "read of an unset memory cell" s
  | .setVar k =>
    match pop1 s with
    | some (x, s') =>
      let abs := s'.mp - (k : Int)
      if abs < 0 ∨ abs ≥ (lim.memory : Int) then .panic "memory index" s
      else .next (advance (memSet s' abs x.v))
    | none => .panic "stack underflow" s
  | .getGlob name =>
    match s.globals.lookup name with
    | some v => .next (advance (push1 s v))
    | none =>
      if builtinNames.contains name then .next (advance (push1 s (.builtin name)))
      else .panic "unknown global" s
  | .setGlob name =>
    match pop1 s with
    | some (x, s') => .next (advance { s' with globals := (name, x.v) :: s'.globals.filter (·.1 != name) })
    | none => .panic "stack underflow" s
  | .assign =>
    match s.stack with
    | src :: dest :: rest =>
      let s' : VMState := { s with stack := rest }
      match dest.org with
      | some (.listElem a idx) =>
        match s'.st.heap[a]? with
        | some (.list xs) =>
          .next (advance { s' with st := { s'.st with heap := s'.st.heap.setIfInBounds a (.list (xs.set idx src.v)) } })
        | _ => .panic "assign target" s
      | some (.field a name) =>
        match s'.st.heap[a]? with
        | some (.obj fs) =>
          let cell := Cell.obj (setField fs name src.v)
          .next (advance { s' with st := { s'.st with heap := s'.st.heap.setIfInBounds a cell } })
        | some (.anyobj fs) =>
          let cell := Cell.anyobj (setField fs name src.v)
          .next (advance { s' with st := { s'.st with heap := s'.st.heap.setIfInBounds a cell } })
        | _ => .panic "assign target" s
      | none => .next (advance s')    -- writes through a pointer nobody else holds
    | _ => .panic "stack underflow" s
  | .cast ty allow =>
    -- `value.DeepCast`; a failed cast is a catchable exception at the instruction's span
    match pop1 s with
    | some (x, s') =>
      match runM s' (castVal castFuel x.v ty allow "" sp) with
      | (.ok v, s'') => .next (advance (push1 s'' v))
      | (.error c, s'') => ctlToRes c s''
    | none => .panic "stack underflow" s
  | .neg =>
    match pop1 s with
    | some (⟨.int x, _⟩, s') => .next (advance (push1 s' (.int (-x))))
    | some (⟨.float x, _⟩, s') => .next (advance (push1 s' (.float (-x))))
    | some _ => .panic "operand kind" s
    | none => .panic "stack underflow" s
  | .some =>
    match pop1 s with
    | some (x, s') => .next (advance (push1 s' (.opt (some x.v))))
    | none => .panic "stack underflow" s
  | .not =>
    match pop1 s with
    | some (⟨.int x, _⟩, s') => .next (advance (push1 s' (.int (~~~x))))
    | some (⟨.bool b, _⟩, s') => .next (advance (push1 s' (.bool (!b))))
    | some _ => .panic "operand kind" s
    | none => .panic "stack underflow" s
  | .add => binArith .add s sp | .sub => binArith .sub s sp | .mul => binArith .mul s sp
  | .pow => binArith .pow s sp | .div => binArith .div s sp | .rem => binArith .rem s sp
  | .eq => binArith .eq s sp
  | .lt => binArith .lt s sp | .gt => binArith .gt s sp | .le => binArith .le s sp | .ge => binArith .ge s sp
  | .shl => binArith .shl s sp | .shr => binArith .shr s sp
  | .bitOr => binArith .bitOr s sp | .bitAnd => binArith .bitAnd s sp | .bitXor => binArith .bitXor s sp
  | .eqPopOnce =>
    match s.stack with
    | l :: r :: rest =>
      match runM { s with stack := r :: rest } (eqM l.v r.v) with
      | (.ok b, s') => .next (advance (push1 s' (.bool b)))
      | (.error c, s') => ctlToRes c s'
    | _ => .panic "stack underflow" s
  | .index =>
    match s.stack with
    | idx :: base :: rest =>
      let s' := { s with stack := rest }
      match runM s' (indexVal base.v idx.v sp) with
      | (.ok v, s'') =>
        let org : Option Org := match base.v, idx.v with
          | .ref a, .int k =>
            match s''.st.heap[a]? with
            | some (.list xs) => (wrapIndex k xs.length).map (Org.listElem a)
            | _ => none
          | .ref a, .str k => some (.field a k)
          | _, _ => none
        .next (advance (push1 s'' v org))
      | (.error c, s'') => ctlToRes c s''
    | _ => .panic "stack underflow" s
  | .setTry fn l =>
    .next (advance { s with handlers := ⟨⟨fn, l⟩, s.calls.length, s.stack.length, s.mp⟩ :: s.handlers })
  | .popTry =>
    match s.handlers with
    | _ :: rest => .next (advance { s with handlers := rest })
    | [] => .panic "handler stack underflow" s
  | .throw =>
    match pop1 s with
    | some (x, s') =>
      match runM s' (displayM x.v) with
      | (.ok d, s'') => .intr (.throw d sp) (advance s'')
      | (.error c, s'') => ctlToRes c s''
    | none => .panic "stack underflow" s
  | .member name =>
    match pop1 s with
    | some (x, s') =>
      match runM s' (memberVal x.v name .dot sp) with
      | (.ok v, s'') =>
        let org : Option Org := match x.v with
          | .ref a =>
            match s''.st.heap[a]? with
            | some (.obj fs) => if (fs.lookup name).isSome then some (.field a name) else none
            | _ => none
          | _ => none
        .next (advance (push1 s'' v org))
      | (.error c, s'') => ctlToRes c s''
    | none => .panic "stack underflow" s
  | .memberAnyobj name =>
    -- exactly one option is pushed (fix V42; before it a missing key pushed two values)
    match pop1 s with
    | some (x, s') =>
      match runM s' (memberVal x.v name .arrow sp) with
      | (.ok v, s'') => .next (advance (push1 s'' v))
      | (.error c, s'') => ctlToRes c s''
    | none => .panic "stack underflow" s
  | .unwrap =>
    match pop1 s with
    | some (⟨.opt (some v), _⟩, s') => .next (advance (push1 s' v))
    | some (⟨.opt none, _⟩, s') => .intr (.throw "Called 'unwrap' on a 'null' option value" sp) s'
    | some _ => .panic "operand kind" s
    | none => .panic "stack underflow" s
  | .importI _ _ => .panic "unsupported: host import" s
  | .intoRange incl =>
    match s.stack with
    | ⟨.int e, _⟩ :: ⟨.int b, _⟩ :: rest => .next (advance (push1 { s with stack := rest } (.range b e incl)))
    | _ :: _ :: _ => .panic "range bounds kind" s
    | _ => .panic "stack underflow" s
  | .intoIter =>
    match pop1 s with
    | some (x, s') =>
      match runM s' (iterElems x.v) with
      | (.ok elems, s'') =>
        let id := s''.nextIter
        .next (advance (push1 { s'' with iters := (id, elems) :: s''.iters, nextIter := id + 1 } (.closure (1000000 + id))))
      | (.error c, s'') => ctlToRes c s''
    | none => .panic "stack underflow" s
  | .iterAdvance =>
    match pop1 s with
    | some (⟨.closure cid, _⟩, s') =>
      let id := cid - 1000000
      match s'.iters.lookup id with
      | some (x :: xs) =>
        let s'' := { s' with iters := (id, xs) :: s'.iters.filter (·.1 != id) }
        .next (advance (push1 (push1 s'' (.bool true)) x))
      | some [] =>
        -- the Go iterator returns (nil, false): a nil value is pushed above `false`
        .next (advance (push1 (push1 s' (.bool false)) .null))
      | none => .panic "iterator" s
    | some _ => .panic "iterator kind" s
    | none => .panic "stack underflow" s

inductive Outcome where
  | ok (s : VMState)
  | fatal (kind msg : String) (sp : Span) (s : VMState)
  | term (s : VMState)
  | panic (why : String) (s : VMState)
  | outOfFuel (s : VMState)
  deriving Inhabited

def spanAt (code : Code) (f : Frame) : Span :=
  match findCode code f.fn with
  | some c =>
    match c[f.ip]? with
    | some (_, sp) => sp
    | none => (c.getLast?.map (·.2)).getD default
  | none => default

/-- Up to `n` instructions without a poll (the inner `for c < quantum` loop of `Core.Run`).
Returns `.inl` when control goes back to the poll, `.inr` when the run ended. -/
def runQuantum (code : Code) (lim : Limits) : Nat → VMState → VMState ⊕ Outcome
  | 0, s => .inl s
  | n + 1, s =>
    match s.calls with
    | [] => .inr (.ok s)
    | f :: rest =>
      match findCode code f.fn with
      | none => .inr (.panic "non-existent routine" s)
      | some c =>
        if c.isEmpty then .inr (.panic "non-existent routine" s)
        else
          match c[f.ip]? with
          | none => .inl { s with calls := rest }      -- fell off the end: pop the frame, back to the poll
          | some (i, sp) =>
            match step code lim { s with steps := s.steps + 1 } i sp with
            | .next s' => runQuantum code lim n s'
            | .panic why s' => .inr (.panic why s')
            | .intr (.throw msg tsp) s' =>
              match s'.handlers with
              | [] => .inr (.fatal "UncaughtThrow" msg tsp s')
              | h :: _ =>
                -- unwind to the activation that installed the handler: drop the frames above it, the
                -- operands pushed since, and restore its memory pointer
                let calls := s'.calls.drop (s'.calls.length - h.callDepth)
                match calls with
                | [] => .inr (.panic "no frame for the handler" s')
                | _ :: below =>
                  let stack := s'.stack.drop (s'.stack.length - h.stackHeight)
                  let (obj, st') := (alloc (.obj [("message", .str msg), ("line", .int (I64.ofInt tsp.sl)),
                      ("column", .int (I64.ofInt tsp.sc)), ("filename", .str "main")])) s'.st
                  match obj with
                  | .ok o =>
                    runQuantum code lim n (push1 { s' with calls := h.target :: below, stack := stack, mp := h.mp, st := st' } o)
                  | .error _ => .inr (.panic "alloc" s')
            | .intr (.fatal k msg fsp) s' => .inr (.fatal k msg fsp s')
            | .intr .term s' => .inr (.term s')

/-- `Core.Run`: poll (cancellation, limits), then a quantum of instructions. `cancelAt`: the
poll index (1-based) from which on the context is cancelled. -/
def run (code : Code) (lim : Limits) (quantum : Nat) (cancelAt : Option Nat) : Nat → VMState → Outcome
  | 0, s => .outOfFuel s
  | fuel + 1, s =>
    match s.calls with
    | [] => .ok s
    | top :: _ =>
      let s := { s with polls := s.polls + 1 }
      if (cancelAt.map (fun k => decide (s.polls ≥ k))).getD false then .term s
      else if s.stack.length > lim.stack then
        match s.calls with
        | _ :: below :: _ =>
          .fatal "StackOverFlow" s!"Runtime stack limit of {lim.stack} was exceeded by {s.stack.length - lim.stack}" (spanAt code below) s
        | _ => .fatal "StackOverFlow" s!"Runtime stack limit of {lim.stack} was exceeded by {s.stack.length - lim.stack}" (spanAt code top) s
      else if s.calls.length > lim.callStack then
        .fatal "StackOverFlow" s!"Runtime callstack limit of {lim.callStack} was exceeded by {s.calls.length - lim.callStack}" (spanAt code top) s
      else
        match runQuantum code lim quantum s with
        | .inl s' => run code lim quantum cancelAt fuel s'
        | .inr o => o

/-- `NewVM` (runs `@init`) followed by one invocation of `entry` with no arguments. -/
def runMain (c : Compiled) (lim : Limits := {}) (quantum : Nat := 50) (fuel : Nat := 100000)
    (entry : String := "main") : Outcome :=
  let initS : VMState := { calls := [⟨"@main.@init", 0⟩] }
  match run c.fns lim quantum none fuel initS with
  | .ok s1 =>
    match c.entryFns.lookup entry with
    | some f =>
      -- a fresh core: new stack, frames, memory; globals and heap persist
      let s2 : VMState := { globals := s1.globals, st := s1.st, calls := [⟨f, 0⟩], polls := 0, steps := 0 }
      run c.fns lim quantum none fuel s2
    | none => .panic "no entry function" s1
  | o => o

end Hms.Core.VM
