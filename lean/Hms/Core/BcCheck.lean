import Hms.Core.VM
/-!
# Bytecode checker (operand-stack heights, handler depth, frame slots)

A verifier in the style of JVM bytecode verification, restricted to *heights*: for every
function it records, per instruction index, the operand-stack height relative to the base of
the activation, the memory-pointer offset relative to function entry, and the exception
handlers the activation has installed. `verify code A` checks an annotation `A` locally
(one instruction at a time); `infer` computes a candidate annotation by forward propagation;
`hcheck code = verify code (infer code)`. Only `verify` is trusted by the soundness theorems
(`HmsProofs.C02`); `infer` may use heuristics.

Conventions
* A function with `params` parameters is entered with height `params` (the arguments are on the
  stack of the callee's activation) and left by `ret` with height `results`, offset `0`, no handler.
* `callVal`, `hostCall` and `spawn` take their argument count from the operand stack; the checker
  accepts them only directly after `copyPush (int n)` and only where no jump lands between
  the two, so the count is the static `n`.
* `callVal` is dynamic: the number of results (0 for a `null` result, else 1) is part of the
  annotation (`FnAnn.dyn`), chosen by `infer` from the name of the callee where the code shows it
  (else by trying 1, then 0). The soundness theorems assume that the called value conforms to the
  site (`HmsProofs.Lemmas.VMCheck.DynOK`).
* `setTry` records (catch label, height, offset); the catch label is entered with height + 1 (the
  error object), that offset and the handler still installed; no instruction inside the protected
  region takes the stack below the recorded height; `ret` needs an empty handler list.
* `throw` has no successor; unreachable instructions carry no annotation and are not checked.

Driver use: `hcheck (compile prog).fns`; `hcheckReport` names the first function / instruction
index that is not accepted.
-/
namespace Hms.Core.BcCheck
open Hms.Core Hms.Core.Comp Hms.Core.VM

/-- What is recorded for one instruction index. -/
structure Ann where
  /-- operand-stack height relative to the base of the activation -/
  h : Nat
  /-- memory pointer relative to its value at function entry -/
  off : Nat
  /-- handlers installed by this activation, innermost first:
  (catch label, height at `setTry`, memory-pointer offset at `setTry`) -/
  hs : List (Nat × Nat × Nat)
  deriving DecidableEq, Repr, Inhabited

structure FnAnn where
  params : Nat
  results : Nat
  /-- per instruction index; `none` = unreachable -/
  pts : List (Option Ann)
  /-- `callVal` site ↦ number of results -/
  dyn : List (Nat × Nat) := []
  deriving Repr, Inhabited

abbrev FnCode := List (RInstr × Span)

/-- (pops, pushes) of the instructions that only touch the operand stack and fall through.
`dup` is "pop 1, push 2"; `eqPopOnce` "pop 2, push 2" (it needs two operands and keeps one). -/
def simpleEff : RInstr → Option (Nat × Nat)
  | .nop => some (0, 0)
  | .copyPush _ | .cloningPush _ => some (0, 1)
  | .clone => some (1, 1)
  | .drop => some (1, 0)
  | .dup => some (1, 2)
  | .loadSingleton _ _ => some (1, 1)     -- replaces the default below it when the host provides a value
  | .getGlob _ => some (0, 1)
  | .setGlob _ => some (1, 0)
  | .assign => some (2, 0)
  | .cast _ _ => some (1, 1)
  | .neg | .some | .not => some (1, 1)
  | .add | .sub | .mul | .pow | .div | .rem | .eq | .lt | .gt | .le | .ge | .shl | .shr
  | .bitOr | .bitAnd | .bitXor => some (2, 1)
  | .eqPopOnce => some (2, 2)
  | .index => some (2, 1)
  | .member _ | .memberAnyobj _ | .unwrap => some (1, 1)
  | .importI _ _ => some (0, 0)
  | .intoRange _ => some (2, 1)
  | .intoIter => some (1, 1)
  | .iterAdvance => some (1, 2)
  | _ => none

/-- The static argument count of a `callVal`/`hostCall`/`spawn` at `ip`: the constant pushed by
the instruction before it. -/
def argcAt (c : FnCode) (ip : Nat) : Option Nat :=
  match ip with
  | 0 => none
  | k + 1 =>
    match c[k]? with
    | some (.copyPush (.int n), _) => if 0 ≤ n ∧ n < 2147483648 then some n.toNat else none
    | _ => none

/-- Is `ip` the target of a jump or the catch label of a `setTry`? -/
def isTarget (c : FnCode) (ip : Nat) : Bool :=
  c.any fun x =>
    match x.1 with
    | .jump l | .jumpIfFalse l | .setTry _ l => l == ip
    | _ => false

/-- Results of a host call: the list-literal helper returns the list, `@trigger` returns nothing. -/
def hostResults (name : String) : Nat := if name == "__internal_list_push" then 1 else 0

/-- Admissibility of instruction `i` at index `ip` under annotation `a`: `none` if the
instruction is not acceptable there, else the number of operands it removes (also on its
exceptional exit) and the annotations its successors must carry.
`sig f`: (params, results) of function `f`; `name`, `results`: of the function being checked;
`r`: recorded result count if `i` is a `callVal`. -/
def succs (sig : String → Option (Nat × Nat)) (name : String) (c : FnCode) (results r : Nat)
    (ip : Nat) (a : Ann) (i : RInstr) : Option (Nat × List (Nat × Ann)) :=
  match i with
  | .label _ => none
  | .jump l => some (0, [(l, a)])
  | .jumpIfFalse l =>
    if 1 ≤ a.h then some (1, [(ip + 1, { a with h := a.h - 1 }), (l, { a with h := a.h - 1 })]) else none
  | .getVar k => if k < a.off then some (0, [(ip + 1, { a with h := a.h + 1 })]) else none
  | .setVar k => if k < a.off ∧ 1 ≤ a.h then some (1, [(ip + 1, { a with h := a.h - 1 })]) else none
  | .callImm f =>
    match sig f with
    | some (p, q) => if p ≤ a.h then some (p, [(ip + 1, { a with h := a.h - p + q })]) else none
    | none => none
  | .callVal =>
    match argcAt c ip with
    | some n =>
      if 2 + n ≤ a.h ∧ isTarget c ip = false then some (2 + n, [(ip + 1, { a with h := a.h - (2 + n) + r })])
      else none
    | none => none
  | .hostCall name =>
    match argcAt c ip with
    | some n =>
      if 1 + n ≤ a.h ∧ isTarget c ip = false then
        some (1 + n, [(ip + 1, { a with h := a.h - (1 + n) + hostResults name })])
      else none
    | none => none
  | .spawn _ =>
    match argcAt c ip with
    | some n =>
      if 1 + n ≤ a.h ∧ isTarget c ip = false then some (1 + n, [(ip + 1, { a with h := a.h - (1 + n) + 1 })])
      else none
    | none => none
  | .ret => if a.h = results ∧ a.off = 0 ∧ a.hs = [] then some (0, []) else none
  | .setTry fn l =>
    if fn = name then
      some (0, [(ip + 1, { a with hs := (l, a.h, a.off) :: a.hs }),
        (l, { a with h := a.h + 1, hs := (l, a.h, a.off) :: a.hs })])
    else none
  | .popTry =>
    match a.hs with
    | _ :: hs' => some (0, [(ip + 1, { a with hs := hs' })])
    | [] => none
  | .throw => if 1 ≤ a.h then some (1, []) else none
  | .addMp n =>
    if 0 ≤ (a.off : Int) + n then some (0, [(ip + 1, { a with off := ((a.off : Int) + n).toNat })]) else none
  | i =>
    match simpleEff i with
    | some (p, q) => if p ≤ a.h then some (p, [(ip + 1, { a with h := a.h - p + q })]) else none
    | none => none

/-- The innermost handler of the activation is entered with the height recorded at its `setTry`
plus one (the error object), the offset recorded there (the VM unwinds the operand stack and
restores the memory pointer) and the same handler list (the VM does not pop the handler; the
catch block does); and the instruction never takes the stack below the recorded height. -/
def handlerOK (pts : List (Option Ann)) (a : Ann) (pops : Nat) : Bool :=
  match a.hs with
  | [] => true
  | (l, H, o) :: _ =>
    decide (pts[l]? = some (some { h := H + 1, off := o, hs := a.hs })) && decide (H + pops ≤ a.h)

/-- Instructions that take their argument count from the operand stack. -/
def usesArgc : RInstr → Bool
  | .callVal | .hostCall _ | .spawn _ => true
  | _ => false

/-- The catch label of the innermost handler is not itself a dynamic-count instruction (the VM
enters it with the error object on top of the stack, not with a count). -/
def handlerEntryOK (c : FnCode) (a : Ann) : Bool :=
  match a.hs with
  | [] => true
  | (l, _) :: _ =>
    match c[l]? with
    | some (i, _) => !usesArgc i
    | none => false

def checkAt (sig : String → Option (Nat × Nat)) (name : String) (c : FnCode) (fa : FnAnn) (ip : Nat) : Bool :=
  match fa.pts[ip]? with
  | some (some a) =>
    match c[ip]? with
    | some (i, _) =>
      match succs sig name c fa.results ((fa.dyn.lookup ip).getD 0) ip a i with
      | some (pops, l) =>
        l.all (fun x => decide (fa.pts[x.1]? = some (some x.2))) && handlerOK fa.pts a pops
          && handlerEntryOK c a
      | none => false
    | none => false
  | _ => true

def checkFn (sig : String → Option (Nat × Nat)) (cf : CompiledFn) (fa : FnAnn) : Bool :=
  decide (fa.pts.length = cf.code.length)
    && decide (fa.pts[0]? = some (some { h := fa.params, off := 0, hs := [] }))
    && (List.range cf.code.length).all (checkAt sig cf.name cf.code fa)

/-- The function `findCode` would run for `fn`, with its annotation. -/
def lookupFn (code : Code) (A : List FnAnn) (fn : String) : Option (FnCode × FnAnn) :=
  ((code.zip A).find? (·.1.name == fn)).map fun x => (x.1.code, x.2)

def sigOf (code : Code) (A : List FnAnn) (fn : String) : Option (Nat × Nat) :=
  (lookupFn code A fn).map fun x => (x.2.params, x.2.results)

/-- `A` (one `FnAnn` per function, in order) is a consistent height annotation of `code`. -/
def verify (code : Code) (A : List FnAnn) : Bool :=
  decide (code.length = A.length) && (code.zip A).all fun x => checkFn (sigOf code A) x.1 x.2

/-! ## Inference (untrusted) -/

/-- Names of builtins and members whose calls leave no result (they return `null`): a hint for
the result count of `callVal` sites. -/
def nullCallees : List String :=
  ["print", "println", "debug", "assert", "log", "concat", "insert", "push", "push_front", "remove", "sort", "set"]

/-- The hint for the `callVal` at `ip`: the instruction two before it names the callee. -/
def dynHint (c : FnCode) (ip : Nat) : Option Nat :=
  match ip with
  | k + 2 =>
    match c[k]? with
    | some (.getGlob n, _) => if nullCallees.contains n then some 0 else if builtinNames.contains n then some 1 else none
    | some (.member n, _) => if nullCallees.contains n then some 0 else some 1
    | _ => none
  | _ => none

/-- Parameters of a function: the `setVar`s directly after its leading `addMp`. -/
def leadingSetVars : FnCode → Nat
  | (.setVar _, _) :: rest => leadingSetVars rest + 1
  | _ => 0

def paramsOf (c : FnCode) : Nat :=
  match c with
  | (.addMp _, _) :: rest => leadingSetVars rest
  | _ => 0

structure InfState where
  pts : Array (Option Ann)
  dyn : List (Nat × Nat) := []
  results : Option Nat := none
  work : List Nat := []

/-- Record annotation `a` for `ip`; `none` on a conflict. -/
def InfState.record (st : InfState) (x : Nat × Ann) : Option InfState :=
  if h : x.1 < st.pts.size then
    match st.pts[x.1] with
    | none => some { st with pts := st.pts.set x.1 (some x.2), work := x.1 :: st.work }
    | some a' => if a' = x.2 then some st else none
  else none

def InfState.recordAll (st : InfState) : List (Nat × Ann) → Option InfState
  | [] => some st
  | x :: xs => (st.record x).bind (·.recordAll xs)

/-- Worklist propagation with backtracking over the result count of `callVal` sites.
`budget` bounds the total number of instructions visited. Returns the final state (or `none`)
and the remaining budget. -/
def inferGo (sig : String → Option (Nat × Nat)) (name : String) (c : Array (RInstr × Span)) (cl : FnCode) :
    Nat → Nat → InfState → Option InfState × Nat
  | 0, budget, _ => (none, budget)
  | _, 0, _ => (none, 0)
  | fuel + 1, budget + 1, st =>
    match st.work with
    | [] => (some st, budget)
    | ip :: work =>
      let st := { st with work := work }
      match st.pts[ip]?, c[ip]? with
      | some (some a), some (i, _) =>
        let hOK (pops : Nat) : Bool :=
          match a.hs with
          | [] => true
          | (_, H, _) :: _ => decide (H + pops ≤ a.h)
        let continueWith (st : InfState) (r : Nat) (results : Nat) : Option InfState × Nat :=
          match succs sig name cl results r ip a i with
          | some (pops, l) =>
            if hOK pops then
              match st.recordAll l with
              | some st' => inferGo sig name c cl fuel budget st'
              | none => (none, budget)
            else (none, budget)
          | none => (none, budget)
        match i with
        | .ret =>
          match st.results with
          | some q => continueWith st 0 q
          | none => continueWith { st with results := some a.h } 0 a.h
        | .callImm f =>
          match sig f with
          | some _ => continueWith st 0 0
          | none => inferGo sig name c cl fuel budget st     -- callee not yet known: leave the successor open
        | .callVal =>
          let first := (dynHint cl ip).getD 1
          match continueWith { st with dyn := (ip, first) :: st.dyn } first 0 with
          | (some st', b) => (some st', b)
          | (none, b) =>
            let second := 1 - first
            match b with
            | 0 => (none, 0)
            | b' + 1 =>
              match succs sig name cl 0 second ip a i with
              | some (pops, l) =>
                if hOK pops then
                  match { st with dyn := (ip, second) :: st.dyn }.recordAll l with
                  | some st' => inferGo sig name c cl fuel b' st'
                  | none => (none, b')
                else (none, b')
              | none => (none, b')
        | _ => continueWith st 0 0
      | _, _ => (none, budget)

/-- Annotation of one function under the signatures `sig` known so far. -/
def inferFn (sig : String → Option (Nat × Nat)) (cf : CompiledFn) : Option FnAnn × Option Nat :=
  let n := cf.code.length
  let params := paramsOf cf.code
  let st0 : InfState :=
    { pts := (Array.replicate n none).setIfInBounds 0 (some { h := params, off := 0, hs := [] }), work := [0] }
  if n = 0 then (none, none)
  else
    match (inferGo sig cf.name cf.code.toArray cf.code (n * n + n + 1) (64 * n + 64) st0).1 with
    | some st =>
      (some { params := params, results := st.results.getD 0, pts := st.pts.toList, dyn := st.dyn }, st.results)
    | none => (none, none)

/-- Rounds of signature inference: a function's result count becomes known once one of its
`ret`s has been reached. -/
def inferSigs (code : Code) : Nat → List (String × Nat × Nat) → List (String × Nat × Nat)
  | 0, known => known
  | rounds + 1, known =>
    let sig (f : String) : Option (Nat × Nat) := known.lookup f
    let known' := code.foldl (fun acc cf =>
      if (acc.lookup cf.name).isSome then acc
      else
        match (inferFn sig cf).2 with
        | some q => acc ++ [(cf.name, paramsOf cf.code, q)]
        | none => acc) known
    if known'.length = known.length then known else inferSigs code rounds known'

/-- Signatures for the final pass: a function none of whose `ret`s was reached (it always throws
or loops) gets result count 0 — any count is consistent for it. -/
def finalSigs (code : Code) : List (String × Nat × Nat) :=
  let known := inferSigs code (code.length + 1) []
  code.foldl (fun acc cf =>
    if (acc.lookup cf.name).isSome then acc else acc ++ [(cf.name, paramsOf cf.code, 0)]) known

def infer (code : Code) : Option (List FnAnn) :=
  let known := finalSigs code
  let sig (f : String) : Option (Nat × Nat) := known.lookup f
  code.mapM fun cf => (inferFn sig cf).1

/-- The checker: infer an annotation, then verify it. -/
def hcheck (code : Code) : Bool :=
  match infer code with
  | some A => verify code A
  | none => false

/-- Why a program is rejected, for the driver: the first function whose annotation cannot be
inferred, or the first instruction index that fails `checkAt`. -/
def hcheckReport (code : Code) : String :=
  let known := finalSigs code
  let sig (f : String) : Option (Nat × Nat) := known.lookup f
  match code.find? (fun cf => (inferFn sig cf).1.isNone) with
  | some cf => s!"infer {cf.name}"
  | none =>
    match infer code with
    | none => "infer"
    | some A =>
      if verify code A then "ok"
      else
        match (code.zip A).find? (fun x => !checkFn (sigOf code A) x.1 x.2) with
        | some (cf, fa) =>
          match (List.range cf.code.length).find? (fun ip => !checkAt (sigOf code A) cf.name cf.code fa ip) with
          | some ip => s!"verify {cf.name} {ip}"
          | none => s!"verify {cf.name} entry"
        | none => "verify length"

end Hms.Core.BcCheck
