import Hms.Mod.Graph
/-!
# Linking and execution of a module graph

* `resolveFn` / `resolveGlob`: *lexical, per-module* resolution — a name denotes the module's own
  definition or the definition it explicitly imports. This is the specification.
* `linkFn` / `linkGlob`: what the bytecode compiler does (`compiler/util.go`): `getMangledFn`
  looks in the current module and then in *any* module (Go map order), and all modules' globals
  live in one scope keyed by the source name (`mangleVar` writes `varScopes[0][name]`, the module
  visited last wins). Both orders are parameters of the model (finding V22).
* `run`: execution of the action language against globals keyed by (module, name), with the
  resolver as a parameter; `runLex` is the specification, `runLinked ord any` the compiled program.
* `initCode`: shape of the `@init` functions the compiler emits (`compileProgram`), `startup`:
  the events of VM construction followed by `main`.
* `treeExecs`: the modules the tree-walking interpreter executes while importing
  (`interpreter/topLevel.go importItem`): once per module after the fix for V24,
  `treeExecsUnfixed`: once per import statement.
-/
namespace Hms.Mod

/-! ## Resolution -/

/-- The module that defines the function `n` as seen from `m`: `m` itself, or the target of an
import statement of `m` that names `n`. -/
def resolveFn (ms : Modules) (m : Module) (n : String) : Option String :=
  if m.defines .fn n then some m.name
  else m.imports.findSome? fun imp =>
    if imp.items.any (fun it => it.name == n && it.kind == .normal) then
      match findMod ms imp.target with
      | some t => if t.defines .fn n then some t.name else none
      | none => none
    else none

def resolveGlob (ms : Modules) (m : Module) (n : String) : Option String :=
  if m.defines .glob n then some m.name
  else m.imports.findSome? fun imp =>
    if imp.items.any (fun it => it.name == n && it.kind == .normal) then
      match findMod ms imp.target with
      | some t => if t.defines .glob n then some t.name else none
      | none => none
    else none

/-- `getMangledFn`: own module first, else the first module of `any` (an arbitrary order: the Go
code ranges over a map) that has a function of that name. -/
def linkFn (any : Modules) (m : Module) (n : String) : Option String :=
  if m.defines .fn n then some m.name
  else (any.find? fun t => t.defines .fn n).map (·.name)

/-- `getMangled` for a global: one scope for all modules, keyed by the source name; the module
compiled last (in visiting order `ord`) has overwritten the entry. -/
def linkGlob (ord : Modules) (n : String) : Option String :=
  (ord.reverse.find? fun t => t.defines .glob n).map (·.name)

structure Resolver where
  fn : Module → String → Option String
  glob : Module → String → Option String

def lexical (ms : Modules) : Resolver := ⟨resolveFn ms, resolveGlob ms⟩
def linked (ord any : Modules) : Resolver := ⟨linkFn any, fun _ n => linkGlob ord n⟩

/-! ## Name clashes (the hypothesis finding V22 costs) -/

def definers (ms : Modules) (k : ItemKind) (n : String) : List String :=
  (ms.filter fun m => m.defines k n).map (·.name)

def globalNames (ms : Modules) : List String :=
  ms.flatMap fun m => (m.items.filter (·.kind == .glob)).map (·.name)

def fnNames (ms : Modules) : List String :=
  ms.flatMap fun m => (m.items.filter (·.kind == .fn)).map (·.name)

/-- Names a module refers to without defining them: the names of its `normal` imports. -/
def importedNames (m : Module) : List String :=
  m.imports.flatMap fun i => (i.items.filter (·.kind == .normal)).map (·.name)

/-- No two modules define a global of the same name; a function name that some module imports
(instead of defining it) is defined by at most one module; no name is a function in one module
and a global in another. -/
def noCrossModuleClash (ms : Modules) : Bool :=
  (globalNames ms).Nodup &&
  (ms.all fun m => (importedNames m).all fun n => m.defines .fn n || (definers ms .fn n).length ≤ 1) &&
  ((fnNames ms).all fun n => !(globalNames ms).contains n)

/-! ## Execution -/

structure RState where
  globals : List ((String × String) × String) := []
  out : String := ""
  deriving Repr, Inhabited, DecidableEq

def RState.read (s : RState) (m n : String) : Option String := s.globals.lookup (m, n)

def RState.write (s : RState) (m n v : String) : RState :=
  { s with globals := s.globals.map fun (k, old) => if k == (m, n) then (k, v) else (k, old) }

/-- Every module's globals with their initial values (each initialised exactly once). -/
def initGlobals (ms : Modules) : List ((String × String) × String) :=
  ms.flatMap fun m => m.inits.map fun (n, v) => ((m.name, n), v)

def readAll (R : Resolver) (s : RState) (m : Module) : List String → Option (List String)
  | [] => some []
  | g :: rest =>
    match R.glob m g with
    | none => none
    | some d =>
      match s.read d g, readAll R s m rest with
      | some v, some vs => some (v :: vs)
      | _, _ => none

/-- Run a list of actions of module `m`; `none` = stuck (unresolved name) or out of fuel. -/
def run (ms : Modules) (R : Resolver) : Nat → Module → List Act → RState → Option RState
  | _, _, [], s => some s
  | 0, _, _ :: _, _ => none
  | fuel + 1, m, a :: rest, s =>
    let s' : Option RState :=
      match a with
      | .say label gs =>
        (readAll R s m gs).map fun vs => { s with out := s.out ++ " ".intercalate (label :: vs) ++ "\n" }
      | .bump g =>
        match R.glob m g with
        | none => none
        | some d => (s.read d g).map fun v => s.write d g (v ++ "!")
      | .call f =>
        match R.fn m f with
        | none => none
        | some d =>
          match findMod ms d with
          | none => none
          | some dm =>
            match dm.bodies.lookup f with
            | none => none
            | some body => run ms R fuel dm body s
    match s' with
    | none => none
    | some s' => run ms R fuel m rest s'

def runMain (ms : Modules) (R : Resolver) (fuel : Nat) (entry : String := "main") : Option String :=
  match findMod ms entry with
  | none => none
  | some m =>
    match m.bodies.lookup "main" with
    | none => none
    | some body => (run ms R fuel m body { globals := initGlobals ms }).map (·.out)

def runLex (ms : Modules) (fuel : Nat) : Option String := runMain ms (lexical ms) fuel
def runLinked (ms ord any : Modules) (fuel : Nat) : Option String := runMain ms (linked ord any) fuel

/-- Every name used in a body resolves lexically (what the analyzer guarantees for an accepted
program). -/
def closedBody (ms : Modules) (m : Module) : List Act → Bool
  | [] => true
  | .say _ gs :: rest => gs.all (fun g => (resolveGlob ms m g).isSome) && closedBody ms m rest
  | .bump g :: rest => (resolveGlob ms m g).isSome && closedBody ms m rest
  | .call f :: rest => (resolveFn ms m f).isSome && closedBody ms m rest

def closed (ms : Modules) : Bool := ms.all fun m => m.bodies.all fun (_, b) => closedBody ms m b

/-! ## The `@init` functions -/

inductive InitInstr where
  | setGlob (module name : String)
  | callInit (module : String)
  | ret
  deriving DecidableEq, Repr, Inhabited

def InitInstr.render : InitInstr → String
  | .setGlob m n => s!"SetGlob({m}.{n})"
  | .callInit m => s!"Call(@{m}_@init)"
  | .ret => "Return"

def globalsOf (m : Module) : List String := (m.items.filter (·.kind == .glob)).map (·.name)

/-- `@init` of module `m`: its globals in declaration order; the entry module then calls every
other module's `@init` (in the order `ord` in which the Go code happens to range over `initFns`);
every `@init` ends with `Return` (after the fix for V31 an `@init` is never empty). -/
def initOf (ord : Modules) (entry : String) (m : Module) : List InitInstr :=
  (globalsOf m).map (.setGlob m.name) ++
  (if m.name == entry then (ord.filter (·.name != entry)).map (fun o => .callInit o.name) else []) ++
  [.ret]

/-- The unfixed compiler (finding V31): only the entry module's `@init` gets a `Return`; the
`@init` of an imported module without globals is empty. -/
def initOfUnfixed (ord : Modules) (entry : String) (m : Module) : List InitInstr :=
  (globalsOf m).map (.setGlob m.name) ++
  (if m.name == entry then (ord.filter (·.name != entry)).map (fun o => .callInit o.name) ++ [.ret] else [])

/-- The VM refuses to run a function without instructions ("Cannot execute instructions of
non-existent routine", a Go panic of the host). -/
def startupPanicsUnfixed (ord : Modules) (entry : String) : Bool :=
  ord.any fun m => m.name != entry && (initOfUnfixed ord entry m).isEmpty

def initCode (ord : Modules) (entry : String) : List (String × List InitInstr) :=
  ord.map fun m => (m.name, initOf ord entry m)

inductive Event where
  | init (module : String)
  | main
  deriving DecidableEq, Repr, Inhabited

/-- Events of running one `@init` (a call runs the callee's `@init`; callees call nobody). -/
def initEvents (code : List (String × List InitInstr)) : Nat → String → List Event
  | 0, _ => []
  | fuel + 1, m =>
    .init m :: ((code.lookup m).getD []).flatMap fun i =>
      match i with
      | .callInit o => initEvents code fuel o
      | _ => []

/-- `runtime.NewVM` runs the entry module's `@init`; the host then spawns `main`. -/
def startup (ord : Modules) (entry : String) : List Event :=
  initEvents (initCode ord entry) 2 entry ++ [.main]

/-! ## The interpreter's import execution -/

/-- Modules executed by `execModule(name)` and the imports below it, in order; `done` = modules
already instantiated. After the fix for V24 `importItem` executes a module only if it has not
been instantiated yet. -/
def treeExecs (ms : Modules) : Nat → List String → String → List String × List String
  | 0, done, _ => ([], done)
  | fuel + 1, done, name =>
    match findMod ms name with
    | none => ([], done)
    | some m =>
      m.imports.foldl (fun (acc : List String × List String) imp =>
        if (findMod ms imp.target).isNone || acc.2.contains imp.target then acc
        else
          let (ex, done') := treeExecs ms fuel acc.2 imp.target
          (acc.1 ++ ex, done')) ([name], name :: done)

/-- The unfixed interpreter: `importItem` executes the module for every import statement. -/
def treeExecsUnfixed (ms : Modules) : Nat → String → List String
  | 0, _ => []
  | fuel + 1, name =>
    match findMod ms name with
    | none => []
    | some m =>
      name :: m.imports.flatMap fun imp =>
        if (findMod ms imp.target).isNone then [] else treeExecsUnfixed ms fuel imp.target

end Hms.Mod
