import Hms.Mod.Link
/-!
# Computations of the Go code that range over a map, as functions of the *visiting order*

The Go code iterates over maps in `compileProgram`, `relocateLabels`, `renameVariables`,
`Compile`, `getMangledFn`, `dropScope`, and in the value libraries (`Display`, `IsEqual`,
`Clone`, `Fields`, JSON). Each is modelled here as a function of the list of entries in the order
the iteration happens to produce; C14's theorems say that the observable result does not change
when that list is permuted (`HmsProofs/Lemmas/ModPerm.lean`).

Also: the compiler's name mangling, unfixed (finding V26) and fixed (separator).
-/
namespace Hms.Mod

/-! ## Name mangling (`compiler/util.go`: `mangleFn`, `mangleVar`) -/

/-- Unfixed: `fmt.Sprintf("@%s_%s%d", module, name, counter)`. -/
def mangleVarUnfixedL (m n : List Char) (c : Nat) : List Char := '@' :: m ++ '_' :: n ++ Nat.toDigits 10 c

/-- Fixed: `fmt.Sprintf("@%s.%s.%d", module, name, counter)`. -/
def mangleVarFixedL (m n : List Char) (c : Nat) : List Char := '@' :: m ++ '.' :: n ++ '.' :: Nat.toDigits 10 c

/-- Unfixed: `fmt.Sprintf("@%s_%s", module, fn)`. -/
def mangleFnUnfixedL (m n : List Char) : List Char := '@' :: m ++ '_' :: n

/-- Fixed: `fmt.Sprintf("@%s.%s", module, fn)`. -/
def mangleFnFixedL (m n : List Char) : List Char := '@' :: m ++ '.' :: n

def mangleVarUnfixed (m n : String) (c : Nat) : String := String.ofList (mangleVarUnfixedL m.toList n.toList c)
def mangleVarFixed (m n : String) (c : Nat) : String := String.ofList (mangleVarFixedL m.toList n.toList c)
def mangleFnUnfixed (m n : String) : String := String.ofList (mangleFnUnfixedL m.toList n.toList)
def mangleFnFixed (m n : String) : String := String.ofList (mangleFnFixedL m.toList n.toList)

/-! ## Maps as association lists in iteration order -/

/-- What the rest of the program can observe of a Go map: the value stored under each key. -/
def obsMap {β} (l : List (String × β)) (k : String) : Option β := l.lookup k

/-- A loop `for k, v := range m { out[k] = f(k, v) }` (`relocateLabels`, `Compile`, `Clone`,
`Fields`, `upgradeValue`, the interpreter's argument binding, scope additions). -/
def rebuild {β γ} (f : String → β → γ) (l : List (String × β)) : List (String × γ) :=
  l.map fun (k, v) => (k, f k v)

/-! ## `renameVariables` -/

/-- Instructions as far as `renameVariables` looks at them. -/
inductive VInstr where
  | getVar (v : String)
  | setVar (v : String)
  | other (tag : Nat)
  deriving DecidableEq, Repr, Inhabited

inductive SlotInstr where
  | getVar (slot : Nat)
  | setVar (slot : Nat)
  | other (tag : Nat)
  deriving DecidableEq, Repr, Inhabited

def VInstr.var? : VInstr → Option String
  | .getVar v => some v
  | .setVar v => some v
  | .other _ => none

def varsOf (code : List VInstr) : List String := code.filterMap VInstr.var?

/-- One function: `cnt` starts at 0, the `slot` map is shared with the functions visited before. -/
def renameCode (slots : List (String × Nat)) (cnt : Nat) :
    List VInstr → List (String × Nat) × List SlotInstr
  | [] => (slots, [])
  | i :: rest =>
    match i with
    | .other t =>
      let (s, out) := renameCode slots cnt rest
      (s, .other t :: out)
    | .getVar v =>
      match slots.lookup v with
      | some n => let (s, out) := renameCode slots cnt rest; (s, .getVar n :: out)
      | none => let (s, out) := renameCode ((v, cnt) :: slots) (cnt + 1) rest; (s, .getVar cnt :: out)
    | .setVar v =>
      match slots.lookup v with
      | some n => let (s, out) := renameCode slots cnt rest; (s, .setVar n :: out)
      | none => let (s, out) := renameCode ((v, cnt) :: slots) (cnt + 1) rest; (s, .setVar cnt :: out)

/-- All functions, in visiting order, threading the shared `slot` map. -/
def renameAll (slots : List (String × Nat)) : List (String × List VInstr) → List (String × List SlotInstr)
  | [] => []
  | (name, code) :: rest =>
    let (s, out) := renameCode slots 0 code
    (name, out) :: renameAll s rest

/-- No variable name occurs in two functions (what unique mangled names give when no variable
is captured by a closure: finding V12 is the case where this fails). -/
def noSharedVars : List (String × List VInstr) → Bool
  | [] => true
  | (_, code) :: rest =>
    (rest.all fun (_, other) => (varsOf code).all fun v => !(varsOf other).contains v) && noSharedVars rest

/-! ## Object fields: `Display`, `IsEqual`, `keys` -/

def keyLe {β} (a b : String × β) : Bool := decide (a.1 ≤ b.1)

/-- `sort.Strings(keys)` followed by a loop over the sorted keys. -/
def sortByKey {β} (l : List (String × β)) : List (String × β) := l.mergeSort keyLe

/-- `Display` of an object whose fields are already displayed. -/
def displayFields (l : List (String × String)) : String :=
  "{" ++ ", ".intercalate ((sortByKey l).map fun (k, v) => k ++ ": " ++ v) ++ "}"

/-- `IsEqual` of two objects (after the fix for X2: the field counts are compared first). -/
def fieldsEqual {β} [BEq β] (l r : List (String × β)) : Bool :=
  l.length == r.length && l.all fun (k, v) => r.lookup k == some v

/-! ## `dropScope`: one warning per unused entry -/

structure ScopeEntry where
  used : Bool
  pub : Bool
  origin : Nat
  deriving DecidableEq, Repr, Inhabited

/-- The warning `dropScope` emits for a scope entry (if any): label and name. -/
def unusedWarning (e : String × ScopeEntry) : Option (String × String) :=
  if e.2.used || e.2.pub || e.1.startsWith "_" then none
  else match e.2.origin with
    | 0 => some ("Variable", e.1)
    | 3 => some ("Parameter", e.1)
    | 1 => some ("Import", e.1)
    | _ => none

def dropScopeWarnings (scope : List (String × ScopeEntry)) : List (String × String) :=
  scope.filterMap unusedWarning

end Hms.Mod
